#!/venv/bin/python
"""single entry point: check.py <Cxx> [--tier quick|thorough] [--replay file]"""
import os
import sys

sys.path.insert(0, os.path.dirname(os.path.abspath(__file__)))
from vlib.core import main

main()
