/-
Model/KernTraceBase.lean — the few helpers the regenerated kernel traces (Gen/KernTrace.lean) need on top of
`Num`: integer powers as numpy's `x ** k` for a literal non-negative `k`.  Mathlib-free.
-/
import MagpyVerif.Model.Kernels

namespace MagpyVerif.Kern
variable {α : Type} [Num α]

/-- `x ** k` for a literal natural exponent (left-nested product; `x ** 0 = 1`) -/
def powN (x : α) : Nat → α
  | 0 => n 1
  | 1 => x
  | k + 2 => powN x (k + 1) * x

end MagpyVerif.Kern
