/-
Model/CallArgs.lean — (C17) the inputs that are not attribute values of the value grammar, exactly as coded:

  1. `SetterForm`: an analysis of the regenerated statement tree of EVERY property setter (Gen/Setters.lean): the events
     "may reject the input" / "changes object state" along every path through the body (loops unrolled 0, 1 and 2 times; a private helper
     of the same class called as a statement is inlined); a rejected assignment changes nothing when at every point of rejection either
     nothing has been written yet (validate-then-assign) or the point lies in a `try` whose handler puts back every write so far and
     re-raises (assign-under-restore; the handler's statements are analysed: saved references, loops over the same iterable, recomputations).
  2. `checkPixelAgg`: `check_format_pixel_agg` over a table of numpy names (regenerated from the installed numpy,
     Gen/NpNames.lean): `getattr(np, name)` and `isinstance(func(x), numbers.Number)`.
  3. `validateFieldFunc`: `validate_field_func` (None | callable with args (field, observers, …) whose results for 'B' and 'H'
     on a (2,3) test input are None or an ndarray of shape (2,3)); the `field_func` setter of BaseSource.
  4. `validateMode`: `TriangularMesh._validate_mode_arg` (`arg not in (True, False, 'warn', 'raise', 'ignore', 'skip')` uses `==`).
  5. `tetraInOut` / `trimeshInOut` / `inOutLevel2`: what the unvalidated keyword `in_out` does in `getBH_level2`,
     `point_inside` and `BHJM_magnet_trimesh` for an arbitrary value.
  6. `pyTruth`: `if sumup:` / `if squeeze:` — the flags are used by truth value only.
  7. `styleSetter` / `styleCtor` / `styleRealise`: the `style` argument (setter: `_validate_style`; constructor:
     `_process_style_kwargs`, validation deferred to the first access of `.style`).
  8. `checkAttrs` / `level2Checks`: `check_dimensions` / `check_excitations` as called by `getBH_level2` before anything else.

Mathlib-free, computable; the `valid` driver family runs every function of this file against the real code.
-/
import MagpyVerif.Model.Validators
import MagpyVerif.Gen.Setters
import MagpyVerif.Gen.NpNames

namespace MagpyVerif.Valid

/-- results of the validators can be compared (used by `decide` in the property files) -/
instance {ε α : Type} [DecidableEq ε] [DecidableEq α] : DecidableEq (Except ε α)
  | .ok a, .ok b => if h : a = b then isTrue (by rw [h]) else isFalse (fun h' => by cases h'; exact h rfl)
  | .error a, .error b => if h : a = b then isTrue (by rw [h]) else isFalse (fun h' => by cases h'; exact h rfl)
  | .ok _, .error _ => isFalse (fun h => by cases h)
  | .error _, .ok _ => isFalse (fun h => by cases h)

/-! ## 1. the form of the setters -/
namespace SetterForm
open MagpyVerif.Gen.Setters

/-- calls that can reject the value being assigned: the validators of input_checks.py, the style validation, and the
collection operations (`add` validates before it links: C11 `add_rejected_changes_nothing`) -/
def raisingCallees : List String :=
  ["check_format_input_vector", "check_format_input_scalar", "check_format_input_vertices",
   "check_format_input_cylinder_segment", "check_format_input_orientation", "check_format_input_obj", "validate_field_func",
   "self._validate_style", "format_obj_input", "self.add", "inp.add", "self._parent.remove"]

/-- calls that change object state (`self._update_src_and_sens` recomputes the typed views from `_children`: calling it again
after `_children` was put back undoes it) -/
def mutatingCallees : List String :=
  ["self.add", "inp.add", "self._parent.remove", "self._update_src_and_sens", "child.rotate"]

/-- calls that neither reject the input nor change object state: type tests, numpy / scipy conversions of already validated
data, copies and appends of local lists, and the low-magnetization *warning* (not an exception unless the user escalates
warnings: then it raises after both attributes were written — C02 `warned_assignment_writes_state`) -/
def quietCallees : List String :=
  ["isinstance", "getattr", "range", "list", "any", "pad_slice_path", "R.from_quat", "np.squeeze", "np.linalg.norm",
   "self._orientation.as_quat", "old_ori_pad.inv", "new_children.append", "warnings.warn"]

mutual
def calleesS : Stmt → List String
  | .assign _ _ cs => cs
  | .assignElem _ cs => cs
  | .save _ _ => []
  | .restore _ _ => []
  | .expr cs => cs
  | .raise _ => []
  | .ret cs => cs
  | .ite cs thn els => cs ++ calleesL thn ++ calleesL els
  | .loop cs body => cs ++ calleesL body
  | .tryExcept body _ h => calleesL body ++ calleesL h
  | .inline _ cs body => cs ++ calleesL body
  | .skip _ => []
def calleesL : List Stmt → List String
  | [] => []
  | s :: r => calleesS s ++ calleesL r
end

mutual
/-- does the statement tree contain any write of object state (an attribute assignment or a state-changing call), anywhere -/
def writesS : Stmt → Bool
  | .assign _ isAttr cs => isAttr || cs.any mutatingCallees.contains
  | .assignElem _ _ => true
  | .save _ _ => false
  | .restore _ _ => true
  | .expr cs => cs.any mutatingCallees.contains
  | .raise _ => false
  | .ret cs => cs.any mutatingCallees.contains
  | .ite cs thn els => cs.any mutatingCallees.contains || writesL thn || writesL els
  | .loop cs body => cs.any mutatingCallees.contains || writesL body
  | .tryExcept body _ h => writesL body || writesL h
  | .inline _ cs body => cs.any mutatingCallees.contains || writesL body
  | .skip _ => false
def writesL : List Stmt → Bool
  | [] => false
  | s :: r => writesS s || writesL r
end

/-- a module-level helper (name, regenerated body) that can only reject: its body writes no object state anywhere, and every call in it is a
known rejecting or quiet function or the helper itself (a recursive call then writes nothing either) -/
def helperRaisesOnly (h : String × List Stmt) : Bool :=
  !writesL h.2 && (calleesL h.2).all fun c => c == h.1 || raisingCallees.contains c || quietCallees.contains c

/-- the regenerated module-level helpers (`Gen.Setters.helpers`) that can only reject: a call of one is a plain point of rejection -/
def raisingHelper (c : String) : Bool :=
  MagpyVerif.Gen.Setters.helpers.any fun h => h.1 == c && helperRaisesOnly h

/-- can a call of `c` reject the assigned value -/
def canReject (c : String) : Bool := raisingCallees.contains c || raisingHelper c

/-- every call name of a setter must be known to the analysis -/
def classified (c : String) : Bool :=
  canReject c || mutatingCallees.contains c || quietCallees.contains c

/-- a write of an exception handler, in source order -/
inductive HW where
  /-- `obj.attr = local` -/
  | restore (target loc : String)
  /-- `<loop element>.attr = …` -/
  | assignElem (target : String)
  /-- `obj.attr = <another expression>` -/
  | assign (target : String)
  /-- a state-changing call -/
  | call (callee : String)
  deriving Repr, DecidableEq

inductive Ev where
  /-- a point where the method can be left with an exception caused by the assigned value, no handler around it -/
  | mayRaise (what : String)
  /-- such a point inside a `try` whose handler performs the writes `handler` and re-raises -/
  | mayRaiseR (what : String) (handler : List HW)
  /-- a change of object state: an attribute is rebound, or a state-changing method is called -/
  | mutate (what : String)
  /-- an attribute of every element of a loop's iterable is rebound -/
  | mutateElem (what : String)
  /-- `loc = src`: a local name now refers to the attribute's value (`src = ""`: the local was assigned something else) -/
  | save (loc src : String)
  deriving Repr, DecidableEq

def Ev.isRaise : Ev → Bool
  | .mayRaise _ => true
  | .mayRaiseR _ _ => true
  | _ => false

def Ev.isWrite : Ev → Bool
  | .mutate _ => true
  | .mutateElem _ => true
  | _ => false

/-- a rejecting call is entered before it changes anything -/
def calleeEvs (c : String) : List Ev :=
  (if canReject c then [Ev.mayRaise c] else []) ++ (if mutatingCallees.contains c then [Ev.mutate c] else [])

def callsEvs (cs : List String) : List Ev := cs.flatMap calleeEvs

/-- how a path ends -/
inductive End where
  | open | returned | raised
  deriving Repr, DecidableEq

/-- a path: its events, and whether it left the method -/
abbrev Path := List Ev × End

/-- sequential composition of path sets -/
def seqPaths (ps rest : List Path) : List Path :=
  ps.flatMap fun p => if p.2 != End.open then [p] else rest.map fun q => (p.1 ++ q.1, q.2)

mutual
/-- the writes of a handler in source order (branches are not looked into: a handler with a branch is not accepted) -/
def hwsS : Stmt → List HW
  | .assign t isAttr cs => (cs.filter mutatingCallees.contains).map HW.call ++ (if isAttr then [HW.assign t] else [])
  | .assignElem t cs => (cs.filter mutatingCallees.contains).map HW.call ++ [HW.assignElem t]
  | .restore t l => [HW.restore t l]
  | .expr cs => (cs.filter mutatingCallees.contains).map HW.call
  | .loop cs body => (cs.filter mutatingCallees.contains).map HW.call ++ hwsL body
  | _ => []
def hwsL : List Stmt → List HW
  | [] => []
  | s :: r => hwsS s ++ hwsL r
end

mutual
/-- only assignments, calls and loops over them -/
def straightS : Stmt → Bool
  | .assign _ _ _ => true
  | .assignElem _ _ => true
  | .save _ _ => true
  | .restore _ _ => true
  | .expr _ => true
  | .loop _ body => straightL body
  | .skip _ => true
  | _ => false
def straightL : List Stmt → Bool
  | [] => true
  | s :: r => straightS s && straightL r
end

/-- the attribute writes of a handler come before its recomputations (`self._update_src_and_sens()` after `self._children = …`) -/
def hwOrdered : List HW → Bool
  | [] => true
  | .call _ :: r => r.all (fun w => match w with | .call _ => true | _ => false)
  | _ :: r => hwOrdered r

/-- a handler that can count as a restore: it catches every exception, consists of straight-line writes that cannot themselves reject,
attribute writes before recomputations, and ends by re-raising -/
def goodHandler (excType : String) (h : List Stmt) : Bool :=
  (excType == "Exception" || excType == "BaseException") &&
  (match h.getLast? with
   | some (.raise exc) => exc == ""
   | _ => false) &&
  straightL h.dropLast && (calleesL h).all (fun c => !canReject c && classified c) && hwOrdered (hwsL h)

/-- inside a `try` with a restoring handler a point of rejection becomes a point of rejection under restore -/
def underRestore (h : List HW) : Ev → Ev
  | .mayRaise w => .mayRaiseR w h
  | e => e

mutual
def pathsS : Stmt → List Path
  | .assign t isAttr cs => [(callsEvs cs ++ (if isAttr then [Ev.mutate t] else [Ev.save t ""]), End.open)]
  | .assignElem t cs => [(callsEvs cs ++ [Ev.mutateElem t], End.open)]
  | .save l src => [([Ev.save l src], End.open)]
  | .restore t _ => [([Ev.mutate t], End.open)]
  | .expr cs => [(callsEvs cs, End.open)]
  | .raise exc => [([Ev.mayRaise exc], End.raised)]
  | .ret cs => [(callsEvs cs, End.returned)]
  | .ite cs thn els => seqPaths [(callsEvs cs, End.open)] (pathsL thn ++ pathsL els)
  | .loop cs body =>
    seqPaths [(callsEvs cs, End.open)] ([([], End.open)] ++ pathsL body ++ seqPaths (pathsL body) (pathsL body))
  | .tryExcept body excType h =>
    -- the paths on which the handler runs are the prefixes of these up to a point of rejection: the check below looks at every
    -- point of rejection of a path, so the prefixes need not be listed; a handler that is not a restore leaves the points as they are
    if goodHandler excType h then (pathsL body).map fun p => (p.1.map (underRestore (hwsL h)), p.2) else pathsL body
  | .inline _ cs body =>
    seqPaths [(callsEvs cs, End.open)] ((pathsL body).map fun p => (p.1, if p.2 == End.returned then End.open else p.2))
  | .skip _ => [([], End.open)]
def pathsL : List Stmt → List Path
  | [] => [([], End.open)]
  | s :: r => seqPaths (pathsS s) (pathsL r)
end

/-- validate-then-assign along one path: after the first state change there is no point of rejection -/
def vta : List Ev → Bool
  | [] => true
  | .mutate _ :: r => r.all fun e => !e.isRaise
  | .mutateElem _ :: r => r.all fun e => !e.isRaise
  | _ :: r => vta r

/-- does the handler `h` undo the write `e`, given the references `saved` (local, attribute) taken before the attribute was written:
a recomputation is undone by calling it again; a rebound attribute by assigning the saved reference back; the attribute of every element of an
iterable by a loop over the same iterable that assigns it (the value it assigns is not examined: for `child._parent = self` it is the
collection's invariant that the removed children had this parent — C11) -/
def covered (saved : List (String × String)) (h : List HW) : Ev → Bool
  | .mutate t =>
    if mutatingCallees.contains t then h.contains (.call t)
    else h.any fun w => match w with
      | .restore t' l => t' == t && saved.contains (l, t)
      | _ => false
  | .mutateElem t => h.contains (.assignElem t)
  | _ => true

/-- rejection without change along one path: at a plain point of rejection nothing has been written; at a point of rejection under restore
every write so far is undone by the handler.  `dirty`: the writes so far; `saved`: the references to attribute values taken before the
attribute was written and not reassigned since -/
def rwcAux (dirty : List Ev) (saved : List (String × String)) : List Ev → Bool
  | [] => true
  | .mayRaise _ :: r => dirty.isEmpty && rwcAux dirty saved r
  | .mayRaiseR _ h :: r => dirty.all (covered saved h) && rwcAux dirty saved r
  | .save l src :: r =>
    let kept := saved.filter fun p => p.1 != l
    rwcAux dirty (if src == "" || dirty.contains (.mutate src) then kept else (l, src) :: kept) r
  | .mutate t :: r => rwcAux (.mutate t :: dirty) saved r
  | .mutateElem t :: r => rwcAux (.mutateElem t :: dirty) saved r

def rwc (evs : List Ev) : Bool := rwcAux [] [] evs

/-- every call is known and the setter is of the form validate-then-assign: on every path through the body (loops 0, 1, 2 times)
no state change precedes a point of rejection -/
def vtaForm (s : Setter) : Bool :=
  (calleesL s.body).all classified && (pathsL s.body).all fun p => vta p.1

/-- every call is known and a rejected assignment changes nothing: on every path, at every point of rejection, nothing has been written or
(inside a `try` with a restoring handler) everything written is put back -/
def form (s : Setter) : Bool :=
  (calleesL s.body).all classified && (pathsL s.body).all fun p => rwc p.1

/-- the paths of a setter on which a write is neither preceded by every point of rejection nor undone -/
def badPaths (s : Setter) : List Path := (pathsL s.body).filter fun p => !rwc p.1

def name (s : Setter) : String × String := (s.cls, s.attr)

end SetterForm

/-! ## 2. `pixel_agg` -/

/-- a table of numpy attribute names: (name, kind, exception, reduces over an axis tuple, reduces over one axis) -/
abbrev NpTable := List (String × String × String × Bool × Bool)

def npLookup (tbl : NpTable) (s : String) : Option (String × String × String × Bool × Bool) :=
  tbl.find? fun r => r.1 == s

/-- `check_format_pixel_agg(pixel_agg)`: `None` passes; `getattr(np, pixel_agg)` raises TypeError for a non-string and
AttributeError for an unknown name; `pixel_agg_func(x)` on the test array must return a `numbers.Number`, otherwise
AttributeError; whatever the call itself raises (TypeError for a non-callable attribute) propagates.  Returns the function:
here its name. -/
def checkPixelAgg (tbl : NpTable) : PyVal → Except Err Stored
  | .none => .ok .none
  | .str s =>
    match npLookup tbl s with
    | Option.none => .error (.foreign "AttributeError")
    | some (_, kind, exc, _, _) =>
      if kind == "number" then .ok (.text s)
      else if kind == "other" then .error (.foreign "AttributeError")
      else if kind == "notcallable" then .error (.foreign "TypeError")
      else if kind == "raises" then .error (.foreign exc)
      else if kind == "getattr-raises" then .error (.foreign exc)
      else .error (.foreign "unprobed")
  | _ => .error (.foreign "TypeError")

/-- the later use in `getBH_level2`: `pixel_agg_func(B, axis=tuple(range(3 - B.ndim, -1)))` when all pixel shapes agree,
`np.expand_dims(pixel_agg_func(b, axis=2), axis=2)` otherwise; `false`: the call fails or returns something of another shape
(a foreign error inside the field computation) -/
def pixelAggUse (tbl : NpTable) (s : String) (pixAllSame : Bool) : Bool :=
  match npLookup tbl s with
  | some (_, _, _, axTuple, axInt) => if pixAllSame then axTuple else axInt
  | Option.none => false

/-! ## 3. `field_func` -/

/-- what a candidate field function returns on the test input -/
inductive FFOut where
  | none
  | array (shape : List Nat)
  | notArray
  /-- the function itself raises -/
  | raises (exc : String)
  deriving Repr, DecidableEq

inductive FFVal where
  | none
  | notCallable
  /-- a callable whose signature `inspect.getfullargspec` cannot read (`dict`, `int`, `np.sum`: TypeError) -/
  | unreadable
  /-- names of the positional parameters, result for 'B', result for 'H' -/
  | func (args : List String) (outB outH : FFOut)
  deriving Repr, DecidableEq

def ffOutCheck : FFOut → Except Err Unit
  | .none => .ok ()
  | .array sh => if sh == [2, 3] then .ok () else .error .badUserInput
  | .notArray => .error .badUserInput
  | .raises e => .error (.foreign e)

/-- `validate_field_func(val)` -/
def validateFieldFunc : FFVal → Except Err Unit
  | .none => .ok ()
  | .notCallable => .error .badUserInput
  | .unreadable => .error (.foreign "TypeError")
  | .func args b h =>
    if args.take 2 != ["field", "observers"] then .error .badUserInput
    else match ffOutCheck b with
      | .error e => .error e
      | .ok () => ffOutCheck h

/-- `BaseSource.field_func` setter: editable classes (CustomSource) validate, then assign; every other class raises AttributeError -/
def setFieldFunc (editable : Bool) (old v : FFVal) : FFVal × Option Err :=
  if editable then
    match validateFieldFunc v with
    | .ok () => (v, Option.none)
    | .error e => (old, some e)
  else (old, some (.foreign "AttributeError"))

/-! ## 4. the mode arguments of TriangularMesh -/

/-- `TriangularMesh._validate_mode_arg(arg)`: `arg not in (True, False, 'warn', 'raise', 'ignore', 'skip')` raises ValueError;
`in` compares with `==`, so the numbers 1 and 0 (int, float, numpy.bool_, one-element arrays) pass; only the objects `True` /
`False` are then translated ('warn' / 'skip'), every other accepted value is returned as it is -/
def validateMode : PyVal → Except Err Stored
  | .bool true => .ok (.text "warn")
  | .bool false => .ok (.text "skip")
  | .str s => if s == "warn" || s == "raise" || s == "ignore" || s == "skip" then .ok (.text s) else .error (.foreign "ValueError")
  | .num v => if v == 1 || v == 0 then .ok (.scalar (.fin v)) else .error (.foreign "ValueError")
  | .flt v => if v == 1 || v == 0 then .ok (.scalar (.fin v)) else .error (.foreign "ValueError")
  | .npbool b => .ok (.scalar (.fin (if b then 1 else 0)))
  | .arr sh d =>
    if prod sh == 1 && (d.getD 0 0 == 1 || d.getD 0 0 == 0) then .ok (.scalar (.fin (d.getD 0 0)))
    else .error (.foreign "ValueError")       -- not among the values, or numpy's "truth value is ambiguous"
  | _ => .error (.foreign "ValueError")

inductive Mode where
  | warn | raise | ignore | skip
  deriving Repr, DecidableEq

/-- how the check methods act on the validated mode: `mode != "skip"` runs the check, `mode == "warn"` warns,
`mode == "raise"` raises, anything else is silent -/
def modeEffect : Stored → Mode
  | .text s => if s == "skip" then .skip else if s == "warn" then .warn else if s == "raise" then .raise else .ignore
  | _ => .ignore

/-! ## 5. `in_out` -/

/-- the truth value of `v == "<lit>"` in an `if` (`none`: numpy's ValueError "truth value of an array … is ambiguous";
a numeric array compares element-wise to False) -/
def eqStrTruth (lit : String) : PyVal → Option Bool
  | .str s => some (s == lit)
  | .arr sh _ => if prod sh == 1 then some false else Option.none
  | _ => some false

inductive IOEff where
  | auto | inside | outside
  deriving Repr, DecidableEq

/-- `getBH_level2`: `if in_out != "auto": (warn unless a Tetrahedron / TriangularMesh is among the sources)` — no validation -/
def inOutLevel2 (v : PyVal) : Except Err Unit :=
  match eqStrTruth "auto" v with
  | Option.none => .error (.foreign "ValueError")
  | some _ => .ok ()

/-- `point_inside(points, vertices, in_out)`: 'inside', 'outside', else the geometric test -/
def tetraInOut (v : PyVal) : Except Err IOEff :=
  match eqStrTruth "inside" v with
  | Option.none => .error (.foreign "ValueError")
  | some true => .ok .inside
  | some false =>
    match eqStrTruth "outside" v with
    | Option.none => .error (.foreign "ValueError")
    | some true => .ok .outside
    | some false => .ok .auto

/-- `BHJM_magnet_trimesh`: `if in_out == "auto"` the geometric test, `elif in_out == "inside"` add the polarization, else nothing -/
def trimeshInOut (v : PyVal) : Except Err IOEff :=
  match eqStrTruth "auto" v with
  | Option.none => .error (.foreign "ValueError")
  | some true => .ok .auto
  | some false =>
    match eqStrTruth "inside" v with
    | Option.none => .error (.foreign "ValueError")
    | some true => .ok .inside
    | some false => .ok .outside

/-- `getJ(..., in_out=v)` of a Tetrahedron (`tetra = true`) or a TriangularMesh: level 2, then the core function -/
def inOutCall (tetra : Bool) (v : PyVal) : Except Err IOEff :=
  match inOutLevel2 v with
  | .error e => .error e
  | .ok () => if tetra then tetraInOut v else trimeshInOut v

/-! ## 6. `sumup`, `squeeze` -/

/-- Python's truth value (`if sumup:`); arrays with other than one element raise numpy's ValueError -/
def pyTruth : PyVal → Except Err Bool
  | .none => .ok false
  | .bool b => .ok b
  | .num v => .ok (v != 0)
  | .flt v => .ok (v != 0)
  | .npbool b => .ok b
  | .nanf => .ok true
  | .cplx => .ok true                  -- the grammar's complex numbers are not zero
  | .str s => .ok (s != "")
  | .obj => .ok true
  | .rot _ _ => .ok true
  | .seq xs => .ok (!xs.isEmpty)
  | .arr sh d => if prod sh == 1 then .ok (d.getD 0 0 != 0) else .error (.foreign "ValueError")

/-! ## 7. the `style` argument -/

inductive StyleArg where
  | none
  /-- a dictionary; `defect`: the exception its first offending entry raises in `MagicProperties.update`
  (AttributeError for an unknown property, ValueError / AssertionError for a bad value) -/
  | dict (defect : Option String)
  /-- a style object, of the object's own style class or of another one -/
  | styleObj (own : Bool)
  /-- anything else that is neither iterable nor has a `copy` method (a number) -/
  | other
  deriving Repr, DecidableEq

/-- `BaseGeo.style` setter = `_validate_style(val)`: None → {}, a dict is applied with `style.update`, an object of the own
style class passes (and is ignored: the existing style object is kept — C20 `style_object_assignment_ignored`), anything else
raises ValueError -/
def styleSetter : StyleArg → Except Err Unit
  | .none => .ok ()
  | .dict Option.none => .ok ()
  | .dict (some e) => .error (.foreign e)
  | .styleObj true => .ok ()
  | .styleObj false => .error (.foreign "ValueError")
  | .other => .error (.foreign "ValueError")

/-- what the constructor keeps in `_style_kwargs` -/
inductive StylePending where
  | nothing
  /-- a dictionary (the caller's entries and the `style_*` keywords), with the exception its first offending entry will raise -/
  | dict (defect : Option String)
  /-- the argument itself, unexamined -/
  | raw (a : StyleArg)
  deriving Repr, DecidableEq

/-- `BaseGeo.__init__` → `_process_style_kwargs(style, **kwargs)`.  `kwNames`: do all extra keywords start with `style_`;
`hasKw`: are there any; `kwDefect`: the exception the first offending `style_*` keyword will raise -/
def styleCtor (a : StyleArg) (hasKw kwNames : Bool) (kwDefect : Option String) : Except Err StylePending :=
  if !hasKw then
    match a with
    | .none => .ok .nothing
    | .dict d => .ok (.dict d)
    | a => .ok (.raw a)                                   -- stored as it is
  else
    match a with
    | .none => if kwNames then .ok (.dict kwDefect) else .error (.foreign "TypeError")
    | .dict d => if kwNames then .ok (.dict (d.orElse fun _ => kwDefect)) else .error (.foreign "TypeError")
    | _ => .error (.foreign "TypeError")                  -- dict(style) of something that is not iterable

/-- first access of `.style` after construction: `self._style.update(self._style_kwargs.copy())` -/
def styleRealise : StylePending → Except Err Unit
  | .nothing => .ok ()
  | .dict Option.none => .ok ()
  | .dict (some e) => .error (.foreign e)
  | .raw (.styleObj _) => .error (.foreign "TypeError")        -- "object is not a mapping"
  | .raw _ => .error (.foreign "AttributeError")               -- no attribute 'copy'

/-! ## 8. `check_dimensions`, `check_excitations` -/

inductive CallErr where
  /-- `MagpylibMissingInput` -/
  | missingInput
  | input (e : Err)
  deriving Repr, DecidableEq

/-- a source object as the two checks see it: the public attributes it has (`hasattr`) and whether each is `None` -/
structure SrcObj where
  attrs : List (String × Bool)
  /-- `field_func` is not None -/
  hasFieldFunc : Bool
  deriving Repr, DecidableEq

/-- `for arg in names: if hasattr(src, arg): …; break` — the first of the names the object has -/
def firstPresent (names : List String) (o : SrcObj) : Option (String × Bool) :=
  names.findSome? fun n => o.attrs.find? fun a => a.1 == n

/-- `check_dimensions(sources)` (`names` = dimension, diameter, vertices) / `check_excitations(sources)` (polarization, current,
moment): the first source whose first present attribute is `None` raises MagpylibMissingInput -/
def checkAttrs (names : List String) : List SrcObj → Except CallErr Unit
  | [] => .ok ()
  | o :: r =>
    match firstPresent names o with
    | some (_, true) => .error .missingInput
    | _ => checkAttrs names r

/-- the part of `getBH_level2` that decides whether the field functions run: both checks, then (inside the `try`) the test
`src.field_func is None` of the grouping loop; `run` stands for everything after it -/
def level2Checks {β : Type} (dimNames excNames : List String) (srcs : List SrcObj) (run : Unit → β) : Except CallErr β :=
  match checkAttrs dimNames srcs with
  | .error e => .error e
  | .ok () =>
    match checkAttrs excNames srcs with
    | .error e => .error e
    | .ok () => if srcs.all (·.hasFieldFunc) then .ok (run ()) else .error .missingInput

/-- an object of a registered source class with its dimension-like / excitation-like attribute set or not
(regenerated table `Gen.Setters.classAttrs`) -/
def mkSrc (cls : String) (dimNone excNone : Bool) : Option SrcObj :=
  (Gen.Setters.classAttrs.find? fun r => r.1 == cls).map fun r =>
    ⟨r.2.1.map (fun n => (n, dimNone)) ++ r.2.2.1.map (fun n => (n, excNone)), r.2.2.2⟩

/-! ## 9. constructor arguments -/

/-- follow a constructor parameter through the `forward` rows of the regenerated table `Gen.Setters.ctors` until it is consumed:
(kind, target, via) of the consuming row; `("lost", …)`: no row, or the fuel ran out -/
def resolveCtor (rows : List (String × String × String × String × String)) : Nat → String → String → String × String × String
  | 0, _, _ => ("lost", "", "")
  | fuel + 1, cls, param =>
    match rows.find? fun r => r.1 == cls && r.2.1 == param with
    | Option.none => ("lost", "", "")
    | some (_, _, kind, target, via) => if kind == "forward" then resolveCtor rows fuel via target else (kind, target, via)

/-! ## 10. the values assigned to `Collection.children` and `Collection.collections` (after repo fix 045b334) -/

inductive ObjKind where
  | source | sensor | collection
  /-- the collection that is being assigned to, or a collection that contains it -/
  | selfOrAncestor
  deriving Repr, DecidableEq

/-- what can be assigned: a Magpylib object (with its identity), something that is no Magpylib object (a number, `None`, a string, a dict, …),
or a list / tuple -/
inductive CollVal where
  | obj (id : Nat) (k : ObjKind)
  | junk
  | seq (xs : List CollVal)
  deriving Repr

def asObj : CollVal → Option (Nat × ObjKind)
  | .obj i k => some (i, k)
  | _ => Option.none

/-- `check_format_input_obj(children, allow=…, recursive=False, typechecks=True)`: every entry must be a Magpylib object -/
def allObjs : List CollVal → Option (List (Nat × ObjKind))
  | [] => some []
  | x :: r =>
    match asObj x, allObjs r with
    | some o, some os => some (o :: os)
    | _, _ => Option.none

def hasDup : List Nat → Bool
  | [] => false
  | x :: r => r.contains x || hasDup r

/-- `add`: `if len(children) == 1 and isinstance(children[0], (list, tuple)): children = children[0]` -/
def unwrapArgs : List CollVal → List CollVal
  | [.seq ys] => ys
  | args => args

/-- the checks of `add` on its (unwrapped) arguments: every entry must be a Magpylib object (typechecks); no collection may be the collection
itself or contain it; no object twice (identity); every failure is MagpylibBadUserInput -/
def collAddCore (args : List CollVal) : Except Err (List (Nat × ObjKind)) :=
  match allObjs args with
  | Option.none => .error .badUserInput
  | some os =>
    if os.any (fun o => o.2 == .selfOrAncestor) then .error .badUserInput
    else if hasDup (os.map (·.1)) then .error .badUserInput
    else .ok os

/-- `self.add(*children, override_parent=True)` -/
def collAdd (args : List CollVal) : Except Err (List (Nat × ObjKind)) := collAddCore (unwrapArgs args)

/-- `Collection.children` setter: `if not isinstance(children, (list, tuple)): children = [children]`, then `_replace_children(all, children)`;
the value of an accepted assignment is the new list of children -/
def childrenSetter (v : CollVal) : Except Err (List (Nat × ObjKind)) :=
  collAdd (match v with
    | .seq xs => xs
    | x => [x])

mutual
/-- the entries of a nested list, flattened (what `_refuse_non_objects` visits and what `format_obj_input(…, allow="collections")` returns
before it filters) -/
def leavesC : CollVal → List CollVal
  | .seq xs => leavesCL xs
  | .obj i k => [.obj i k]
  | .junk => [.junk]
def leavesCL : List CollVal → List CollVal
  | [] => []
  | x :: r => leavesC x ++ leavesCL r
end

def isJunk : CollVal → Bool
  | .junk => true
  | _ => false

def asCollection : CollVal → Option (Nat × ObjKind)
  | .obj i k => if k == .collection || k == .selfOrAncestor then some (i, k) else Option.none
  | _ => Option.none

/-- `Collection.collections` setter: `_refuse_non_objects(v)` (every entry, also in nested lists, must be a Magpylib object),
`format_obj_input(v, allow="collections")` (flattens the lists and KEEPS ONLY the collections: sources and sensors among the entries are still
dropped without a word), then `_replace_children(current collections, those)`; the value of an accepted assignment is the new list of
sub-collections -/
def collectionsSetter (v : CollVal) : Except Err (List (Nat × ObjKind)) :=
  if (leavesC v).any isJunk then .error .badUserInput
  else collAdd (((leavesC v).filterMap asCollection).map fun o => .obj o.1 o.2)

end MagpyVerif.Valid
