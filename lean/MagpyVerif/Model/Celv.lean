/-
Model/Celv.lean — `celv` (the vectorised complete elliptic integral of special_cel.py) and the
dispatcher `cel`, as coded.

    def cel(kcv, pv, cv, sv):
        if len(kcv) < 10:  return np.array([cel0(kc, p, c, s) for …])      # scalar routine, Kern.cel0
        return celv(kcv, pv, cv, sv)                                         # masked array routine, here

Differences between `celv` and `cel0` that the model keeps:
  * no `kc == 0` guard (commented out in the source): an entry with `kc == 0` is iterated like any
    other, its `while` condition never becomes false (Props/C15 `celv_loops_at_zero`);
  * the prologue is selected by `mask = p <= 0` (cel0: `if p > 0 … else …`) — the two tests differ
    for NaN only;
  * the loop is `mask = ones; while any(mask): <body on mask>; mask = |g - k| > g*errtol`: the body is
    executed BEFORE the first test, so every entry is stepped at least once (cel0 tests first and
    may return without a pass, which happens exactly when `| 1 - |kc| | <= 1e-6`);
  * only masked entries are stepped; the new mask is computed from the arrays `g`, `k` of ALL
    entries (entries that left the loop keep their `g`, `k`, hence stay out).
The array `f` of the source is a scratch copy of `cc` (written, read in the next statement): not a
loop variable.  One entry of the seven arrays `k kk cc ss pp g em` is a `CelvRow`; the batch is a
list of (row, mask bit).  Fuel counts executions of the loop body (the driver uses 200).
-/
import MagpyVerif.Model.Kernels

namespace MagpyVerif.Kern

variable {α : Type} [Num α]
open Num

/-- `[o₀, o₁, …] ↦ some [v₀, v₁, …]` if every `oᵢ = some vᵢ`, else `none` (a list comprehension one of
whose elements raises / does not return) -/
def seqOpt {β : Type} : List (Option β) → Option (List β)
  | [] => some []
  | none :: _ => none
  | some a :: t =>
    match seqOpt t with
    | none => none
    | some l => some (a :: l)

/-- one entry of the four argument arrays -/
structure CelArg (α : Type) where
  kc : α
  p : α
  c : α
  s : α

/-- one entry of the arrays `k kk cc ss pp g em` of `celv` (the local variables of `cel0`) -/
structure CelvRow (α : Type) where
  k : α
  kk : α
  cc : α
  ss : α
  pp : α
  g : α
  em : α

/-- the `while` condition for one entry: `np.abs(g - k) > g * errtol`, errtol = 0.000001 -/
def celvCont (r : CelvRow α) : Bool := lt (r.g * (n 1 / n 1000000)) (abs (r.g - r.k))

/-- one pass through the loop body for one entry -/
def celvStep (r : CelvRow α) : CelvRow α :=
  let k' := n 2 * sqrt r.kk
  let kk' := k' * r.em
  let cc' := r.cc + r.ss / r.pp
  let g' := kk' / r.pp
  let ss' := n 2 * (r.ss + r.cc * g')
  let pp' := g' + r.pp
  { k := k', kk := kk', cc := cc', ss := ss', pp := pp', g := r.em, em := k' + r.em }

/-- the return expression `(np.pi / 2) * (ss + cc * em) / (em * (em + pp))` for one entry -/
def celvOut (r : CelvRow α) : α := pi / n 2 * (r.ss + r.cc * r.em) / (r.em * (r.em + r.pp))

/-- prologue of `celv`: `mask = p <= 0`; `pp[~mask] = sqrt(p)`, `ss[~mask] = s / pp`; on the mask the
six statements of the `else` part.  Value: `(pp, cc, ss)` -/
def celvPre (kc p c s : α) : α × α × α :=
  if le p (n 0) then
    let f := kc * kc
    let q := n 1 - f
    let g := n 1 - p
    let f := f - p
    let q := q * (s - c * p)
    let pp := sqrt (f / g)
    let cc := (c - s) / g
    (pp, cc, (-q) / (g * g * pp) + cc * pp)
  else
    let pp := sqrt p
    (pp, c, s / pp)

/-- the arrays on entry to the `while` loop (`k = abs(kc)`, `em = 1`, prologue, the common block
`f = cc; cc = cc + ss/pp; g = k/pp; ss = 2*(ss + f*g); pp = g + pp; g = em; em = k + em; kk = k`) -/
def celvInit (x : CelArg α) : CelvRow α :=
  let k := abs x.kc
  let em : α := n 1
  let pre := celvPre x.kc x.p x.c x.s
  let pp := pre.1
  let cc := pre.2.1
  let ss := pre.2.2
  let f := cc
  let cc := cc + ss / pp
  let g := k / pp
  let ss := n 2 * (ss + f * g)
  let pp := g + pp
  { k := k, kk := k, cc := cc, ss := ss, pp := pp, g := em, em := k + em }

/-- `while np.any(mask): <body on mask>; mask = np.abs(g - k) > g * errtol` on a batch of
(entry, mask bit); `none` = the loop has not ended after `fuel` executions of the body -/
def celvLoop : Nat → List (CelvRow α × Bool) → Option (List α)
  | 0, st => if st.any (fun e => e.2) then none else some (st.map fun e => celvOut e.1)
  | fuel + 1, st =>
    if st.any (fun e => e.2) then
      celvLoop fuel (st.map fun e =>
        let r := if e.2 then celvStep e.1 else e.1
        (r, celvCont r))
    else some (st.map fun e => celvOut e.1)

/-- `celv(kc, p, c, s)`: initial mask `np.ones(n, dtype=bool)` -/
def celv (fuel : Nat) (batch : List (CelArg α)) : Option (List α) :=
  celvLoop fuel (batch.map fun x => (celvInit x, true))

/-- the scalar loop on a row, test first (`cel0`'s `while`; equal to `cel0Loop`, see Lemmas/Celv) -/
def celvRowLoop : Nat → CelvRow α → Option α
  | 0, _ => none
  | fuel + 1, r => if celvCont r then celvRowLoop fuel (celvStep r) else some (celvOut r)

/-- what `celv` does to one entry: body first, then test (fuel counts executions of the body) -/
def celvDo : Nat → CelvRow α → Option α
  | 0, _ => none
  | fuel + 1, r =>
    let r' := celvStep r
    if celvCont r' then celvDo fuel r' else some (celvOut r')

/-- `celv` on the one-entry batch `[x]`, as a scalar function -/
def celv1 (fuel : Nat) (x : CelArg α) : Option α := celvDo fuel (celvInit x)

/-- `cel0` on an entry -/
def cel0Arg (fuel : Nat) (x : CelArg α) : Option α := cel0 fuel x.kc x.p x.c x.s

/-- `cel(kcv, pv, cv, sv)`: fewer than 10 entries → list comprehension over `cel0` (one `RuntimeError`
aborts the call: `none`), else `celv` -/
def celDispatch (fuel : Nat) (batch : List (CelArg α)) : Option (List α) :=
  if batch.length < 10 then seqOpt (batch.map (cel0Arg fuel)) else celv fuel batch

/-! ### skeleton of a masked array loop (`el3v` of special_el3.py; `celv` is the instance `post = id`)

    mask10 = np.ones(n, dtype=bool)
    while np.any(mask10):
        <statements indexed by mask10 and by sub-masks of it>        -- `body`, entry by entry
        mask11 = np.abs(g - s) > CA * g                              -- `test`, computed for ALL entries
        if np.any(mask11): <statements indexed by mask11 and sub-masks>   -- `post`
        mask10 = mask11

Every statement between the `while` and the mask update is an elementwise numpy operation on the entry's own
loop variables (no reduction other than the `np.any` guards, which only skip blocks that would change nothing):
that reading of the source is what the three functions `body`, `test`, `post : σ → …` on ONE entry's variables
`σ` express.  The scalar routine `el30` has the same loop as `while True: <body>; if <test>: <post> else: break`
(`run1`). -/
structure MaskedLoop (σ : Type) where
  body : σ → σ
  test : σ → Bool
  post : σ → σ

namespace MaskedLoop
variable {σ : Type} (L : MaskedLoop σ)

/-- one pass of the array loop on one (entry, mask10 bit): result (entry, mask11 bit) -/
def pass (e : σ × Bool) : σ × Bool :=
  let s1 := if e.2 then L.body e.1 else e.1
  let m := L.test s1
  (if m then L.post s1 else s1, m)

/-- the array loop; `none` = not ended after `fuel` passes -/
def run : Nat → List (σ × Bool) → Option (List σ)
  | 0, st => if st.any (fun e => e.2) then none else some (st.map fun e => e.1)
  | fuel + 1, st =>
    if st.any (fun e => e.2) then run fuel (st.map L.pass) else some (st.map fun e => e.1)

/-- the scalar loop `while True: body; if test: post else: break` -/
def run1 : Nat → σ → Option σ
  | 0, _ => none
  | fuel + 1, s =>
    let s1 := L.body s
    if L.test s1 then run1 fuel (L.post s1) else some s1

end MaskedLoop

end MagpyVerif.Kern
