/-
Model/TrimeshInside.lean — the inside/outside test of TriangularMesh (field_BH_triangularmesh.py) for ONE observer and a
list of triangles, expression by expression as numpy evaluates it (the code works on batches of lines; every array
operation in it is elementwise in the line index, so the batch is a `map` of what is written here):

  mask_inside_enclosing_box(points, vertices)   → `insideBoxV` / `insideEnclosingBox`
  lines_end_in_trimesh(lines, faces)            → `linesEndInTrimesh` (division by the mesh size, then `linesEndCore`)
  mask_inside_trimesh(points, faces)            → `maskInsideTrimesh`
  is_facet_inwards(face, faces)                 → `isFacetInwards`
  helpers v_norm2, v_norm_proj, v_cross (= `V3.cross`), v_dot_cross3d

Conventions. `np.min/np.max` over an axis are folds of `np.minimum/np.maximum` (which propagate NaN: `npMax`); the builtin
`max(a, b, c)` of `mask_inside_enclosing_box` keeps the first argument unless a later one is greater (`pyMax`, no NaN
propagation).  `np.sign` is a four-valued code (negative / zero / positive / NaN) with numpy's comparison rules
(`nan != x` is True, `nan == x` is False).  Decimal literals `1e-k` are written `1 / 10^k` and `12.0012345` as
`120012345 / 10000000`: numerator and denominator are exactly representable, and IEEE division rounds correctly, so under
`Float` these are the same doubles the Python literals denote.  An empty face list makes numpy raise (zero-size reduction);
the model returns `false` there (TriangularMesh never passes one).  Mathlib-free, computable.
-/
import MagpyVerif.Model.TrimeshSum

namespace MagpyVerif.Kern
variable {α : Type} [Num α]
open Num

/-! ### reductions -/

/-- `np.maximum(a, b)` (NaN if either is NaN) -/
def npMax (a b : α) : α := if lt a b then b else if le b a then a else a + b
/-- `np.minimum(a, b)` (NaN if either is NaN) -/
def npMin (a b : α) : α := if lt b a then b else if le a b then a else a + b
/-- one step of the builtin `max(…)`: the later argument replaces the current one only if it is greater -/
def pyMax (a b : α) : α := if lt a b then b else a

def vMax (a b : V3 α) : V3 α := ⟨npMax a.x b.x, npMax a.y b.y, npMax a.z b.z⟩
def vMin (a b : V3 α) : V3 α := ⟨npMin a.x b.x, npMin a.y b.y, npMin a.z b.z⟩

/-- `np.max(vertices, axis=0)` -/
def vertsMax : List (V3 α) → V3 α
  | [] => zero3
  | v :: rest => rest.foldl vMax v
/-- `np.min(vertices, axis=0)` -/
def vertsMin : List (V3 α) → V3 α
  | [] => zero3
  | v :: rest => rest.foldl vMin v

def triVerts (t : Tri α) : List (V3 α) := [t.1, t.2.1, t.2.2]
/-- `faces.reshape((-1, 3))` -/
def meshVerts (faces : List (Tri α)) : List (V3 α) := faces.flatMap triVerts

/-- `np.max(np.ptp(vertices, axis=0))` -/
def vertsSize (verts : List (V3 α)) : α :=
  let lo := vertsMin verts
  let hi := vertsMax verts
  npMax (npMax (hi.x - lo.x) (hi.y - lo.y)) (hi.z - lo.z)

def meshSize (faces : List (Tri α)) : α := vertsSize (meshVerts faces)

/-! ### `mask_inside_enclosing_box` -/

/-- `mask_inside_enclosing_box(points, vertices)` for one point -/
def insideBoxV (verts : List (V3 α)) (x : V3 α) : Bool :=
  let lo := vertsMin verts
  let hi := vertsMax verts
  let eps := n 1 / n 1000000000000 * pyMax (pyMax (hi.x - lo.x) (hi.y - lo.y)) (hi.z - lo.z)
  let mx := lt x.x (hi.x + eps) && lt (lo.x - eps) x.x
  let my := lt x.y (hi.y + eps) && lt (lo.y - eps) x.y
  let mz := lt x.z (hi.z + eps) && lt (lo.z - eps) x.z
  mx && my && mz

def insideEnclosingBox (faces : List (Tri α)) (x : V3 α) : Bool := insideBoxV (meshVerts faces) x

/-! ### `lines_end_in_trimesh` -/

/-- `v_norm2` -/
def vNorm2 (a : V3 α) : α := a.x * a.x + a.y * a.y + a.z * a.z

/-- `v_norm_proj(a, b)` = a·b / sqrt(|a|²·|b|²) -/
def vNormProj (a b : V3 α) : α := (a.x * b.x + a.y * b.y + a.z * b.z) / sqrt (vNorm2 a * vNorm2 b)

/-- `v_dot_cross3d(a, b, c)` = (a × b)·c -/
def vDotCross3d (a b c : V3 α) : α :=
  (a.y * b.z - a.z * b.y) * c.x + (a.z * b.x - a.x * b.z) * c.y + (a.x * b.y - a.y * b.x) * c.z

/-- code of `np.sign(x)`: 0 negative, 1 zero, 2 positive, 3 NaN -/
def sgn (x : α) : Nat := if lt x (n 0) then 0 else if lt (n 0) x then 2 else if eq0 x then 1 else 3
/-- `np.sign(a) != np.sign(b)` -/
def signNe (a b : α) : Bool := sgn a == 3 || sgn b == 3 || sgn a != sgn b
/-- `np.sign(a) == np.sign(b)` -/
def signEq (a b : α) : Bool := !(signNe a b)

def triDiv (s : α) (t : Tri α) : Tri α := (vd t.1 s, vd t.2.1 s, vd t.2.2 s)

/-- one (line, face) entry of `result_cross` and `result_touch` -/
def faceTest (l0 l1 : V3 α) (f : Tri α) : Bool × Bool :=
  -- Part 1
  let normal := V3.cross (f.1 - f.2.2) (f.2.1 - f.2.2)
  let coincide := lt (vNorm2 (l1 - f.2.2)) (n 1 / n 10000000000000000)
  let ref := if coincide then f.2.1 else f.2.2
  let proj0 := vNormProj (l0 - ref) normal
  let proj1 := vNormProj (l1 - ref) normal
  let planeTouch := lt (abs proj1) (n 1 / n 10000000)
  let planeCross := signNe proj0 proj1
  -- Part 2
  let a := f.1 - l0
  let b := f.2.1 - l0
  let c := f.2.2 - l0
  let d := l1 - l0
  let area1 := vDotCross3d a b d
  let area2 := vDotCross3d b c d
  let area3 := vDotCross3d c a d
  let eps := n 1 / n 1000000000000
  let boundary := lt (abs area1) eps || lt (abs area2) eps || lt (abs area3) eps
  let inside := signEq area1 area2 && signEq area2 area3
  let passThrough := boundary || inside
  -- Part 3
  (passThrough && planeCross, passThrough && planeTouch)

/-- Parts 1–3 of `lines_end_in_trimesh` for one line `l0 → l1`, lengths already in units of the mesh size:
odd number of crossed faces, or the end point touches a face -/
def linesEndCore (l0 l1 : V3 α) (faces : List (Tri α)) : Bool :=
  let r := faces.map (faceTest l0 l1)
  let inside1 := (r.countP (·.1)) % 2 != 0
  let inside2 := r.any (·.2)
  inside1 || inside2

/-- `lines_end_in_trimesh(lines, faces)` for one line: `size = np.max(np.ptp(faces.reshape((-1, 3)), axis=0))`;
`if size > 0: lines = lines / size; faces = faces / size` -/
def linesEndInTrimesh (l0 l1 : V3 α) (faces : List (Tri α)) : Bool :=
  let size := meshSize faces
  if lt (n 0) size then linesEndCore (vd l0 size) (vd l1 size) (faces.map (triDiv size))
  else linesEndCore l0 l1 faces

/-! ### `mask_inside_trimesh` -/

/-- `np.min(vertices, axis=0) - size * np.array([12.0012345, 5.9923456, 6.9932109])` -/
def startPointOutside (verts : List (V3 α)) : V3 α :=
  let size := vertsSize verts
  let lo := vertsMin verts
  ⟨lo.x - size * (n 120012345 / n 10000000), lo.y - size * (n 59923456 / n 10000000),
   lo.z - size * (n 69932109 / n 10000000)⟩

/-- `mask_inside_trimesh(points, faces)` for one point: the bounding-box pre-filter, then the ray from the start point
outside (points that fail the pre-filter are not ray-tested and stay `False`) -/
def maskInsideTrimesh (faces : List (Tri α)) (x : V3 α) : Bool :=
  let verts := meshVerts faces
  if insideBoxV verts x then linesEndInTrimesh (startPointOutside verts) x faces else false

/-! ### `is_facet_inwards` -/

/-- `is_facet_inwards(face, faces)`: a check point displaced from the facet centre along `cross(v1, v2)` by
`1e-5·size` is tested with `mask_inside_trimesh`; since repo fix ed093b8 `size` is the facet's longest edge
`max(|v1|, |v2|, |v3|)` (before: `|v1|`, which let a sliver facet starting with its short edge fall inside the ray
test's touch tolerance).  (`np.linalg.norm` of a 3-vector is `sqrt(x·x)`; `face.mean(axis=0)` is
`((f0 + f1) + f2) / 3`; `orient /= norm` divides componentwise.) -/
def isFacetInwards (face : Tri α) (faces : List (Tri α)) : Bool :=
  let v1 := face.1 - face.2.1
  let v2 := face.2.1 - face.2.2
  let orient := V3.cross v1 v2
  let orient := vd orient (norm orient)
  let v3 := face.2.2 - face.1
  let size := pyMax (pyMax (norm v1) (norm v2)) (norm v3)
  let eps := n 1 / n 100000 * size
  let centre := vd (face.1 + face.2.1 + face.2.2) (n 3)
  let check : V3 α := ⟨centre.x + orient.x * eps, centre.y + orient.y * eps, centre.z + orient.z * eps⟩
  maskInsideTrimesh faces check

end MagpyVerif.Kern
