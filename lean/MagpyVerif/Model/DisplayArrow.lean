/-
Model/DisplayArrow.lean — current arrows and sensor pixels of the display (C19), as the code computes them:
* `traces_utility.draw_arrow_on_circle(sign, diameter, arrow_size, scaled, angle_pos_deg)` — the arrow head drawn on a
  `current.Circle` (traces_core.make_Circle, kind "arrow")                                              — `arrowOnCircle`
* the arrow template of `traces_utility.draw_arrowed_line` BEFORE it is turned into the direction of `vec` (the rotation is
  scipy's: not modelled here) — the shape in the local frame where the segment runs along the y axis     — `arrowedLineLocal`
* the pixel cubes of `traces_core.make_Sensor` (`make_Pixels` = one `make_BaseCuboid` per pixel, merged) and the rule for
  their size (`style.pixel.sizemode`, `style.pixel.size`)                                                — `pixelDim`, `pixelCubes`
Mathlib-free, computable, polymorphic over `Num α`: `Float` in the driver (family `disp`, rows `arrowc`, `arrowl`, `pixels`),
`ℝ` in Props/C19.lean.
-/
import MagpyVerif.Model.DisplayTrig
namespace MagpyVerif.DisplayTrig
open MagpyVerif MagpyVerif.Kern Num
variable {α : Type} [Num α]

/-- `np.sign(x)` of a non-NaN float -/
def sgn (x : α) : α := if lt (n 0) x then n 1 else if lt x (n 0) then -(n 1) else n 0

/-- `draw_arrow_on_circle(sign, diameter, arrow_size, scaled, angle_pos_deg)`:
```
hy = 0.2 * arrow_size if scaled else arrow_size / diameter * 2
hx = 0.6 * hy
hy *= np.sign(sign)
x = np.array([1 + hx, 1, 1 - hx]) * diameter / 2
y = np.array([-hy, 0, -hy]) * diameter / 2
z = 0
if angle_pos_deg != 0:  vertices = Rotation.from_euler("z", angle_pos_deg, degrees=True).apply(vertices)
```
the rotation about z written out (`x' = c x - s y`, `y' = s x + c y`; scipy goes through a quaternion, the `arrowc` rows compare
to 1e-12).  Three points: barb, tip, barb. -/
def arrowOnCircle (sign d arrowSize : α) (scaled : Bool) (angleDeg : α) : List (V3 α) :=
  let hy0 := if scaled then (n 1 / n 5) * arrowSize else arrowSize / d * n 2
  let hx := (n 3 / n 5) * hy0
  let hy := hy0 * sgn sign
  let pts : List (V3 α) :=
    [⟨(n 1 + hx) * d / n 2, (-hy) * d / n 2, n 0⟩, ⟨n 1 * d / n 2, n 0 * d / n 2, n 0⟩, ⟨(n 1 - hx) * d / n 2, (-hy) * d / n 2, n 0⟩]
  if eq0 angleDeg then pts
  else
    let c := cos (deg2rad angleDeg)
    let s := sin (deg2rad angleDeg)
    pts.map fun v => (⟨c * v.x - s * v.y, s * v.x + c * v.y, v.z⟩ : V3 α)

/-- the arrow template of `draw_arrowed_line(vec, pos, sign, arrow_size, arrow_pos, pivot="middle", include_line=True)` in its
own frame (segment along the y axis, centred), already scaled by `norm = |vec|`:
```
arrow_shift = arrow_pos - 0.5;  hx = 0.6 * arrow_size;  hy = np.sign(sign) * arrow_size
arrow = [[0, -0.5, 0], [0, shift, 0], [-hx, shift - hy, 0], [0, shift, 0], [hx, shift - hy, 0], [0, shift, 0], [0, 0.5, 0]]
arrow = (np.array(arrow) + anchor) * norm            # anchor = (0, 0, 0) for pivot "middle"
```
(then `R.apply(arrow) + pos` with `R` the rotation taking the y axis to `vec / norm`). -/
def arrowedLineLocal (sign arrowSize arrowPos nrm : α) : List (V3 α) :=
  let sh := arrowPos - half
  let hx := (n 3 / n 5) * arrowSize
  let hy := sgn sign * arrowSize
  let raw : List (V3 α) :=
    [⟨n 0, -half, n 0⟩, ⟨n 0, sh, n 0⟩, ⟨-hx, sh - hy, n 0⟩, ⟨n 0, sh, n 0⟩, ⟨hx, sh - hy, n 0⟩, ⟨n 0, sh, n 0⟩, ⟨n 0, half, n 0⟩]
  raw.map fun v => (⟨(v.x + n 0) * nrm, (v.y + n 0) * nrm, (v.z + n 0) * nrm⟩ : V3 α)

/-! ## sensor pixels -/

/-- smallest element (`np.min`) of a non-empty NaN-free list -/
def minOf : List α → Option α
  | [] => none
  | a :: l => some (l.foldl (fun m x => if lt x m then x else m) a)

/-- all pairs `combinations(pixel, 2)` in order -/
def pairsOf {β : Type} : List β → List (β × β)
  | [] => []
  | a :: l => l.map (fun b => (a, b)) ++ pairsOf l

/-- `np.linalg.norm(b - a)` -/
def dist3 (a b : V3 α) : α :=
  let dx := b.x - a.x; let dy := b.y - a.y; let dz := b.z - a.z
  sqrt (dx * dx + dy * dy + dz * dz)

/-- the side of the pixel cubes in `make_Sensor`; `pix` = the rows of `np.unique(pixel.reshape(-1, 3), axis=0)`, with the
origin put in front when there is one pixel only:
```
pixel_dim = 1
if style.pixel.sizemode == "scaled":
    min_dist = min distance over combinations(pixel, 2)
    pixel_dim = dim_ext / 5 if min_dist == 0 else min_dist / 2
pixel_dim *= pixel_size            # (inside `if pixel_size > 0`)
``` -/
def pixelDim (pix : List (V3 α)) (scaled : Bool) (pixelSize dimExt : α) : α :=
  let pix' := match pix with
    | [p] => [zero3, p]
    | l => l
  let base : α :=
    if scaled then
      match minOf ((pairsOf pix').map fun p => dist3 p.1 p.2) with
      | none => n 1
      | some m => if eq0 m then dimExt / n 5 else m / n 2
    else n 1
  base * pixelSize

/-- the 8 vertices of `make_BaseCuboid("plotly-dict", position=p, dimension=[s, s, s])`: `sign * 0.5 * s`, then
`(v * 1 + p) * 1` (`place_and_orient_model3d` with a position, scale 1, length factor 1) -/
def cubeAt (p : V3 α) (s : α) : List (V3 α) :=
  let sg (i : Int) : α := if i < 0 then -(n 1) else n 1
  (Display.cuboidSignX.zip (Display.cuboidSignY.zip Display.cuboidSignZ)).map fun (a, b, c) =>
    (⟨(sg a * half * s * n 1 + p.x) * n 1, (sg b * half * s * n 1 + p.y) * n 1, (sg c * half * s * n 1 + p.z) * n 1⟩ : V3 α)

/-- the vertex rows of `make_Pixels(positions, size)`: one cube per pixel, in order (`merge_mesh3d` concatenates) -/
def pixelCubes (pix : List (V3 α)) (s : α) : List (V3 α) := pix.flatMap fun p => cubeAt p s

/-- the pixel part of the Sensor graphic: nothing for `pixel_size <= 0` -/
def sensorPixels (pix : List (V3 α)) (scaled : Bool) (pixelSize dimExt : α) : List (V3 α) :=
  if lt (n 0) pixelSize then pixelCubes pix (pixelDim pix scaled pixelSize dimExt) else []

end MagpyVerif.DisplayTrig
