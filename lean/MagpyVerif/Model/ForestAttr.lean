/-
Model/ForestAttr.lean — the collection forest WITH attributes and a heap (C18, C11).

`AForest` = the forest of Model/Forest.lean (`f`) + per object a record `NodeA` + a heap of cells.
What the real objects hold in MUTABLE containers is modelled as heap cells addressed by numbers:

  slot      real attribute                               cell content
  pos       `_position`   (ndarray (N,3))                `vecs`  (integer vectors)
  ori       `_orientation` (scipy Rotation of length N)  `rots`  (integer rotation matrices)
  a0..a3    `_polarization`, `_dimension`, `_moment`, `_pixel` (ndarrays)   `ints` (flattened)
  style     `_style` (style object; `none` = not created yet)               `style` (label + properties)
  kids      `_children` (the list object of a Collection)                   `list`  (content = `f.children`)

Immutable data stays in the record: class, scalar attributes (`_current`, `_diameter`, `handedness`) and the
pending style keyword arguments `_style_kwargs` of a lazily un-initialised style.  The `_children` /
`_sources` / `_sensors` / `_collections` lists are represented by `f` (one list per owner id; that no link crosses
between original and copy is `copy_shares_no_node`); the IDENTITY of the `_children` list object is tracked in slot
`kids`: it is created with the Collection, `add` (`+=`), `remove` (`list.remove`), `parent=` and a REFUSED
children / sources / sensors / collections assignment keep it (the refusal puts the old list object back, repo fix
9176cc9), an ACCEPTED assignment installs a new list, `copy()` gives every cloned collection its own.

Allocation follows the code: a statement that REBINDS an attribute to a new array / Rotation / style object takes
a fresh address (`setFresh`), a statement that writes INTO the existing object keeps the address (`write`):
  apply_move      not padded: `ppath[start:end] += inpath` in place, `_orientation` untouched;
                  padded: `np.pad` results are new arrays, `_orientation = R.from_quat(opath)` new
  apply_rotation  `_orientation = R.from_quat(opath)` always new; `_position` in place unless padded
  position setter `_position = check_format_input_vector(...)`, `_orientation = R.from_quat(...)` both new,
                  then `child.position = ...` for every child (recursively)
  attribute setters (`polarization=`, `dimension=`, `moment=`, `pixel=`)  new array
  style           `self.style` creates the style object on first access and flushes `_style_kwargs` into it;
                  `style.label = …`, `style.update(…)` write into the style object
  orientation setter `_orientation = R.from_quat(oriQ)` new; `_position = pad_slice_path(oriQ, _position)`: a new array
                  when it is padded, the SAME array (or a view of it) when it is sliced or has the length already;
                  then per child `child.position = …` (position setter) and `child.rotate(…, anchor=_position, start=0)`
  copy(**kwargs)  `deepcopy(self)` with `_parent` cut: every cell reachable from the subtree is cloned onto
                  fresh addresses; then, if the original has a style object or pending style kwargs, `self.style`
                  is evaluated (this REALISES THE ORIGINAL'S lazy style — a write to the original that no public
                  read can see) and the iterated label is written into the copy's style; then non-style keywords
                  go through `setattr(obj_copy, k, v)` in order, style keywords through one `style.update`.
Paths are computed by Model/Path.lean (`applyMove`, `applyRotation`) — the functions of C09/C10.
-/
import MagpyVerif.Model.Copy
import MagpyVerif.Model.Path
import MagpyVerif.Model.Tree

namespace MagpyVerif

abbrev AVec := V3 Int
abbrev ARot := M3 Int

inductive Slot where
  | pos | ori | style | a0 | a1 | a2 | a3 | kids
  deriving DecidableEq, Repr

namespace Slot
def code : Slot → Nat
  | pos => 0 | ori => 1 | style => 2 | a0 => 3 | a1 => 4 | a2 => 5 | a3 => 6 | kids => 7
def ofCode : Nat → Slot
  | 0 => pos | 1 => ori | 2 => style | 3 => a0 | 4 => a1 | 5 => a2 | 6 => a3 | _ => kids
def all : List Slot := [pos, ori, style, a0, a1, a2, a3, kids]
/-- number of slots = stride of the address blocks handed out by `deepcopy` -/
def count : Nat := 8
/-- array attribute number `k` (0 polarization, 1 dimension, 2 moment, 3 pixel) -/
def arr : Nat → Option Slot
  | 0 => some a0 | 1 => some a1 | 2 => some a2 | 3 => some a3 | _ => none
/-- the slots of the array attributes -/
def isArr : Slot → Bool
  | a0 => true | a1 => true | a2 => true | a3 => true | _ => false
end Slot

/-- the part of a style that is modelled: the label and integer-valued properties (key ↦ value) -/
structure SData where
  label : Option (List Char)
  props : List (Nat × Int)
  deriving DecidableEq, Repr

namespace SData
def empty : SData := ⟨none, []⟩
def nonempty (d : SData) : Bool := d.label.isSome || !d.props.isEmpty
def setProp (ps : List (Nat × Int)) (k : Nat) (v : Int) : List (Nat × Int) := (k, v) :: ps.filter (fun e => e.1 ≠ k)
def getProp (d : SData) (k : Nat) : Option Int := (d.props.find? (fun e => e.1 = k)).map (·.2)
/-- `style.update(**kw)`: given entries overwrite, the others stay -/
def update (d kw : SData) : SData :=
  { label := match kw.label with | some l => some l | none => d.label,
    props := kw.props.foldr (fun e ps => setProp ps e.1 e.2) d.props }
end SData

inductive Cell where
  | free
  | vecs (l : List AVec)
  | rots (l : List ARot)
  | ints (l : List Int)
  | style (d : SData)
  /-- a `_children` list object; its content is `f.children` of the collection that holds it -/
  | list
  deriving DecidableEq, Repr

structure NodeA where
  /-- class code: 0 Cuboid, 1 Circle, 2 Dipole, 3 Sphere, 4 Sensor, 5 Collection -/
  cls : Nat
  adr : Slot → Option Nat
  scal : List (Nat × Int)
  /-- `_style_kwargs` -/
  skw : SData

def NodeA.blank (cls : Nat) : NodeA := { cls := cls, adr := fun _ => none, scal := [], skw := SData.empty }

structure AForest where
  f : Forest
  na : Nat → NodeA
  heap : Nat → Cell
  next : Nat

def clsName : Nat → List Char
  | 0 => "Cuboid".toList | 1 => "Circle".toList | 2 => "Dipole".toList | 3 => "Sphere".toList
  | 4 => "Sensor".toList | _ => "Collection".toList

namespace AForest
open Forest (upd)

/-! ### reads -/

/-- content of the container held in slot `sl` of object `i` -/
def cellAt (s : AForest) (i : Nat) (sl : Slot) : Option Cell := ((s.na i).adr sl).map s.heap

def posOf (s : AForest) (i : Nat) : List AVec :=
  match s.cellAt i .pos with | some (.vecs l) => l | _ => []
def oriOf (s : AForest) (i : Nat) : List ARot :=
  match s.cellAt i .ori with | some (.rots l) => l | _ => []
def intsOf (s : AForest) (i : Nat) (sl : Slot) : Option (List Int) :=
  match s.cellAt i sl with | some (.ints l) => some l | _ => none
/-- what `obj.style` shows: the style object (or a new one) with the pending keyword arguments applied -/
def styleView (s : AForest) (i : Nat) : SData :=
  match s.cellAt i .style with
  | some (.style d) => d.update (s.na i).skw
  | _ => SData.empty.update (s.na i).skw
/-- `getattr(self, "_style", None) is not None or bool(self._style_kwargs)` -/
def touched (s : AForest) (i : Nat) : Bool := ((s.na i).adr .style).isSome || (s.na i).skw.nonempty
def objOf (s : AForest) (i : Nat) : Obj ARot AVec := { pos := s.posOf i, ori := s.oriOf i }

/-- everything a public read of object `i` returns, apart from the tree links (those are in `f`) -/
structure NView where
  cls : Nat
  pos : List AVec
  ori : List ARot
  arrs : List (Option (List Int))
  scal : List (Nat × Int)
  style : SData
  deriving DecidableEq, Repr

def view (s : AForest) (i : Nat) : NView :=
  { cls := (s.na i).cls, pos := s.posOf i, ori := s.oriOf i, arrs := [Slot.a0, Slot.a1, Slot.a2, Slot.a3].map (s.intsOf i),
    scal := (s.na i).scal, style := s.styleView i }

/-! ### the three primitive writes -/

/-- rebind slot `sl` of object `i` to a NEW container with content `c` -/
def setFresh (s : AForest) (i : Nat) (sl : Slot) (c : Cell) : AForest :=
  { s with na := upd s.na i { s.na i with adr := fun t => if t = sl then some s.next else (s.na i).adr t },
           heap := upd s.heap s.next c, next := s.next + 1 }

/-- write `c` INTO the container in slot `sl` of object `i` (creating it when there is none) -/
def write (s : AForest) (i : Nat) (sl : Slot) (c : Cell) : AForest :=
  match (s.na i).adr sl with
  | some a => { s with heap := upd s.heap a c }
  | none => s.setFresh i sl c

/-- change the immutable part of the record of object `i` -/
def setMeta (s : AForest) (i : Nat) (scal : List (Nat × Int)) (skw : SData) : AForest :=
  { s with na := upd s.na i { s.na i with scal := scal, skw := skw } }

/-! ### path operations -/

def isPadded (scalar : Bool) (lenip : Nat) (start : Option Int) (o : Obj ARot AVec) : Bool :=
  (Gen.pathPaddingParam scalar o.pos.length lenip start).1.isSome

/-- `apply_move(target_object = i, …)` -/
def moveOne (inp : PathIn AVec) (start : Option Int) (s : AForest) (i : Nat) : AForest :=
  let o := s.objOf i
  let o' := applyMove inp start o
  if isPadded inp.isScalar inp.lenip start o then
    (s.setFresh i .pos (.vecs o'.pos)).setFresh i .ori (.rots o'.ori)
  else s.write i .pos (.vecs o'.pos)

/-- `apply_rotation(target_object = i, …, parent_path = pp)` -/
def rotOne (rot : PathIn ARot) (anchor : Option (PathIn AVec)) (start : Option Int)
    (pp : Option (List AVec)) (s : AForest) (i : Nat) : AForest :=
  let o := s.objOf i
  let o' := applyRotation rot anchor start pp o
  let r' := match anchor with | none => rot | some a => (multiAnchor a rot).2
  let s1 := if isPadded r'.isScalar r'.lenip start o then s.setFresh i .pos (.vecs o'.pos)
            else s.write i .pos (.vecs o'.pos)
  s1.setFresh i .ori (.rots o'.ori)

/-- the object and everything below it, in pre-order (the recursion of `move` / `_rotate` over `children`) -/
def targets (s : AForest) (x : Nat) : List Nat := s.f.subtree (s.f.n + 1) x

/-- `obj.move(displacement, start)` -/
def move (s : AForest) (x : Nat) (inp : PathIn AVec) (start : Option Int) : AForest :=
  (s.targets x).foldl (moveOne inp start) s

/-- `obj.rotate(rotation, anchor, start)`: every descendant gets the position path of the object the call was
made on (as it is before the call) as `parent_path` -/
def rotate (s : AForest) (x : Nat) (rot : PathIn ARot) (anchor : Option (PathIn AVec)) (start : Option Int) : AForest :=
  let pp := s.posOf x
  (s.targets x).foldl (fun s i => rotOne rot anchor start (if i = x then none else some pp) s i) s

/-- `obj.position = inp` (validated, non-empty): new arrays, then every child is re-positioned -/
def setPos : Nat → AForest → Nat → List AVec → AForest
  | 0, s, _, _ => s
  | k + 1, s, x, inp =>
    let old := s.posOf x
    let s1 := (s.setFresh x .pos (.vecs inp)).setFresh x .ori (.rots (padSlice inp.length (s.oriOf x)))
    (s.f.children x).foldl (fun s c =>
      let oldp := padSlice inp.length old
      let cp := padSlice inp.length (s.posOf c)
      setPos k s c (List.zipWith (· + ·) inp (List.zipWith (· - ·) cp oldp))) s1

/-- `obj.orientation = inp` (validated, non-empty; `None` arrives as `[1]`): a new Rotation; the position path is
edge-padded (new array) or end-sliced / kept (same array); then every child gets the padded / sliced position path
through its position setter and is rotated by `new * old⁻¹` about the object's position path from index 0 on
(`self.orientation` / `np.squeeze` hand a length-1 stack on as a single rotation, `Node.squeezeRot`) -/
def setOri (s : AForest) (x : Nat) (inp : List ARot) : AForest :=
  let oldPos := s.posOf x
  let newPos := padSlice inp.length oldPos
  let t := Node.squeezeRot (List.zipWith (fun a b => a * b⁻¹) inp (padSlice inp.length (s.oriOf x)))
  let s1 := s.setFresh x .ori (.rots inp)
  let s2 := if oldPos.length < inp.length then s1.setFresh x .pos (.vecs newPos) else s1.write x .pos (.vecs newPos)
  (s.f.children x).foldl (fun s c =>
    (setPos (s.f.n + 1) s c (padSlice newPos.length (s.posOf c))).rotate c t (some (.vector newPos)) (some 0)) s2

/-- the value of an `orientation` argument: `None` is the unit rotation (a path of length 1) -/
def oriArg : Option (List ARot) → List ARot
  | none => [1]
  | some l => l

/-! ### attribute and style writes -/

def setScalList (l : List (Nat × Int)) (k : Nat) (v : Int) : List (Nat × Int) :=
  l.map (fun e => if e.1 = k then (k, v) else e)

/-- `self.style` (getter): creates the style object on first access, flushes `_style_kwargs` into it -/
def realise (s : AForest) (i : Nat) : AForest :=
  (s.write i .style (.style (s.styleView i))).setMeta i (s.na i).scal SData.empty

/-- `obj.style.update(…)` / `obj.style.label = …`: through the getter, then into the style object -/
def setStyle (s : AForest) (i : Nat) (g : SData → SData) : AForest :=
  let s1 := s.realise i
  s1.write i .style (.style (g (s1.styleView i)))

/-! ### creation -/

structure Spec where
  kind : Kind
  cls : Nat
  pos : List AVec
  arrs : List (Slot × List Int)
  scal : List (Nat × Int)
  skw : SData

/-- attributes of a newly constructed object `i` -/
def initNode (s : AForest) (i : Nat) (sp : Spec) : AForest :=
  let s1 : AForest := { s with na := upd s.na i { NodeA.blank sp.cls with scal := sp.scal, skw := sp.skw } }
  let s2 := (s1.setFresh i .pos (.vecs sp.pos)).setFresh i .ori (.rots (sp.pos.map fun _ => (1 : ARot)))
  let s3 := sp.arrs.foldl (fun t e => t.setFresh i e.1 (.ints e.2)) s2
  if sp.kind = .coll then s3.setFresh i .kids .list else s3

def init (specs : List Spec) : AForest :=
  let s0 : AForest := { f := Forest.init (specs.map (·.kind)), na := fun _ => NodeA.blank 0,
                        heap := fun _ => .free, next := 0 }
  (List.range specs.length).foldl (fun s i =>
    match specs[i]? with
    | some sp => s.initNode i sp
    | none => s) s0

def collSpec : Spec := { kind := .coll, cls := 5, pos := [(0 : AVec)], arrs := [], scal := [], skw := SData.empty }

/-! ### keyword arguments of `copy(**kwargs)` -/

/-- attribute keywords: `position`, `orientation` (`none` = `None`), the array attributes, the scalar attributes,
`style_label`, `style_<property>` -/
inductive Ov where
  | pos (p : List AVec)
  | ori (r : Option (List ARot))
  | arr (sl : Slot) (v : List Int)
  | scal (k : Nat) (v : Int)
  | label (l : List Char)
  | sprop (k : Nat) (v : Int)
  deriving Repr

/-- any keyword: an attribute keyword, `parent=` (`none` = `None`), `children=`, or a non-style keyword whose value
the setter rejects (`position="bad"`) -/
inductive Kw where
  | attr (ov : Ov)
  | parent (p : Option Nat)
  | children (objs : List Nat)
  | bad
  deriving Repr

/-- the objects a keyword names -/
def Kw.named : Kw → List Nat
  | .parent p => p.toList
  | .children objs => objs
  | _ => []

end AForest

/-! ### histories -/

inductive AOp where
  | tree (op : FOp)
  | move (x : Nat) (inp : PathIn AVec) (start : Option Int)
  | rotate (x : Nat) (rot : PathIn ARot) (anchor : Option (PathIn AVec)) (start : Option Int)
  | setPos (x : Nat) (p : List AVec)
  /-- `obj.orientation = r` (`none` = `None`) -/
  | setOri (x : Nat) (r : Option (List ARot))
  | setArr (x : Nat) (sl : Slot) (v : List Int)
  | setScal (x : Nat) (k : Nat) (v : Int)
  | setLabel (x : Nat) (l : List Char)
  | setProp (x : Nat) (k : Nat) (v : Int)
  /-- reading `obj.style` (also done by `repr(obj)`, hence by the message of every rejected add / remove) -/
  | touchStyle (x : Nat)
  | copy (o : Nat) (kw : List AForest.Kw)

namespace AForest
open Forest (upd)

/-- the collection whose `_children` list object a tree operation replaces when it is accepted -/
def newList : FOp → Option Nat
  | .setChildren c _ => some c
  | .setTyped c _ _ => some c
  | _ => none

/-- one operation other than `copy`; second component: accepted?  Operations on objects that do not exist are
refused. -/
def stepBase (s : AForest) : AOp → AForest × Bool
  | .tree op =>
    let r := s.f.step op
    let s1 : AForest := { s with f := r.1 }
    -- `a + b` created a new Collection (default position, unit orientation, no style)
    if r.1.n = s.f.n + 1 then (s1.initNode s.f.n collSpec, r.2)
    else
      -- an ACCEPTED children / sources / sensors / collections assignment installs a new `_children` list object
      match (if r.2 then newList op else none) with
      | some c => (s1.setFresh c .kids .list, r.2)
      | none => (s1, r.2)
  | .move x inp start => if x < s.f.n then (s.move x inp start, true) else (s, false)
  | .rotate x rot anchor start => if x < s.f.n then (s.rotate x rot anchor start, true) else (s, false)
  | .setPos x p => if x < s.f.n && !p.isEmpty then (setPos (s.f.n + 1) s x p, true) else (s, false)
  | .setOri x r => if x < s.f.n && !(oriArg r).isEmpty then (s.setOri x (oriArg r), true) else (s, false)
  | .setArr x sl v =>
    if x < s.f.n && (sl.isArr && (s.intsOf x sl).isSome) then (s.setFresh x sl (.ints v), true) else (s, false)
  | .setScal x k v =>
    if x < s.f.n && (s.na x).scal.any (fun e => e.1 = k) then
      (s.setMeta x (setScalList (s.na x).scal k v) (s.na x).skw, true)
    else (s, false)
  | .setLabel x l => if x < s.f.n then (s.setStyle x (fun d => { d with label := some l }), true) else (s, false)
  | .setProp x k v =>
    if x < s.f.n then (s.setStyle x (fun d => { d with props := SData.setProp d.props k v }), true) else (s, false)
  | .touchStyle x => if x < s.f.n then (s.realise x, true) else (s, false)
  | .copy _ _ => (s, false)

/-! ### copy -/

/-- `deepcopy(self)` with `_parent` cut: tree as in `Forest.copy`; the clone of the `k`-th subtree node takes the
block of `Slot.count` addresses starting at `next + Slot.count * k`, one per slot the original holds, with the
same content; records are copied -/
def copy0 (s : AForest) (o : Nat) : AForest :=
  let nodes := s.f.subtree (s.f.n + 1) o
  let isNew (j : Nat) : Bool := s.f.n ≤ j && j < s.f.n + nodes.length
  let src (j : Nat) : Nat := nodes.getD (j - s.f.n) 0
  { f := s.f.copy o,
    na := fun j =>
      if isNew j then
        { s.na (src j) with
          adr := fun sl => ((s.na (src j)).adr sl).map (fun _ => s.next + Slot.count * (j - s.f.n) + sl.code) }
      else s.na j,
    heap := fun a =>
      if s.next ≤ a && a < s.next + Slot.count * nodes.length then
        match (s.na (nodes.getD ((a - s.next) / Slot.count) 0)).adr (Slot.ofCode ((a - s.next) % Slot.count)) with
        | some b => s.heap b
        | none => s.heap a
      else s.heap a,
    next := s.next + Slot.count * nodes.length }

/-- the label part of `BaseGeo.copy` (`s0` = state before the call, `s` = after the deepcopy) -/
def labelStep (s0 s : AForest) (o : Nat) : AForest :=
  if s0.touched o then
    let s1 := s.realise o
    let lab := copyLabel (clsName (s0.na o).cls) true (s0.styleView o).label
    s1.setStyle s0.f.n (fun d => { d with label := lab })
  else s

/-- `setattr(obj_copy, k, v)` for an attribute keyword with a value the setter accepts (a style keyword does nothing
here; a rejected value is skipped — `copyKwG` is the function that also models the raise) -/
def applyOv (s : AForest) (root : Nat) : Ov → AForest
  | .pos p => if p.isEmpty then s else setPos (s.f.n + 1) s root p
  | .ori r => if (oriArg r).isEmpty then s else s.setOri root (oriArg r)
  | .arr sl v => if sl.isArr && (s.intsOf root sl).isSome then s.setFresh root sl (.ints v) else s
  | .scal k v =>
    if (s.na root).scal.any (fun e => e.1 = k) then s.setMeta root (setScalList (s.na root).scal k v) (s.na root).skw
    else s
  | .label _ => s
  | .sprop _ _ => s

/-- the style keywords, collected into one `style.update` argument (a later keyword of the same name wins) -/
def styleKw (kw : List Ov) : SData :=
  kw.foldl (fun d ov => match ov with
    | .label l => { d with label := some l }
    | .sprop k v => { d with props := SData.setProp d.props k v }
    | _ => d) SData.empty

/-- `obj.copy(**kwargs)` with attribute keywords whose values are accepted; the copy is object `s.f.n` -/
def copyKw (s : AForest) (o : Nat) (kw : List Ov) : AForest :=
  let s1 := labelStep s (s.copy0 o) o
  let s2 := kw.foldl (fun t ov => applyOv t s.f.n ov) s1
  if (styleKw kw).nonempty then s2.setStyle s.f.n (fun d => d.update (styleKw kw)) else s2

/-- the setter operation behind a non-style keyword (`setattr(obj_copy, k, v)`); `none` for a style keyword -/
def kwOp (root : Nat) : Kw → Option AOp
  | .attr (.pos p) => some (.setPos root p)
  | .attr (.ori r) => some (.setOri root r)
  | .attr (.arr sl v) => some (.setArr root sl v)
  | .attr (.scal k v) => some (.setScal root k v)
  | .attr (.label _) => none
  | .attr (.sprop _ _) => none
  | .parent p => some (.tree (.setParent root p))
  | .children objs => some (.tree (.setChildren root objs))
  | .bad => some (.tree .rejected)

/-- one turn of `for k, v in kwargs.items()`: nothing more happens once a setter has raised -/
def kwStep (root : Nat) (r : AForest × Bool) (kw : Kw) : AForest × Bool :=
  if r.2 then (match kwOp root kw with | some op => r.1.stepBase op | none => r) else r

/-- the attribute keywords of a keyword list -/
def attrs (kws : List Kw) : List Ov := kws.filterMap (fun kw => match kw with | .attr ov => some ov | _ => none)

/-- `obj.copy(**kwargs)`, any keywords; the copy is object `s.f.n`.  Deep copy, label, then the non-style keywords
through their setters in keyword order, then ONE `style.update` with the style keywords.  Second component `false`:
a setter raised — the loop stops there, the style keywords are not applied, `copy` raises; the objects made by the
deep copy stay in the state (they exist; whether anything still refers to them is a theorem, Props/C18) -/
def copyKwG (s : AForest) (o : Nat) (kws : List Kw) : AForest × Bool :=
  let s1 := labelStep s (s.copy0 o) o
  let r := kws.foldl (kwStep s.f.n) (s1, true)
  if r.2 && (styleKw (attrs kws)).nonempty then
    (r.1.setStyle s.f.n (fun d => d.update (styleKw (attrs kws))), true)
  else r

/-- the assignment that a keyword stands for, as an operation on the finished plain copy `root`:
`twin.<attr> = v`, `twin.style.label = v`, `twin.style.<property> = v` -/
def assignOp (root : Nat) : Kw → AOp
  | .attr (.label l) => .setLabel root l
  | .attr (.sprop k v) => .setProp root k v
  | kw => match kwOp root kw with | some op => op | none => .tree .rejected

/-- one operation; second component: accepted? -/
def step (s : AForest) : AOp → AForest × Bool
  | .copy o kw => if o < s.f.n then s.copyKwG o kw else (s, false)
  | op => s.stepBase op

/-- "a plain copy, then the values assigned one after the other": the assignments of a keyword list, in keyword order,
as operations on object `root` of state `t`; nothing more happens once one has raised -/
def assignStep (root : Nat) (r : AForest × Bool) (kw : Kw) : AForest × Bool :=
  if r.2 then r.1.step (assignOp root kw) else r

def assignRun (root : Nat) (kws : List Kw) (t : AForest) : AForest × Bool := kws.foldl (assignStep root) (t, true)

/-- the objects an operation names -/
def mentions : AOp → List Nat
  | .tree (.add c objs _) => c :: objs
  | .tree (.remove c objs _ _) => c :: objs
  | .tree (.setParent o p) => o :: p.toList
  | .tree (.setChildren c objs) => c :: objs
  | .tree (.setTyped c _ objs) => c :: objs
  | .tree (.plus a b) => [a, b]
  | .tree .rejected => []
  | .move x _ _ => [x]
  | .rotate x _ _ _ => [x]
  | .setPos x _ => [x]
  | .setOri x _ => [x]
  | .setArr x _ _ => [x]
  | .setScal x _ _ => [x]
  | .setLabel x _ => [x]
  | .setProp x _ _ => [x]
  | .touchStyle x => [x]
  | .copy o kw => o :: kw.flatMap Kw.named

end AForest
end MagpyVerif
