/-
Model/PixelAgg.lean — the numpy reductions `pixel_agg` names (`getattr(np, pixel_agg)` in `check_format_pixel_agg`),
as functions of one sensor's pixel list, componentwise on vectors (the code reduces over the pixel axes only, the
last axis of length 3 stays).  Polymorphic over `Num α`: run at `Float` by the driver family `level2f`; the theorems
of Props/C03–C05 about post-processing hold for ANY function of the pixel list, so nothing is proved about these.

As numpy computes them:  `sum` = add.reduce; `mean` = add.reduce / n; `std` = sqrt(add.reduce((x - mean)²) / n)
(`_methods._var` with ddof = 0); `median` = middle element of the sorted list, or the mean of the two middle ones;
`min` / `max` = minimum / maximum .reduce; `ptp` = max − min.
-/
import MagpyVerif.Model.Kernels

namespace MagpyVerif.PixelAgg
open MagpyVerif MagpyVerif.Kern
variable {α : Type} [Num α]

def npSum : List α → α
  | [] => n 0
  | x :: xs => xs.foldl (· + ·) x

def npMean (xs : List α) : α := npSum xs / n xs.length

def npMin : List α → α
  | [] => n 0
  | x :: xs => xs.foldl (fun a b => if Num.lt b a then b else a) x

def npMax : List α → α
  | [] => n 0
  | x :: xs => xs.foldl (fun a b => if Num.lt a b then b else a) x

def insertSorted (x : α) : List α → List α
  | [] => [x]
  | y :: ys => if Num.le x y then x :: y :: ys else y :: insertSorted x ys

def sort (xs : List α) : List α := xs.foldr insertSorted []

def npMedian (xs : List α) : α :=
  let s := sort xs
  let k := s.length
  if k % 2 == 1 then s.getD (k / 2) (n 0)
  else (s.getD (k / 2 - 1) (n 0) + s.getD (k / 2) (n 0)) / n 2

def npStd (xs : List α) : α :=
  let mu := npMean xs
  Num.sqrt (npSum (xs.map fun x => (x - mu) * (x - mu)) / n xs.length)

def npPtp (xs : List α) : α := npMax xs - npMin xs

/-- a scalar reduction applied to each of the three components of the pixel values -/
def comp (f : List α → α) (vs : List (V3 α)) : V3 α :=
  ⟨f (vs.map (·.x)), f (vs.map (·.y)), f (vs.map (·.z))⟩

/-- `check_format_pixel_agg`: `none` = not a reduction this model knows; `some none` = `pixel_agg=None` -/
def byName (name : String) : Option (Option (List (V3 α) → V3 α)) :=
  match name with
  | "none" => some none
  | "sum" => some (some (comp npSum))
  | "mean" => some (some (comp npMean))
  | "min" => some (some (comp npMin))
  | "max" => some (some (comp npMax))
  | "median" => some (some (comp npMedian))
  | "std" => some (some (comp npStd))
  | "ptp" => some (some (comp npPtp))
  | _ => none

end MagpyVerif.PixelAgg
