/-
Model/MeshUnique.lean — the glue between a triangle soup `(n, 3, 3)` and the `(vertices, faces)` pair of a TriangularMesh
(class_magnet_TriangularMesh.py, `from_mesh` and `from_triangles`, the same two lines in both):

    vertices, tr = np.unique(mesh.reshape((-1, 3)), axis=0, return_inverse=True)
    faces = tr.reshape((-1, 3))

`np.unique(ar, axis=0, return_inverse=True)` as numpy (2.x, `_unique1d`) runs it: the rows are viewed as ONE structured element
each (three float fields), then

    perm = ar.argsort()                       lexicographic by the fields' `compare` function (numbers by `<`, NaN after every number,
                                              NaN against NaN "equal")                                           → `rowLt`, `argsortRows`
    aux = ar[perm]
    mask[:1] = True;  mask[1:] = aux[1:] != aux[:-1]     field-wise `!=` of the element type: `-0.0 == 0.0`, `nan != nan`   → `rowEq`
    vertices = aux[mask]                                                                                          → `labelRuns … .1`
    imask = cumsum(mask) - 1;  inv_idx[perm] = imask                                                              → `labelRuns … .2`, `uniqueRows`

The two scalar comparisons are parameters (`RowCmp`): IEEE double in the driver (`RowCmp.float`), `=` / `<` of ℝ in the theorems
(Lemmas/MeshUnique.lean).  The sort is the stable merge sort of core Lean; numpy's `argsort(kind="quicksort")` is an insertion sort
(stable) up to 16 elements and an unstable introsort above: WHICH of several `==`-equal rows (they can differ only in the sign of a
zero — or be NaN rows, which are never merged anyway) becomes the representative / comes first is the sort algorithm's choice and is
not part of this model's claim: no theorem depends on it (they are all stated up to `rowEq`), and the correspondence stream compares
bit patterns only for soups of at most 15 points and values by `==` above.   Mathlib-free, computable.
-/
import MagpyVerif.Model.MeshPipeline

namespace MagpyVerif.Kern

/-- the two comparisons `np.unique(axis=0)` performs on the element type of a column -/
structure RowCmp (α : Type) where
  /-- `a == b` of the element type (IEEE: `-0.0 == 0.0`, `nan != nan`) -/
  eq : α → α → Bool
  /-- `compare(a, b) < 0` of the element type's sort order (IEEE double: `a < b`, or `b` is NaN and `a` is not) -/
  lt : α → α → Bool

/-- IEEE double as numpy compares it -/
def RowCmp.float : RowCmp Float where
  eq a b := a == b
  lt a b := a < b || (b != b && a == a)

variable {α : Type}

/-- `a == b` of the structured element (`!(a != b)`): every field equal -/
def rowEq (c : RowCmp α) (p q : V3 α) : Bool := c.eq p.x q.x && c.eq p.y q.y && c.eq p.z q.z

/-- `VOID_compare(p, q) < 0`: the first field whose `compare` is not 0 decides -/
def rowLt (c : RowCmp α) (p q : V3 α) : Bool :=
  c.lt p.x q.x || (!c.lt q.x p.x && (c.lt p.y q.y || (!c.lt q.y p.y && c.lt p.z q.z)))

/-- `ar[perm]` with `perm = ar.argsort()`: the rows with their input positions, sorted (stable) -/
def argsortRows (c : RowCmp α) (pts : List (V3 α)) : List (V3 α × Nat) :=
  pts.zipIdx.mergeSort fun a b => !rowLt c b.1 a.1

/-- one pass over `aux` (previous row, number of run heads so far): the run heads `aux[mask]` and, for every sorted row, its
input position with `imask = cumsum(mask) - 1` -/
def labelRuns (c : RowCmp α) : Option (V3 α) → Nat → List (V3 α × Nat) → List (V3 α) × List (Nat × Nat)
  | _, _, [] => ([], [])
  | prev, k, (p, i) :: rest =>
    let head := match prev with
      | none => true             -- mask[:1] = True
      | some q => !rowEq c p q   -- mask[1:] = aux[1:] != aux[:-1]
    let k' := if head then k + 1 else k
    let r := labelRuns c (some p) k' rest
    (if head then p :: r.1 else r.1, (i, k' - 1) :: r.2)

/-- `np.unique(pts, axis=0, return_inverse=True)` : (unique rows, for every input row the index of its row) -/
def uniqueRows (c : RowCmp α) (pts : List (V3 α)) : List (V3 α) × List Nat :=
  let r := labelRuns c none 0 (argsortRows c pts)
  -- inv_idx = np.empty(n); inv_idx[perm] = imask
  (r.1, (List.range pts.length).map fun i => ((r.2.find? fun e => e.1 == i).map (·.2)).getD 0)

/-- `mesh.reshape((-1, 3))` : the corners of the soup, triangle after triangle -/
def soupPoints (soup : List (Tri α)) : List (V3 α) := soup.flatMap fun t => [t.1, t.2.1, t.2.2]

/-- `tr.reshape((-1, 3))` -/
def facesOf : List Nat → List Mesh.Face
  | a :: b :: c :: rest => (a, b, c) :: facesOf rest
  | _ => []

/-- the two lines of `TriangularMesh.from_mesh` that turn the soup into `vertices`, `faces` -/
def fromMesh (c : RowCmp α) (soup : List (Tri α)) : List (V3 α) × List Mesh.Face :=
  let u := uniqueRows c (soupPoints soup)
  (u.1, facesOf u.2)

/-- `TriangularMesh.from_triangles`: `mesh = np.array([tria.vertices for tria in triangles])`, then the same two lines -/
def fromTriangles (c : RowCmp α) (triangleVertices : List (Tri α)) : List (V3 α) × List Mesh.Face :=
  fromMesh c triangleVertices

end MagpyVerif.Kern
