/-
Model/StyleTree.lean — style handling at the level of flat "magic underscore" dictionaries (C20):
`update_nested_dict` on leaves, `MagicProperties.update` (last assignment wins, optional
replace-None-only), and the resolution `get_style` performs: defaults of the base family updated
by every matching family's non-None values in order, object style overridden by the show()
keyword arguments, remaining None leaves filled from the defaults.
-/
namespace MagpyVerif.Style

/-- a flat style dictionary: leaf key ↦ value (`none` = Python None / unset) -/
abbrev Flat := String → Option Nat

/-- `d.update({k: v for k, v in u.items() if v is not None})` -/
def updateNonNone (d u : Flat) : Flat := fun k => match u k with | some v => some v | none => d k

/-- `style.update(**u)`: every key present in `u` (given as an explicit key list) is replaced -/
def update (d : Flat) (u : List (String × Option Nat)) : Flat :=
  u.foldl (fun acc kv => fun k => if k = kv.1 then kv.2 else acc k) d

/-- `style.update(**u, _replace_None_only=True)` -/
def fillNone (d u : Flat) : Flat := fun k => match d k with | some v => some v | none => u k

/-- defaults seen by an object: base, then each of its families in order (later families win) -/
def familyDefaults (base : Flat) (fams : List Flat) : Flat := fams.foldl updateNonNone base

/-- `get_style(obj, defaults, **kwargs)` -/
def getStyle (base : Flat) (fams : List Flat) (obj : Flat) (kw : List (String × Option Nat)) : Flat :=
  fillNone (update obj kw) (familyDefaults base fams)

/-- first non-None of a list of candidates -/
def firstSome : List (Option Nat) → Option Nat
  | [] => none
  | some v :: _ => some v
  | none :: rest => firstSome rest

end MagpyVerif.Style
