/-
Model/Tree.lean — a collection tree and the path operations applied to it
(BaseTransform.move/_rotate recursion over children, BaseGeo.position/orientation setters with
the child updates, reset_path).  A leaf is a node without children: the code iterates
`getattr(self, "children", [])`.
-/
import MagpyVerif.Model.Path

namespace MagpyVerif

inductive Node (G V : Type) where
  | mk (obj : Obj G V) (children : List (Node G V))
  deriving Repr

namespace Node
variable {G V : Type}

def obj : Node G V → Obj G V
  | mk o _ => o
def children : Node G V → List (Node G V)
  | mk _ cs => cs

/-- `BaseTransform.move`: children first, then the object itself -/
def move [Add V] (inp : PathIn V) (start : Option Int) : Node G V → Node G V
  | mk o cs => mk (applyMove inp start o) (cs.map (move inp start))

/-- `BaseTransform._rotate` -/
def rotate [Mul G] [SMul G V] [Add V] [Sub V] (rot : PathIn G) (anchor : Option (PathIn V))
    (start : Option Int) (parentPath : Option (List V)) : Node G V → Node G V
  | mk o cs =>
    let ppth := match parentPath with
      | none => o.pos
      | some p => p
    mk (applyRotation rot anchor start parentPath o) (cs.map (rotate rot anchor start (some ppth)))

/-- `BaseGeo.position` setter (input already validated and reshaped to (-1,3)) -/
def setPosition [Add V] [Sub V] (inp : List V) : Node G V → Node G V
  | mk o cs =>
    mk (setPositionObj inp o) (cs.map fun c =>
      let oldp := padSlice inp.length o.pos
      let cp := padSlice inp.length c.obj.pos
      setPosition (List.zipWith (· + ·) inp (List.zipWith (· - ·) cp oldp)) c)

/-- `self.orientation` / `np.squeeze`: a length-1 stack is handed on as a single rotation -/
def squeezeRot {α : Type} : List α → PathIn α
  | [x] => .scalar x
  | xs => .vector xs

/-- `BaseGeo.orientation` setter (input already validated, as a stack of rotations) -/
def setOrientation [Mul G] [Inv G] [SMul G V] [Add V] [Sub V] (inp : List G) :
    Node G V → Node G V
  | mk o cs =>
    let newPos := padSlice inp.length o.pos
    let oldPad := padSlice inp.length o.ori
    let t := squeezeRot (List.zipWith (fun a b => a * b⁻¹) inp oldPad)
    mk { pos := newPos, ori := inp } (cs.map fun c =>
      let c1 := setPosition (padSlice newPos.length c.obj.pos) c
      rotate t (some (.vector newPos)) (some 0) none c1)

/-- `reset_path` -/
def resetPath [Mul G] [Inv G] [One G] [SMul G V] [Add V] [Sub V] [Zero V] :
    Node G V → Node G V :=
  fun n => setOrientation [1] (setPosition [0] n)

/-- apply `f` to the node at address `addr` (list of child indices from the root) -/
def modifyAt (f : Node G V → Node G V) : List Nat → Node G V → Node G V
  | [], n => f n
  | i :: rest, mk o cs => mk o (cs.mapIdx fun j c => if j = i then modifyAt f rest c else c)

end Node

/-- one user-level operation of a history, addressed to a node of the tree -/
inductive Op (G V : Type) where
  | move (addr : List Nat) (inp : PathIn V) (start : Option Int)
  | rotate (addr : List Nat) (rot : PathIn G) (anchor : Option (PathIn V)) (start : Option Int)
  | setPos (addr : List Nat) (inp : List V)
  | setOri (addr : List Nat) (inp : List G)
  | reset (addr : List Nat)
  /-- any call the input validators reject (malformed displacement / anchor / start / rotation …) -/
  | rejected

/-- the state machine of histories: accepted operations act through the functions above,
rejected ones (including the empty position / orientation path, which the validators refuse)
leave the state as it is. -/
def Node.step {G V : Type} [Mul G] [Inv G] [One G] [SMul G V] [Add V] [Sub V] [Zero V]
    (t : Node G V) : Op G V → Node G V
  | .move a inp start => Node.modifyAt (Node.move inp start) a t
  | .rotate a rot anchor start => Node.modifyAt (Node.rotate rot anchor start none) a t
  | .setPos a inp => if inp.isEmpty then t else Node.modifyAt (Node.setPosition inp) a t
  | .setOri a inp => if inp.isEmpty then t else Node.modifyAt (Node.setOrientation inp) a t
  | .reset a => Node.modifyAt Node.resetPath a t
  | .rejected => t

end MagpyVerif
