/-
Model/History.lean — the full operation set of path histories on a collection tree (C09 / C10):
the operations of Model/Tree.lean (`move`, `rotate`, `position=`, `orientation=`, `reset_path`, rejected calls)
plus the six `rotate_from_*` entry points (Model/RotFrom.lean) and `Collection.add` / `Collection.remove`
(class_Collection.py: they change `_children` / `_parent` and touch no path).
-/
import MagpyVerif.Model.RotFrom
namespace MagpyVerif
open RotFrom

namespace Node
variable {G V : Type}
/-- `Collection.add(child)`: appended at the end of `_children`; no path is touched -/
def addChild (c : Node G V) : Node G V → Node G V
  | mk o cs => mk o (cs ++ [c])
/-- `Collection.remove(self.children[j])`: the other children keep their order; no path is touched -/
def removeChild (j : Nat) : Node G V → Node G V
  | mk o cs => mk o (cs.eraseIdx j)
end Node

/-- one user-level operation of a history -/
inductive HOp (α G V : Type) where
  | base (o : Op G V)
  | rotFrom (addr : List Nat) (e : Entry α) (anchor : Option (PathIn V)) (start : Option Int)
  | add (addr : List Nat) (c : Node G V)
  | remove (addr : List Nat) (j : Nat)

/-- the state machine of histories over the full operation set -/
def Node.hstep {α G V : Type} [Kern.Num α] [Mul G] [Inv G] [One G] [SMul G V] [Add V] [Sub V] [Zero V]
    (sc : Scipy α G) (t : Node G V) : HOp α G V → Node G V
  | .base o => t.step o
  | .rotFrom a e an s => t.step (rotFromOp sc a e an s)
  | .add a c => Node.modifyAt (Node.addChild c) a t
  | .remove a j => Node.modifyAt (Node.removeChild j) a t

end MagpyVerif
