/-
Model/History.lean — the full operation set of path histories on a collection tree (C09 / C10):
the operations of Model/Tree.lean (`move`, `rotate`, `position=`, `orientation=`, `reset_path`, rejected calls)
plus the six `rotate_from_*` entry points (Model/RotFrom.lean) and `Collection.add` / `Collection.remove`
(class_Collection.py: they change `_children` / `_parent` and touch no path).
-/
import MagpyVerif.Model.RotFrom
import MagpyVerif.Model.Level2
namespace MagpyVerif
open RotFrom

namespace Node
variable {G V : Type}
/-- `Collection.add(child)`: appended at the end of `_children`; no path is touched -/
def addChild (c : Node G V) : Node G V → Node G V
  | mk o cs => mk o (cs ++ [c])
/-- `Collection.remove(self.children[j])`: the other children keep their order; no path is touched -/
def removeChild (j : Nat) : Node G V → Node G V
  | mk o cs => mk o (cs.eraseIdx j)
/-- the object at an address (list of child indices from the root) -/
def objAt? : List Nat → Node G V → Option (Obj G V)
  | [], mk o _ => some o
  | i :: rest, mk _ cs =>
    match cs[i]? with
    | some c => objAt? rest c
    | none => none

/-- what one of the collection's own sensors reads, `[path index][pixel]`: `getBH_level2` (Model/Level2 `tensor`) on the
source objects at the addresses `srcs` (each with its local field function) taken as ONE collection entry, observed by the
sensor object at address `kaddr` with the given pixel data.  `none` if an address does not exist. -/
def ownTensor [Mul G] [Inv G] [One G] [SMul G V] [Add V] [Sub V] [Zero V] [BEq G] (flipX : V → V) (t : Node G V)
    (srcs : List (List Nat × (V → V))) (kaddr : List Nat) (pixels : List V) (pixShape : List Nat) (left : Bool) :
    Option (List (List V)) := do
  let leaves ← srcs.mapM fun a => (t.objAt? a.1).map fun o => Level2.Entry.leaf ⟨o.pos, o.ori, a.2⟩
  let k ← t.objAt? kaddr
  let T := Level2.tensor flipX [Level2.Entry.coll leaves] [⟨k.pos, k.ori, pixels, pixShape, left⟩]
  T.head?.map fun Bm => Bm.map fun row => row.headD []
end Node

/-- one user-level operation of a history -/
inductive HOp (α G V : Type) where
  | base (o : Op G V)
  | rotFrom (addr : List Nat) (e : Entry α) (anchor : Option (PathIn V)) (start : Option Int)
  | add (addr : List Nat) (c : Node G V)
  | remove (addr : List Nat) (j : Nat)

/-- the state machine of histories over the full operation set -/
def Node.hstep {α G V : Type} [Kern.Num α] [Mul G] [Inv G] [One G] [SMul G V] [Add V] [Sub V] [Zero V]
    (sc : Scipy α G) (t : Node G V) : HOp α G V → Node G V
  | .base o => t.step o
  | .rotFrom a e an s => t.step (rotFromOp sc a e an s)
  | .add a c => Node.modifyAt (Node.addChild c) a t
  | .remove a j => Node.modifyAt (Node.removeChild j) a t

end MagpyVerif
