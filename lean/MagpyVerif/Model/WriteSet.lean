/-
Model/WriteSet.lean — the write-set / alias side of C08 (field computation is observationally pure).

Two parts.

1. `Site`, `ExtCall`, `Pure`: the shape of the table that `translate/writeset.py` extracts from /repo's source on every run
   (Gen/WriteSet.lean) and the predicate "every mutation site on the field-computation call path writes into memory allocated
   during the call, or is one of the explicitly allowed writes".

2. An abstract heap (addresses, bump allocation, writes) and the execution of a trace of events on it, with the `finally`
   that puts the allow-listed cells back.  `Props/C08.lean` proves on it that writes into fresh addresses (plus restored
   temporary writes) leave every pre-existing cell as it was, at a normal and at an exceptional exit.

TRUSTED — the link between the two parts is NOT proved, it is the points-to classification of `translate/writeset.py`:
a site with `root = .fresh` is claimed to write only into objects allocated during the call.  That claim rests on the tables
of the translator (repeated in Gen/WriteSet.lean as `freshDeep`, `freshShallow`, `alias`, `mutatingMethods`, … and pinned in
Props/C08.lean so that editing them without review breaks the build):

* treated as returning NEW memory without references to pre-existing mutable objects (`freshDeep`): np.array (unless
  dtype=object or copy=…), np.zeros/ones/empty/full/arange/linspace/eye, np.cumsum/prod/sum, np.linalg.norm/inv/det, the
  elementwise numpy functions (np.sin, np.arctan2, np.sign, np.log, np.zeros_like, np.logical_or, …) when called without
  `out=`, Rotation.from_quat/identity/…, scipy's ellipk/ellipe/…, len/int/float/str/range/isinstance/…, every exception
  constructor; methods as_quat/as_matrix/apply/inv/astype/flatten/tolist/sum/mean/… ; arithmetic (`a - b`, `-a`, `a / b`);
* treated as a NEW container or array that SHARES the elements of its argument (`freshShallow`): list, tuple, set, dict,
  sorted, zip, enumerate, map, filter, product, literals `[..] (..) {..}`, comprehensions, np.tile, np.repeat,
  np.concatenate, np.delete, np.stack, np.pad, np.copy, np.array(dtype=object), np.asarray(<python list>), `.copy()`,
  `.items()/.keys()/.values()`, `list + list`, `tuple * n`; the `**kwargs` dict and the `*args` tuple of a callee;
* treated as possibly returning its argument or a view of it (`alias`): np.asarray / np.asanyarray (of anything that is
  not a python list literal), np.atleast_*, np.squeeze, np.reshape, np.expand_dims, np.split, np.ravel, np.transpose,
  getattr, max, min, next, iter, methods reshape/squeeze/get/view/ravel/transpose, every attribute / subscript /
  iteration of a non-container; EVERYTHING NOT LISTED (unknown functions and methods) is treated this way and, if anything
  pre-existing is reachable from its arguments, recorded as an external call;
* treated as writing in place (`mutatingMethods`, `outFuncs`): append extend insert pop remove sort reverse update clear
  fill resize put setdefault popitem add discard itemset setflags partition byteswap …, any call with `out=`, np.copyto,
  np.put, np.place, np.putmask, np.fill_diagonal, np.nan_to_num(copy=…), setattr, delattr, `del x.a`, `del x[i]`,
  `x.a = …`, `x[i] = …`, `x op= …`, rebinding of a `global`.  An in-place method under any other name is not seen.

Also trusted: Python evaluates a property getter when the attribute is loaded (the getters of the object classes whose
name is loaded on a pre-existing value are part of the analysed set), `__iter__/__len__/__getitem__/__repr__` of the object
classes are part of it, other dunder methods reached implicitly (`__eq__` of numpy arrays, `__hash__`) are not.
-/
namespace MagpyVerif.WriteSet

/-- what kind of statement the site is.  `consume` = a call that hands its arguments to code that may write into them
(getBH_level1 → the field function; a core field function → check_chirality): the arguments themselves must be fresh.
`consumeDeep` = what those arguments CONTAIN (the elements of an object-dtype stack). -/
inductive Kind
  | attrAssign | subscriptAssign | augAssign | methodCall | outCall | del | globalAssign | consume | consumeDeep
  deriving DecidableEq, Repr

/-- class of the root of the mutated expression: allocated during the call / reachable from a parameter or `self` /
reachable from a module global, class attribute or default value -/
inductive Root
  | fresh | param | global
  deriving DecidableEq, Repr

/-- where the site lies: `tiling` = the top-level statement of getBH_level2 that pads the shorter paths in the objects,
`restore` = the `finally` block of the `try` that follows it, `lazyStyle` = the `style` getter of BaseGeo materialising the
private slots `_style` / `_style_kwargs` -/
inductive Region
  | other | tiling | restore | lazyStyle
  deriving DecidableEq, Repr

structure Site where
  fn : String
  line : Nat
  kind : Kind
  /-- source text of the mutated expression -/
  target : String
  /-- attribute / method name where there is one -/
  attr : String
  root : Root
  region : Region
  /-- (core field functions only) the site writes into one of the function's own parameters -/
  writesArg : Bool
  deriving Repr

/-- a call of a function that is not part of the analysed set -/
structure ExtCall where
  fn : String
  line : Nat
  callee : String
  /-- nothing that existed before the call is reachable from the receiver and the arguments -/
  argsFresh : Bool
  deriving Repr

/-- allowed write 1: getBH_level2 pads `_position` / `_orientation` of the shorter objects in place and puts the saved arrays
back in the `finally` — the temporary write that Model/Level2State and the three flags of Gen/Exits are about -/
def Site.tilingAllowed (s : Site) : Bool :=
  s.fn == "field_wrap_BH.getBH_level2" && s.kind == .attrAssign && (s.attr == "_position" || s.attr == "_orientation")
    && (s.region == .tiling || s.region == .restore)

/-- allowed write 2: loading `obj.style` (getBH_level2 does so only for `output='dataframe'`, to read the labels) creates the
style object on first use and moves the constructor's style keywords into it.  This IS a write to pre-existing private
slots (`_style : None → BaseStyle`, `_style_kwargs : {…} → {}`); it is not restored.  It is invisible through the public
attribute (`obj.style` performs the same materialisation for whoever looks) — reported as a finding, kept out of the
preserved part of the heap below (`lazy` cells). -/
def Site.lazyStyleAllowed (s : Site) : Bool :=
  s.fn == "class_BaseGeo.BaseGeo.style" && s.region == .lazyStyle

def Kind.isWrite : Kind → Bool
  | .consume | .consumeDeep => false
  | _ => true

/-- a site is acceptable if it writes fresh memory, or is one of the two allowed writes.  A `consumeDeep` site may be
`param`: the object-dtype stack that tile_group_property builds for ragged properties (Polyline vertices, TriangularMesh
faces of different lengths) holds the source objects' own arrays, by reference.  That is harmless exactly if no core field
function writes into an ELEMENT of an array it is given — and those functions are in the same table, analysed with their
parameters as caller-owned arrays (`writesArg`) whose elements pre-exist: such a write would be a `param` site of theirs. -/
def Site.ok (s : Site) : Bool :=
  match s.root with
  | .fresh => true
  | .param => s.kind == .consumeDeep || s.tilingAllowed || s.lazyStyleAllowed
  | .global => false

/-- external callees that receive pre-existing values and are trusted not to write into them (reviewed by hand):
* `value:field_func` — getBH_level1 calling the field function: for the library's classes these are the core functions of
  the same table; for a CustomSource it is user code (outside the property);
* `value:pixel_agg_func` — `getattr(np, pixel_agg)`, a numpy reduction (np.mean, np.max, …) applied to the fresh result array;
* `value:cfkt` — one of the 129 CylinderSegment case functions taken from a module-level table: the call goes through a table
  lookup, so the analysis does not resolve the callee, but every function named in such a table is pulled into the analysed set
  (a module-level function used as a value) and has its own rows;
* `pd.DataFrame` — builds the dataframe from an `itertools.product` of fresh label lists;
* `method:_style_class` — the constructor of the style class in the lazy `style` getter;
* `method:__subclasses__` — `type.__subclasses__()` in `get_registered_sources`;
* `method:fabs`, `method:sqrt` — `math.fabs` / `math.sqrt` (`import math as m`) on scalars in special_cel.cel_iter0. -/
def trustedCallees : List String :=
  ["value:field_func", "value:pixel_agg_func", "value:cfkt", "pd.DataFrame", "method:_style_class", "method:__subclasses__",
   "method:fabs", "method:sqrt"]

def ExtCall.ok (c : ExtCall) : Bool := c.argsFresh || trustedCallees.contains c.callee

/-- the table describes a call path that writes only fresh memory (and the allowed cells); `notes` are the constructs the
translator could not interpret (must be none) -/
def Pure (sites : List Site) (ext : List ExtCall) (notes : List String) : Bool :=
  sites.all Site.ok && ext.all ExtCall.ok && notes.isEmpty

/-- the sites that are not acceptable (what a check run prints) -/
def flagged (sites : List Site) : List Site := sites.filter fun s => !s.ok

/-! ### abstract heap -/

/-- a heap with a bump allocator: cells at and above `next` are unallocated -/
structure Heap (V : Type) where
  cell : Nat → Option V
  next : Nat

/-- the class of addresses a site may write, as the table classifies it -/
inductive Cls
  | fresh | temp | lazy | other
  deriving DecidableEq, Repr

def Site.cls (s : Site) : Cls :=
  if !s.kind.isWrite then .other
  else if s.root == .fresh then .fresh
  else if s.tilingAllowed then .temp
  else if s.lazyStyleAllowed then .lazy
  else .other

/-- one step of an execution: an allocation (the allocator chooses the address), or a write issued by the mutation site
with index `site` of the table -/
inductive Ev (V : Type)
  | alloc (v : V)
  | write (site : Nat) (a : Nat) (v : V)

def Heap.step {V : Type} (h : Heap V) : Ev V → Heap V
  | .alloc v => { cell := fun a => if a = h.next then some v else h.cell a, next := h.next + 1 }
  | .write _ a v => { h with cell := fun b => if b = a then some v else h.cell b }

/-- run a trace.  An exception anywhere simply ends the trace early: exceptional exits are the prefixes of a trace. -/
def Heap.exec {V : Type} (h : Heap V) (tr : List (Ev V)) : Heap V := tr.foldl Heap.step h

/-- the `finally`: the cells in `temp` get the values they had at entry -/
def Heap.restore {V : Type} (h0 : Heap V) (temp : Nat → Bool) (h : Heap V) : Heap V :=
  { h with cell := fun a => if temp a then h0.cell a else h.cell a }

/-- the semantic reading of "write into fresh memory": every write of the trace goes to an address handed out by the
allocator during the call, to a cell the `finally` restores, or to a `lazy` cell -/
def WritesFresh {V : Type} (h0 : Heap V) (temp lazy : Nat → Bool) (tr : List (Ev V)) : Prop :=
  ∀ e ∈ tr, match e with
    | .alloc _ => True
    | .write _ a _ => h0.next ≤ a ∨ temp a = true ∨ lazy a = true

/-- TRUSTED HYPOTHESIS in explicit form: the trace is one the table describes — every write event is issued by a mutation
site of the table and goes to an address of the class the translator computed for that site -/
def DescribedBy {V : Type} (sites : List Site) (h0 : Heap V) (temp lazy : Nat → Bool) (tr : List (Ev V)) : Prop :=
  ∀ e ∈ tr, match e with
    | .alloc _ => True
    | .write i a _ => ∃ s, sites[i]? = some s ∧ s.kind.isWrite = true ∧
        match s.cls with
        | .fresh => h0.next ≤ a
        | .temp => temp a = true
        | .lazy => lazy a = true
        | .other => True

end MagpyVerif.WriteSet
