/-
Model/Polyline.lean — the Polyline source (field_BH_polyline.py) around the straight-segment kernel of
Model/Kernels.lean:

  * `segmentHMasked` : `current_polyline_Hfield` for one row including its on-the-line mask `norm_o4 < 1e-15`
  * `bhjmSegment`    : `BHJM_current_polyline` for one row (J = M = 0, zero-length segments give 0, B = μ₀ H)
  * `polylineRow`    : one Polyline instance = sum over its consecutive vertex pairs
  * `verticesFieldEqual` / `verticesFieldRagged` : the two batch branches of `current_vertices_field` as the code runs them —
    `np.repeat` of observers/currents, `vertices[:, :-1].reshape(-1, 3)` resp. `np.concatenate`, one flat kernel call,
    then `reshape((n0, n1-1, 3)).sum(axis=1)` resp. `np.split(..., cumsum(nvs-1)[:-1])` and a sum per piece.
Mathlib-free, computable.
-/
import MagpyVerif.Model.Kernels

namespace MagpyVerif.Kern
variable {α : Type} [Num α]
open Num

/-- `current_polyline_Hfield` for one row p1 ≠ p2 including `mask1 = norm_o4 < 1e-15` (observer on the carrier line → 0) -/
def segmentHMasked (cur : α) (p1 p2 po : V3 α) : V3 α :=
  let n12 := norm (p1 - p2)
  let c := segmentCore (vd p1 n12) (vd p2 n12) (vd po n12)
  if lt c.2.1 (n 1 / n 1000000000000000) then zero3
  else vs (c.1 / c.2.1 / n12 * cur / (n 4 * pi)) c.2.2

def v3eq (a b : V3 α) : Bool := eq0 (a.x - b.x) && eq0 (a.y - b.y) && eq0 (a.z - b.z)

/-- `BHJM_current_polyline` for one row (`mask_equal`: start == end gives 0; the nan masks mark padding rows and are not
modelled: the generated inputs are finite) -/
def bhjmSegment (f : Field) (cur : α) (p1 p2 po : V3 α) : V3 α :=
  match f with
  | .M | .J => zero3
  | .H => if v3eq p1 p2 then zero3 else segmentHMasked cur p1 p2 po
  | .B => if v3eq p1 p2 then zero3 else vs mu0 (segmentHMasked cur p1 p2 po)

/-- consecutive pairs `(v[:-1], v[1:])` -/
def pairs {β : Type} : List β → List (β × β)
  | a :: b :: rest => (a, b) :: pairs (b :: rest)
  | _ => []

def sum3 (vs : List (V3 α)) : V3 α := vs.foldl (· + ·) zero3

/-- one Polyline instance: the sum over its segments -/
def polylineRow (f : Field) (cur : α) (verts : List (V3 α)) (po : V3 α) : V3 α :=
  sum3 ((pairs verts).map fun (a, b) => bhjmSegment f cur a b po)

/-- an instance of the batch: current, vertices, observer -/
structure PolyInst (α : Type) where
  cur : α
  verts : List (V3 α)
  obs : V3 α

/-- pieces of given lengths (`np.split` at the cumulative sums; `reshape((n0, k, 3))` when all lengths are `k`) -/
def splitLens {β : Type} : List Nat → List β → List (List β)
  | [], _ => []
  | k :: ks, xs => xs.take k :: splitLens ks (xs.drop k)

/-- the flat kernel call both branches make: every instance's observer and current repeated once per segment, next to the
concatenated segment starts and ends -/
def flatRows (f : Field) (insts : List (PolyInst α)) : List (V3 α) :=
  let starts := insts.flatMap fun i => i.verts.dropLast
  let ends := insts.flatMap fun i => i.verts.tail
  let obs := insts.flatMap fun i => List.replicate (i.verts.length - 1) i.obs
  let curs := insts.flatMap fun i => List.replicate (i.verts.length - 1) i.cur
  (starts.zip (ends.zip (obs.zip curs))).map fun (a, b, o, c) => bhjmSegment f c a b o

/-- equal vertex counts `n1`: `BH.reshape((n0, n1-1, 3)); np.sum(BH, axis=1)` -/
def verticesFieldEqual (f : Field) (n1 : Nat) (insts : List (PolyInst α)) : List (V3 α) :=
  (splitLens (List.replicate insts.length (n1 - 1)) (flatRows f insts)).map sum3

/-- different vertex counts: `np.split(BH, np.cumsum(nvs - 1)[:-1])`, sum of each piece -/
def verticesFieldRagged (f : Field) (insts : List (PolyInst α)) : List (V3 α) :=
  (splitLens (insts.map fun i => i.verts.length - 1) (flatRows f insts)).map sum3

/-- `current_vertices_field`: branch on `all(v == nvs[0] for v in nvs)` -/
def verticesField (f : Field) (insts : List (PolyInst α)) : List (V3 α) :=
  match insts with
  | [] => []
  | i0 :: _ =>
    if insts.all (fun i => i.verts.length == i0.verts.length) then verticesFieldEqual f i0.verts.length insts
    else verticesFieldRagged f insts

end MagpyVerif.Kern
