-- translated from magpylib/_src/fields/field_BH_cylinder_segment.py by translate/cylseg2lean.py
import MagpyVerif.Model.CylSegBase

set_option linter.unusedVariables false

namespace MagpyVerif.Kern.CylSeg
open MagpyVerif MagpyVerif.Kern MagpyVerif.Kern.Num MagpyVerif.Kern.NumX
variable {α : Type} [NumX α]

def arctan_k_tan_2 (k phi : α) : α :=
  let full_periods := round (phi / ((n 2) * pi))
  let phi_red := phi - ((full_periods * (n 2)) * pi)
  let result := full_periods * pi
  if lt (abs phi_red) pi then result + (atan (k * (tan (phi_red / (n 2))))) else result + (phi_red / (n 2))

def close (arg1 arg2 : α) : Bool :=
  isclose arg1 arg2 (n 1 / n 1000000000000) (n 1 / n 1000000000000)

def determine_cases (r phi z r1 phi1 z1 : α) : Nat :=
  let result_0 : Nat := 1
  let result_1 : Nat := 1
  let result_2 : Nat := 1
  let mask_z := close z z1
  let result_0 : Nat := 200
  let result_0 : Nat := if mask_z then 100 else result_0
  let mod_2pi := pymod (abs (phi - phi1)) ((n 2) * pi)
  let mask_phi1 := (close mod_2pi (n 0)) || (close mod_2pi ((n 2) * pi))
  let mod_pi := pymod (abs (phi - phi1)) pi
  let mask_phi2 := (close mod_pi (n 0)) || (close mod_pi pi)
  let result_1 : Nat := 30
  let result_1 : Nat := if mask_phi2 then 20 else result_1
  let result_1 : Nat := if mask_phi1 then 10 else result_1
  let mask_r2 := close r (n 0)
  let mask_r3 := close r1 (n 0)
  let mask_r4 := close r r1
  let mask_r1 := mask_r2 && mask_r3
  let result_2 : Nat := 5
  let result_2 : Nat := if mask_r4 then 4 else result_2
  let result_2 : Nat := if mask_r3 then 3 else result_2
  let result_2 : Nat := if mask_r2 then 2 else result_2
  let result_2 : Nat := if mask_r1 then 1 else result_2
  result_0 + result_1 + result_2

def Hphi_zk_case112 (r_i theta_M : α) : α :=
  (cos theta_M) * (log r_i)

def Hz_ri_case112 (phi_bar_M theta_M : α) : α :=
  (-(sin theta_M)) * (sin phi_bar_M)

def Hz_phij_case112 (r_i phi_bar_M theta_M : α) : α :=
  ((sin theta_M) * (sin phi_bar_M)) * (log r_i)

def Hphi_zk_case113 (r theta_M : α) : α :=
  (-(cos theta_M)) * (log r)

def Hz_phij_case113 (r phi_bar_M theta_M : α) : α :=
  ((-(sin theta_M)) * (sin phi_bar_M)) * (log r)

def Hr_zk_case115 (r r_i r_bar_i phi_bar_j theta_M : α) : α :=
  let E := ellipeinc (phi_bar_j / (n 2)) ((((-(n 4)) * r) * r_i) / (sq r_bar_i))
  let E_coef := ((cos theta_M) * (abs r_bar_i)) / r
  let F := ellipkinc (phi_bar_j / (n 2)) ((((-(n 4)) * r) * r_i) / (sq r_bar_i))
  let F_coef := ((-(cos theta_M)) * ((sq r) + (sq r_i))) / (r * (abs r_bar_i))
  (E_coef * E) + (F_coef * F)

def Hphi_zk_case115 (r r_i r_bar_i theta_M : α) : α :=
  let t1 := r_i / r
  let t1_coef := (-(cos theta_M)) * (sgn r_bar_i)
  let t2 := (log (abs r_bar_i)) * (sgn r_bar_i)
  let t2_coef := -(cos theta_M)
  (t1_coef * t1) + (t2_coef * t2)

def Hz_ri_case115 (r r_i r_bar_i phi_bar_j phi_bar_M theta_M : α) : α :=
  let t1 := (abs r_bar_i) / r
  let t1_coef := (sin theta_M) * (sin phi_bar_M)
  let E := ellipeinc (phi_bar_j / (n 2)) ((((-(n 4)) * r) * r_i) / (sq r_bar_i))
  let E_coef := (((sin theta_M) * (cos phi_bar_M)) * (abs r_bar_i)) / r
  let F := ellipkinc (phi_bar_j / (n 2)) ((((-(n 4)) * r) * r_i) / (sq r_bar_i))
  let F_coef := (((-(sin theta_M)) * (cos phi_bar_M)) * ((sq r) + (sq r_i))) / (r * (abs r_bar_i))
  ((t1_coef * t1) + (E_coef * E)) + (F_coef * F)

def Hz_phij_case115 (r_bar_i phi_bar_M theta_M : α) : α :=
  let t1 := (log (abs r_bar_i)) * (sgn r_bar_i)
  let t1_coef := (-(sin theta_M)) * (sin phi_bar_M)
  t1_coef * t1

def Hphi_zk_case122 (r_i theta_M : α) : α :=
  (-(cos theta_M)) * (log r_i)

def Hz_ri_case122 (phi_bar_M theta_M : α) : α :=
  (sin theta_M) * (sin phi_bar_M)

def Hz_phij_case122 (r_i phi_bar_M theta_M : α) : α :=
  ((-(sin theta_M)) * (sin phi_bar_M)) * (log r_i)

def Hphi_zk_case123 (r theta_M : α) : α :=
  (-(cos theta_M)) * (log r)

def Hz_phij_case123 (r phi_bar_M theta_M : α) : α :=
  ((-(sin theta_M)) * (sin phi_bar_M)) * (log r)

def Hphi_zk_case124 (r theta_M : α) : α :=
  (cos theta_M) * ((n 1) - (log ((n 2) * r)))

def Hz_ri_case124 (phi_bar_M theta_M : α) : α :=
  ((n 2) * (sin theta_M)) * (sin phi_bar_M)

def Hz_phij_case124 (r phi_bar_M theta_M : α) : α :=
  ((-(sin theta_M)) * (sin phi_bar_M)) * (log ((n 2) * r))

def Hr_zk_case125 (r r_i r_bar_i phi_bar_j theta_M : α) : α :=
  let E := ellipeinc (phi_bar_j / (n 2)) ((((-(n 4)) * r) * r_i) / (sq r_bar_i))
  let E_coef := ((cos theta_M) * (abs r_bar_i)) / r
  let F := ellipkinc (phi_bar_j / (n 2)) ((((-(n 4)) * r) * r_i) / (sq r_bar_i))
  let F_coef := ((-(cos theta_M)) * ((sq r) + (sq r_i))) / (r * (abs r_bar_i))
  (E_coef * E) + (F_coef * F)

def Hphi_zk_case125 (r r_i theta_M : α) : α :=
  ((cos theta_M) / r) * (r_i - (r * (log (r + r_i))))

def Hz_ri_case125 (r r_i r_bar_i phi_bar_j phi_bar_M theta_M : α) : α :=
  let E := ellipeinc (phi_bar_j / (n 2)) ((((-(n 4)) * r) * r_i) / (sq r_bar_i))
  let E_coef := (((sin theta_M) * (cos phi_bar_M)) * (abs r_bar_i)) / r
  let F := ellipkinc (phi_bar_j / (n 2)) ((((-(n 4)) * r) * r_i) / (sq r_bar_i))
  let F_coef := (((-(sin theta_M)) * (cos phi_bar_M)) * ((sq r) + (sq r_i))) / (r * (abs r_bar_i))
  (((((sin theta_M) * (sin phi_bar_M)) * (r + r_i)) / r) + (E_coef * E)) + (F_coef * F)

def Hz_phij_case125 (r r_i phi_bar_M theta_M : α) : α :=
  ((-(sin theta_M)) * (sin phi_bar_M)) * (log (r + r_i))

def Hr_zk_case132 (r_i phi_bar_j theta_M : α) : α :=
  ((cos theta_M) * (sin phi_bar_j)) * (log r_i)

def Hphi_zk_case132 (r_i phi_bar_j theta_M : α) : α :=
  ((cos theta_M) * (cos phi_bar_j)) * (log r_i)

def Hz_ri_case132 (phi_bar_Mj theta_M : α) : α :=
  (-(sin theta_M)) * (sin phi_bar_Mj)

def Hz_phij_case132 (r_i phi_bar_Mj theta_M : α) : α :=
  ((sin theta_M) * (sin phi_bar_Mj)) * (log r_i)

def Hr_zk_case133 (r phi_bar_j theta_M : α) : α :=
  ((-(cos theta_M)) * (sin phi_bar_j)) + (((cos theta_M) * (sin phi_bar_j)) * (log (r * ((n 1) - (cos phi_bar_j)))))

def Hphi_zk_case133 (phi_bar_j theta_M : α) : α :=
  (cos theta_M) - (((cos theta_M) * (cos phi_bar_j)) * (atanh (cos phi_bar_j)))

def Hz_phij_case133 (phi_bar_j phi_bar_Mj theta_M : α) : α :=
  ((-(sin theta_M)) * (sin phi_bar_Mj)) * (atanh (cos phi_bar_j))

def Hr_zk_case134 (r phi_bar_j theta_M : α) : α :=
  let t1 := sin phi_bar_j
  let t1_coef := -(cos theta_M)
  let t2 := (sin phi_bar_j) / (sqrt ((n 1) - (cos phi_bar_j)))
  let t2_coef := (-(sqrt (n 2))) * (cos theta_M)
  let t3 := log (r * (((n 1) - (cos phi_bar_j)) + ((sqrt (n 2)) * (sqrt ((n 1) - (cos phi_bar_j))))))
  let t3_coef := (cos theta_M) * (sin phi_bar_j)
  let t4 := atanh ((sin phi_bar_j) / ((sqrt (n 2)) * (sqrt ((n 1) - (cos phi_bar_j)))))
  let t4_coef := cos theta_M
  (((t1_coef * t1) + (t2_coef * t2)) + (t3_coef * t3)) + (t4_coef * t4)

def Hphi_zk_case134 (phi_bar_j theta_M : α) : α :=
  (((sqrt (n 2)) * (cos theta_M)) * (sqrt ((n 1) - (cos phi_bar_j)))) + (((cos theta_M) * (cos phi_bar_j)) * (atanh (sqrt (((n 1) - (cos phi_bar_j)) / (n 2)))))

def Hz_ri_case134 (phi_bar_j phi_bar_M theta_M : α) : α :=
  let t1 := sqrt ((n 1) - (cos phi_bar_j))
  let t1_coef := ((sqrt (n 2)) * (sin theta_M)) * (sin phi_bar_M)
  let t2 := (sin phi_bar_j) / t1
  let t2_coef := ((-(sqrt (n 2))) * (sin theta_M)) * (cos phi_bar_M)
  let t3 := atanh (t2 / (sqrt (n 2)))
  let t3_coef := (sin theta_M) * (cos phi_bar_M)
  ((t1_coef * t1) + (t2_coef * t2)) + (t3_coef * t3)

def Hz_phij_case134 (phi_bar_j phi_bar_Mj theta_M : α) : α :=
  ((sin theta_M) * (sin phi_bar_Mj)) * (atanh (sqrt (((n 1) - (cos phi_bar_j)) / (n 2))))

def Hr_zk_case135 (r r_i r_bar_i phi_bar_j theta_M : α) : α :=
  let t1 := sin phi_bar_j
  let t1_coef := -(cos theta_M)
  let t2 := log ((r_i - (r * (cos phi_bar_j))) + (sqrt (((sq r_i) + (sq r)) - ((((n 2) * r_i) * r) * (cos phi_bar_j)))))
  let t2_coef := (cos theta_M) * (sin phi_bar_j)
  let E := ellipeinc (phi_bar_j / (n 2)) ((((-(n 4)) * r) * r_i) / (sq r_bar_i))
  let E_coef := ((cos theta_M) * (abs r_bar_i)) / r
  let F := ellipkinc (phi_bar_j / (n 2)) ((((-(n 4)) * r) * r_i) / (sq r_bar_i))
  let F_coef := ((-(cos theta_M)) * ((sq r) + (sq r_i))) / (r * (abs r_bar_i))
  (((t1_coef * t1) + (t2_coef * t2)) + (E_coef * E)) + (F_coef * F)

def Hphi_zk_case135 (r r_i phi_bar_j theta_M : α) : α :=
  let t1 := sqrt (((sq r) + (sq r_i)) - ((((n 2) * r) * r_i) * (cos phi_bar_j)))
  let t1_coef := (cos theta_M) / r
  let t2 := atanh (((r * (cos phi_bar_j)) - r_i) / t1)
  let t2_coef := (-(cos theta_M)) * (cos phi_bar_j)
  (t1_coef * t1) + (t2_coef * t2)

def Hz_ri_case135 (r r_i r_bar_i phi_bar_j phi_bar_M theta_M : α) : α :=
  let t := sq r_bar_i
  let t1 := (sqrt (((sq r) + (sq r_i)) - ((((n 2) * r) * r_i) * (cos phi_bar_j)))) / r
  let t1_coef := (sin theta_M) * (sin phi_bar_M)
  let E := ellipeinc (phi_bar_j / (n 2)) ((((-(n 4)) * r) * r_i) / t)
  let E_coef := (((sin theta_M) * (cos phi_bar_M)) * (sqrt t)) / r
  let F := ellipkinc (phi_bar_j / (n 2)) ((((-(n 4)) * r) * r_i) / t)
  let F_coef := (((-(sin theta_M)) * (cos phi_bar_M)) * ((sq r) + (sq r_i))) / (r * (sqrt t))
  ((t1_coef * t1) + (E_coef * E)) + (F_coef * F)

def Hz_phij_case135 (r r_i phi_bar_j phi_bar_Mj theta_M : α) : α :=
  let t1 := atanh (((r * (cos phi_bar_j)) - r_i) / (sqrt (((sq r) + (sq r_i)) - ((((n 2) * r) * r_i) * (cos phi_bar_j)))))
  let t1_coef := (-(sin theta_M)) * (sin phi_bar_Mj)
  t1_coef * t1

def Hr_phij_case211 (phi_bar_M theta_M z_bar_k : α) : α :=
  (((-(sin theta_M)) * (sin phi_bar_M)) * (sgn z_bar_k)) * (log (abs z_bar_k))

def Hz_zk_case211 (phi_j theta_M z_bar_k : α) : α :=
  ((-(cos theta_M)) * (sgn z_bar_k)) * phi_j

def Hr_ri_case212 (r_i phi_j phi_bar_M theta_M z_bar_k : α) : α :=
  let t1 := ((sin theta_M) * z_bar_k) / (sqrt ((sq r_i) + (sq z_bar_k)))
  let t2 := (((n 1) / (n 2)) * phi_j) * (cos phi_bar_M)
  let t3 := ((n 1) / (n 4)) * (sin phi_bar_M)
  t1 * (t2 - t3)

def Hr_phij_case212 (r_i phi_bar_M theta_M z_bar_k : α) : α :=
  let t1 := atanh (z_bar_k / (sqrt ((sq r_i) + (sq z_bar_k))))
  let t1_coef := (-(sin theta_M)) * (sin phi_bar_M)
  t1_coef * t1

def Hphi_ri_case212 (r_i phi_j phi_bar_M theta_M z_bar_k : α) : α :=
  let t1 := ((sin theta_M) * z_bar_k) / (sqrt ((sq r_i) + (sq z_bar_k)))
  let t2 := ((n 1) / (n 4)) * (cos phi_bar_M)
  let t3 := (((n 1) / (n 2)) * phi_j) * (sin phi_bar_M)
  t1 * ((-t2) + t3)

def Hphi_zk_case212 (r_i theta_M z_bar_k : α) : α :=
  let t1 := r_i / (sqrt ((sq r_i) + (sq z_bar_k)))
  let t1_coef := -(cos theta_M)
  let t2 := atanh t1
  let t2_coef := cos theta_M
  (t1_coef * t1) + (t2_coef * t2)

def Hz_ri_case212 (r_i phi_bar_M theta_M z_bar_k : α) : α :=
  let t1 := r_i / (sqrt ((sq r_i) + (sq z_bar_k)))
  let t1_coef := (-(sin theta_M)) * (sin phi_bar_M)
  t1_coef * t1

def Hz_phij_case212 (r_i phi_bar_M theta_M z_bar_k : α) : α :=
  ((sin theta_M) * (sin phi_bar_M)) * (atanh (r_i / (sqrt ((sq r_i) + (sq z_bar_k)))))

def Hz_zk_case212 (r_i phi_j theta_M z_bar_k : α) : α :=
  let t1 := phi_j / (sqrt ((sq r_i) + (sq z_bar_k)))
  let t1_coef := (-(cos theta_M)) * z_bar_k
  t1_coef * t1

def Hr_phij_case213 (r phi_bar_M theta_M z_bar_k : α) : α :=
  let t1 := atanh (z_bar_k / (sqrt ((sq r) + (sq z_bar_k))))
  let t1_coef := (-(sin theta_M)) * (sin phi_bar_M)
  t1_coef * t1

def Hphi_zk_case213 (r theta_M z_bar_k : α) : α :=
  let t1 := sqrt ((sq r) + (sq z_bar_k))
  let t1_coef := (cos theta_M) / r
  let t2 := atanh (r / t1)
  let t2_coef := -(cos theta_M)
  (t1_coef * t1) + (t2_coef * t2)

def Hz_phij_case213 (r phi_bar_M theta_M z_bar_k : α) : α :=
  let t1 := atanh (r / (sqrt ((sq r) + (sq z_bar_k))))
  let t1_coef := (-(sin theta_M)) * (sin phi_bar_M)
  t1_coef * t1

def Hz_zk_case213 (phi_bar_j theta_M z_bar_k : α) : α :=
  let t1 := sgn z_bar_k
  let t1_coef := (cos theta_M) * phi_bar_j
  t1_coef * t1

def Hr_ri_case214 (r phi_bar_j phi_bar_M theta_M z_bar_k : α) : α :=
  let E := ellipeinc (phi_bar_j / (n 2)) (((-(n 4)) * (sq r)) / (sq z_bar_k))
  let E_coef := ((((-(sin theta_M)) * (cos phi_bar_M)) * (sq z_bar_k)) * (sgn z_bar_k)) / ((n 2) * (sq r))
  let F := ellipkinc (phi_bar_j / (n 2)) (((-(n 4)) * (sq r)) / (sq z_bar_k))
  let F_coef := ((((sin theta_M) * (cos phi_bar_M)) * (sgn z_bar_k)) * (((n 2) * (sq r)) + (sq z_bar_k))) / ((n 2) * (sq r))
  ((((((-(sin theta_M)) * (sin phi_bar_M)) * (sgn z_bar_k)) * (sq z_bar_k)) / ((n 2) * (sq r))) + (E_coef * E)) + (F_coef * F)

def Hr_phij_case214 (phi_bar_M theta_M z_bar_k : α) : α :=
  (((-(sin theta_M)) * (sin phi_bar_M)) * (sgn z_bar_k)) * (log (abs z_bar_k))

def Hr_zk_case214 (r phi_bar_j theta_M z_bar_k : α) : α :=
  let E := ellipeinc (phi_bar_j / (n 2)) (((-(n 4)) * (sq r)) / (sq z_bar_k))
  let E_coef := ((cos theta_M) * (abs z_bar_k)) / r
  let F := ellipkinc (phi_bar_j / (n 2)) (((-(n 4)) * (sq r)) / (sq z_bar_k))
  let F_coef := ((-(cos theta_M)) * (((n 2) * (sq r)) + (sq z_bar_k))) / (r * (abs z_bar_k))
  let t := sqrt ((sq r) + (sq z_bar_k))
  let Pi1 : α → α := fun (sign : α) =>
    el3angle (phi_bar_j / (n 2)) (((n 2) * r) / (r + (sign * t))) (((-(n 4)) * (sq r)) / (sq z_bar_k))
  let Pi1_coef : α → α := fun (sign : α) =>
    (((-(cos theta_M)) / (r * (sqrt (((sq r) + (sq z_bar_k)) * (sq z_bar_k))))) * (t - (sign * r))) * (sq (r + (sign * t)))
  let Pi2 : α → α := fun (sign : α) =>
    el3angle (phi_bar_j / (n 2)) ((n 1) - ((p4 z_bar_k) / ((((n 4) * (sq r)) + (sq z_bar_k)) * (sq (r + (sign * t)))))) (((n 4) * (sq r)) / (((n 4) * (sq r)) + (sq z_bar_k)))
  let Pi2_coef : α → α := fun (sign : α) =>
    ((sign * (cos theta_M)) * (p4 z_bar_k)) / ((r * (sqrt (((sq r) + (sq z_bar_k)) * (((n 4) * (sq r)) + (sq z_bar_k))))) * (r + (sign * t)))
  (((((E_coef * E) + (F_coef * F)) + ((Pi1_coef (n 1)) * (Pi1 (n 1)))) + ((Pi1_coef (-(n 1))) * (Pi1 (-(n 1))))) + ((Pi2_coef (n 1)) * (Pi2 (n 1)))) + ((Pi2_coef (-(n 1))) * (Pi2 (-(n 1))))

def Hphi_ri_case214 (r phi_j phi_bar_j phi_bar_M theta_M z_bar_k : α) : α :=
  let t1 := (((-(sin theta_M)) * (cos phi_bar_M)) * (sgn z_bar_k)) / (n 2)
  let t2 := phi_j
  let t2_coef := (((sin theta_M) * (sin phi_bar_M)) * (sgn z_bar_k)) / (n 2)
  let t3 := ((sgn z_bar_k) * (sq z_bar_k)) / ((n 2) * (sq r))
  let t3_coef := (-(sin theta_M)) * (cos phi_bar_M)
  let t4 := log ((abs z_bar_k) / ((sqrt (n 2)) * r))
  let t4_coef := ((-(sin theta_M)) * (cos phi_bar_M)) * (sgn z_bar_k)
  let E := ellipeinc (phi_bar_j / (n 2)) (((-(n 4)) * (sq r)) / (sq z_bar_k))
  let E_coef := ((((sin theta_M) * (sin phi_bar_M)) * (sq z_bar_k)) * (sgn z_bar_k)) / ((n 2) * (sq r))
  let F := ellipkinc (phi_bar_j / (n 2)) (((-(n 4)) * (sq r)) / (sq z_bar_k))
  let F_coef := ((((-(sin theta_M)) * (sin phi_bar_M)) * (sgn z_bar_k)) * (((n 4) * (sq r)) + (sq z_bar_k))) / ((n 2) * (sq r))
  ((((t1 + (t2_coef * t2)) + (t3_coef * t3)) + (t4_coef * t4)) + (E_coef * E)) + (F_coef * F)

def Hphi_zk_case214 (r theta_M z_bar_k : α) : α :=
  let t1 := abs z_bar_k
  let t1_coef := (cos theta_M) / r
  t1_coef * t1

def Hz_ri_case214 (r phi_bar_j phi_bar_M theta_M z_bar_k : α) : α :=
  let E := ellipeinc (phi_bar_j / (n 2)) (((-(n 4)) * (sq r)) / (sq z_bar_k))
  let E_coef := (((sin theta_M) * (cos phi_bar_M)) * (abs z_bar_k)) / r
  let F := ellipkinc (phi_bar_j / (n 2)) (((-(n 4)) * (sq r)) / (sq z_bar_k))
  let F_coef := (((-(sin theta_M)) * (cos phi_bar_M)) * (((n 2) * (sq r)) + (sq z_bar_k))) / (r * (abs z_bar_k))
  (((((sin theta_M) * (sin phi_bar_M)) * (abs z_bar_k)) / r) + (E_coef * E)) + (F_coef * F)

def Hz_zk_case214 (r phi_bar_j theta_M z_bar_k : α) : α :=
  let t := sqrt ((sq r) + (sq z_bar_k))
  let Pi : α → α := fun (sign : α) =>
    el3angle (phi_bar_j / (n 2)) (((n 2) * r) / (r + (sign * t))) (((-(n 4)) * (sq r)) / (sq z_bar_k))
  let Pi_coef := (cos theta_M) * (sgn z_bar_k)
  (Pi_coef * (Pi (n 1))) + (Pi_coef * (Pi (-(n 1))))

def Hr_ri_case215 (r r_i r_bar_i phi_bar_j phi_bar_M theta_M z_bar_k : α) : α :=
  let t2 := atanh (z_bar_k / (sqrt ((sq r_bar_i) + (sq z_bar_k))))
  let t2_coef := (((sin theta_M) * (sin phi_bar_M)) / (n 2)) * ((n 1) - ((sq r_i) / (sq r)))
  let E := ellipeinc (phi_bar_j / (n 2)) ((((-(n 4)) * r) * r_i) / ((sq r_bar_i) + (sq z_bar_k)))
  let E_coef := ((((-(sin theta_M)) * (cos phi_bar_M)) * z_bar_k) * (sqrt ((sq r_bar_i) + (sq z_bar_k)))) / ((n 2) * (sq r))
  let F := ellipkinc (phi_bar_j / (n 2)) ((((-(n 4)) * r) * r_i) / ((sq r_bar_i) + (sq z_bar_k)))
  let F_coef := ((((sin theta_M) * (cos phi_bar_M)) * z_bar_k) * (((n 2) * (sq r_i)) + (sq z_bar_k))) / (((n 2) * (sq r)) * (sqrt ((sq r_bar_i) + (sq z_bar_k))))
  let Pi := el3angle (phi_bar_j / (n 2)) ((((-(n 4)) * r) * r_i) / (sq r_bar_i)) ((((-(n 4)) * r) * r_i) / ((sq r_bar_i) + (sq z_bar_k)))
  let Pi_coef := (((((sin theta_M) * (cos phi_bar_M)) * z_bar_k) * ((sq r) + (sq r_i))) * (r + r_i)) / ((((n 2) * (sq r)) * r_bar_i) * (sqrt ((sq r_bar_i) + (sq z_bar_k))))
  ((((((((-(sin theta_M)) * (sin phi_bar_M)) * z_bar_k) * (sqrt ((sq r_bar_i) + (sq z_bar_k)))) / ((n 2) * (sq r))) + (t2_coef * t2)) + (E_coef * E)) + (F_coef * F)) + (Pi_coef * Pi)

def Hr_phij_case215 (r_bar_i phi_bar_M theta_M z_bar_k : α) : α :=
  let t1 := atanh (z_bar_k / (sqrt ((sq r_bar_i) + (sq z_bar_k))))
  let t1_coef := (-(sin theta_M)) * (sin phi_bar_M)
  t1_coef * t1

def Hr_zk_case215 (r r_i r_bar_i phi_bar_j theta_M z_bar_k : α) : α :=
  let E := ellipeinc (phi_bar_j / (n 2)) ((((-(n 4)) * r) * r_i) / ((sq r_bar_i) + (sq z_bar_k)))
  let E_coef := ((cos theta_M) * (sqrt ((sq r_bar_i) + (sq z_bar_k)))) / r
  let F := ellipkinc (phi_bar_j / (n 2)) ((((-(n 4)) * r) * r_i) / ((sq r_bar_i) + (sq z_bar_k)))
  let F_coef := ((-(cos theta_M)) * (((sq r) + (sq r_i)) + (sq z_bar_k))) / (r * (sqrt ((sq r_bar_i) + (sq z_bar_k))))
  let t := sqrt ((sq r) + (sq z_bar_k))
  let Pi1 : α → α := fun (sign : α) =>
    el3angle (phi_bar_j / (n 2)) (((n 2) * r) / (r + (sign * t))) ((((-(n 4)) * r) * r_i) / ((sq r_bar_i) + (sq z_bar_k)))
  let Pi1_coef : α → α := fun (sign : α) =>
    (((-(cos theta_M)) / (r * (sqrt (((sq r) + (sq z_bar_k)) * ((sq r_bar_i) + (sq z_bar_k)))))) * (t - (sign * r))) * (sq (r_i + (sign * t)))
  let Pi2 : α → α := fun (sign : α) =>
    el3angle (phi_bar_j / (n 2)) ((n 1) - (((sq z_bar_k) * ((sq r_bar_i) + (sq z_bar_k))) / (((sq (r + r_i)) + (sq z_bar_k)) * (sq (r + (sign * t)))))) ((((n 4) * r) * r_i) / ((sq (r + r_i)) + (sq z_bar_k)))
  let Pi2_coef : α → α := fun (sign : α) =>
    (((sign * (cos theta_M)) * (sq z_bar_k)) * ((sq r_bar_i) + (sq z_bar_k))) / ((r * (sqrt (((sq r) + (sq z_bar_k)) * ((sq (r + r_i)) + (sq z_bar_k))))) * (r + (sign * t)))
  (((((E_coef * E) + (F_coef * F)) + ((Pi1_coef (n 1)) * (Pi1 (n 1)))) + ((Pi1_coef (-(n 1))) * (Pi1 (-(n 1))))) + ((Pi2_coef (n 1)) * (Pi2 (n 1)))) + ((Pi2_coef (-(n 1))) * (Pi2 (-(n 1))))

def Hphi_ri_case215 (r r_i r_bar_i phi_bar_j phi_bar_M theta_M z_bar_k : α) : α :=
  let t1 := ((sqrt ((sq r_bar_i) + (sq z_bar_k))) * z_bar_k) / ((n 2) * (sq r))
  let t1_coef := (-(sin theta_M)) * (cos phi_bar_M)
  let t2 := atanh (z_bar_k / (sqrt ((sq r_bar_i) + (sq z_bar_k))))
  let t2_coef := (((-(sin theta_M)) * (cos phi_bar_M)) * ((sq r) + (sq r_i))) / ((n 2) * (sq r))
  let E := ellipeinc (phi_bar_j / (n 2)) ((((-(n 4)) * r) * r_i) / ((sq r_bar_i) + (sq z_bar_k)))
  let E_coef := ((((sin theta_M) * (sin phi_bar_M)) * z_bar_k) * (sqrt ((sq r_bar_i) + (sq z_bar_k)))) / ((n 2) * (sq r))
  let F := ellipkinc (phi_bar_j / (n 2)) ((((-(n 4)) * r) * r_i) / ((sq r_bar_i) + (sq z_bar_k)))
  let F_coef := ((((-(sin theta_M)) * (sin phi_bar_M)) * z_bar_k) * ((((n 2) * (sq r)) + ((n 2) * (sq r_i))) + (sq z_bar_k))) / (((n 2) * (sq r)) * (sqrt ((sq r_bar_i) + (sq z_bar_k))))
  let Pi := el3angle (phi_bar_j / (n 2)) ((((-(n 4)) * r) * r_i) / (sq r_bar_i)) ((((-(n 4)) * r) * r_i) / ((sq r_bar_i) + (sq z_bar_k)))
  let Pi_coef := ((((sin theta_M) * (sin phi_bar_M)) * z_bar_k) * (sq (r + r_i))) / (((n 2) * (sq r)) * (sqrt ((sq r_bar_i) + (sq z_bar_k))))
  ((((t1_coef * t1) + (t2_coef * t2)) + (E_coef * E)) + (F_coef * F)) + (Pi_coef * Pi)

def Hphi_zk_case215 (r r_bar_i theta_M z_bar_k : α) : α :=
  let t1 := sqrt ((sq r_bar_i) + (sq z_bar_k))
  let t1_coef := (cos theta_M) / r
  let t2 := atanh (r_bar_i / t1)
  let t2_coef := -(cos theta_M)
  (t1_coef * t1) + (t2_coef * t2)

def Hz_ri_case215 (r r_i r_bar_i phi_bar_j phi_bar_M theta_M z_bar_k : α) : α :=
  let t := (sq r_bar_i) + (sq z_bar_k)
  let t1 := (sqrt ((sq r_bar_i) + (sq z_bar_k))) / r
  let t1_coef := (sin theta_M) * (sin phi_bar_M)
  let E := ellipeinc (phi_bar_j / (n 2)) ((((-(n 4)) * r) * r_i) / t)
  let E_coef := (((sin theta_M) * (cos phi_bar_M)) * (sqrt t)) / r
  let F := ellipkinc (phi_bar_j / (n 2)) ((((-(n 4)) * r) * r_i) / t)
  let F_coef := (((-(sin theta_M)) * (cos phi_bar_M)) * (((sq r) + (sq r_i)) + (sq z_bar_k))) / (r * (sqrt t))
  ((t1_coef * t1) + (E_coef * E)) + (F_coef * F)

def Hz_phij_case215 (r_bar_i phi_bar_M theta_M z_bar_k : α) : α :=
  let t1 := atanh (r_bar_i / (sqrt ((sq r_bar_i) + (sq z_bar_k))))
  let t1_coef := (-(sin theta_M)) * (sin phi_bar_M)
  t1_coef * t1

def Hz_zk_case215 (r r_i r_bar_i phi_bar_j theta_M z_bar_k : α) : α :=
  let t := sqrt ((sq r) + (sq z_bar_k))
  let Pi : α → α := fun (sign : α) =>
    el3angle (phi_bar_j / (n 2)) (((n 2) * r) / (r + (sign * t))) ((((-(n 4)) * r) * r_i) / ((sq r_bar_i) + (sq z_bar_k)))
  let Pi_coef : α → α := fun (sign : α) =>
    (((cos theta_M) * z_bar_k) * (r_i + (sign * t))) / ((sqrt ((sq r_bar_i) + (sq z_bar_k))) * (r + (sign * t)))
  ((Pi_coef (n 1)) * (Pi (n 1))) + ((Pi_coef (-(n 1))) * (Pi (-(n 1))))

def Hr_phij_case221 (phi_bar_M theta_M z_bar_k : α) : α :=
  (((-(sin theta_M)) * (sin phi_bar_M)) * (sgn z_bar_k)) * (log (abs z_bar_k))

def Hz_zk_case221 (phi_j theta_M z_bar_k : α) : α :=
  ((-(cos theta_M)) * (sgn z_bar_k)) * phi_j

def Hr_ri_case222 (r_i phi_j phi_bar_M theta_M z_bar_k : α) : α :=
  let t1 := ((sin theta_M) * z_bar_k) / (sqrt ((sq r_i) + (sq z_bar_k)))
  let t2 := (((n 1) / (n 2)) * phi_j) * (cos phi_bar_M)
  let t3 := ((n 1) / (n 4)) * (sin phi_bar_M)
  t1 * (t2 - t3)

def Hr_phij_case222 (r_i phi_bar_M theta_M z_bar_k : α) : α :=
  let t1 := atanh (z_bar_k / (sqrt ((sq r_i) + (sq z_bar_k))))
  let t1_coef := (-(sin theta_M)) * (sin phi_bar_M)
  t1_coef * t1

def Hphi_ri_case222 (r_i phi_j phi_bar_M theta_M z_bar_k : α) : α :=
  let t1 := ((sin theta_M) * z_bar_k) / (sqrt ((sq r_i) + (sq z_bar_k)))
  let t2 := ((n 1) / (n 4)) * (cos phi_bar_M)
  let t3 := (((n 1) / (n 2)) * phi_j) * (sin phi_bar_M)
  t1 * ((-t2) + t3)

def Hphi_zk_case222 (r_i theta_M z_bar_k : α) : α :=
  let t1 := r_i / (sqrt ((sq r_i) + (sq z_bar_k)))
  let t1_coef := cos theta_M
  let t2 := atanh t1
  let t2_coef := -(cos theta_M)
  (t1_coef * t1) + (t2_coef * t2)

def Hz_ri_case222 (r_i phi_bar_M theta_M z_bar_k : α) : α :=
  let t1 := r_i / (sqrt ((sq r_i) + (sq z_bar_k)))
  let t1_coef := (sin theta_M) * (sin phi_bar_M)
  t1_coef * t1

def Hz_phij_case222 (r_i phi_bar_M theta_M z_bar_k : α) : α :=
  let t1 := atanh (r_i / (sqrt ((sq r_i) + (sq z_bar_k))))
  let t1_coef := (-(sin theta_M)) * (sin phi_bar_M)
  t1_coef * t1

def Hz_zk_case222 (r_i phi_j theta_M z_bar_k : α) : α :=
  let t1 := z_bar_k / (sqrt ((sq r_i) + (sq z_bar_k)))
  let t1_coef := (-(cos theta_M)) * phi_j
  t1_coef * t1

def Hr_phij_case223 (r phi_bar_M theta_M z_bar_k : α) : α :=
  let t1 := atanh (z_bar_k / (sqrt ((sq r) + (sq z_bar_k))))
  let t1_coef := (-(sin theta_M)) * (sin phi_bar_M)
  t1_coef * t1

def Hphi_zk_case223 (r theta_M z_bar_k : α) : α :=
  let t1 := sqrt ((sq r) + (sq z_bar_k))
  let t1_coef := (cos theta_M) / r
  let t2 := atanh (r / t1)
  let t2_coef := -(cos theta_M)
  (t1_coef * t1) + (t2_coef * t2)

def Hz_phij_case223 (r phi_bar_M theta_M z_bar_k : α) : α :=
  let t1 := atanh (r / (sqrt ((sq r) + (sq z_bar_k))))
  let t1_coef := (-(sin theta_M)) * (sin phi_bar_M)
  t1_coef * t1

def Hz_zk_case223 (r phi_bar_j theta_M z_bar_k : α) : α :=
  let t1 := arctan_k_tan_2 ((sqrt ((sq r) + (sq z_bar_k))) / (abs z_bar_k)) ((n 2) * phi_bar_j)
  let t1_coef := (cos theta_M) * (sgn z_bar_k)
  t1_coef * t1

def Hr_ri_case224 (r phi_bar_j phi_bar_M theta_M z_bar_k : α) : α :=
  let t1 := ((sqrt (((n 4) * (sq r)) + (sq z_bar_k))) * z_bar_k) / ((n 2) * (sq r))
  let t1_coef := (-(sin theta_M)) * (sin phi_bar_M)
  let E := ellipeinc (phi_bar_j / (n 2)) (((-(n 4)) * (sq r)) / (sq z_bar_k))
  let E_coef := ((((-(sin theta_M)) * (cos phi_bar_M)) * (sq z_bar_k)) * (sgn z_bar_k)) / ((n 2) * (sq r))
  let F := ellipkinc (phi_bar_j / (n 2)) (((-(n 4)) * (sq r)) / (sq z_bar_k))
  let F_coef := ((((sin theta_M) * (cos phi_bar_M)) * (sgn z_bar_k)) * (((n 2) * (sq r)) + (sq z_bar_k))) / ((n 2) * (sq r))
  ((t1_coef * t1) + (E_coef * E)) + (F_coef * F)

def Hr_phij_case224 (r phi_bar_M theta_M z_bar_k : α) : α :=
  let t1 := atanh (z_bar_k / (sqrt (((n 4) * (sq r)) + (sq z_bar_k))))
  let t1_coef := (-(sin theta_M)) * (sin phi_bar_M)
  t1_coef * t1

def Hr_zk_case224 (r phi_bar_j theta_M z_bar_k : α) : α :=
  let E := ellipeinc (phi_bar_j / (n 2)) (((-(n 4)) * (sq r)) / (sq z_bar_k))
  let E_coef := ((cos theta_M) * (abs z_bar_k)) / r
  let F := ellipkinc (phi_bar_j / (n 2)) (((-(n 4)) * (sq r)) / (sq z_bar_k))
  let F_coef := ((-(cos theta_M)) * (((n 2) * (sq r)) + (sq z_bar_k))) / (r * (abs z_bar_k))
  let t := sqrt ((sq r) + (sq z_bar_k))
  let Pi1 : α → α := fun (sign : α) =>
    el3angle (phi_bar_j / (n 2)) (((n 2) * r) / (r + (sign * t))) (((-(n 4)) * (sq r)) / (sq z_bar_k))
  let Pi1_coef : α → α := fun (sign : α) =>
    (((-(cos theta_M)) / (r * (sqrt (((sq r) + (sq z_bar_k)) * (sq z_bar_k))))) * (t - (sign * r))) * (sq (r + (sign * t)))
  let Pi2 : α → α := fun (sign : α) =>
    el3angle (phi_bar_j / (n 2)) ((n 1) - ((p4 z_bar_k) / ((((n 4) * (sq r)) + (sq z_bar_k)) * (sq (r + (sign * t)))))) (((n 4) * (sq r)) / (((n 4) * (sq r)) + (sq z_bar_k)))
  let Pi2_coef : α → α := fun (sign : α) =>
    ((sign * (cos theta_M)) * (p4 z_bar_k)) / ((r * (sqrt (((sq r) + (sq z_bar_k)) * (((n 4) * (sq r)) + (sq z_bar_k))))) * (r + (sign * t)))
  (((((E_coef * E) + (F_coef * F)) + ((Pi1_coef (n 1)) * (Pi1 (n 1)))) + ((Pi1_coef (-(n 1))) * (Pi1 (-(n 1))))) + ((Pi2_coef (n 1)) * (Pi2 (n 1)))) + ((Pi2_coef (-(n 1))) * (Pi2 (-(n 1))))

def Hphi_ri_case224 (r phi_bar_j phi_bar_M theta_M z_bar_k : α) : α :=
  let t1 := ((sqrt (((n 4) * (sq r)) + (sq z_bar_k))) * z_bar_k) / ((n 2) * (sq r))
  let t1_coef := (-(sin theta_M)) * (cos phi_bar_M)
  let t2 := atanh (z_bar_k / (sqrt (((n 4) * (sq r)) + (sq z_bar_k))))
  let t2_coef := (-(sin theta_M)) * (cos phi_bar_M)
  let E := ellipeinc (phi_bar_j / (n 2)) (((-(n 4)) * (sq r)) / (sq z_bar_k))
  let E_coef := ((((sin theta_M) * (sin phi_bar_M)) * (sq z_bar_k)) * (sgn z_bar_k)) / ((n 2) * (sq r))
  let F := ellipkinc (phi_bar_j / (n 2)) (((-(n 4)) * (sq r)) / (sq z_bar_k))
  let F_coef := ((((-(sin theta_M)) * (sin phi_bar_M)) * (sgn z_bar_k)) * (((n 4) * (sq r)) + (sq z_bar_k))) / ((n 2) * (sq r))
  (((t1_coef * t1) + (t2_coef * t2)) + (E_coef * E)) + (F_coef * F)

def Hphi_zk_case224 (r theta_M z_bar_k : α) : α :=
  let t1 := sqrt (((n 4) * (sq r)) + (sq z_bar_k))
  let t1_coef := (cos theta_M) / r
  let t2 := atanh (((n 2) * r) / t1)
  let t2_coef := -(cos theta_M)
  (t1_coef * t1) + (t2_coef * t2)

def Hz_ri_case224 (r phi_bar_j phi_bar_M theta_M z_bar_k : α) : α :=
  let t1 := (sqrt (((n 4) * (sq r)) + (sq z_bar_k))) / r
  let t1_coef := (sin theta_M) * (sin phi_bar_M)
  let E := ellipeinc (phi_bar_j / (n 2)) (((-(n 4)) * (sq r)) / (sq z_bar_k))
  let E_coef := (((sin theta_M) * (cos phi_bar_M)) * (abs z_bar_k)) / r
  let F := ellipkinc (phi_bar_j / (n 2)) (((-(n 4)) * (sq r)) / (sq z_bar_k))
  let F_coef := (((-(sin theta_M)) * (cos phi_bar_M)) * (((n 2) * (sq r)) + (sq z_bar_k))) / (r * (abs z_bar_k))
  ((t1_coef * t1) + (E_coef * E)) + (F_coef * F)

def Hz_phij_case224 (r phi_bar_M theta_M z_bar_k : α) : α :=
  let t1 := atanh (((n 2) * r) / (sqrt (((n 4) * (sq r)) + (sq z_bar_k))))
  let t1_coef := (-(sin theta_M)) * (sin phi_bar_M)
  t1_coef * t1

def Hz_zk_case224 (r phi_bar_j theta_M z_bar_k : α) : α :=
  let t := sqrt ((sq r) + (sq z_bar_k))
  let Pi : α → α := fun (sign : α) =>
    el3angle (phi_bar_j / (n 2)) (((n 2) * r) / (r + (sign * t))) (((-(n 4)) * (sq r)) / (sq z_bar_k))
  let Pi_coef := (cos theta_M) * (sgn z_bar_k)
  (Pi_coef * (Pi (n 1))) + (Pi_coef * (Pi (-(n 1))))

def Hr_ri_case225 (r r_i r_bar_i phi_bar_j phi_bar_M theta_M z_bar_k : α) : α :=
  let t1 := ((sqrt ((sq (r + r_i)) + (sq z_bar_k))) * z_bar_k) / ((n 2) * (sq r))
  let t1_coef := (-(sin theta_M)) * (sin phi_bar_M)
  let t2 := atanh (z_bar_k / (sqrt ((sq (r + r_i)) + (sq z_bar_k))))
  let t2_coef := (((sin theta_M) * (sin phi_bar_M)) / (n 2)) * ((n 1) - ((sq r_i) / (sq r)))
  let E := ellipeinc (phi_bar_j / (n 2)) ((((-(n 4)) * r) * r_i) / ((sq r_bar_i) + (sq z_bar_k)))
  let E_coef := ((((-(sin theta_M)) * (cos phi_bar_M)) * z_bar_k) * (sqrt ((sq r_bar_i) + (sq z_bar_k)))) / ((n 2) * (sq r))
  let F := ellipkinc (phi_bar_j / (n 2)) ((((-(n 4)) * r) * r_i) / ((sq r_bar_i) + (sq z_bar_k)))
  let F_coef := ((((sin theta_M) * (cos phi_bar_M)) * z_bar_k) * (((n 2) * (sq r_i)) + (sq z_bar_k))) / (((n 2) * (sq r)) * (sqrt ((sq r_bar_i) + (sq z_bar_k))))
  let Pi := el3angle (phi_bar_j / (n 2)) ((((-(n 4)) * r) * r_i) / (sq r_bar_i)) ((((-(n 4)) * r) * r_i) / ((sq r_bar_i) + (sq z_bar_k)))
  let Pi_coef := (((((sin theta_M) * (cos phi_bar_M)) * z_bar_k) * ((sq r) + (sq r_i))) * (r + r_i)) / ((((n 2) * (sq r)) * r_bar_i) * (sqrt ((sq r_bar_i) + (sq z_bar_k))))
  ((((t1_coef * t1) + (t2_coef * t2)) + (E_coef * E)) + (F_coef * F)) + (Pi_coef * Pi)

def Hr_phij_case225 (r r_i phi_bar_M theta_M z_bar_k : α) : α :=
  let t1 := atanh (z_bar_k / (sqrt ((sq (r + r_i)) + (sq z_bar_k))))
  let t1_coef := (-(sin theta_M)) * (sin phi_bar_M)
  t1_coef * t1

def Hr_zk_case225 (r r_i r_bar_i phi_bar_j theta_M z_bar_k : α) : α :=
  let E := ellipeinc (phi_bar_j / (n 2)) ((((-(n 4)) * r) * r_i) / ((sq r_bar_i) + (sq z_bar_k)))
  let E_coef := ((cos theta_M) * (sqrt ((sq r_bar_i) + (sq z_bar_k)))) / r
  let F := ellipkinc (phi_bar_j / (n 2)) ((((-(n 4)) * r) * r_i) / ((sq r_bar_i) + (sq z_bar_k)))
  let F_coef := ((-(cos theta_M)) * (((sq r) + (sq r_i)) + (sq z_bar_k))) / (r * (sqrt ((sq r_bar_i) + (sq z_bar_k))))
  let t := sqrt ((sq r) + (sq z_bar_k))
  let Pi1 : α → α := fun (sign : α) =>
    el3angle (phi_bar_j / (n 2)) (((n 2) * r) / (r + (sign * t))) ((((-(n 4)) * r) * r_i) / ((sq r_bar_i) + (sq z_bar_k)))
  let Pi1_coef : α → α := fun (sign : α) =>
    (((-(cos theta_M)) / (r * (sqrt (((sq r) + (sq z_bar_k)) * ((sq r_bar_i) + (sq z_bar_k)))))) * (t - (sign * r))) * (sq (r_i + (sign * t)))
  let Pi2 : α → α := fun (sign : α) =>
    el3angle (phi_bar_j / (n 2)) ((n 1) - (((sq z_bar_k) * ((sq r_bar_i) + (sq z_bar_k))) / (((sq (r + r_i)) + (sq z_bar_k)) * (sq (r + (sign * t)))))) ((((n 4) * r) * r_i) / ((sq (r + r_i)) + (sq z_bar_k)))
  let Pi2_coef : α → α := fun (sign : α) =>
    (((sign * (cos theta_M)) * (sq z_bar_k)) * ((sq r_bar_i) + (sq z_bar_k))) / ((r * (sqrt (((sq r) + (sq z_bar_k)) * ((sq (r + r_i)) + (sq z_bar_k))))) * (r + (sign * t)))
  (((((E_coef * E) + (F_coef * F)) + ((Pi1_coef (n 1)) * (Pi1 (n 1)))) + ((Pi1_coef (-(n 1))) * (Pi1 (-(n 1))))) + ((Pi2_coef (n 1)) * (Pi2 (n 1)))) + ((Pi2_coef (-(n 1))) * (Pi2 (-(n 1))))

def Hphi_ri_case225 (r r_i r_bar_i phi_bar_j phi_bar_M theta_M z_bar_k : α) : α :=
  let t1 := ((sqrt ((sq (r + r_i)) + (sq z_bar_k))) * z_bar_k) / ((n 2) * (sq r))
  let t1_coef := (-(sin theta_M)) * (cos phi_bar_M)
  let t2 := atanh (z_bar_k / (sqrt ((sq (r + r_i)) + (sq z_bar_k))))
  let t2_coef := (((-(sin theta_M)) * (cos phi_bar_M)) * ((sq r) + (sq r_i))) / ((n 2) * (sq r))
  let E := ellipeinc (phi_bar_j / (n 2)) ((((-(n 4)) * r) * r_i) / ((sq r_bar_i) + (sq z_bar_k)))
  let E_coef := ((((sin theta_M) * (sin phi_bar_M)) * z_bar_k) * (sqrt ((sq r_bar_i) + (sq z_bar_k)))) / ((n 2) * (sq r))
  let F := ellipkinc (phi_bar_j / (n 2)) ((((-(n 4)) * r) * r_i) / ((sq r_bar_i) + (sq z_bar_k)))
  let F_coef := ((((-(sin theta_M)) * (sin phi_bar_M)) * z_bar_k) * ((((n 2) * (sq r)) + ((n 2) * (sq r_i))) + (sq z_bar_k))) / (((n 2) * (sq r)) * (sqrt ((sq r_bar_i) + (sq z_bar_k))))
  let Pi := el3angle (phi_bar_j / (n 2)) ((((-(n 4)) * r) * r_i) / (sq r_bar_i)) ((((-(n 4)) * r) * r_i) / ((sq r_bar_i) + (sq z_bar_k)))
  let Pi_coef := ((((sin theta_M) * (sin phi_bar_M)) * z_bar_k) * (sq (r + r_i))) / (((n 2) * (sq r)) * (sqrt ((sq r_bar_i) + (sq z_bar_k))))
  ((((t1_coef * t1) + (t2_coef * t2)) + (E_coef * E)) + (F_coef * F)) + (Pi_coef * Pi)

def Hphi_zk_case225 (r r_i theta_M z_bar_k : α) : α :=
  let t1 := sqrt ((sq (r + r_i)) + (sq z_bar_k))
  let t1_coef := (cos theta_M) / r
  let t2 := atanh ((r + r_i) / t1)
  let t2_coef := -(cos theta_M)
  (t1_coef * t1) + (t2_coef * t2)

def Hz_ri_case225 (r r_i r_bar_i phi_bar_j phi_bar_M theta_M z_bar_k : α) : α :=
  let t := (sq r_bar_i) + (sq z_bar_k)
  let t1 := (sqrt ((sq (r + r_i)) + (sq z_bar_k))) / r
  let t1_coef := (sin theta_M) * (sin phi_bar_M)
  let E := ellipeinc (phi_bar_j / (n 2)) ((((-(n 4)) * r) * r_i) / t)
  let E_coef := (((sin theta_M) * (cos phi_bar_M)) * (sqrt t)) / r
  let F := ellipkinc (phi_bar_j / (n 2)) ((((-(n 4)) * r) * r_i) / t)
  let F_coef := (((-(sin theta_M)) * (cos phi_bar_M)) * (((sq r) + (sq r_i)) + (sq z_bar_k))) / (r * (sqrt t))
  ((t1_coef * t1) + (E_coef * E)) + (F_coef * F)

def Hz_phij_case225 (r r_i phi_bar_M theta_M z_bar_k : α) : α :=
  let t1 := atanh ((r + r_i) / (sqrt ((sq (r + r_i)) + (sq z_bar_k))))
  let t1_coef := (-(sin theta_M)) * (sin phi_bar_M)
  t1_coef * t1

def Hz_zk_case225 (r r_i r_bar_i phi_bar_j theta_M z_bar_k : α) : α :=
  let t := sqrt ((sq r) + (sq z_bar_k))
  let Pi : α → α := fun (sign : α) =>
    el3angle (phi_bar_j / (n 2)) (((n 2) * r) / (r + (sign * t))) ((((-(n 4)) * r) * r_i) / ((sq r_bar_i) + (sq z_bar_k)))
  let Pi_coef : α → α := fun (sign : α) =>
    (((cos theta_M) * z_bar_k) * (r_i + (sign * t))) / ((sqrt ((sq r_bar_i) + (sq z_bar_k))) * (r + (sign * t)))
  ((Pi_coef (n 1)) * (Pi (n 1))) + ((Pi_coef (-(n 1))) * (Pi (-(n 1))))

def Hr_phij_case231 (phi_bar_j phi_bar_Mj theta_M z_bar_k : α) : α :=
  ((((-(sin theta_M)) * (sin phi_bar_Mj)) * (cos phi_bar_j)) * (sgn z_bar_k)) * (log (abs z_bar_k))

def Hphi_phij_case231 (phi_bar_j phi_bar_Mj theta_M z_bar_k : α) : α :=
  let t1 := log (abs z_bar_k)
  let t1_coef := (((sin theta_M) * (sin phi_bar_Mj)) * (sin phi_bar_j)) * (sgn z_bar_k)
  t1_coef * t1

def Hz_zk_case231 (phi_j theta_M z_bar_k : α) : α :=
  let t1 := phi_j * (sgn z_bar_k)
  let t1_coef := -(cos theta_M)
  t1_coef * t1

def Hr_ri_case232 (r_i phi_j phi_bar_j phi_bar_M phi_bar_Mj theta_M z_bar_k : α) : α :=
  let t1 := ((sin theta_M) * z_bar_k) / (sqrt ((sq r_i) + (sq z_bar_k)))
  let t2 := (((n 1) / (n 2)) * phi_j) * (cos phi_bar_M)
  let t3 := ((n 1) / (n 4)) * (sin (phi_bar_Mj + phi_bar_j))
  t1 * (t2 - t3)

def Hr_phij_case232 (r_i phi_bar_j phi_bar_Mj theta_M z_bar_k : α) : α :=
  let t1 := atanh (z_bar_k / (sqrt ((sq r_i) + (sq z_bar_k))))
  let t1_coef := ((-(sin theta_M)) * (sin phi_bar_Mj)) * (cos phi_bar_j)
  t1_coef * t1

def Hr_zk_case232 (r_i phi_bar_j theta_M z_bar_k : α) : α :=
  let t1 := r_i / (sqrt ((sq r_i) + (sq z_bar_k)))
  let t1_coef := (-(cos theta_M)) * (sin phi_bar_j)
  let t2 := atanh t1
  let t2_coef := (cos theta_M) * (sin phi_bar_j)
  (t1_coef * t1) + (t2_coef * t2)

def Hphi_ri_case232 (r_i phi_j phi_bar_j phi_bar_M phi_bar_Mj theta_M z_bar_k : α) : α :=
  let t1 := ((sin theta_M) * z_bar_k) / (sqrt ((sq r_i) + (sq z_bar_k)))
  let t2 := ((n 1) / (n 4)) * (cos (phi_bar_Mj + phi_bar_j))
  let t3 := (((n 1) / (n 2)) * phi_j) * (sin phi_bar_M)
  t1 * ((-t2) + t3)

def Hphi_phij_case232 (r_i phi_bar_j phi_bar_Mj theta_M z_bar_k : α) : α :=
  let t1 := atanh (z_bar_k / (sqrt ((sq r_i) + (sq z_bar_k))))
  let t1_coef := ((sin theta_M) * (sin phi_bar_Mj)) * (sin phi_bar_j)
  t1_coef * t1

def Hphi_zk_case232 (r_i phi_bar_j theta_M z_bar_k : α) : α :=
  let t1 := r_i / (sqrt ((sq r_i) + (sq z_bar_k)))
  let t1_coef := (-(cos theta_M)) * (cos phi_bar_j)
  let t2 := atanh t1
  let t2_coef := (cos theta_M) * (cos phi_bar_j)
  (t1_coef * t1) + (t2_coef * t2)

def Hz_ri_case232 (r_i phi_bar_Mj theta_M z_bar_k : α) : α :=
  let t1 := r_i / (sqrt ((sq r_i) + (sq z_bar_k)))
  let t1_coef := (-(sin theta_M)) * (sin phi_bar_Mj)
  t1_coef * t1

def Hz_phij_case232 (r_i phi_bar_Mj theta_M z_bar_k : α) : α :=
  let t1 := atanh (r_i / (sqrt ((sq r_i) + (sq z_bar_k))))
  let t1_coef := (sin theta_M) * (sin phi_bar_Mj)
  t1_coef * t1

def Hz_zk_case232 (r_i phi_j theta_M z_bar_k : α) : α :=
  let t1 := z_bar_k / (sqrt ((sq r_i) + (sq z_bar_k)))
  let t1_coef := (-(cos theta_M)) * phi_j
  t1_coef * t1

def Hr_phij_case233 (r phi_bar_j phi_bar_Mj theta_M z_bar_k : α) : α :=
  let t1 := atanh (z_bar_k / (sqrt ((sq r) + (sq z_bar_k))))
  let t1_coef := ((-(sin theta_M)) * (sin phi_bar_Mj)) * (cos phi_bar_j)
  let t2 := atan (((z_bar_k * (cos phi_bar_j)) / (sin phi_bar_j)) / (sqrt ((sq r) + (sq z_bar_k))))
  let t2_coef := ((sin theta_M) * (sin phi_bar_Mj)) * (sin phi_bar_j)
  (t1_coef * t1) + (t2_coef * t2)

def Hr_zk_case233 (r phi_bar_j theta_M z_bar_k : α) : α :=
  let t := sqrt ((sq r) + (sq z_bar_k))
  let t1 := sin phi_bar_j
  let t1_coef := -(cos theta_M)
  let t2 := log (((-r) * (cos phi_bar_j)) + t)
  let t2_coef := (cos theta_M) * (sin phi_bar_j)
  let t3 := atan ((r * (sin phi_bar_j)) / z_bar_k)
  let t3_coef := ((cos theta_M) * z_bar_k) / r
  let t4 := arctan_k_tan_2 (t / (abs z_bar_k)) ((n 2) * phi_bar_j)
  let t4_coef := -t3_coef
  let t5 : α → α := fun (sign : α) =>
    arctan_k_tan_2 ((abs z_bar_k) / (abs (r + (sign * t)))) phi_bar_j
  let t5_coef := t3_coef
  (((((t1_coef * t1) + (t2_coef * t2)) + (t3_coef * t3)) + (t4_coef * t4)) + (t5_coef * (t5 (n 1)))) + (t5_coef * (t5 (-(n 1))))

def Hphi_phij_case233 (r phi_bar_j phi_bar_Mj theta_M z_bar_k : α) : α :=
  let t := sqrt ((sq r) + (sq z_bar_k))
  let t1 := atan ((z_bar_k * (cos phi_bar_j)) / ((sin phi_bar_j) * t))
  let t1_coef := ((sin theta_M) * (sin phi_bar_Mj)) * (cos phi_bar_j)
  let t2 := atanh (z_bar_k / t)
  let t2_coef := ((sin theta_M) * (sin phi_bar_Mj)) * (sin phi_bar_j)
  (t1_coef * t1) + (t2_coef * t2)

def Hphi_zk_case233 (r phi_bar_j theta_M z_bar_k : α) : α :=
  let t1 := sqrt ((sq r) + (sq z_bar_k))
  let t1_coef := (cos theta_M) / r
  let t2 := atanh ((r * (cos phi_bar_j)) / t1)
  let t2_coef := (-(cos theta_M)) * (cos phi_bar_j)
  (t1_coef * t1) + (t2_coef * t2)

def Hz_phij_case233 (r phi_bar_j phi_bar_Mj theta_M z_bar_k : α) : α :=
  let t1 := atanh ((r * (cos phi_bar_j)) / (sqrt ((sq r) + (sq z_bar_k))))
  let t1_coef := (-(sin theta_M)) * (sin phi_bar_Mj)
  t1_coef * t1

def Hz_zk_case233 (r phi_bar_j theta_M z_bar_k : α) : α :=
  let t1 := arctan_k_tan_2 ((sqrt ((sq r) + (sq z_bar_k))) / (abs z_bar_k)) ((n 2) * phi_bar_j)
  let t1_coef := (cos theta_M) * (sgn z_bar_k)
  t1_coef * t1

def Hr_ri_case234 (r phi_bar_j phi_bar_M theta_M z_bar_k : α) : α :=
  let t1 := sqrt ((((n 2) * (sq r)) * ((n 1) - (cos phi_bar_j))) + (sq z_bar_k))
  let t1_coef := (((-(sin theta_M)) * (sin phi_bar_M)) * z_bar_k) / ((n 2) * (sq r))
  let E := ellipeinc (phi_bar_j / (n 2)) (((-(n 4)) * (sq r)) / (sq z_bar_k))
  let E_coef := ((((-(sin theta_M)) * (cos phi_bar_M)) * (sq z_bar_k)) * (sgn z_bar_k)) / ((n 2) * (sq r))
  let F := ellipkinc (phi_bar_j / (n 2)) (((-(n 4)) * (sq r)) / (sq z_bar_k))
  let F_coef := ((((sin theta_M) * (cos phi_bar_M)) * (sgn z_bar_k)) * (((n 2) * (sq r)) + (sq z_bar_k))) / ((n 2) * (sq r))
  ((t1_coef * t1) + (E_coef * E)) + (F_coef * F)

def Hr_phij_case234 (r phi_bar_j phi_bar_Mj theta_M z_bar_k : α) : α :=
  let t1 := atanh (z_bar_k / (sqrt ((((n 2) * (sq r)) * ((n 1) - (cos phi_bar_j))) + (sq z_bar_k))))
  let t1_coef := ((-(sin theta_M)) * (sin phi_bar_Mj)) * (cos phi_bar_j)
  let t2 := atan ((z_bar_k * ((n 1) - (cos phi_bar_j))) / ((sin phi_bar_j) * (sqrt ((((n 2) * (sq r)) * ((n 1) - (cos phi_bar_j))) + (sq z_bar_k)))))
  let t2_coef := ((-(sin theta_M)) * (sin phi_bar_Mj)) * (sin phi_bar_j)
  (t1_coef * t1) + (t2_coef * t2)

def Hr_zk_case234 (r phi_bar_j theta_M z_bar_k : α) : α :=
  let t1 := sin phi_bar_j
  let t1_coef := -(cos theta_M)
  let t2 := log ((r * ((n 1) - (cos phi_bar_j))) + (sqrt ((((n 2) * (sq r)) * ((n 1) - (cos phi_bar_j))) + (sq z_bar_k))))
  let t2_coef := (cos theta_M) * (sin phi_bar_j)
  let t3 := atan ((r * (sin phi_bar_j)) / z_bar_k)
  let t3_coef := ((cos theta_M) * z_bar_k) / r
  let E := ellipeinc (phi_bar_j / (n 2)) (((-(n 4)) * (sq r)) / (sq z_bar_k))
  let E_coef := ((cos theta_M) * (abs z_bar_k)) / r
  let F := ellipkinc (phi_bar_j / (n 2)) (((-(n 4)) * (sq r)) / (sq z_bar_k))
  let F_coef := ((-(cos theta_M)) * (((n 2) * (sq r)) + (sq z_bar_k))) / (r * (abs z_bar_k))
  let t := sqrt ((sq r) + (sq z_bar_k))
  let Pi1 : α → α := fun (sign : α) =>
    el3angle (phi_bar_j / (n 2)) (((n 2) * r) / (r + (sign * t))) (((-(n 4)) * (sq r)) / (sq z_bar_k))
  let Pi1_coef : α → α := fun (sign : α) =>
    (((-(cos theta_M)) / (r * (sqrt (((sq r) + (sq z_bar_k)) * (sq z_bar_k))))) * (t - (sign * r))) * (sq (r + (sign * t)))
  let Pi2 : α → α := fun (sign : α) =>
    el3angle (arctan_k_tan_2 (sqrt ((((n 4) * (sq r)) + (sq z_bar_k)) / (sq z_bar_k))) phi_bar_j) ((n 1) - ((p4 z_bar_k) / ((((n 4) * (sq r)) + (sq z_bar_k)) * (sq (r + (sign * t)))))) (((n 4) * (sq r)) / (((n 4) * (sq r)) + (sq z_bar_k)))
  let Pi2_coef : α → α := fun (sign : α) =>
    ((sign * (cos theta_M)) * (p4 z_bar_k)) / ((r * (sqrt (((sq r) + (sq z_bar_k)) * (((n 4) * (sq r)) + (sq z_bar_k))))) * (r + (sign * t)))
  ((((((((t1_coef * t1) + (t2_coef * t2)) + (t3_coef * t3)) + (E_coef * E)) + (F_coef * F)) + ((Pi1_coef (n 1)) * (Pi1 (n 1)))) + ((Pi1_coef (-(n 1))) * (Pi1 (-(n 1))))) + ((Pi2_coef (n 1)) * (Pi2 (n 1)))) + ((Pi2_coef (-(n 1))) * (Pi2 (-(n 1))))

def Hphi_ri_case234 (r phi_bar_j phi_bar_M theta_M z_bar_k : α) : α :=
  let t1 := sqrt ((((n 2) * (sq r)) * ((n 1) - (cos phi_bar_j))) + (sq z_bar_k))
  let t1_coef := (((-(sin theta_M)) * (cos phi_bar_M)) * z_bar_k) / ((n 2) * (sq r))
  let t2 := atanh (z_bar_k / (sqrt ((((n 2) * (sq r)) * ((n 1) - (cos phi_bar_j))) + (sq z_bar_k))))
  let t2_coef := (-(sin theta_M)) * (cos phi_bar_M)
  let E := ellipeinc (phi_bar_j / (n 2)) (((-(n 4)) * (sq r)) / (sq z_bar_k))
  let E_coef := ((((sin theta_M) * (sin phi_bar_M)) * (sq z_bar_k)) * (sgn z_bar_k)) / ((n 2) * (sq r))
  let F := ellipkinc (phi_bar_j / (n 2)) (((-(n 4)) * (sq r)) / (sq z_bar_k))
  let F_coef := ((((-(sin theta_M)) * (sin phi_bar_M)) * (sgn z_bar_k)) * (((n 4) * (sq r)) + (sq z_bar_k))) / ((n 2) * (sq r))
  (((t1_coef * t1) + (t2_coef * t2)) + (E_coef * E)) + (F_coef * F)

def Hphi_phij_case234 (r phi_bar_j phi_bar_Mj theta_M z_bar_k : α) : α :=
  let t := sqrt ((((n 2) * (sq r)) * ((n 1) - (cos phi_bar_j))) + (sq z_bar_k))
  let t1 := atan ((z_bar_k * ((n 1) - (cos phi_bar_j))) / ((sin phi_bar_j) * t))
  let t1_coef := ((-(sin theta_M)) * (sin phi_bar_Mj)) * (cos phi_bar_j)
  let t2 := atanh (z_bar_k / t)
  let t2_coef := ((sin theta_M) * (sin phi_bar_Mj)) * (sin phi_bar_j)
  (t1_coef * t1) + (t2_coef * t2)

def Hphi_zk_case234 (r phi_bar_j theta_M z_bar_k : α) : α :=
  let t1 := sqrt ((((n 2) * (sq r)) * ((n 1) - (cos phi_bar_j))) + (sq z_bar_k))
  let t1_coef := (cos theta_M) / r
  let t2 := atanh ((r * ((n 1) - (cos phi_bar_j))) / t1)
  let t2_coef := (cos theta_M) * (cos phi_bar_j)
  (t1_coef * t1) + (t2_coef * t2)

def Hz_ri_case234 (r phi_bar_j phi_bar_M theta_M z_bar_k : α) : α :=
  let t1 := sqrt ((((n 2) * (sq r)) * ((n 1) - (cos phi_bar_j))) + (sq z_bar_k))
  let t1_coef := ((sin theta_M) * (sin phi_bar_M)) / r
  let E := ellipeinc (phi_bar_j / (n 2)) (((-(n 4)) * (sq r)) / (sq z_bar_k))
  let E_coef := (((sin theta_M) * (cos phi_bar_M)) * (abs z_bar_k)) / r
  let F := ellipkinc (phi_bar_j / (n 2)) (((-(n 4)) * (sq r)) / (sq z_bar_k))
  let F_coef := (((-(sin theta_M)) * (cos phi_bar_M)) * (((n 2) * (sq r)) + (sq z_bar_k))) / (r * (abs z_bar_k))
  ((t1_coef * t1) + (E_coef * E)) + (F_coef * F)

def Hz_phij_case234 (r phi_bar_j phi_bar_Mj theta_M z_bar_k : α) : α :=
  let t1 := atanh ((r * ((n 1) - (cos phi_bar_j))) / (sqrt ((((n 2) * (sq r)) * ((n 1) - (cos phi_bar_j))) + (sq z_bar_k))))
  let t1_coef := (sin theta_M) * (sin phi_bar_Mj)
  t1_coef * t1

def Hz_zk_case234 (r phi_bar_j theta_M z_bar_k : α) : α :=
  let t := sqrt ((sq r) + (sq z_bar_k))
  let Pi : α → α := fun (sign : α) =>
    el3angle (phi_bar_j / (n 2)) (((n 2) * r) / (r + (sign * t))) (((-(n 4)) * (sq r)) / (sq z_bar_k))
  let Pi_coef := (cos theta_M) * (sgn z_bar_k)
  (Pi_coef * (Pi (n 1))) + (Pi_coef * (Pi (-(n 1))))

def Hr_ri_case235 (r r_i r_bar_i phi_bar_j phi_bar_M theta_M z_bar_k : α) : α :=
  let t1 := sqrt ((((sq r) + (sq r_i)) - ((((n 2) * r) * r_i) * (cos phi_bar_j))) + (sq z_bar_k))
  let t1_coef := (((-(sin theta_M)) * (sin phi_bar_M)) * z_bar_k) / ((n 2) * (sq r))
  let t2 := atanh (z_bar_k / (sqrt ((((sq r) + (sq r_i)) - ((((n 2) * r) * r_i) * (cos phi_bar_j))) + (sq z_bar_k))))
  let t2_coef := (((sin theta_M) * (sin phi_bar_M)) / (n 2)) * ((n 1) - ((sq r_i) / (sq r)))
  let E := ellipeinc (phi_bar_j / (n 2)) ((((-(n 4)) * r) * r_i) / ((sq r_bar_i) + (sq z_bar_k)))
  let E_coef := ((((-(sin theta_M)) * (cos phi_bar_M)) * z_bar_k) * (sqrt ((sq r_bar_i) + (sq z_bar_k)))) / ((n 2) * (sq r))
  let F := ellipkinc (phi_bar_j / (n 2)) ((((-(n 4)) * r) * r_i) / ((sq r_bar_i) + (sq z_bar_k)))
  let F_coef := ((((sin theta_M) * (cos phi_bar_M)) * z_bar_k) * (((n 2) * (sq r_i)) + (sq z_bar_k))) / (((n 2) * (sq r)) * (sqrt ((sq r_bar_i) + (sq z_bar_k))))
  let Pi := el3angle (phi_bar_j / (n 2)) ((((-(n 4)) * r) * r_i) / (sq r_bar_i)) ((((-(n 4)) * r) * r_i) / ((sq r_bar_i) + (sq z_bar_k)))
  let Pi_coef := (((((sin theta_M) * (cos phi_bar_M)) * z_bar_k) * ((sq r) + (sq r_i))) * (r + r_i)) / ((((n 2) * (sq r)) * r_bar_i) * (sqrt ((sq r_bar_i) + (sq z_bar_k))))
  ((((t1_coef * t1) + (t2_coef * t2)) + (E_coef * E)) + (F_coef * F)) + (Pi_coef * Pi)

def Hr_phij_case235 (r r_i phi_bar_j phi_bar_Mj theta_M z_bar_k : α) : α :=
  let t1 := atanh (z_bar_k / (sqrt ((((sq r) + (sq r_i)) - ((((n 2) * r) * r_i) * (cos phi_bar_j))) + (sq z_bar_k))))
  let t1_coef := ((-(sin theta_M)) * (sin phi_bar_Mj)) * (cos phi_bar_j)
  let t2 := atan ((z_bar_k * ((r * (cos phi_bar_j)) - r_i)) / ((r * (sin phi_bar_j)) * (sqrt ((((sq r) + (sq r_i)) - ((((n 2) * r) * r_i) * (cos phi_bar_j))) + (sq z_bar_k)))))
  let t2_coef := ((sin theta_M) * (sin phi_bar_Mj)) * (sin phi_bar_j)
  (t1_coef * t1) + (t2_coef * t2)

def Hr_zk_case235 (r r_i r_bar_i phi_bar_j theta_M z_bar_k : α) : α :=
  let t1 := sin phi_bar_j
  let t1_coef := -(cos theta_M)
  let t2 := log ((r_i - (r * (cos phi_bar_j))) + (sqrt ((((sq r_i) + (sq r)) - ((((n 2) * r_i) * r) * (cos phi_bar_j))) + (sq z_bar_k))))
  let t2_coef := (cos theta_M) * (sin phi_bar_j)
  let t3 := atan ((r * (sin phi_bar_j)) / z_bar_k)
  let t3_coef := ((cos theta_M) * z_bar_k) / r
  let E := ellipeinc (phi_bar_j / (n 2)) ((((-(n 4)) * r) * r_i) / ((sq r_bar_i) + (sq z_bar_k)))
  let E_coef := ((cos theta_M) * (sqrt ((sq r_bar_i) + (sq z_bar_k)))) / r
  let F := ellipkinc (phi_bar_j / (n 2)) ((((-(n 4)) * r) * r_i) / ((sq r_bar_i) + (sq z_bar_k)))
  let F_coef := ((-(cos theta_M)) * (((sq r) + (sq r_i)) + (sq z_bar_k))) / (r * (sqrt ((sq r_bar_i) + (sq z_bar_k))))
  let t := sqrt ((sq r) + (sq z_bar_k))
  let Pi1 : α → α := fun (sign : α) =>
    el3angle (phi_bar_j / (n 2)) (((n 2) * r) / (r + (sign * t))) ((((-(n 4)) * r) * r_i) / ((sq r_bar_i) + (sq z_bar_k)))
  let Pi1_coef : α → α := fun (sign : α) =>
    (((-(cos theta_M)) / (r * (sqrt (((sq r) + (sq z_bar_k)) * ((sq r_bar_i) + (sq z_bar_k)))))) * (t - (sign * r))) * (sq (r_i + (sign * t)))
  let Pi2 : α → α := fun (sign : α) =>
    el3angle (arctan_k_tan_2 (sqrt (((sq (r_i + r)) + (sq z_bar_k)) / ((sq r_bar_i) + (sq z_bar_k)))) phi_bar_j) ((n 1) - (((sq z_bar_k) * ((sq r_bar_i) + (sq z_bar_k))) / (((sq (r + r_i)) + (sq z_bar_k)) * (sq (r + (sign * t)))))) ((((n 4) * r) * r_i) / ((sq (r + r_i)) + (sq z_bar_k)))
  let Pi2_coef : α → α := fun (sign : α) =>
    (((sign * (cos theta_M)) * (sq z_bar_k)) * ((sq r_bar_i) + (sq z_bar_k))) / ((r * (sqrt (((sq r) + (sq z_bar_k)) * ((sq (r + r_i)) + (sq z_bar_k))))) * (r + (sign * t)))
  ((((((((t1_coef * t1) + (t2_coef * t2)) + (t3_coef * t3)) + (E_coef * E)) + (F_coef * F)) + ((Pi1_coef (n 1)) * (Pi1 (n 1)))) + ((Pi1_coef (-(n 1))) * (Pi1 (-(n 1))))) + ((Pi2_coef (n 1)) * (Pi2 (n 1)))) + ((Pi2_coef (-(n 1))) * (Pi2 (-(n 1))))

def Hphi_ri_case235 (r r_i r_bar_i phi_bar_j phi_bar_M theta_M z_bar_k : α) : α :=
  let t1 := sqrt ((((sq r) + (sq r_i)) - ((((n 2) * r) * r_i) * (cos phi_bar_j))) + (sq z_bar_k))
  let t1_coef := (((-(sin theta_M)) * (cos phi_bar_M)) * z_bar_k) / ((n 2) * (sq r))
  let t2 := atanh (z_bar_k / (sqrt ((((sq r) + (sq r_i)) - ((((n 2) * r) * r_i) * (cos phi_bar_j))) + (sq z_bar_k))))
  let t2_coef := (((-(sin theta_M)) * (cos phi_bar_M)) * ((sq r) + (sq r_i))) / ((n 2) * (sq r))
  let E := ellipeinc (phi_bar_j / (n 2)) ((((-(n 4)) * r) * r_i) / ((sq r_bar_i) + (sq z_bar_k)))
  let E_coef := ((((sin theta_M) * (sin phi_bar_M)) * z_bar_k) * (sqrt ((sq r_bar_i) + (sq z_bar_k)))) / ((n 2) * (sq r))
  let F := ellipkinc (phi_bar_j / (n 2)) ((((-(n 4)) * r) * r_i) / ((sq r_bar_i) + (sq z_bar_k)))
  let F_coef := ((((-(sin theta_M)) * (sin phi_bar_M)) * z_bar_k) * ((((n 2) * (sq r)) + ((n 2) * (sq r_i))) + (sq z_bar_k))) / (((n 2) * (sq r)) * (sqrt ((sq r_bar_i) + (sq z_bar_k))))
  let Pi := el3angle (phi_bar_j / (n 2)) ((((-(n 4)) * r) * r_i) / (sq r_bar_i)) ((((-(n 4)) * r) * r_i) / ((sq r_bar_i) + (sq z_bar_k)))
  let Pi_coef := ((((sin theta_M) * (sin phi_bar_M)) * z_bar_k) * (sq (r + r_i))) / (((n 2) * (sq r)) * (sqrt ((sq r_bar_i) + (sq z_bar_k))))
  ((((t1_coef * t1) + (t2_coef * t2)) + (E_coef * E)) + (F_coef * F)) + (Pi_coef * Pi)

def Hphi_phij_case235 (r r_i phi_bar_j phi_bar_Mj theta_M z_bar_k : α) : α :=
  let t := sqrt ((((sq r) + (sq r_i)) - ((((n 2) * r) * r_i) * (cos phi_bar_j))) + (sq z_bar_k))
  let t1 := atan ((z_bar_k * ((r * (cos phi_bar_j)) - r_i)) / ((r * (sin phi_bar_j)) * t))
  let t1_coef := ((sin theta_M) * (sin phi_bar_Mj)) * (cos phi_bar_j)
  let t2 := atanh (z_bar_k / t)
  let t2_coef := ((sin theta_M) * (sin phi_bar_Mj)) * (sin phi_bar_j)
  (t1_coef * t1) + (t2_coef * t2)

def Hphi_zk_case235 (r r_i phi_bar_j theta_M z_bar_k : α) : α :=
  let t1 := sqrt ((((sq r) + (sq r_i)) - ((((n 2) * r) * r_i) * (cos phi_bar_j))) + (sq z_bar_k))
  let t1_coef := (cos theta_M) / r
  let t2 := atanh (((r * (cos phi_bar_j)) - r_i) / t1)
  let t2_coef := (-(cos theta_M)) * (cos phi_bar_j)
  (t1_coef * t1) + (t2_coef * t2)

def Hz_ri_case235 (r r_i r_bar_i phi_bar_j phi_bar_M theta_M z_bar_k : α) : α :=
  let t := (sq r_bar_i) + (sq z_bar_k)
  let t1 := sqrt ((((sq r) + (sq r_i)) - ((((n 2) * r) * r_i) * (cos phi_bar_j))) + (sq z_bar_k))
  let t1_coef := ((sin theta_M) * (sin phi_bar_M)) / r
  let E := ellipeinc (phi_bar_j / (n 2)) ((((-(n 4)) * r) * r_i) / t)
  let E_coef := (((sin theta_M) * (cos phi_bar_M)) * (sqrt t)) / r
  let F := ellipkinc (phi_bar_j / (n 2)) ((((-(n 4)) * r) * r_i) / t)
  let F_coef := (((-(sin theta_M)) * (cos phi_bar_M)) * (((sq r) + (sq r_i)) + (sq z_bar_k))) / (r * (sqrt t))
  ((t1_coef * t1) + (E_coef * E)) + (F_coef * F)

def Hz_phij_case235 (r r_i phi_bar_j phi_bar_Mj theta_M z_bar_k : α) : α :=
  let t1 := atanh (((r * (cos phi_bar_j)) - r_i) / (sqrt ((((sq r) + (sq r_i)) - ((((n 2) * r) * r_i) * (cos phi_bar_j))) + (sq z_bar_k))))
  let t1_coef := (-(sin theta_M)) * (sin phi_bar_Mj)
  t1_coef * t1

def Hz_zk_case235 (r r_i r_bar_i phi_bar_j theta_M z_bar_k : α) : α :=
  let t := sqrt ((sq r) + (sq z_bar_k))
  let Pi : α → α := fun (sign : α) =>
    el3angle (phi_bar_j / (n 2)) (((n 2) * r) / (r + (sign * t))) ((((-(n 4)) * r) * r_i) / ((sq r_bar_i) + (sq z_bar_k)))
  let Pi_coef : α → α := fun (sign : α) =>
    (((cos theta_M) * z_bar_k) * (r_i + (sign * t))) / ((sqrt ((sq r_bar_i) + (sq z_bar_k))) * (r + (sign * t)))
  ((Pi_coef (n 1)) * (Pi (n 1))) + ((Pi_coef (-(n 1))) * (Pi (-(n 1))))

def case112 (r_i phi_bar_M theta_M : α) : V3 (V3 α) :=
  ⟨⟨n 0, n 0, n 0⟩,
   ⟨n 0, n 0, Hphi_zk_case112 r_i theta_M⟩,
   ⟨Hz_ri_case112 phi_bar_M theta_M, Hz_phij_case112 r_i phi_bar_M theta_M, n 0⟩⟩

def case113 (r phi_bar_M theta_M : α) : V3 (V3 α) :=
  ⟨⟨n 0, n 0, n 0⟩,
   ⟨n 0, n 0, Hphi_zk_case113 r theta_M⟩,
   ⟨n 0, Hz_phij_case113 r phi_bar_M theta_M, n 0⟩⟩

def case115 (r r_i r_bar_i phi_bar_j phi_bar_M theta_M : α) : V3 (V3 α) :=
  ⟨⟨n 0, n 0, Hr_zk_case115 r r_i r_bar_i phi_bar_j theta_M⟩,
   ⟨n 0, n 0, Hphi_zk_case115 r r_i r_bar_i theta_M⟩,
   ⟨Hz_ri_case115 r r_i r_bar_i phi_bar_j phi_bar_M theta_M, Hz_phij_case115 r_bar_i phi_bar_M theta_M, n 0⟩⟩

def case122 (r_i phi_bar_M theta_M : α) : V3 (V3 α) :=
  ⟨⟨n 0, n 0, n 0⟩,
   ⟨n 0, n 0, Hphi_zk_case122 r_i theta_M⟩,
   ⟨Hz_ri_case122 phi_bar_M theta_M, Hz_phij_case122 r_i phi_bar_M theta_M, n 0⟩⟩

def case123 (r phi_bar_M theta_M : α) : V3 (V3 α) :=
  ⟨⟨n 0, n 0, n 0⟩,
   ⟨n 0, n 0, Hphi_zk_case123 r theta_M⟩,
   ⟨n 0, Hz_phij_case123 r phi_bar_M theta_M, n 0⟩⟩

def case124 (r phi_bar_M theta_M : α) : V3 (V3 α) :=
  ⟨⟨n 0, n 0, n 0⟩,
   ⟨n 0, n 0, Hphi_zk_case124 r theta_M⟩,
   ⟨Hz_ri_case124 phi_bar_M theta_M, Hz_phij_case124 r phi_bar_M theta_M, n 0⟩⟩

def case125 (r r_i r_bar_i phi_bar_j phi_bar_M theta_M : α) : V3 (V3 α) :=
  ⟨⟨n 0, n 0, Hr_zk_case125 r r_i r_bar_i phi_bar_j theta_M⟩,
   ⟨n 0, n 0, Hphi_zk_case125 r r_i theta_M⟩,
   ⟨Hz_ri_case125 r r_i r_bar_i phi_bar_j phi_bar_M theta_M, Hz_phij_case125 r r_i phi_bar_M theta_M, n 0⟩⟩

def case132 (r r_i phi_bar_j phi_bar_Mj theta_M : α) : V3 (V3 α) :=
  ⟨⟨n 0, n 0, Hr_zk_case132 r_i phi_bar_j theta_M⟩,
   ⟨n 0, n 0, Hphi_zk_case132 r_i phi_bar_j theta_M⟩,
   ⟨Hz_ri_case132 phi_bar_Mj theta_M, Hz_phij_case132 r_i phi_bar_Mj theta_M, n 0⟩⟩

def case133 (r phi_bar_j phi_bar_Mj theta_M : α) : V3 (V3 α) :=
  ⟨⟨n 0, n 0, Hr_zk_case133 r phi_bar_j theta_M⟩,
   ⟨n 0, n 0, Hphi_zk_case133 phi_bar_j theta_M⟩,
   ⟨n 0, Hz_phij_case133 phi_bar_j phi_bar_Mj theta_M, n 0⟩⟩

def case134 (r phi_bar_j phi_bar_M phi_bar_Mj theta_M : α) : V3 (V3 α) :=
  ⟨⟨n 0, n 0, Hr_zk_case134 r phi_bar_j theta_M⟩,
   ⟨n 0, n 0, Hphi_zk_case134 phi_bar_j theta_M⟩,
   ⟨Hz_ri_case134 phi_bar_j phi_bar_M theta_M, Hz_phij_case134 phi_bar_j phi_bar_Mj theta_M, n 0⟩⟩

def case135 (r r_i r_bar_i phi_bar_j phi_bar_M phi_bar_Mj theta_M : α) : V3 (V3 α) :=
  ⟨⟨n 0, n 0, Hr_zk_case135 r r_i r_bar_i phi_bar_j theta_M⟩,
   ⟨n 0, n 0, Hphi_zk_case135 r r_i phi_bar_j theta_M⟩,
   ⟨Hz_ri_case135 r r_i r_bar_i phi_bar_j phi_bar_M theta_M, Hz_phij_case135 r r_i phi_bar_j phi_bar_Mj theta_M, n 0⟩⟩

def case211 (phi_j phi_bar_M theta_M z_bar_k : α) : V3 (V3 α) :=
  ⟨⟨n 0, Hr_phij_case211 phi_bar_M theta_M z_bar_k, n 0⟩,
   ⟨n 0, n 0, n 0⟩,
   ⟨n 0, n 0, Hz_zk_case211 phi_j theta_M z_bar_k⟩⟩

def case212 (r_i phi_j phi_bar_M theta_M z_bar_k : α) : V3 (V3 α) :=
  ⟨⟨Hr_ri_case212 r_i phi_j phi_bar_M theta_M z_bar_k, Hr_phij_case212 r_i phi_bar_M theta_M z_bar_k, n 0⟩,
   ⟨Hphi_ri_case212 r_i phi_j phi_bar_M theta_M z_bar_k, n 0, Hphi_zk_case212 r_i theta_M z_bar_k⟩,
   ⟨Hz_ri_case212 r_i phi_bar_M theta_M z_bar_k, Hz_phij_case212 r_i phi_bar_M theta_M z_bar_k, Hz_zk_case212 r_i phi_j theta_M z_bar_k⟩⟩

def case213 (r phi_bar_j phi_bar_M theta_M z_bar_k : α) : V3 (V3 α) :=
  ⟨⟨n 0, Hr_phij_case213 r phi_bar_M theta_M z_bar_k, n 0⟩,
   ⟨n 0, n 0, Hphi_zk_case213 r theta_M z_bar_k⟩,
   ⟨n 0, Hz_phij_case213 r phi_bar_M theta_M z_bar_k, Hz_zk_case213 phi_bar_j theta_M z_bar_k⟩⟩

def case214 (r phi_j phi_bar_j phi_bar_M theta_M z_bar_k : α) : V3 (V3 α) :=
  ⟨⟨Hr_ri_case214 r phi_bar_j phi_bar_M theta_M z_bar_k, Hr_phij_case214 phi_bar_M theta_M z_bar_k, Hr_zk_case214 r phi_bar_j theta_M z_bar_k⟩,
   ⟨Hphi_ri_case214 r phi_j phi_bar_j phi_bar_M theta_M z_bar_k, n 0, Hphi_zk_case214 r theta_M z_bar_k⟩,
   ⟨Hz_ri_case214 r phi_bar_j phi_bar_M theta_M z_bar_k, n 0, Hz_zk_case214 r phi_bar_j theta_M z_bar_k⟩⟩

def case215 (r r_i r_bar_i phi_bar_j phi_bar_M theta_M z_bar_k : α) : V3 (V3 α) :=
  ⟨⟨Hr_ri_case215 r r_i r_bar_i phi_bar_j phi_bar_M theta_M z_bar_k, Hr_phij_case215 r_bar_i phi_bar_M theta_M z_bar_k, Hr_zk_case215 r r_i r_bar_i phi_bar_j theta_M z_bar_k⟩,
   ⟨Hphi_ri_case215 r r_i r_bar_i phi_bar_j phi_bar_M theta_M z_bar_k, n 0, Hphi_zk_case215 r r_bar_i theta_M z_bar_k⟩,
   ⟨Hz_ri_case215 r r_i r_bar_i phi_bar_j phi_bar_M theta_M z_bar_k, Hz_phij_case215 r_bar_i phi_bar_M theta_M z_bar_k, Hz_zk_case215 r r_i r_bar_i phi_bar_j theta_M z_bar_k⟩⟩

def case221 (phi_j phi_bar_M theta_M z_bar_k : α) : V3 (V3 α) :=
  ⟨⟨n 0, Hr_phij_case221 phi_bar_M theta_M z_bar_k, n 0⟩,
   ⟨n 0, n 0, n 0⟩,
   ⟨n 0, n 0, Hz_zk_case221 phi_j theta_M z_bar_k⟩⟩

def case222 (r_i phi_j phi_bar_M theta_M z_bar_k : α) : V3 (V3 α) :=
  ⟨⟨Hr_ri_case222 r_i phi_j phi_bar_M theta_M z_bar_k, Hr_phij_case222 r_i phi_bar_M theta_M z_bar_k, n 0⟩,
   ⟨Hphi_ri_case222 r_i phi_j phi_bar_M theta_M z_bar_k, n 0, Hphi_zk_case222 r_i theta_M z_bar_k⟩,
   ⟨Hz_ri_case222 r_i phi_bar_M theta_M z_bar_k, Hz_phij_case222 r_i phi_bar_M theta_M z_bar_k, Hz_zk_case222 r_i phi_j theta_M z_bar_k⟩⟩

def case223 (r phi_bar_j phi_bar_M theta_M z_bar_k : α) : V3 (V3 α) :=
  ⟨⟨n 0, Hr_phij_case223 r phi_bar_M theta_M z_bar_k, n 0⟩,
   ⟨n 0, n 0, Hphi_zk_case223 r theta_M z_bar_k⟩,
   ⟨n 0, Hz_phij_case223 r phi_bar_M theta_M z_bar_k, Hz_zk_case223 r phi_bar_j theta_M z_bar_k⟩⟩

def case224 (r phi_bar_j phi_bar_M theta_M z_bar_k : α) : V3 (V3 α) :=
  ⟨⟨Hr_ri_case224 r phi_bar_j phi_bar_M theta_M z_bar_k, Hr_phij_case224 r phi_bar_M theta_M z_bar_k, Hr_zk_case224 r phi_bar_j theta_M z_bar_k⟩,
   ⟨Hphi_ri_case224 r phi_bar_j phi_bar_M theta_M z_bar_k, n 0, Hphi_zk_case224 r theta_M z_bar_k⟩,
   ⟨Hz_ri_case224 r phi_bar_j phi_bar_M theta_M z_bar_k, Hz_phij_case224 r phi_bar_M theta_M z_bar_k, Hz_zk_case224 r phi_bar_j theta_M z_bar_k⟩⟩

def case225 (r r_i r_bar_i phi_bar_j phi_bar_M theta_M z_bar_k : α) : V3 (V3 α) :=
  ⟨⟨Hr_ri_case225 r r_i r_bar_i phi_bar_j phi_bar_M theta_M z_bar_k, Hr_phij_case225 r r_i phi_bar_M theta_M z_bar_k, Hr_zk_case225 r r_i r_bar_i phi_bar_j theta_M z_bar_k⟩,
   ⟨Hphi_ri_case225 r r_i r_bar_i phi_bar_j phi_bar_M theta_M z_bar_k, n 0, Hphi_zk_case225 r r_i theta_M z_bar_k⟩,
   ⟨Hz_ri_case225 r r_i r_bar_i phi_bar_j phi_bar_M theta_M z_bar_k, Hz_phij_case225 r r_i phi_bar_M theta_M z_bar_k, Hz_zk_case225 r r_i r_bar_i phi_bar_j theta_M z_bar_k⟩⟩

def case231 (phi_j phi_bar_j phi_bar_Mj theta_M z_bar_k : α) : V3 (V3 α) :=
  ⟨⟨n 0, Hr_phij_case231 phi_bar_j phi_bar_Mj theta_M z_bar_k, n 0⟩,
   ⟨n 0, Hphi_phij_case231 phi_bar_j phi_bar_Mj theta_M z_bar_k, n 0⟩,
   ⟨n 0, n 0, Hz_zk_case231 phi_j theta_M z_bar_k⟩⟩

def case232 (r_i phi_j phi_bar_j phi_bar_M phi_bar_Mj theta_M z_bar_k : α) : V3 (V3 α) :=
  ⟨⟨Hr_ri_case232 r_i phi_j phi_bar_j phi_bar_M phi_bar_Mj theta_M z_bar_k, Hr_phij_case232 r_i phi_bar_j phi_bar_Mj theta_M z_bar_k, Hr_zk_case232 r_i phi_bar_j theta_M z_bar_k⟩,
   ⟨Hphi_ri_case232 r_i phi_j phi_bar_j phi_bar_M phi_bar_Mj theta_M z_bar_k, Hphi_phij_case232 r_i phi_bar_j phi_bar_Mj theta_M z_bar_k, Hphi_zk_case232 r_i phi_bar_j theta_M z_bar_k⟩,
   ⟨Hz_ri_case232 r_i phi_bar_Mj theta_M z_bar_k, Hz_phij_case232 r_i phi_bar_Mj theta_M z_bar_k, Hz_zk_case232 r_i phi_j theta_M z_bar_k⟩⟩

def case233 (r phi_bar_j phi_bar_Mj theta_M z_bar_k : α) : V3 (V3 α) :=
  ⟨⟨n 0, Hr_phij_case233 r phi_bar_j phi_bar_Mj theta_M z_bar_k, Hr_zk_case233 r phi_bar_j theta_M z_bar_k⟩,
   ⟨n 0, Hphi_phij_case233 r phi_bar_j phi_bar_Mj theta_M z_bar_k, Hphi_zk_case233 r phi_bar_j theta_M z_bar_k⟩,
   ⟨n 0, Hz_phij_case233 r phi_bar_j phi_bar_Mj theta_M z_bar_k, Hz_zk_case233 r phi_bar_j theta_M z_bar_k⟩⟩

def case234 (r phi_bar_j phi_bar_M phi_bar_Mj theta_M z_bar_k : α) : V3 (V3 α) :=
  ⟨⟨Hr_ri_case234 r phi_bar_j phi_bar_M theta_M z_bar_k, Hr_phij_case234 r phi_bar_j phi_bar_Mj theta_M z_bar_k, Hr_zk_case234 r phi_bar_j theta_M z_bar_k⟩,
   ⟨Hphi_ri_case234 r phi_bar_j phi_bar_M theta_M z_bar_k, Hphi_phij_case234 r phi_bar_j phi_bar_Mj theta_M z_bar_k, Hphi_zk_case234 r phi_bar_j theta_M z_bar_k⟩,
   ⟨Hz_ri_case234 r phi_bar_j phi_bar_M theta_M z_bar_k, Hz_phij_case234 r phi_bar_j phi_bar_Mj theta_M z_bar_k, Hz_zk_case234 r phi_bar_j theta_M z_bar_k⟩⟩

def case235 (r r_i r_bar_i phi_bar_j phi_bar_M phi_bar_Mj theta_M z_bar_k : α) : V3 (V3 α) :=
  ⟨⟨Hr_ri_case235 r r_i r_bar_i phi_bar_j phi_bar_M theta_M z_bar_k, Hr_phij_case235 r r_i phi_bar_j phi_bar_Mj theta_M z_bar_k, Hr_zk_case235 r r_i r_bar_i phi_bar_j theta_M z_bar_k⟩,
   ⟨Hphi_ri_case235 r r_i r_bar_i phi_bar_j phi_bar_M theta_M z_bar_k, Hphi_phij_case235 r r_i phi_bar_j phi_bar_Mj theta_M z_bar_k, Hphi_zk_case235 r r_i phi_bar_j theta_M z_bar_k⟩,
   ⟨Hz_ri_case235 r r_i r_bar_i phi_bar_j phi_bar_M theta_M z_bar_k, Hz_phij_case235 r r_i phi_bar_j phi_bar_Mj theta_M z_bar_k, Hz_zk_case235 r r_i r_bar_i phi_bar_j theta_M z_bar_k⟩⟩

structure AllArgs (α : Type) where
  r : α
  r_i : α
  r_bar_i : α
  phi_bar_j : α
  phi_bar_M : α
  phi_bar_Mj : α
  theta_M : α
  z_bar_k : α
  phi_j : α

def allArgs (r phi z r_i phi_j z_k phi_M theta_M : α) : AllArgs α :=
  { r := r,
    r_i := r_i,
    r_bar_i := r - r_i,
    phi_bar_j := phi - phi_j,
    phi_bar_M := phi_M - phi,
    phi_bar_Mj := phi_M - phi_j,
    theta_M := theta_M,
    z_bar_k := z - z_k,
    phi_j := phi_j }

def caseIds : List Nat := [112, 113, 115, 122, 123, 124, 125, 132, 133, 134, 135, 211, 212, 213, 214, 215, 221, 222, 223, 224, 225, 231, 232, 233, 234, 235]

def caseDispatch (cid : Nat) (a : AllArgs α) : Option (V3 (V3 α)) :=
  match cid with
  | 112 => some (case112 a.r_i a.phi_bar_M a.theta_M)
  | 113 => some (case113 a.r a.phi_bar_M a.theta_M)
  | 115 => some (case115 a.r a.r_i a.r_bar_i a.phi_bar_j a.phi_bar_M a.theta_M)
  | 122 => some (case122 a.r_i a.phi_bar_M a.theta_M)
  | 123 => some (case123 a.r a.phi_bar_M a.theta_M)
  | 124 => some (case124 a.r a.phi_bar_M a.theta_M)
  | 125 => some (case125 a.r a.r_i a.r_bar_i a.phi_bar_j a.phi_bar_M a.theta_M)
  | 132 => some (case132 a.r a.r_i a.phi_bar_j a.phi_bar_Mj a.theta_M)
  | 133 => some (case133 a.r a.phi_bar_j a.phi_bar_Mj a.theta_M)
  | 134 => some (case134 a.r a.phi_bar_j a.phi_bar_M a.phi_bar_Mj a.theta_M)
  | 135 => some (case135 a.r a.r_i a.r_bar_i a.phi_bar_j a.phi_bar_M a.phi_bar_Mj a.theta_M)
  | 211 => some (case211 a.phi_j a.phi_bar_M a.theta_M a.z_bar_k)
  | 212 => some (case212 a.r_i a.phi_j a.phi_bar_M a.theta_M a.z_bar_k)
  | 213 => some (case213 a.r a.phi_bar_j a.phi_bar_M a.theta_M a.z_bar_k)
  | 214 => some (case214 a.r a.phi_j a.phi_bar_j a.phi_bar_M a.theta_M a.z_bar_k)
  | 215 => some (case215 a.r a.r_i a.r_bar_i a.phi_bar_j a.phi_bar_M a.theta_M a.z_bar_k)
  | 221 => some (case221 a.phi_j a.phi_bar_M a.theta_M a.z_bar_k)
  | 222 => some (case222 a.r_i a.phi_j a.phi_bar_M a.theta_M a.z_bar_k)
  | 223 => some (case223 a.r a.phi_bar_j a.phi_bar_M a.theta_M a.z_bar_k)
  | 224 => some (case224 a.r a.phi_bar_j a.phi_bar_M a.theta_M a.z_bar_k)
  | 225 => some (case225 a.r a.r_i a.r_bar_i a.phi_bar_j a.phi_bar_M a.theta_M a.z_bar_k)
  | 231 => some (case231 a.phi_j a.phi_bar_j a.phi_bar_Mj a.theta_M a.z_bar_k)
  | 232 => some (case232 a.r_i a.phi_j a.phi_bar_j a.phi_bar_M a.phi_bar_Mj a.theta_M a.z_bar_k)
  | 233 => some (case233 a.r a.phi_bar_j a.phi_bar_Mj a.theta_M a.z_bar_k)
  | 234 => some (case234 a.r a.phi_bar_j a.phi_bar_M a.phi_bar_Mj a.theta_M a.z_bar_k)
  | 235 => some (case235 a.r a.r_i a.r_bar_i a.phi_bar_j a.phi_bar_M a.phi_bar_Mj a.theta_M a.z_bar_k)
  | _ => none

def plusIdx : List Nat := [1, 2, 4, 7]

def minusIdx : List Nat := [0, 3, 5, 6]

def handPortedLiterals : List (String × List String × List String) := [
  ("field_BH_cylinder_segment.magnet_cylinder_segment_Hfield", ["8", "4", "4", "4", "6", "4", "8", "112", "113", "115", "122", "123", "124", "125", "132", "133", "134", "135", "211", "212", "213", "214", "215", "221", "222", "223", "224", "225", "231", "232", "233", "234", "235", "4", "6", "4", "6", "4", "6", "4", "6", "4", "6", "4", "6", "4", "6", "5", "6", "5", "6", "4", "5", "6", "4", "5", "6", "8", "4", "6", "7", "8", "4", "6", "7", "4", "6", "7", "8", "4", "6", "7", "4", "6", "7", "8", "4", "6", "7", "8", "4", "6", "7", "4", "6", "7", "4", "6", "7", "4", "6", "7", "8", "5", "6", "7", "8", "4", "5", "6", "7", "5", "6", "7", "4", "5", "6", "7", "4", "5", "6", "7", "8", "4", "7", "5", "6", "1e-07"], ["=="]),
  ("field_BH_cylinder_segment.BHJM_cylinder_segment_internal", ["360"], ["<", "!="]),
  ("field_BH_cylinder_segment.BHJM_cylinder_segment", ["1.0", "180", "180", "0.0"], [">", ">", "<", "<", "<", "!=", "!=", "<", "<", "==", "==", "==", "=="]),
  ("special_el3.el30", ["0.0", "0.0", "8", "10.0", "10.0", "0.0", "0.5", "1.0", "0.1", "0.1", "0.5", "1.0", "0.5", "0.5", "0.0", "1.0", "0.0", "0.0", "1.0", "1.0", "0.0", "0.5", "0.0", "0.0", "1.0", "1.0", "0.0", "1.0", "0.0", "1.0", "2.0", "0.0", "0.0", "0.0", "0.0", "1.0", "1.0", "1.0", "1.0", "0.0", "1.0", "1.0", "1.0", "1.0", "1.0", "1.0", "0.5", "0.0", "0.0", "0.0", "0.0", "1.0", "0.0", "0.0", "0.5", "0.0"], ["==", "==", "<", "<", "<", "<", "==", "==", "==", "==", ">", ">=", "<", "<", "==", "==", "<", ">", "==", "<", "<", ">", "==", "==", "<", "<", "==", "<", ">"]),
  ("special_el3.el3", ["10"], ["<"]),
  ("special_el3.el3_angle", ["8", "10", "10", "10", "10"], ["<=", "<", ">=", ">", "!=", ">", "<", ">", "<"])]

def specialCallDeps : List (String × String × List String) := [
  ("Hr_zk_case115", "ellipeinc", ["phi_bar_j", "r", "r_bar_i", "r_i"]),
  ("Hr_zk_case115", "ellipkinc", ["phi_bar_j", "r", "r_bar_i", "r_i"]),
  ("Hz_ri_case115", "ellipeinc", ["phi_bar_j", "r", "r_bar_i", "r_i"]),
  ("Hz_ri_case115", "ellipkinc", ["phi_bar_j", "r", "r_bar_i", "r_i"]),
  ("Hr_zk_case125", "ellipeinc", ["phi_bar_j", "r", "r_bar_i", "r_i"]),
  ("Hr_zk_case125", "ellipkinc", ["phi_bar_j", "r", "r_bar_i", "r_i"]),
  ("Hz_ri_case125", "ellipeinc", ["phi_bar_j", "r", "r_bar_i", "r_i"]),
  ("Hz_ri_case125", "ellipkinc", ["phi_bar_j", "r", "r_bar_i", "r_i"]),
  ("Hr_zk_case135", "ellipeinc", ["phi_bar_j", "r", "r_bar_i", "r_i"]),
  ("Hr_zk_case135", "ellipkinc", ["phi_bar_j", "r", "r_bar_i", "r_i"]),
  ("Hz_ri_case135", "ellipeinc", ["phi_bar_j", "r", "r_bar_i", "r_i"]),
  ("Hz_ri_case135", "ellipkinc", ["phi_bar_j", "r", "r_bar_i", "r_i"]),
  ("Hr_ri_case214", "ellipeinc", ["phi_bar_j", "r", "z_bar_k"]),
  ("Hr_ri_case214", "ellipkinc", ["phi_bar_j", "r", "z_bar_k"]),
  ("Hr_zk_case214", "ellipeinc", ["phi_bar_j", "r", "z_bar_k"]),
  ("Hr_zk_case214", "ellipkinc", ["phi_bar_j", "r", "z_bar_k"]),
  ("Hr_zk_case214", "el3angle", ["phi_bar_j", "r", "z_bar_k"]),
  ("Hr_zk_case214", "el3angle", ["phi_bar_j", "r", "z_bar_k"]),
  ("Hphi_ri_case214", "ellipeinc", ["phi_bar_j", "r", "z_bar_k"]),
  ("Hphi_ri_case214", "ellipkinc", ["phi_bar_j", "r", "z_bar_k"]),
  ("Hz_ri_case214", "ellipeinc", ["phi_bar_j", "r", "z_bar_k"]),
  ("Hz_ri_case214", "ellipkinc", ["phi_bar_j", "r", "z_bar_k"]),
  ("Hz_zk_case214", "el3angle", ["phi_bar_j", "r", "z_bar_k"]),
  ("Hr_ri_case215", "ellipeinc", ["phi_bar_j", "r", "r_bar_i", "r_i", "z_bar_k"]),
  ("Hr_ri_case215", "ellipkinc", ["phi_bar_j", "r", "r_bar_i", "r_i", "z_bar_k"]),
  ("Hr_ri_case215", "el3angle", ["phi_bar_j", "r", "r_bar_i", "r_i", "z_bar_k"]),
  ("Hr_zk_case215", "ellipeinc", ["phi_bar_j", "r", "r_bar_i", "r_i", "z_bar_k"]),
  ("Hr_zk_case215", "ellipkinc", ["phi_bar_j", "r", "r_bar_i", "r_i", "z_bar_k"]),
  ("Hr_zk_case215", "el3angle", ["phi_bar_j", "r", "r_bar_i", "r_i", "z_bar_k"]),
  ("Hr_zk_case215", "el3angle", ["phi_bar_j", "r", "r_bar_i", "r_i", "z_bar_k"]),
  ("Hphi_ri_case215", "ellipeinc", ["phi_bar_j", "r", "r_bar_i", "r_i", "z_bar_k"]),
  ("Hphi_ri_case215", "ellipkinc", ["phi_bar_j", "r", "r_bar_i", "r_i", "z_bar_k"]),
  ("Hphi_ri_case215", "el3angle", ["phi_bar_j", "r", "r_bar_i", "r_i", "z_bar_k"]),
  ("Hz_ri_case215", "ellipeinc", ["phi_bar_j", "r", "r_bar_i", "r_i", "z_bar_k"]),
  ("Hz_ri_case215", "ellipkinc", ["phi_bar_j", "r", "r_bar_i", "r_i", "z_bar_k"]),
  ("Hz_zk_case215", "el3angle", ["phi_bar_j", "r", "r_bar_i", "r_i", "z_bar_k"]),
  ("Hr_ri_case224", "ellipeinc", ["phi_bar_j", "r", "z_bar_k"]),
  ("Hr_ri_case224", "ellipkinc", ["phi_bar_j", "r", "z_bar_k"]),
  ("Hr_zk_case224", "ellipeinc", ["phi_bar_j", "r", "z_bar_k"]),
  ("Hr_zk_case224", "ellipkinc", ["phi_bar_j", "r", "z_bar_k"]),
  ("Hr_zk_case224", "el3angle", ["phi_bar_j", "r", "z_bar_k"]),
  ("Hr_zk_case224", "el3angle", ["phi_bar_j", "r", "z_bar_k"]),
  ("Hphi_ri_case224", "ellipeinc", ["phi_bar_j", "r", "z_bar_k"]),
  ("Hphi_ri_case224", "ellipkinc", ["phi_bar_j", "r", "z_bar_k"]),
  ("Hz_ri_case224", "ellipeinc", ["phi_bar_j", "r", "z_bar_k"]),
  ("Hz_ri_case224", "ellipkinc", ["phi_bar_j", "r", "z_bar_k"]),
  ("Hz_zk_case224", "el3angle", ["phi_bar_j", "r", "z_bar_k"]),
  ("Hr_ri_case225", "ellipeinc", ["phi_bar_j", "r", "r_bar_i", "r_i", "z_bar_k"]),
  ("Hr_ri_case225", "ellipkinc", ["phi_bar_j", "r", "r_bar_i", "r_i", "z_bar_k"]),
  ("Hr_ri_case225", "el3angle", ["phi_bar_j", "r", "r_bar_i", "r_i", "z_bar_k"]),
  ("Hr_zk_case225", "ellipeinc", ["phi_bar_j", "r", "r_bar_i", "r_i", "z_bar_k"]),
  ("Hr_zk_case225", "ellipkinc", ["phi_bar_j", "r", "r_bar_i", "r_i", "z_bar_k"]),
  ("Hr_zk_case225", "el3angle", ["phi_bar_j", "r", "r_bar_i", "r_i", "z_bar_k"]),
  ("Hr_zk_case225", "el3angle", ["phi_bar_j", "r", "r_bar_i", "r_i", "z_bar_k"]),
  ("Hphi_ri_case225", "ellipeinc", ["phi_bar_j", "r", "r_bar_i", "r_i", "z_bar_k"]),
  ("Hphi_ri_case225", "ellipkinc", ["phi_bar_j", "r", "r_bar_i", "r_i", "z_bar_k"]),
  ("Hphi_ri_case225", "el3angle", ["phi_bar_j", "r", "r_bar_i", "r_i", "z_bar_k"]),
  ("Hz_ri_case225", "ellipeinc", ["phi_bar_j", "r", "r_bar_i", "r_i", "z_bar_k"]),
  ("Hz_ri_case225", "ellipkinc", ["phi_bar_j", "r", "r_bar_i", "r_i", "z_bar_k"]),
  ("Hz_zk_case225", "el3angle", ["phi_bar_j", "r", "r_bar_i", "r_i", "z_bar_k"]),
  ("Hr_ri_case234", "ellipeinc", ["phi_bar_j", "r", "z_bar_k"]),
  ("Hr_ri_case234", "ellipkinc", ["phi_bar_j", "r", "z_bar_k"]),
  ("Hr_zk_case234", "ellipeinc", ["phi_bar_j", "r", "z_bar_k"]),
  ("Hr_zk_case234", "ellipkinc", ["phi_bar_j", "r", "z_bar_k"]),
  ("Hr_zk_case234", "el3angle", ["phi_bar_j", "r", "z_bar_k"]),
  ("Hr_zk_case234", "el3angle", ["phi_bar_j", "r", "z_bar_k"]),
  ("Hphi_ri_case234", "ellipeinc", ["phi_bar_j", "r", "z_bar_k"]),
  ("Hphi_ri_case234", "ellipkinc", ["phi_bar_j", "r", "z_bar_k"]),
  ("Hz_ri_case234", "ellipeinc", ["phi_bar_j", "r", "z_bar_k"]),
  ("Hz_ri_case234", "ellipkinc", ["phi_bar_j", "r", "z_bar_k"]),
  ("Hz_zk_case234", "el3angle", ["phi_bar_j", "r", "z_bar_k"]),
  ("Hr_ri_case235", "ellipeinc", ["phi_bar_j", "r", "r_bar_i", "r_i", "z_bar_k"]),
  ("Hr_ri_case235", "ellipkinc", ["phi_bar_j", "r", "r_bar_i", "r_i", "z_bar_k"]),
  ("Hr_ri_case235", "el3angle", ["phi_bar_j", "r", "r_bar_i", "r_i", "z_bar_k"]),
  ("Hr_zk_case235", "ellipeinc", ["phi_bar_j", "r", "r_bar_i", "r_i", "z_bar_k"]),
  ("Hr_zk_case235", "ellipkinc", ["phi_bar_j", "r", "r_bar_i", "r_i", "z_bar_k"]),
  ("Hr_zk_case235", "el3angle", ["phi_bar_j", "r", "r_bar_i", "r_i", "z_bar_k"]),
  ("Hr_zk_case235", "el3angle", ["phi_bar_j", "r", "r_bar_i", "r_i", "z_bar_k"]),
  ("Hphi_ri_case235", "ellipeinc", ["phi_bar_j", "r", "r_bar_i", "r_i", "z_bar_k"]),
  ("Hphi_ri_case235", "ellipkinc", ["phi_bar_j", "r", "r_bar_i", "r_i", "z_bar_k"]),
  ("Hphi_ri_case235", "el3angle", ["phi_bar_j", "r", "r_bar_i", "r_i", "z_bar_k"]),
  ("Hz_ri_case235", "ellipeinc", ["phi_bar_j", "r", "r_bar_i", "r_i", "z_bar_k"]),
  ("Hz_ri_case235", "ellipkinc", ["phi_bar_j", "r", "r_bar_i", "r_i", "z_bar_k"]),
  ("Hz_zk_case235", "el3angle", ["phi_bar_j", "r", "r_bar_i", "r_i", "z_bar_k"])]

def magArgOffences : List (String × String) := []

end MagpyVerif.Kern.CylSeg
