/-
Model/CylSegWrap.lean — the hand-written part of the CylinderSegment port, for ONE row (one observer,
one segment), over `NumX` (Model/CylSegBase.lean).  The case functions, `determine_cases`, the
argument table and the dispatch on the case id are the translated definitions of Model/CylSeg.lean.

  * `segH`              = `magnet_cylinder_segment_Hfield`: the 8 boundary combinations
                          `(r_i, phi_j, z_k)`, `i j k ∈ {0,1}`, stacked in the order `4i + 2j + k`
                          (`np.repeat(dimensions[:, :2], 4)`, `np.repeat(np.tile(dimensions[:, 2:4], 2), 2)`,
                          `np.ravel(np.tile(dimensions[:, 4:6], 4))`), the case id of each, the case
                          function's 3×3 block (component × face type), the signed sum
                          `Σ result[(1,2,4,7)] − result[(0,3,5,6)]` over boundaries and face types, the factor
                          `M · 1e-7 / MU0`.  A case id that is not in the table leaves the block at NaN in the
                          code (ids 111, 114, 121, 131): every component of the row is then NaN — `none` here.
  * `segMasks`          the inside / surface masks of `BHJM_cylinder_segment`
  * `bhjmCylSeg`        = `BHJM_cylinder_segment` (units of the outer radius, degrees → radians, shift of
                          angle ranges beyond ±2π, masks, spherical magnetization, cylinder → Cartesian, field
                          selection through `Kern.wrapSegment`).  One row: the early return `if not
                          np.any(mask_not_on_surf): return BHJM * 0` is the surface rule of `wrapSegment`.
  * `bhjmCylSegInternal` = `BHJM_cylinder_segment_internal`: `phi2 − phi1 < 360` → the segment solution,
                          else Cylinder(2·r2, h) − [r1 ≠ 0] Cylinder(2·r1, h) (`Kern.bhjmCylinder`).
  `none` stands for: a NaN row (case id outside the table) or `RuntimeError` of `cel0` in the Cylinder branch.
-/
import MagpyVerif.Model.CylSeg

namespace MagpyVerif.Kern.CylSeg
open MagpyVerif MagpyVerif.Kern MagpyVerif.Kern.Num MagpyVerif.Kern.NumX
variable {α : Type} [NumX α]

/-- the 3×3 block of boundary `s = 4i + 2j + k` (`none`: its case id is not in the table) -/
def boundaryBlock (r phi z r1 r2 phi1 phi2 z1 z2 phiM thetaM : α) (s : Nat) : Option (V3 (V3 α)) :=
  let ri := if s / 4 % 2 == 0 then r1 else r2
  let phij := if s / 2 % 2 == 0 then phi1 else phi2
  let zk := if s % 2 == 0 then z1 else z2
  caseDispatch (determine_cases r phi z ri phij zk) (allArgs r phi z ri phij zk phiM thetaM)

/-- sum over the face types (axis 3) of a block, per component -/
def faceDiff (p m : V3 (V3 α)) : V3 (V3 α) :=
  ⟨⟨p.x.x - m.x.x, p.x.y - m.x.y, p.x.z - m.x.z⟩,
   ⟨p.y.x - m.y.x, p.y.y - m.y.y, p.y.z - m.y.z⟩,
   ⟨p.z.x - m.z.x, p.z.y - m.z.y, p.z.z - m.z.z⟩⟩

def rowSum (v : V3 α) : α := v.x + v.y + v.z

/-- `np.sum(result[:, (1, 2, 4, 7)] - result[:, (0, 3, 5, 6)], axis=(1, 3))` for one row: the four
differences, summed over boundaries and face types (the order of the additions is numpy's business;
here: face types first) -/
def boundarySum (blocks : List (V3 (V3 α))) : Option (V3 α) :=
  let pairs := plusIdx.zip minusIdx
  let diffs := pairs.filterMap fun (pm : Nat × Nat) =>
    match blocks[pm.1]?, blocks[pm.2]? with
    | some p, some m => some (faceDiff p m)
    | _, _ => none
  if diffs.length == pairs.length then
    some (diffs.foldl (fun (acc : V3 α) d => ⟨acc.x + rowSum d.x, acc.y + rowSum d.y, acc.z + rowSum d.z⟩) zero3)
  else none

/-- `magnet_cylinder_segment_Hfield` for one row: observer `(r, phi, z)` in cylinder coordinates,
dimensions `(r1, r2, phi1, phi2, z1, z2)`, magnetization `(M, phi_M, theta_M)` in spherical coordinates;
the result is `(H_r, H_phi, H_z)` -/
def segH (r phi z r1 r2 phi1 phi2 z1 z2 mag phiM thetaM : α) : Option (V3 α) :=
  let blocks := (List.range 8).filterMap (boundaryBlock r phi z r1 r2 phi1 phi2 z1 z2 phiM thetaM)
  if blocks.length == 8 then
    (boundarySum blocks).map fun s =>
      -- result.T * magnetizations[:, 0] * 1e-7 / MU0
      let c (v : α) : α := v * mag * (n 1 / n 10000000) / mu0
      ⟨c s.x, c s.y, c s.z⟩
  else none

/-- masks of `BHJM_cylinder_segment` -/
structure SegMasks where
  inside : Bool
  notOnSurf : Bool
  deriving DecidableEq, Repr

/-- `np.sign(a) != np.sign(b)` -/
def signNe (a b : α) : Bool := !(eq0 (sgn a - sgn b))

/-- the masks, from the observer in cylinder coordinates and the normalised dimensions
(lengths in units of the outer radius, angles in rad and shifted into [−2π, 2π]).
`phi = phi_j` is the test of `determine_cases` (`|phi − phi_j| mod 2π` close to 0 or to 2π); "in between" is: strictly
between the two bounds, or `close` to one of them — the tolerance of the surface tests and of `determine_cases`; the
axis of a segment without bore (`r ≈ 0`, `r1 ≈ 0`: the apex line) belongs to every azimuth -/
def segMasks (r phi z r1 r2 phi1 phi2 z1 z2 : α) : SegMasks :=
  let phio1 := phi
  let phio2 := phi - sgn phi * n 2 * pi
  let mod1 := pymod (abs (phi - phi1)) (n 2 * pi)
  let mod2 := pymod (abs (phi - phi2)) (n 2 * pi)
  let maskPhi1 := close mod1 (n 0) || close mod1 (n 2 * pi)
  let maskPhi2 := close mod2 (n 0) || close mod2 (n 2 * pi)
  let rIn := (lt r1 r && lt r r2) || close r r1 || close r r2
  let phiIn := signNe (phio1 - phi1) (phio1 - phi2) || signNe (phio2 - phi1) (phio2 - phi2) ||
    (close r (n 0) && close r1 (n 0))
  let zIn := (lt z1 z && lt z z2) || close z z1 || close z z2
  let surfZ := (close z z1 || close z z2) && phiIn && rIn
  let surfR := (close r r1 || close r r2) && phiIn && zIn
  let surfPhi := (maskPhi1 || maskPhi2) && rIn && zIn
  { inside := rIn && phiIn && zIn, notOnSurf := !(surfZ || surfR || surfPhi) }

/-- the normalised inputs of one row: `(observer / unit, r1, r2, phi1, phi2, z1, z2)` -/
structure SegNorm (α : Type) where
  obs : V3 α
  r1 : α
  r2 : α
  phi1 : α
  phi2 : α
  z1 : α
  z2 : α

/-- the prologue of `BHJM_cylinder_segment`: absolute values, units of the outer radius, deg → rad,
shift by full turns; `dim = (r1, r2, h, phi1, phi2)` with the angles in degrees -/
def segNormalise (x : V3 α) (r1 r2 h phi1 phi2 : α) : SegNorm α :=
  let r1 := abs r1
  let r2 := abs r2
  let h := abs h
  let unit := if lt (n 0) r2 then r2 else n 1
  let obs : V3 α := ⟨x.x / unit, x.y / unit, x.z / unit⟩
  let r1 := r1 / unit
  let r2 := r2 / unit
  let h := h / unit
  let z1 := (-h) / n 2
  let z2 := h / n 2
  let phi1 := phi1 / n 180 * pi
  let phi2 := phi2 / n 180 * pi
  let twoPi : α := n 2 * pi
  let turns :=
    if lt twoPi phi2 then ceil ((phi2 - twoPi) / twoPi)
    else if lt phi1 (-twoPi) then -(ceil ((-twoPi - phi1) / twoPi))
    else n 0
  { obs := obs, r1 := r1, r2 := r2, phi1 := phi1 - twoPi * turns, phi2 := phi2 - twoPi * turns,
    z1 := z1, z2 := z2 }

/-- the Cartesian H of the not-on-surface branch: polarization → spherical magnetization, core in
cylinder coordinates, rotation back -/
def segCoreH (N : SegNorm α) (pol : V3 α) : Option (V3 α) :=
  let r := sqrt (sq N.obs.x + sq N.obs.y)
  let phi := atan2 N.obs.y N.obs.x
  let m := sqrt (sq pol.x + sq pol.y + sq pol.z) / mu0
  let phiM := atan2 pol.y pol.x
  let thM := atan2 (sqrt (sq pol.x + sq pol.y)) pol.z
  (segH r phi N.obs.z N.r1 N.r2 N.phi1 N.phi2 N.z1 N.z2 m phiM thM).map fun hc =>
    ⟨hc.x * cos phi - hc.y * sin phi, hc.x * sin phi + hc.y * cos phi, hc.z⟩

/-- `BHJM_cylinder_segment(field, observers, dimension, polarization)` for one row;
`dim = (r1, r2, h, phi1, phi2)`, angles in degrees -/
def bhjmCylSeg (f : Field) (x : V3 α) (r1 r2 h phi1 phi2 : α) (pol : V3 α) : Option (V3 α) :=
  let N := segNormalise x r1 r2 h phi1 phi2
  let r := sqrt (sq N.obs.x + sq N.obs.y)
  let phi := atan2 N.obs.y N.obs.x
  let m := segMasks r phi N.obs.z N.r1 N.r2 N.phi1 N.phi2 N.z1 N.z2
  match f with
  | .J | .M => some (wrapSegment f m.inside m.notOnSurf pol zero3)
  | _ =>
    if m.notOnSurf then (segCoreH N pol).map fun hc => wrapSegment f m.inside m.notOnSurf pol hc
    else some (wrapSegment f m.inside m.notOnSurf pol zero3)

/-- `BHJM_cylinder_segment_internal(field, observers, polarization, dimension)` for one row -/
def bhjmCylSegInternal (fuel : Nat) (f : Field) (x : V3 α) (r1 r2 h phi1 phi2 : α) (pol : V3 α) :
    Option (V3 α) :=
  if lt (phi2 - phi1) (n 360) then bhjmCylSeg f x r1 r2 h phi1 phi2 pol
  else
    match bhjmCylinder fuel f (n 2 * r2, h) pol x with
    | none => none
    | some outer =>
      if !(eq0 r1) then
        (bhjmCylinder fuel f (n 2 * r1, h) pol x).map fun inner => outer - inner
      else some outer

end MagpyVerif.Kern.CylSeg
