/-
Model/DisplayOutward.lean — which way a triangulated surface of the display faces (C19):
* `faceOut vs f o` = `det[a - o, b - o, c - o]` for the triangle `f = (a, b, c)` (vertex rows of `vs`) and a point `o`: six times the
  signed volume of the tetrahedron `(o, a, b, c)` = (normal `(b - a) × (c - a)` in index order) · (centroid − o)
  (`faceOut_eq_normal_dot`, Lemmas/DisplayOutward.lean).  Positive: the face, seen from `o`, is wound so that its normal points AWAY
  from `o` (plotly lights `mesh3d` faces by that normal).
* `meshVol6 vs fs` = Σ faces `det[a, b, c]`: six times the signed volume enclosed by a closed surface (positive iff wound outwards);
  run by the driver on the model's vertices and triangles of every closed generator and compared with the same sum over the REAL
  arrays (rows `svol`).
Mathlib-free, computable, polymorphic over `Num α`.
-/
import MagpyVerif.Model.DisplayIdx
namespace MagpyVerif.DisplayTrig
open MagpyVerif MagpyVerif.Kern Num
variable {α : Type} [Num α]

/-- `det` of the matrix with rows `a, b, c` -/
def det3v (a b c : V3 α) : α := V3.dot a (V3.cross b c)

/-- `det[a - o, b - o, c - o]` of triangle `f` -/
def faceOut (vs : List (V3 α)) (f : Mesh.Face) (o : V3 α) : Option α :=
  match vs[f.1]?, vs[f.2.1]?, vs[f.2.2]? with
  | some a, some b, some c => some (det3v (a - o) (b - o) (c - o))
  | _, _, _ => none

/-- six times the signed volume (faces with an index outside the vertex array are skipped; there are none, see the index theorems) -/
def meshVol6 (vs : List (V3 α)) (fs : List Mesh.Face) : α :=
  fs.foldl (fun acc f => match faceOut vs f (⟨n 0, n 0, n 0⟩ : V3 α) with
    | some d => acc + d
    | none => acc) (n 0)

end MagpyVerif.DisplayTrig
