/-
Model/DisplayArrowLine.lean — the arrows of a Polyline current / of the magnetization (C19), as the code computes them:
* `traces_utility.draw_arrowed_line(vec, pos, sign, arrow_size, arrow_pos, pivot, include_line)` INCLUDING the rotation of the
  template onto `vec` (the template alone is `arrowedLineLocal`, Model/DisplayArrow.lean)            — `arrowTemplate`, `arrowRotvec`, `arrowedLine`
* `traces_utility.draw_arrow_from_vertices(vertices, sign, arrow_size, arrow_pos, scaled, include_line)` — `arrowFromVertices`
* scipy's `Rotation.from_rotvec(r).apply(v)` is a PARAMETER `rot : V3 α → V3 α → V3 α` of both; the driver passes `rotvecApply`
  (Rodrigues' formula: rotation about `r/|r|` by `|r|`), the theorems in Props/C19 either assume of `rot` what they need or are
  about `rotvecApply` itself.
Rows that the code fills with `np.nan` (`include_line=False`) are `none`.  Mathlib-free, computable, polymorphic over `Num α`:
`Float` in the driver (family `disp`, rows `arrowr`, `arrowsv`), `ℝ` in Lemmas/DisplayArrowLine.lean and Props/C19.lean.
-/
import MagpyVerif.Model.DisplayArrow
namespace MagpyVerif.DisplayTrig
open MagpyVerif MagpyVerif.Kern Num

/-- `np.arccos` -/
class ArcCos (α : Type) where
  arccos : α → α

variable {α : Type} [Num α]

/-- `Rotation.from_rotvec(r).apply(v)` as Rodrigues' formula `v cos θ + (k × v) sin θ + k (k·v)(1 − cos θ)` with `θ = |r|`, `k = r/θ`
(`θ = 0`: the identity).  scipy goes through a quaternion; the `arrowr` rows compare to 1e-12 of the drawn size. -/
def rotvecApply (r v : V3 α) : V3 α :=
  let th := norm r
  if eq0 th then v
  else
    let k := vd r th
    let c := cos th
    let s := sin th
    vs c v + vs s (V3.cross k v) + vs ((n 1 - c) * V3.dot k v) k

/-- the arrow template before scaling: `[0, shift, 0], [-hx, shift - hy, 0], [0, shift, 0], [hx, shift - hy, 0], [0, shift, 0]`
between the end points `[0, -0.5, 0]`, `[0, 0.5, 0]`; with `include_line=False` a NaN row after the first and before the last
point (the line is interrupted there) -/
def arrowTemplate (sign size apos : α) (includeLine : Bool) : List (Option (V3 α)) :=
  let sh := apos - half
  let hx := (n 3 / n 5) * size
  let hy := sgn sign * size
  let arrow : List (Option (V3 α)) :=
    [some ⟨n 0, sh, n 0⟩, some ⟨-hx, sh - hy, n 0⟩, some ⟨n 0, sh, n 0⟩, some ⟨hx, sh - hy, n 0⟩, some ⟨n 0, sh, n 0⟩]
  if includeLine then some ⟨n 0, -half, n 0⟩ :: (arrow ++ [some ⟨n 0, half, n 0⟩])
  else some ⟨n 0, -half, n 0⟩ :: none :: (arrow ++ [none, some ⟨n 0, half, n 0⟩])

/-- `anchor = (0, -0.5, 0) if pivot == "tip" else (0, 0.5, 0) if pivot == "tail" else (0, 0, 0)` -/
def arrowAnchor (p : Pivot) : V3 α :=
  match p with
  | .tip => ⟨n 0, -half, n 0⟩
  | .tail => ⟨n 0, half, n 0⟩
  | .middle => ⟨n 0, n 0, n 0⟩

/-- which rotation vector the code hands to scipy (`none`: the template is not rotated):
```
norm = np.linalg.norm(vec);  nvec = np.array(vec) / norm;  yaxis = np.array([0, 1, 0])
cross = np.cross(nvec, yaxis);  dot = np.dot(nvec, yaxis);  n = np.linalg.norm(cross)
if n == 0 and dot == -1:  R = from_rotvec([0, 0, np.pi])
elif n != 0:              t = np.arccos(dot);  R = from_rotvec(-t * cross / n)
```
(`dot == -1` iff `dot + 1 == 0` in IEEE arithmetic; for a NaN `n` — a zero `vec` — `n != 0` holds and everything becomes NaN) -/
def arrowRotvec [ArcCos α] (vec : V3 α) : Option (V3 α) :=
  let nvec := vd vec (norm vec)
  let yaxis : V3 α := ⟨n 0, n 1, n 0⟩
  let cross := V3.cross nvec yaxis
  let dot := V3.dot nvec yaxis
  let nn := norm cross
  if eq0 nn && eq0 (dot + n 1) then some ⟨n 0, n 0, pi⟩
  else if !(eq0 nn) then some (vd (vs (-(ArcCos.arccos dot)) cross) nn)
  else none

/-- `draw_arrowed_line`: `arrow = (template + anchor) * norm`, rotated, `+ pos` -/
def arrowedLine [ArcCos α] (rot : V3 α → V3 α → V3 α) (vec pos : V3 α) (sign size apos : α) (pivot : Pivot)
    (includeLine : Bool) : List (Option (V3 α)) :=
  let nrm := norm vec
  let anchor : V3 α := arrowAnchor pivot
  let arrow := (arrowTemplate sign size apos includeLine).map (Option.map fun v =>
    (⟨(v.x + anchor.x) * nrm, (v.y + anchor.y) * nrm, (v.z + anchor.z) * nrm⟩ : V3 α))
  let arrow := match arrowRotvec vec with
    | some r => arrow.map (Option.map (rot r))
    | none => arrow
  arrow.map (Option.map (· + pos))

/-- `np.diff(vertices, axis=0)` -/
def diffs (verts : List (V3 α)) : List (V3 α) := (verts.zip verts.tail).map fun p => p.2 - p.1

/-- the per-segment arrow sizes:
```
if scaled:  arrow_sizes = [arrow_size * 0.1] * (len(vertices) - 1)
else:       vec_lens = norm(vectors); mask0 = vec_lens == 0; vec_lens[mask0] = 1; arrow_sizes = arrow_size / vec_lens; arrow_sizes[mask0] = 0
``` -/
def arrowSizes (vectors : List (V3 α)) (arrowSize : α) (scaled : Bool) : List α :=
  if scaled then vectors.map fun _ => arrowSize * (n 1 / n 10)
  else vectors.map fun v => let l := norm v; if eq0 l then n 0 else arrowSize / l

/-- `draw_arrow_from_vertices`: one `draw_arrowed_line(vec, pos, sign, arrow_size=siz, arrow_pos=arrow_pos, include_line=…)` (pivot
"middle") per segment, `pos = vertices[:-1] + vectors / 2` its middle, concatenated in order; `np.concatenate([])` raises ValueError
for fewer than two vertices -/
def arrowFromVertices [ArcCos α] (rot : V3 α → V3 α → V3 α) (verts : List (V3 α)) (sign arrowSize arrowPos : α)
    (scaled includeLine : Bool) : Except Display.Err (List (Option (V3 α))) :=
  let vectors := diffs verts
  let sizes := arrowSizes vectors arrowSize scaled
  let positions := (verts.zip vectors).map fun p => p.1 + vd p.2 (n 2)
  if vectors.isEmpty then .error .valueError
  else .ok ((vectors.zip (positions.zip sizes)).flatMap fun t =>
    arrowedLine rot t.1 t.2.1 sign t.2.2 arrowPos .middle includeLine)

end MagpyVerif.DisplayTrig
