/-
Model/Cylinder.lean — port of the Cylinder kernels of /repo/magpylib/_src/fields/field_BH_cylinder.py
for ONE row (one observer, one cylinder), over the scalar class `Num` of Model/Kernels.lean
(`Float` in the driver, `ℝ` in the theorems):

  * `cylAxialB`      = `magnet_cylinder_axial_Bfield`      (Derby 2010; four calls of `cel`)
  * `cylDiametralH`  = `magnet_cylinder_diametral_Hfield`  (Taylor branch `r < 0.05`, general branch
                       with `ellipe`, `ellipk`, `cel` and the special case `rm == 0`)
  * `bhjmCylinder`   = `BHJM_magnet_cylinder`              (cylinder coordinates, division by `r0`,
                       masks, both contributions, back to Cartesian, inside terms, on-edge rule, J, M)

Conventions of the port
  * the batch has one row, so `cel` (special_cel.py) takes its `n_input < 10` path and is `cel0`
    (`Kern.cel0`, with fuel for its `while` loop; `none` = `raise RuntimeError("FAIL")` for `kc == 0`
    or fuel exhausted).  `celv`, used for ten or more rows, is the same iteration vectorised
    (it always runs the loop body once more than necessary before it tests) — not modelled here.
  * numpy `x**2` is `x*x`; `x**3`, `x**4`, `x**5` (libm `pow` in numpy) are written as repeated
    products.
  * MODELLING ASSUMPTION (validated by the `cylinder` kind of the `kern` correspondence stream, not
    proved): scipy's `ellipk(m)` and `ellipe(m)` (parameter `m = k²`, here `m ≤ 0`) are
        ellipk m = cel0 (sqrt (1 - m)) 1 1 1        ellipe m = cel0 (sqrt (1 - m)) 1 1 (1 - m)
    — the identities in the docstring of `cel`.  In `Float` the two sides agree to about 1e-13
    relative (cel0 stops at `errtol = 1e-6` of a quadratically convergent iteration); the stream
    compares with 1e-8 of the polarization scale.
  * `np.isclose(a, b, rtol, atol)` is `|a − b| <= atol + rtol·|b|  &  isfinite(b)  |  a == b`;
    `isfinite b` is expressed as `b - b == 0`, `a == b` as `a <= b && b <= a`.
-/
import MagpyVerif.Model.Kernels

namespace MagpyVerif.Kern

variable {α : Type} [Num α]
open Num

/-- `np.isclose(a, b, rtol=rtol, atol=atol)` (numpy 2.x:
`less_equal(abs(x - y), atol + rtol * abs(y)) & isfinite(y) | (x == y)`) -/
def isclose (a b rtol atol : α) : Bool :=
  (le (abs (a - b)) (atol + rtol * abs b) && eq0 (b - b)) || (le a b && le b a)

/-- `magnet_cylinder_axial_Bfield(z0, r, z)` for one row: `(Br, Bz)` (Bphi = 0) for unit
polarization; all lengths already divided by the cylinder radius -/
def cylAxialB (fuel : Nat) (z0 r z : α) : Option (α × α) :=
  let zph := z + z0
  let zmh := z - z0
  let dpr := n 1 + r
  let dmr := n 1 - r
  let sq0 := sqrt (zmh * zmh + dpr * dpr)
  let sq1 := sqrt (zph * zph + dpr * dpr)
  let k1 := sqrt ((zph * zph + dmr * dmr) / (zph * zph + dpr * dpr))
  let k0 := sqrt ((zmh * zmh + dmr * dmr) / (zmh * zmh + dpr * dpr))
  let gamma := dmr / dpr
  let one : α := n 1
  -- Br = (cel(k1, one, one, -one) / sq1 - cel(k0, one, one, -one) / sq0) / np.pi
  match cel0 fuel k1 one one (-one) with
  | none => none
  | some a1 =>
  match cel0 fuel k0 one one (-one) with
  | none => none
  | some a0 =>
  -- Bz = 1 / dpr * (zph * cel(k1, gamma**2, one, gamma) / sq1 - zmh * cel(k0, gamma**2, one, gamma) / sq0) / np.pi
  match cel0 fuel k1 (gamma * gamma) one gamma with
  | none => none
  | some b1 =>
  match cel0 fuel k0 (gamma * gamma) one gamma with
  | none => none
  | some b0 =>
    let br := (a1 / sq1 - a0 / sq0) / pi
    let bz := n 1 / dpr * (zph * b1 / sq1 - zmh * b0 / sq0) / pi
    some (br, bz)

/-- the `mask_small_r` branch of `magnet_cylinder_diametral_Hfield` (Taylor series in `r`):
`(Hr, Hphi, Hz)` -/
def cylDiametralSmallR (z0 r z phi : α) : α × α × α :=
  let zp := z + z0
  let zm := z - z0
  let zp2 := zp * zp
  let zm2 := zm * zm
  let r2 := r * r
  let zpp := zp2 + n 1
  let zmm := zm2 + n 1
  let sqrtp := sqrt zpp
  let sqrtm := sqrt zmm
  let frac1 := zp / sqrtp
  let frac2 := zm / sqrtm
  let r3 := r2 * r
  let r4 := r3 * r
  let r5 := r4 * r
  let zpp2 := zpp * zpp
  let zmm2 := zmm * zmm
  let zpp3 := zpp2 * zpp
  let zmm3 := zmm2 * zmm
  let zpp4 := zpp3 * zpp
  let zmm4 := zmm3 * zmm
  let zpp5 := zpp4 * zpp
  let zmm5 := zmm4 * zmm
  let term1 := frac1 - frac2
  let term2 := (frac1 / zpp2 - frac2 / zmm2) * r2 / n 8
  let term3 := ((n 3 - n 4 * zp2) * frac1 / zpp4 - (n 3 - n 4 * zm2) * frac2 / zmm4) / n 64 * r4
  let hr := -(cos phi) / n 4 * (term1 + n 9 * term2 + n 25 * term3)
  let hphi := sin phi / n 4 * (term1 + n 3 * term2 + n 5 * term3)
  let hz := -(cos phi) / n 4 *
    (r * (n 1 / zpp / sqrtp - n 1 / zmm / sqrtm) +
      n 3 / n 8 * r3 * ((n 1 - n 4 * zp2) / zpp3 / sqrtp - (n 1 - n 4 * zm2) / zmm3 / sqrtm) +
      n 15 / n 64 * r5 *
        ((n 1 - n 12 * zp2 + n 8 * (zp2 * zp2)) / zpp5 / sqrtp -
          (n 1 - n 12 * zm2 + n 8 * (zm2 * zm2)) / zmm5 / sqrtm))
  (hr, hphi, hz)

/-- the six complete elliptic integrals the general branch evaluates, in the order of the source:
`ellipe(argp)`, `ellipe(argm)`, `ellipk(argp)`, `ellipk(argm)` (scipy; modelled through `cel0`, see
the header) and `cel(sqrt(1 - argp), 1 - argc, 1, 1)`, `cel(sqrt(1 - argm), 1 - argc, 1, 1)` -/
structure CylEll (α : Type) where
  elleP : α
  elleM : α
  ellkP : α
  ellkM : α
  ellpiP : α
  ellpiM : α

def cylEll (fuel : Nat) (argp argm argc : α) : Option (CylEll α) :=
  let one : α := n 1
  match cel0 fuel (sqrt (one - argp)) one one (one - argp) with
  | none => none
  | some elleP =>
  match cel0 fuel (sqrt (one - argm)) one one (one - argm) with
  | none => none
  | some elleM =>
  match cel0 fuel (sqrt (one - argp)) one one one with
  | none => none
  | some ellkP =>
  match cel0 fuel (sqrt (one - argm)) one one one with
  | none => none
  | some ellkM =>
  match cel0 fuel (sqrt (one - argp)) (one - argc) one one with
  | none => none
  | some ellpiP =>
  match cel0 fuel (sqrt (one - argm)) (one - argc) one one with
  | none => none
  | some ellpiM => some ⟨elleP, elleM, ellkP, ellkM, ellpiP, ellpiM⟩

/-- the field expressions of the `mask_general` branch, given the six elliptic integrals -/
def cylDiametralGeneralOf (E : CylEll α) (z0 r z phi : α) : α × α × α :=
  let zp := z + z0
  let zm := z - z0
  let zp2 := zp * zp
  let zm2 := zm * zm
  let r2 := r * r
  let rp := r + n 1
  let rm := r - n 1
  let rp2 := rp * rp
  let ap := sqrt (zp2 + rm * rm)
  let am := sqrt (zm2 + rm * rm)
  let oneOverRm := if eq0 rm then n 0 else n 1 / rm
  let hr := -(cos phi) / (n 4 * pi * r2) *
    (-zm * am * E.elleM + zp * ap * E.elleP + zm / am * (n 2 + zm2) * E.ellkM - zp / ap * (n 2 + zp2) * E.ellkP +
      (zm / am * E.ellpiM - zp / ap * E.ellpiP) * rp * (r2 + n 1) * oneOverRm)
  let hphi := sin phi / (n 4 * pi * r2) *
    (zm * am * E.elleM - zp * ap * E.elleP - zm / am * (n 2 + zm2 + n 2 * r2) * E.ellkM +
      zp / ap * (n 2 + zp2 + n 2 * r2) * E.ellkP + zm / am * rp2 * E.ellpiM - zp / ap * rp2 * E.ellpiP)
  let hz := -(cos phi) / (n 2 * pi * r) *
    (am * E.elleM - ap * E.elleP - (n 1 + zm2 + r2) / am * E.ellkM + (n 1 + zp2 + r2) / ap * E.ellkP)
  (hr, hphi, hz)

/-- the `mask_general` branch of `magnet_cylinder_diametral_Hfield`, with
`mask_special = rm == 0` (`argc = 1e16`, `one_over_rm = 0`) -/
def cylDiametralGeneral (fuel : Nat) (z0 r z phi : α) : Option (α × α × α) :=
  let zp := z + z0
  let zm := z - z0
  let rm := r - n 1
  let rm2 := rm * rm
  let ap2 := zp * zp + rm * rm
  let am2 := zm * zm + rm * rm
  let argp := -(n 4) * r / ap2
  let argm := -(n 4) * r / am2
  let argc := if eq0 rm then n 10000000000000000 else -(n 4) * r / rm2
  match cylEll fuel argp argm argc with
  | none => none
  | some E => some (cylDiametralGeneralOf E z0 r z phi)

/-- `magnet_cylinder_diametral_Hfield(z0, r, z, phi)` for one row: `(Hr, Hphi, Hz)` for unit
polarization (the value is μ₀H, a B-type quantity); `mask_small_r = r < 0.05` -/
def cylDiametralH (fuel : Nat) (z0 r z phi : α) : Option (α × α × α) :=
  if lt r (n 5 / n 100) then some (cylDiametralSmallR z0 r z phi)
  else cylDiametralGeneral fuel z0 r z phi

/-- the masks of `BHJM_magnet_cylinder` that depend on the (dimensionless) position only -/
structure CylMasks where
  inside : Bool      -- mask_between_bases & mask_inside_hull
  onEdge : Bool      -- mask_on_hull & mask_on_bases   (= ~mask_not_on_edge)
  deriving DecidableEq, Repr

def cylMasks (z0 r z : α) : CylMasks :=
  let tol : α := n 1 / n 1000000000000000
  let betweenBases := le (abs z) z0
  let insideHull := le r (n 1)
  let onHull := isclose r (n 1) tol (n 0)
  let onBases := isclose (abs z) z0 tol (n 0)
  { inside := betweenBases && insideHull, onEdge := onHull && onBases }

/-- everything `BHJM_magnet_cylinder` does after the three divisions by `r0` (for one row):
`z0 r z` dimensionless, `phi` the observer's azimuth -/
def bhjmCylinderRow (fuel : Nat) (f : Field) (z0 r z phi : α) (pol : V3 α) : Option (V3 α) :=
  let m := cylMasks z0 r z
  match f with
  | .J => some (if m.inside then pol else zero3)
  | .M => some (vd (if m.inside then pol else zero3) mu0)
  | _ =>
    let notOnEdge := !m.onEdge
    let polTvNz := !(eq0 pol.x) || !(eq0 pol.y)
    let polAxNz := !(eq0 pol.z)
    let polNotNull := !(eq0 pol.x && eq0 pol.y && eq0 pol.z)
    let gen := polNotNull && notOnEdge
    let maskTv := polTvNz && gen
    let maskAx := polAxNz && gen
    let edgeInside := m.inside && !notOnEdge
    let insideGen := m.inside && gen
    -- BHJM *= 0
    let b0 : V3 α := ⟨pol.x * n 0, pol.y * n 0, pol.z * n 0⟩
    -- transversal polarization contribution (assignment)
    let b1? : Option (V3 α) :=
      if maskTv then
        let polxy := sqrt (pol.x * pol.x + pol.y * pol.y)
        let tetta := atan2 pol.y pol.x
        (cylDiametralH fuel z0 r z (phi - tetta)).map fun h => ⟨h.1 * polxy, h.2.1 * polxy, h.2.2 * polxy⟩
      else some b0
    match b1? with
    | none => none
    | some b1 =>
    -- axial polarization contribution (`+=`; the Bphi row of the axial core is `np.zeros`)
    let b2? : Option (V3 α) :=
      if maskAx then
        (cylAxialB fuel z0 r z).map fun b => ⟨b1.x + b.1 * pol.z, b1.y + n 0 * pol.z, b1.z + b.2 * pol.z⟩
      else some b1
    match b2? with
    | none => none
    | some b2 =>
      -- cyl_field_to_cart(phi, Br, Bphi)
      let b3 : V3 α := ⟨b2.x * cos phi - b2.y * sin phi, b2.x * sin phi + b2.y * cos phi, b2.z⟩
      match f with
      | .B =>
        some (if maskTv && insideGen then ⟨b3.x + pol.x, b3.y + pol.y, b3.z⟩ else b3)
      | _ =>
        let b4 : V3 α := if maskAx && insideGen then ⟨b3.x, b3.y, b3.z - pol.z⟩ else b3
        let b5 : V3 α := if edgeInside then -pol else b4
        some (vd b5 mu0)

/-- `BHJM_magnet_cylinder(field, observers, dimension, polarization)` for one row;
`dimension = (diameter, height)` -/
def bhjmCylinder (fuel : Nat) (f : Field) (dimension : α × α) (pol x : V3 α) : Option (V3 α) :=
  -- cart_to_cyl_coordinates
  let r := sqrt (x.x * x.x + x.y * x.y)
  let phi := atan2 x.y x.x
  let z := x.z
  let r0 := dimension.1 / n 2
  let z0 := dimension.2 / n 2
  -- scale invariance (make dimensionless)
  bhjmCylinderRow fuel f (z0 / r0) (r / r0) (z / r0) phi pol

end MagpyVerif.Kern
