/-
Model/TrimeshBatch.lean — the batch-level control flow of `BHJM_magnet_trimesh` (field_BH_triangularmesh.py,
`in_out == "auto"`): consecutive rows that carry the same mesh are grouped, the inside/outside test is run once
per group with the group's FIRST mesh, and the polarization is added to the rows found inside.

    prev_ind = 0
    for new_ind in range(1, len(BHJM) + 1):
        if new_ind == len(BHJM) or mesh[new_ind].shape != mesh[prev_ind].shape or not np.all(mesh[new_ind] == mesh[prev_ind]):
            mask_inside = mask_inside_trimesh(observers[prev_ind:new_ind], mesh[prev_ind])
            BHJM[prev_ind:new_ind][mask_inside] += polarization[prev_ind:new_ind][mask_inside]
            prev_ind = new_ind

`M` = meshes (compared with `==`: same shape and same entries), `O` = observers, `V` = field vectors; `inside m x` is
`mask_inside_trimesh` for one observer (assumed row-wise: the ray test of one observer does not look at the others).
Mathlib-free, computable.
-/
namespace MagpyVerif.Trimesh

structure Row (M O V : Type) where
  mesh : M
  obs : O
  pol : V
  /-- the row's value before the inside term is added: sum of the triangle sheets (B) or 0 (J, M) -/
  core : V

variable {M O V : Type} [DecidableEq M] [Add V]

/-- one closed group: `BHJM[prev:new][mask] += polarization[prev:new][mask]` with the mask computed for mesh `m` -/
def closeGroup (inside : M → O → Bool) (m : M) (grp : List (Row M O V)) : List V :=
  grp.map fun r => if inside m r.obs then r.core + r.pol else r.core

/-- the loop: `m` is `mesh[prev_ind]`, `grp` the rows `[prev_ind, new_ind)` collected so far -/
def loop (inside : M → O → Bool) (m : M) (grp : List (Row M O V)) : List (Row M O V) → List V
  | [] => closeGroup inside m grp
  | r :: rest =>
    if r.mesh = m then loop inside m (grp ++ [r]) rest
    else closeGroup inside m grp ++ loop inside r.mesh [r] rest

/-- the `in_out == "auto"` block for a whole batch -/
def addInside (inside : M → O → Bool) : List (Row M O V) → List V
  | [] => []
  | r :: rest => loop inside r.mesh [r] rest

/-- what each row should get on its own -/
def rowwise (inside : M → O → Bool) (r : Row M O V) : V :=
  if inside r.mesh r.obs then r.core + r.pol else r.core

end MagpyVerif.Trimesh
