/-
Model/SymCarrier.lean — a third carrier for the kernel model: expression trees with a shadow IEEE double.

The kernel model (Model/Kernels.lean, Model/Cylinder.lean, …) is polymorphic over `Num α`.  At `α := SymF` every
arithmetic operation builds an expression tree while the shadow double decides the comparisons, so that running a
model function on one row returns *the formula the model evaluates on the branch that row selects*.  The
correspondence harness obtains the same for the real numpy code (translate/ktrace.py executes it on object arrays of
symbolic values) and decides whether the two formulas are the same rational function of their atoms
(corr/sym_family.py).  Mathlib-free, computable.
-/
import MagpyVerif.Model.Kernels

namespace MagpyVerif.Sym
open MagpyVerif.Kern

inductive Tree where
  | var (i : Nat)
  | nat (k : Nat)
  | pi
  | mu0
  | add (a b : Tree)
  | sub (a b : Tree)
  | mul (a b : Tree)
  | div (a b : Tree)
  | neg (a : Tree)
  | sqrt (a : Tree)
  | abs (a : Tree)
  | log (a : Tree)
  | sin (a : Tree)
  | cos (a : Tree)
  | atan2 (a b : Tree)
  deriving Inhabited

/-- prefix notation with fixed arities, tokens separated by blanks (pushed onto an accumulator) -/
def Tree.toks : Tree → Array String → Array String
  | .var i, acc => (acc.push "var").push (toString i)
  | .nat k, acc => (acc.push "nat").push (toString k)
  | .pi, acc => acc.push "pi"
  | .mu0, acc => acc.push "mu0"
  | .add a b, acc => b.toks (a.toks (acc.push "add"))
  | .sub a b, acc => b.toks (a.toks (acc.push "sub"))
  | .mul a b, acc => b.toks (a.toks (acc.push "mul"))
  | .div a b, acc => b.toks (a.toks (acc.push "div"))
  | .neg a, acc => a.toks (acc.push "neg")
  | .sqrt a, acc => a.toks (acc.push "sqrt")
  | .abs a, acc => a.toks (acc.push "abs")
  | .log a, acc => a.toks (acc.push "log")
  | .sin a, acc => a.toks (acc.push "sin")
  | .cos a, acc => a.toks (acc.push "cos")
  | .atan2 a b, acc => b.toks (a.toks (acc.push "atan2"))

structure SymF where
  e : Tree
  v : Float
  deriving Inhabited

instance : Add SymF := ⟨fun a b => ⟨.add a.e b.e, a.v + b.v⟩⟩
instance : Sub SymF := ⟨fun a b => ⟨.sub a.e b.e, a.v - b.v⟩⟩
instance : Mul SymF := ⟨fun a b => ⟨.mul a.e b.e, a.v * b.v⟩⟩
instance : Div SymF := ⟨fun a b => ⟨.div a.e b.e, a.v / b.v⟩⟩
instance : Neg SymF := ⟨fun a => ⟨.neg a.e, -a.v⟩⟩

/-- the symbolic carrier; `mu0v` = the double behind the symbol `mu0` -/
def symNum (mu0v : Float) : Num SymF where
  ofNat k := ⟨.nat k, k.toFloat⟩
  sqrt a := ⟨.sqrt a.e, a.v.sqrt⟩
  abs a := ⟨.abs a.e, a.v.abs⟩
  pi := ⟨.pi, 3.141592653589793⟩
  mu0 := ⟨.mu0, mu0v⟩
  lt a b := a.v < b.v
  le a b := a.v <= b.v
  eq0 a := a.v == 0.0
  log a := ⟨.log a.e, a.v.log⟩
  atan2 a b := ⟨.atan2 a.e b.e, Float.atan2 a.v b.v⟩
  sin a := ⟨.sin a.e, a.v.sin⟩
  cos a := ⟨.cos a.e, a.v.cos⟩

end MagpyVerif.Sym
