/-
Model/StyleNested.lean — the NESTED-dictionary layer of magpylib's style handling (C20), mirroring
`/repo/magpylib/_src/defaults/defaults_utility.py`:

  * `magic_to_dict(kwargs, separator)`            ↦ `magicStep`, `magicLoop`, `mapValsM`, `magicFuel`, `magicToDict`
  * `linearize_dict(kwargs, separator)`           ↦ `linVal`, `linLoop`, `linearizeDict`
  * `update_nested_dict(d, u, same_keys_only, replace_None_only)` ↦ `updVal`, `updLoop`, `updDict`, `updateNested`
  * `MagicProperties.update(arg, _match_properties, _replace_None_only, **kwargs)` at dictionary level
                                                  ↦ `assign`, `mpUpdate` (with `MagicProperties.__init__`, `as_dict`,
                                                    `validate_property_class` as far as they act on dictionaries)
  * which dictionary objects of the result are the *same objects* as dictionaries of the inputs
    (`deepcopy(d)`, `u.copy()`)                   ↦ `ATree`, `updDictA` (address-labelled variant)
  * `get_style` (magpylib/_src/style.py) as a composition of the above ↦ `resolveNested`

A Python dict is an ordered association list: `d[k] = v` keeps the position of an existing key and appends
a new one (`setKey`), `d.get(k)` is `lookup`.  Python strings are lists of code points (`Str = List Char`);
a key is a string or an integer (to model what the code does with a non-string key).
Mutation becomes returning the new value, exceptions become `Except Err`.
Mathlib-free and computable (linked into the compiled driver).
-/
namespace MagpyVerif.StyleNested

/-- leaf values: `none` is Python `None`, `some n` an integer -/
abbrev Val := Nat
/-- a Python `str` -/
abbrev Str := List Char

/-- a dictionary key: a string, or an integer (a "non-string key") -/
inductive Key where
  | str (s : Str)
  | int (n : Int)
  deriving DecidableEq, Repr

/-- a (nested) dictionary value: a non-dict value (`leaf`) or a dict with its items in insertion order -/
inductive Tree where
  | leaf (v : Option Val)
  | node (kids : List (Key × Tree))
  deriving Repr

abbrev Dict := List (Key × Tree)
/-- a flat dictionary (result of `linearize_dict`) -/
abbrev FlatD := List (Key × Option Val)

/-- exception classes raised by the modelled functions (`fuel` is not a Python exception: the recursion of
`magic_to_dict` is modelled with fuel, and `magic_total` shows the fuel given is never exhausted) -/
inductive Err where
  | assertion   -- AssertionError: `assert isinstance(kwargs, dict)`
  | attribute   -- AttributeError: `k.split` on a non-string key, `u.items()` / `u.copy()` on a non-dict, unknown property
  | value       -- ValueError: `validate_property_class` got something that is neither a dict, None nor an instance
  | fuel
  deriving DecidableEq, Repr

/-! ### dict primitives -/

/-- `d.get(k)` -/
def lookup {α : Type} (k : Key) : List (Key × α) → Option α
  | [] => none
  | (k', v) :: r => if k' = k then some v else lookup k r

/-- `d[k] = v`: an existing key keeps its position, a new key goes to the end -/
def setKey {α : Type} (k : Key) (v : α) : List (Key × α) → List (Key × α)
  | [] => [(k, v)]
  | (k', v') :: r => if k' = k then (k', v) :: r else (k', v') :: setKey k v r

/-- `{**a, **b}` / `a.update(b)` on a copy of `a` -/
def mergeDict {α : Type} (a b : List (Key × α)) : List (Key × α) :=
  b.foldl (fun acc kv => setKey kv.1 kv.2 acc) a

/-- `dict(items)`: build a dict from a list of items (later duplicates overwrite) -/
def ofItems {α : Type} (items : List (Key × α)) : List (Key × α) := mergeDict [] items

/-- `f"{k}"` -/
def Key.toStr : Key → Str
  | .str s => s
  | .int n => (toString n).toList

/-! ### str.split / str.join for a one-character separator -/

/-- `s.split(sep)` for a separator of length one (the two separators magpylib uses are "_" and ".") -/
def splitOn (sep : Char) : Str → List Str
  | [] => [[]]
  | c :: cs =>
    if c = sep then [] :: splitOn sep cs
    else match splitOn sep cs with
      | [] => [[c]]            -- not reached: `splitOn` never returns the empty list
      | w :: ws => (c :: w) :: ws

/-- `sep.join(parts)` -/
def joinWith (sep : Char) : List Str → Str
  | [] => []
  | [w] => w
  | w :: ws => w ++ sep :: joinWith sep ws

/-! ### magic_to_dict -/

/-- one pass of the first loop of `magic_to_dict`:
```
keys = k.split(separator)
if len(keys) == 1: new_kwargs[keys[0]] = v
else:
    val = {separator.join(keys[1:]): v}
    if keys[0] in new_kwargs and isinstance(new_kwargs[keys[0]], dict):
        new_kwargs[keys[0]] = {**new_kwargs[keys[0]], **val}
    else:
        new_kwargs[keys[0]] = val
``` -/
def magicStep (sep : Char) (acc : Dict) (k : Key) (v : Tree) : Except Err Dict :=
  match k with
  | .int _ => .error .attribute                      -- 'int' object has no attribute 'split'
  | .str s =>
    match splitOn sep s with
    | [] => .ok acc                                  -- not reached
    | [k0] => .ok (setKey (.str k0) v acc)
    | k0 :: more =>
      let val : Dict := [(.str (joinWith sep more), v)]
      match lookup (.str k0) acc with
      | some (.node e) => .ok (setKey (.str k0) (.node (mergeDict e val)) acc)
      | _ => .ok (setKey (.str k0) (.node val) acc)

/-- `for k, v in kwargs.items(): …` (first loop), `acc` is `new_kwargs` -/
def magicLoop (sep : Char) (acc : Dict) : Dict → Except Err Dict
  | [] => .ok acc
  | (k, v) :: rest =>
    match magicStep sep acc k v with
    | .ok a => magicLoop sep a rest
    | .error e => .error e

/-- second loop: `for k, v in new_kwargs.items(): if isinstance(v, dict): new_kwargs[k] = rec(v)` -/
def mapValsM (rec : Dict → Except Err Dict) : Dict → Except Err Dict
  | [] => .ok []
  | (k, .leaf v) :: rest =>
    match mapValsM rec rest with
    | .ok rs => .ok ((k, .leaf v) :: rs)
    | .error e => .error e
  | (k, .node kv) :: rest =>
    match rec kv with
    | .error e => .error e
    | .ok r =>
      match mapValsM rec rest with
      | .ok rs => .ok ((k, .node r) :: rs)
      | .error e => .error e

/-- `magic_to_dict` on the items of a dict; the recursion is not structural (it runs on dictionaries the first
loop has just built), so it takes fuel -/
def magicFuel (sep : Char) : Nat → Dict → Except Err Dict
  | 0, _ => .error .fuel
  | n + 1, kw =>
    match magicLoop sep [] kw with
    | .error e => .error e
    | .ok g => mapValsM (magicFuel sep n) g

/-- number of separators in a key (an upper bound for the nesting it can create) -/
def Key.seps (sep : Char) : Key → Nat
  | .str s => s.count sep
  | .int _ => 0

mutual
/-- recursion measure of `magic_to_dict` -/
def Tree.weight (sep : Char) : Tree → Nat
  | .leaf _ => 0
  | .node kids => 1 + weightKids sep kids
def weightKids (sep : Char) : List (Key × Tree) → Nat
  | [] => 0
  | (k, v) :: r => k.seps sep + v.weight sep + weightKids sep r
end

/-- `magic_to_dict(kwargs, separator)`; `assert isinstance(kwargs, dict)` for a non-dict -/
def magicToDict (sep : Char) : Tree → Except Err Tree
  | .leaf _ => .error .assertion
  | .node kw =>
    match magicFuel sep (weightKids sep kw + 1) kw with
    | .ok r => .ok (.node r)
    | .error e => .error e

/-! ### linearize_dict -/

mutual
/-- body of the loop of `linearize_dict` for one item `(k, v)`; `acc` is `dict_` -/
def linVal (sep : Str) (acc : FlatD) (k : Key) : Tree → FlatD
  | .leaf v => setKey k v acc
  | .node kv =>
    (linLoop sep [] kv).foldl (fun a kv' => setKey (.str (k.toStr ++ sep ++ kv'.1.toStr)) kv'.2 a) acc
/-- `for k, v in kwargs.items(): …` -/
def linLoop (sep : Str) (acc : FlatD) : List (Key × Tree) → FlatD
  | [] => acc
  | (k, v) :: rest => linLoop sep (linVal sep acc k v) rest
end

/-- `linearize_dict(kwargs, separator)` -/
def linearizeDict (sep : Str) : Tree → Except Err FlatD
  | .leaf _ => .error .assertion
  | .node kw => .ok (linLoop sep [] kw)

/-! ### update_nested_dict -/

/-- `new_dict.get(k, None) is None` -/
def isNoneOrMissing : Option Tree → Bool
  | none => true
  | some (.leaf none) => true
  | _ => false

mutual
/-- what one pass of the loop of `update_nested_dict` assigns to `new_dict[k]` (`none`: nothing is assigned),
`cur = new_dict.get(k)` (missing ↦ `none`):
```
if k in new_dict or not same_keys_only:
    if isinstance(v, Mapping):
        new_dict[k] = update_nested_dict(new_dict.get(k, {}), v, …)       -- the callee is inlined here, see `updVal_node`
    elif new_dict.get(k, None) is None or not replace_None_only:
        if not same_keys_only or k in new_dict: new_dict[k] = u[k]
``` -/
def updVal (sko rno : Bool) (cur : Option Tree) : Tree → Option Tree
  | .leaf lv =>
    if cur.isSome || !sko then
      if isNoneOrMissing cur || !rno then
        if !sko || cur.isSome then some (.leaf lv) else none
      else none
    else none
  | .node kv =>
    if cur.isSome || !sko then
      match cur.getD (.node []) with
      | .leaf dv => if dv.isNone || !rno then some (.node kv) else some (.leaf dv)
      | .node kd => some (.node (updLoop sko rno kd kv))
    else none
/-- `for k, v in u.items(): …`, `acc` is `new_dict` -/
def updLoop (sko rno : Bool) (acc : List (Key × Tree)) : List (Key × Tree) → List (Key × Tree)
  | [] => acc
  | (k, v) :: rest =>
    match updVal sko rno (lookup k acc) v with
    | some r => updLoop sko rno (setKey k r acc) rest
    | none => updLoop sko rno acc rest
end

/-- `update_nested_dict(d, u, same_keys_only, replace_None_only)` for a dict `u` with items `ku`:
```
if not isinstance(d, Mapping):
    if d is None or not replace_None_only: d = u.copy()
    return d
new_dict = deepcopy(d)
for k, v in u.items(): …
return new_dict
``` -/
def updDict (sko rno : Bool) (d : Tree) (ku : Dict) : Tree :=
  match d with
  | .leaf dv => if dv.isNone || !rno then .node ku else .leaf dv
  | .node kd => .node (updLoop sko rno kd ku)

/-- `update_nested_dict(d, u, …)` for arbitrary `u`: a non-dict `u` makes `u.copy()` / `u.items()` raise
AttributeError (in the recursive calls `u` is always a dict, so this can only happen at the top) -/
def updateNested (sko rno : Bool) (d u : Tree) : Except Err Tree :=
  match u with
  | .node ku => .ok (updDict sko rno d ku)
  | .leaf _ =>
    match d with
    | .leaf dv => if dv.isNone || !rno then .error .attribute else .ok (.leaf dv)
    | .node _ => .error .attribute

/-! ### paths -/

/-- `t[k1][k2]…[kn]` (`none` if a key is missing or a non-dict is indexed) -/
def getPath : Tree → List Key → Option Tree
  | t, [] => some t
  | .leaf _, _ :: _ => none
  | .node kids, k :: ps =>
    match lookup k kids with
    | none => none
    | some c => getPath c ps

/-- `{k1: {k2: … {kn: v}}}`, the nested-dict notation of one assignment (`[]` ↦ the value itself) -/
def pathTree : List Key → Tree → Tree
  | [], v => v
  | k :: ps, v => .node [(k, pathTree ps v)]

/-- walking `p` in `u` stays inside `u`: it reaches a non-dict value at a prefix of `p` or a value at `p` -/
def covers : Tree → List Key → Bool
  | .leaf _, _ => true
  | .node _, [] => true
  | .node kids, k :: ps =>
    match lookup k kids with
    | none => false
    | some c => covers c ps

/-- does `update_nested_dict(d, u, sko, rno)` write the non-dict value `u` has at path `p`?
(walk `p` in `d`): a non-dict value of `d` on the way is overwritten unless it is non-None and `rno`;
a dict of `d` at `p` is overwritten unless `rno`; a missing key is created unless `sko`. -/
def writable (sko rno : Bool) : Tree → List Key → Bool
  | .leaf dv, _ => dv.isNone || !rno
  | .node _, [] => !rno
  | .node kids, k :: ps =>
    match lookup k kids with
    | none => !sko
    | some c => writable sko rno c ps

/-- attribute assignment `obj.k1.k2.….kn = v` at dictionary level (creating what is missing, replacing a
non-dict value on the way) — the *specification* of a single update -/
def setPath : Tree → List Key → Tree → Tree
  | _, [], v => v
  | .leaf _, k :: ps, v => .node [(k, pathTree ps v)]
  | .node kids, k :: ps, v =>
    match lookup k kids with
    | none => .node (setKey k (pathTree ps v) kids)
    | some c => .node (setKey k (setPath c ps v) kids)

mutual
/-- every dict has pairwise different keys (always true of a Python dict) -/
def Tree.wf : Tree → Bool
  | .leaf _ => true
  | .node kids => wfKids kids
def wfKids : List (Key × Tree) → Bool
  | [] => true
  | (k, v) :: r => (lookup k r).isNone && v.wf && wfKids r
end

/-! ### which dictionaries of the result are the same objects as dictionaries of the arguments

`update_nested_dict` starts with `new_dict = deepcopy(d)` (so nothing of `d` is ever shared or written), but
`d = u.copy()` is a *shallow* copy: the nested dictionaries of `u` below a replaced non-dict value of `d` become
part of the result.  `ATree` is `Tree` with an address on every dict; address `0` stands for "a dict object
created during the call". -/

inductive ATree where
  | leaf (v : Option Val)
  | node (a : Nat) (kids : List (Key × ATree))
  deriving Repr

mutual
/-- forget the addresses -/
def ATree.erase : ATree → Tree
  | .leaf v => .leaf v
  | .node _ kids => .node (eraseKids kids)
def eraseKids : List (Key × ATree) → List (Key × Tree)
  | [] => []
  | (k, v) :: r => (k, v.erase) :: eraseKids r
end

mutual
/-- `deepcopy(t)`: the same value, every dict a new object -/
def ATree.fresh : ATree → ATree
  | .leaf v => .leaf v
  | .node _ kids => .node 0 (freshKids kids)
def freshKids : List (Key × ATree) → List (Key × ATree)
  | [] => []
  | (k, v) :: r => (k, v.fresh) :: freshKids r
end

mutual
/-- addresses of all dicts of a tree (0 excluded) -/
def ATree.addrs : ATree → List Nat
  | .leaf _ => []
  | .node a kids => (if a = 0 then [] else [a]) ++ addrsKids kids
def addrsKids : List (Key × ATree) → List Nat
  | [] => []
  | (_, v) :: r => v.addrs ++ addrsKids r
end

def isNoneOrMissingA : Option ATree → Bool
  | none => true
  | some (.leaf none) => true
  | _ => false

mutual
/-- `updVal` with addresses -/
def updValA (sko rno : Bool) (cur : Option ATree) : ATree → Option ATree
  | .leaf lv =>
    if cur.isSome || !sko then
      if isNoneOrMissingA cur || !rno then
        if !sko || cur.isSome then some (.leaf lv) else none
      else none
    else none
  | .node _ kv =>
    if cur.isSome || !sko then
      match cur.getD (.node 0 []) with
      | .leaf dv => if dv.isNone || !rno then some (.node 0 kv)       -- `u.copy()`: new dict, the values are u's objects
                    else some (.leaf dv)
      | .node _ kd => some (.node 0 (updLoopA sko rno (freshKids kd) kv))   -- `deepcopy(d)`
    else none
def updLoopA (sko rno : Bool) (acc : List (Key × ATree)) : List (Key × ATree) → List (Key × ATree)
  | [] => acc
  | (k, v) :: rest =>
    match updValA sko rno (lookup k acc) v with
    | some r => updLoopA sko rno (setKey k r acc) rest
    | none => updLoopA sko rno acc rest
end

def updDictA (sko rno : Bool) (d : ATree) (ku : List (Key × ATree)) : ATree :=
  match d with
  | .leaf dv => if dv.isNone || !rno then .node 0 ku else .leaf dv
  | .node _ kd => .node 0 (updLoopA sko rno (freshKids kd) ku)

def updateNestedA (sko rno : Bool) (d u : ATree) : Except Err ATree :=
  match u with
  | .node _ ku => .ok (updDictA sko rno d ku)
  | .leaf _ =>
    match d with
    | .leaf dv => if dv.isNone || !rno then .error .attribute else .ok (.leaf dv)
    | .node _ _ => .error .attribute

mutual
/-- give every dict of a tree its preorder number, starting at `n` -/
def Tree.label (n : Nat) : Tree → ATree × Nat
  | .leaf v => (.leaf v, n)
  | .node kids => let r := labelKids (n + 1) kids; (.node n r.1, r.2)
def labelKids (n : Nat) : List (Key × Tree) → List (Key × ATree) × Nat
  | [] => ([], n)
  | (k, v) :: r =>
    let a := v.label n
    let b := labelKids a.2 r
    ((k, a.1) :: b.1, b.2)
end

mutual
/-- addresses of all dicts in preorder, `0` included -/
def ATree.preorder : ATree → List Nat
  | .leaf _ => []
  | .node a kids => a :: preorderKids kids
def preorderKids : List (Key × ATree) → List Nat
  | [] => []
  | (_, v) :: r => v.preorder ++ preorderKids r
end

/-! ### MagicProperties.update at dictionary level

A property class is described by a *schema*: `node` = a class whose properties are the keys (in the order of
`dir()`, i.e. sorted), a `leaf` = a plain property (setter stores the value), a `node` value = a sub-object
property whose setter is `validate_property_class`.  The state of an object is what `as_dict()` returns. -/

mutual
/-- effect of `setattr(obj, k, val)` on `as_dict()[k]`, `schema` describing property `k`:
plain property: the value; sub-object property (`validate_property_class`): a dict ↦ `class_(**val)`, None ↦
`class_()`, anything else ↦ ValueError.  `class_(**kw)` is `MagicProperties.__init__`: all properties None,
`magic_to_dict(kw)`, AttributeError for an unknown name, then `setattr` for every property in order. -/
def assign : Tree → Tree → Except Err Tree
  | .leaf _, val => .ok val
  | .node props, val =>
    match val with
    | .leaf (some _) => .error .value
    | .leaf none =>
      match assignProps props [] with
      | .ok r => .ok (.node r)
      | .error e => .error e
    | .node kw =>
      match magicToDict '_' (.node kw) with
      | .error e => .error e
      | .ok (.leaf _) => .error .assertion          -- not reached
      | .ok (.node g) =>
        if g.all (fun kv => (lookup kv.1 props).isSome) then
          match assignProps props g with
          | .ok r => .ok (.node r)
          | .error e => .error e
        else .error .attribute
/-- `for k, v in input_dict.items(): setattr(self, k, v)` with `input_dict = {k: None for k in props}` updated by `g` -/
def assignProps : List (Key × Tree) → Dict → Except Err Dict
  | [], _ => .ok []
  | (k, s) :: rest, g =>
    match assign s ((lookup k g).getD (.leaf none)) with
    | .error e => .error e
    | .ok r =>
      match assignProps rest g with
      | .ok rs => .ok ((k, r) :: rs)
      | .error e => .error e
end

/-- `for k, v in new_dict.items(): setattr(self, k, v)` on a frozen object: AttributeError for a name that is
not a property; returns the assigned values in the order of `new_dict` -/
def setAll (props : List (Key × Tree)) : Dict → Except Err Dict
  | [] => .ok []
  | (k, v) :: rest =>
    match lookup k props with
    | none => .error .attribute
    | some s =>
      match assign s v with
      | .error e => .error e
      | .ok r =>
        match setAll props rest with
        | .ok rs => .ok ((k, r) :: rs)
        | .error e => .error e

/-- `obj.update(arg, _match_properties, _replace_None_only, **kwargs)`; `cur = obj.as_dict()`; result: the new `as_dict()`
```
arg = {} if arg is None else arg.copy()
arg = magic_to_dict({**arg, **kwargs})
new_dict = update_nested_dict(self.as_dict(), arg, same_keys_only=not _match_properties, replace_None_only=_replace_None_only)
for k, v in new_dict.items(): setattr(self, k, v)
``` -/
def mpUpdate (schema cur : Tree) (arg : Option Tree) (kwargs : Dict) (matchProps rno : Bool) : Except Err Tree :=
  let arg0 : Except Err Dict := match arg with
    | none => .ok []
    | some (.node ka) => .ok ka
    | some (.leaf _) => .error .attribute         -- `arg.copy()` on a non-dict
  match arg0 with
  | .error e => .error e
  | .ok ka =>
    match magicToDict '_' (.node (mergeDict ka kwargs)) with
    | .error e => .error e
    | .ok m =>
      match updateNested (!matchProps) rno cur m with
      | .error e => .error e
      | .ok (.leaf v) => .ok (.leaf v)             -- not reached for an object (`cur` is a dict)
      | .ok (.node nd) =>
        match schema with
        | .leaf _ => .ok (.node nd)                -- not reached: an object's schema is a `node`
        | .node props =>
          match setAll props nd with
          | .error e => .error e
          | .ok vals => .ok (.node (props.map fun ks => (ks.1, (lookup ks.1 vals).getD (.leaf none))))

mutual
/-- structural equality of trees as a Boolean (for evaluating examples) -/
def Tree.beq : Tree → Tree → Bool
  | .leaf a, .leaf b => a == b
  | .node a, .node b => beqKids a b
  | _, _ => false
def beqKids : List (Key × Tree) → List (Key × Tree) → Bool
  | [], [] => true
  | (k, v) :: r, (k', v') :: r' => k == k' && v.beq v' && beqKids r r'
  | _, _ => false
end

/-- `r` is `ok t` with `t` structurally equal to `expected` -/
def okEq (r : Except Err Tree) (expected : Tree) : Bool :=
  match r with
  | .ok t => t.beq expected
  | .error _ => false

/-! ### get_style at dictionary level -/

/-- `get_style(obj, default_settings, **kwargs)` (magpylib/_src/style.py) as far as it acts on nested dictionaries:
```
style = obj.style.copy()
style.update(**style_kwargs_specific, _match_properties=True)                        -- plain update
style.update(**base_style_flat, _match_properties=False, _replace_None_only=True)   -- same keys only, fill None only
```
`kw` are the style keyword arguments of `show()`, `dflt` is `base_style_flat` (the flat defaults of the base style
updated by the non-None flat defaults of the object's families, `Style.familyDefaults`); both in underscore notation. -/
def resolveNested (c : Char) (obj : Tree) (kw dflt : Dict) : Except Err Tree :=
  match magicToDict c (.node kw) with
  | .error e => .error e
  | .ok k =>
    match updateNested false false obj k with
    | .error e => .error e
    | .ok s1 =>
      match magicToDict c (.node dflt) with
      | .error e => .error e
      | .ok d => updateNested true true s1 d

end MagpyVerif.StyleNested
