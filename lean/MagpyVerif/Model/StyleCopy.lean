/-
Model/StyleCopy.lean — COPIES as operations of the style state machine (C20: "styles of different objects and of COPIES
are independent").  Model/StyleState.lean is untouched (`Op`, `step`); this file wraps it:

  * `BaseGeo.copy(**kwargs)` (obj_classes/class_BaseGeo.py)                      ↦ `OpC.copy`, `OpC.copyKw`, `copyObj`
        obj_copy = deepcopy(self)                              -- the style tree of the copy IS the tree value of the original
        if self._style is not None or self._style_kwargs:
            label = self.style.label
            label = f"{type(self).__name__}_01" if label is None else add_iteration_suffix(label)
            obj_copy.style.label = label                       -- THROUGH the property setter of `label`
        … style keywords of copy(): obj_copy.style.update(self._process_style_kwargs(**style_kwargs))
  * `MagicProperties.copy()` = `deepcopy(self)` (defaults/defaults_utility.py)   ↦ `OpC.styleCopy`

The new style object is APPENDED to the world, so the indices of all existing objects are stable.

What the label is (`'Cuboid_01'`, `'abc_02'`, …) is a string computation outside the value panel: the operation carries
the assigned value `lab` as a parameter (the correspondence stream reads it off the real copy; a string outside the
panel is masked on both sides).  Everything else is the code as written: the assignment goes through `setAttr`, i.e. the
setter table of the class's `label` property (and fails like `__setattr__` of a frozen object if the class has no such
property).

Which real situations `copy` covers.  In the state machine every object has its style tree from the start; in the code the
style object is created lazily by the first access of `obj.style`.  (1) The style exists (`_style is not None`): the code
path above, literally.  (2) The style does not exist yet but the object was constructed with style keywords
(`_style_kwargs` non-empty): the deepcopy carries the same keyword dictionary, `self.style` / `obj_copy.style` both build
the style from it — the same tree value, because construction does not read `magpylib.defaults` — and the label is
assigned: the same as (1) on the materialised tree.  (3) Neither: the `if` is skipped, the copy's style is created later
by its first access with label None, as is the original's: this is `copy i none` on the tree of a new object (the label
leaf of a new tree is None and the setter stores None for None).

Mathlib-free and computable (linked into the driver, family `scopy`).
-/
import MagpyVerif.Model.StyleState

namespace MagpyVerif.StyleCopy
open MagpyVerif.StyleNested MagpyVerif.StyleState

/-- the property `label` of `BaseStyle` -/
def labelKey : Key := .str "label".toList

inductive OpC where
  /-- an operation of Model/StyleState -/
  | base (op : Op)
  /-- `new = obj_i.copy()`; `lab` is the label the code computes and assigns -/
  | copy (i : Nat) (lab : Option Val)
  /-- `new = obj_i.copy(style=arg, style_k1=v1, …)`: the copy, then `new.style.update(processed)` where
  `_process_style_kwargs` gives `dict(style)` updated with the keywords stripped of `style_` — what
  `update(arg, **kwargs)` merges itself (`mergeDict`); if the update raises, so does `copy()` and the new object is
  never bound -/
  | copyKw (i : Nat) (lab : Option Val) (arg : Option Tree) (kwargs : Dict)
  /-- `new = X.copy()` for the style object `X` itself (`MagicProperties.copy`, also `magpylib.defaults.copy()`): a
  detached style object of the same class, a pure deepcopy — no label change -/
  | styleCopy (i : Nat)

/-- the existing object an operation writes to (copies create a new object and write to no existing one) -/
def OpC.touches : OpC → Option Nat
  | .base op => some op.target
  | _ => none

/-- the style object `obj_i.copy()` creates: the class of `i`, the tree of `i` with `label` assigned through its setter.
Copying `magpylib.defaults` is not an operation of `BaseGeo` (object 0 is no `BaseGeo`): rejected, as an index out of range -/
def copyObj (T : Tables) (Cs : List ClassInfo) (w : World) (i : Nat) (lab : Option Val) : Except Kind Obj :=
  if i = 0 then .error .other else
  match w[i]? with
  | none => .error .other
  | some o =>
    match Cs[o.cls]? with
    | none => .error .other
    | some c =>
      match setAttr T c.schema.props c.schema.others o.tree labelKey (.leaf lab) with
      | .ok t => .ok { cls := o.cls, tree := t }
      | .error e => .error e

def isOkOut : Out → Bool
  | .ok => true
  | _ => false

def stepC (T : Tables) (Cs : List ClassInfo) (D : Tree) (w : World) : OpC → World × Out
  | .base op => step T Cs D w op
  | .copy i lab =>
    match copyObj T Cs w i lab with
    | .ok o => (w ++ [o], .ok)
    | .error e => (w, .err e)
  | .copyKw i lab arg kwargs =>
    match copyObj T Cs w i lab with
    | .error e => (w, .err e)
    | .ok o =>
      let r := step T Cs D (w ++ [o]) (.update w.length [] arg kwargs true false)
      if isOkOut r.2 then (r.1, .ok) else (w, r.2)
  | .styleCopy i =>
    match w[i]? with
    | some o => (w ++ [o], .ok)
    | none => (w, .err .other)

/-- a history: the final world and the outcome of every operation -/
def runC (T : Tables) (Cs : List ClassInfo) (D : Tree) : World → List OpC → World × List Out
  | w, [] => (w, [])
  | w, op :: ops =>
    let r := stepC T Cs D w op
    let r2 := runC T Cs D r.1 ops
    (r2.1, r.2 :: r2.2)

def execC (T : Tables) (Cs : List ClassInfo) (D : Tree) (w : World) (ops : List OpC) : World := (runC T Cs D w ops).1

/-- attribute access `X_j.<q>` on the style object `j` of a world (what `Op.read` returns) -/
def readW (Cs : List ClassInfo) (w : World) (j : Nat) (q : List Key) : Except Kind Tree :=
  match w[j]? with
  | some o =>
    (match Cs[o.cls]? with
      | some c => readPath c.schema.props o.tree q
      | none => .error .other)
  | none => .error .other

end MagpyVerif.StyleCopy
