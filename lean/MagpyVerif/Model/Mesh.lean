/-
Model/Mesh.lean — combinatorial status checks of TriangularMesh (C16) over face index triples:
`get_open_edges`, `get_disconnected_faces_subsets`, and the edge-propagation sweep of `get_inwards_mask` /
`fix_trimesh_orientation` (the seed's ray test `is_facet_inwards` is a parameter) of field_BH_triangularmesh.py.
-/
namespace MagpyVerif.Mesh

abbrev Face := Nat × Nat × Nat
abbrev Edge := Nat × Nat

def sortPair (a b : Nat) : Edge := if a ≤ b then (a, b) else (b, a)

/-- `np.sort(np.concatenate([faces[:,0:2], faces[:,1:3], faces[:,::2]]), axis=1)` -/
def edgesOf (faces : List Face) : List Edge :=
  faces.map (fun f => sortPair f.1 f.2.1) ++ faces.map (fun f => sortPair f.2.1 f.2.2) ++
    faces.map (fun f => sortPair f.1 f.2.2)

/-- `edges_uniq[edge_counts != 2]` (np.unique order is irrelevant for the emptiness test; the
model keeps first occurrences) -/
def openEdges (faces : List Face) : List Edge :=
  let es := edgesOf faces
  es.eraseDups.filter (fun e => es.count e != 2)

/-- vertices of a face as a list -/
def verts (f : Face) : List Nat := [f.1, f.2.1, f.2.2]

/-- body of `for r in rest:` — `if len(first.intersection(set(r))) > 0: first |= set(r) else: rest2.append(r)`;
`acc = (first, rest2)`; `first` is a Python set, kept here as a duplicate-free list in order of insertion -/
def sweepStep (acc : List Nat × List Face) (r : Face) : List Nat × List Face :=
  if (verts r).any (fun v => acc.1.contains v) then
    (acc.1 ++ ((verts r).filter (fun v => !acc.1.contains v)).eraseDups, acc.2)
  else (acc.1, acc.2 ++ [r])

/-- one pass of the `for r in rest` loop, starting with `rest2 = []` -/
def sweep (first : List Nat) (rest : List Face) : List Nat × List Face :=
  rest.foldl sweepStep (first, [])

/-- inner `while len(first) > lf` loop: absorb every remaining face sharing a vertex with `first`,
until a pass does not enlarge `first`; returns (vertex set, faces not absorbed) -/
def absorb : Nat → List Nat → List Face → List Nat × List Face
  | 0, first, rest => (first, rest)
  | fuel + 1, first, rest =>
    let step := sweep first rest
    if step.1.length > first.length then absorb fuel step.1 step.2 else step

/-- `get_disconnected_faces_subsets`: vertex sets of the connected parts, in order of discovery -/
def subsets : Nat → List Face → List (List Nat)
  | 0, _ => []
  | _, [] => []
  | fuel + 1, f :: rest =>
    let r := absorb (3 * (rest.length + 1) + 1) (verts f).eraseDups rest
    r.1 :: subsets fuel r.2

/-! ### `get_inwards_mask` / `fix_trimesh_orientation` over face index triples -/

/-- `edges = {(tri[0], tri[1]), (tri[1], tri[2]), (tri[2], tri[0])}` : the edges in the direction the face traverses them -/
def dirEdges (f : Face) : List Edge := [(f.1, f.2.1), (f.2.1, f.2.2), (f.2.2, f.1)]

/-- `edges_r = {(tri[1], tri[0]), (tri[2], tri[1]), (tri[0], tri[2])}` -/
def dirEdgesR (f : Face) : List Edge := [(f.2.1, f.1), (f.2.2, f.2.1), (f.1, f.2.2)]

/-- `free_edges ^ edges` (Python sets, kept as lists; only membership and emptiness are ever used) -/
def symmDiff (free es : List Edge) : List Edge :=
  free.filter (fun e => !es.contains e) ++ es.eraseDups.filter (fun e => !free.contains e)

/-- the `for tri_ind in indices:` scan up to its `break`: the first remaining face that has an edge in common with
`free_edges` (any face if `free_edges` is empty); returns (tri_ind, flip, free_edges ^ edges); `none` = the `else:` of the for -/
def scan (tris : List Face) (free : List Edge) : List Nat → Option (Nat × Bool × List Edge)
  | [] => none
  | i :: is =>
    let tri := tris.getD i (0, 0, 0)
    if free.isEmpty then some (i, false, symmDiff free (dirEdges tri))
    else if (dirEdges tri).any (fun e => free.contains e) then some (i, true, symmDiff free (dirEdgesR tri))
    else if (dirEdgesR tri).any (fun e => free.contains e) then some (i, false, symmDiff free (dirEdges tri))
    else scan tris free is

/-- local variables of `get_inwards_mask` -/
structure OrientSt where
  mask : List Bool
  indices : List Nat
  free : List Edge
  anyConnected : Bool

/-- `mask[indices] = v` -/
def setAt (mask : List Bool) (indices : List Nat) (v : Bool) : List Bool :=
  mask.mapIdx (fun k b => if indices.contains k then v else b)

/-- `mask[i] = not mask[i]` -/
def toggleAt (mask : List Bool) (i : Nat) : List Bool :=
  mask.mapIdx (fun k b => if k == i then !b else b)

/-- body of the `while indices:` loop; `seed indices` stands for `is_facet_inwards(msh[indices[0]], msh[indices])` -/
def orientStep (seed : List Nat → Bool) (tris : List Face) (st : OrientSt) : OrientSt :=
  let st1 : OrientSt := if st.anyConnected then st else
    { st with free := [], mask := setAt st.mask st.indices (seed st.indices) }
  match scan tris st1.free st1.indices with
  | some (i, flip, free') =>
    { mask := if flip then toggleAt st1.mask i else st1.mask, indices := st1.indices.erase i, free := free', anyConnected := true }
  | none => { st1 with anyConnected := false }

/-- the `while indices:` loop -/
def orientLoop (seed : List Nat → Bool) (tris : List Face) : Nat → OrientSt → OrientSt
  | 0, st => st
  | fuel + 1, st => if st.indices.isEmpty then st else orientLoop seed tris fuel (orientStep seed tris st)

def orientInit (tris : List Face) : OrientSt :=
  { mask := List.replicate tris.length false, indices := List.range tris.length, free := [], anyConnected := false }

/-- `get_inwards_mask` (True = the face is to be flipped) -/
def inwardsMask (seed : List Nat → Bool) (tris : List Face) : List Bool :=
  (orientLoop seed tris (2 * tris.length + 1) (orientInit tris)).mask

/-- `new_faces[mask][:, [0, 2, 1]]` -/
def flipFace (f : Face) : Face := (f.1, f.2.2, f.2.1)

/-- `fix_trimesh_orientation` -/
def fixOrientation (seed : List Nat → Bool) (tris : List Face) : List Face :=
  List.zipWith (fun f b => if b then flipFace f else f) tris (inwardsMask seed tris)

end MagpyVerif.Mesh
