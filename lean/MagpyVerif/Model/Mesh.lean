/-
Model/Mesh.lean — combinatorial status checks of TriangularMesh (C16) over face index triples:
`get_open_edges` and `get_disconnected_faces_subsets` of field_BH_triangularmesh.py.
-/
namespace MagpyVerif.Mesh

abbrev Face := Nat × Nat × Nat
abbrev Edge := Nat × Nat

def sortPair (a b : Nat) : Edge := if a ≤ b then (a, b) else (b, a)

/-- `np.sort(np.concatenate([faces[:,0:2], faces[:,1:3], faces[:,::2]]), axis=1)` -/
def edgesOf (faces : List Face) : List Edge :=
  faces.map (fun f => sortPair f.1 f.2.1) ++ faces.map (fun f => sortPair f.2.1 f.2.2) ++
    faces.map (fun f => sortPair f.1 f.2.2)

/-- `edges_uniq[edge_counts != 2]` (np.unique order is irrelevant for the emptiness test; the
model keeps first occurrences) -/
def openEdges (faces : List Face) : List Edge :=
  let es := edgesOf faces
  es.eraseDups.filter (fun e => es.count e != 2)

/-- vertices of a face as a list -/
def verts (f : Face) : List Nat := [f.1, f.2.1, f.2.2]

/-- inner `while len(first) > lf` loop: absorb every remaining face sharing a vertex with `first`,
until nothing changes; returns (vertex set, faces not absorbed) -/
def absorb : Nat → List Nat → List Face → List Nat × List Face
  | 0, first, rest => (first, rest)
  | fuel + 1, first, rest =>
    let step := rest.foldl (fun (acc : List Nat × List Face) r =>
      if (verts r).any (fun v => acc.1.contains v) then (acc.1 ++ (verts r).filter (fun v => !acc.1.contains v), acc.2)
      else (acc.1, acc.2 ++ [r])) (first, [])
    if step.1.length > first.length then absorb fuel step.1 step.2 else (step.1, step.2)

/-- `get_disconnected_faces_subsets`: vertex sets of the connected parts, in order of discovery -/
def subsets : Nat → List Face → List (List Nat)
  | 0, _ => []
  | _, [] => []
  | fuel + 1, f :: rest =>
    let r := absorb (3 * (rest.length + 1) + 1) (verts f).eraseDups rest
    r.1 :: subsets fuel r.2

end MagpyVerif.Mesh
