/-
Model/CylinderBatch.lean — the Cylinder kernels of field_BH_cylinder.py on a BATCH of rows, as coded:

  * `magnet_cylinder_axial_Bfield(z0, r, z)`            → `cylAxialBBatch`: four calls of `cel` on whole columns
  * `magnet_cylinder_diametral_Hfield(z0, r, z, phi)`   → `cylDiametralHBatch`: `mask_small_r` rows by the Taylor series, the rows of
        `mask_general` sliced out, scipy's `ellipe` / `ellipk` on them (elementwise ufuncs; through `cel0`, the modelling assumption
        of Model/Cylinder.lean), two calls of `cel` on the columns of the GENERAL rows only, `Hr[mask_general] = …`
  * `BHJM_magnet_cylinder(field, observers, dimension, polarization)` → `bhjmCylinderBatch`: the per-row masks, `BHJM *= 0`,
        `if any(mask_pol_tv): BHJM[mask_pol_tv] = diametral(rows[mask_pol_tv]) * pol_xy`,
        `if any(mask_pol_ax): BHJM[mask_pol_ax] += axial(rows[mask_pol_ax]) * pol_z`, then the per-row epilogue

`cel` is a parameter (`CelFn`): the driver and the theorems instantiate it with `celDispatch fuel` (Model/Celv.lean: fewer than 10
entries → list comprehension over `cel0`, else the masked array routine `celv`).  Which path a row's elliptic integrals take therefore
depends on HOW MANY rows of the call share its sub-batch: the rows of `mask_pol_ax` for the axial kernel, the rows of `mask_pol_tv`
with `r/r0 >= 0.05` for the diametral kernel.

The single-row functions `…With` take the scalar routine that a `cel` call amounts to for one entry as a parameter; with `cel0Arg fuel`
they are the functions of Model/Cylinder.lean (Lemmas/CylinderBatch.lean `bhjmCylinder_eq_with`).

Arrays are lists of per-row records; `a[mask] = vals` / `a[mask] += vals` is `maskedUpdate`.  `np.empty` (the rows of Hr, Hphi, Hz that
the small-r block does not write) is a placeholder that the assignment under `mask_general` overwrites.
-/
import MagpyVerif.Model.Cylinder
import MagpyVerif.Model.Celv

namespace MagpyVerif.Kern

variable {α : Type} [Num α]
open Num

/-- `cel(kcv, pv, cv, sv)` on whole columns (`none`: it raised / did not return) -/
abbrev CelFn (α : Type) := List (CelArg α) → Option (List α)

/-- two array-valued computations evaluated one after the other, columns side by side -/
def zipOpt {A B : Type} (oa : Option (List A)) (ob : Option (List B)) : Option (List (A × B)) :=
  match oa with
  | none => none
  | some a =>
    match ob with
    | none => none
    | some b => some (a.zip b)

/-- `a[mask] = upd(a[mask], vals)` on an array of (row, value): the rows with `m row` take the successive entries of `vals` -/
def maskedUpdate {ρ β γ : Type} (m : ρ → Bool) (upd : ρ → β → γ → β) : List (ρ × β) → List γ → List (ρ × β)
  | [], _ => []
  | e :: t, vs =>
    if m e.1 then
      match vs with
      | v :: vs' => (e.1, upd e.1 e.2 v) :: maskedUpdate m upd t vs'
      | [] => e :: maskedUpdate m upd t []
    else e :: maskedUpdate m upd t vs

/-- one row of the dimensionless position arrays `z0, r, z, phi` -/
structure CylObs (α : Type) where
  z0 : α
  r : α
  z : α
  phi : α

/-! ### `magnet_cylinder_axial_Bfield` -/

/-- the entries this row contributes to the four `cel` calls, in the order of the source:
`cel(k1, one, one, -one)`, `cel(k0, one, one, -one)`, `cel(k1, gamma**2, one, gamma)`, `cel(k0, gamma**2, one, gamma)` -/
def cylAxArgs (o : CylObs α) : CelArg α × CelArg α × CelArg α × CelArg α :=
  let zph := o.z + o.z0
  let zmh := o.z - o.z0
  let dpr := n 1 + o.r
  let dmr := n 1 - o.r
  let k1 := sqrt ((zph * zph + dmr * dmr) / (zph * zph + dpr * dpr))
  let k0 := sqrt ((zmh * zmh + dmr * dmr) / (zmh * zmh + dpr * dpr))
  let gamma := dmr / dpr
  let one : α := n 1
  (⟨k1, one, one, -one⟩, ⟨k0, one, one, -one⟩, ⟨k1, gamma * gamma, one, gamma⟩, ⟨k0, gamma * gamma, one, gamma⟩)

/-- `(Br, Bz)` of one row from its four `cel` values -/
def cylAxOf (o : CylObs α) (a1 a0 b1 b0 : α) : α × α :=
  let zph := o.z + o.z0
  let zmh := o.z - o.z0
  let dpr := n 1 + o.r
  let sq0 := sqrt (zmh * zmh + dpr * dpr)
  let sq1 := sqrt (zph * zph + dpr * dpr)
  let br := (a1 / sq1 - a0 / sq0) / pi
  let bz := n 1 / dpr * (zph * b1 / sq1 - zmh * b0 / sq0) / pi
  (br, bz)

/-- one row, `F` = what a `cel` call computes for one entry -/
def cylAxialBWith (F : CelArg α → Option α) (o : CylObs α) : Option (α × α) :=
  match F (cylAxArgs o).1 with
  | none => none
  | some a1 =>
  match F (cylAxArgs o).2.1 with
  | none => none
  | some a0 =>
  match F (cylAxArgs o).2.2.1 with
  | none => none
  | some b1 =>
  match F (cylAxArgs o).2.2.2 with
  | none => none
  | some b0 => some (cylAxOf o a1 a0 b1 b0)

/-- the batch: four calls of `cel` on the columns of all rows of the call -/
def cylAxialBBatch (cel : CelFn α) (rows : List (CylObs α)) : Option (List (α × α)) :=
  (zipOpt (some rows)
    (zipOpt (cel (rows.map fun o => (cylAxArgs o).1))
      (zipOpt (cel (rows.map fun o => (cylAxArgs o).2.1))
        (zipOpt (cel (rows.map fun o => (cylAxArgs o).2.2.1))
          (cel (rows.map fun o => (cylAxArgs o).2.2.2)))))).map
    fun L => L.map fun t => cylAxOf t.1 t.2.1 t.2.2.1 t.2.2.2.1 t.2.2.2.2

/-! ### `magnet_cylinder_diametral_Hfield` -/

/-- `mask_small_r = r < 0.05` -/
def cylSmallR (o : CylObs α) : Bool := lt o.r (n 5 / n 100)

/-- `argp`, `argm`, `argc` of a general row -/
def cylDiamArgs (o : CylObs α) : α × α × α :=
  let zp := o.z + o.z0
  let zm := o.z - o.z0
  let rm := o.r - n 1
  let rm2 := rm * rm
  let ap2 := zp * zp + rm * rm
  let am2 := zm * zm + rm * rm
  let argp := -(n 4) * o.r / ap2
  let argm := -(n 4) * o.r / am2
  let argc := if eq0 rm then n 10000000000000000 else -(n 4) * o.r / rm2
  (argp, argm, argc)

/-- the entries a general row contributes to `cel(sqrt(1 - argp), 1 - argc, onez, onez)` and `cel(sqrt(1 - argm), 1 - argc, onez, onez)` -/
def cylDiamCelArgs (o : CylObs α) : CelArg α × CelArg α :=
  let a := cylDiamArgs o
  let one : α := n 1
  (⟨sqrt (one - a.1), one - a.2.2, one, one⟩, ⟨sqrt (one - a.2.1), one - a.2.2, one, one⟩)

/-- scipy's `ellipe(argp)`, `ellipe(argm)`, `ellipk(argp)`, `ellipk(argm)` for one row (elementwise ufuncs; through `cel0` as in
Model/Cylinder.lean `cylEll`) -/
def cylEll4 (fuel : Nat) (o : CylObs α) : Option (α × α × α × α) :=
  let a := cylDiamArgs o
  let one : α := n 1
  match cel0 fuel (sqrt (one - a.1)) one one (one - a.1) with
  | none => none
  | some elleP =>
  match cel0 fuel (sqrt (one - a.2.1)) one one (one - a.2.1) with
  | none => none
  | some elleM =>
  match cel0 fuel (sqrt (one - a.1)) one one one with
  | none => none
  | some ellkP =>
  match cel0 fuel (sqrt (one - a.2.1)) one one one with
  | none => none
  | some ellkM => some (elleP, elleM, ellkP, ellkM)

/-- the field expressions of a general row from its six elliptic integrals -/
def cylDiamGenOf (o : CylObs α) (e : α × α × α × α) (piP piM : α) : α × α × α :=
  cylDiametralGeneralOf ⟨e.1, e.2.1, e.2.2.1, e.2.2.2, piP, piM⟩ o.z0 o.r o.z o.phi

/-- one row of `magnet_cylinder_diametral_Hfield`, `F` = what a `cel` call computes for one entry -/
def cylDiametralHWith (F : CelArg α → Option α) (fuel : Nat) (o : CylObs α) : Option (α × α × α) :=
  if cylSmallR o then some (cylDiametralSmallR o.z0 o.r o.z o.phi)
  else
    match cylEll4 fuel o with
    | none => none
    | some e =>
    match F (cylDiamCelArgs o).1 with
    | none => none
    | some piP =>
    match F (cylDiamCelArgs o).2 with
    | none => none
    | some piM => some (cylDiamGenOf o e piP piM)

/-- the batch: small-r rows by the series; the general rows sliced out, `cel` called on THEIR columns, results written back under
`mask_general` -/
def cylDiametralHBatch (cel : CelFn α) (fuel : Nat) (rows : List (CylObs α)) : Option (List (α × α × α)) :=
  -- Hr, Hphi, Hz = np.empty((3, n)); the block under `if np.any(mask_small_r)`
  let h0 : List (CylObs α × (α × α × α)) := rows.map fun o =>
    (o, if cylSmallR o then cylDiametralSmallR o.z0 o.r o.z o.phi else (n 0, n 0, n 0))
  let gen := rows.filter fun o => !cylSmallR o
  -- `if np.any(mask_general)`
  if gen.isEmpty then some (h0.map fun e => e.2)
  else
    (zipOpt (zipOpt (some gen) (seqOpt (gen.map (cylEll4 fuel))))
      (zipOpt (cel (gen.map fun o => (cylDiamCelArgs o).1)) (cel (gen.map fun o => (cylDiamCelArgs o).2)))).map
      fun L =>
        (maskedUpdate (fun o => !cylSmallR o) (fun _ _ v => v) h0
          (L.map fun t => cylDiamGenOf t.1.1 t.1.2 t.2.1 t.2.2)).map fun e => e.2

/-! ### `BHJM_magnet_cylinder` -/

/-- one row of the input arrays `dimension = (d, h)`, `polarization`, `observers` -/
structure CylRow (α : Type) where
  d : α
  h : α
  pol : V3 α
  x : V3 α

/-- `cart_to_cyl_coordinates`, `r0, z0 = dimension.T / 2`, the three divisions by `r0` -/
def cylRowObs (row : CylRow α) : CylObs α :=
  let r := sqrt (row.x.x * row.x.x + row.x.y * row.x.y)
  let phi := atan2 row.x.y row.x.x
  let r0 := row.d / n 2
  let z0 := row.h / n 2
  ⟨z0 / r0, r / r0, row.x.z / r0, phi⟩

def cylRowMasks (row : CylRow α) : CylMasks :=
  let o := cylRowObs row
  cylMasks o.z0 o.r o.z

/-- `mask_gen = mask_pol_not_null & mask_not_on_edge` -/
def cylMaskGen (row : CylRow α) : Bool :=
  !(eq0 row.pol.x && eq0 row.pol.y && eq0 row.pol.z) && !(cylRowMasks row).onEdge

/-- `mask_pol_tv` (after `& mask_gen`) -/
def cylMaskTv (row : CylRow α) : Bool := (!(eq0 row.pol.x) || !(eq0 row.pol.y)) && cylMaskGen row

/-- `mask_pol_ax` (after `& mask_gen`) -/
def cylMaskAx (row : CylRow α) : Bool := !(eq0 row.pol.z) && cylMaskGen row

/-- J of one row (`BHJM[~mask_inside] = 0`) -/
def cylJ (row : CylRow α) : V3 α := if (cylRowMasks row).inside then row.pol else zero3

/-- `BHJM *= 0` -/
def cylB0 (row : CylRow α) : V3 α := ⟨row.pol.x * n 0, row.pol.y * n 0, row.pol.z * n 0⟩

/-- the row as `magnet_cylinder_diametral_Hfield` receives it: `phi = phi[mask_pol_tv] - tetta` -/
def cylTvObs (row : CylRow α) : CylObs α :=
  let o := cylRowObs row
  ⟨o.z0, o.r, o.z, o.phi - atan2 row.pol.y row.pol.x⟩

/-- `BHJM[mask_pol_tv] = (H * pol_xy).T` (assignment) -/
def cylTvUpd (row : CylRow α) (_ : V3 α) (h : α × α × α) : V3 α :=
  let polxy := sqrt (row.pol.x * row.pol.x + row.pol.y * row.pol.y)
  ⟨h.1 * polxy, h.2.1 * polxy, h.2.2 * polxy⟩

/-- `BHJM[mask_pol_ax] += (B * pol_z).T`, the Bphi row of the axial kernel being `np.zeros(n)` -/
def cylAxUpd (row : CylRow α) (b1 : V3 α) (b : α × α) : V3 α :=
  ⟨b1.x + b.1 * row.pol.z, b1.y + n 0 * row.pol.z, b1.z + b.2 * row.pol.z⟩

/-- `cyl_field_to_cart` and the statements under `if field == "B"` / `if field == "H"` for one row -/
def cylPost (f : Field) (row : CylRow α) (b2 : V3 α) : V3 α :=
  let phi := (cylRowObs row).phi
  let m := cylRowMasks row
  let notOnEdge := !m.onEdge
  let edgeInside := m.inside && !notOnEdge
  let insideGen := m.inside && cylMaskGen row
  let b3 : V3 α := ⟨b2.x * cos phi - b2.y * sin phi, b2.x * sin phi + b2.y * cos phi, b2.z⟩
  match f with
  | .B => if cylMaskTv row && insideGen then ⟨b3.x + row.pol.x, b3.y + row.pol.y, b3.z⟩ else b3
  | _ =>
    let b4 : V3 α := if cylMaskAx row && insideGen then ⟨b3.x, b3.y, b3.z - row.pol.z⟩ else b3
    let b5 : V3 α := if edgeInside then -row.pol else b4
    vd b5 mu0

/-- one row of `BHJM_magnet_cylinder`; `Ftv`, `Fax` = what a `cel` call of the diametral / of the axial kernel computes for one
entry -/
def bhjmCylinderRowWith (Ftv Fax : CelArg α → Option α) (fuel : Nat) (f : Field) (row : CylRow α) : Option (V3 α) :=
  match f with
  | .J => some (cylJ row)
  | .M => some (vd (cylJ row) mu0)
  | _ =>
    match (if cylMaskTv row then (cylDiametralHWith Ftv fuel (cylTvObs row)).map (cylTvUpd row (cylB0 row))
           else some (cylB0 row)) with
    | none => none
    | some b1 =>
      match (if cylMaskAx row then (cylAxialBWith Fax (cylRowObs row)).map (cylAxUpd row b1) else some b1) with
      | none => none
      | some b2 => some (cylPost f row b2)

/-- `BHJM_magnet_cylinder` on `n` rows -/
def bhjmCylinderBatch (cel : CelFn α) (fuel : Nat) (f : Field) (rows : List (CylRow α)) : Option (List (V3 α)) :=
  match f with
  | .J => some (rows.map cylJ)
  | .M => some (rows.map fun row => vd (cylJ row) mu0)
  | _ =>
    let st0 := rows.map fun row => (row, cylB0 row)
    -- transversal polarization contributions
    let st1? : Option (List (CylRow α × V3 α)) :=
      if rows.any cylMaskTv then
        (cylDiametralHBatch cel fuel ((rows.filter cylMaskTv).map cylTvObs)).map (maskedUpdate cylMaskTv cylTvUpd st0)
      else some st0
    st1?.bind fun st1 =>
      -- axial polarization contributions
      let st2? : Option (List (CylRow α × V3 α)) :=
        if rows.any cylMaskAx then
          (cylAxialBBatch cel ((rows.filter cylMaskAx).map cylRowObs)).map (maskedUpdate cylMaskAx cylAxUpd st1)
        else some st1
      -- `cyl_field_to_cart`, the statements under `if field == "B"` / `if field == "H"`
      st2?.map fun st2 => st2.map fun e => cylPost f e.1 e.2

/-- the single-entry routine a call `cel` of `n` entries amounts to: `cel0` below the threshold, one entry of `celv` from 10 on -/
def celPath (fuel : Nat) (n : Nat) : CelArg α → Option α :=
  if n < 10 then cel0Arg fuel else celv1 fuel

/-- number of rows in the `cel` calls of the diametral kernel: rows of `mask_pol_tv` that are not small-r -/
def cylTvGenCount (rows : List (CylRow α)) : Nat :=
  (((rows.filter cylMaskTv).map cylTvObs).filter fun o => !cylSmallR o).length

/-- number of rows in the `cel` calls of the axial kernel: rows of `mask_pol_ax` -/
def cylAxCount (rows : List (CylRow α)) : Nat := (rows.filter cylMaskAx).length

end MagpyVerif.Kern
