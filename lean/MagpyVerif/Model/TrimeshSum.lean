/-
Model/TrimeshSum.lean — `BHJM_magnet_trimesh` (field_BH_triangularmesh.py) for a batch of rows, as the code runs it:

  * fields B / H: ONE flat call of the triangle kernel — every row's observer and polarization repeated once per face
    (`np.repeat`), all faces concatenated — then the result is cut back into rows: `reshape((n0, n1, 3)).sum(axis=1)` when
    all rows have the same number of faces (`mesh.ndim != 1`), otherwise `np.split` at the cumulative face counts and a sum
    per piece;  H returns that sum divided by μ₀;
  * fields J / M start from zero;
  * then (B, J, M) the row-grouping loop of Model/TrimeshBatch.lean adds the polarization to rows whose observer is inside.
The inside test (`mask_inside_trimesh`, ray casting) is a parameter.  Mathlib-free, computable.
-/
import MagpyVerif.Model.Polyline
import MagpyVerif.Model.TrimeshBatch

namespace MagpyVerif.Kern
variable {α : Type} [Num α]
open Num

abbrev Tri (α : Type) := V3 α × V3 α × V3 α

/-- one row of the batch: its mesh (list of triangles), observer, polarization -/
structure MeshRow (α : Type) where
  faces : List (Tri α)
  obs : V3 α
  pol : V3 α

/-- the flat kernel call: `BHJM_triangle("B", observers_tiled, vertices_tiled, polarization_tiled)` -/
def meshFlat (rows : List (MeshRow α)) : List (V3 α) :=
  let tris := rows.flatMap fun r => r.faces
  let obs := rows.flatMap fun r => List.replicate r.faces.length r.obs
  let pols := rows.flatMap fun r => List.replicate r.faces.length r.pol
  (tris.zip (obs.zip pols)).map fun (t, o, p) => triangleB t.1 t.2.1 t.2.2 p o

/-- all rows have `n1` faces: `BHJM.reshape((n0, n1, 3)); np.sum(BHJM, axis=1)` -/
def meshSumEqual (n1 : Nat) (rows : List (MeshRow α)) : List (V3 α) :=
  (splitLens (List.replicate rows.length n1) (meshFlat rows)).map sum3

/-- different face counts: `np.split(BHJM, np.cumsum(nvs)[:-1])`, sum of each piece -/
def meshSumRagged (rows : List (MeshRow α)) : List (V3 α) :=
  (splitLens (rows.map fun r => r.faces.length) (meshFlat rows)).map sum3

/-- the sum of the triangle sheets per row, by whichever branch the code takes -/
def meshSheets (rows : List (MeshRow α)) : List (V3 α) :=
  match rows with
  | [] => []
  | r0 :: _ =>
    if rows.all (fun r => r.faces.length == r0.faces.length) then meshSumEqual r0.faces.length rows
    else meshSumRagged rows

/-- what one row gets on its own: the sum of its triangle sheets -/
def meshRowSheets (r : MeshRow α) : V3 α :=
  sum3 (r.faces.map fun t => triangleB t.1 t.2.1 t.2.2 r.pol r.obs)

/-- `BHJM_magnet_trimesh(field, …, in_out="auto")` for a batch; `M` identifies meshes for the grouping loop
(`mesh[new] == mesh[prev]`), `inside` is `mask_inside_trimesh` for one observer -/
def bhjmTrimesh {M : Type} [DecidableEq M] (f : Field) (meshId : MeshRow α → M) (inside : M → V3 α → Bool)
    (rows : List (MeshRow α)) : List (V3 α) :=
  let grouped (core : List (V3 α)) : List (V3 α) := Trimesh.addInside inside
    ((rows.zip core).map fun (r, c) => ({ mesh := meshId r, obs := r.obs, pol := r.pol, core := c } : Trimesh.Row M (V3 α) (V3 α)))
  match f with
  | .H => (meshSheets rows).map fun v => vd v mu0
  | .B => grouped (meshSheets rows)
  | .J => grouped (rows.map fun _ => zero3)
  | .M => (grouped (rows.map fun _ => zero3)).map fun v => vd v mu0

end MagpyVerif.Kern
