/-
Model/Basic.lean — list-level counterparts of the numpy operations the modelled code uses.
Mathlib-free, computable.  Every function here mirrors one numpy idiom of /repo:

  edgePad b e xs        np.pad(xs, ((b, e), (0, 0)), "edge")
  padSlice n xs         class_BaseGeo.pad_slice_path(path1 (length n), xs)
  mapSlice f s e xs     xs[s:e] = f(k, xs[s+k])   (in-place slice update, k = offset in the slice)
-/
namespace MagpyVerif

/-- `np.pad(xs, ((b,e),(0,0)), "edge")`.  numpy raises on an empty array; the model returns `[]`
there (unreachable under the path invariant `length ≥ 1`, see Props/C09). -/
def edgePad {α : Type} (b e : Nat) : List α → List α
  | [] => []
  | x :: xs => List.replicate b x ++ (x :: xs) ++ List.replicate e ((x :: xs).getLast (by simp))

/-- `pad_slice_path(path1, path2)` with `n = len(path1)`: edge-pad at the end or slice from the end. -/
def padSlice {α : Type} (n : Nat) (xs : List α) : List α :=
  if xs.length < n then edgePad 0 (n - xs.length) xs
  else if n < xs.length then xs.drop (xs.length - n)
  else xs

/-- in-place update of the slice `[s, e)`; `f k x` is the new value of the entry at offset `k`
in the slice whose old value is `x`. -/
def mapSlice {α : Type} (f : Nat → α → α) (s e : Nat) (xs : List α) : List α :=
  xs.mapIdx (fun i x => if s ≤ i ∧ i < e then f (i - s) x else x)

/-- scalar-or-vector input of move/rotate (`inpath.ndim == 1` ⇒ scalar). -/
inductive PathIn (α : Type) where
  | scalar (x : α)
  | vector (xs : List α)
  deriving Repr, BEq, DecidableEq

namespace PathIn
variable {α : Type}
def isScalar : PathIn α → Bool
  | scalar _ => true
  | vector _ => false
/-- `lenip = 1 if scalar_input else len(inpath)` -/
def lenip : PathIn α → Nat
  | scalar _ => 1
  | vector xs => xs.length
/-- numpy broadcasting of the right-hand side over the slice: entry used at slice offset `k`. -/
def get? : PathIn α → Nat → Option α
  | scalar x, _ => some x
  | vector xs, k => xs[k]?
/-- `0 if ndim == 1 else shape[0]` (multi_anchor_behavior) -/
def len0 : PathIn α → Nat
  | scalar _ => 0
  | vector xs => xs.length
def toList : PathIn α → List α
  | scalar x => [x]
  | vector xs => xs
def map {β : Type} (f : α → β) : PathIn α → PathIn β
  | scalar x => scalar (f x)
  | vector xs => vector (xs.map f)
end PathIn

/-- 3-vectors over any scalar type -/
structure V3 (α : Type) where
  x : α
  y : α
  z : α
  deriving Repr, BEq, DecidableEq

namespace V3
variable {α : Type}
instance [Add α] : Add (V3 α) := ⟨fun a b => ⟨a.x + b.x, a.y + b.y, a.z + b.z⟩⟩
instance [Sub α] : Sub (V3 α) := ⟨fun a b => ⟨a.x - b.x, a.y - b.y, a.z - b.z⟩⟩
instance [Neg α] : Neg (V3 α) := ⟨fun a => ⟨-a.x, -a.y, -a.z⟩⟩
instance [OfNat α 0] : Zero (V3 α) := ⟨⟨0, 0, 0⟩⟩
def smul [Mul α] (c : α) (a : V3 α) : V3 α := ⟨c * a.x, c * a.y, c * a.z⟩
def dot [Mul α] [Add α] (a b : V3 α) : α := a.x * b.x + a.y * b.y + a.z * b.z
def cross [Mul α] [Sub α] (a b : V3 α) : V3 α :=
  ⟨a.y * b.z - a.z * b.y, a.z * b.x - a.x * b.z, a.x * b.y - a.y * b.x⟩
def map {β : Type} (f : α → β) (a : V3 α) : V3 β := ⟨f a.x, f a.y, f a.z⟩
/-- the reading of a left-handed sensor: `B[..., pix_slice, 0] *= -1` of getBH_level2 (every driver uses this definition) -/
def flipX [Neg α] (a : V3 α) : V3 α := ⟨-a.x, a.y, a.z⟩
/-- `v[axis] *= c` as numpy runs it on the last axis of length 3 (an axis beyond 2 does not exist there) -/
def scaleComp [Mul α] (axis : Nat) (c : α) (a : V3 α) : V3 α :=
  match axis with
  | 0 => ⟨a.x * c, a.y, a.z⟩
  | 1 => ⟨a.x, a.y * c, a.z⟩
  | 2 => ⟨a.x, a.y, a.z * c⟩
  | _ => a
end V3

/-- 3×3 matrices (rows) -/
structure M3 (α : Type) where
  r1 : V3 α
  r2 : V3 α
  r3 : V3 α
  deriving Repr, BEq, DecidableEq

namespace M3
variable {α : Type}
def apply [Mul α] [Add α] (m : M3 α) (v : V3 α) : V3 α := ⟨m.r1.dot v, m.r2.dot v, m.r3.dot v⟩
def transpose (m : M3 α) : M3 α :=
  ⟨⟨m.r1.x, m.r2.x, m.r3.x⟩, ⟨m.r1.y, m.r2.y, m.r3.y⟩, ⟨m.r1.z, m.r2.z, m.r3.z⟩⟩
def mul [Mul α] [Add α] (a b : M3 α) : M3 α :=
  let bt := b.transpose
  ⟨⟨a.r1.dot bt.r1, a.r1.dot bt.r2, a.r1.dot bt.r3⟩,
   ⟨a.r2.dot bt.r1, a.r2.dot bt.r2, a.r2.dot bt.r3⟩,
   ⟨a.r3.dot bt.r1, a.r3.dot bt.r2, a.r3.dot bt.r3⟩⟩
def one [OfNat α 0] [OfNat α 1] : M3 α := ⟨⟨1, 0, 0⟩, ⟨0, 1, 0⟩, ⟨0, 0, 1⟩⟩
instance [Mul α] [Add α] : Mul (M3 α) := ⟨mul⟩
instance [OfNat α 0] [OfNat α 1] : One (M3 α) := ⟨one⟩
/-- inverse of an orthogonal matrix (the executable carrier only ever holds rotations) -/
instance : Inv (M3 α) := ⟨transpose⟩
instance [Mul α] [Add α] : SMul (M3 α) (V3 α) := ⟨apply⟩
end M3

end MagpyVerif
