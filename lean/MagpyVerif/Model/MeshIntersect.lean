/-
Model/MeshIntersect.lean — the self-intersection test of TriangularMesh (field_BH_triangularmesh.py), expression by
expression as numpy / scipy evaluate it (the code AFTER the repair of the edge/corner crossings, the query radius and the
absolute tolerance):

  segments_intersect_facets(segments, facets, eps=1e-6)                      → `segFacet` (one pair), `segmentsIntersectFacets`
  get_intersecting_triangles(vertices, triangles, r=None, r_factor=2.0, eps=1e-6) → `normaliseVerts`, `intersectingFacets`,
                                                                                  `getIntersectingTriangles`
  TriangularMesh.check_selfintersecting: `len(get_selfintersecting_faces()) > 1`  → `selfIntersecting`

Arithmetic.  `get_intersecting_triangles` first expresses all lengths in units of the mesh size, measured from the lower
corner of the bounding box — `size = np.max(np.ptp(vertices, axis=0))`, `if size > 0: vertices = (vertices -
np.min(vertices, axis=0)) / size` and `r = r / size` when a radius is given — in float64 (`normaliseVerts`, no rounding
function), so `eps` is a fraction of the mesh size.  Then comes `vertices = vertices.astype(np.float32)`; from there on every array is
float32 and numpy evaluates every elementwise operation (and the three-term reductions `np.sum(…, axis=1)`, `.sum(-1)`,
`np.mean(…, axis=1)`, `np.cross`, `np.linalg.norm`) in float32, one rounding per operation.  The model therefore takes a
rounding function `rd : α → α` and applies it after every single operation: with `α = Float` and
`rd x = x.toFloat32.toFloat` this is float32 arithmetic bit for bit (for + − × ÷ √ rounding the correctly rounded double result
of float32 operands to float32 gives the correctly rounded float32 result: 53 ≥ 2·24 + 2); with `rd = id` it is the function as
it behaves on float64 input (`segments_intersect_facets` itself is dtype-agnostic) and, at `α = ℝ`, the exact-arithmetic
reading the theorems are about.  A Python-float `eps` meets a float32 array in `np.abs(g1) > eps`: numpy (NEP 50, 2.x)
converts the weak scalar to the array's dtype, hence `rd eps`; likewise `r_factor * <np.float32 scalar>` is a float32 product.

The k-d tree.  `scipy.spatial.KDTree(centers)` converts to float64 (exactly), `query_ball_point(centers, r)` converts `r` to
float64 and returns for each centre `c_j` every index `i` with  Σ_k (c_i[k] − c_j[k])²  ≤  r·r  (cKDTree, p = 2: squared
distances against `upper_bound = r*r`, comparison `<=`, unrounded float64 arithmetic, terms added in index order) — including
`i = j`, which the code removes afterwards with `pairs[:, 0] != pairs[:, 1]`.  That set is what the model computes
(`withinBall`, no `rd`); the tree's bounding-box pruning is an optimisation that cannot change it except within rounding of
the threshold.  `np.unique(pairs[sums > 0])` is the ascending list of all indices that occur in a flagged pair.

`np.sign` is the four-valued code `sgn` of Model/TrimeshInside.lean (`nan != x` is True, `nan == x` is False);
`np.sign(x) >= 0` is `x >= 0` and `np.sign(x) <= 0` is `x <= 0` (both False for NaN, both True for ±0).  `s == t` on float
arrays is IEEE equality (`a <= b and b <= a`: NaN differs from itself, −0 equals +0).  A zero-area
facet gives `normals = nan` (0/0), `g = nan`, `np.abs(nan) > eps` False: no crossing — same in the model under `Float`.
`eps <= 0` raises ValueError (`none`).  An empty triangle list makes `np.concatenate` raise; the model returns `[]`
(TriangularMesh never passes one).  Triangle indices out of range raise IndexError in numpy; the model reads the zero vector
there (TriangularMesh validates them).  Mathlib-free, computable.
-/
import MagpyVerif.Model.TrimeshInside

namespace MagpyVerif.Kern
variable {α : Type} [Num α]
open Num

section
variable (rd : α → α)

/-- `a - b` on float arrays, one rounding per component -/
def rsub (a b : V3 α) : V3 α := ⟨rd (a.x - b.x), rd (a.y - b.y), rd (a.z - b.z)⟩

/-- `np.cross(a, b)`: `multiply(a1, b2, out=cp0); cp0 -= a2 * b1` and cyclic -/
def rcross (a b : V3 α) : V3 α :=
  ⟨rd (rd (a.y * b.z) - rd (a.z * b.y)), rd (rd (a.z * b.x) - rd (a.x * b.z)), rd (rd (a.x * b.y) - rd (a.y * b.x))⟩

/-- `np.sum(a * b, axis=1)`: three rounded products added in index order -/
def rdot (a b : V3 α) : α := rd (rd (rd (a.x * b.x) + rd (a.y * b.y)) + rd (a.z * b.z))

/-- `np.linalg.norm(a, axis=1)` = `sqrt(add.reduce((a.conj() * a).real, axis=1))` -/
def rnorm (a : V3 α) : α := rd (sqrt (rdot rd a a))

/-- componentwise `a / c` -/
def rdivs (a : V3 α) (c : α) : V3 α := ⟨rd (a.x / c), rd (a.y / c), rd (a.z / c)⟩

/-- `normals = np.cross(t[2] - t[0], t[2] - t[1]); normals /= np.linalg.norm(normals, axis=1, keepdims=True)` -/
def facetNormal (t : Tri α) : V3 α :=
  let nr := rcross rd (rsub rd t.2.2 t.1) (rsub rd t.2.2 t.2.1)
  rdivs rd nr (rnorm rd nr)

/-- `g = np.sum(normals * (p - t[2]), axis=1)`: signed distance of `p` from the facet's plane -/
def planeDist (t : Tri α) (p : V3 α) : α := rdot rd (facetNormal rd t) (rsub rd p t.2.2)

/-- `sv = np.sum((ti - s[1]) * np.cross(tj - s[1], s[0] - s[1]), axis=1)` -/
def signedVol (s0 s1 ti tj : V3 α) : α := rdot rd (rsub rd ti s1) (rcross rd (rsub rd tj s1) (rsub rd s0 s1))

/-- `cross = (np.sign(g1) != np.sign(g2)) * (np.abs(g1) > eps) * (np.abs(g2) > eps)` -/
def planeCrossed (eps : α) (s0 s1 : V3 α) (t : Tri α) : Bool :=
  let g1 := planeDist rd t s0
  let g2 := planeDist rd t s1
  signNe g1 g2 && lt (rd eps) (abs g1) && lt (rd eps) (abs g2)

/-- `v = np.array(v); same_volume = np.all(v >= 0, axis=0) | np.all(v <= 0, axis=0)` with `v[k] = np.sign(sv_k)` for
(i, j) = (0,1), (1,2), (2,0): a zero volume (the carrier line meets an edge or a corner of `t`) fits both signs -/
def sameVolume (s0 s1 : V3 α) (t : Tri α) : Bool :=
  let v0 := signedVol rd s0 s1 t.1 t.2.1
  let v1 := signedVol rd s0 s1 t.2.1 t.2.2
  let v2 := signedVol rd s0 s1 t.2.2 t.1
  (le (n 0) v0 && le (n 0) v1 && le (n 0) v2) || (le v0 (n 0) && le v1 (n 0) && le v2 (n 0))

end

/-- `a == b` on floats -/
def feq (a b : α) : Bool := le a b && le b a
/-- `np.all(p == q, axis=-1)` for two points -/
def veq (p q : V3 α) : Bool := feq p.x q.x && feq p.y q.y && feq p.z q.z

/-- `touch = np.any(np.all(s[:, None] == t[None, :], axis=-1), axis=(0, 1))`: an end point of the segment IS a corner of the
facet (same coordinates) — how the edges of a mesh facet meet its neighbours -/
def touchesCorner (s0 s1 : V3 α) (t : Tri α) : Bool :=
  veq s0 t.1 || veq s0 t.2.1 || veq s0 t.2.2 || veq s1 t.1 || veq s1 t.2.1 || veq s1 t.2.2

section
variable (rd : α → α)

/-- one entry of `segments_intersect_facets(segments, facets, eps)` (for `eps > 0`), `cross * same_volume * ~touch`:
segment `s0 → s1` against facet `t` -/
def segFacet (eps : α) (s0 s1 : V3 α) (t : Tri α) : Bool :=
  planeCrossed rd eps s0 s1 t && sameVolume rd s0 s1 t && !touchesCorner s0 s1 t

/-- `segments_intersect_facets`: `if eps <= 0: raise ValueError` (→ `none`), else pairwise -/
def segmentsIntersectFacets (eps : α) (segs : List (V3 α × V3 α)) (facets : List (Tri α)) : Option (List Bool) :=
  if le eps (n 0) then none
  else some ((segs.zip facets).map fun (s, t) => segFacet rd eps s.1 s.2 t)

/-- `sums` of one pair: `for inds in [[0, 1], [1, 2], [2, 0]]: sums += segments_intersect_facets(f1[:, inds], f2, eps=eps)`,
then `sums > 0`: some edge of `f1` (taken as 0→1, 1→2, 2→0) is reported to intersect `f2` -/
def edgesHit (eps : α) (f1 f2 : Tri α) : Bool :=
  let c (b : Bool) : Nat := if b then 1 else 0
  0 < c (segFacet rd eps f1.1 f1.2.1 f2) + c (segFacet rd eps f1.2.1 f1.2.2 f2) + c (segFacet rd eps f1.2.2 f1.1 f2)

/-- `np.mean(facets, axis=1)` for one facet: `((t0 + t1) + t2) / 3` -/
def facetCentre (t : Tri α) : V3 α :=
  ⟨rd (rd (rd (t.1.x + t.2.1.x) + t.2.2.x) / n 3), rd (rd (rd (t.1.y + t.2.1.y) + t.2.2.y) / n 3),
   rd (rd (rd (t.1.z + t.2.1.z) + t.2.2.z) / n 3)⟩

/-- `np.sqrt(((p - c) ** 2).sum(-1))` -/
def cornerDist (c p : V3 α) : α :=
  let d := rsub rd p c
  rd (sqrt (rdot rd d d))

/-- `np.sqrt(((facets - centers[:, None, :]) ** 2).sum(-1)).max()`: largest corner–centroid distance of the mesh
(`np.max` propagates NaN: a fold of `np.maximum`; started at 0 — all entries are ≥ 0 or NaN) -/
def maxCornerDist (facets : List (Tri α)) : α :=
  (facets.flatMap fun t => let c := facetCentre rd t; [cornerDist rd c t.1, cornerDist rd c t.2.1, cornerDist rd c t.2.2]).foldl npMax (n 0)

end

/-- what `KDTree(centers).query_ball_point(c, r)` tests for a tree point `p`: Σ (p_k − c_k)² ≤ r·r, float64, no float32 rounding -/
def withinBall (r : α) (c p : V3 α) : Bool :=
  let dx := p.x - c.x
  let dy := p.y - c.y
  let dz := p.z - c.z
  le (dx * dx + dy * dy + dz * dz) (r * r)

/-- `near = kdtree.query_ball_point(centers, r)`; `tria1 = np.concatenate(near)`; `tria2 = np.repeat(arange, lens)`;
`pairs = np.stack([tria1, tria2], axis=1)`: all (i, j) with centre i in the ball around centre j (the tree returns the
indices of one ball in no particular order; the result below does not depend on it) -/
def ballPairs (n : Nat) (within : Nat → Nat → Bool) : List (Nat × Nat) :=
  (List.range n).flatMap fun j => ((List.range n).filter fun i => within j i).map fun i => (i, j)

/-- the index bookkeeping of `get_intersecting_triangles` over abstract tests:
`pairs = pairs[pairs[:, 0] != pairs[:, 1]]`, `hits = pairs[sums > 0]`, `np.unique(hits)` -/
def intersectingCore (n : Nat) (within hit : Nat → Nat → Bool) : List Nat :=
  let pairs := (ballPairs n within).filter fun p => p.1 != p.2
  let hits := pairs.filter fun p => hit p.1 p.2
  (List.range n).filter fun k => hits.any fun p => p.1 == k || p.2 == k

def zeroTri : Tri α := (zero3, zero3, zero3)

/-- `get_intersecting_triangles` from `facets = vertices[triangles]` (already float32) on: centroids, query radius
(`r_factor * max corner distance` unless `r` is given), ball pairs, edges of the first facet of a pair against the second -/
def intersectingFacets (rd : α → α) (r : Option α) (rFactor eps : α) (facets : List (Tri α)) : List Nat :=
  let centers := facets.map (facetCentre rd)
  let rr := match r with
    | some r => r
    | none => rd (rd rFactor * maxCornerDist rd facets)
  intersectingCore facets.length (fun j i => withinBall rr (centers.getD j zero3) (centers.getD i zero3))
    (fun i j => edgesHit rd eps (facets.getD i zeroTri) (facets.getD j zeroTri))

/-- `vertices[triangles]` -/
def gatherFacets (verts : List (V3 α)) (tris : List (Nat × Nat × Nat)) : List (Tri α) :=
  tris.map fun t => (verts.getD t.1 zero3, verts.getD t.2.1 zero3, verts.getD t.2.2 zero3)

/-- `get_intersecting_triangles` from the float32 cast on (`vertices.astype(np.float32)` is `rd` on every coordinate): what the
function was before lengths were expressed in units of the mesh size, and what it still computes on the normalised input -/
def getIntersectingTrianglesCore (rd : α → α) (r : Option α) (rFactor eps : α) (verts : List (V3 α))
    (tris : List (Nat × Nat × Nat)) : List Nat :=
  intersectingFacets rd r rFactor eps (gatherFacets (verts.map (V3.map rd)) tris)

/-- `size = np.max(np.ptp(vertices, axis=0)); if size > 0: vertices = (vertices - np.min(vertices, axis=0)) / size` and
`if r is not None: r = r / size` (float64; `size > 0` is False for NaN) -/
def normaliseVerts (r : Option α) (verts : List (V3 α)) : Option α × List (V3 α) :=
  let size := vertsSize verts
  if lt (n 0) size then
    let lo := vertsMin verts
    (r.map (· / size), verts.map fun v => vd (v - lo) size)
  else (r, verts)

/-- `get_intersecting_triangles(vertices, triangles, r, r_factor, eps)` (`r_factor ≥ 1`, `eps > 0`) -/
def getIntersectingTriangles (rd : α → α) (r : Option α) (rFactor eps : α) (verts : List (V3 α))
    (tris : List (Nat × Nat × Nat)) : List Nat :=
  let nv := normaliseVerts r verts
  getIntersectingTrianglesCore rd nv.1 rFactor eps nv.2 tris

/-- the defaults of `get_intersecting_triangles` as `TriangularMesh.get_selfintersecting_faces` calls it:
`r=None, r_factor=2.0, eps=1e-6` -/
def selfIntersectingFaces (rd : α → α) (verts : List (V3 α)) (tris : List (Nat × Nat × Nat)) : List Nat :=
  getIntersectingTriangles rd none (n 2) (n 1 / n 1000000) verts tris

/-- `TriangularMesh.check_selfintersecting`: `len(self.get_selfintersecting_faces()) > 1` -/
def selfIntersecting (rd : α → α) (verts : List (V3 α)) (tris : List (Nat × Nat × Nat)) : Bool :=
  1 < (selfIntersectingFaces rd verts tris).length

end MagpyVerif.Kern
