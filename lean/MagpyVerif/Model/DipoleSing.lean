/-
Model/DipoleSing.lean — the `r == 0` row of `dipole_Hfield` / `BHJM_dipole` (observer at the dipole position), which
`Kern.bhjmDipole` does not have:

    mask1 = r == 0
    H[mask1] = moments[mask1] / 0.0
    np.nan_to_num(H, copy=False, posinf=np.inf, neginf=-np.inf)      # nan (0/0) -> 0

Every component of the result is +inf, −inf or 0 according to the sign of the moment component; `B = H * MU0` keeps it
(MU0 > 0), J = M = 0.  The value lives in the three-point set `Sing`, so that the same definition runs at `Float` in the driver
and is reasoned about at `ℝ`.  Mathlib-free.
-/
import MagpyVerif.Model.Kernels

namespace MagpyVerif.Kern
variable {α : Type} [Num α]
open Num

/-- a component of the field at the dipole position -/
inductive Sing where
  | ninf | zero | pinf
  deriving DecidableEq, Repr

/-- `nan_to_num(v / 0.0)`: +inf for `v > 0`, −inf for `v < 0`, 0 for `v == 0` (and for NaN) -/
def singOf (v : α) : Sing := if lt (n 0) v then .pinf else if lt v (n 0) then .ninf else .zero

/-- `BHJM_dipole(field, observer = dipole position, moment)` -/
def bhjmDipoleAtPosition (f : Field) (m : V3 α) : V3 Sing :=
  match f with
  | .M | .J => ⟨.zero, .zero, .zero⟩
  | .H | .B => ⟨singOf m.x, singOf m.y, singOf m.z⟩

end MagpyVerif.Kern
