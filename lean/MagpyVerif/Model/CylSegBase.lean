/-
Model/CylSegBase.lean — the scalar class the translated CylinderSegment kernel is written over.

`NumX α` extends `Num α` (Model/Kernels.lean) by the operations that only
/repo/magpylib/_src/fields/field_BH_cylinder_segment.py needs.  Both the frozen translation
(Model/CylSeg.lean) and its regenerated copy (Gen/CylSegGen.lean) import this file.

  carrier `Float`  (Driver/KernFam.lean): libm for tan/atan/atanh, Carlson forms for the incomplete
                   Legendre integrals, a port of the repo's `el3_angle` (Model/CylSegSpecial.lean)
  carrier `ℝ`      (Lemmas/KernCylSeg.lean): `ellipkinc`, `ellipeinc`, `el3angle` are opaque
                   parameters of the instance — no theorem looks inside them
-/
import MagpyVerif.Model.Cylinder

namespace MagpyVerif.Kern

class NumX (α : Type) extends Num α where
  tan : α → α
  /-- `np.arctan` -/
  atan : α → α
  /-- `np.arctanh` -/
  atanh : α → α
  /-- `np.sign`: −1, 0 or +1 -/
  sgn : α → α
  /-- `np.round` (to the nearest integer, ties to the even one) -/
  round : α → α
  /-- `np.ceil` -/
  ceil : α → α
  /-- numpy's `%` on floats (`np.remainder`: the result has the sign of the divisor) -/
  pymod : α → α → α
  /-- `scipy.special.ellipkinc(phi, m)`: incomplete Legendre integral of the first kind F(φ | m) -/
  ellipkinc : α → α → α
  /-- `scipy.special.ellipeinc(phi, m)`: incomplete Legendre integral of the second kind E(φ | m) -/
  ellipeinc : α → α → α
  /-- `special_el3.el3_angle(phi, n, m)`: incomplete integral of the third kind Π(n; φ | m) -/
  el3angle : α → α → α → α

variable {α : Type} [Num α]

/-- numpy `x**2` (`np.square`: one multiplication) -/
def sq (x : α) : α := x * x

/-- numpy `x**4` (libm `pow`; here two squarings — at most one unit in the last place apart) -/
def p4 (x : α) : α := (x * x) * (x * x)

end MagpyVerif.Kern
