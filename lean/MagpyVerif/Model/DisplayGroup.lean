/-
Model/DisplayGroup.lean — `group_traces` / `merge_traces` / `aggregate_by_trace_type` (magpylib/_src/display/traces_utility.py), C19:
which traces are put into one plotly trace.  Mathlib-free and computable (driver family `disp`, rows `group`).

```
def group_traces(*traces):
    mesh_groups = {}
    common_keys = ["legendgroup", "opacity", "row", "col", "color"]
    spec_keys = {"mesh3d": ["colorscale", "color", "facecolor"],
                 "scatter3d": ["marker", "line_dash", "line_color", "line_width", "marker_color", "marker_symbol", "marker_size", "mode"]}
    for tr in traces:
        tr = linearize_dict(tr, separator="_")
        gr = [tr["type"]]
        for k in [*common_keys, *spec_keys.get(tr["type"], [])]:
            v = (tr.get(k, None) is None) if k == "facecolor" else tr.get(k, "")
            gr.append(str(v))
        gr = tuple(gr)                         # the tuple of the values (repo fix 4b91a64; before: "".join(gr), no separator)
        mesh_groups.setdefault(gr, []).append(tr)
    traces = []
    for group in mesh_groups.values():         # insertion order = order of first appearance
        traces.extend(merge_traces(*group))
    return traces

def merge_traces(*traces):
    for ttype, tlist in aggregate_by_trace_type(traces):      # defaultdict(list) keyed by item["type"], insertion order
        if len(tlist) > 1:  mesh3d -> [merge_mesh3d(*tlist)];  scatter3d -> [merge_scatter3d(*tlist)];  else -> tlist
        elif len(tlist) == 1:  [tlist[0]]
```
-/
import MagpyVerif.Model.DisplayIdx
namespace MagpyVerif.Display

/-- a trace after `linearize_dict(tr, separator="_")`, as far as `group_traces` looks at it: its `type`, `str(value)` of
every (linearized) key that is present, whether `tr.get("facecolor") is None`, and an identifier for everything else -/
structure GTrace where
  ty : String
  props : List (String × String)
  facecolorNone : Bool
  id : Nat
  deriving Repr, BEq, DecidableEq

def commonKeys : List String := ["legendgroup", "opacity", "row", "col", "color"]

def specKeys (ty : String) : List String :=
  if ty == "mesh3d" then ["colorscale", "color", "facecolor"]
  else if ty == "scatter3d" then
    ["marker", "line_dash", "line_color", "line_width", "marker_color", "marker_symbol", "marker_size", "mode"]
  else []

/-- `str(v)` of one key: `tr.get(k, "")`, for `facecolor` the Boolean `tr.get(k, None) is None` -/
def keyPart (t : GTrace) (k : String) : String :=
  if k == "facecolor" then (if t.facecolorNone then "True" else "False") else (t.props.lookup k).getD ""

/-- the group key `tuple([type, str(v₁), str(v₂), …])` -/
def groupKey (t : GTrace) : List String :=
  t.ty :: (commonKeys ++ specKeys t.ty).map (keyPart t)

/-- the group key as it was BEFORE repo fix 4b91a64: `"".join([type, str(v₁), str(v₂), …])` — different value tuples can
concatenate to the same string (`concat_key_collision_witness` in Props/C19); not used by the model any more -/
def groupKeyConcat (t : GTrace) : String :=
  (commonKeys ++ specKeys t.ty).foldl (fun acc k => acc ++ keyPart t k) t.ty

/-- `d.setdefault(k, []).append(t)` on an insertion-ordered dict -/
def insertGroup {κ τ : Type} [BEq κ] (gs : List (κ × List τ)) (k : κ) (t : τ) : List (κ × List τ) :=
  if gs.any (·.1 == k) then gs.map (fun g => if g.1 == k then (g.1, g.2 ++ [t]) else g) else gs ++ [(k, [t])]

/-- the loop `for t in ts: d.setdefault(key(t), []).append(t)`; result: `d.items()` -/
def groupBy {κ τ : Type} [BEq κ] (key : τ → κ) (ts : List τ) : List (κ × List τ) :=
  ts.foldl (fun gs t => insertGroup gs (key t) t) []

/-- an output trace of `merge_traces`: an input passed through, or the merge of ≥ 2 inputs of one type -/
inductive GOut
  | single (t : GTrace)
  | mergedMesh (ts : List GTrace)      -- `merge_mesh3d(*ts)`  (Display.mergeMesh3d on the traces' arrays)
  | mergedScatter (ts : List GTrace)   -- `merge_scatter3d(*ts)` (Display.mergeScatter3d)
  deriving Repr, BEq, DecidableEq

def GOut.members : GOut → List GTrace
  | .single t => [t]
  | .mergedMesh ts => ts
  | .mergedScatter ts => ts

def mergeDispatch (ty : String) (l : List GTrace) : List GOut :=
  match l with
  | [] => []
  | [t] => [.single t]
  | l => if ty == "mesh3d" then [.mergedMesh l] else if ty == "scatter3d" then [.mergedScatter l] else l.map .single

/-- `merge_traces(*traces)` -/
def mergeTraces (ts : List GTrace) : List GOut :=
  (groupBy (·.ty) ts).flatMap fun g => mergeDispatch g.1 g.2

/-- `group_traces(*traces)` -/
def groupTraces (ts : List GTrace) : List GOut :=
  (groupBy groupKey ts).flatMap fun g => mergeTraces g.2

end MagpyVerif.Display
