/-
Model/StyleState.lean — the STATE MACHINE of magpylib's defaults / style objects (C20): `magpylib.defaults` and the
`.style` of n objects as trees of property-class objects, and the operations that change them, as the code performs them:

  * `MagicProperties.__init__`  (defaults_utility.py)     ↦ `construct`, `constructProps`, `ctorKwargs`
  * `MagicProperties.__setattr__` (frozen object)          ↦ `setAttr`        (property / other attribute / AttributeError)
  * the property setters: plain leaf with its validator, sub-object through `validate_property_class`, the deprecated
    alias `Magnetization.size`, the string shorthand of `BaseStyle.description/legend`      ↦ `setProp`, `setLeafAt`
  * `MagicProperties.update`                               ↦ `updateObj`  (= `mpUpdate` of Model/StyleNested plus validators;
                                                              the loop `for k, v in new_dict.items(): setattr(self, k, v)`
                                                              (`setAllS`, with the state at the moment of the raise) is wrapped
                                                              since repo fix cea5f08 in a save / restore of the instance
                                                              dictionary: a rejected update changes nothing)
  * `DefaultSettings.reset`, `DisplayStyle.reset`          ↦ `resetDefaults`, `resetStyle`
  * `BaseGeo.style` setter / `_validate_style`             ↦ `Op.setStyle`, `Op.setStyleObj`
  * a history                                              ↦ `step`, `run`

The state of one object is what `as_dict()` returns (`Dict`, keys in `dir()` order).  Values are indices into a finite
value panel; which values a leaf setter accepts, what it stores and which exception it raises is a table (`Tables`),
regenerated from the property classes together with the class structure (`Schema`) by translate/style_schema.py
(`Gen/StyleSchema.lean`).  Mathlib-free and computable (linked into the driver).
-/
import MagpyVerif.Model.StyleNested

namespace MagpyVerif.StyleState
open MagpyVerif.StyleNested

/-- exception classes; `shadow` is NOT an exception: the assigned name is a non-callable attribute of the object that is
not a property (`_color`, `__doc__`, …) — CPython stores an instance attribute; the model stops making claims there -/
inductive Kind where
  | assertion | attribute | value | type | other | shadow | fuel
  deriving DecidableEq, Repr

def Kind.ofErr : Err → Kind
  | .assertion => .assertion
  | .attribute => .attribute
  | .value => .value
  | .fuel => .fuel

/-- what a leaf setter does: the stored value or the exception -/
abbrev LeafOut := Except Kind (Option Val)

/-- one validator: its outcome for None, for every panel value, for a dict -/
structure LeafV where
  onNone : LeafOut
  onVal : List LeafOut
  onDict : LeafOut

structure Tables where
  leafV : List LeafV
  isStr : List Bool

/-- a property class: its properties in `dir()` order (plain leaf with validator id / alias of a leaf at a relative
path / sub-object), its public non-property attributes, the key its setter gives a string (`description = "text"`;
a field of the *property*, kept with the class for convenience), the named constructor parameters with defaults -/
inductive Schema where
  | leaf (vid : Nat)
  | alias (target : List Key)
  | obj (props : List (Key × Schema)) (others : List Str) (short : Option Key) (ctor : List (Key × Option Val)) (varkw : Bool)

def Schema.withShort : Schema → Option Key → Schema
  | .obj ps os _ c vk, s => .obj ps os s c vk
  | x, _ => x

/-- the validator of leaf `vid` applied to a value -/
def runV (T : Tables) (vid : Nat) (val : Tree) : LeafOut :=
  match T.leafV[vid]? with
  | none => .error .other
  | some r =>
    match val with
    | .leaf none => r.onNone
    | .leaf (some n) => (r.onVal[n]?).getD (.error .other)
    | .node _ => r.onDict

/-- `self.k1.k2.….kn = val` for a leaf at a relative path (what the alias setter does) -/
def setLeafAt (T : Tables) : List (Key × Schema) → Dict → List Key → Tree → Except Kind Dict
  | _, _, [], _ => .error .other
  | props, acc, [k], val =>
    match lookup k props with
    | some (.leaf vid) =>
      match runV T vid val with
      | .ok v => .ok (setKey k (.leaf v) acc)
      | .error e => .error e
    | _ => .error .other
  | props, acc, k :: k2 :: ks, val =>
    match lookup k props, lookup k acc with
    | some (.obj ps _ _ _ _), some (.node sub) =>
      match setLeafAt T ps sub (k2 :: ks) val with
      | .ok r => .ok (setKey k (.node r) acc)
      | .error e => .error e
    | _, _ => .error .attribute

/-- the keyword dictionary `MagicProperties.__init__` receives: Python binds the named parameters first (in
signature order, with their defaults), the remaining keywords follow in the caller's order -/
def ctorKwargs (ctor : List (Key × Option Val)) (kw : Dict) : Dict :=
  ctor.map (fun pd => (pd.1, (lookup pd.1 kw).getD (.leaf pd.2))) ++ kw.filter (fun kv => (lookup kv.1 ctor).isNone)

/-- the keyword arguments a sub-object setter (`validate_property_class`, with the string shorthand of
`BaseStyle.description/legend` in front) constructs the new object from: a dict ↦ `class_(**val)`, None ↦ `class_()`,
a string where the setter has the shorthand ↦ `class_(key=val)`, anything else ↦ ValueError -/
def objKwargs (T : Tables) (short : Option Key) : Tree → Except Kind Dict
  | .node kw => .ok kw
  | .leaf none => .ok []
  | .leaf (some n) =>
    match short with
    | some sk => if (T.isStr[n]?).getD false then .ok [(sk, .leaf (some n))] else .error .value
    | none => .error .value

/-- the call `class_(**kw)` up to the loop of `MagicProperties.__init__`: a class whose `__init__` has no `**kwargs`
(`ArrowCS`, `ArrowSingle`) raises TypeError for every keyword that is not a named parameter — before any magic
parsing; then `magic_to_dict(kwargs)` and the AttributeError for an unknown name -/
def ctorDict (ps : List (Key × Schema)) (ctor : List (Key × Option Val)) (varkw : Bool) (kw : Dict) : Except Kind Dict :=
  if !varkw && !kw.all (fun kv => (lookup kv.1 ctor).isSome) then .error .type else
  match magicToDict '_' (.node (ctorKwargs ctor kw)) with
  | .error e => .error (.ofErr e)
  | .ok (.leaf _) => .error .assertion
  | .ok (.node g) => if g.all (fun kv => (lookup kv.1 ps).isSome) then .ok g else .error .attribute

mutual
/-- `setattr(self, k, val)` for a property `k` with schema `s`; `all` are the properties of `self`, `acc` its `as_dict()` -/
def setProp (T : Tables) (all : List (Key × Schema)) (acc : Dict) (k : Key) : Schema → Tree → Except Kind Dict
  | .leaf vid, val =>
    match runV T vid val with
    | .ok v => .ok (setKey k (.leaf v) acc)
    | .error e => .error e
  | .alias tgt, val =>
    match val with
    | .leaf none => .ok acc
    | _ => setLeafAt T all acc tgt val
  | .obj ps _ short ctor vk, val =>
    match objKwargs T short val with
    | .error e => .error e
    | .ok kw =>
      match ctorDict ps ctor vk kw with
      | .error e => .error e
      | .ok g =>
        match constructProps T ps g ps [] with     -- second half of `__init__`
        | .ok r => .ok (setKey k (.node r) acc)
        | .error e => .error e
/-- `for k, v in input_dict.items(): setattr(self, k, v)` (`input_dict`: every property None, updated by `g`) -/
def constructProps (T : Tables) (all : List (Key × Schema)) (g : Dict) : List (Key × Schema) → Dict → Except Kind Dict
  | [], acc => .ok acc
  | (k, s) :: rest, acc =>
    match setProp T all acc k s ((lookup k g).getD (.leaf none)) with
    | .error e => .error e
    | .ok acc' => constructProps T all g rest acc'
end

/-- `class_(**kw)` -/
def construct (T : Tables) (ps : List (Key × Schema)) (ctor : List (Key × Option Val)) (varkw : Bool) (kw : Dict) : Except Kind Dict :=
  match ctorDict ps ctor varkw kw with
  | .error e => .error e
  | .ok g => constructProps T ps g ps []

/-- `setattr(self, k, val)` on a frozen object (`MagicProperties.__setattr__` after repo fix 3fc7703: AttributeError when
`not hasattr(self, key) or callable(getattr(type(self), key, None))`): a property runs its setter; a name in `others`
— the regenerated list of non-property names the code does not reject: the private slots `_color`, …, `__doc__`,
`__module__`, the frozen flag — is overwritten as a plain attribute (`shadow`, no claim about the state afterwards);
every other name, in particular every method name and every unknown name with or without underscore, is an AttributeError -/
def setAttr (T : Tables) (props : List (Key × Schema)) (others : List Str) (cur : Dict) (k : Key) (val : Tree) : Except Kind Dict :=
  match lookup k props with
  | some s => setProp T props cur k s val
  | none =>
    match k with
    | .str n => if others.contains n then .error .shadow else .error .attribute
    | .int _ => .error .type

/-- `for k, v in new_dict.items(): setattr(self, k, v)`: the state reached and the first exception -/
def setAllS (T : Tables) (props : List (Key × Schema)) (others : List Str) : Dict → Dict → Dict × Except Kind Unit
  | cur, [] => (cur, .ok ())
  | cur, (k, v) :: rest =>
    match setAttr T props others cur k v with
    | .ok cur' => setAllS T props others cur' rest
    | .error e => (cur, .error e)

/-- `self.update(arg, _match_properties, _replace_None_only, **kwargs)`; `cur = self.as_dict()` -/
def updateObj (T : Tables) (props : List (Key × Schema)) (others : List Str) (cur : Dict) (arg : Option Tree) (kwargs : Dict)
    (matchProps rno : Bool) : Dict × Except Kind Unit :=
  let arg0 : Except Kind Dict := match arg with
    | none => .ok []
    | some (.node ka) => .ok ka
    | some (.leaf _) => .error .attribute
  match arg0 with
  | .error e => (cur, .error e)
  | .ok ka =>
    match magicToDict '_' (.node (mergeDict ka kwargs)) with
    | .error e => (cur, .error (.ofErr e))
    | .ok m =>
      match updateNested (!matchProps) rno (.node cur) m with
      | .error e => (cur, .error (.ofErr e))
      | .ok (.leaf _) => (cur, .error .other)
      | .ok (.node nd) =>
        -- repo fix cea5f08: `saved = dict(vars(self))` before the loop, put back on any exception — all or nothing
        match setAllS T props others cur nd with
        | (c, .ok u) => (c, .ok u)
        | (_, .error e) => (cur, .error e)

/-- run `f` on the sub-object `self.k1.….kn` (attribute access; AttributeError when a name is missing or a value
that is not a property object is reached) and put the new state of the sub-object back -/
def atPath (f : List (Key × Schema) → List Str → Dict → Dict × Except Kind Unit) :
    List (Key × Schema) → List Str → Dict → List Key → Dict × Except Kind Unit
  | props, others, cur, [] => f props others cur
  | props, _, cur, k :: ks =>
    match lookup k props, lookup k cur with
    | some (.obj ps os _ _ _), some (.node sub) =>
      let r := atPath f ps os sub ks
      (setKey k (.node r.1) cur, r.2)
    | _, _ => (cur, .error .attribute)

/-- `self.k1.….kn` read: a sub-object as its `as_dict()`, a leaf as its value, an alias as the value at its target -/
def readPath : List (Key × Schema) → Dict → List Key → Except Kind Tree
  | _, cur, [] => .ok (.node cur)
  | props, cur, k :: ks =>
    match lookup k props with
    | some (.obj ps _ _ _ _) =>
      match lookup k cur with
      | some (.node sub) => readPath ps sub ks
      | _ => .error .attribute
    | some (.leaf _) =>
      match ks, lookup k cur with
      | [], some v => .ok v
      | _, _ => .error .attribute
    | some (.alias tgt) =>
      match ks, getPath (.node cur) tgt with
      | [], some v => .ok v
      | _, _ => .error .attribute
    | none => .error .attribute

/-! ### the world: `magpylib.defaults` (index 0) and the styles of n objects -/

structure ClassInfo where
  name : Str
  bases : List Str
  schema : Schema

structure Obj where
  cls : Nat
  tree : Dict

abbrev World := List Obj

def Schema.props : Schema → List (Key × Schema)
  | .obj ps _ _ _ _ => ps
  | _ => []
def Schema.others : Schema → List Str
  | .obj _ os _ _ _ => os
  | _ => []
def Schema.varkw : Schema → Bool
  | .obj _ _ _ _ vk => vk
  | _ => true
def Schema.ctor : Schema → List (Key × Option Val)
  | .obj _ _ _ c _ => c
  | _ => []

inductive Op where
  /-- `X.update(arg, _match_properties=, _replace_None_only=, **kwargs)`, `X` the sub-object at `path` of object `i` -/
  | update (i : Nat) (path : List Key) (arg : Option Tree) (kwargs : Dict) (matchProps rno : Bool)
  /-- `X.name = val` -/
  | setattr (i : Nat) (path : List Key) (name : Key) (val : Tree)
  /-- `magpylib.defaults.reset()` -/
  | reset
  /-- `magpylib.defaults.display.style.reset()` -/
  | resetStyle
  /-- `obj_i.style = val` (None, a dict, or something else that is not a style object) -/
  | setStyle (i : Nat) (val : Tree)
  /-- `obj_i.style = obj_j.style` -/
  | setStyleObj (i j : Nat)
  /-- `X.as_dict()` / the value of a leaf -/
  | read (i : Nat) (path : List Key)

/-- the object an operation works on (`read` changes nothing; it is given the object it reads) -/
def Op.target : Op → Nat
  | .update i .. => i
  | .setattr i .. => i
  | .reset => 0
  | .resetStyle => 0
  | .setStyle i _ => i
  | .setStyleObj i _ => i
  | .read i _ => i

inductive Out where
  | ok
  | err (e : Kind)
  | val (t : Tree)

def Out.ofExcept : Except Kind Unit → Out
  | .ok _ => .ok
  | .error e => .err e

/-- `DefaultSettings.reset`:
```
self.display = None
self.update(get_defaults_dict(), _match_properties=False)
``` -/
def resetDefaults (T : Tables) (D : Tree) (props : List (Key × Schema)) (others : List Str) (cur : Dict) : Dict × Except Kind Unit :=
  match setAttr T props others cur (.str "display".toList) (.leaf none) with
  | .error e => (cur, .error e)
  | .ok c1 => updateObj T props others c1 (some D) [] false false

/-- `DisplayStyle.reset`: `self.update(get_defaults_dict("display.style"), _match_properties=False)` -/
def resetStyle (T : Tables) (D : Tree) (props : List (Key × Schema)) (others : List Str) (cur : Dict) : Dict × Except Kind Unit :=
  match getPath D [.str "display".toList, .str "style".toList] with
  | some d => atPath (fun ps os c => updateObj T ps os c (some d) [] false false) props others cur [.str "display".toList, .str "style".toList]
  | none => (cur, .error .other)

/-- replace the tree of object `i` -/
def setTree (w : World) (i : Nat) (t : Dict) : World :=
  match w[i]? with
  | some o => w.set i { o with tree := t }
  | none => w

/-- run an in-place operation on object `i` -/
def onObj (Cs : List ClassInfo) (w : World) (i : Nat)
    (f : List (Key × Schema) → List Str → Dict → Dict × Except Kind Unit) : World × Out :=
  match w[i]? with
  | none => (w, .err .other)
  | some o =>
    match Cs[o.cls]? with
    | none => (w, .err .other)
    | some c =>
      let r := f c.schema.props c.schema.others o.tree
      (setTree w i r.1, .ofExcept r.2)

def step (T : Tables) (Cs : List ClassInfo) (D : Tree) (w : World) : Op → World × Out
  | .update i path arg kwargs mt rno =>
    onObj Cs w i (fun ps os cur => atPath (fun ps' os' c => updateObj T ps' os' c arg kwargs mt rno) ps os cur path)
  | .setattr i path name val =>
    onObj Cs w i (fun ps os cur => atPath (fun ps' os' c =>
      match setAttr T ps' os' c name val with
      | .ok c' => (c', .ok ())
      | .error e => (c, .error e)) ps os cur path)
  | .reset => onObj Cs w 0 (resetDefaults T D)
  | .resetStyle => onObj Cs w 0 (resetStyle T D)
  | .setStyle i val =>
    if i = 0 then (w, .err .other) else
    match val with
    | .leaf none => onObj Cs w i (fun ps os cur => updateObj T ps os cur (some (.node [])) [] true false)
    | .node kv => onObj Cs w i (fun ps os cur => updateObj T ps os cur (some (.node kv)) [] true false)
    | .leaf (some _) => (w, .err .value)
  | .setStyleObj i j =>
    if i = 0 then (w, .err .other) else
    match w[i]?, w[j]? with
    | some oi, some oj =>
      match Cs[oi.cls]?, Cs[oj.cls]? with
      | some ci, some cj => if cj.bases.contains ci.name then (w, .ok) else (w, .err .value)   -- isinstance: the value is then IGNORED
      | _, _ => (w, .err .other)
    | _, _ => (w, .err .other)
  | .read i path =>
    match w[i]? with
    | none => (w, .err .other)
    | some o =>
      match Cs[o.cls]? with
      | none => (w, .err .other)
      | some c =>
        match readPath c.schema.props o.tree path with
        | .ok t => (w, .val t)
        | .error e => (w, .err e)

/-- a history: the final world and the outcome of every operation -/
def run (T : Tables) (Cs : List ClassInfo) (D : Tree) : World → List Op → World × List Out
  | w, [] => (w, [])
  | w, op :: ops =>
    let r := step T Cs D w op
    let r2 := run T Cs D r.1 ops
    (r2.1, r.2 :: r2.2)

/-- the world reached by a history -/
def exec (T : Tables) (Cs : List ClassInfo) (D : Tree) (w : World) (ops : List Op) : World := (run T Cs D w ops).1

/-- `Class()`: a new object of class `c` -/
def newTree (T : Tables) (c : ClassInfo) : Except Kind Dict := construct T c.schema.props c.schema.ctor c.schema.varkw []

/-- `DefaultSettings()`: `MagicProperties.__init__` followed by `self.reset()` -/
def initDefaults (T : Tables) (D : Tree) (c : ClassInfo) : Dict × Except Kind Unit :=
  match newTree T c with
  | .error e => ([], .error e)
  | .ok t => resetDefaults T D c.schema.props c.schema.others t

/-- the initial world: the library defaults and one new style object per entry of `classes` -/
def initWorld (T : Tables) (Cs : List ClassInfo) (D : Tree) (classes : List Nat) : World :=
  (match Cs[0]? with
    | some c => [{ cls := 0, tree := (initDefaults T D c).1 }]
    | none => []) ++
  classes.map (fun ci => { cls := ci, tree := match Cs[ci]? with
    | some c => (match newTree T c with | .ok t => t | .error _ => [])
    | none => [] })

end MagpyVerif.StyleState
