/-
Model/CylSegSpecial.lean — IEEE-double implementations of the operations of `NumX` that are not in
libm, for the driver (carrier `Float` only; in the theorems these operations are opaque).

  * `rint`, `sgnF`, `pymodF`, `truncF`   np.round / np.sign / numpy `%` / `.astype(int)`
  * `carlsonRF`, `carlsonRD`             Carlson's symmetric integrals by the duplication theorem
  * `ellipkincF`, `ellipeincF`           substitutes for scipy.special.ellipkinc / ellipeinc:
        F(φ|m) = 2k·K(m) + s·RF(c², 1 − m s², 1),   E(φ|m) = 2k·E(m) + s·RF(…) − (m/3) s³·RD(…)
        with φ = kπ + φ', |φ'| ≤ π/2, s = sin φ', c = cos φ'  (any real φ, any m < 1 — the kernel
        calls them with m ≤ 0 almost always).  NOT a port of cephes: a modelling substitute that the
        `kern` stream validates (kinds `cylsegell`, `cylsegH`, `cylseg`).
  * `el30`                               port, statement by statement, of `special_el3.el30`
        (Bulirsch's el3, scalar version).  `raise RuntimeError("FAIL")` becomes NaN, the `while True`
        loop gets 1000 rounds of fuel (NaN when exhausted).
  * `el3Angle`                           port of `special_el3.el3_angle` for one entry.  `cel` and
        `el3` dispatch on the batch length (`< 10`: scalar `cel0` / `el30`, else the vectorised
        `celv` / `el3v`); the vectorised versions compute the same functions with the loop run on
        all entries at once and are not modelled — one observer gives at most 8 entries per case
        function, so the code under test takes the scalar path in every correspondence row.
-/
import MagpyVerif.Model.CylSegBase

namespace MagpyVerif.Kern.CylSegF

def piF : Float := 3.141592653589793

/-- `np.round` / C `rint`: ties to even -/
def rint (x : Float) : Float :=
  let f := Float.floor x
  let d := x - f
  if d < 0.5 then f
  else if d > 0.5 then f + 1.0
  else if Float.floor (f / 2.0) * 2.0 == f then f else f + 1.0

/-- `np.sign` -/
def sgnF (x : Float) : Float :=
  if x > 0.0 then 1.0 else if x < 0.0 then -1.0 else if x == 0.0 then 0.0 else x

/-- `.astype(int)` / `int()`: truncation toward zero -/
def truncF (x : Float) : Float := if x >= 0.0 then Float.floor x else Float.ceil x

/-- C `fmod` (exact for the magnitudes used here: computed as `a - trunc(a/b)*b` with one correction step) -/
def fmodF (a b : Float) : Float :=
  let q := truncF (a / b)
  let r := a - q * b
  -- a/b is rounded: r may fall just outside [0, |b|) on the side of `a`
  let ab := Float.abs b
  if a >= 0.0 then (if r < 0.0 then r + ab else if r >= ab then r - ab else r)
  else (if r > 0.0 then r - ab else if r <= -ab then r + ab else r)

/-- numpy `%` on doubles (`npy_divmod`): `fmod`, then shifted to the sign of the divisor -/
def pymodF (a b : Float) : Float :=
  let m := fmodF a b
  if m != 0.0 && ((b < 0.0) != (m < 0.0)) then m + b else m

def max3 (a b c : Float) : Float :=
  let m := if a > b then a else b
  if m > c then m else c

/-- Carlson's R_F(x, y, z) (x, y, z ≥ 0, at most one zero) by duplication -/
def carlsonRF (x y z : Float) : Float := Id.run do
  let mut xt := x
  let mut yt := y
  let mut zt := z
  let mut ave := (xt + yt + zt) / 3.0
  let mut dx := (ave - xt) / ave
  let mut dy := (ave - yt) / ave
  let mut dz := (ave - zt) / ave
  for _ in [0:200] do
    if max3 (Float.abs dx) (Float.abs dy) (Float.abs dz) < 0.001 then break
    let sx := Float.sqrt xt
    let sy := Float.sqrt yt
    let sz := Float.sqrt zt
    let lam := sx * (sy + sz) + sy * sz
    xt := 0.25 * (xt + lam)
    yt := 0.25 * (yt + lam)
    zt := 0.25 * (zt + lam)
    ave := (xt + yt + zt) / 3.0
    dx := (ave - xt) / ave
    dy := (ave - yt) / ave
    dz := (ave - zt) / ave
  let e2 := dx * dy - dz * dz
  let e3 := dx * dy * dz
  return (1.0 + (e2 / 24.0 - 0.1 - 3.0 * e3 / 44.0) * e2 + e3 / 14.0) / Float.sqrt ave

/-- Carlson's R_D(x, y, z) (x, y ≥ 0, at most one zero, z > 0) by duplication -/
def carlsonRD (x y z : Float) : Float := Id.run do
  let mut xt := x
  let mut yt := y
  let mut zt := z
  let mut sum := 0.0
  let mut fac := 1.0
  let mut ave := 0.2 * (xt + yt + 3.0 * zt)
  let mut dx := (ave - xt) / ave
  let mut dy := (ave - yt) / ave
  let mut dz := (ave - zt) / ave
  for _ in [0:200] do
    if max3 (Float.abs dx) (Float.abs dy) (Float.abs dz) < 0.001 then break
    let sx := Float.sqrt xt
    let sy := Float.sqrt yt
    let sz := Float.sqrt zt
    let lam := sx * (sy + sz) + sy * sz
    sum := sum + fac / (sz * (zt + lam))
    fac := 0.25 * fac
    xt := 0.25 * (xt + lam)
    yt := 0.25 * (yt + lam)
    zt := 0.25 * (zt + lam)
    ave := 0.2 * (xt + yt + 3.0 * zt)
    dx := (ave - xt) / ave
    dy := (ave - yt) / ave
    dz := (ave - zt) / ave
  let ea := dx * dy
  let eb := dz * dz
  let ec := ea - eb
  let ed := ea - 6.0 * eb
  let ee := ed + ec + ec
  let c1 := 3.0 / 14.0
  let c2 := 1.0 / 6.0
  let c3 := 9.0 / 22.0
  let c4 := 3.0 / 26.0
  return 3.0 * sum + fac * (1.0 + ed * (-c1 + 0.25 * c3 * ed - 1.5 * c4 * dz * ee)
    + dz * (c2 * ee + dz * (-c3 * ec + dz * c4 * ea))) / (ave * Float.sqrt ave)

/-- substitute for `scipy.special.ellipkinc(phi, m)` -/
def ellipkincF (phi m : Float) : Float :=
  let k := rint (phi / piF)
  let p := phi - k * piF
  let s := Float.sin p
  let c := Float.cos p
  let inc := s * carlsonRF (c * c) (1.0 - m * s * s) 1.0
  if k == 0.0 then inc else 2.0 * k * carlsonRF 0.0 (1.0 - m) 1.0 + inc

/-- substitute for `scipy.special.ellipeinc(phi, m)` -/
def ellipeincF (phi m : Float) : Float :=
  let k := rint (phi / piF)
  let p := phi - k * piF
  let s := Float.sin p
  let c := Float.cos p
  let d := 1.0 - m * s * s
  let inc := s * carlsonRF (c * c) d 1.0 - m / 3.0 * (s * s * s) * carlsonRD (c * c) d 1.0
  if k == 0.0 then inc
  else 2.0 * k * (carlsonRF 0.0 (1.0 - m) 1.0 - m / 3.0 * carlsonRD 0.0 (1.0 - m) 1.0) + inc

def nanF : Float := 0.0 / 0.0

/-- `special_el3.el30(x, kc, p)` -/
def el30 (x kc p : Float) : Float := Id.run do
  if x == 0.0 then return 0.0
  let CA : Float := 1e-4     -- 10.0 ** (-D / 2), D = 8
  let CB : Float := 1e-10    -- 10.0 ** (-D - 2)
  let ln2 : Float := Float.log 2.0
  let mut ye : Float := 0.0
  let mut k : Float := 0.0
  let mut l : Float := 0.0
  let mut m : Float := 0.0
  let mut nn : Float := 0.0
  let mut bo : Bool := false
  let mut bk : Bool := false
  let mut ra : Array Float := Array.replicate 5 0.0
  let mut rb : Array Float := Array.replicate 5 0.0
  let mut rr : Array Float := Array.replicate 5 0.0
  let mut hh := x * x
  let mut f := p * hh
  let mut s := if kc == 0.0 then CA / (1.0 + Float.abs x) else kc
  let mut t := s * s
  let mut pm := 0.5 * t
  let mut e := hh * t
  let mut z := Float.abs f
  let mut r := Float.abs p
  let mut h := 1.0 + hh
  let mut u : Float := 0.0
  let mut v : Float := 0.0
  if e < 0.1 && z < 0.1 && t < 1.0 && r < 1.0 then
    for kk in [2:7] do
      let km2 := kk - 2
      rb := rb.set! km2 (0.5 / kk.toFloat)
      ra := ra.set! km2 (1.0 - rb[km2]!)
    let zd := 0.5 / 7.0
    s := p + pm
    for kk in [2:7] do
      let km2 := kk - 2
      rr := rr.set! km2 s
      pm := pm * t * ra[km2]!
      s := s * p + pm
    u := s * zd
    s := u
    bo := false
    for j in [0:5] do
      let km2 := 4 - j     -- k = ND, ND-1, …, 2
      u := u + (rr[km2]! - u) * rb[km2]!
      bo := !bo
      v := if bo then -u else u
      s := s * hh + v
    if bo then s := -s
    u := (u + 1.0) * 0.5
    return (u - s * h) * Float.sqrt h * x + u * Float.asinh x
  let mut w := 1.0 + f
  if w == 0.0 then return nanF   -- raise RuntimeError("FAIL")
  let p1 := if p == 0.0 then CB / hh else p
  s := Float.abs s
  let mut y := Float.abs x
  let mut g := p1 - 1.0
  if g == 0.0 then g := CB
  f := p1 - t
  if f == 0.0 then f := CB * t
  let am := 1.0 - t
  let ap := 1.0 + e
  r := p1 * h
  let mut fa := g / (f * p1)
  bo := fa > 0.0
  fa := Float.abs fa
  let mut pz := Float.abs (g * f)
  let mut de := Float.sqrt pz
  let mut q := Float.sqrt (Float.abs p1)
  pm := if 0.5 < pm then 0.5 else pm     -- min(0.5, pm)
  pm := p1 - pm
  let mut d : Float := 0.0
  let mut c : Float := 0.0
  if pm >= 0.0 then
    u := Float.sqrt (r * ap)
    v := y * de
    if g < 0.0 then v := -v
    d := 1.0 / q
    c := 1.0
  else
    u := Float.sqrt (h * ap * pz)
    ye := y * q
    v := am * ye
    q := -de / g
    d := -am / de
    c := 0.0
    pz := ap - r
  if bo then
    r := v / u
    z := 1.0
    k := 1.0
    if pm < 0.0 then
      h := y * Float.sqrt (h / (ap * fa))
      h := 1.0 / h - h
      z := h - r - r
      r := 2.0 + r * h
      if r == 0.0 then r := CB
      if z == 0.0 then z := h * CB
      r := r / z
      z := r
      w := pz
    u := u / w
    v := v / w
  else
    t := u + Float.abs v
    bk := true
    if p1 < 0.0 then
      de := v / pz
      ye := u * ye
      ye := ye + ye
      u := t / pz
      v := (-f - g * e) / t
      t := pz * Float.abs w
      z := (hh * r * f - g * ap + ye) / t
      ye := ye / t
    else
      de := v / w
      ye := 0.0
      u := (e + p1) / t
      v := t / w
      z := 1.0
    if s > 1.0 then
      h := u
      u := v
      v := h
  y := 1.0 / y
  e := s
  nn := 1.0
  t := 1.0
  l := 0.0
  m := 0.0
  let mut done := false
  for _ in [0:1000] do
    y := y - e / y
    if y == 0.0 then y := Float.sqrt e * CB
    f := c
    c := d / q + c
    g := e / q
    d := f * g + d
    d := d + d
    q := g + q
    g := t
    t := s + t
    nn := nn + nn
    m := m + m
    if bo then
      if z < 0.0 then m := k + m
      k := sgnF r
      h := e / (u * u + v * v)
      u := u * (1.0 + h)
      v := v * (1.0 - h)
    else
      r := u / v
      h := z * r
      z := h * z
      hh := e / v
      if bk then
        de := de / u
        ye := ye * (h + 1.0 / h) + de * (1.0 + r)
        de := de * (u - hh)
        bk := Float.abs ye < 1.0
      else
        let bcr := ln2
        let mut acr := Float.log x
        k := truncF (acr / bcr) + 1.0
        acr := acr - k * bcr
        m := Float.exp acr
        m := m + k
    if Float.abs (g - s) > CA * g then
      if bo then
        g := (1.0 / r - r) * 0.5
        hh := u + v * g
        h := g * u - v
        if hh == 0.0 then hh := u * CB
        if h == 0.0 then h := v * CB
        z := r * h
        r := hh / h
      else
        u := u + e / u
        v := v + hh
      s := Float.sqrt e
      s := s + s
      e := s * t
      l := l + l
      if y < 0.0 then l := l + 1.0
    else
      done := true
      break
  if !done then return nanF
  if y < 0.0 then l := l + 1.0
  e := Float.atan (t / y) + piF * l
  e := e * (c * t + d) / (t * (t + q))
  if bo then
    h := v / (t + u)
    z := 1.0 - r * h
    h := r + h
    if z == 0.0 then z := CB
    if z < 0.0 then m := m + sgnF h
    s := Float.atan (h / z) + m * piF
  else
    s := if bk then Float.asinh ye else Float.log z + m * ln2
    s := s * 0.5
  e := (e + Float.sqrt fa * s) / nn
  return if x > 0.0 then e else -e

/-- `special_el3.el3_angle(phi, n, m)` for one entry (scalar paths of `cel` and `el3`);
`cel0 kc p 1 1 = none` (`kc == 0`: RuntimeError) becomes NaN -/
def el3Angle [Num Float] (phi nArg m : Float) : Float :=
  let kc := Float.sqrt (1.0 - m)
  let p := 1.0 - nArg
  let n0 := truncF (phi / piF)
  let red0 := phi - n0 * piF
  let mask1 := n0 <= 0.0 && red0 < -piF / 2.0
  let mask2 := n0 >= 0.0 && red0 > piF / 2.0
  let n1 := if mask1 then n0 - 1.0 else n0
  let red1 := if mask1 then red0 + piF else red0
  let nI := if mask2 then n1 + 1.0 else n1
  let red := if mask2 then red1 - piF else red1
  let celv : Float := match cel0 200 kc p 1.0 1.0 with
    | some v => v
    | none => nanF
  let hi := red > piF / 2.0 - 1e-8
  let lo := red < -piF / 2.0 + 1e-8
  if nI != 0.0 then
    if hi then (2.0 * nI + 1.0) * celv
    else if lo then (2.0 * nI - 1.0) * celv
    else 2.0 * nI * celv + el30 (Float.tan phi) kc p
  else
    if hi then celv
    else if lo then -celv
    else el30 (Float.tan phi) kc p

end MagpyVerif.Kern.CylSegF
