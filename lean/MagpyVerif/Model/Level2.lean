/-
Model/Level2.lean — marshalling model of getBH_level2 (field_wrap_BH.py) for C03–C08.

What is modelled as the code does it: flattening of (nested) collections into leaf sources in
depth-first order; M = longest path among all sources and sensors, shorter paths staying at
their last pose (the code tiles them in place — the state side of that is Model/Level2State);
pixel global positions per sensor and path index; per-leaf evaluation through the source frame
(getBH_level1); the collection loop `B[i] = sum(B[i:i+len]); B = delete(B, i+1:i+len)`; the
three sensor back-rotation paths (unrotated / static orientation / general); handedness flip;
pixel regrouping by equal shapes or by the cumulative `pix_inds` split; pixel_agg; sumup
(`level2Core`, the part before the code branches on `output`); then either squeeze /
expand_dims (`getBH`, ndarray output) or the `itertools.product` index next to `B.reshape(-1, 3)`
(`dataframe`, output="dataframe").  `level2CoreF` / `getBHF` / `dataframeF` (c03post) are the same statements in the
same order with `pixel_agg` an arbitrary reduction of the pixel list; `tensorAggFirst` and `cyclicGet` are the two seeded
wrong orders kept as counter-models for witness theorems only.  Assumed (numpy semantics, exercised by the correspondence stream): tile/repeat/
reshape produce the (source, path, pixel) row order; grouping sources by field function and
scattering the group results back by `order` is the identity permutation.
-/
import MagpyVerif.Model.Basic

namespace MagpyVerif.Level2

/-- a leaf source: pose path and its local-frame field function -/
structure Src (G V : Type) where
  pos : List V
  ori : List G
  F : V → V

/-- source input entries: bare sources or (nested) collections -/
inductive Entry (G V : Type) where
  | leaf (s : Src G V)
  | coll (children : List (Entry G V))

structure Sens (G V : Type) where
  pos : List V
  ori : List G
  /-- flattened pixel offsets (`[0]` when pixel is None) -/
  pixels : List V
  /-- pixel.shape[:-1]; `[1]` for a single / absent pixel -/
  pixShape : List Nat
  left : Bool

inductive Agg where
  | none | sum | min | max
  deriving DecidableEq, Repr

variable {G V : Type}

/-- `format_obj_input(entry, allow="sources")`: leaf sources in depth-first order -/
def Entry.leaves : Entry G V → List (Src G V)
  | .leaf s => [s]
  | .coll cs => (cs.map Entry.leaves).flatten

/-- entry at path index `m`, staying at the last pose beyond the end of the path -/
def clampGet {α : Type} (xs : List α) (m : Nat) : Option α := xs[min m (xs.length - 1)]?

section
variable [Mul G] [Inv G] [One G] [SMul G V] [Add V] [Sub V] [Zero V] [BEq G]

/-- global pixel positions of all sensors at path index `m`, concatenated in sensor order -/
def poso (sensors : List (Sens G V)) (m : Nat) : List V :=
  sensors.flatMap fun k =>
    match clampGet k.ori m, clampGet k.pos m with
    | some r, some p => k.pixels.map fun px => r • px + p
    | _, _ => []

/-- getBH_level1 for one leaf at one path index and one observer -/
def level1 (s : Src G V) (m : Nat) (x : V) : V :=
  match clampGet s.ori m, clampGet s.pos m with
  | some r, some p => r • s.F (r⁻¹ • (x - p))
  | _, _ => 0

/-- per-leaf field tensor `[m][flat pixel]` -/
def leafB (sensors : List (Sens G V)) (M : Nat) (s : Src G V) : List (List V) :=
  (List.range M).map fun m => (poso sensors m).map (level1 s m)

/-- pointwise sum of two `[m][pixel]` tensors -/
def addT (a b : List (List V)) : List (List V) :=
  List.zipWith (List.zipWith (· + ·)) a b

/-- `np.sum(B[i:i+len], axis=0)` of a non-empty slice -/
def sumT : List (List (List V)) → List (List V)
  | [] => []
  | [t] => t
  | t :: ts => addT t (sumT ts)

/-- the collection loop: `for i, src in enumerate(sources): if Collection:
B[i] = sum(B[i:i+len]); B = delete(B, i+1:i+len)`; `lens` = per entry `some len` for a
collection, `none` for a bare source. -/
def collapse : Nat → List (Option Nat) → List (List (List V)) → List (List (List V))
  | _, [], B => B
  | i, none :: rest, B => collapse (i + 1) rest B
  | i, some len :: rest, B =>
    let B' := B.take i ++ [sumT ((B.drop i).take len)] ++ B.drop (i + len)
    collapse (i + 1) rest B'

def Entry.colLen : Entry G V → Option Nat
  | .leaf _ => none
  | e@(.coll _) => some e.leaves.length

/-- orientation path is the unit rotation everywhere (checked before tiling) -/
def unrotated (k : Sens G V) : Bool := k.ori.all (· == 1)

/-- `check_static_sensor_orient` -/
def staticRot (k : Sens G V) : Bool :=
  k.pos.length == 1 || (match k.ori with | [] => true | q :: qs => qs.all (· == q))

/-- back-rotation of sensor `k`'s pixel slice and handedness flip, on `[src][m][pixel]` -/
def sensorFrame (flipX : V → V) (k : Sens G V) (lo hi : Nat) (B : List (List (List V))) :
    List (List (List V)) :=
  B.map fun Bl => Bl.mapIdx fun m row => row.mapIdx fun j v =>
    if lo ≤ j ∧ j < hi then
      let v1 :=
        if unrotated k then v
        else if staticRot k then
          (match clampGet k.ori 0 with | some r => r⁻¹ • v | none => v)
        else
          (match clampGet k.ori m with | some r => r⁻¹ • v | none => v)
      if k.left then flipX v1 else v1
    else v

def pixNum (k : Sens G V) : Nat := k.pixShape.foldl (· * ·) 1

/-- `np.cumsum([a] + ns)` -/
def cumsum (a : Nat) : List Nat → List Nat
  | [] => [a]
  | n :: ns => a :: cumsum (a + n) ns

/-- cumulative pixel indices `pix_inds = np.cumsum([0] + pix_nums)` -/
def pixInds (sensors : List (Sens G V)) : List Nat := cumsum 0 (sensors.map pixNum)

def applySensors (flipX : V → V) (sensors : List (Sens G V)) (B : List (List (List V))) :
    List (List (List V)) :=
  let inds := pixInds sensors
  (sensors.zipIdx).foldl (fun B (k, i) => sensorFrame flipX k (inds.getD i 0) (inds.getD (i + 1) 0) B) B

end

/-- output: shape and flat row-major data -/
structure Out (V : Type) where
  shape : List Nat
  data : List V
  deriving Repr

inductive Err where
  | badUserInput | missingInput
  deriving Repr, DecidableEq

section
variable [Mul G] [Inv G] [One G] [SMul G V] [Add V] [Sub V] [Zero V] [BEq G]

def aggList (agg : Agg) (vmin vmax : V → V → V) : List V → V
  | [] => 0
  | v :: vs => match agg with
    | .sum => vs.foldl (· + ·) v
    | .min => vs.foldl vmin v
    | .max => vs.foldl vmax v
    | .none => v

/-- split a flat pixel row into the per-sensor chunks given by `pix_inds` -/
def splitRow (inds : List Nat) (row : List V) : List (List V) :=
  (inds.zip inds.tail).map fun (a, b) => (row.drop a).take (b - a)

/-- longest path among all leaf sources and sensors -/
def pathLen (leaves : List (Src G V)) (sensors : List (Sens G V)) : Nat :=
  ((leaves.map (·.pos.length)) ++ (sensors.map (·.pos.length))).foldl max 0

/-- the field tensor `[entry][m][sensor][pixel]` before pixel_agg / sumup / squeeze: per-leaf
evaluation, collection loop, sensor back-rotation and handedness, split into sensors -/
def tensor (flipX : V → V) (entries : List (Entry G V)) (sensors : List (Sens G V)) :
    List (List (List (List V))) :=
  let leaves := entries.flatMap Entry.leaves
  let M := pathLen leaves sensors
  let B0 := leaves.map (leafB sensors M)
  let B1 := if leaves.length > entries.length then collapse 0 (entries.map Entry.colLen) B0 else B0
  let B2 := applySensors flipX sensors B1
  B2.map fun Bl => Bl.map (splitRow (pixInds sensors))

/-- `pixel_agg_func(...)` applied to every sensor's own pixel list: one value per (entry, m, sensor) -/
def aggT (a : Agg) (vmin vmax : V → V → V) (B : List (List (List (List V)))) :
    List (List (List (List V))) :=
  B.map fun Bl => Bl.map fun Bm => Bm.map fun px => [aggList a vmin vmax px]

/-- `np.sum(B, axis=0, keepdims=True)` -/
def sumupT (B : List (List (List (List V)))) : List (List (List (List V))) :=
  match B with
  | [] => []
  | t :: ts => [ts.foldl (fun acc u =>
      List.zipWith (List.zipWith (List.zipWith (· + ·))) acc u) t]

/-- `B.reshape(-1, 3)` / the row-major data of B: `[entry][m][sensor][pixel]` flattened -/
def flat4 (B : List (List (List (List V)))) : List V :=
  (B.map fun a => (a.map fun b => b.flatten).flatten).flatten

/-- what both output branches of getBH_level2 share -/
structure Core (V : Type) where
  /-- length of the source axis: 1 after sumup -/
  nsrc : Nat
  /-- longest path -/
  M : Nat
  /-- pixel axes kept in B (`pix_shapes[0][:-1]`, nothing after pixel_agg) -/
  pixShapeOut : List Nat
  /-- B after pixel_agg and sumup, `[source][m][sensor][pixel]` -/
  B : List (List (List (List V)))

/-- getBH_level2 after input formatting up to and including `sumup` (the part before the code
branches on `output`) -/
def level2Core (flipX : V → V) (vmin vmax : V → V → V) (entries : List (Entry G V))
    (sensors : List (Sens G V)) (sumup : Bool) (agg : Agg) : Except Err (Core V) :=
  let leaves := entries.flatMap Entry.leaves
  if entries.isEmpty || sensors.isEmpty || entries.any (fun e => e.leaves.isEmpty) then
    .error .badUserInput
  else
  let shapes := sensors.map (·.pixShape)
  let allSame := shapes.all (· == shapes.headD [])
  if agg == .none && !allSame then .error .badUserInput else
  let M := pathLen leaves sensors
  -- [src][m][sensor][pixel]
  let B3 : List (List (List (List V))) := tensor flipX entries sensors
  let (pixShapeOut, B4) : List Nat × List (List (List (List V))) :=
    match agg with
    | .none => (shapes.headD [], B3)
    | a => ([], aggT a vmin vmax B3)
  let B5 := if sumup then sumupT B4 else B4
  let nsrc := if sumup then 1 else entries.length
  .ok { nsrc := nsrc, M := M, pixShapeOut := pixShapeOut, B := B5 }

/-- the whole of getBH_level2 after input formatting (ndarray output): squeeze, or the
`expand_dims(axis=-2)` that puts back one pixel axis after pixel_agg -/
def getBH (flipX : V → V) (vmin vmax : V → V → V) (entries : List (Entry G V))
    (sensors : List (Sens G V)) (sumup squeeze : Bool) (agg : Agg) : Except Err (Out V) :=
  match level2Core flipX vmin vmax entries sensors sumup agg with
  | .error e => .error e
  | .ok c =>
  let shape0 := [c.nsrc, c.M, sensors.length] ++ c.pixShapeOut
  let shape1 :=
    if squeeze then shape0.filter (· ≠ 1)
    else if agg != .none then shape0 ++ [1] else shape0
  .ok { shape := shape1, data := flat4 c.B }

/-- source column of the dataframe: the entry's label (modelled by its index), or the single
label `"sumup (n)"` -/
inductive SrcId where
  | sumup (n : Nat)
  | src (i : Nat)
  deriving Repr, DecidableEq

/-- `itertools.product(as, bs, cs, ds)`: last factor runs fastest -/
def product4 {α β γ δ : Type} (as : List α) (bs : List β) (cs : List γ) (ds : List δ) :
    List (α × β × γ × δ) :=
  as.flatMap fun a => bs.flatMap fun b => cs.flatMap fun c => ds.map fun d => (a, b, c, d)

/-- the `output == "dataframe"` branch: the index columns (source, path, sensor, pixel) built
by `itertools.product`, and the value columns `B.reshape(-1, 3)` assigned next to them (pandas
requires both to have the same number of rows) -/
structure DataFrame (V : Type) where
  index : List (SrcId × Nat × Nat × Nat)
  values : List V

def dataframe (flipX : V → V) (vmin vmax : V → V → V) (entries : List (Entry G V))
    (sensors : List (Sens G V)) (sumup : Bool) (agg : Agg) : Except Err (DataFrame V) :=
  match level2Core flipX vmin vmax entries sensors sumup agg with
  | .error e => .error e
  | .ok c =>
  let srcIds : List SrcId :=
    if sumup && entries.length > 1 then [.sumup entries.length]
    else (List.range entries.length).map .src
  let sensIds := List.range sensors.length
  let numOfPixels := if agg == .none then ((sensors.map (·.pixShape)).headD []).foldl (· * ·) 1 else 1
  .ok { index := product4 srcIds (List.range c.M) sensIds (List.range numOfPixels),
        values := flat4 c.B }

/-- the rows of the dataframe: index tuple next to its value -/
def dataframeRows (df : DataFrame V) : List ((SrcId × Nat × Nat × Nat) × V) :=
  df.index.zip df.values

/-! ### the same post-processing with `pixel_agg` as an ARBITRARY reduction (c03post)

`pixel_agg_func = getattr(np, pixel_agg)` is any numpy reduction (`mean`, `median`, `std`, `ptp`, …), applied per
(source, path index, sensor) to that sensor's own pixel values.  `Agg` above has the three the integer stream can
run exactly; the `…F` functions take the reduction as a function of the pixel list (`none` = `pixel_agg=None`).
They are the SAME statements in the same order as `level2Core` / `getBH` / `dataframe` (the order matters:
collection sum → sensor-frame rotation and handedness flip per sensor → reshape / split into sensors → pixel_agg per
sensor → sumup over the source axis → squeeze / expand_dims / dataframe); `level2Core_eq_F`, `getBH_eq_F`,
`dataframe_eq_F` (Lemmas/Level2Post.lean) show that the `Agg` versions are the instances `Agg.fn`.  The driver runs
`getBHF` / `dataframeF` at `Float` for `mean / median / std / min / max / sum` (family `level2f`). -/

/-- `pixel_agg_func(B, axis=pixel axes)` for an arbitrary reduction `f`: one value per (entry, m, sensor) -/
def aggTF (f : List V → V) (B : List (List (List (List V)))) : List (List (List (List V))) :=
  B.map fun Bl => Bl.map fun Bm => Bm.map fun px => [f px]

/-- the reduction an `Agg` name stands for -/
def Agg.fn (a : Agg) (vmin vmax : V → V → V) : Option (List V → V) :=
  match a with
  | .none => Option.none
  | a => Option.some (aggList a vmin vmax)

def level2CoreF (flipX : V → V) (entries : List (Entry G V))
    (sensors : List (Sens G V)) (sumup : Bool) (agg : Option (List V → V)) : Except Err (Core V) :=
  let leaves := entries.flatMap Entry.leaves
  if entries.isEmpty || sensors.isEmpty || entries.any (fun e => e.leaves.isEmpty) then
    .error .badUserInput
  else
  let shapes := sensors.map (·.pixShape)
  let allSame := shapes.all (· == shapes.headD [])
  if agg.isNone && !allSame then .error .badUserInput else
  let M := pathLen leaves sensors
  -- [src][m][sensor][pixel]: collection sums, sensor frame, handedness, split into sensors — all done
  let B3 : List (List (List (List V))) := tensor flipX entries sensors
  let (pixShapeOut, B4) : List Nat × List (List (List (List V))) :=
    match agg with
    | none => (shapes.headD [], B3)
    | some f => ([], aggTF f B3)
  let B5 := if sumup then sumupT B4 else B4
  let nsrc := if sumup then 1 else entries.length
  .ok { nsrc := nsrc, M := M, pixShapeOut := pixShapeOut, B := B5 }

def getBHF (flipX : V → V) (entries : List (Entry G V))
    (sensors : List (Sens G V)) (sumup squeeze : Bool) (agg : Option (List V → V)) : Except Err (Out V) :=
  match level2CoreF flipX entries sensors sumup agg with
  | .error e => .error e
  | .ok c =>
  let shape0 := [c.nsrc, c.M, sensors.length] ++ c.pixShapeOut
  let shape1 :=
    if squeeze then shape0.filter (· ≠ 1)
    else if agg.isSome then shape0 ++ [1] else shape0
  .ok { shape := shape1, data := flat4 c.B }

def dataframeF (flipX : V → V) (entries : List (Entry G V))
    (sensors : List (Sens G V)) (sumup : Bool) (agg : Option (List V → V)) : Except Err (DataFrame V) :=
  match level2CoreF flipX entries sensors sumup agg with
  | .error e => .error e
  | .ok c =>
  let srcIds : List SrcId :=
    if sumup && entries.length > 1 then [.sumup entries.length]
    else (List.range entries.length).map .src
  let sensIds := List.range sensors.length
  let numOfPixels := if agg.isNone then ((sensors.map (·.pixShape)).headD []).foldl (· * ·) 1 else 1
  .ok { index := product4 srcIds (List.range c.M) sensIds (List.range numOfPixels),
        values := flat4 c.B }

/-- the seeded change `C04/C03 agg-before-frame` as a counter-model (NOT what the code does; used only by the witness
theorems `aggregate_then_rotate_*` in Props/C03): pixel_agg per sensor on the GLOBAL-frame values, then the
sensor-frame rotation / flip applied once per sensor to the aggregated value -/
def tensorAggFirst (flipX : V → V) (f : List V → V) (entries : List (Entry G V)) (sensors : List (Sens G V)) :
    List (List (List (List V))) :=
  let leaves := entries.flatMap Entry.leaves
  let M := pathLen leaves sensors
  let B0 := leaves.map (leafB sensors M)
  let B1 := if leaves.length > entries.length then collapse 0 (entries.map Entry.colLen) B0 else B0
  let Bagg : List (List (List V)) := B1.map fun Bl => Bl.map fun row => (splitRow (pixInds sensors) row).map f
  let one : List (Sens G V) := sensors.map fun k => { k with pixels := [0], pixShape := [1] }
  (applySensors flipX one Bagg).map fun Bl => Bl.map fun row => row.map fun v => [v]

/-- the seeded change `C06b tile-resize` as a counter-model: a short path repeated cyclically (`np.resize`) -/
def cyclicGet {α : Type} (xs : List α) (m : Nat) : Option α := xs[m % xs.length]?

end
/-- local-frame field function of a homogeneous magnet for the fields J and M: the vector `pol` (polarization, resp.
magnetization) on the body, zero outside -/
def indicatorField {V : Type} [Zero V] (body : V → Bool) (pol : V) : V → V := fun x => if body x then pol else 0

/-- the closed axis-aligned box with edge lengths `dim` on integer points (`BHJM_magnet_cuboid`'s inside mask
`|x| - dim/2 < 1e-15·dim/2` at integer observers and integer dimensions: `2|x_i| ≤ dim_i`) -/
def boxBody (dim : V3 Int) (x : V3 Int) : Bool :=
  decide (-dim.x ≤ 2 * x.x ∧ 2 * x.x ≤ dim.x ∧ -dim.y ≤ 2 * x.y ∧ 2 * x.y ≤ dim.y ∧ -dim.z ≤ 2 * x.z ∧ 2 * x.z ≤ dim.z)

end MagpyVerif.Level2
