/-
Model/DisplaySensor.lean — the Sensor graphic apart from the pixel cubes (C19), as `traces_core.make_Sensor` computes it:
* the axes glyph: the literal template of `sensor_mesh._get_default_trace()` (regenerated: `Gen.SensorMesh`), turned for a
  left-handed sensor (`get_sensor_mesh(handedness="left")`: `from_euler("y", -90, degrees=True)`), the `cube_mask` collapse, the
  scaling by `dim_ext`, the halving                                                  — `glyphTemplate`, `sensorDim`, `sensorDimExt`, `sensorGlyph`
* the pixel hull box                                                                 — `hullBox`
* the whole vertex array of the merged trace: glyph, pixel cubes (`sensorPixels`, Model/DisplayArrow.lean), hull — `sensorTrace`
```
dim = np.array([dimension] * 3 if isinstance(dimension, (float, int)) else dimension[:3], dtype=float)
if autosize is not None and style.sizemode == "scaled":  dim *= autosize
if no_pix:  dim_ext = dim                                           # a 3-vector: per-axis scaling
else:
    if one_pix:  pixel = np.concatenate([[[0, 0, 0]], pixel])
    hull_dim = pixel.max(axis=0) - pixel.min(axis=0)
    dim_ext = max(np.mean(dim), np.min(hull_dim))                   # a scalar
cube_mask = (abs(vertices) < 1).all(axis=1)
vertices[cube_mask] = 0 * vertices[cube_mask]
vertices[~cube_mask] = dim_ext * vertices[~cube_mask]
vertices /= 2  # sensor_mesh vertices are of length 2
…
hull_pos = 0.5 * (pixel.max(axis=0) + pixel.min(axis=0))
hull_dim[hull_dim == 0] = pixel_dim / 2
hull_mesh = make_BaseCuboid("plotly-dict", position=hull_pos, dimension=hull_dim)
```
`pix` is `np.unique(np.array(pixel).reshape((-1, 3)), axis=0)` (sorted distinct rows; done by the harness).  The rotation of the
left-handed template is written out exactly, `(x, y, z) ↦ (-z, y, x)`; scipy's goes through the quaternion `(0, -sin 45°, 0, cos 45°)`
and is off by ~2e-16 (the `sensor` rows compare to 1e-12 of the glyph size).  Mathlib-free, computable, polymorphic over `Num α`.
-/
import MagpyVerif.Model.DisplayArrow
import MagpyVerif.Model.DisplayIdx
import MagpyVerif.Gen.SensorMesh
namespace MagpyVerif.DisplayTrig
open MagpyVerif MagpyVerif.Kern Num
variable {α : Type} [Num α]

/-- the double `m * 2^-k` -/
def dyadic (c : Int × Nat) : α :=
  (if c.1 < 0 then -(n c.1.natAbs) else n c.1.natAbs) / n (2 ^ c.2)

/-- `np.array([trace[k] for k in "xyz"]).T` of `get_sensor_mesh(handedness=…)`: the template, for a left-handed sensor turned by
`Rotation.from_euler("y", -90, degrees=True)` = `(x, y, z) ↦ (-z, y, x)` -/
def glyphTemplate (left : Bool) : List (V3 α) :=
  Gen.SensorMesh.verts.map fun v =>
    let p : V3 α := ⟨dyadic v.1, dyadic v.2.1, dyadic v.2.2⟩
    if left then (⟨-p.z, p.y, p.x⟩ : V3 α) else p

/-- `dim`, with `dim *= autosize` iff `autosize is not None and style.sizemode == "scaled"` -/
def sensorDim (size : V3 α) (autosize : Option α) (sizeScaled : Bool) : V3 α :=
  match autosize with
  | some a => if sizeScaled then ⟨size.x * a, size.y * a, size.z * a⟩ else size
  | none => size

/-- `(pixel.min(axis=0), pixel.max(axis=0))` after `if one_pix: pixel = np.concatenate([[[0, 0, 0]], pixel])`; NaN-free pixels -/
def pixelBounds (pix : List (V3 α)) : Option (V3 α × V3 α) :=
  let pix' := match pix with
    | [p] => [zero3, p]
    | l => l
  match Display.minMax (pix'.map (·.x)), Display.minMax (pix'.map (·.y)), Display.minMax (pix'.map (·.z)) with
  | some rx, some ry, some rz => some (⟨rx.1, ry.1, rz.1⟩, ⟨rx.2, ry.2, rz.2⟩)
  | _, _, _ => none

/-- `dim_ext` as a vector (a scalar is the vector with three equal entries); `pix = none`: the sensor has no pixel -/
def sensorDimExt (dim : V3 α) (pix : Option (List (V3 α))) : V3 α :=
  match pix with
  | none => dim
  | some ps =>
    match pixelBounds ps with
    | none => dim
    | some (lo, hi) =>
      let hd : V3 α := hi - lo
      let mean := (dim.x + dim.y + dim.z) / n 3
      let mn := Display.fmin (Display.fmin hd.x hd.y) hd.z
      -- Python's `max(a, b)`: `b if b > a else a`
      let s := if lt mean mn then mn else mean
      ⟨s, s, s⟩

/-- the `cube_mask` collapse, the scaling and the halving of one template vertex -/
def glyphVertex (dimExt : V3 α) (v : V3 α) : V3 α :=
  if lt (abs v.x) (n 1) && lt (abs v.y) (n 1) && lt (abs v.z) (n 1) then
    ⟨n 0 * v.x / n 2, n 0 * v.y / n 2, n 0 * v.z / n 2⟩
  else ⟨dimExt.x * v.x / n 2, dimExt.y * v.y / n 2, dimExt.z * v.z / n 2⟩

/-- the vertices of the axes glyph in the sensor's own frame -/
def sensorGlyph (left : Bool) (dimExt : V3 α) : List (V3 α) := (glyphTemplate left).map (glyphVertex dimExt)

/-- `pixel_dim` as it stands when the hull is built: multiplied by `pixel_size` only inside `if pixel_size > 0` -/
def pixelDimHull (pix : List (V3 α)) (scaled : Bool) (pixelSize dimExt : α) : α :=
  if lt (n 0) pixelSize then pixelDim pix scaled pixelSize dimExt else pixelDim pix scaled (n 1) dimExt

/-- `make_BaseCuboid("plotly-dict", position=hull_pos, dimension=hull_dim)`: `sign * 0.5 * dimension`, `(v * 1 + position) * 1` -/
def boxAt (p d : V3 α) : List (V3 α) :=
  let sg (i : Int) : α := if i < 0 then -(n 1) else n 1
  (Display.cuboidSignX.zip (Display.cuboidSignY.zip Display.cuboidSignZ)).map fun (a, b, c) =>
    (⟨(sg a * half * d.x * n 1 + p.x) * n 1, (sg b * half * d.y * n 1 + p.y) * n 1, (sg c * half * d.z * n 1 + p.z) * n 1⟩ : V3 α)

/-- the pixel hull: the bounding box of the pixels (of the pixel and the origin for one pixel), an extent of zero replaced by
`pixel_dim / 2` -/
def hullBox (pix : List (V3 α)) (pixelDim : α) : List (V3 α) :=
  match pixelBounds pix with
  | none => []
  | some (lo, hi) =>
    let fix (d : α) : α := if eq0 d then pixelDim / n 2 else d
    let hd : V3 α := ⟨fix (hi.x - lo.x), fix (hi.y - lo.y), fix (hi.z - lo.z)⟩
    let hp : V3 α := ⟨half * (hi.x + lo.x), half * (hi.y + lo.y), half * (hi.z + lo.z)⟩
    boxAt hp hd

/-- x, y, z of `make_Sensor(obj, autosize)`: glyph ++ pixel cubes ++ hull (`merge_mesh3d` concatenates) -/
def sensorTrace (left : Bool) (size : V3 α) (autosize : Option α) (sizeScaled : Bool) (pix : Option (List (V3 α)))
    (pixScaled : Bool) (pixelSize : α) : List (V3 α) :=
  let dim := sensorDim size autosize sizeScaled
  let dimExt := sensorDimExt dim pix
  let glyph := sensorGlyph left dimExt
  match pix with
  | none => glyph
  | some ps =>
    let cubePix := match ps with
      | [_] => ps          -- `poss = pixel[1:] if one_pix else pixel` (the origin row put in front is dropped again)
      | l => l
    glyph ++ sensorPixels cubePix pixScaled pixelSize dimExt.x ++ hullBox ps (pixelDimHull ps pixScaled pixelSize dimExt.x)

end MagpyVerif.DisplayTrig
