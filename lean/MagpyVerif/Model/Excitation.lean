/-
Model/Excitation.lean — the excitation attributes of magnets (`BaseMagnet`, class_BaseExcitations.py) as a state machine.

State: the two private attributes `_polarization`, `_magnetization` (each `None` or a float vector of shape (3,)).
Operations: assignment to `obj.polarization` / `obj.magnetization` (the two property setters), the constructor with
`magnetization=` / `polarization=` (either, both, neither), and reading the two properties (the getters return the stored
objects).  Modelled statement by statement, as the code is (skeletons regenerated in Gen/ExcSync.lean and pinned in
Props/C02.lean):

    @magnetization.setter
    def magnetization(self, mag):
        self._magnetization = check_format_input_vector(mag, dims=(1,), shape_m1=3, …, allow_None=True)   # raises ⇒ nothing assigned
        if self._magnetization is None:
            self._polarization = None
            return
        self._polarization = self._magnetization * (4 * np.pi * 1e-7)          # operator and constant: Gen.ExcSync
        if np.linalg.norm(self._magnetization) < 2000:
            self._magnetization_low_warning()                                    # AFTER both attributes were written

    @polarization.setter … the same with `/` and without the warning

    def __init__(…, magnetization, polarization, …):
        self._polarization = None; self._magnetization = None
        if magnetization is not None:
            self.magnetization = magnetization
            if polarization is not None: raise ValueError(…)
        if polarization is not None:
            self.polarization = polarization

An argument is `None`, a value the validator accepts (after `np.array(·, dtype=float)`: three doubles) or a value it
refuses (`bad`: wrong shape, not array_like, entries that are not numbers — which values these are is C17's
`check_format_input_vector` model).  The constant is NOT written here: it is `Gen.ExcSync.magToPolConst` /
`polToMagConst`, evaluated in the carrier (Float in the driver — the same IEEE operations Python performs; ℝ in the
theorems).  Mathlib-free, computable.
-/
import MagpyVerif.Gen.ExcSync

namespace MagpyVerif.Exc
open MagpyVerif.Kern

variable {α : Type} [Num α]

/-- the pair of private attributes -/
structure St (α : Type) where
  pol : Option (V3 α)
  mag : Option (V3 α)

/-- an assigned value as the validator sees it -/
inductive Arg (α : Type) where
  | none
  | vec (v : V3 α)
  | bad

inductive Op (α : Type) where
  | setPol (a : Arg α)
  | setMag (a : Arg α)

/-- exceptions: the library's input error (validator), the constructor's plain `ValueError`, and — only when warnings
are escalated to errors — the low-magnetization warning raised out of the constructor -/
inductive Err where
  | badUserInput | valueError | warningAsError
  deriving DecidableEq, Repr

/-- how a call ends: normally, normally after emitting the low-magnetization warning (which RAISES when warnings are
escalated to errors, `python -W error`), or with an exception -/
inductive Outcome where
  | ok | warned | err (e : Err)
  deriving DecidableEq, Repr

/-- does the call end in an exception, given whether warnings are escalated -/
def Outcome.raises (strict : Bool) : Outcome → Bool
  | .ok => false
  | .warned => strict
  | .err _ => true

/-- the constant of the magnetization setter (J from M) and of the polarization setter (M from J) -/
def cMagToPol : α := Gen.ExcSync.magToPolConst.eval
def cPolToMag : α := Gen.ExcSync.polToMagConst.eval

/-- `np.linalg.norm(self._magnetization) < 2000` -/
def lowNorm (v : V3 α) : Bool := Num.lt (norm v) (n Gen.ExcSync.warnThreshold)

/-- `obj.magnetization = a` -/
def setMag (st : St α) : Arg α → St α × Outcome
  | .bad => (st, .err .badUserInput)
  | .none => ({ pol := none, mag := none }, .ok)
  | .vec v =>
    ({ mag := some v, pol := some (Gen.ExcSync.magToPolOp.apply v cMagToPol) }, if lowNorm v then .warned else .ok)

/-- `obj.polarization = a` -/
def setPol (st : St α) : Arg α → St α × Outcome
  | .bad => (st, .err .badUserInput)
  | .none => ({ pol := none, mag := none }, .ok)
  | .vec v => ({ pol := some v, mag := some (Gen.ExcSync.polToMagOp.apply v cPolToMag) }, .ok)

def step (st : St α) : Op α → St α × Outcome
  | .setPol a => setPol st a
  | .setMag a => setMag st a

def Arg.isNone : Arg α → Bool
  | .none => true
  | _ => false

/-- `BaseMagnet.__init__`: the state the new object has and how the call ended (`ok` / `warned`), or the exception —
then there is no object.  `strict`: warnings are errors, the warning of the magnetization setter aborts the construction. -/
def construct (strict : Bool) (mag pol : Arg α) : Except Err (St α × Outcome) :=
  let st0 : St α := { pol := none, mag := none }
  if mag.isNone then
    if pol.isNone then .ok (st0, .ok)
    else match setPol st0 pol with
      | (_, .err e) => .error e
      | r => .ok r
  else match setMag st0 mag with
    | (_, .err e) => .error e
    | (st1, o) =>
      if o.raises strict then .error .warningAsError
      else if !pol.isNone then .error .valueError
      else .ok (st1, o)

/-- an assignment history: the state after every operation together with the operation's outcome -/
def run (st : St α) : List (Op α) → List (St α × Outcome)
  | [] => []
  | op :: ops => let r := step st op; r :: run r.1 ops

/-- the state at the end of a history -/
def final (st : St α) (ops : List (Op α)) : St α := ops.foldl (fun s op => (step s op).1) st

/-- reading `obj.polarization`, `obj.magnetization` (the getters return the stored attributes) -/
def read (st : St α) : Option (V3 α) × Option (V3 α) := (st.pol, st.mag)

end MagpyVerif.Exc
