/-
Model/Display.lean — discrete / algebraic parts of the display pipeline (C19), mirroring the code:

* `get_rot_pos_from_path(obj, show_path)`  (magpylib/_src/display/traces_utility.py): which path
  indices are displayed — `getRotPosInds`;
* `make_Cuboid`, `make_Tetrahedron`, `make_Prism`, `make_Pyramid` (magpylib/_src/display/traces_base.py):
  vertex tables (Cuboid, Tetrahedron) and the `i, j, k` triangle index arrays (all four);
* `check_chirality` (magpylib/_src/fields/field_BH_tetrahedron.py) as used by `make_Tetrahedron`;
* `place_and_orient_model3d` (traces_utility.py): `place`, `placeModel` (any scalar carrier; the driver runs it at IEEE double
  on dyadic data, where every operation is exact).

Mathlib-free and computable (linked into the compiled driver, family `disp`).  Coordinates are
integers; the Cuboid vertices are returned DOUBLED (the code multiplies by 0.5) so that everything
stays in ℤ.
-/
import MagpyVerif.Model.Mesh
import MagpyVerif.Model.Basic
namespace MagpyVerif.Display
open MagpyVerif.Mesh (Face)

/-! ## numpy pieces used by `get_rot_pos_from_path` -/

inductive Err
  | valueError   -- `raise ValueError(f"Invalid show_path value ({show_path})")`
  | indexError   -- numpy: `index i is out of bounds for axis 0 with size n` / `j1[-1]` on an empty array
  deriving DecidableEq, Repr

/-- the values `show_path` (= `style.path.frames`) can take -/
inductive ShowPath
  | none                    -- `None`  (treated as `True`)
  | bool (b : Bool)         -- `True` / `False`
  | int (k : Int)           -- a Python `int` (not a bool)
  | list (l : List Int)     -- an iterable of ints (list / tuple)
  | other                   -- anything else that is not `== 0` (non-zero float, str, numpy scalar …)
  deriving DecidableEq, Repr

/-- `np.arange(n)[::step]` for `step ≠ 0`, with CPython's slice arithmetic
(`PySlice_AdjustIndices`): for `step > 0` start 0, stop n, length `(n-1)/step + 1` (0 if n = 0),
element `q*step`; for `step < 0` start n-1, stop -1, same length formula with `|step|`, element
`n-1 - q*|step|`. -/
def arangeSlice (n : Nat) (step : Int) : List Int :=
  let s := step.natAbs
  let len := if n = 0 then 0 else (n - 1) / s + 1
  if step > 0 then (List.range len).map (fun q => ((q * s : Nat) : Int))
  else (List.range len).map (fun q => ((n : Int) - 1) - ((q * s : Nat) : Int))

/-- `inds[inds >= path_len] = path_len - 1` -/
def clipInds (n : Nat) (l : List Int) : List Int :=
  l.map (fun i => if i ≥ (n : Int) then (n : Int) - 1 else i)

/-- insertion into a strictly increasing list, dropping an element already present -/
def insertU (x : Int) : List Int → List Int
  | [] => [x]
  | y :: ys => if x < y then x :: y :: ys else if x = y then y :: ys else y :: insertU x ys

/-- `np.unique(inds)`: the sorted array of distinct values -/
def unique (l : List Int) : List Int := l.foldr insertU []

/-- one element of the fancy indexing `pos[inds]` / `orient[inds]` on an axis of size `n`:
negative indices count from the end, anything outside `[-n, n)` raises IndexError -/
def fancyIndex (n : Nat) (i : Int) : Except Err Nat :=
  if i < -(n : Int) ∨ i ≥ (n : Int) then .error .indexError
  else .ok (if i < 0 then (i + (n : Int)).toNat else i.toNat)

/-- `pos[inds]`: the path rows actually selected -/
def takeInds (n : Nat) : List Int → Except Err (List Nat)
  | [] => .ok []
  | i :: is =>
    match fancyIndex n i with
    | .error e => .error e
    | .ok j =>
      match takeInds n is with
      | .error e => .error e
      | .ok js => .ok (j :: js)

/-- the `if / elif` chain assigning `inds` -/
def rawInds (n : Nat) : ShowPath → Except Err (List Int)
  | .none => .ok [-1]                                   -- show_path = True
  | .bool _ => .ok [-1]                                 -- `show_path is True or show_path is False`
  | .int k => if k = 0 then .ok [-1]                    -- `show_path == 0`
              else .ok (arangeSlice n (-k))             -- `np.arange(path_len, dtype=int)[::-show_path]`
  | .list l => .ok l                                    -- `np.array(show_path)`
  | .other => .error .valueError

/-- `get_rot_pos_from_path`: returns `(inds, rows)` where `inds` is the array the function returns
(as is: negative entries stay negative) and `rows` are the path rows that `orient[inds]`,
`pos[inds]` select, i.e. the path indices at which the object is drawn. -/
def getRotPosInds (n : Nat) (sp : ShowPath) : Except Err (List Int × List Nat) :=
  match rawInds n sp with
  | .error e => .error e
  | .ok inds =>
    let inds := clipInds n inds
    let inds := unique inds
    let inds := if inds.isEmpty then [(n : Int) - 1] else inds   -- `if inds.size == 0`
    match takeInds n inds with
    | .error e => .error e
    | .ok rows => .ok (inds, rows)

/-- the displayed path indices (second component) -/
def displayedIndices (n : Nat) (sp : ShowPath) : Except Err (List Nat) :=
  match getRotPosInds n sp with
  | .error e => .error e
  | .ok r => .ok r.2

/-! ## `make_Cuboid` -/

abbrev I3 := Int × Int × Int

/-- the literal sign tables `np.array([-1, -1, 1, 1, -1, -1, 1, 1])` … of `make_Cuboid` -/
def cuboidSignX : List Int := [-1, -1, 1, 1, -1, -1, 1, 1]
def cuboidSignY : List Int := [-1, 1, 1, -1, -1, 1, 1, -1]
def cuboidSignZ : List Int := [-1, -1, -1, -1, 1, 1, 1, 1]

/-- the literal index arrays `"i"`, `"j"`, `"k"` of `make_Cuboid` -/
def cuboidI : List Nat := [7, 0, 0, 0, 4, 4, 2, 6, 4, 0, 3, 7]
def cuboidJ : List Nat := [0, 7, 1, 2, 6, 7, 1, 2, 5, 5, 2, 2]
def cuboidK : List Nat := [3, 4, 2, 3, 5, 6, 5, 5, 0, 1, 7, 6]

/-- `zip(i, j, k)` -/
def zip3 (i j k : List Nat) : List Face := (i.zip (j.zip k))

def cuboidTriangles : List Face := zip3 cuboidI cuboidJ cuboidK

/-- TWICE the coordinate arrays `x, y, z` before placement: `2 * (sign * 0.5 * dimension[a])` -/
def cuboidLocal2 (dim : I3) : List Int × List Int × List Int :=
  (cuboidSignX.map (· * dim.1), cuboidSignY.map (· * dim.2.1), cuboidSignZ.map (· * dim.2.2))

/-- `place_and_orient_model3d(trace, orientation=None, position=position)` with scale = 1 and
length_factor = 1 (what `make_Cuboid` calls), on doubled coordinates: unchanged when `position is
None`, else `vertices * 1 + position`. -/
def placeNoRot2 (pos : Option I3) (c : List Int × List Int × List Int) : List Int × List Int × List Int :=
  match pos with
  | none => c
  | some p => (c.1.map (· * 1 + 2 * p.1), c.2.1.map (· * 1 + 2 * p.2.1), c.2.2.map (· * 1 + 2 * p.2.2))

/-- TWICE the coordinate arrays `x, y, z` of `make_Cuboid(dimension=dim, position=pos)` -/
def cuboidCoords2 (dim : I3) (pos : Option I3) : List Int × List Int × List Int :=
  placeNoRot2 pos (cuboidLocal2 dim)

/-- the 8 doubled vertices as points -/
def cuboidVerts2 (dim : I3) (pos : Option I3) : List I3 :=
  let c := cuboidCoords2 dim pos
  c.1.zip (c.2.1.zip c.2.2)

/-! ## `make_Tetrahedron` (with `check_chirality`) -/

def sub3 (a b : I3) : I3 := (a.1 - b.1, a.2.1 - b.2.1, a.2.2 - b.2.2)
def cross3 (a b : I3) : I3 :=
  (a.2.1 * b.2.2 - a.2.2 * b.2.1, a.2.2 * b.1 - a.1 * b.2.2, a.1 * b.2.1 - a.2.1 * b.1)
def dot3 (a b : I3) : Int := a.1 * b.1 + a.2.1 * b.2.1 + a.2.2 * b.2.2
/-- determinant of the matrix with COLUMNS a, b, c (`vecs[:, :, 0] = p1 - p0`, …) -/
def det3 (a b c : I3) : Int := dot3 a (cross3 b c)

/-- `check_chirality` on one tetrahedron: exchange p2 and p3 when `det < 0` -/
def checkChirality (p : I3 × I3 × I3 × I3) : I3 × I3 × I3 × I3 :=
  let (p0, p1, p2, p3) := p
  if det3 (sub3 p1 p0) (sub3 p2 p0) (sub3 p3 p0) < 0 then (p0, p1, p3, p2) else (p0, p1, p2, p3)

/-- `triangles = np.array([[0, 2, 1], [0, 3, 2], [1, 3, 0], [1, 2, 3]])` -/
def tetraTriangles : List Face := [(0, 2, 1), (0, 3, 2), (1, 3, 0), (1, 2, 3)]

/-- the four points of the drawn model, in order -/
def tetraPoints (p : I3 × I3 × I3 × I3) : List I3 :=
  let (q0, q1, q2, q3) := checkChirality p
  [q0, q1, q2, q3]

/-! ## `make_Prism`, `make_Pyramid`: index structure only (coordinates use sin / cos) -/

/-- `a[-1] = v` on a 1-d array (IndexError on an empty one) -/
def setLast (l : List Nat) (v : Nat) : Except Err (List Nat) :=
  match l with
  | [] => .error .indexError
  | _ => .ok (l.dropLast ++ [v])

/-- the `i, j, k` arrays of `make_Prism(base=N)`; the vertex array has `2N + 2` rows
(bottom ring 0..N-1, top ring N..2N-1, bottom centre 2N, top centre 2N+1) -/
def prismIJK (N : Nat) : Except Err (List Nat × List Nat × List Nat) := do
  let i1 := List.range N                       -- np.arange(N)
  let j1 ← setLast (i1.map (· + 1)) 0         -- j1 = i1 + 1; j1[-1] = 0
  let k1 := i1.map (· + N)
  let i2 := i1.map (· + N)
  let j2 ← setLast (j1.map (· + N)) N         -- j2 = j1 + N; j2[-1] = N
  let k2 ← setLast (i1.map (· + 1)) 0         -- k2 = i1 + 1; k2[-1] = 0
  let i3 := i1
  let j3 := j1
  let k3 := i1.map (fun q => q * 0 + 2 * N)
  let i4 := i2
  let j4 := j2
  let k4 := k3.map (· + 1)
  -- "k2&j2 and k3&j3 inverted because of face orientation"
  pure (i1 ++ i2 ++ i3 ++ i4, j1 ++ k2 ++ k3 ++ j4, k1 ++ j2 ++ j3 ++ k4)

def prismTriangles (N : Nat) : Except Err (List Face) :=
  match prismIJK N with
  | .error e => .error e
  | .ok (i, j, k) => .ok (zip3 i j k)

/-- the `i, j, k` arrays of `make_Pyramid(base=N)`; the vertex array has `N + 1` rows (base ring
0..N-1, tip N) -/
def pyramidIJK (N : Nat) : Except Err (List Nat × List Nat × List Nat) := do
  let i := List.range N
  let j ← setLast (i.map (· + 1)) 0
  let k := List.replicate N N                  -- np.array([N] * N)
  pure (i, j, k)

def pyramidTriangles (N : Nat) : Except Err (List Face) :=
  match pyramidIJK N with
  | .error e => .error e
  | .ok (i, j, k) => .ok (zip3 i j k)

/-! ## `place_and_orient_model3d` (magpylib/_src/display/traces_utility.py)

A model trace is a dict (`model_kwargs`, insertion-ordered) and/or a tuple of positional arguments (`model_args`);
three of its entries are the coordinate arrays, named by `coordsargs` (`{"x": "x", …}` by default, `{"x": "args[0]", …}`
by default when `model_args` is non-empty).  The code: early return `{**model_kwargs, **kwargs}` (nothing transformed,
`scale` NOT looked at) iff `orientation is None and position is None and length_factor == 1`; otherwise the three
coordinate arrays are fetched (x, y, z in this order: a missing key raises ValueError, a missing positional argument
IndexError), stacked (different shapes: numpy's ValueError), every vertex is mapped to
`(orientation.apply(v) * scale + position) * length_factor` (no rotation for `orientation=None`, `position=None` is the
origin), the arrays are written back under the same keys / argument indices (shape kept), every other entry is left
as it is, and `**kwargs` is merged last.  Returned: the new dict, and on request the new args (a list; in the early
return the caller's object, possibly None) and the resolved `coordsargs` (the caller's, possibly None, in the early
return).  Well-formed input assumed: the three coordinate names are all dict keys or all `args[i]`, and name arrays. -/
section placement

/-- `(orientation.apply(v) * scale + position) * length_factor` -/
def place {G V K : Type} [SMul G V] [SMul K V] [Add V] (R : G) (p : V) (scale f : K) (v : V) : V :=
  f • (scale • (R • v) + p)

/-- the same with the optional arguments as the code treats them -/
def placeOpt {G V K : Type} [SMul G V] [SMul K V] [Add V] [Zero V] (R : Option G) (p : Option V) (scale f : K)
    (v : V) : V :=
  f • (scale • (match R with | some r => r • v | none => v) + p.getD 0)

/-- a value in a trace dict / argument tuple: an array (shape, row-major data) or anything else -/
inductive TVal (α : Type) where
  | arr (shape : List Nat) (data : List α)
  | other (tag : Int)
  deriving Repr, BEq, DecidableEq

/-- one entry of `coordsargs`: a dict key or `"args[i]"` -/
inductive CKey where
  | key (k : String)
  | arg (i : Nat)
  deriving Repr, BEq, DecidableEq

/-- `d[k] = v` on an insertion-ordered dict -/
def dictSet {β : Type} (d : List (String × β)) (k : String) (v : β) : List (String × β) :=
  if d.any (·.1 == k) then d.map (fun kv => if kv.1 == k then (k, v) else kv) else d ++ [(k, v)]

/-- `{**d, **u}` -/
def dictUpdate {β : Type} (d u : List (String × β)) : List (String × β) :=
  u.foldl (fun d kv => dictSet d kv.1 kv.2) d

structure PlaceIn (α : Type) where
  kwargs : List (String × TVal α)
  args : Option (List (TVal α))
  orientation : Option (M3 α)
  position : Option (V3 α)
  coordsargs : Option (CKey × CKey × CKey)
  scale : α
  lengthFactor : α
  /-- `**kwargs` -/
  extra : List (String × TVal α)

structure PlaceOut (α : Type) where
  kwargs : List (String × TVal α)
  args : Option (List (TVal α))
  coordsargs : Option (CKey × CKey × CKey)

variable {α : Type}

scoped instance [Mul α] : SMul α (V3 α) := ⟨V3.smul⟩

/-- `get_vertices_from_model`: the resolved coordsargs -/
def resolveCoords (a : PlaceIn α) : CKey × CKey × CKey :=
  match a.coordsargs with
  | some c => c
  | none => if (a.args.getD []).isEmpty then (.key "x", .key "y", .key "z") else (.arg 0, .arg 1, .arg 2)

def fetchCoord (a : PlaceIn α) : CKey → Except Err (TVal α)
  | .arg i => match (a.args.getD [])[i]? with
    | some v => .ok v
    | none => .error .indexError
  | .key k => match a.kwargs.lookup k with
    | some v => .ok v
    | none => .error .valueError

/-- `list[i] = v` -/
def listSet {β : Type} (l : List β) (i : Nat) (v : β) : List β := l.set i v

def placeModel [Add α] [Mul α] [OfNat α 0] [OfNat α 1] [BEq α] (a : PlaceIn α) : Except Err (PlaceOut α) :=
  if a.orientation.isNone && a.position.isNone && a.lengthFactor == 1 then
    .ok { kwargs := dictUpdate a.kwargs a.extra, args := a.args, coordsargs := a.coordsargs }
  else
    let ca := resolveCoords a
    match fetchCoord a ca.1 with
    | .error e => .error e
    | .ok vx =>
    match fetchCoord a ca.2.1 with
    | .error e => .error e
    | .ok vy =>
    match fetchCoord a ca.2.2 with
    | .error e => .error e
    | .ok vz =>
    match vx, vy, vz with
    | .arr sx dx, .arr sy dy, .arr sz dz =>
      if sx != sy || sy != sz then .error .valueError else
      let pts : List (V3 α) := (dx.zip (dy.zip dz)).map fun (x, y, z) =>
        placeOpt a.orientation a.position a.scale a.lengthFactor (⟨x, y, z⟩ : V3 α)
      let nx := TVal.arr sx (pts.map (·.x))
      let ny := TVal.arr sx (pts.map (·.y))
      let nz := TVal.arr sx (pts.map (·.z))
      match ca with
      | (.arg i, .arg j, .arg k) =>
        .ok { kwargs := dictUpdate a.kwargs a.extra,
              args := some (listSet (listSet (listSet (a.args.getD []) i nx) j ny) k nz),
              coordsargs := some ca }
      | (.key i, .key j, .key k) =>
        .ok { kwargs := dictUpdate (dictUpdate a.kwargs (dictSet (dictSet (dictSet [] i nx) j ny) k nz)) a.extra,
              args := some (a.args.getD []),
              coordsargs := some ca }
      | _ => .error .indexError
    | _, _, _ => .error .valueError
end placement

end MagpyVerif.Display
