/-
Model/ExcBase.lean — the small expression language in which `translate/gen.py` (gen_ExcSync) reports the constant that
the polarization / magnetization setters of `BaseMagnet` convert with (class_BaseExcitations.py), and its evaluation in
any scalar carrier.  Mathlib-free, computable.  `Gen/ExcSync.lean` imports this file; `Model/Excitation.lean` imports both.
-/
import MagpyVerif.Model.Kernels

namespace MagpyVerif.Exc
open MagpyVerif.Kern

/-- a constant expression of the source: non-negative integer literal, decimal float literal `mant·10^(-negExp)`
(the generator only emits it when the double of the literal IS the correctly rounded quotient of the two integers),
`np.pi` / `math.pi`, a name bound to scipy's `mu_0` (= the exported `magpylib.mu_0`), products and quotients -/
inductive CExpr where
  | nat (k : Nat)
  | dec (mant negExp : Nat)
  | pi
  | exported
  | mul (a b : CExpr)
  | div (a b : CExpr)
  deriving DecidableEq, Repr

/-- the operator between the stored attribute and the constant: `arr * c` or `arr / c` -/
inductive BinOp where
  | mul | div
  deriving DecidableEq, Repr

variable {α : Type} [Num α]

/-- the value of the expression, evaluated left to right as Python does (`4 * np.pi * 1e-7` = `(4·π)·1e-7`) -/
def CExpr.eval : CExpr → α
  | .nat k => n k
  | .dec m e => n m / n (10 ^ e)
  | .pi => Num.pi
  | .exported => Num.mu0
  | .mul a b => a.eval * b.eval
  | .div a b => a.eval / b.eval

/-- `arr * c` / `arr / c` on a vector of shape (3,) -/
def BinOp.apply (op : BinOp) (v : V3 α) (c : α) : V3 α :=
  match op with
  | .mul => ⟨v.x * c, v.y * c, v.z * c⟩
  | .div => ⟨v.x / c, v.y / c, v.z / c⟩

end MagpyVerif.Exc
