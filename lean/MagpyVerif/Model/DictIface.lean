/-
Model/DictIface.lean — the functional interface `getBH_dict_level2` (field_wrap_BH.py) as it is written (C07).

    getB("Cuboid", observers, dimension=…, polarization=…, position=…, orientation=…, squeeze=…)

What is modelled, in the code's order:
* class lookup in the registry (`KeyError` → MagpylibBadUserInput);
* the table `{"position": 2, "orientation": 2, "observers": 2}` updated with the class's
  `_field_func_kwargs_ndim`; a keyword that is in neither has expected rank 1 (`.get(key, 1)`);
* first loop, keywords in call order, then observers, position, orientation: conversion to a float array
  (`convert`: Python numbers, arrays, lists of arrays — ragged detection on the TOP-LEVEL lengths only, a list of
  arrays of equal length but different deeper shapes raises ValueError, `None` is the TypeError → MagpylibBadUserInput
  exit, `[]` / a 0-d ndarray leak an IndexError from `val[0]`), then `secure`: only a value whose rank EQUALS the
  expected rank (or a ragged one) is looked at — length 1 ⇒ `np.squeeze` (ALL unit axes go), otherwise its length is
  recorded in `vec_lengths`;
* `len(set(vec_lengths.values())) > 1` → MagpylibBadUserInput, `vec_len = max(…, default=1)` (`agree`);
* second loop: every non-ragged value of rank < expected is `np.tile`d with reps `(vec_len, 1, …, 1)` (`Arr.tile`);
  a value of rank > expected is handed on untouched (`Treat.passThrough`);
* `getBH_level1`: observers into the source frame, ONE call of the field function on the n rows, result rotated back;
  `np.squeeze` of the (n, 3) result if `squeeze`.

Pose keywords (observers / position / orientation) are `Given`: one value or a stack of values (well-formed input:
the last axis is 3, rank 1 or 2; `orientation` is a scipy Rotation whose `as_quat()` is a (4,) or (m, 4) array —
the quaternion round trip `from_quat(tile(as_quat()))` is modelled as tiling the rotations).  Assumed, exercised by
the `dict` correspondence stream: numpy's `tile` / `squeeze` / `array` semantics as written in `Arr`; the field
function is row-wise (`F` receives the i-th slice of every argument — row independence of the real field functions is
C05/C06's subject).
-/
import MagpyVerif.Model.Level2

namespace MagpyVerif.DictIface

/-- how the code treats a parameter of rank `ndim` when the table expects `expected` -/
inductive Treat where
  | stack      -- `val.ndim == expected_dim`: per-instance values, length counted
  | tile       -- `val.ndim < expected_dim`: one value, tiled `vec_len` times
  | passThrough -- larger rank: handed on unchanged (the core function then fails or misreads it)
  deriving DecidableEq, Repr

def treat (expected ndim : Nat) : Treat :=
  if ndim = expected then .stack else if ndim < expected then .tile else .passThrough

/-- a pose parameter as the user gives it -/
inductive Given (α : Type) where
  | single (v : α)
  | stack (vs : List α)

/-- lengths that enter `vec_lengths` (a stack of length 1 is squeezed to a single value) -/
def Given.len? {α : Type} : Given α → Option Nat
  | .single _ => none
  | .stack vs => if vs.length = 1 then none else some vs.length

/-- `len(set(lengths)) > 1` → rejected; `max(lengths, default=1)` -/
def agree : List Nat → Option Nat
  | [] => some 1
  | n :: ns => if ns.all (· = n) then some n else none

/-- `vec_len`: all counted lengths must agree; 1 if none is counted -/
def vecLen {α : Type} (gs : List (Given α)) : Option Nat := agree (gs.filterMap Given.len?)

/-- rows handed to the core function -/
def rows {α : Type} (n : Nat) : Given α → List α
  | .single v => List.replicate n v
  | .stack vs => match vs with
    | [x] => List.replicate n x
    | _ => vs

/-- the value that row `i` uses: the single value, the only value of a length-1 stack, the i-th of a stack -/
def pick {α : Type} (i : Nat) : Given α → Option α
  | .single v => some v
  | .stack vs => if vs.length = 1 then vs[0]? else vs[i]?

/-! ### arrays -/

/-- a float array: shape and row-major data -/
structure Arr (α : Type) where
  shape : List Nat
  data : List α
  deriving Repr, BEq, DecidableEq

namespace Arr
variable {α : Type}
def ndim (a : Arr α) : Nat := a.shape.length
/-- `len(val)` (rank ≥ 1) -/
def len (a : Arr α) : Nat := a.shape.headD 0
def prod (s : List Nat) : Nat := s.foldr (· * ·) 1
/-- number of scalars in one slice along the first axis -/
def stride (a : Arr α) : Nat := prod a.shape.tail
/-- `val[i]` -/
def row (a : Arr α) (i : Nat) : Arr α := ⟨a.shape.tail, (a.data.drop (i * a.stride)).take a.stride⟩
/-- `np.squeeze(val)`: every axis of length 1 is dropped -/
def squeeze (a : Arr α) : Arr α := ⟨a.shape.filter (· ≠ 1), a.data⟩
/-- `np.tile(val, (n, 1, …, 1))` with `e` repetition counts, for `val.ndim < e`: `val` is promoted to rank `e` by
prepending unit axes, then repeated `n` times along the first one -/
def tile (e n : Nat) (a : Arr α) : Arr α :=
  ⟨n :: (List.replicate (e - 1 - a.ndim) 1 ++ a.shape), (List.replicate n a.data).flatten⟩
/-- shape and data fit -/
def WF (a : Arr α) : Prop := a.data.length = prod a.shape
end Arr

/-- a keyword value as the caller writes it -/
inductive Val (α : Type) where
  /-- a Python / numpy number (`isinstance(val, numbers.Number)`) -/
  | num (x : α)
  /-- an ndarray or homogeneous nested sequence of rank ≥ 1 with no empty axis -/
  | arr (a : Arr α)
  /-- a Python list of arrays of rank ≥ 1 (possibly of different shapes) -/
  | seq (rows : List (Arr α))
  /-- `None`: `val[0]` raises TypeError -/
  | notSubscriptable
  /-- `[]` or a 0-d ndarray: `val[0]` raises IndexError (not caught by the code) -/
  | emptyOrZeroDim

inductive CallErr where
  | badUserInput | indexError | valueError
  deriving Repr, DecidableEq

/-- what `np.array(...)` of the first loop yields: a float array or a 1-d object array of float arrays -/
inductive Conv (α : Type) where
  | arr (a : Arr α)
  | ragged (rows : List (Arr α))

variable {α : Type}

/-- the `try:` block of the first loop -/
def convert : Val α → Except CallErr (Conv α)
  | .num x => .ok (.arr ⟨[], [x]⟩)
  | .arr a => .ok (.arr a)
  | .seq [] => .error .indexError
  | .seq (r0 :: rs) =>
    if (r0 :: rs).any (fun o => o.len != r0.len) then .ok (.ragged (r0 :: rs))
    else if rs.all (fun o => o.shape == r0.shape) then
      .ok (.arr ⟨(r0 :: rs).length :: r0.shape, (r0 :: rs).flatMap (·.data)⟩)
    else .error .valueError
  | .notSubscriptable => .error .badUserInput
  | .emptyOrZeroDim => .error .indexError

/-- the rest of the first loop: `if val.ndim == expected_dim or ragged: if len(val) == 1: squeeze else: count` -/
def secure (e : Nat) : Conv α → Conv α × Option Nat
  | .ragged rs => (.ragged rs, if rs.length = 1 then none else some rs.length)
  | .arr a =>
    if treat e a.ndim = .stack then
      (if a.len = 1 then (.arr a.squeeze, none) else (.arr a, some a.len))
    else (.arr a, none)

/-- the second loop: `if val.ndim < expected_dim and not ragged: np.tile(val, (vec_len, 1, …))` -/
def tileArg (e n : Nat) : Conv α → Conv α
  | .ragged rs => .ragged rs
  | .arr a => if treat e a.ndim = .tile then .arr (a.tile e n) else .arr a

/-- `val[i]` of what the field function receives -/
def Conv.row (i : Nat) : Conv α → Arr α
  | .arr a => a.row i
  | .ragged rs => rs.getD i ⟨[], []⟩

/-- the functional call -/
structure Call (G V α : Type) where
  /-- keyword arguments in call order -/
  params : List (String × Val α)
  observers : Given V
  position : Given V
  orientation : Given G
  squeeze : Bool

/-- what `getBH_level1` is called with -/
structure Marshalled (G V α : Type) where
  n : Nat
  args : List (String × Conv α)
  observers : List V
  position : List V
  orientation : List G

/-- `field_func_kwargs_ndim.get(key, 1)` -/
def expected (table : List (String × Nat)) (key : String) : Nat := (table.lookup key).getD 1

variable {G V : Type}

/-- both loops of getBH_dict_level2 -/
def marshal (table : List (String × Nat)) (c : Call G V α) : Except CallErr (Marshalled G V α) :=
  match c.params.mapM (fun (kv : String × Val α) =>
      (convert kv.2).map fun cv => (kv.1, secure (expected table kv.1) cv)) with
  | .error e => .error e
  | .ok secured =>
    let lens := secured.filterMap (·.2.2) ++
      [c.observers.len?, c.position.len?, c.orientation.len?].filterMap id
    match agree lens with
    | none => .error .badUserInput
    | some n => .ok {
        n := n
        args := secured.map fun (k, cv, _) => (k, tileArg (expected table k) n cv)
        observers := rows n c.observers
        position := rows n c.position
        orientation := rows n c.orientation }

/-- the i-th parameter set: the i-th slice of every argument -/
def paramSet (m : Marshalled G V α) (i : Nat) : List (String × Arr α) :=
  m.args.map fun (k, cv) => (k, cv.row i)

section
variable [Inv G] [SMul G V] [Sub V] [Zero V]

/-- the observers the field function receives: `orientation.apply(observers - position, inverse=True)` -/
def localObs (m : Marshalled G V α) : List V :=
  (List.range m.n).map fun i =>
    match m.orientation[i]?, m.position[i]?, m.observers[i]? with
    | some r, some p, some x => r⁻¹ • (x - p)
    | _, _, _ => 0

/-- getBH_level1 on the marshalled rows: field function (row-wise `F`), result rotated back -/
def fieldRows (F : List (String × Arr α) → V → V) (m : Marshalled G V α) : List V :=
  (List.range m.n).map fun i =>
    match m.orientation[i]?, m.position[i]?, m.observers[i]? with
    | some r, some p, some x => r • F (paramSet m i) (r⁻¹ • (x - p))
    | _, _, _ => 0

/-- the whole of getBH_dict_level2: `tables` is the registry (class name ↦ `_field_func_kwargs_ndim`); the result is
the (n, 3) array, `np.squeeze`d (n = 1 ⇒ shape (3,)) if `squeeze` — `shape` lists the axes before the final 3 -/
def call (tables : List (String × List (String × Nat))) (cls : String)
    (F : List (String × Arr α) → V → V) (c : Call G V α) : Except CallErr (Level2.Out V) :=
  match tables.lookup cls with
  | none => .error .badUserInput
  | some table =>
    match marshal table c with
    | .error e => .error e
    | .ok m => .ok { shape := if c.squeeze then [m.n].filter (· ≠ 1) else [m.n], data := fieldRows F m }
end

end MagpyVerif.DictIface
