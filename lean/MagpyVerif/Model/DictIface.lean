/-
Model/DictIface.lean — parameter tiling of the functional interface getBH_dict_level2 (C07).
The code decides from `val.ndim` and the class's `_field_func_kwargs_ndim` entry whether a
parameter is a stack of per-instance values or one value to be tiled.
-/
namespace MagpyVerif.DictIface

/-- how the code treats a parameter of rank `ndim` when the table expects `expected` -/
inductive Treat where
  | stack      -- `val.ndim == expected_dim`: per-instance values, length counted
  | tile       -- `val.ndim < expected_dim`: one value, tiled `vec_len` times
  | passThrough -- larger rank: handed on unchanged (the core function then fails or misreads it)
  deriving DecidableEq, Repr

def treat (expected ndim : Nat) : Treat :=
  if ndim = expected then .stack else if ndim < expected then .tile else .passThrough

/-- a parameter as the user gives it -/
inductive Given (α : Type) where
  | single (v : α)
  | stack (vs : List α)

/-- lengths that enter `vec_lengths` (a stack of length 1 is squeezed to a single value) -/
def Given.len? {α : Type} : Given α → Option Nat
  | .single _ => none
  | .stack vs => if vs.length = 1 then none else some vs.length

/-- `vec_len`: all counted lengths must agree; 1 if none is counted -/
def vecLen {α : Type} (gs : List (Given α)) : Option Nat :=
  match gs.filterMap Given.len? with
  | [] => some 1
  | n :: ns => if ns.all (· = n) then some n else none

/-- rows handed to the core function -/
def rows {α : Type} (n : Nat) : Given α → List α
  | .single v => List.replicate n v
  | .stack vs => match vs with
    | [x] => List.replicate n x
    | _ => vs

end MagpyVerif.DictIface
