/-
Model/StyleEffective.lean — `get_style(obj, default_settings, **kwargs)` (magpylib/_src/style.py) executed ON THE STATE
MACHINE of Model/StyleState.lean: the DEFAULTS layers of the style resolution are computed from the tree of object 0
(`magpylib.defaults`) of the world, the two updates are run by `updateObj` (validators, constructors, all-or-nothing) on a
copy of the object's own tree.

```
obj_families = get_families(obj)                                   -- regenerated table `Gen.StyleSchema.families`
style_kwargs = {k[6:]: v for k, v in kwargs.items() if k.startswith("style") and k != "style"}   -- `kw` below
default_style = default_settings.display.style                                      ↦ `subAt … styleRoot`
base_style_flat = default_style.base.as_dict(flatten=True, separator="_")           ↦ `famFlat … "base"`
for obj_family in obj_families:
    family_style = getattr(default_style, obj_family, {})                           ↦ `famFlat` (`none`: no such property)
    if family_style:
        family_dict = family_style.as_dict(flatten=True, separator="_")
        base_style_flat.update({k: v for k, v in family_dict.items() if v is not None})   ↦ `mergeFams`, `nonNone`
style_kwargs = validate_style_keys(style_kwargs)                                    ↦ `validateKeys` (an ERROR OUTCOME: ValueError)
style = obj.style.copy()
style_kwargs_specific = {k: v for k, v in style_kwargs.items() if k.split("_")[0] in style.as_dict()}   ↦ `specific`
style.update(**style_kwargs_specific, _match_properties=True)                       ↦ `updateObj … true false`
style.update(**base_style_flat, _match_properties=False, _replace_None_only=True)   ↦ `updateObj … false true`
return style
```
Not modelled: the keyword `style={…}` of `show()` (a dict merged in front of the `style_…` keywords), a family whose name is
a method name of `DisplayStyle` (`getattr` would return the bound method).  A property object is always truthy
(`MagicProperties` defines neither `__bool__` nor `__len__`), so `if family_style` only filters the `{}` of a missing name.
Mathlib-free and computable (linked into the driver).
-/
import MagpyVerif.Model.StyleState
import MagpyVerif.Gen.StyleSchema

namespace MagpyVerif.StyleEffective
open MagpyVerif.StyleNested MagpyVerif.StyleState

/-- attribute access `self.k1.….kn` to a sub-OBJECT: its properties and its `as_dict()` -/
def subAt : List (Key × Schema) → Dict → List Key → Option (List (Key × Schema) × Dict)
  | ps, c, [] => some (ps, c)
  | ps, c, k :: ks =>
    match lookup k ps, lookup k c with
    | some (.obj ps' _ _ _ _), some (.node sub) => subAt ps' sub ks
    | _, _ => none

/-- `default_settings.display.style` -/
def styleRoot : List Key := [.str "display".toList, .str "style".toList]

/-- `X.as_dict(flatten=True, separator="_")` = `linearize_dict(X.as_dict(), "_")` -/
def flatDict (sub : Dict) : FlatD := linLoop ['_'] [] sub

/-- `getattr(default_style, fam, {})` followed by `.as_dict(flatten=True, separator="_")`; `none`: the name is not a
property of `DisplayStyle` (the `{}` default, skipped by `if family_style`) -/
def famFlat (sps : List (Key × Schema)) (sty : Dict) (fam : Str) : Option FlatD :=
  match lookup (.str fam) sps, lookup (.str fam) sty with
  | some (.obj _ _ _ _ _), some (.node sub) => some (flatDict sub)
  | _, _ => none

/-- `{k: v for k, v in family_dict.items() if v is not None}` -/
def nonNone (f : FlatD) : FlatD := f.filter (fun kv => kv.2.isSome)

/-- the loop over `obj_families`; `acc` is `base_style_flat` -/
def mergeFams (sps : List (Key × Schema)) (sty : Dict) (acc : FlatD) : List Str → FlatD
  | [] => acc
  | fam :: rest =>
    match famFlat sps sty fam with
    | some fd => mergeFams sps sty (mergeDict acc (nonNone fd)) rest
    | none => mergeFams sps sty acc rest

/-- `base_style_flat` after the loop, from the class and the tree of `magpylib.defaults` -/
def baseStyleFlat (props0 : List (Key × Schema)) (tree0 : Dict) (fams : List Str) : Except Kind FlatD :=
  match subAt props0 tree0 styleRoot with
  | none => .error .attribute
  | some (sps, sty) =>
    match famFlat sps sty "base".toList with
    | none => .error .attribute
    | some b => .ok (mergeFams sps sty b fams)

/-- `k.split("_")[0]` -/
def keyHead : Key → Option Key
  | .str s => some (.str ((splitOn '_' s).headD []))
  | .int _ => none

/-- `valid_keys` of `validate_style_keys`: the first-level keys of every family of the hard coded `DEFAULTS["display"]["style"]` -/
def validKeys (D : Tree) : List Key :=
  match getPath D styleRoot with
  | some (.node fs) => fs.flatMap (fun kv => match kv.2 with | .node ks => ks.map (·.1) | .leaf _ => [])
  | _ => []

/-- `validate_style_keys(style_kwargs)`: ValueError if the first segment of a keyword is not a key of any style family -/
def validateKeys (D : Tree) (kw : Dict) : Except Kind Unit :=
  if kw.all (fun kv => (keyHead kv.1).isSome) then
    (if kw.all (fun kv => match keyHead kv.1 with | some h => (validKeys D).contains h | none => false) then .ok () else .error .value)
  else .error .attribute

/-- `{k: v for k, v in style_kwargs.items() if k.split("_")[0] in style.as_dict()}` -/
def specific (tree : Dict) (kw : Dict) : Dict :=
  kw.filter (fun kv => match keyHead kv.1 with | some h => (lookup h tree).isSome | none => false)

/-- a flat dictionary as the keyword arguments `**base_style_flat` -/
def flatKw (f : FlatD) : Dict := f.map (fun kv => (kv.1, Tree.leaf kv.2))

/-- the two updates of `get_style` on (a copy of) the object's style: the result's `as_dict()` or the first exception -/
def twoUpdates (T : Tables) (props : List (Key × Schema)) (others : List Str) (tree : Dict) (kwSpec : Dict) (bsf : FlatD) :
    Except Kind Dict :=
  match updateObj T props others tree none kwSpec true false with
  | (_, .error e) => .error e
  | (t1, .ok _) =>
    match updateObj T props others t1 none (flatKw bsf) false true with
    | (_, .error e) => .error e
    | (t2, .ok _) => .ok t2

/-- `get_style(obj_j, defaults, **{"style_" + k: v for k, v in kw})` in the world `w` (object 0 = `magpylib.defaults`),
`fams = get_families(obj_j)`: the `as_dict()` of the resolved style, or the class of the exception -/
def getStyle (T : Tables) (Cs : List ClassInfo) (D : Tree) (w : World) (j : Nat) (fams : List Str) (kw : Dict) : Except Kind Dict :=
  match w[0]?, w[j]? with
  | some o0, some o =>
    match Cs[o0.cls]?, Cs[o.cls]? with
    | some c0, some c =>
      match baseStyleFlat c0.schema.props o0.tree fams with
      | .error e => .error e
      | .ok bsf =>
        match validateKeys D kw with
        | .error e => .error e
        | .ok _ => twoUpdates T c.schema.props c.schema.others o.tree (specific o.tree kw) bsf
    | _, _ => .error .other
  | _, _ => .error .other

/-- `getStyle` on the regenerated classes / validators / DEFAULTS -/
def getStyleW (w : World) (j : Nat) (fams : List Str) (kw : Dict) : Except Kind Dict :=
  getStyle Gen.StyleSchema.tables Gen.StyleSchema.classes Gen.StyleSchema.defaults w j fams kw

/-- `get_families(obj)` for an object class by name (regenerated table) -/
def familiesOf (name : String) : List Str :=
  match Gen.StyleSchema.families.find? (fun x => x.1 == name) with
  | some x => x.2
  | none => []

end MagpyVerif.StyleEffective
