/-
Model/Angax.lean — `BaseTransform.rotate_from_angax(angle, axis, anchor, start, degrees)`
(class_BaseTransform.py) up to the rotation vectors handed to scipy `Rotation.from_rotvec`, and the
call of `rotate` that follows (C09).  As the code is written:

```
angle = check_format_input_angle(angle)     # Number ↦ float (scalar input), array_like ↦ ndarray (n,)
axis  = check_format_input_axis(axis)       # 'x'/'y'/'z' ↦ unit vectors, other str ↦ MagpylibBadUserInput,
                                            # array (3,) ↦ itself, `np.all(inp == 0)` ↦ MagpylibBadUserInput
if degrees: angle = angle / 180 * np.pi
if isinstance(angle, numbers.Number): angle = np.ones(3) * angle      # shape (3,)   → ONE rotation
else:                                 angle = np.tile(angle, (3, 1)).T # shape (n, 3) → n rotations
axis = axis / np.linalg.norm(axis) * angle
rot = R.from_rotvec(axis)
return self.rotate(rot, anchor, start)
```
`from_rotvec` is a parameter (scipy, DESIGN §4); for execution in the driver a Rodrigues matrix
(`rotvecMatrix`) evaluated in `Float` and snapped to the octahedral group is used.
Mathlib-free, computable, polymorphic over `Num α`.
-/
import MagpyVerif.Model.Kernels
import MagpyVerif.Model.Tree
namespace MagpyVerif.Angax
open MagpyVerif MagpyVerif.Kern Num

inductive Err
  | badUserInput            -- MagpylibBadUserInput
  deriving DecidableEq, Repr

/-- the `axis` argument after the type checks: a string or an array of shape (3,) -/
inductive AxisIn (α : Type) where
  | str (s : String)
  | vec (v : V3 α)
  deriving Repr

variable {α : Type} [Num α]

/-- `np.all(inp == 0)` -/
def allZero (v : V3 α) : Bool := eq0 v.x && eq0 v.y && eq0 v.z

/-- `check_format_input_axis` -/
def axisVec : AxisIn α → Except Err (V3 α)
  | .str s =>
    if s = "x" then .ok ⟨n 1, n 0, n 0⟩
    else if s = "y" then .ok ⟨n 0, n 1, n 0⟩
    else if s = "z" then .ok ⟨n 0, n 0, n 1⟩
    else .error .badUserInput
  | .vec v => if allZero v then .error .badUserInput else .ok v

/-- `angle / 180 * np.pi` when `degrees` -/
def toRad (degrees : Bool) (a : α) : α := if degrees then a / n 180 * pi else a

/-- one row of `axis / np.linalg.norm(axis) * angle` -/
def rotvecOf (ax : V3 α) (a : α) : V3 α :=
  let l := norm ax
  ⟨ax.x / l * a, ax.y / l * a, ax.z / l * a⟩

/-- the argument of `R.from_rotvec`: a single rotation vector for scalar `angle`, one per entry (in
order) for vector `angle`; or the library's input error -/
def angaxRotvecs (angle : PathIn α) (axis : AxisIn α) (degrees : Bool) : Except Err (PathIn (V3 α)) :=
  match axisVec axis with
  | .error e => .error e
  | .ok ax => .ok (angle.map (fun a => rotvecOf ax (toRad degrees a)))

/-- `rotate_from_angax` as an operation of the history state machine (Model/Tree.lean): a rejected
call when the axis is refused, else `rotate(from_rotvec(rotvecs), anchor, start)` -/
def angaxOp {G V : Type} (fromRotvec : V3 α → G) (addr : List Nat) (angle : PathIn α) (axis : AxisIn α)
    (degrees : Bool) (anchor : Option (PathIn V)) (start : Option Int) : Op G V :=
  match angaxRotvecs angle axis degrees with
  | .error _ => .rejected
  | .ok rv => .rotate addr (rv.map fromRotvec) anchor start

/-- `rotate_from_angax` on a tree node -/
def rotateFromAngax {G V : Type} [Mul G] [Inv G] [One G] [SMul G V] [Add V] [Sub V] [Zero V]
    (fromRotvec : V3 α → G) (t : Node G V) (addr : List Nat) (angle : PathIn α) (axis : AxisIn α)
    (degrees : Bool) (anchor : Option (PathIn V)) (start : Option Int) : Node G V :=
  t.step (angaxOp fromRotvec addr angle axis degrees anchor start)

/-- Rodrigues' formula `I + sin θ K + (1 - cos θ) K²` (θ = |v|, K = cross-product matrix of v/θ);
identity for θ = 0.  Stands in for scipy's `from_rotvec(v).as_matrix()` in the driver. -/
def rotvecMatrix (v : V3 α) : M3 α :=
  let th := norm v
  if eq0 th then ⟨⟨n 1, n 0, n 0⟩, ⟨n 0, n 1, n 0⟩, ⟨n 0, n 0, n 1⟩⟩ else
  let k : V3 α := ⟨v.x / th, v.y / th, v.z / th⟩
  let s := sin th
  let c := n 1 - cos th
  ⟨⟨n 1 + c * (k.x * k.x - n 1), c * k.x * k.y - s * k.z, c * k.x * k.z + s * k.y⟩,
   ⟨c * k.x * k.y + s * k.z, n 1 + c * (k.y * k.y - n 1), c * k.y * k.z - s * k.x⟩,
   ⟨c * k.x * k.z - s * k.y, c * k.y * k.z + s * k.x, n 1 + c * (k.z * k.z - n 1)⟩⟩

end MagpyVerif.Angax
