/-
Model/MeshPipeline.lean — what `TriangularMesh.__init__` does with `vertices` and `faces` on the way to the `(n, 3, 3)`
array that `BHJM_magnet_trimesh` receives (class_magnet_TriangularMesh.py / field_BH_triangularmesh.py):

  self.mesh                         = self._vertices[self._faces]                     → `meshArray`
  is_facet_inwards(msh[indices[0]], msh[indices])   (the seed call of `get_inwards_mask`)  → `seedOf`
  fix_trimesh_orientation(vertices, faces)                                             → `fixTrimeshOrientation`
  the mesh after `reorient_faces()`                                                    → `reorientedMesh`
  faces[np.isin(faces, list(ps)).all(axis=1)]   (last line of get_disconnected_faces_subsets) → `selectFaces`, `facesSubsets`

Indices are `Nat` (negative Python indices are not modelled; `_input_check` has indexed `verts[trias]` once, so every index
is in range — an out-of-range index reads `zero3` here).  Mathlib-free, computable.
-/
import MagpyVerif.Model.Mesh
import MagpyVerif.Model.TrimeshInside

namespace MagpyVerif.Kern
variable {α : Type} [Num α]
open MagpyVerif.Mesh

/-- one row of `vertices[faces]` -/
def triAt (verts : List (V3 α)) (f : Face) : Tri α :=
  (verts.getD f.1 zero3, verts.getD f.2.1 zero3, verts.getD f.2.2 zero3)

/-- `vertices[faces]` : the `(n, 3, 3)` array -/
def meshArray (verts : List (V3 α)) (faces : List Face) : List (Tri α) := faces.map (triAt verts)

/-- `is_facet_inwards(msh[indices[0]], msh[indices])` as a function of the list `indices` of `get_inwards_mask` -/
def seedOf (msh : List (Tri α)) (indices : List Nat) : Bool :=
  match indices with
  | [] => false
  | i :: _ => isFacetInwards (msh.getD i (zero3, zero3, zero3)) (indices.map fun j => msh.getD j (zero3, zero3, zero3))

/-- `get_inwards_mask(vertices, triangles)` with the real seed test -/
def getInwardsMask (verts : List (V3 α)) (faces : List Face) : List Bool :=
  inwardsMask (seedOf (meshArray verts faces)) faces

/-- `fix_trimesh_orientation(vertices, faces)` with the real seed test -/
def fixTrimeshOrientation (verts : List (V3 α)) (faces : List Face) : List Face :=
  fixOrientation (seedOf (meshArray verts faces)) faces

/-- `TriangularMesh.mesh` after `reorient_faces()` -/
def reorientedMesh (verts : List (V3 α)) (faces : List Face) : List (Tri α) :=
  meshArray verts (fixTrimeshOrientation verts faces)

end MagpyVerif.Kern

namespace MagpyVerif.Mesh

/-- `faces[np.isin(faces, list(ps)).all(axis=1)]` : the faces all of whose indices lie in `ps`, in the order of `faces` -/
def selectFaces (faces : List Face) (ps : List Nat) : List Face :=
  faces.filter fun f => (verts f).all fun v => ps.contains v

/-- `get_disconnected_faces_subsets(faces)` : what the function returns (FACE subsets) -/
def facesSubsets (faces : List Face) : List (List Face) :=
  (subsets (faces.length + 1) faces).map (selectFaces faces)

end MagpyVerif.Mesh
