/-
Model/DisplayExtra.lean — user `model3d` traces of a NON-generic backend at several path frames (C19), as the code runs them:

* `traces_generic.process_extra_trace(model)`  — `processExtraTraceWith`, `processExtraTrace`
* the per-frame loop of `get_generic_traces3D` (`for orient, pos in zip(orientations, positions): … process_extra_trace(…)`) with
  ONE `Trace3d` object `extr` whose static `kwargs` dict / `args` tuple live on the object's style across all frames
                                                 — `extraFrames`

```
def process_extra_trace(model):
    extr = model["model3d"]
    model_kwargs = {**(extr.kwargs() if callable(extr.kwargs) else extr.kwargs)}        # a COPY of the user's dict
    model_args = extr.args() if callable(extr.args) else extr.args
    trace3d = {"constructor": …, "kwargs": model_kwargs, "args": model_args, "coordsargs": extr.coordsargs, "kwargs_extra": …}
    kwargs, args, coordsargs = place_and_orient_model3d(model_kwargs=model_kwargs, model_args=model_args,
        orientation=model["orientation"], position=model["position"], coordsargs=extr.coordsargs, scale=extr.scale,
        return_model_args=True, return_coordsargs=True)
    trace3d["coordsargs"] = coordsargs
    trace3d["kwargs"].update(kwargs)          # updates `model_kwargs` — the copy, not `extr.kwargs`
    trace3d["args"] = args
    return trace3d
```
The user's dict is an object that PERSISTS between the frames, so the model threads it through the loop as state: the function
returns the dict as it is afterwards together with the trace.  `copy = true` is the code; `copy = false` is the variant without the
`{**…}` copy (a seeded change), where `model_kwargs` IS the user's dict and `.update(kwargs)` writes the placed coordinates into it —
kept only as a regression witness (`extra_trace_without_copy_accumulates` in Props/C19).

Static `kwargs` / `args` only (callables are re-evaluated every frame and cannot accumulate).  `place_and_orient_model3d` never writes
into `model_args` (`new_model_args = list(model_args)`), so the args tuple is not state.  Mathlib-free, computable; the driver runs it on
dyadic data (`disp extraf`).
-/
import MagpyVerif.Model.Display
namespace MagpyVerif.Display

/-- the user's `Trace3d` as far as `process_extra_trace` reads it -/
structure ExtraTrace (α : Type) where
  /-- `extr.kwargs` (a static dict; `None` is not accepted by `{**None}`: TypeError, not modelled) -/
  kwargs : List (String × TVal α)
  /-- `extr.args`: `None` or a tuple -/
  args : Option (List (TVal α))
  coordsargs : Option (CKey × CKey × CKey)
  scale : α

variable {α : Type} [Add α] [Mul α] [OfNat α 0] [OfNat α 1] [BEq α]

/-- `process_extra_trace` for one frame (orientation and position are never `None` here: they are rows of the path).  Returns the
user's kwargs dict as it is AFTER the call and the `kwargs` / `args` / `coordsargs` entries of the returned `trace3d`. -/
def processExtraTraceWith (copy : Bool) (u : ExtraTrace α) (R : M3 α) (p : V3 α) :
    Except Err (List (String × TVal α) × PlaceOut α) :=
  match placeModel { kwargs := u.kwargs, args := u.args, orientation := some R, position := some p, coordsargs := u.coordsargs,
                     scale := u.scale, lengthFactor := 1, extra := [] } with
  | .error e => .error e
  | .ok o =>
    -- `trace3d["kwargs"].update(kwargs)`: `model_kwargs` updated with the returned dict
    let modelKwargs := dictUpdate u.kwargs o.kwargs
    .ok (if copy then u.kwargs else modelKwargs, { kwargs := modelKwargs, args := o.args, coordsargs := o.coordsargs })

/-- the code as it is: `model_kwargs = {**extr.kwargs}` -/
def processExtraTrace (u : ExtraTrace α) (R : M3 α) (p : V3 α) : Except Err (List (String × TVal α) × PlaceOut α) :=
  processExtraTraceWith true u R p

/-- the frame loop: the same `extr` for every displayed pose; returns the user's dict after the last frame and one trace per frame
(an exception in a frame ends the loop and propagates) -/
def extraFramesWith (copy : Bool) (u : ExtraTrace α) : List (M3 α × V3 α) → Except Err (List (String × TVal α) × List (PlaceOut α))
  | [] => .ok (u.kwargs, [])
  | (R, p) :: rest =>
    match processExtraTraceWith copy u R p with
    | .error e => .error e
    | .ok (kw', t) =>
      match extraFramesWith copy { u with kwargs := kw' } rest with
      | .error e => .error e
      | .ok (kw'', ts) => .ok (kw'', t :: ts)

def extraFrames (u : ExtraTrace α) (poses : List (M3 α × V3 α)) : Except Err (List (String × TVal α) × List (PlaceOut α)) :=
  extraFramesWith true u poses

end MagpyVerif.Display
