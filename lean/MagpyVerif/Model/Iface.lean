/-
Model/Iface.lean — the input-formatting glue in front of getBH_level2 and the method wrappers (C07, C04, C06).

Modelled as the code does it (order of checks, error kinds):
* utility.py: `format_star_input`, `format_obj_input(obj, allow="sources" | "sensors")` (depth-first flattening of
  a collection, then `filter_objects`), `format_src_inputs` (a bare object is wrapped in a list; an empty list, a
  Sensor, a nested list, anything else, or a Collection without any source at any depth is rejected with
  MagpylibBadUserInput; NO de-duplication: the same source listed twice stays listed twice), `check_duplicates`
  (keeps the first occurrence of every object; called by nothing on the field path — only by its own unit test),
  and the `obj_list = set(src_list + sensors)` of getBH_level2 (used only for the longest path / tiling);
* input_checks.py: `check_format_pixel_agg` (a name that is no numpy reduction: AttributeError — a foreign exception),
  `check_format_input_observers` (bare Sensor/Collection is wrapped; anything that is no list/tuple/ndarray is
  rejected; empty is rejected; then FIRST `np.array(inp, dtype=float)` is tried — if the whole input is one
  rectangular numeric array it becomes ONE sensor-like pixel container at the origin, also when it was written as a
  list of several position arrays of equal shape; otherwise the entries are taken one by one: Sensor, Collection
  (its `sensors_all`, depth first; none: rejected), or a position array; then all pixel shapes must be equal unless
  pixel_agg is given), `check_getBH_output_type` (ValueError, checked after the whole computation);
* the method wrappers `BaseSource.getB…`, `Sensor.getB…`, `Collection.getB…` with `_validate_getBH_inputs`.

Python is untyped: `Collection.getB(*inputs)` takes sources or observers depending on the collection's content, so
there is ONE input grammar `Inp` (`SrcIn` and `ObsIn` are names for it).  Positions are modelled at the granularity
of vectors: `pos shape data` is a numeric array of shape `shape ++ [3]`; numeric arrays whose last axis is not 3,
numbers, None, … are `junk` (every route through the code ends in MagpylibBadUserInput for them; a position array
without entries likewise).  An empty Collection inside an observer list is seen by numpy as an empty sequence, so the
real code can reach the "pixel must not be empty" exit instead of the "no sensors" exit: same error kind.
`check_dimensions` / `check_excitations` (between the source and the pixel_agg checks) are not modelled: the tie uses
CustomSources, which have neither.
-/
import MagpyVerif.Model.Level2

namespace MagpyVerif.Iface
open MagpyVerif.Level2

/-- the object world: sources and sensors carry an identity (`id(obj)`), collections have typed children -/
inductive Obj (G V : Type) where
  | src (id : Nat) (s : Src G V)
  | sens (id : Nat) (k : Sens G V)
  | coll (id : Nat) (children : List (Obj G V))

/-- what a caller can pass as `sources` / `observers` / `*inputs` -/
inductive Inp (G V : Type) where
  /-- array_like of positions, shape `shape ++ [3]`, row-major data -/
  | pos (shape : List Nat) (data : List V)
  | obj (o : Obj G V)
  /-- list or tuple -/
  | list (xs : List (Inp G V))
  /-- anything else (None, a number, an object of another type, an array whose last axis is not 3) -/
  | junk

abbrev SrcIn := Inp
abbrev ObsIn := Inp

inductive ErrKind where
  | badUserInput | missingInput
  /-- foreign exceptions -/
  | attributeError | valueError
  deriving DecidableEq, Repr

/-- object identity: a user object, or the Sensor created for the position array at index `i` of the observer list -/
inductive OId where
  | user (n : Nat)
  | fresh (i : Nat)
  deriving DecidableEq, Repr

/-- the `pixel_agg` argument: None / the name of a reduction / a name that is not one -/
inductive AggIn where
  | agg (a : Agg)
  | bad
  deriving DecidableEq, Repr

variable {G V : Type}

/-- `format_obj_input(obj, allow="sources")`: leaf sources in depth-first order (sensors are filtered out) -/
def Obj.sourcesAll : Obj G V → List (Nat × Src G V)
  | .src i s => [(i, s)]
  | .sens _ _ => []
  | .coll _ cs => (cs.map Obj.sourcesAll).flatten

/-- `format_obj_input(obj, allow="sensors")` -/
def Obj.sensorsAll : Obj G V → List (Nat × Sens G V)
  | .src _ _ => []
  | .sens i k => [(i, k)]
  | .coll _ cs => (cs.map Obj.sensorsAll).flatten

mutual
/-- the source entry getBH_level2 sees: a bare source, or a collection (its sensors play no role) -/
def Obj.toEntry? : Obj G V → Option (Entry G V)
  | .src _ s => some (.leaf s)
  | .sens _ _ => none
  | .coll _ cs => some (.coll (Obj.toEntries cs))
def Obj.toEntries : List (Obj G V) → List (Entry G V)
  | [] => []
  | o :: os =>
    match o.toEntry? with
    | some e => e :: Obj.toEntries os
    | none => Obj.toEntries os
end

def Obj.id : Obj G V → Nat
  | .src i _ => i
  | .sens i _ => i
  | .coll i _ => i

/-- `format_star_input`: `*args` of length one is unwrapped -/
def starInput (xs : List (Inp G V)) : Inp G V :=
  match xs with
  | [x] => x
  | xs => .list xs

/-- result of `format_src_inputs`: `sources` (ordered top-level objects) and `src_list` (collections flattened) -/
structure SrcFmt (G V : Type) where
  sources : List (Obj G V)
  srcList : List (Nat × Src G V)

/-- one top-level entry of `format_src_inputs` -/
def checkSrcEntry : Inp G V → Except ErrKind (Obj G V)
  | .obj (.src i s) => .ok (.src i s)
  | .obj (.coll i cs) => if (Obj.coll i cs).sourcesAll.isEmpty then .error .badUserInput else .ok (.coll i cs)
  | _ => .error .badUserInput

/-- the loop of `format_src_inputs` (stops at the first bad entry) -/
def checkSrcEntries : List (Inp G V) → Except ErrKind (List (Obj G V))
  | [] => .ok []
  | x :: xs =>
    match checkSrcEntry x with
    | .error e => .error e
    | .ok o =>
      match checkSrcEntries xs with
      | .error e => .error e
      | .ok os => .ok (o :: os)

/-- `format_src_inputs` -/
def formatSrc (inp : Inp G V) : Except ErrKind (SrcFmt G V) :=
  let sources : List (Inp G V) := match inp with
    | .list xs => xs
    | x => [x]
  if sources.isEmpty then .error .badUserInput else
  match checkSrcEntries sources with
  | .error e => .error e
  | .ok os => .ok { sources := os, srcList := os.flatMap Obj.sourcesAll }

/-- the entries handed to the marshalling model -/
def SrcFmt.entries (f : SrcFmt G V) : List (Entry G V) := Obj.toEntries f.sources

/-- `check_duplicates`: first occurrences in order; second component: was the warning printed -/
def checkDuplicates {α : Type} [DecidableEq α] (xs : List α) : List α × Bool :=
  let new := xs.foldl (fun acc x => if x ∈ acc then acc else acc ++ [x]) []
  (new, new.length != xs.length)

/-- `check_format_pixel_agg` -/
def checkPixelAgg : AggIn → Except ErrKind Agg
  | .agg a => .ok a
  | .bad => .error .attributeError

mutual
/-- `np.array(inp, dtype=float)` succeeds: a rectangular nesting of position arrays -/
def Inp.asArray : Inp G V → Option (List Nat × List V)
  | .pos sh d => some (sh, d)
  | .obj _ => none
  | .junk => none
  | .list xs =>
    match Inp.asArrays xs with
    | some (a :: as) =>
      if as.all (fun b => b.1 == a.1) then some (xs.length :: a.1, (a :: as).flatMap (·.2)) else none
    | _ => none
def Inp.asArrays : List (Inp G V) → Option (List (List Nat × List V))
  | [] => some []
  | x :: xs =>
    match x.asArray, Inp.asArrays xs with
    | some a, some as => some (a :: as)
    | _, _ => none
end

section
variable [One G] [Zero V]

/-- `Sensor(pixel=arr)`: at the origin, unit orientation, right-handed; `pix_shapes` entry `(1,3)` for a bare `(3,)` -/
def freshSensor (shape : List Nat) (data : List V) : Sens G V :=
  { pos := [0], ori := [1], pixels := data, pixShape := if shape.isEmpty then [1] else shape, left := false }

/-- `Sensor(pixel=arr)` with the pixel validator: an array without entries is rejected -/
def sensorOfArray (i : Nat) (a : List Nat × List V) : Except ErrKind (List (OId × Sens G V)) :=
  if a.2.isEmpty then .error .badUserInput else .ok [(.fresh i, freshSensor a.1 a.2)]

/-- one entry of the observer list (the `for obj in inp` loop) -/
def obsEntry (i : Nat) : Inp G V → Except ErrKind (List (OId × Sens G V))
  | .obj (.sens id k) => .ok [(.user id, k)]
  | .obj (.coll id cs) =>
    let ks := (Obj.coll id cs).sensorsAll
    if ks.isEmpty then .error .badUserInput else .ok (ks.map fun (j, k) => (.user j, k))
  | x =>
    match x.asArray with
    | some a => sensorOfArray i a
    | none => .error .badUserInput

def obsLoop : Nat → List (Inp G V) → Except ErrKind (List (OId × Sens G V))
  | _, [] => .ok []
  | i, x :: xs =>
    match obsEntry i x with
    | .error e => .error e
    | .ok ks =>
      match obsLoop (i + 1) xs with
      | .error e => .error e
      | .ok rest => .ok (ks ++ rest)

/-- `all_same(lst)`: `lst[1:] == lst[:-1]` -/
def allSame {α : Type} [BEq α] (lst : List α) : Bool := lst.tail == lst.dropLast

/-- `check_format_input_observers(inp, pixel_agg)` -/
def formatObs (inp : Inp G V) (agg : Agg) : Except ErrKind (List (OId × Sens G V)) :=
  -- bare Sensor / Collection: `inp = (inp,)`
  let inp : Inp G V := match inp with
    | .obj (.sens i k) => .list [.obj (.sens i k)]
    | .obj (.coll i cs) => .list [.obj (.coll i cs)]
    | x => x
  match inp with
  | .junk => .error .badUserInput
  | .obj _ => .error .badUserInput
  | .pos sh d => sensorOfArray 0 (sh, d)
  | .list xs =>
    if xs.isEmpty then .error .badUserInput else
    match (Inp.list xs).asArray with
    | some a => sensorOfArray 0 a
    | none =>
      match obsLoop 0 xs with
      | .error e => .error e
      | .ok ks =>
        if agg == .none && !allSame (ks.map (·.2.pixShape)) then .error .badUserInput else .ok ks
end

/-- `obj_list = set(src_list + sensors)` with the path length of every object, as a duplicate-free list -/
def objList (srcList : List (Nat × Src G V)) (sensors : List (OId × Sens G V)) : List (OId × Nat) :=
  (checkDuplicates ((srcList.map fun (i, s) => (OId.user i, s.pos.length)) ++
    (sensors.map fun (i, k) => (i, k.pos.length)))).1

/-- `max_path_len = max(len(obj._position) for obj in obj_list)` -/
def maxPathLen (srcList : List (Nat × Src G V)) (sensors : List (OId × Sens G V)) : Nat :=
  ((objList srcList sensors).map (·.2)).foldl max 0

structure Flags where
  sumup : Bool
  squeeze : Bool
  agg : AggIn
  /-- `output == "ndarray"`; otherwise an unknown output type -/
  outOk : Bool

def liftErr {α : Type} : Except Err α → Except ErrKind α
  | .ok a => .ok a
  | .error .badUserInput => .error .badUserInput
  | .error .missingInput => .error .missingInput

section
variable [Mul G] [Inv G] [One G] [SMul G V] [Add V] [Sub V] [Zero V] [BEq G]

/-- `magpylib.getB(sources, observers, sumup, squeeze, pixel_agg, output)` = getBH_level2 with its input formatting:
sources, then pixel_agg, then observers, then the computation, then the output type -/
def getBtop (flipX : V → V) (vmin vmax : V → V → V) (sources observers : Inp G V) (f : Flags) :
    Except ErrKind (Out V) :=
  match formatSrc sources with
  | .error e => .error e
  | .ok sf =>
  match checkPixelAgg f.agg with
  | .error e => .error e
  | .ok agg =>
  match formatObs observers agg with
  | .error e => .error e
  | .ok ks =>
  match liftErr (getBH flipX vmin vmax sf.entries (ks.map (·.2)) f.sumup f.squeeze agg) with
  | .error e => .error e
  | .ok out => if f.outOk then .ok out else .error .valueError

/-- `BaseSource.getB(*observers, squeeze, pixel_agg, output)` -/
def srcMethod (flipX : V → V) (vmin vmax : V → V → V) (selfId : Nat) (self : Src G V)
    (observers : List (Inp G V)) (squeeze : Bool) (agg : AggIn) (outOk : Bool) : Except ErrKind (Out V) :=
  getBtop flipX vmin vmax (.obj (.src selfId self)) (starInput observers)
    { sumup := false, squeeze := squeeze, agg := agg, outOk := outOk }

/-- `Sensor.getB(*sources, sumup, squeeze, pixel_agg, output)` -/
def sensMethod (flipX : V → V) (vmin vmax : V → V → V) (selfId : Nat) (self : Sens G V)
    (sources : List (Inp G V)) (f : Flags) : Except ErrKind (Out V) :=
  getBtop flipX vmin vmax (starInput sources) (.obj (.sens selfId self)) f

/-- which branch of `Collection._validate_getBH_inputs` is taken -/
inductive CollBranch where
  | both | noSources | noSensors
  deriving DecidableEq, Repr

def collBranch (selfId : Nat) (children : List (Obj G V)) : CollBranch :=
  let curS := (Obj.coll selfId children).sourcesAll
  let curK := (Obj.coll selfId children).sensorsAll
  if !curK.isEmpty && !curS.isEmpty then .both
  else if curS.isEmpty then .noSources
  else .noSensors

/-- `Collection._validate_getBH_inputs(*inputs)`: (sources, observers) -/
def validateInputs (selfId : Nat) (children : List (Obj G V)) (inputs : List (Inp G V)) :
    Except ErrKind (Inp G V × Inp G V) :=
  let self : Inp G V := .obj (.coll selfId children)
  match collBranch selfId children with
  | .both => if inputs.isEmpty then .ok (self, self) else .error .badUserInput
  | .noSources => .ok (.list inputs, self)
  | .noSensors => if inputs.length == 1 then .ok (self, inputs.headD .junk) else .ok (self, .list inputs)

/-- `Collection.getB(*inputs, squeeze, pixel_agg, output)` -/
def collMethod (flipX : V → V) (vmin vmax : V → V → V) (selfId : Nat) (children : List (Obj G V))
    (inputs : List (Inp G V)) (squeeze : Bool) (agg : AggIn) (outOk : Bool) : Except ErrKind (Out V) :=
  match validateInputs selfId children inputs with
  | .error e => .error e
  | .ok (s, o) =>
    getBtop flipX vmin vmax s o { sumup := false, squeeze := squeeze, agg := agg, outOk := outOk }

end
end MagpyVerif.Iface
