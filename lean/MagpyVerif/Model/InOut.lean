/-
Model/InOut.lean — the keyword `in_out ∈ {'auto', 'inside', 'outside'}` of getB / getH / getJ / getM, exactly as coded.

  * `getBH_level2` hands `in_out` to `getBH_level1` for every group of sources; `getBH_level1` REMOVES it from the keyword
    arguments of every core field function that has no parameter of that name
        if not has_parameter(field_func, "in_out"):  kwargs.pop("in_out", None)
    (on this tree: every function except `BHJM_magnet_tetrahedron` and `BHJM_magnet_trimesh` — table `Gen.InOut.table`,
    regenerated from the signatures).  For Cuboid, Cylinder, CylinderSegment, Sphere (and all currents, Dipole, Triangle)
    the keyword therefore has no effect whatever its value: the masks are computed as with 'auto'.
  * `point_inside(points, vertices, in_out)` (Tetrahedron): 'inside' → all True, 'outside' → all False, ANY other value →
    the barycentric test.  Used by the J, M and B branches of `BHJM_magnet_tetrahedron`.
  * `BHJM_magnet_trimesh`: `if in_out == "auto":` the grouping loop with `mask_inside_trimesh`; `elif in_out == "inside":`
    `BHJM += polarization` for every row; ANY other value → nothing is added.
Nothing validates the value of `in_out` (a misspelt string reaches the two functions: the Tetrahedron then behaves as
'auto', the TriangularMesh as 'outside'); `InOut.other` stands for such a value.  Mathlib-free, computable.
-/
import MagpyVerif.Model.Kernels
import MagpyVerif.Model.Cylinder
import MagpyVerif.Model.CylSegWrap
import MagpyVerif.Model.TrimeshSum
import MagpyVerif.Gen.InOut

namespace MagpyVerif.Kern
open Num

inductive InOut where
  | auto | inside | outside
  /-- any value other than the three documented strings -/
  | other
  deriving DecidableEq, Repr

/-- does the core field function of the registered class `cls` have a parameter `in_out` (regenerated table) -/
def hasInOut (cls : String) : Bool :=
  ((Gen.InOut.table.find? fun r => r.1 == cls).map fun r => r.2.2).getD false

section
variable {α : Type} [Num α]

/-- `point_inside(points, vertices, in_out)` for one observer -/
def pointInsideIO (io : InOut) (v0 v1 v2 v3 x : V3 α) : Bool :=
  match io with
  | .inside => true
  | .outside => false
  | _ => tetraInside v0 v1 v2 v3 x

/-- `BHJM_magnet_tetrahedron(field, observers, vertices, polarization, in_out)` for one row: `bhjmTetra` with every
`point_inside` call carrying `in_out` (J and M: vertices as given; B: after the chirality fix) -/
def bhjmTetraIO (io : InOut) (f : Field) (v0 v1 v2 v3 pol x : V3 α) : V3 α :=
  match f with
  | .J => if pointInsideIO io v0 v1 v2 v3 x then pol else zero3
  | .M => vd (if pointInsideIO io v0 v1 v2 v3 x then pol else zero3) mu0
  | .H => bhjmTetra .H v0 v1 v2 v3 pol x
  | .B =>
    let w := tetraChirality v0 v1 v2 v3
    let s := bhjmTriangle .B w.1 w.2.2.1 w.2.1 pol x + bhjmTriangle .B w.1 w.2.1 w.2.2.2 pol x +
      bhjmTriangle .B w.2.1 w.2.2.1 w.2.2.2 pol x + bhjmTriangle .B w.1 w.2.2.2 w.2.2.1 pol x
    if pointInsideIO io w.1 w.2.1 w.2.2.1 w.2.2.2 x then s + pol else s

/-- `BHJM_magnet_trimesh(field, observers, mesh, polarization, in_out)` for a batch: 'auto' = `bhjmTrimesh` (grouping
loop); 'inside' adds every row's polarization; any other value adds nothing.  H never looks at `in_out`. -/
def bhjmTrimeshIO {M : Type} [DecidableEq M] (io : InOut) (f : Field) (meshId : MeshRow α → M)
    (inside : M → V3 α → Bool) (rows : List (MeshRow α)) : List (V3 α) :=
  match io with
  | .auto => bhjmTrimesh f meshId inside rows
  | .inside =>
    match f with
    | .H => (meshSheets rows).map fun v => vd v mu0
    | .B => (rows.zip (meshSheets rows)).map fun (r, c) => c + r.pol
    | .J => rows.map fun r => zero3 + r.pol
    | .M => (rows.map fun r => zero3 + r.pol).map fun v => vd v mu0
  | _ =>
    match f with
    | .H => (meshSheets rows).map fun v => vd v mu0
    | .B => meshSheets rows
    | .J => rows.map fun _ => zero3
    | .M => (rows.map fun _ => (zero3 : V3 α)).map fun v => vd v mu0

/-! ### getBH_level1's keyword filter: the class's core function is called with `in_out` only if it has the parameter.
`none` = the table says the function has the parameter but this model does not know what it does with it (never on this
tree: `Props/C02.inout_table_is_modelled`). -/

def cuboidL1 (_io : InOut) (f : Field) (dim pol x : V3 α) : Option (V3 α) :=
  if hasInOut "Cuboid" then none else some (bhjmCuboid f dim pol x)

def sphereL1 (_io : InOut) (f : Field) (d : α) (pol x : V3 α) : Option (V3 α) :=
  if hasInOut "Sphere" then none else some (bhjmSphere f d pol x)

/-- outer `none` = unknown use of the keyword; inner `Option` = the Cylinder port's own (a `cel0` call failed) -/
def cylinderL1 (_io : InOut) (fuel : Nat) (f : Field) (dim : α × α) (pol x : V3 α) : Option (Option (V3 α)) :=
  if hasInOut "Cylinder" then none else some (bhjmCylinder fuel f dim pol x)

def tetraL1 (io : InOut) (f : Field) (v0 v1 v2 v3 pol x : V3 α) : Option (V3 α) :=
  if hasInOut "Tetrahedron" then some (bhjmTetraIO io f v0 v1 v2 v3 pol x) else some (bhjmTetra f v0 v1 v2 v3 pol x)

def trimeshL1 {M : Type} [DecidableEq M] (io : InOut) (f : Field) (meshId : MeshRow α → M)
    (inside : M → V3 α → Bool) (rows : List (MeshRow α)) : Option (List (V3 α)) :=
  if hasInOut "TriangularMesh" then some (bhjmTrimeshIO io f meshId inside rows)
  else some (bhjmTrimesh f meshId inside rows)
end

section
variable {α : Type} [NumX α]
def cylSegL1 (_io : InOut) (fuel : Nat) (f : Field) (x : V3 α) (r1 r2 h phi1 phi2 : α) (pol : V3 α) :
    Option (Option (V3 α)) :=
  if hasInOut "CylinderSegment" then none else some (CylSeg.bhjmCylSegInternal fuel f x r1 r2 h phi1 phi2 pol)
end

end MagpyVerif.Kern
