/-
Model/Level2State.lean — the state side of getBH_level2 (C08): shorter paths are tiled *in the
objects* to the longest path length, the field is computed (this phase may fail: custom field
functions raising / returning None / wrong shapes, undefined fields, pixel_agg errors …), and
the paths are restored.  Where the restore sits relative to the failing phase is not chosen by
hand: it is read from the source (Gen/Exits.lean, regenerated on every run).
-/
import MagpyVerif.Model.Path
import MagpyVerif.Gen.Exits

namespace MagpyVerif.Level2State
open MagpyVerif

variable {G V : Type}

/-- `np.concatenate((path, np.tile(path[-1], (M - m0, 1))))` -/
def tilePath {α : Type} (M : Nat) (xs : List α) : List α :=
  match xs.getLast? with
  | none => xs
  | some l => xs ++ List.replicate (M - xs.length) l

def tile (M : Nat) (o : Obj G V) : Obj G V :=
  if o.pos.length = M then o else { pos := tilePath M o.pos, ori := tilePath M o.ori }

/-- restore of one object: by slicing the tiled path to its old length, or from the saved arrays -/
def restore (bySlicing : Bool) (orig tiled : Obj G V) : Obj G V :=
  if bySlicing then
    { pos := tiled.pos.take orig.pos.length, ori := tiled.ori.take orig.pos.length }
  else orig

/-- getBH_level2 as a state transformer; `compute` is everything between tiling and restore,
an arbitrary function of the tiled objects that may fail (the fault schedule). -/
def run {ε β : Type} (inFinally bySlicing : Bool) (compute : List (Obj G V) → Except ε β)
    (objs : List (Obj G V)) : List (Obj G V) × Except ε β :=
  let M := (objs.map (·.pos.length)).foldl max 0
  let tiled := objs.map (tile M)
  let restored := List.zipWith (restore bySlicing) objs tiled
  match compute tiled with
  | .ok b => (restored, .ok b)
  | .error e => if inFinally then (restored, .error e) else (tiled, .error e)

/-- the code as it is now: a failure is followed by the restore only if the restore sits in a
`finally` AND no statement that can raise lies between the tiling and the start of that `try` -/
def runNow {ε β : Type} (compute : List (Obj G V) → Except ε β) (objs : List (Obj G V)) :=
  run (Gen.Exits.resetInFinally && Gen.Exits.unprotectedSitesAfterTiling == 0) Gen.Exits.restoreBySlicing compute objs

/-! ### the same with the re-normalisation made visible, and the three regenerated facts as separate arguments

The code tiles an orientation path by `R.from_quat(np.concatenate((ori.as_quat(), tile)))`: EVERY entry of the tiled path
— the old ones too — goes through scipy's normalisation `norm` (the identity in exact arithmetic, possibly a 1-ulp
change in floats).  `run` above is the case `norm = id`. -/

def tileN (norm : G → G) (M : Nat) (o : Obj G V) : Obj G V :=
  if o.pos.length = M then o else { pos := tilePath M o.pos, ori := (tilePath M o.ori).map norm }

def runN {ε β : Type} (norm : G → G) (inFinally bySlicing : Bool) (compute : List (Obj G V) → Except ε β)
    (objs : List (Obj G V)) : List (Obj G V) × Except ε β :=
  let M := (objs.map (·.pos.length)).foldl max 0
  let tiled := objs.map (tileN norm M)
  let restored := List.zipWith (restore bySlicing) objs tiled
  match compute tiled with
  | .ok b => (restored, .ok b)
  | .error e => if inFinally then (restored, .error e) else (tiled, .error e)

/-- getBH_level2 as a function of the three facts `translate/gen.py:gen_Exits` reads off the AST: the restore sits in a
`finally` (`resetInFinally`), `unprotected` statements that can raise lie between the tiling and the start of that
`try` (a failure of `compute` stands for a failure at any of these sites or inside the `try`), and the restore slices
the tiled path instead of putting the saved arrays back (`bySlicing`) -/
def runFlags {ε β : Type} (norm : G → G) (resetInFinally : Bool) (unprotected : Nat) (bySlicing : Bool)
    (compute : List (Obj G V) → Except ε β) (objs : List (Obj G V)) :=
  runN norm (resetInFinally && unprotected == 0) bySlicing compute objs

/-- the code as it is now, for any normalisation -/
def runNowN {ε β : Type} (norm : G → G) (compute : List (Obj G V) → Except ε β) (objs : List (Obj G V)) :=
  runFlags norm Gen.Exits.resetInFinally Gen.Exits.unprotectedSitesAfterTiling Gen.Exits.restoreBySlicing compute objs

/-! ### (audit2) the fourth regenerated fact: WHICH arrays the restore puts back

`restore false orig _ = orig` builds the assumption "the restore writes the arrays saved before the tiling" into the model:
a save taken AFTER the tiling loop leaves `resetInFinally`, `unprotectedSitesAfterTiling` and `restoreBySlicing` as they are,
and on the real objects leaves every tiled path in place.  `Gen.Exits.savedBeforeTiling` reads that fact off the AST; here it
is the argument `savedBefore` (`false`: what is put back is what the objects hold after the tiling). -/

def restoreS (bySlicing savedBefore : Bool) (orig tiled : Obj G V) : Obj G V :=
  if bySlicing then
    { pos := tiled.pos.take orig.pos.length, ori := tiled.ori.take orig.pos.length }
  else if savedBefore then orig else tiled

def runS {ε β : Type} (norm : G → G) (inFinally bySlicing savedBefore : Bool) (compute : List (Obj G V) → Except ε β)
    (objs : List (Obj G V)) : List (Obj G V) × Except ε β :=
  let M := (objs.map (·.pos.length)).foldl max 0
  let tiled := objs.map (tileN norm M)
  let restored := List.zipWith (restoreS bySlicing savedBefore) objs tiled
  match compute tiled with
  | .ok b => (restored, .ok b)
  | .error e => if inFinally then (restored, .error e) else (tiled, .error e)

/-- getBH_level2 as a function of the FOUR facts `gen_Exits` reads off the AST -/
def runFlags4 {ε β : Type} (norm : G → G) (resetInFinally : Bool) (unprotected : Nat) (bySlicing savedBefore : Bool)
    (compute : List (Obj G V) → Except ε β) (objs : List (Obj G V)) :=
  runS norm (resetInFinally && unprotected == 0) bySlicing savedBefore compute objs

/-- the code as it is now, all four facts regenerated -/
def runNowS {ε β : Type} (norm : G → G) (compute : List (Obj G V) → Except ε β) (objs : List (Obj G V)) :=
  runFlags4 norm Gen.Exits.resetInFinally Gen.Exits.unprotectedSitesAfterTiling Gen.Exits.restoreBySlicing
    Gen.Exits.savedBeforeTiling compute objs

end MagpyVerif.Level2State
