/-
Model/RotFrom.lean — the six `rotate_from_*` entry points of `BaseTransform` (class_BaseTransform.py) up to
the scipy `Rotation` object each hands to `self.rotate(rot, anchor, start)` (C09).  As the code is written:

```
rotate_from_angax (angle, axis, anchor, start, degrees)   checks + degree scaling + axis normalisation done by
                                                          magpylib itself (Model/Angax.lean), then R.from_rotvec
rotate_from_rotvec(rotvec, anchor, start, degrees)        rot = R.from_rotvec(rotvec, degrees=degrees)
rotate_from_euler (angle, seq, anchor, start, degrees)    rot = R.from_euler(seq, angle, degrees=degrees)
rotate_from_matrix(matrix, anchor, start)                 rot = R.from_matrix(matrix)
rotate_from_mrp   (mrp, anchor, start)                    rot = R.from_mrp(mrp)
rotate_from_quat  (quat, anchor, start)                   rot = R.from_quat(quat)
      … each followed by   return self.rotate(rot, anchor=anchor, start=start)
```
magpylib validates nothing itself for the last five: a malformed argument is scipy's `ValueError` (raised before
`rotate` is entered, so the state is untouched).  What decides between *scalar* input (the whole path is rotated,
`start='auto'` = 0) and *vector* input (merged / appended, `start='auto'` = len(path)) is the `ndim` of
`rot.as_quat()` in `apply_rotation`, i.e. whether scipy built a single rotation or a stack; scipy builds a single
rotation from one parameter set (rotvec (3,), quat (4,), mrp (3,), matrix (3,3), Euler angles () or (W,)) and a
stack of n from n parameter sets (an outer axis of length n, also n = 1), each stack entry from its own row.  That
shape rule is modelled explicitly (`PathIn.map`, `eulerRows`); the conversion of ONE parameter set to a rotation
is the opaque parameter `Scipy` (DESIGN §4: scipy `Rotation` is assumed).  Euler sequences are composed here from
elementary axis rotations (scipy's definition: extrinsic `'xyz'` = R_z·R_y·R_x, intrinsic `'XYZ'` = R_x·R_y·R_z) so that
angle/seq handling, the degree flag and multi-axis sequences are part of the model.

scipy 1.18 (the pinned interpreter) takes Euler angles of shape () / (W,) [single] or (n, W) [stack] where W is the
number of axes; a 1-D array of n ≠ 1 angles for a one-letter sequence was refused by scipy (the docstring of
`rotate_from_euler` promises shape (n,)) until repo fix 96c592d, which reshapes it to (n, 1) before scipy sees it.
Mathlib-free, computable, polymorphic over `Num α`.
-/
import MagpyVerif.Model.Angax
namespace MagpyVerif.RotFrom
open MagpyVerif MagpyVerif.Kern MagpyVerif.Angax Num

inductive Err
  | badUserInput            -- MagpylibBadUserInput (raised by magpylib's own checks: rotate_from_angax only)
  | foreign                 -- scipy's ValueError
  deriving DecidableEq, Repr

/-- quaternion in scipy's scalar-last order -/
structure Q4 (α : Type) where
  x : α
  y : α
  z : α
  w : α
  deriving Repr

/-- the scipy constructors for ONE parameter set (opaque; `none` = scipy refuses the values with a ValueError:
zero-norm quaternion, matrix with non-positive determinant) -/
structure Scipy (α G : Type) where
  /-- `Rotation.from_rotvec(v)`, `v` in radians -/
  fromRotvec : V3 α → G
  fromQuat : Q4 α → Option G
  fromMrp : V3 α → G
  fromMatrix : M3 α → Option G

/-- the `angle` argument of `rotate_from_euler` as scipy sees it (`np.asarray(angles)`): a number / 0-d array,
a 1-D array, or a 2-D array (rows) -/
inductive EulerIn (α : Type) where
  | num (a : α)
  | arr1 (as : List α)
  | arr2 (rows : List (List α))
  deriving Repr

/-- raw arguments of the six entry points (after `np.asarray`; the shape classes scipy accepts) -/
inductive Entry (α : Type) where
  | angax (angle : PathIn α) (axis : AxisIn α) (degrees : Bool)
  | rotvec (rv : PathIn (V3 α)) (degrees : Bool)
  | euler (angles : EulerIn α) (seq : String) (degrees : Bool)
  | matrix (m : PathIn (M3 α))
  | mrp (m : PathIn (V3 α))
  | quat (q : PathIn (Q4 α))
  deriving Repr

variable {α G : Type} [Num α]

/-- `Option`-valued conversion of every parameter set; any refused one refuses the call -/
def allSome {β γ : Type} (f : β → Option γ) : List β → Option (List γ)
  | [] => some []
  | x :: xs => match f x, allSome f xs with
    | some y, some ys => some (y :: ys)
    | _, _ => none

def mapOpt {β γ : Type} (f : β → Option γ) : PathIn β → Option (PathIn γ)
  | .scalar x => (f x).map .scalar
  | .vector xs => (allSome f xs).map .vector

/-- scipy's check of `seq`: 1 to 3 letters, all from `xyz` (extrinsic) or all from `XYZ` (intrinsic), consecutive
letters different.  Returns (intrinsic?, axis indices 0/1/2). -/
def parseSeq (seq : String) : Option (Bool × List Nat) :=
  let cs := seq.toList
  if cs.length = 0 ∨ 3 < cs.length then none else
  let lower := cs.all fun c => c = 'x' ∨ c = 'y' ∨ c = 'z'
  let upper := cs.all fun c => c = 'X' ∨ c = 'Y' ∨ c = 'Z'
  if !(lower || upper) then none else
  let ax := cs.map fun c => if c = 'x' ∨ c = 'X' then 0 else if c = 'y' ∨ c = 'Y' then 1 else 2
  if (ax.zip ax.tail).any (fun p => p.1 = p.2) then none else some (upper, ax)

/-- unit vector of axis index 0/1/2 scaled by `θ` -/
def axisRotvec (i : Nat) (θ : α) : V3 α :=
  if i = 0 then ⟨θ, n 0, n 0⟩ else if i = 1 then ⟨n 0, θ, n 0⟩ else ⟨n 0, n 0, θ⟩

/-- one Euler parameter set ↦ one rotation: product of the elementary rotations, the later axis on the left for
extrinsic sequences, on the right for intrinsic ones -/
def eulerOne [Mul G] [One G] (f : V3 α → G) (intrinsic : Bool) (axes : List Nat) (angles : List α) : G :=
  (axes.zip angles).foldl
    (fun acc p => if intrinsic then acc * f (axisRotvec p.1 p.2) else f (axisRotvec p.1 p.2) * acc) 1

/-- scipy's shape rule for Euler angles with a sequence of `W` axes; since repo fix 96c592d `rotate_from_euler` itself turns a
1-D input about a single axis into `n` rows of one angle (the documented vector input) before scipy sees it -/
def eulerRows (W : Nat) : EulerIn α → Option (PathIn (List α))
  | .num a => if W = 1 then some (.scalar [a]) else none
  | .arr1 as => if W = 1 then some (.vector (as.map fun a => [a])) else if as.length = W then some (.scalar as) else none
  | .arr2 rows => if rows.all (fun r => r.length = W) then some (.vector rows) else none

/-- the `Rotation` (single ↦ `scalar`, stack ↦ `vector`) an entry point hands to `rotate`, or the error raised
before `rotate` is entered -/
def toRot [Mul G] [One G] (sc : Scipy α G) : Entry α → Except Err (PathIn G)
  | .angax angle axis degrees =>
    match angaxRotvecs angle axis degrees with
    | .error _ => .error .badUserInput
    | .ok rv => .ok (rv.map sc.fromRotvec)
  | .rotvec rv degrees =>
    .ok (rv.map fun v => sc.fromRotvec ⟨toRad degrees v.x, toRad degrees v.y, toRad degrees v.z⟩)
  | .euler angles seq degrees =>
    match parseSeq seq with
    | none => .error .foreign
    | some (intr, axes) =>
      match eulerRows axes.length angles with
      | none => .error .foreign
      | some rows => .ok (rows.map fun r => eulerOne sc.fromRotvec intr axes (r.map (toRad degrees)))
  | .matrix m => match mapOpt sc.fromMatrix m with
    | none => .error .foreign
    | some r => .ok r
  | .mrp m => .ok (m.map sc.fromMrp)
  | .quat q => match mapOpt sc.fromQuat q with
    | none => .error .foreign
    | some r => .ok r

/-- input class of an entry as the path semantics sees it: (scalar input?, number of parameter sets) -/
def Entry.shape : Entry α → Option (Bool × Nat)
  | .angax angle _ _ => some (angle.isScalar, angle.lenip)
  | .rotvec rv _ => some (rv.isScalar, rv.lenip)
  | .euler angles seq _ =>
    (parseSeq seq).bind fun p => (eulerRows p.2.length angles).map fun r => (r.isScalar, r.lenip)
  | .matrix m => some (m.isScalar, m.lenip)
  | .mrp m => some (m.isScalar, m.lenip)
  | .quat q => some (q.isScalar, q.lenip)

/-- an entry point as an operation of the history state machine: a rejected call when the conversion raises,
else `rotate(rot, anchor, start)` on the same node — the one `apply_rotation` every form ends in -/
def rotFromOp {V : Type} [Mul G] [One G] (sc : Scipy α G) (addr : List Nat) (e : Entry α)
    (anchor : Option (PathIn V)) (start : Option Int) : Op G V :=
  match toRot sc e with
  | .error _ => .rejected
  | .ok rot => .rotate addr rot anchor start

/-! concrete single-set conversions for the driver (evaluated in IEEE double, snapped by the driver) -/

/-- `from_quat(q).as_matrix()` (normalising), `none` for a zero-norm quaternion -/
def quatMatrix (q : Q4 α) : Option (M3 α) :=
  let l := sqrt (q.x * q.x + q.y * q.y + q.z * q.z + q.w * q.w)
  if eq0 l then none else
  let x := q.x / l; let y := q.y / l; let z := q.z / l; let w := q.w / l
  some ⟨⟨n 1 - n 2 * (y * y + z * z), n 2 * (x * y - z * w), n 2 * (x * z + y * w)⟩,
        ⟨n 2 * (x * y + z * w), n 1 - n 2 * (x * x + z * z), n 2 * (y * z - x * w)⟩,
        ⟨n 2 * (x * z - y * w), n 2 * (y * z + x * w), n 1 - n 2 * (x * x + y * y)⟩⟩

/-- `from_mrp(m)` as a quaternion: (2m, 1 − |m|²) / (1 + |m|²) -/
def mrpQuat (m : V3 α) : Q4 α :=
  let s := m.x * m.x + m.y * m.y + m.z * m.z
  ⟨n 2 * m.x / (n 1 + s), n 2 * m.y / (n 1 + s), n 2 * m.z / (n 1 + s), (n 1 - s) / (n 1 + s)⟩

/-- determinant (scipy refuses `det ≤ 0`) -/
def det3 (m : M3 α) : α :=
  m.r1.x * (m.r2.y * m.r3.z - m.r2.z * m.r3.y) - m.r1.y * (m.r2.x * m.r3.z - m.r2.z * m.r3.x)
    + m.r1.z * (m.r2.x * m.r3.y - m.r2.y * m.r3.x)

end MagpyVerif.RotFrom
