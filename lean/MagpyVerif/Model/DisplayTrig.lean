/-
Model/DisplayTrig.lean — the vertex COORDINATES of the display generators that use sin / cos (C19),
written as the code computes them (operation order, `np.linspace` end-point handling, ring order):

* `np.linspace(start, stop, num, endpoint)` (numpy 2.x `function_base.linspace`)      — `linspace`
* `traces_base.make_Prism(base=N, diameter, height)`            (Cylinder graphic)    — `prismVerts`
* `traces_base.make_CylinderSegment(dimension=(r1,r2,h,phi1,phi2), vert)`             — `segVerts`, `segN`
* `traces_base.make_Ellipsoid(dimension=(a,b,c), vert=N)`        (Sphere graphic)     — `ellipsoidVerts`
* `traces_base.make_Pyramid(base=N, diameter, height, pivot)`    (arrow heads)        — `pyramidVerts`
* `traces_core.make_Circle(obj, base)`  line trace (the drawn current loop)           — `circleTrace`
* `traces_core.make_Polyline(obj)`      line trace                                    — `polylineTrace`

All generators are modelled with `position=None, orientation=None` (local frame; placement is
`place_and_orient_model3d`, Props/C19 `place_*`).  Mathlib-free, computable, polymorphic over
`Num α` (Model/Kernels.lean): `Float` in the driver (family `disp`, rows `prismv`, `segv`,
`ellv`, `pyrv`, `circ`, `polyl`), `ℝ` in Lemmas/DisplayTrig.lean and Props/C19.lean.
-/
import MagpyVerif.Model.Kernels
import MagpyVerif.Model.Display
namespace MagpyVerif.DisplayTrig
open MagpyVerif MagpyVerif.Kern Num

/-- `int(x)` for a non-negative finite float (truncation = floor) -/
class FloorNat (α : Type) where
  floorNat : α → Nat

variable {α : Type} [Num α]

/-- `a[-1] = v` on a 1-d array (no-op on the empty list; the callers guard with `num > 1`) -/
def setLast (l : List α) (v : α) : List α :=
  match l with
  | [] => []
  | _ => l.dropLast ++ [v]

/-- `np.linspace(start, stop, num, endpoint=endpoint)` for scalar `start`, `stop` and `num ≥ 0`:
```
div = (num - 1) if endpoint else num
delta = stop - start
y = arange(0, num)
if div > 0:
    step = delta / div
    if step == 0:  y /= div; y *= delta      # "special handling for denormal numbers"
    else:          y *= step
else:              y = y * delta             # 0 items, or 1 item with endpoint=True
y += start
if endpoint and num > 1: y[-1] = stop
``` -/
def linspaceBody (start stop : α) (num div : Nat) : List α :=
  let delta := stop - start
  if 0 < div then
    let step := delta / n div
    if eq0 step then (List.range num).map (fun k => n k / n div * delta + start)
    else (List.range num).map (fun k => n k * step + start)
  else (List.range num).map (fun k => n k * delta + start)

def linspace (start stop : α) (num : Nat) (endpoint : Bool) : List α :=
  let y := linspaceBody start stop num (if endpoint then num - 1 else num)
  if endpoint && decide (1 < num) then setLast y stop else y

/-- the literal `0.5` -/
def half : α := n 1 / n 2

/-! ## `make_Prism` -/

/-- `t = np.linspace(0, 2 * np.pi, N, endpoint=False)` -/
def ringAngles (N : Nat) : List α := linspace (n 0) (n 2 * pi) N false

/--
```
c1 = np.array([1 * np.cos(t), 1 * np.sin(t), t * 0 - 1]) * 0.5
c2 = np.array([1 * np.cos(t), 1 * np.sin(t), t * 0 + 1]) * 0.5
c3 = np.array([[0, 0], [0, 0], [-1, 1]]) * 0.5
c = np.concatenate([c1, c2, c3], axis=1)
c = c.T * np.array([diameter, diameter, height])
```
rows: bottom ring 0..N-1, top ring N..2N-1, bottom centre 2N, top centre 2N+1 -/
def prismVerts (N : Nat) (d h : α) : List (V3 α) :=
  let t : List α := ringAngles N
  let c1 := t.map (fun t => (⟨n 1 * cos t * half * d, n 1 * sin t * half * d, (t * n 0 - n 1) * half * h⟩ : V3 α))
  let c2 := t.map (fun t => (⟨n 1 * cos t * half * d, n 1 * sin t * half * d, (t * n 0 + n 1) * half * h⟩ : V3 α))
  let c3 : List (V3 α) := [⟨n 0 * half * d, n 0 * half * d, (-n 1) * half * h⟩, ⟨n 0 * half * d, n 0 * half * d, n 1 * half * h⟩]
  c1 ++ c2 ++ c3

/-! ## `make_Pyramid` -/

/-- `z_shift` of the `pivot` table: "tail" ↦ height / 2, "tip" ↦ -height / 2, "middle" ↦ 0 -/
inductive Pivot
  | tail | tip | middle
  deriving DecidableEq, Repr

def zShift (p : Pivot) (h : α) : α :=
  match p with
  | .tail => h / n 2
  | .tip => (-h) / n 2
  | .middle => n 0

/--
```
c = np.array([np.cos(t), np.sin(t), t * 0 - 1]) * 0.5
tp = np.array([[0, 0, 0.5]]).T
c = np.concatenate([c, tp], axis=1)
c = c.T * np.array([diameter, diameter, height]) + np.array([0, 0, z_shift])
```
rows: base ring 0..N-1, tip N -/
def pyramidVerts (N : Nat) (d h : α) (p : Pivot) : List (V3 α) :=
  let t : List α := ringAngles N
  let zs := zShift p h
  let c := t.map (fun t => (⟨cos t * half * d + n 0, sin t * half * d + n 0, (t * n 0 - n 1) * half * h + zs⟩ : V3 α))
  c ++ [⟨n 0 * d + n 0, n 0 * d + n 0, half * h + zs⟩]

/-! ## `make_CylinderSegment` -/

/-- `N = max(5, int(vert * abs(phi1 - phi2) / 360))` -/
def segN [FloorNat α] (vert : Nat) (phi1 phi2 : α) : Nat :=
  max 5 (FloorNat.floorNat (n vert * abs (phi1 - phi2) / n 360))

/-- `np.deg2rad(x)` = `x * (π / 180)` -/
def deg2rad (x : α) : α := x * (pi / n 180)

/-- one arc: `[r * x, r * y, z + s·h / 2]` with `x = cos(deg2rad(phi))`, `y = sin(deg2rad(phi))`,
`z = 0`; `top` selects `z + h / 2` or `z - h / 2` -/
def segArc (phis : List α) (r h : α) (top : Bool) : List (V3 α) :=
  phis.map (fun p => (⟨r * cos (deg2rad p), r * sin (deg2rad p), if top then n 0 + h / n 2 else n 0 - h / n 2⟩ : V3 α))

/-- the vertices of `make_CylinderSegment` for a given arc count `N` (= `segN vert phi1 phi2`):
```
phi = np.linspace(phi1, phi2, N)
c1 = [r1 x, r1 y, z + h/2]; c2 = [r2 x, r2 y, z + h/2]; c3 = [r1 x, r1 y, z - h/2]; c4 = [r2 x, r2 y, z - h/2]
x, y, z = np.concatenate([c1, c2, c3, c4], axis=1)
```
No vertex is dropped: for `r1 = 0` the inner arcs are `N` coincident points on the axis. -/
def segVertsN (N : Nat) (r1 r2 h phi1 phi2 : α) : List (V3 α) :=
  let phis := linspace phi1 phi2 N true
  segArc phis r1 h true ++ segArc phis r2 h true ++ segArc phis r1 h false ++ segArc phis r2 h false

def segVerts [FloorNat α] (vert : Nat) (r1 r2 h phi1 phi2 : α) : List (V3 α) :=
  segVertsN (segN vert phi1 phi2) r1 r2 h phi1 phi2

/-! ## `make_Ellipsoid` -/

/-- `np.meshgrid(phi, theta)` + the three coordinate formulas + `.flatten()`: row-major, the row
index runs over `theta` (latitude), the column index over `phi` (longitude) -/
def ellipsoidGrid (N : Nat) (a b c : α) : List (V3 α) :=
  let phi : List α := linspace (n 0) (n 2 * pi) N false
  let theta : List α := linspace (-pi / n 2) (pi / n 2) N true
  theta.flatMap (fun th => phi.map (fun ph =>
    (⟨cos th * sin ph * a * half, cos th * cos ph * b * half, sin th * c * half⟩ : V3 α)))

/-- Python's `l[N - 1 : -N + 1]` on a list of length `N * N` (for `N ≤ 1` the stop index `-N + 1`
is `0` or `1` and the slice is empty) -/
def poleSlice {β : Type} (N : Nat) (l : List β) : List β :=
  if N ≤ 1 then [] else (l.take (N * N - (N - 1))).drop (N - 1)

/-- the vertex arrays of `make_Ellipsoid(dimension=(a, b, c), vert=N)`: the south pole once, the
`N - 2` inner latitude rings of `N` points each, the north pole once.  (For `N ≤ 3` the real function
goes on to raise `ValueError` from `np.concatenate([])` while building the index arrays.) -/
def ellipsoidVerts (N : Nat) (a b c : α) : List (V3 α) := poleSlice N (ellipsoidGrid N a b c)

/-- `make_Ellipsoid` as a whole, as far as the vertices go: the index arrays are built with
`np.concatenate([… for i in range(N - 3)])`, which raises `ValueError` ("need at least one array to
concatenate") exactly when `N ≤ 3`. -/
def ellipsoid (N : Nat) (a b c : α) : Except Display.Err (List (V3 α)) :=
  if N ≤ 3 then .error .valueError else .ok (ellipsoidVerts N a b c)

/-! ## current traces -/

/-- the `line` trace of `make_Circle(obj, base)`:
```
t = np.linspace(0, 2 * np.pi, base)
x = np.cos(t) * obj.diameter / 2;  y = np.sin(t) * obj.diameter / 2;  z = np.zeros(x.shape)
``` -/
def circleTrace (base : Nat) (d : α) : List (V3 α) :=
  (linspace (n 0) (n 2 * pi) base true).map (fun t => (⟨cos t * d / n 2, sin t * d / n 2, n 0⟩ : V3 α))

/-- the `line` trace of `make_Polyline(obj)`: `x, y, z = obj.vertices.T` -/
def polylineTrace {β : Type} (verts : List (V3 β)) : List β × List β × List β :=
  (verts.map (·.x), verts.map (·.y), verts.map (·.z))

end MagpyVerif.DisplayTrig
