/-
Model/Copy.lean — `BaseGeo.copy()` at tree level (C18): the subtree below the copied object is
cloned onto fresh ids (deepcopy with the parent link cut), the original forest is not written to;
and `add_iteration_suffix` for the automatically iterated label.
-/
import MagpyVerif.Model.Forest

namespace MagpyVerif
namespace Forest

/-- all nodes of the subtree of `o` in pre-order (fuel-bounded depth-first walk over `_children`) -/
def subtree (s : Forest) : Nat → Nat → List Nat
  | 0, _ => []
  | k + 1, o => o :: (s.children o).flatMap (subtree s k)

/-- `check_format_input_obj(self, allow, recursive=True)` — the `children_all` / `sources_all` / `sensors_all` /
`collections_all` views: every child of a wanted type is appended, and a child that is a Collection is descended
into right after (fuel-bounded; the code recurses without a bound) -/
def flatAll (s : Forest) (want : Kind → Bool) : Nat → Nat → List Nat
  | 0, _ => []
  | k + 1, c => (s.children c).flatMap fun o =>
      (if want (s.kind o) then [o] else []) ++ (if s.kind o = .coll then flatAll s want k o else [])

/-- `obj.copy()`: clone the subtree of `o`; clone of the i-th subtree node gets id `n + i`;
links inside the subtree are redirected to the clones, the clone of `o` has no parent. -/
def copy (s : Forest) (o : Nat) : Forest :=
  let nodes := s.subtree (s.n + 1) o
  let ren (x : Nat) : Nat := s.n + nodes.idxOf x
  let isNew (j : Nat) : Bool := s.n ≤ j && j < s.n + nodes.length
  let src (j : Nat) : Nat := nodes.getD (j - s.n) 0
  { n := s.n + nodes.length,
    kind := fun j => if isNew j then s.kind (src j) else s.kind j,
    parent := fun j =>
      if isNew j then (if j = s.n then none else (s.parent (src j)).map ren) else s.parent j,
    children := fun j => if isNew j then (s.children (src j)).map ren else s.children j,
    srcs := fun j => if isNew j then (s.srcs (src j)).map ren else s.srcs j,
    sens := fun j => if isNew j then (s.sens (src j)).map ren else s.sens j,
    colls := fun j => if isNew j then (s.colls (src j)).map ren else s.colls j }

/-- `obj.copy()` as one more operation of the C11 state machine: histories may mix the
tree-editing operations with copies; clones become ordinary objects addressable later on -/
inductive COp where
  | base (op : FOp)
  | copy (o : Nat)
  deriving Repr

/-- one step of a history with copies; a copy of a non-existing object is refused -/
def stepC (s : Forest) : COp → Forest × Bool
  | .base op => s.step op
  | .copy o => if o < s.n then (s.copy o, true) else (s, false)

end Forest

/-! ### label iteration -/

def isDigit (c : Char) : Bool := '0' ≤ c && c ≤ '9'

/-- trailing run of decimal digits: (prefix, digits) -/
def splitTrailingDigits (name : List Char) : List Char × List Char :=
  let ds := (name.reverse.takeWhile isDigit).reverse
  (name.take (name.length - ds.length), ds)

def digitsToNat (ds : List Char) : Nat := ds.foldl (fun acc c => acc * 10 + (c.toNat - '0'.toNat)) 0

/-- `f"{k:0{w}}"` -/
def padded (k w : Nat) : List Char :=
  let ds := (Nat.toDigits 10 k)
  List.replicate (w - ds.length) '0' ++ ds

/-- `add_iteration_suffix(name)` for a non-empty name -/
def addIterationSuffix (name : List Char) : List Char :=
  match splitTrailingDigits name with
  | (pre, []) => pre ++ (if name.getLast? = some '_' then [] else ['_']) ++ padded 1 2
  | (pre, ds) => pre ++ padded (digitsToNat ds + 1) ds.length

/-- the label part of `BaseGeo.copy`: only when the original already has a style object or style
keyword arguments (`styleTouched`) is a label written to the copy — the class name with `_01` when
the original has no label, the iterated label otherwise; else the copy stays unlabelled -/
def copyLabel (cls : List Char) (styleTouched : Bool) (label : Option (List Char)) : Option (List Char) :=
  if styleTouched then
    some (match label with
      | none => cls ++ ['_', '0', '1']
      | some l => addIterationSuffix l)
  else none

end MagpyVerif
