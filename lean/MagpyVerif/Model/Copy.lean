/-
Model/Copy.lean — `BaseGeo.copy()` at tree level (C18): the subtree below the copied object is
cloned onto fresh ids (deepcopy with the parent link cut), the original forest is not written to;
and `add_iteration_suffix` for the automatically iterated label.
-/
import MagpyVerif.Model.Forest

namespace MagpyVerif
namespace Forest

/-- all nodes of the subtree of `o` in pre-order (fuel-bounded depth-first walk over `_children`) -/
def subtree (s : Forest) : Nat → Nat → List Nat
  | 0, _ => []
  | k + 1, o => o :: (s.children o).flatMap (subtree s k)

/-- `obj.copy()`: clone the subtree of `o`; clone of the i-th subtree node gets id `n + i`;
links inside the subtree are redirected to the clones, the clone of `o` has no parent. -/
def copy (s : Forest) (o : Nat) : Forest :=
  let nodes := s.subtree (s.n + 1) o
  let ren (x : Nat) : Nat := s.n + nodes.idxOf x
  let isNew (j : Nat) : Bool := s.n ≤ j && j < s.n + nodes.length
  let src (j : Nat) : Nat := nodes.getD (j - s.n) 0
  { n := s.n + nodes.length,
    kind := fun j => if isNew j then s.kind (src j) else s.kind j,
    parent := fun j =>
      if isNew j then (if j = s.n then none else (s.parent (src j)).map ren) else s.parent j,
    children := fun j => if isNew j then (s.children (src j)).map ren else s.children j,
    srcs := fun j => if isNew j then (s.srcs (src j)).map ren else s.srcs j,
    sens := fun j => if isNew j then (s.sens (src j)).map ren else s.sens j,
    colls := fun j => if isNew j then (s.colls (src j)).map ren else s.colls j }

end Forest

/-! ### label iteration -/

def isDigit (c : Char) : Bool := '0' ≤ c && c ≤ '9'

/-- trailing run of decimal digits: (prefix, digits) -/
def splitTrailingDigits (name : List Char) : List Char × List Char :=
  let ds := (name.reverse.takeWhile isDigit).reverse
  (name.take (name.length - ds.length), ds)

def digitsToNat (ds : List Char) : Nat := ds.foldl (fun acc c => acc * 10 + (c.toNat - '0'.toNat)) 0

/-- `f"{k:0{w}}"` -/
def padded (k w : Nat) : List Char :=
  let ds := (Nat.toDigits 10 k)
  List.replicate (w - ds.length) '0' ++ ds

/-- `add_iteration_suffix(name)` for a non-empty name -/
def addIterationSuffix (name : List Char) : List Char :=
  match splitTrailingDigits name with
  | (pre, []) => pre ++ (if name.getLast? = some '_' then [] else ['_']) ++ padded 1 2
  | (pre, ds) => pre ++ padded (digitsToNat ds + 1) ds.length

end MagpyVerif
