/-
Model/Path.lean — model of class_BaseTransform.py / class_BaseGeo.py path handling (C09, C10).
Follows the code's structure (path_padding → slice update), not the docstring; the docstring
semantics is Spec/PathSpec.lean.  `G` = rotations, `V` = positions; only core classes are used
so that the same definitions run on `M3 Int × V3 Int` in the driver and are reasoned about over
a Mathlib `Group G` acting on an `AddCommGroup V` in the proofs.
-/
import MagpyVerif.Model.Basic
import MagpyVerif.Gen.PathPad

namespace MagpyVerif
open Gen

/-- position path and orientation path of one object (`_position`, `_orientation`) -/
structure Obj (G V : Type) where
  pos : List V
  ori : List G
  deriving Repr, BEq, DecidableEq

section
variable {G V : Type}

def padOf : Option (Int × Int) → Nat × Nat
  | none => (0, 0)
  | some (b, e) => (b.toNat, e.toNat)

/-- `path_padding(inpath, start, target_object)`; returns (ppath, opath, start, end). -/
def pathPadding (scalar : Bool) (lenip : Nat) (start : Option Int) (o : Obj G V) :
    List V × List G × Nat × Nat :=
  let r := pathPaddingParam scalar o.pos.length lenip start
  let p := padOf r.1
  let ppath := edgePad p.1 p.2 o.pos
  let opath := edgePad p.1 p.2 o.ori
  let stop := if scalar then ppath.length else r.2.toNat + lenip
  (ppath, opath, r.2.toNat, stop)

/-- `apply_move` after input validation. -/
def applyMove [Add V] (inp : PathIn V) (start : Option Int) (o : Obj G V) : Obj G V :=
  let (ppath, opath, s, e) := pathPadding inp.isScalar inp.lenip start o
  { pos := mapSlice (fun k x => match inp.get? k with | some d => x + d | none => x) s e ppath,
    ori := opath }

/-- `multi_anchor_behavior(anchor, inrotQ, rotation)` -/
def multiAnchor (a : PathIn V) (r : PathIn G) : PathIn V × PathIn G :=
  if r.len0 > a.len0 then
    (PathIn.vector (edgePad 0 (r.len0 - max a.len0 1) a.toList), r)
  else if r.len0 < a.len0 then
    (a, PathIn.vector (edgePad 0 (a.len0 - max r.len0 1) r.toList))
  else (a, r)

/-- `apply_rotation` after input validation and after `multi_anchor_behavior`.
`parentPath` = `_position` of the top-level collection the operation was called on
(None for a direct call). -/
def applyRotationAligned [Mul G] [SMul G V] [Add V] [Sub V]
    (rot : PathIn G) (anchor : Option (PathIn V)) (start : Option Int)
    (parentPath : Option (List V)) (o : Obj G V) : Obj G V :=
  let (ppath, opath, s, e) := pathPadding rot.isScalar rot.lenip start o
  let anchor : Option (PathIn V) :=
    match anchor, parentPath with
    | none, some pp =>
      let lenA := e - s
      let r := pathPaddingParam rot.isScalar pp.length lenA start
      let p := padOf r.1
      let pp' := edgePad p.1 p.2 pp
      some (PathIn.vector ((pp'.drop r.2.toNat).take lenA))
    | a, _ => a
  let ppath' :=
    match anchor with
    | none => ppath
    | some a =>
      mapSlice (fun k x => match rot.get? k, a.get? k with
                           | some r, some c => r • (x - c) + c
                           | _, _ => x) s e ppath
  let opath' := mapSlice (fun k q => match rot.get? k with | some r => r * q | none => q) s e opath
  { pos := ppath', ori := opath' }

/-- `apply_rotation` after input validation. -/
def applyRotation [Mul G] [SMul G V] [Add V] [Sub V]
    (rot : PathIn G) (anchor : Option (PathIn V)) (start : Option Int)
    (parentPath : Option (List V)) (o : Obj G V) : Obj G V :=
  match anchor with
  | none => applyRotationAligned rot none start parentPath o
  | some a =>
    let m := multiAnchor a rot
    applyRotationAligned m.2 (some m.1) start parentPath o

/-- position setter of a childless object: new position path, orientation padded/sliced. -/
def setPositionObj (inp : List V) (o : Obj G V) : Obj G V :=
  { pos := inp, ori := padSlice inp.length o.ori }

/-- orientation setter of a childless object. -/
def setOrientationObj (inp : List G) (o : Obj G V) : Obj G V :=
  { pos := padSlice inp.length o.pos, ori := inp }

end
end MagpyVerif
