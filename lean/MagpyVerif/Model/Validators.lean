/-
Model/Validators.lean — input validation at assignment (C17).

A grammar of Python values (`PyVal`) and, branch by branch, the validators of
magpylib/_src/input_checks.py:
  is_array_like, make_float_array, check_array_shape            (building blocks)
  check_format_input_scalar, check_format_input_vector, check_format_input_vector2,
  check_format_input_vertices, check_format_input_cylinder_segment
and the setters that compose them with extra conditions:
  Sensor.pixel, Sensor.handedness (class_Sensor.py), Triangle.vertices, Tetrahedron.vertices,
  Polyline.vertices, CylinderSegment.dimension, BaseGeo.position (validation part).
The control-flow skeleton of each of these functions is regenerated from the source on every run
(Gen/Attr.lean: `skeleton`, `segConds`, `inner`, `table`) and pinned by `decide` theorems in Props/C17.lean.

ASSUMPTION (external functions, validated only by the `valid` correspondence stream):
`np.array(x)` (no dtype) succeeds exactly on rectangular nestings of leaves and on ndarrays; it returns the shape of
the nesting and infers a dtype whose kind is: 'O' as soon as one leaf is `None` or another non-numeric object, else
'U' with a string leaf, else 'c' with a complex leaf, else one of 'f', 'i', 'u', 'b' (int/float/numpy real scalars,
Python bool, numpy.bool_, float nan).  `np.array(arr, dtype=float)` of such a numeric array keeps the shape and gives
the leaves in row-major order (True -> 1.0).
Since the repair of `make_float_array` (strict leaf rule) only numbers are float-compatible entries: `None`,
strings, bytes, complex numbers and other objects inside a vector are refused.  Outside the grammar: non-integer
floats, inf, bytes, integers beyond int64 / Fraction / Decimal (object dtype holding numbers only: accepted by the
code through the element-wise test), nestings deeper than numpy's 64 axes, objects with `__array__`.
-/
import MagpyVerif.Gen.Attr

namespace MagpyVerif.Valid

/-- float64 values that occur: an integer-valued finite number, or nan -/
inductive FVal where
  | fin (v : Int)
  | nan
  deriving Repr, DecidableEq

namespace FVal
/-- IEEE comparison `a < b`: false as soon as one side is nan -/
def lt : FVal → FVal → Bool
  | fin a, fin b => decide (a < b)
  | _, _ => false
/-- IEEE comparison `a <= b` -/
def le : FVal → FVal → Bool
  | fin a, fin b => decide (a ≤ b)
  | _, _ => false
def sub : FVal → FVal → FVal
  | fin a, fin b => fin (a - b)
  | _, _ => nan
def isNan : FVal → Bool
  | nan => true
  | _ => false
end FVal

/-- the value grammar -/
inductive PyVal where
  | none
  /-- Python `bool` -/
  | bool (b : Bool)
  /-- `int`, `numpy.int64`, `numpy.int32` -/
  | num (v : Int)
  /-- `float`, `numpy.float64`, `numpy.float32` carrying an integer value -/
  | flt (v : Int)
  /-- `numpy.bool_` -/
  | npbool (b : Bool)
  /-- the float nan (`float('nan')`, `numpy.nan`) -/
  | nanf
  /-- Python `complex` -/
  | cplx
  | str (s : String)
  /-- any other object (dict, `object()`) -/
  | obj
  /-- a scipy `Rotation` holding `n` quaternions (a single rotation: n = 1), all of them finite or not -/
  | rot (n : Nat) (finite : Bool)
  /-- list or tuple -/
  | seq (xs : List PyVal)
  /-- ndarray of an integer or float dtype: shape and row-major data -/
  | arr (shape : List Nat) (data : List Int)
  deriving Repr

inductive Err where
  /-- `MagpylibBadUserInput` -/
  | badUserInput
  /-- any other exception type -/
  | foreign (exc : String)
  deriving Repr, DecidableEq

/-- the float stored for a leaf of a nested sequence (`none`: not a number, refused by `make_float_array`) -/
def entryVal : PyVal → Option FVal
  | .bool b => some (.fin (if b then 1 else 0))
  | .num v => some (.fin v)
  | .flt v => some (.fin v)
  | .npbool b => some (.fin (if b then 1 else 0))
  | .nanf => some .nan
  | _ => Option.none

mutual
/-- shape of the float array `make_float_array` returns (`none`: refused); `makeFloatArray_eq` below shows that the
statement-by-statement model of the function computes exactly this -/
def shapeOf : PyVal → Option (List Nat)
  | .seq xs =>
    match shapesOf xs with
    | Option.none => Option.none
    | some [] => some [0]
    | some (s :: ss) => if ss.all (· == s) then some ((ss.length + 1) :: s) else Option.none
  | .arr sh _ => some sh
  | .none => Option.none
  | .bool _ => some []
  | .num _ => some []
  | .flt _ => some []
  | .npbool _ => some []
  | .nanf => some []
  | .str _ => Option.none
  | .cplx => Option.none
  | .obj => Option.none
  | .rot _ _ => Option.none
def shapesOf : List PyVal → Option (List (List Nat))
  | [] => some []
  | x :: xs =>
    match shapeOf x, shapesOf xs with
    | some s, some ss => some (s :: ss)
    | _, _ => Option.none
end

/-- number of elements of an array of the given shape -/
def prod : List Nat → Nat
  | [] => 1
  | n :: s => n * prod s

mutual
/-- the entries of the float array in row-major order (an ndarray has exactly `prod shape`
entries: the data list is read by index, which for a well-formed array is the list itself) -/
def flat : PyVal → List FVal
  | .seq xs => flatL xs
  | .arr sh d => (List.range (prod sh)).map fun i => .fin (d.getD i 0)
  | .none => []
  | .bool b => [.fin (if b then 1 else 0)]
  | .num v => [.fin v]
  | .flt v => [.fin v]
  | .npbool b => [.fin (if b then 1 else 0)]
  | .nanf => [.nan]
  | .str _ => []
  | .cplx => []
  | .obj => []
  | .rot _ _ => []
def flatL : List PyVal → List FVal
  | [] => []
  | x :: xs => flat x ++ flatL xs
end

/-- a float ndarray -/
structure NDArr where
  shape : List Nat
  data : List FVal
  deriving Repr, DecidableEq

/-- `inp.size` -/
def NDArr.size (a : NDArr) : Nat := prod a.shape

/-- what an accepted assignment stores -/
inductive Stored where
  | none
  | scalar (x : FVal)
  | array (a : NDArr)
  | text (s : String)
  /-- a path of `n` quaternions, taken over unchanged from the Rotation object -/
  | quats (n : Nat)
  deriving Repr, DecidableEq

/-! ### building blocks -/

/-- `isinstance(inp, (list, tuple, np.ndarray))` -/
def isArrayLike : PyVal → Bool
  | .seq _ => true
  | .arr _ _ => true
  | _ => false

/-- `is_array_like(inp, msg)` -/
def isArrayLikeCheck (v : PyVal) : Except Err Unit :=
  if !isArrayLike v then .error .badUserInput else .ok ()

mutual
/-- shape of `np.array(inp)` without a dtype: every leaf is a scalar; `none`: ragged nesting (ValueError) -/
def rawShape : PyVal → Option (List Nat)
  | .seq xs =>
    match rawShapes xs with
    | Option.none => Option.none
    | some [] => some [0]
    | some (s :: ss) => if ss.all (· == s) then some ((ss.length + 1) :: s) else Option.none
  | .arr sh _ => some sh
  | .none => some []
  | .bool _ => some []
  | .num _ => some []
  | .flt _ => some []
  | .npbool _ => some []
  | .nanf => some []
  | .str _ => some []
  | .cplx => some []
  | .obj => some []
  | .rot _ _ => some []
def rawShapes : List PyVal → Option (List (List Nat))
  | [] => some []
  | x :: xs =>
    match rawShape x, rawShapes xs with
    | some s, some ss => some (s :: ss)
    | _, _ => Option.none
end

mutual
/-- the leaves of a nesting that are not entries of an integer/float ndarray -/
def leaves : PyVal → List PyVal
  | .seq xs => leavesL xs
  | .arr _ _ => []
  | .none => [.none]
  | .bool b => [.bool b]
  | .num v => [.num v]
  | .flt v => [.flt v]
  | .npbool b => [.npbool b]
  | .nanf => [.nanf]
  | .str s => [.str s]
  | .cplx => [.cplx]
  | .obj => [.obj]
  | .rot n f => [.rot n f]
def leavesL : List PyVal → List PyVal
  | [] => []
  | x :: xs => leaves x ++ leavesL xs
end

/-- `arr.dtype.kind` as far as `make_float_array` distinguishes it -/
inductive Kind where
  /-- one of 'f', 'i', 'u', 'b' -/
  | numeric
  /-- 'O' -/
  | object
  /-- 'U', 'S', 'c', 'M', 'm', 'V' -/
  | other
  deriving Repr, DecidableEq

/-- a leaf that makes numpy infer the object dtype: `None` or any object that is not a number or a string -/
def isObjLeaf : PyVal → Bool
  | .bool _ => false
  | .num _ => false
  | .flt _ => false
  | .npbool _ => false
  | .nanf => false
  | .str _ => false
  | .cplx => false
  | _ => true
def isStrLeaf : PyVal → Bool
  | .str _ => true
  | _ => false
def isCplxLeaf : PyVal → Bool
  | .cplx => true
  | _ => false

/-- the dtype kind numpy infers for `np.array(inp)` (assumption in the header) -/
def kindOf (v : PyVal) : Kind :=
  let ls := leaves v
  if ls.any isObjLeaf then .object
  else if ls.any isStrLeaf then .other
  else if ls.any isCplxLeaf then .other
  else .numeric

/-- `isinstance(x, (numbers.Number, np.bool_))` for a leaf -/
def isNumberLeaf : PyVal → Bool
  | .bool _ => true
  | .num _ => true
  | .flt _ => true
  | .npbool _ => true
  | .nanf => true
  | .cplx => true
  | _ => false

/-- `make_float_array(inp, msg)` statement by statement (skeleton in Gen/Attr): `arr = np.array(inp)`; a kind other than
'fiub' is refused unless it is 'O' with numbers only; `np.array(arr, dtype=float)` (TypeError for a complex entry);
every exception inside the `try` becomes the library's error -/
def makeFloatArray (v : PyVal) : Except Err NDArr :=
  match rawShape v with
  | Option.none => .error .badUserInput                       -- ValueError of np.array(inp)
  | some sh =>
    let kind := kindOf v
    if kind != .numeric && (kind != .object || !(leaves v).all isNumberLeaf) then
      .error .badUserInput                                    -- raise TypeError inside the try
    else if (leaves v).any isCplxLeaf then .error .badUserInput   -- TypeError of the float conversion
    else .ok ⟨sh, flat v⟩

/-- `check_array_shape(inp, dims, shape_m1, length, msg)`; `shapeM1 = -1` stands for "any", `length = 0` for None.
`inp.shape[-1]` and `len(inp)` of a 0-d array raise IndexError / TypeError. -/
def checkArrayShape (a : NDArr) (dims : List Nat) (shapeM1 : Int) (length : Nat) : Except Err Unit :=
  if dims.contains a.shape.length then
    let lenStep : Except Err Unit :=
      if length == 0 then .ok ()
      else match a.shape.head? with
        | Option.none => .error (.foreign "TypeError")
        | some n => if n == length then .ok () else .error .badUserInput
    if shapeM1 == -1 then lenStep
    else match a.shape.getLast? with
      | Option.none => .error (.foreign "IndexError")
      | some l => if (l : Int) == shapeM1 then lenStep else .error .badUserInput
  else .error .badUserInput

/-- `isinstance(inp, numbers.Number)` -/
def isNumber : PyVal → Bool
  | .bool _ => true
  | .num _ => true
  | .flt _ => true
  | .nanf => true
  | .cplx => true
  | _ => false

/-- `float(inp)` for an instance of numbers.Number -/
def pyFloat : PyVal → Except Err FVal
  | .bool b => .ok (.fin (if b then 1 else 0))
  | .num v => .ok (.fin v)
  | .flt v => .ok (.fin v)
  | .nanf => .ok .nan
  | _ => .error (.foreign "TypeError")

/-! ### validators -/

/-- `check_format_input_scalar(inp, sig_name, sig_type, allow_None, forbid_negative)` -/
def checkScalar (allowNone forbidNegative : Bool) (v : PyVal) : Except Err Stored :=
  match allowNone, v with
  | true, .none => .ok .none
  | _, _ =>
    if !isNumber v then .error .badUserInput
    else match pyFloat v with
      | .error _ => .error .badUserInput   -- `try: inp = float(inp) / except (TypeError, OverflowError): raise MagpylibBadUserInput`
      | .ok x =>
        if forbidNegative && x.lt (.fin 0) then .error .badUserInput
        else .ok (.scalar x)

/-- `check_format_input_vector` configured by a row of the generated table (`reshape` = `(-1, 3)`) -/
def checkVector (cfg : Gen.Attr.Row) (v : PyVal) : Except Err Stored :=
  match cfg.allowNone, v with
  | true, .none => .ok .none
  | _, _ =>
    match isArrayLikeCheck v with
    | .error e => .error e
    | .ok () =>
    match makeFloatArray v with
    | .error e => .error e
    | .ok a =>
    match checkArrayShape a cfg.dims cfg.shapeM1 cfg.length with
    | .error e => .error e
    | .ok () =>
      if cfg.reshape then
        if a.size == 0 then .error .badUserInput
        else if a.size % 3 != 0 then .error (.foreign "ValueError")   -- np.reshape(inp, (-1, 3))
        else .ok (.array ⟨[a.size / 3, 3], a.data⟩)
      else if cfg.forbidNegative0 && a.data.any (fun x => x.le (.fin 0)) then .error .badUserInput
      else .ok (.array a)

/-- the loop `for d1, d2 in zip(inp.shape, shape): if d2 is not None: if d1 != d2: raise ValueError` -/
def zipShapeCheck : List Nat → List (Option Nat) → Except Err Unit
  | d1 :: ds, d2 :: ss =>
    match d2 with
    | some k => if d1 != k then .error (.foreign "ValueError") else zipShapeCheck ds ss
    | Option.none => zipShapeCheck ds ss
  | _, _ => .ok ()

/-- `check_format_input_vector2(inp, shape, param_name)` -/
def checkVector2 (shape : List (Option Nat)) (v : PyVal) : Except Err Stored :=
  match isArrayLikeCheck v with
  | .error e => .error e
  | .ok () =>
  match makeFloatArray v with
  | .error e => .error e
  | .ok a =>
  match zipShapeCheck a.shape shape with
  | .error e => .error e
  | .ok () => .ok (.array a)

/-- the call of check_format_input_vector inside check_format_input_vertices -/
def verticesCfg : Gen.Attr.Row :=
  ⟨"input_checks", "check_format_input_vertices", "check_format_input_vector", [2], 3, 0, true, false, false, false⟩

def isNoneLeaf : PyVal → Bool
  | .none => true
  | _ => false

/-- one row under `arr[np.equal(arr, None).all(axis=1)] = np.nan`: a row of `None` only becomes a row of nan -/
def rowNan : PyVal → PyVal
  | .seq xs => if xs.all isNoneLeaf then .seq (xs.map fun _ => .nanf) else .seq xs
  | r => r

/-- `none_rows_to_nan(inp)` for a list/tuple: when `np.array(inp)` is two-dimensional (of object kind — implied by the
presence of a `None`), the rows that consist of `None` only become rows of nan; a ragged nesting (ValueError, caught) or
another rank is returned unchanged.  (The code returns the converted array; for everything that follows, an array and
the nesting it was built from are interchangeable.) -/
def noneRowsToNan (v : PyVal) : PyVal :=
  match v with
  | .seq rows =>
    match rawShape (.seq rows) with
    | some [_, _] => .seq (rows.map rowNan)
    | _ => .seq rows
  | v => v

/-- `isinstance(inp, (list, tuple))` -/
def isSeq : PyVal → Bool
  | .seq _ => true
  | _ => false

/-- `check_format_input_vertices` after the separator rows were replaced -/
def checkVerticesCore (v : PyVal) : Except Err Stored :=
  match checkVector verticesCfg v with
  | .error e => .error e
  | .ok (.array a) =>
    match a.shape.head? with
    | Option.none => .error (.foreign "IndexError")          -- inp.shape[0]
    | some n => if n < 2 then .error .badUserInput else .ok (.array a)
  | .ok s => .ok s

/-- `check_format_input_vertices(inp)` -/
def checkVertices (v : PyVal) : Except Err Stored :=
  checkVerticesCore (if isSeq v then noneRowsToNan v else v)

/-- the call of check_format_input_vector inside check_format_input_cylinder_segment -/
def segmentCfg : Gen.Attr.Row :=
  ⟨"input_checks", "check_format_input_cylinder_segment", "check_format_input_vector", [1], 5, 0, true, false, false, false⟩

/-- `check_format_input_cylinder_segment(inp)` -/
def checkCylSeg (v : PyVal) : Except Err Stored :=
  match checkVector segmentCfg v with
  | .error e => .error e
  | .ok (.array a) =>
    match a.data with
    | [r1, r2, h, phi1, phi2] =>
      let case2 := r2.lt r1                               -- r1 > r2
      let case3 := phi2.lt phi1                           -- phi1 > phi2
      let case4 := (FVal.fin 360).lt (phi2.sub phi1)      -- (phi2 - phi1) > 360
      let case5 := r1.lt (.fin 0) || r2.le (.fin 0) || h.le (.fin 0)
      if case2 || case3 || case4 || case5 then .error .badUserInput else .ok (.array a)
    | _ => .error (.foreign "ValueError")                 -- tuple unpacking
  | .ok s => .ok s

/-! ### arguments of the transform methods and of getB/getH: start, degrees, field, output, anchor, angle, axis, orientation -/

/-- `check_start_type(inp)`: `isinstance(inp, (int, np.integer)) or (isinstance(inp, str) and inp == "auto")`; returns None -/
def checkStart : PyVal → Except Err Stored
  | .num _ => .ok .none
  | .bool _ => .ok .none                   -- Python's bool is an int
  | .str s => if s == "auto" then .ok .none else .error .badUserInput
  | _ => .error .badUserInput

/-- `check_degree_type(inp)`: `isinstance(inp, bool)`; returns None -/
def checkDegrees : PyVal → Except Err Stored
  | .bool _ => .ok .none
  | _ => .error .badUserInput

/-- `check_field_input(inp)`: `isinstance(inp, str) and inp in tuple("BHMJ")`; returns None -/
def checkField : PyVal → Except Err Stored
  | .str s => if ["B", "H", "M", "J"].contains s then .ok .none else .error .badUserInput
  | _ => .error .badUserInput

/-- `check_getBH_output_type(output)`: `output not in ("ndarray", "dataframe")` raises ValueError (pandas is installed) -/
def checkOutput : PyVal → Except Err Stored
  | .str s => if s == "ndarray" || s == "dataframe" then .ok (.text s) else .error (.foreign "ValueError")
  | _ => .error (.foreign "ValueError")

/-- `inp == 0` for an instance of numbers.Number (a complex zero is outside the grammar) -/
def isZeroNumber : PyVal → Bool
  | .num v => v == 0
  | .flt v => v == 0
  | .bool b => !b
  | _ => false

def anchorCfg : Gen.Attr.Row :=
  ⟨"input_checks", "check_format_input_anchor", "check_format_input_vector", [1, 2], 3, 0, true, false, false, false⟩
def axisCfg : Gen.Attr.Row :=
  ⟨"input_checks", "check_format_input_axis", "check_format_input_vector", [1], 3, 0, false, false, false, false⟩
def angleCfg : Gen.Attr.Row :=
  ⟨"input_checks", "check_format_input_angle", "check_format_input_vector", [1], -1, 0, false, false, false, false⟩

/-- the part of `check_format_input_anchor` for an input that is not the number 0: the vector check, then
`inp is not None and inp.size == 0` (an empty (0,3) array is refused) -/
def anchorVec (v : PyVal) : Except Err Stored :=
  match checkVector anchorCfg v with
  | .error e => .error e
  | .ok (.array a) => if a.size == 0 then .error .badUserInput else .ok (.array a)
  | .ok s => .ok s

/-- `check_format_input_anchor(inp)` -/
def checkAnchor (v : PyVal) : Except Err Stored :=
  if isNumber v && isZeroNumber v then .ok (.array ⟨[3], [.fin 0, .fin 0, .fin 0]⟩)
  else anchorVec v

/-- `check_format_input_angle(inp)`: `try: return float(inp) / except (TypeError, OverflowError): raise MagpylibBadUserInput`
(a complex number; an integer beyond the float range is outside the grammar) -/
def checkAngle (v : PyVal) : Except Err Stored :=
  if isNumber v then
    match pyFloat v with
    | .ok x => .ok (.scalar x)
    | .error _ => .error .badUserInput
  else checkVector angleCfg v

/-- the part of `check_format_input_axis` for an input that is not a string: the vector check, then `np.all(inp == 0)` -/
def axisVec (v : PyVal) : Except Err Stored :=
  match checkVector axisCfg v with
  | .error e => .error e
  | .ok (.array a) => if a.data.all (· == .fin 0) then .error .badUserInput else .ok (.array a)
  | .ok s => .ok s

/-- `check_format_input_axis(inp)` -/
def checkAxis : PyVal → Except Err Stored
  | .str s =>
    if s == "x" then .ok (.array ⟨[3], [.fin 1, .fin 0, .fin 0]⟩)
    else if s == "y" then .ok (.array ⟨[3], [.fin 0, .fin 1, .fin 0]⟩)
    else if s == "z" then .ok (.array ⟨[3], [.fin 0, .fin 0, .fin 1]⟩)
    else .error .badUserInput
  | v => axisVec v

/-- `check_format_input_orientation(inp, init_format)`: the type test, `None` -> unit quaternion, the finiteness test of repo
commit c681ce5, and (init_format, i.e. constructor and setter) the refusal of an empty Rotation -/
def checkOrientation (initFormat : Bool) : PyVal → Except Err Stored
  | .none => .ok (.quats 1)
  | .rot n finite =>
    if !finite then .error .badUserInput
    else if initFormat && n == 0 then .error .badUserInput
    else .ok (.quats n)
  | _ => .error .badUserInput

/-! ### setters -/

def pixelCfg : Gen.Attr.Row :=
  ⟨"Sensor", "pixel", "check_format_input_vector", [1, 2, 3, 4, 5, 6, 7, 8, 9, 10, 11, 12, 13, 14, 15, 16, 17, 18, 19], 3, 0, true, false, false, false⟩
def triangleCfg : Gen.Attr.Row :=
  ⟨"Triangle", "vertices", "check_format_input_vector", [2], 3, 3, true, false, false, false⟩
def tetrahedronCfg : Gen.Attr.Row :=
  ⟨"Tetrahedron", "vertices", "check_format_input_vector", [2], 3, 4, true, false, false, false⟩
def positionCfg : Gen.Attr.Row :=
  ⟨"BaseGeo", "position", "check_format_input_vector", [1, 2], 3, 0, false, false, false, true⟩

/-- the validation in `Sensor.pixel`'s setter: the vector check, then `pixel is not None and pixel.size == 0` -/
def checkPixel (v : PyVal) : Except Err Stored :=
  match checkVector pixelCfg v with
  | .error e => .error e
  | .ok (.array a) => if a.size == 0 then .error .badUserInput else .ok (.array a)
  | .ok s => .ok s

/-- the validation in `Sensor.handedness`'s setter: `isinstance(val, str) and val in {"right", "left"}` -/
def checkHandedness (v : PyVal) : Except Err Stored :=
  match v with
  | .str s => if s == "right" || s == "left" then .ok (.text s) else .error .badUserInput
  | _ => .error .badUserInput

/-- a setter of the form `self._attr = check(value)` (or: local result, extra test, then assignment):
the exception leaves the method before the assignment, so a rejected value leaves the attribute as it was -/
def setAttrWith (check : PyVal → Except Err Stored) (old : Stored) (v : PyVal) : Stored × Option Err :=
  match check v with
  | .ok s => (s, Option.none)
  | .error e => (old, some e)

/-- setter semantics for a vector attribute of the generated table -/
def setAttr (cfg : Gen.Attr.Row) (old : Stored) (v : PyVal) : Stored × Option Err :=
  setAttrWith (checkVector cfg) old v

/-- the two validated attributes of a Sensor -/
structure SensorState where
  pixel : Stored
  handedness : Stored
  deriving Repr, DecidableEq

def SensorState.setPixel (st : SensorState) (v : PyVal) : SensorState × Option Err :=
  match checkPixel v with
  | .ok s => ({ st with pixel := s }, Option.none)
  | .error e => (st, some e)

def SensorState.setHandedness (st : SensorState) (v : PyVal) : SensorState × Option Err :=
  match checkHandedness v with
  | .ok s => ({ st with handedness := s }, Option.none)
  | .error e => (st, some e)

/-- position path and length of the orientation path of a BaseGeo object -/
structure GeoState where
  position : Stored
  oriLen : Nat
  deriving Repr, DecidableEq

/-- `BaseGeo.position` setter: validate, store, then pad/slice the orientation path to the new length
(children are the subject of C10) -/
def GeoState.setPosition (st : GeoState) (v : PyVal) : GeoState × Option Err :=
  match checkVector positionCfg v with
  | .ok s =>
    (⟨s, match s with
         | .array a => a.shape.headD 0
         | _ => st.oriLen⟩, Option.none)
  | .error e => (st, some e)

end MagpyVerif.Valid
