/-
Model/Validators.lean — input validation at assignment (C17): a grammar of Python values and the
generic vector validator `check_format_input_vector` / `check_array_shape` (as fixed), configured
per attribute by the generated table Gen/Attr.lean.
`np.array(inp, dtype=float)` is modelled as: nested sequences must be rectangular and every leaf
a number (strings and None leaves are not float-compatible in this grammar).
-/
import MagpyVerif.Gen.Attr

namespace MagpyVerif.Valid

inductive PyVal where
  | none
  | num (v : Int)
  | str
  | seq (xs : List PyVal)
  deriving Repr

inductive Err where
  | badUserInput
  deriving Repr, DecidableEq

mutual
/-- shape of `np.array(v, dtype=float)` when the conversion succeeds -/
def shapeOf : PyVal → Option (List Nat)
  | .none => Option.none
  | .str => Option.none
  | .num _ => some []
  | .seq xs =>
    match shapesOf xs with
    | Option.none => Option.none
    | some [] => some [0]
    | some (s :: ss) => if ss.all (· == s) then some ((ss.length + 1) :: s) else Option.none
def shapesOf : List PyVal → Option (List (List Nat))
  | [] => some []
  | x :: xs =>
    match shapeOf x, shapesOf xs with
    | some s, some ss => some (s :: ss)
    | _, _ => Option.none
end

mutual
/-- all numeric leaves -/
def leaves : PyVal → List Int
  | .none => []
  | .str => []
  | .num v => [v]
  | .seq xs => leavesL xs
def leavesL : List PyVal → List Int
  | [] => []
  | x :: xs => leaves x ++ leavesL xs
end

/-- what an accepted assignment stores (shape and entries of the float copy), `none` = None -/
abbrev Stored := Option (List Nat × List Int)

/-- `check_format_input_vector` configured by a row of the generated table -/
def checkVector (cfg : Gen.Attr.Row) (v : PyVal) : Except Err Stored :=
  match v with
  | .none => if cfg.allowNone then .ok Option.none else .error .badUserInput
  | .num _ => .error .badUserInput          -- is_array_like
  | .str => .error .badUserInput
  | .seq xs =>
    match shapeOf (.seq xs) with
    | Option.none => .error .badUserInput    -- make_float_array
    | some sh =>
      let okDim := cfg.dims.contains sh.length
      let okLast := cfg.shapeM1 == -1 || (sh.getLast?.map (fun (k : Nat) => (k : Int))) == some cfg.shapeM1
      let okLen := cfg.length == 0 || sh.head? == some cfg.length
      if !(okDim && okLast && okLen) then .error .badUserInput
      else
        let ls := leaves (.seq xs)
        if cfg.reshape && ls.isEmpty then .error .badUserInput
        else if cfg.forbidNegative0 && ls.any (· ≤ 0) then .error .badUserInput
        else .ok (some (if cfg.reshape then [ls.length / 3, 3] else sh, ls))

/-- setter semantics: validate, then store; a rejected value leaves the attribute as it was -/
def setAttr (cfg : Gen.Attr.Row) (old : Stored) (v : PyVal) : Stored × Option Err :=
  match checkVector cfg v with
  | .ok s => (s, Option.none)
  | .error e => (old, some e)

end MagpyVerif.Valid
