/-
Model/Validators.lean — input validation at assignment (C17).

A grammar of Python values (`PyVal`) and, branch by branch, the validators of
magpylib/_src/input_checks.py:
  is_array_like, make_float_array, check_array_shape            (building blocks)
  check_format_input_scalar, check_format_input_vector, check_format_input_vector2,
  check_format_input_vertices, check_format_input_cylinder_segment
and the setters that compose them with extra conditions:
  Sensor.pixel, Sensor.handedness (class_Sensor.py), Triangle.vertices, Tetrahedron.vertices,
  Polyline.vertices, CylinderSegment.dimension, BaseGeo.position (validation part).
The control-flow skeleton of each of these functions is regenerated from the source on every run
(Gen/Attr.lean: `skeleton`, `segConds`, `inner`, `table`) and pinned by `decide` theorems in Props/C17.lean.

ASSUMPTION (external function, validated only by the `valid` correspondence stream):
`np.array(x, dtype=float)` succeeds exactly on rectangular nestings of float-convertible leaves and on
numeric ndarrays; it returns the shape of the nesting and the leaves in row-major order.  Float-convertible
leaves are: int/float/numpy real scalars (`num`), Python bool and numpy.bool_ (1.0 / 0.0), `None` (nan) and
strings that are plain integer literals (optional sign, digits); complex numbers, other strings and other
objects are not.  Outside the grammar: non-integer floats, inf, strings such as "1e3"/" 2 "/"nan" that
Python's float() parses, bytes, integers beyond the float range, nestings deeper than numpy's 64 axes,
objects with `__float__`/`__array__`.
-/
import MagpyVerif.Gen.Attr

namespace MagpyVerif.Valid

/-- float64 values that occur: an integer-valued finite number, or nan -/
inductive FVal where
  | fin (v : Int)
  | nan
  deriving Repr, DecidableEq

namespace FVal
/-- IEEE comparison `a < b`: false as soon as one side is nan -/
def lt : FVal → FVal → Bool
  | fin a, fin b => decide (a < b)
  | _, _ => false
/-- IEEE comparison `a <= b` -/
def le : FVal → FVal → Bool
  | fin a, fin b => decide (a ≤ b)
  | _, _ => false
def sub : FVal → FVal → FVal
  | fin a, fin b => fin (a - b)
  | _, _ => nan
def isNan : FVal → Bool
  | nan => true
  | _ => false
end FVal

/-- the value grammar -/
inductive PyVal where
  | none
  /-- Python `bool` -/
  | bool (b : Bool)
  /-- `int`, `float`, `numpy.int64`, `numpy.float64` carrying an integer value -/
  | num (v : Int)
  /-- `numpy.bool_` -/
  | npbool (b : Bool)
  /-- Python `complex` -/
  | cplx
  | str (s : String)
  /-- any other object (dict, `object()`) -/
  | obj
  /-- list or tuple -/
  | seq (xs : List PyVal)
  /-- ndarray of an integer or float dtype: shape and row-major data -/
  | arr (shape : List Nat) (data : List Int)
  deriving Repr

inductive Err where
  /-- `MagpylibBadUserInput` -/
  | badUserInput
  /-- any other exception type -/
  | foreign (exc : String)
  deriving Repr, DecidableEq

/-- value of a nonempty list of decimal digits -/
def digitsVal (cs : List Char) : Option Nat :=
  if cs.isEmpty then Option.none
  else cs.foldl (fun acc c => acc.bind fun n => if c.isDigit then some (n * 10 + (c.toNat - '0'.toNat)) else Option.none) (some 0)

/-- `float(s)` for the strings of the grammar: optional sign followed by digits -/
def strFloat (s : String) : Option Int :=
  match s.toList with
  | '-' :: r => (digitsVal r).map fun n => -(n : Int)
  | '+' :: r => (digitsVal r).map fun n => (n : Int)
  | r => (digitsVal r).map fun n => (n : Int)

/-- the float numpy stores for a leaf of a nested sequence (`none`: not float-convertible) -/
def entryVal : PyVal → Option FVal
  | .none => some .nan
  | .bool b => some (.fin (if b then 1 else 0))
  | .num v => some (.fin v)
  | .npbool b => some (.fin (if b then 1 else 0))
  | .str s => (strFloat s).map .fin
  | _ => Option.none

mutual
/-- shape of `np.array(v, dtype=float)` when the conversion succeeds -/
def shapeOf : PyVal → Option (List Nat)
  | .seq xs =>
    match shapesOf xs with
    | Option.none => Option.none
    | some [] => some [0]
    | some (s :: ss) => if ss.all (· == s) then some ((ss.length + 1) :: s) else Option.none
  | .arr sh _ => some sh
  | .none => some []
  | .bool _ => some []
  | .num _ => some []
  | .npbool _ => some []
  | .str s => if (strFloat s).isSome then some [] else Option.none
  | .cplx => Option.none
  | .obj => Option.none
def shapesOf : List PyVal → Option (List (List Nat))
  | [] => some []
  | x :: xs =>
    match shapeOf x, shapesOf xs with
    | some s, some ss => some (s :: ss)
    | _, _ => Option.none
end

/-- number of elements of an array of the given shape -/
def prod : List Nat → Nat
  | [] => 1
  | n :: s => n * prod s

mutual
/-- the entries of `np.array(v, dtype=float)` in row-major order (an ndarray has exactly `prod shape`
entries: the data list is read by index, which for a well-formed array is the list itself) -/
def flat : PyVal → List FVal
  | .seq xs => flatL xs
  | .arr sh d => (List.range (prod sh)).map fun i => .fin (d.getD i 0)
  | .none => [.nan]
  | .bool b => [.fin (if b then 1 else 0)]
  | .num v => [.fin v]
  | .npbool b => [.fin (if b then 1 else 0)]
  | .str s => match strFloat s with
    | some v => [.fin v]
    | Option.none => []
  | .cplx => []
  | .obj => []
def flatL : List PyVal → List FVal
  | [] => []
  | x :: xs => flat x ++ flatL xs
end

/-- a float ndarray -/
structure NDArr where
  shape : List Nat
  data : List FVal
  deriving Repr, DecidableEq

/-- `inp.size` -/
def NDArr.size (a : NDArr) : Nat := prod a.shape

/-- what an accepted assignment stores -/
inductive Stored where
  | none
  | scalar (x : FVal)
  | array (a : NDArr)
  | text (s : String)
  deriving Repr, DecidableEq

/-! ### building blocks -/

/-- `isinstance(inp, (list, tuple, np.ndarray))` -/
def isArrayLike : PyVal → Bool
  | .seq _ => true
  | .arr _ _ => true
  | _ => false

/-- `is_array_like(inp, msg)` -/
def isArrayLikeCheck (v : PyVal) : Except Err Unit :=
  if !isArrayLike v then .error .badUserInput else .ok ()

/-- `make_float_array(inp, msg)`: every exception of `np.array(inp, dtype=float)` becomes the library's error -/
def makeFloatArray (v : PyVal) : Except Err NDArr :=
  match shapeOf v with
  | Option.none => .error .badUserInput
  | some sh => .ok ⟨sh, flat v⟩

/-- `check_array_shape(inp, dims, shape_m1, length, msg)`; `shapeM1 = -1` stands for "any", `length = 0` for None.
`inp.shape[-1]` and `len(inp)` of a 0-d array raise IndexError / TypeError. -/
def checkArrayShape (a : NDArr) (dims : List Nat) (shapeM1 : Int) (length : Nat) : Except Err Unit :=
  if dims.contains a.shape.length then
    let lenStep : Except Err Unit :=
      if length == 0 then .ok ()
      else match a.shape.head? with
        | Option.none => .error (.foreign "TypeError")
        | some n => if n == length then .ok () else .error .badUserInput
    if shapeM1 == -1 then lenStep
    else match a.shape.getLast? with
      | Option.none => .error (.foreign "IndexError")
      | some l => if (l : Int) == shapeM1 then lenStep else .error .badUserInput
  else .error .badUserInput

/-- `isinstance(inp, numbers.Number)` -/
def isNumber : PyVal → Bool
  | .bool _ => true
  | .num _ => true
  | .cplx => true
  | _ => false

/-- `float(inp)` for an instance of numbers.Number -/
def pyFloat : PyVal → Except Err FVal
  | .bool b => .ok (.fin (if b then 1 else 0))
  | .num v => .ok (.fin v)
  | _ => .error (.foreign "TypeError")

/-! ### validators -/

/-- `check_format_input_scalar(inp, sig_name, sig_type, allow_None, forbid_negative)` -/
def checkScalar (allowNone forbidNegative : Bool) (v : PyVal) : Except Err Stored :=
  match allowNone, v with
  | true, .none => .ok .none
  | _, _ =>
    if !isNumber v then .error .badUserInput
    else match pyFloat v with
      | .error _ => .error .badUserInput   -- `try: inp = float(inp) / except (TypeError, OverflowError): raise MagpylibBadUserInput`
      | .ok x =>
        if forbidNegative && x.lt (.fin 0) then .error .badUserInput
        else .ok (.scalar x)

/-- `check_format_input_vector` configured by a row of the generated table (`reshape` = `(-1, 3)`) -/
def checkVector (cfg : Gen.Attr.Row) (v : PyVal) : Except Err Stored :=
  match cfg.allowNone, v with
  | true, .none => .ok .none
  | _, _ =>
    match isArrayLikeCheck v with
    | .error e => .error e
    | .ok () =>
    match makeFloatArray v with
    | .error e => .error e
    | .ok a =>
    match checkArrayShape a cfg.dims cfg.shapeM1 cfg.length with
    | .error e => .error e
    | .ok () =>
      if cfg.reshape then
        if a.size == 0 then .error .badUserInput
        else if a.size % 3 != 0 then .error (.foreign "ValueError")   -- np.reshape(inp, (-1, 3))
        else .ok (.array ⟨[a.size / 3, 3], a.data⟩)
      else if cfg.forbidNegative0 && a.data.any (fun x => x.le (.fin 0)) then .error .badUserInput
      else .ok (.array a)

/-- the loop `for d1, d2 in zip(inp.shape, shape): if d2 is not None: if d1 != d2: raise ValueError` -/
def zipShapeCheck : List Nat → List (Option Nat) → Except Err Unit
  | d1 :: ds, d2 :: ss =>
    match d2 with
    | some k => if d1 != k then .error (.foreign "ValueError") else zipShapeCheck ds ss
    | Option.none => zipShapeCheck ds ss
  | _, _ => .ok ()

/-- `check_format_input_vector2(inp, shape, param_name)` -/
def checkVector2 (shape : List (Option Nat)) (v : PyVal) : Except Err Stored :=
  match isArrayLikeCheck v with
  | .error e => .error e
  | .ok () =>
  match makeFloatArray v with
  | .error e => .error e
  | .ok a =>
  match zipShapeCheck a.shape shape with
  | .error e => .error e
  | .ok () => .ok (.array a)

/-- the call of check_format_input_vector inside check_format_input_vertices -/
def verticesCfg : Gen.Attr.Row :=
  ⟨"input_checks", "check_format_input_vertices", "check_format_input_vector", [2], 3, 0, true, false, false, false⟩

/-- `check_format_input_vertices(inp)` -/
def checkVertices (v : PyVal) : Except Err Stored :=
  match checkVector verticesCfg v with
  | .error e => .error e
  | .ok (.array a) =>
    match a.shape.head? with
    | Option.none => .error (.foreign "IndexError")          -- inp.shape[0]
    | some n => if n < 2 then .error .badUserInput else .ok (.array a)
  | .ok s => .ok s

/-- the call of check_format_input_vector inside check_format_input_cylinder_segment -/
def segmentCfg : Gen.Attr.Row :=
  ⟨"input_checks", "check_format_input_cylinder_segment", "check_format_input_vector", [1], 5, 0, true, false, false, false⟩

/-- `check_format_input_cylinder_segment(inp)` -/
def checkCylSeg (v : PyVal) : Except Err Stored :=
  match checkVector segmentCfg v with
  | .error e => .error e
  | .ok (.array a) =>
    match a.data with
    | [r1, r2, h, phi1, phi2] =>
      let case2 := r2.lt r1                               -- r1 > r2
      let case3 := phi2.lt phi1                           -- phi1 > phi2
      let case4 := (FVal.fin 360).lt (phi2.sub phi1)      -- (phi2 - phi1) > 360
      let case5 := r1.lt (.fin 0) || r2.le (.fin 0) || h.le (.fin 0)
      if case2 || case3 || case4 || case5 then .error .badUserInput else .ok (.array a)
    | _ => .error (.foreign "ValueError")                 -- tuple unpacking
  | .ok s => .ok s

/-! ### setters -/

def pixelCfg : Gen.Attr.Row :=
  ⟨"Sensor", "pixel", "check_format_input_vector", [1, 2, 3, 4, 5, 6, 7, 8, 9, 10, 11, 12, 13, 14, 15, 16, 17, 18, 19], 3, 0, true, false, false, false⟩
def triangleCfg : Gen.Attr.Row :=
  ⟨"Triangle", "vertices", "check_format_input_vector", [2], 3, 3, true, false, false, false⟩
def tetrahedronCfg : Gen.Attr.Row :=
  ⟨"Tetrahedron", "vertices", "check_format_input_vector", [2], 3, 4, true, false, false, false⟩
def positionCfg : Gen.Attr.Row :=
  ⟨"BaseGeo", "position", "check_format_input_vector", [1, 2], 3, 0, false, false, false, true⟩

/-- the validation in `Sensor.pixel`'s setter: the vector check, then `pixel is not None and pixel.size == 0` -/
def checkPixel (v : PyVal) : Except Err Stored :=
  match checkVector pixelCfg v with
  | .error e => .error e
  | .ok (.array a) => if a.size == 0 then .error .badUserInput else .ok (.array a)
  | .ok s => .ok s

/-- the validation in `Sensor.handedness`'s setter: `isinstance(val, str) and val in {"right", "left"}` -/
def checkHandedness (v : PyVal) : Except Err Stored :=
  match v with
  | .str s => if s == "right" || s == "left" then .ok (.text s) else .error .badUserInput
  | _ => .error .badUserInput

/-- a setter of the form `self._attr = check(value)` (or: local result, extra test, then assignment):
the exception leaves the method before the assignment, so a rejected value leaves the attribute as it was -/
def setAttrWith (check : PyVal → Except Err Stored) (old : Stored) (v : PyVal) : Stored × Option Err :=
  match check v with
  | .ok s => (s, Option.none)
  | .error e => (old, some e)

/-- setter semantics for a vector attribute of the generated table -/
def setAttr (cfg : Gen.Attr.Row) (old : Stored) (v : PyVal) : Stored × Option Err :=
  setAttrWith (checkVector cfg) old v

/-- the two validated attributes of a Sensor -/
structure SensorState where
  pixel : Stored
  handedness : Stored
  deriving Repr, DecidableEq

def SensorState.setPixel (st : SensorState) (v : PyVal) : SensorState × Option Err :=
  match checkPixel v with
  | .ok s => ({ st with pixel := s }, Option.none)
  | .error e => (st, some e)

def SensorState.setHandedness (st : SensorState) (v : PyVal) : SensorState × Option Err :=
  match checkHandedness v with
  | .ok s => ({ st with handedness := s }, Option.none)
  | .error e => (st, some e)

/-- position path and length of the orientation path of a BaseGeo object -/
structure GeoState where
  position : Stored
  oriLen : Nat
  deriving Repr, DecidableEq

/-- `BaseGeo.position` setter: validate, store, then pad/slice the orientation path to the new length
(children are the subject of C10) -/
def GeoState.setPosition (st : GeoState) (v : PyVal) : GeoState × Option Err :=
  match checkVector positionCfg v with
  | .ok s =>
    (⟨s, match s with
         | .array a => a.shape.headD 0
         | _ => st.oriLen⟩, Option.none)
  | .error e => (st, some e)

end MagpyVerif.Valid
