/-
Model/Kernels.lean — ports of the closed-form kernels and BHJM wrappers that are plain
algebra (Dipole, Sphere, straight current segment) and of the mask dispatch of the magnet
wrappers with the closed-form core as a parameter (Cuboid, Cylinder, CylinderSegment,
Tetrahedron, TriangularMesh).  One definition, several carriers: `Float` in the driver
(IEEE double, what numpy computes with), `ℝ` in the theorems.
-/
import MagpyVerif.Model.Basic

namespace MagpyVerif.Kern

/-- scalar operations the kernels use -/
class Num (α : Type) extends Add α, Sub α, Mul α, Div α, Neg α where
  ofNat : Nat → α
  sqrt : α → α
  abs : α → α
  pi : α
  mu0 : α
  lt : α → α → Bool
  eq0 : α → Bool

variable {α : Type} [Num α]
open Num

def n (k : Nat) : α := Num.ofNat k
def norm (v : V3 α) : α := sqrt (v.x * v.x + v.y * v.y + v.z * v.z)
def vs (c : α) (v : V3 α) : V3 α := ⟨c * v.x, c * v.y, c * v.z⟩
def vd (v : V3 α) (c : α) : V3 α := ⟨v.x / c, v.y / c, v.z / c⟩
def zero3 : V3 α := ⟨n 0, n 0, n 0⟩

inductive Field where
  | B | H | J | M
  deriving DecidableEq, Repr

/-- `dipole_Hfield` off the dipole position (`r ≠ 0`): (3 (m·x) x / r⁵ − m / r³) / 4 / π -/
def dipoleH (m x : V3 α) : V3 α :=
  let r := norm x
  let r3 := r * r * r
  let r5 := r3 * r * r
  vd (vd (vd (vs (n 3 * V3.dot m x) x) r5 - vd m r3) (n 4)) pi

/-- `BHJM_dipole` for `r ≠ 0` -/
def bhjmDipole (f : Field) (m x : V3 α) : V3 α :=
  match f with
  | .M | .J => zero3
  | .H => dipoleH m x
  | .B => vs mu0 (dipoleH m x)

/-- `BHJM_magnet_sphere` -/
def bhjmSphere (f : Field) (diameter : α) (pol x : V3 α) : V3 α :=
  let r := norm x
  let rs := abs diameter / n 2
  let out := lt rs r
  match f with
  | .J => if out then zero3 else pol
  | .M => vd (if out then zero3 else pol) mu0
  | .B | .H =>
    let inside := vs (n 2 / n 3) pol
    let r5 := r * r * r * r * r
    let outside := vs (rs * rs * rs / n 3) (vd (vs (n 3 * V3.dot pol x) x - vs (r * r) pol) r5)
    let b := if out then outside else inside
    match f with
    | .B => b
    | _ => vd (if out then b else b - pol) mu0

/-- dimensionless part of `current_polyline_Hfield` (after division by the segment length):
returns (deltaSin, distance from the carrier line, field direction) -/
def segmentCore (p1 p2 po : V3 α) : α × α × V3 α :=
  let t := V3.dot (po - p1) (p1 - p2)
  let p4 := p1 + vs t (p1 - p2)
  let no4 := norm (po - p4)
  let cros := V3.cross (p2 - p1) (po - p4)
  let eB := vd cros (norm cros)
  let no1 := norm (po - p1)
  let no2 := norm (po - p2)
  let n41 := norm (p4 - p1)
  let n42 := norm (p4 - p2)
  let s1 := n41 / no1
  let s2 := n42 / no2
  let mask2 := lt (n 1) n41 && lt n42 n41
  let mask3 := lt (n 1) n42 && lt n41 n42
  let dS := if mask2 then abs (s1 - s2) else if mask3 then abs (s2 - s1) else abs (s1 + s2)
  (dS, no4, eB)

/-- `current_polyline_Hfield` for one segment p1→p2 (p1 ≠ p2), observer off the carrier line -/
def segmentH (cur : α) (p1 p2 po : V3 α) : V3 α :=
  let n12 := norm (p1 - p2)
  let c := segmentCore (vd p1 n12) (vd p2 n12) (vd po n12)
  vs (c.1 / c.2.1 / n12 * cur / (n 4 * pi)) c.2.2

/-! ### mask dispatch of the magnet wrappers; `core` is the closed-form core function's value -/

/-- `BHJM_magnet_cuboid`: masks as computed by the code -/
structure CuboidMasks where
  inside : Bool
  general : Bool   -- pol ≠ 0 ∧ dim ≠ 0 ∧ not on an edge

def cuboidMasks (dim pol x : V3 α) : CuboidMasks :=
  let rtol : α := n 1 / (n 1000000000000000)
  let a := abs dim.x / n 2
  let b := abs dim.y / n 2
  let c := abs dim.z / n 2
  let xd := abs x.x - a
  let yd := abs x.y - b
  let zd := abs x.z - c
  let sx := lt (abs xd) (rtol * a)
  let sy := lt (abs yd) (rtol * b)
  let sz := lt (abs zd) (rtol * c)
  let ix := lt xd (rtol * a)
  let iy := lt yd (rtol * b)
  let iz := lt zd (rtol * c)
  let polNotNull := !(eq0 pol.x && eq0 pol.y && eq0 pol.z)
  let dimNotNull := !(eq0 (a * b * c))
  let edge := (sy && sz && ix) || (sx && sz && iy) || (sx && sy && iz)
  { inside := ix && iy && iz, general := polNotNull && dimNotNull && !edge }

/-- wrapper whose core returns **B** (Cuboid; Tetrahedron and TriangularMesh via triangle B):
`general = false` ⇒ B = 0 (special cases) -/
def wrapB (f : Field) (inside general : Bool) (pol coreB : V3 α) : V3 α :=
  match f with
  | .J => if inside then pol else zero3
  | .M => vd (if inside then pol else zero3) mu0
  | .B => if general then coreB else zero3
  | .H => vd ((if general then coreB else zero3) - (if inside then pol else zero3)) mu0

/-- wrapper whose core returns the **surface-charge field** μ₀H (Tetrahedron, TriangularMesh:
sum of triangle fields), inside term added for B -/
def wrapH (f : Field) (inside : Bool) (pol coreMu0H : V3 α) : V3 α :=
  match f with
  | .J => if inside then pol else zero3
  | .M => vd (if inside then pol else zero3) mu0
  | .H => vd coreMu0H mu0
  | .B => coreMu0H + (if inside then pol else zero3)

/-- `BHJM_magnet_cylinder` (as fixed): `onEdge` rows return B = 0 and H = −J/μ₀;
`coreAxB` is the axial core (a B-field) times pol_z, `coreTvH` the diametral core (μ₀H) times pol_xy -/
def wrapCylinder (f : Field) (inside onEdge : Bool) (pol coreAxB coreTvH : V3 α) : V3 α :=
  let polTv : V3 α := ⟨pol.x, pol.y, n 0⟩
  let polAx : V3 α := ⟨n 0, n 0, pol.z⟩
  match f with
  | .J => if inside then pol else zero3
  | .M => vd (if inside then pol else zero3) mu0
  | .B => if onEdge then zero3 else coreAxB + coreTvH + (if inside then polTv else zero3)
  | .H => if onEdge then vd (zero3 - (if inside then pol else zero3)) mu0
          else vd (coreAxB + coreTvH - (if inside then polAx else zero3)) mu0

/-- `BHJM_cylinder_segment` (as fixed): the core returns H; surface rows return 0 for all fields -/
def wrapSegment (f : Field) (inside notOnSurf : Bool) (pol coreH : V3 α) : V3 α :=
  let j := if inside && notOnSurf then pol else zero3
  match f with
  | .J => j
  | .M => vd j mu0
  | .H => if notOnSurf then coreH else zero3
  | .B => if notOnSurf then vs mu0 coreH + (if inside then pol else zero3) else zero3

end MagpyVerif.Kern
