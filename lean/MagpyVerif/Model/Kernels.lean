/-
Model/Kernels.lean — ports of the closed-form kernels and BHJM wrappers that are plain
algebra (Dipole, Sphere, straight current segment) and of the mask dispatch of the magnet
wrappers with the closed-form core as a parameter (Cuboid, Cylinder, CylinderSegment,
Tetrahedron, TriangularMesh).  One definition, several carriers: `Float` in the driver
(IEEE double, what numpy computes with), `ℝ` in the theorems.
-/
import MagpyVerif.Model.Basic

namespace MagpyVerif.Kern

/-- scalar operations the kernels use -/
class Num (α : Type) extends Add α, Sub α, Mul α, Div α, Neg α where
  ofNat : Nat → α
  sqrt : α → α
  abs : α → α
  pi : α
  mu0 : α
  lt : α → α → Bool
  /-- `a <= b` (false when either is NaN, like numpy's comparison) -/
  le : α → α → Bool
  eq0 : α → Bool
  log : α → α
  /-- `atan2 y x` -/
  atan2 : α → α → α
  sin : α → α
  cos : α → α

variable {α : Type} [Num α]
open Num

def n (k : Nat) : α := Num.ofNat k
def norm (v : V3 α) : α := sqrt (v.x * v.x + v.y * v.y + v.z * v.z)
def vs (c : α) (v : V3 α) : V3 α := ⟨c * v.x, c * v.y, c * v.z⟩
def vd (v : V3 α) (c : α) : V3 α := ⟨v.x / c, v.y / c, v.z / c⟩
def zero3 : V3 α := ⟨n 0, n 0, n 0⟩

inductive Field where
  | B | H | J | M
  deriving DecidableEq, Repr

/-- `dipole_Hfield` off the dipole position (`r ≠ 0`): (3 (m·x) x / r⁵ − m / r³) / 4 / π -/
def dipoleH (m x : V3 α) : V3 α :=
  let r := norm x
  let r3 := r * r * r
  let r5 := r3 * r * r
  vd (vd (vd (vs (n 3 * V3.dot m x) x) r5 - vd m r3) (n 4)) pi

/-- `BHJM_dipole` for `r ≠ 0` -/
def bhjmDipole (f : Field) (m x : V3 α) : V3 α :=
  match f with
  | .M | .J => zero3
  | .H => dipoleH m x
  | .B => vs mu0 (dipoleH m x)

/-- `BHJM_magnet_sphere` -/
def bhjmSphere (f : Field) (diameter : α) (pol x : V3 α) : V3 α :=
  let r := norm x
  let rs := abs diameter / n 2
  let out := lt rs r
  match f with
  | .J => if out then zero3 else pol
  | .M => vd (if out then zero3 else pol) mu0
  | .B | .H =>
    let inside := vs (n 2 / n 3) pol
    let r5 := r * r * r * r * r
    let outside := vs (rs * rs * rs / n 3) (vd (vs (n 3 * V3.dot pol x) x - vs (r * r) pol) r5)
    let b := if out then outside else inside
    match f with
    | .B => b
    | _ => vd (if out then b else b - pol) mu0

/-- dimensionless part of `current_polyline_Hfield` (after division by the segment length):
returns (deltaSin, distance from the carrier line, field direction) -/
def segmentCore (p1 p2 po : V3 α) : α × α × V3 α :=
  let t := V3.dot (po - p1) (p1 - p2)
  let p4 := p1 + vs t (p1 - p2)
  let no4 := norm (po - p4)
  let cros := V3.cross (p2 - p1) (po - p4)
  let eB := vd cros (norm cros)
  let no1 := norm (po - p1)
  let no2 := norm (po - p2)
  let n41 := norm (p4 - p1)
  let n42 := norm (p4 - p2)
  let s1 := n41 / no1
  let s2 := n42 / no2
  let mask2 := lt (n 1) n41 && lt n42 n41
  let mask3 := lt (n 1) n42 && lt n41 n42
  let dS := if mask2 then abs (s1 - s2) else if mask3 then abs (s2 - s1) else abs (s1 + s2)
  (dS, no4, eB)

/-- `current_polyline_Hfield` for one segment p1→p2 (p1 ≠ p2), observer off the carrier line -/
def segmentH (cur : α) (p1 p2 po : V3 α) : V3 α :=
  let n12 := norm (p1 - p2)
  let c := segmentCore (vd p1 n12) (vd p2 n12) (vd po n12)
  vs (c.1 / c.2.1 / n12 * cur / (n 4 * pi)) c.2.2

/-- the six closed-form factors of `magnet_cuboid_Bfield` as functions of the corner offsets
`x∓a, y∓b, z∓c` (observer already reflected into the bottom-Q4 octant) -/
structure CuboidFF (α : Type) where
  ff1x : α
  ff1y : α
  ff1z : α
  ff2x : α
  ff2y : α
  ff2z : α

def cuboidFF (xma xpa ymb ypb zmc zpc : α) : CuboidFF α :=
  let xma2 := xma * xma
  let xpa2 := xpa * xpa
  let ymb2 := ymb * ymb
  let ypb2 := ypb * ypb
  let zmc2 := zmc * zmc
  let zpc2 := zpc * zpc
  let mmm := sqrt (xma2 + ymb2 + zmc2)
  let pmp := sqrt (xpa2 + ymb2 + zpc2)
  let pmm := sqrt (xpa2 + ymb2 + zmc2)
  let mmp := sqrt (xma2 + ymb2 + zpc2)
  let mpm := sqrt (xma2 + ypb2 + zmc2)
  let ppp := sqrt (xpa2 + ypb2 + zpc2)
  let ppm := sqrt (xpa2 + ypb2 + zmc2)
  let mpp := sqrt (xma2 + ypb2 + zpc2)
  { ff2x := log ((xma + mmm) * (xpa + ppm) * (xpa + pmp) * (xma + mpp)) -
      log ((xpa + pmm) * (xma + mpm) * (xma + mmp) * (xpa + ppp)),
    ff2y := log ((-ymb + mmm) * (-ypb + ppm) * (-ymb + pmp) * (-ypb + mpp)) -
      log ((-ymb + pmm) * (-ypb + mpm) * (ymb - mmp) * (ypb - ppp)),
    ff2z := log ((-zmc + mmm) * (-zmc + ppm) * (-zpc + pmp) * (-zpc + mpp)) -
      log ((-zmc + pmm) * (zmc - mpm) * (-zpc + mmp) * (zpc - ppp)),
    ff1x := atan2 (ymb * zmc) (xma * mmm) - atan2 (ymb * zmc) (xpa * pmm) - atan2 (ypb * zmc) (xma * mpm) +
      atan2 (ypb * zmc) (xpa * ppm) - atan2 (ymb * zpc) (xma * mmp) + atan2 (ymb * zpc) (xpa * pmp) +
      atan2 (ypb * zpc) (xma * mpp) - atan2 (ypb * zpc) (xpa * ppp),
    ff1y := atan2 (xma * zmc) (ymb * mmm) - atan2 (xpa * zmc) (ymb * pmm) - atan2 (xma * zmc) (ypb * mpm) +
      atan2 (xpa * zmc) (ypb * ppm) - atan2 (xma * zpc) (ymb * mmp) + atan2 (xpa * zpc) (ymb * pmp) +
      atan2 (xma * zpc) (ypb * mpp) - atan2 (xpa * zpc) (ypb * ppp),
    ff1z := atan2 (xma * ymb) (zmc * mmm) - atan2 (xpa * ymb) (zmc * pmm) - atan2 (xma * ypb) (zmc * mpm) +
      atan2 (xpa * ypb) (zmc * ppm) - atan2 (xma * ymb) (zpc * mmp) + atan2 (xpa * ymb) (zpc * pmp) +
      atan2 (xma * ypb) (zpc * mpp) - atan2 (xpa * ypb) (zpc * ppp) }

/-- reflection into the bottom-Q4 octant: which coordinates are flipped -/
structure CuboidFlip where
  fx : Bool
  fy : Bool
  fz : Bool
  deriving DecidableEq, Repr

def cuboidFlip (obs : V3 α) : CuboidFlip :=
  { fx := lt obs.x (n 0), fy := lt (n 0) obs.y, fz := lt (n 0) obs.z }

/-- reflected observer -/
def cuboidReflect (obs : V3 α) : V3 α :=
  let fl := cuboidFlip obs
  ⟨if fl.fx then obs.x * (-(n 1)) else obs.x, if fl.fy then obs.y * (-(n 1)) else obs.y,
   if fl.fz then obs.z * (-(n 1)) else obs.z⟩

/-- assemble B from the six factors, the polarization and the sign flips (`qsigns`) -/
def cuboidAssemble (fl : CuboidFlip) (pol : V3 α) (F : CuboidFF α) : V3 α :=
  let sg (fx fy fz : α) : α :=
    (if fl.fx then fx else n 1) * (if fl.fy then fy else n 1) * (if fl.fz then fz else n 1)
  let p1 : α := n 1
  let m1 : α := -(n 1)
  let bx := pol.x * F.ff1x * sg p1 p1 p1 + pol.y * F.ff2z * sg m1 m1 p1 + pol.z * F.ff2y * sg m1 p1 m1
  let by' := pol.x * F.ff2z * sg m1 m1 p1 + pol.y * F.ff1y * sg p1 p1 p1 + (-pol.z) * F.ff2x * sg p1 m1 m1
  let bz := pol.x * F.ff2y * sg m1 p1 m1 + (-pol.y) * F.ff2x * sg p1 m1 m1 + pol.z * F.ff1z * sg p1 p1 p1
  vd (⟨bx, by', bz⟩ : V3 α) (n 4 * pi)

/-- `magnet_cuboid_Bfield` for one row (general case: observer off the edges) -/
def cuboidB (dim pol obs : V3 α) : V3 α :=
  let r := cuboidReflect obs
  let a := dim.x / n 2
  let b := dim.y / n 2
  let c := dim.z / n 2
  cuboidAssemble (cuboidFlip obs) pol (cuboidFF (r.x - a) (r.x + a) (r.y - b) (r.y + b) (r.z - c) (r.z + c))


/-! ### Triangle (charged sheet), Tetrahedron -/

/-- `solid_angle(R, r)` of field_BH_triangle.py for one triangle -/
def solidAngle (R0 R1 R2 : V3 α) (r0 r1 r2 : α) : α :=
  let N := V3.dot R2 (V3.cross R1 R0)
  let D := r0 * r1 * r2 + V3.dot R2 R1 * r0 + V3.dot R2 R0 * r1 + V3.dot R1 R0 * r2
  let res := n 2 * atan2 N D
  if lt (n 62831853 / n 10000000) (abs res) then n 0 else res

/-- the edge integral `I` of `triangle_Bfield` for one edge (`R` = start vertex − observer,
`Rn` = end vertex − observer, `L` = edge vector).  `a`, `c` are the components of `R`, `Rn` along
the edge, `rho2` the squared distance of the observer from the line through the edge (cross product
with the nearer end).  `I = 1/l·log((rn + c)/(r + a))`, where every sum that cancels is replaced
through `(r + a)(r - a) = rho2 = (rn + c)(rn - c)`: behind the start (`a ≥ 0`) `(rn + c)/(r + a)`,
beyond the end (`c < 0`) `(r - a)/(rn - c)`, alongside the edge `(rn + c)(r - a)/rho2`; for observers
that cannot be told from the edge in double precision (`rho2 ≤ 1e-30·l2` alongside, `a < 0 < c`) the
finite on-edge value `log(-a/c)/l` is returned -/
def triEdgeI (R Rn L : V3 α) : α :=
  let r := sqrt (V3.dot R R)
  let rn := sqrt (V3.dot Rn Rn)
  let l2 := V3.dot L L
  let l := sqrt l2
  let a := V3.dot R L / l
  let c := V3.dot Rn L / l
  let X := V3.cross (if lt rn r then Rn else R) L
  let rho2 := V3.dot X X / l2
  let quot := if le (n 0) a then (rn + c) / (r + a)
    else if lt c (n 0) then (r - a) / (rn - c) else (rn + c) * (r - a) / rho2
  log (if le rho2 (n 1 / n 1000000000000000000000000000000 * l2) && lt a (n 0) && lt (n 0) c then -a / c else quot) / l

/-- `triangle_Bfield` for one row: field of a homogeneously charged triangle with surface charge
`σ = n·J` (Guptasarma 1999); a triangle without area (`|n| == 0`, collinear vertices) gives 0 -/
def triangleB (v0 v1 v2 pol obs : V3 α) : V3 α :=
  let nn := V3.cross (v1 - v0) (v2 - v0)
  if eq0 (norm nn) then zero3 else
  let nv := vd nn (norm nn)
  let sigma := V3.dot nv pol
  let R0 := v0 - obs
  let R1 := v1 - obs
  let R2 := v2 - obs
  let L0 := v1 - v0
  let L1 := v2 - v1
  let L2 := v0 - v2
  let PQR := vs (triEdgeI R0 R1 L0) L0 + vs (triEdgeI R1 R2 L1) L1 + vs (triEdgeI R2 R0 L2) L2
  let sa := solidAngle R0 R1 R2 (norm R0) (norm R1) (norm R2)
  vd (vd (vs sigma (vs sa nv - V3.cross nv PQR)) pi) (n 4)

/-- `BHJM_triangle` -/
def bhjmTriangle (f : Field) (v0 v1 v2 pol obs : V3 α) : V3 α :=
  match f with
  | .M | .J => zero3
  | .B => triangleB v0 v1 v2 pol obs
  | .H => vd (triangleB v0 v1 v2 pol obs) mu0

/-- determinant of the matrix with columns `a b c` -/
def det3 (a b c : V3 α) : α :=
  a.x * (b.y * c.z - b.z * c.y) - b.x * (a.y * c.z - a.z * c.y) + c.x * (a.y * b.z - a.z * b.y)

/-- `check_chirality`: exchange the last two vertices of a left-handed tetrahedron -/
def tetraChirality (v0 v1 v2 v3 : V3 α) : V3 α × V3 α × V3 α × V3 α :=
  if lt (det3 (v1 - v0) (v2 - v0) (v3 - v0)) (n 0) then (v0, v1, v3, v2) else (v0, v1, v2, v3)

/-- `point_inside` (in_out="auto"): barycentric coordinates of `x` with respect to the edge
vectors from `v0` (Cramer's rule for the inverse matrix), all in [0,1] with sum ≤ 1 -/
def tetraInside (v0 v1 v2 v3 x : V3 α) : Bool :=
  let a := v1 - v0
  let b := v2 - v0
  let c := v3 - v0
  let d := x - v0
  let dt := det3 a b c
  let l1 := det3 d b c / dt
  let l2 := det3 a d c / dt
  let l3 := det3 a b d / dt
  -- `regular = np.linalg.det(mat) != 0`: a flat tetrahedron has no interior
  !(eq0 dt) && le (n 0) l1 && le (n 0) l2 && le (n 0) l3 && le l1 (n 1) && le l2 (n 1) && le l3 (n 1) &&
    le (l1 + l2 + l3) (n 1)

/-- `BHJM_magnet_tetrahedron` for one row: four outward-oriented triangle sheets (after the
chirality fix) plus the polarization inside -/
def bhjmTetra (f : Field) (v0 v1 v2 v3 pol x : V3 α) : V3 α :=
  match f with
  | .J => if tetraInside v0 v1 v2 v3 x then pol else zero3
  | .M => vd (if tetraInside v0 v1 v2 v3 x then pol else zero3) mu0
  | .H =>
    let w := tetraChirality v0 v1 v2 v3
    bhjmTriangle .H w.1 w.2.2.1 w.2.1 pol x + bhjmTriangle .H w.1 w.2.1 w.2.2.2 pol x +
      bhjmTriangle .H w.2.1 w.2.2.1 w.2.2.2 pol x + bhjmTriangle .H w.1 w.2.2.2 w.2.2.1 pol x
  | .B =>
    let w := tetraChirality v0 v1 v2 v3
    let s := bhjmTriangle .B w.1 w.2.2.1 w.2.1 pol x + bhjmTriangle .B w.1 w.2.1 w.2.2.2 pol x +
      bhjmTriangle .B w.2.1 w.2.2.1 w.2.2.2 pol x + bhjmTriangle .B w.1 w.2.2.2 w.2.2.1 pol x
    if tetraInside w.1 w.2.1 w.2.2.1 w.2.2.2 x then s + pol else s

/-! ### Circle (current loop) and the Bulirsch `cel` iteration -/

/-- `cel_iter0`: iterative part of Bulirsch's cel algorithm.  The Python `while` loop
`while fabs(g - qc) >= qc*1e-8` becomes a recursion on `fuel`; `none` = fuel exhausted before the
exit test was met (the driver uses 200; termination in exact arithmetic is Props/C15). -/
def celIter : Nat → α → α → α → α → α → α → α → Option α
  | 0, _, _, _, _, _, _, _ => none
  | fuel + 1, qc, p, g, cc, ss, em, kk =>
    if le (qc * (n 1 / n 100000000)) (abs (g - qc)) then
      let qc' := n 2 * sqrt kk
      let kk' := qc' * em
      let cc' := cc + ss / p
      let g' := kk' / p
      let ss' := n 2 * (ss + cc * g')
      let p' := p + g'
      celIter fuel qc' p' em cc' ss' (em + qc') kk'
    else
      some (pi / n 2 * (ss + cc * em) / (em * (em + p)))

/-- `current_circle_Hfield` for one row in cylinder coordinates (Hr, Hz); `none` if a cel
iteration did not finish within `fuel` steps -/
def circleHcyl (fuel : Nat) (r0 r z i0 : α) : Option (α × α) :=
  let r := r / r0
  let z := z / r0
  let z2 := z * z
  let x0 := z2 + (r + n 1) * (r + n 1)
  let k2 := n 4 * r / x0
  let q2 := (z2 + (r - n 1) * (r - n 1)) / x0
  let k := sqrt k2
  let q := sqrt q2
  let p := n 1 + q
  let pf := k / sqrt r / q2 / n 20 / r0 * (n 1 / n 1000000) * i0
  let cc := k2 * k2
  let ss := n 2 * cc * q / p
  match celIter fuel q p (n 1) cc ss p q with
  | none => none
  | some c1 =>
    let hr := pf * z / r * c1
    let cc2 := k2 * (k2 - (q2 + n 1) / r)
    let ss2 := n 2 * k2 * q * (k2 / p - p / r)
    match celIter fuel q p (n 1) cc2 ss2 p q with
    | none => none
    | some c2 =>
      let hz := -pf * c2
      -- `* 795774.7154594767` (= 1e7/4/π as spelled in the source)
      let f : α := n 7957747154594767 / n 10000000000
      some (hr * f, hz * f)

/-- `BHJM_circle` for one row: special cases (zero diameter, on the wire, on the axis), else the
general formula rotated back from cylinder coordinates -/
def bhjmCircle (fuel : Nat) (f : Field) (diameter cur : α) (x : V3 α) : Option (V3 α) :=
  match f with
  | .M | .J => some zero3
  | _ =>
    let r := sqrt (x.x * x.x + x.y * x.y)
    let phi := atan2 x.y x.x
    let z := x.z
    let r0 := abs (diameter / n 2)
    let tol : α := n 1 / n 1000000000000000
    let mask1 := eq0 r0
    let mask2 := lt (abs (r - r0)) (tol * r0) && lt (abs z) (tol * r0)
    let mask3 := eq0 r
    let h : Option (V3 α) :=
      if mask3 then
        if mask1 then some zero3
        else
          let w := z * z + r0 * r0
          some ⟨n 0, n 0, r0 * r0 / (w * sqrt w) * cur * (n 1 / n 2)⟩
      else if mask1 || mask2 then some zero3
      else
        match circleHcyl fuel r0 r z cur with
        | none => none
        | some (hr, hz) => some ⟨hr * cos phi, hr * sin phi, hz⟩
    match f with
    | .B => h.map (fun v => vs mu0 v)
    | _ => h

/-! ### mask dispatch of the magnet wrappers; `core` is the closed-form core function's value -/

/-- `BHJM_magnet_cuboid`: masks as computed by the code -/
structure CuboidMasks where
  inside : Bool
  general : Bool   -- pol ≠ 0 ∧ dim ≠ 0 ∧ not on an edge

def cuboidMasks (dim pol x : V3 α) : CuboidMasks :=
  let rtol : α := n 1 / (n 1000000000000000)
  let a := abs dim.x / n 2
  let b := abs dim.y / n 2
  let c := abs dim.z / n 2
  let xd := abs x.x - a
  let yd := abs x.y - b
  let zd := abs x.z - c
  let sx := lt (abs xd) (rtol * a)
  let sy := lt (abs yd) (rtol * b)
  let sz := lt (abs zd) (rtol * c)
  let ix := lt xd (rtol * a)
  let iy := lt yd (rtol * b)
  let iz := lt zd (rtol * c)
  let polNotNull := !(eq0 pol.x && eq0 pol.y && eq0 pol.z)
  let dimNotNull := !(eq0 (a * b * c))
  let edge := (sy && sz && ix) || (sx && sz && iy) || (sx && sy && iz)
  { inside := ix && iy && iz, general := polNotNull && dimNotNull && !edge }

/-- wrapper whose core returns **B** (Cuboid; Tetrahedron and TriangularMesh via triangle B):
`general = false` ⇒ B = 0 (special cases) -/
def wrapB (f : Field) (inside general : Bool) (pol coreB : V3 α) : V3 α :=
  match f with
  | .J => if inside then pol else zero3
  | .M => vd (if inside then pol else zero3) mu0
  | .B => if general then coreB else zero3
  | .H => vd ((if general then coreB else zero3) - (if inside then pol else zero3)) mu0

/-- `BHJM_magnet_cuboid` for one row: masks, core in the general case, field selection -/
def bhjmCuboid (f : Field) (dim pol x : V3 α) : V3 α :=
  let m := cuboidMasks dim pol x
  wrapB f m.inside m.general pol (cuboidB dim pol x)

/-- wrapper whose core returns the **surface-charge field** μ₀H (Tetrahedron, TriangularMesh:
sum of triangle fields), inside term added for B -/
def wrapH (f : Field) (inside : Bool) (pol coreMu0H : V3 α) : V3 α :=
  match f with
  | .J => if inside then pol else zero3
  | .M => vd (if inside then pol else zero3) mu0
  | .H => vd coreMu0H mu0
  | .B => coreMu0H + (if inside then pol else zero3)

/-- `BHJM_magnet_cylinder` (as fixed): `onEdge` rows return B = 0 and H = −J/μ₀;
`coreAxB` is the axial core (a B-field) times pol_z, `coreTvH` the diametral core (μ₀H) times pol_xy -/
def wrapCylinder (f : Field) (inside onEdge : Bool) (pol coreAxB coreTvH : V3 α) : V3 α :=
  let polTv : V3 α := ⟨pol.x, pol.y, n 0⟩
  let polAx : V3 α := ⟨n 0, n 0, pol.z⟩
  match f with
  | .J => if inside then pol else zero3
  | .M => vd (if inside then pol else zero3) mu0
  | .B => if onEdge then zero3 else coreAxB + coreTvH + (if inside then polTv else zero3)
  | .H => if onEdge then vd (zero3 - (if inside then pol else zero3)) mu0
          else vd (coreAxB + coreTvH - (if inside then polAx else zero3)) mu0

/-- `BHJM_cylinder_segment` (as fixed): the core returns H; surface rows return 0 for all fields -/
def wrapSegment (f : Field) (inside notOnSurf : Bool) (pol coreH : V3 α) : V3 α :=
  let j := if inside && notOnSurf then pol else zero3
  match f with
  | .J => j
  | .M => vd j mu0
  | .H => if notOnSurf then coreH else zero3
  | .B => if notOnSurf then vs mu0 coreH + (if inside then pol else zero3) else zero3

/-! ### `cel0` (special_cel.py): the scalar complete elliptic integral used by the Cylinder kernels -/

/-- the `while abs(g - k) > g * errtol` loop of `cel0` (errtol = 0.000001) with its return
expression; loop variables in the order `k kk cc ss pp g em`.  `none` = fuel exhausted before the
exit test was met. -/
def cel0Loop : Nat → α → α → α → α → α → α → α → Option α
  | 0, _, _, _, _, _, _, _ => none
  | fuel + 1, k, kk, cc, ss, pp, g, em =>
    if lt (g * (n 1 / n 1000000)) (abs (g - k)) then
      let k' := n 2 * sqrt kk
      let kk' := k' * em
      let cc' := cc + ss / pp
      let g' := kk' / pp
      let ss' := n 2 * (ss + cc * g')
      let pp' := g' + pp
      cel0Loop fuel k' kk' cc' ss' pp' em (k' + em)
    else
      some (pi / n 2 * (ss + cc * em) / (em * (em + pp)))

/-- the two-case prologue of `cel0` (`if p > 0: … else: …`): the values of `(pp, cc, ss)` on
entry to the common part -/
def cel0Pre (kc p c s : α) : α × α × α :=
  if lt (n 0) p then
    let pp := sqrt p
    (pp, c, s / pp)
  else
    let f := kc * kc
    let q := n 1 - f
    let g := n 1 - p
    let f := f - p
    let q := q * (s - c * p)
    let pp := sqrt (f / g)
    let cc := (c - s) / g
    (pp, cc, (-q) / (g * g * pp) + cc * pp)

/-- `cel0(kc, p, c, s)`: `none` stands for `raise RuntimeError("FAIL")` (exactly when `kc == 0`)
and for fuel exhausted in the loop (excluded for `kc ≠ 0` in exact arithmetic by Props/C15) -/
def cel0 (fuel : Nat) (kc p c s : α) : Option α :=
  if eq0 kc then none
  else
    let k := abs kc
    let em : α := n 1
    let pre := cel0Pre kc p c s
    let pp := pre.1
    let cc := pre.2.1
    let ss := pre.2.2
    let f := cc
    let cc := cc + ss / pp
    let g := k / pp
    let ss := n 2 * (ss + f * g)
    let pp := g + pp
    cel0Loop fuel k k cc ss pp em (k + em)

/-! ### `cel_iterv`, `cel_iter` (special_cel.py): the loop as the Circle kernel runs it on a batch -/

/-- the loop variables of `cel_iter0` / one entry of the arrays of `cel_iterv` -/
structure CelRow (α : Type) where
  qc : α
  p : α
  g : α
  cc : α
  ss : α
  em : α
  kk : α

/-- the `while` condition `fabs(g - qc) >= qc * 1e-8` for one entry -/
def celRowCont (s : CelRow α) : Bool := le (s.qc * (n 1 / n 100000000)) (abs (s.g - s.qc))

/-- one pass through the loop body for one entry -/
def celRowStep (s : CelRow α) : CelRow α :=
  let qc' := n 2 * sqrt s.kk
  let kk' := qc' * s.em
  let cc' := s.cc + s.ss / s.p
  let g' := kk' / s.p
  let ss' := n 2 * (s.ss + s.cc * g')
  let p' := s.p + g'
  { qc := qc', p := p', g := s.em, cc := cc', ss := ss', em := s.em + qc', kk := kk' }

/-- the return expression for one entry -/
def celRowOut (s : CelRow α) : α := pi / n 2 * (s.ss + s.cc * s.em) / (s.em * (s.em + s.p))

/-- `cel_iter0` on a row -/
def celIterRow (fuel : Nat) (s : CelRow α) : Option α := celIter fuel s.qc s.p s.g s.cc s.ss s.em s.kk

/-- `cel_iterv`: `while np.any(np.fabs(g - qc) >= qc * 1e-8)` steps **every** entry (also those
that already meet the exit test) until all meet it -/
def celIterV : Nat → List (CelRow α) → Option (List α)
  | 0, _ => none
  | fuel + 1, rows =>
    if rows.any celRowCont then celIterV fuel (rows.map celRowStep)
    else some (rows.map celRowOut)

/-- `cel_iter` as written: for fewer than 15 entries the scalar loop is run on each entry first
(its `result` array is then not used), and in every case the value of `cel_iterv` is returned -/
def celIterDispatch (fuel : Nat) (rows : List (CelRow α)) : Option (List α) :=
  if rows.length < 15 then
    if rows.all (fun s => (celIterRow fuel s).isSome) then celIterV fuel rows else none
  else celIterV fuel rows

end MagpyVerif.Kern
