/-
Model/DisplayIdx.lean — more of the display pipeline (C19), mirroring the code:

* the triangulation INDEX arrays `i, j, k` of `make_Ellipsoid(vert=N)` and `make_CylinderSegment(dimension, vert)`
  (magpylib/_src/display/traces_base.py)                                   — `ellipsoidIJK`, `segIJK`, `segFull`
* `merge_mesh3d(*traces)`, `merge_scatter3d(*traces)` (traces_utility.py)  — `mergeMesh3d`, `mergeScatter3d`
* the path trace `make_path(obj)` (traces_generic.py) after `rescale_traces` — `pathTrace`
* the unit chosen by `units_length="auto"`: `unit_prefix(rmax, as_tuple=True)[2]` (magpylib/_src/utility.py) and the
  factor `get_unit_factor(f"{prefix}m", target_unit="m")`; `rmax` from `get_scene_ranges` — `autoDigits`, `autoUnit`,
  `sceneRange`, `rmaxOf`
* `make_Arrow` = `merge_mesh3d(make_Pyramid(...), make_Prism(...))`         — `arrowIJK`, `arrowVerts` (DisplayTrig carrier)

Mathlib-free and computable (linked into the driver, family `disp`, rows `ellidx`, `segidx`, `mmesh`, `mscat`,
`path`, `autounit`, `ranges`, `arrow`).
-/
import MagpyVerif.Model.Display
import MagpyVerif.Model.DisplayTrig
import MagpyVerif.Gen.Units
namespace MagpyVerif.Display
open MagpyVerif.Mesh (Face)

/-! ## `make_Ellipsoid`: index arrays -/

/-- `len(x)` after the slice `x.flatten()[N - 1 : -N + 1]` of the `N × N` grid (`DisplayTrig.poleSlice`) -/
def ellipsoidVertCount (N : Nat) : Nat := if N ≤ 1 then 0 else N * N - (N - 1) - (N - 1)

/-- the `i, j, k` arrays of `make_Ellipsoid(vert=N)`:
```
N2 = len(x) - 1
i1 = [0] * N;  j1 = np.array([N, *range(1, N)]);  k1 = np.array([*range(1, N), N])
i2 = np.concatenate([k1 + i * N for i in range(N - 3)]);  j2 = …[j1 + i * N …];        k2 = …[j1 + (i + 1) * N …]
i3 = np.concatenate([k1 + i * N for i in range(N - 3)]);  j3 = …[j1 + (i + 1) * N …];  k3 = …[k1 + (i + 1) * N …]
i4 = [N2] * N;  j4 = k1 + N2 - N - 1;  k4 = j1 + N2 - N - 1
i = np.concatenate([i1, i2, i3, i4]) …
```
`np.concatenate([])` raises ValueError exactly when `range(N - 3)` is empty, i.e. `N ≤ 3`.  Vertex rows: south pole 0,
latitude ring `r` (r = 0 … N-3) at rows `1 + r N … N + r N`, north pole `N2 = (N-1)²`. -/
def ellipsoidIJK (N : Nat) : Except Err (List Nat × List Nat × List Nat) :=
  if N ≤ 3 then .error .valueError else
  let N2 := ellipsoidVertCount N - 1
  let i1 := List.replicate N 0
  let j1 := N :: List.range' 1 (N - 1)
  let k1 := List.range' 1 (N - 1) ++ [N]
  let cat (f : Nat → List Nat) : List Nat := (List.range (N - 3)).flatMap f
  let i2 := cat fun i => k1.map (· + i * N)
  let j2 := cat fun i => j1.map (· + i * N)
  let k2 := cat fun i => j1.map (· + (i + 1) * N)
  let i3 := cat fun i => k1.map (· + i * N)
  let j3 := cat fun i => j1.map (· + (i + 1) * N)
  let k3 := cat fun i => k1.map (· + (i + 1) * N)
  let i4 := List.replicate N N2
  let j4 := k1.map (· + N2 - N - 1)
  let k4 := j1.map (· + N2 - N - 1)
  .ok (i1 ++ i2 ++ i3 ++ i4, j1 ++ j2 ++ j3 ++ j4, k1 ++ k2 ++ k3 ++ k4)

def ellipsoidTriangles (N : Nat) : Except Err (List Face) :=
  match ellipsoidIJK N with
  | .error e => .error e
  | .ok (i, j, k) => .ok (zip3 i j k)

/-! ## `make_CylinderSegment`: index arrays -/

/-- the `i, j, k` arrays of `make_CylinderSegment` for arc count `N` (= `DisplayTrig.segN vert phi1 phi2`, so `N ≥ 5`
in the real function) and `full = (phi2 - phi1 == 360)`:
```
i1 = np.arange(N - 1); j1 = i1 + N; k1 = i1 + 1
i2 = k1; j2 = j1; k2 = j1 + 1
i3 = i1; j3 = k1; k3 = j1 + N
i4 = k3 + 1; j4 = k3; k4 = k1
i5 = np.array([0, N]); j5 = np.array([2 * N, 0]); k5 = np.array([3 * N, 3 * N])
i = [i1, i2, i1 + 2 * N, i2 + 2 * N, i3, i4, i3 + N, i4 + N]
j = [j1, j2, k1 + 2 * N, k2 + 2 * N, j3, j4, k3 + N, k4 + N]
k = [k1, k2, j1 + 2 * N, j2 + 2 * N, k3, k4, j3 + N, j4 + N]
if phi2 - phi1 != 360:
    i.extend([i5, i5 + N - 1]); j.extend([j5, k5 + N - 1]); k.extend([k5, j5 + N - 1])
i, j, k = (np.hstack(l) for l in (i, j, k))
```
(since repo fix 64dd71f the START cap is `(i5, j5, k5)`, the END cap `(i5, k5, j5) + N - 1`: the two caps face opposite
directions; before the fix both used `(i5, k5, j5)` and the start cap was wound against the rest of the surface, see
`old_start_cap_was_inverted` in Props/C19.)
Vertex rows: inner top arc `0 … N-1`, outer top `N … 2N-1`, inner bottom `2N … 3N-1`, outer bottom `3N … 4N-1`.
Nothing is special-cased for `r1 = 0` (the inner arcs are then `N` coincident points on the axis; the indices are
the same). -/
def segIJK (N : Nat) (full : Bool) : List Nat × List Nat × List Nat :=
  let i1 := List.range (N - 1)
  let j1 := i1.map (· + N)
  let k1 := i1.map (· + 1)
  let i2 := k1
  let j2 := j1
  let k2 := j1.map (· + 1)
  let i3 := i1
  let j3 := k1
  let k3 := j1.map (· + N)
  let i4 := k3.map (· + 1)
  let j4 := k3
  let k4 := k1
  let i5 := [0, N]
  let j5 := [2 * N, 0]
  let k5 := [3 * N, 3 * N]
  let sh (l : List Nat) (d : Nat) : List Nat := l.map (· + d)
  let i := [i1, i2, sh i1 (2 * N), sh i2 (2 * N), i3, i4, sh i3 N, sh i4 N]
  let j := [j1, j2, sh k1 (2 * N), sh k2 (2 * N), j3, j4, sh k3 N, sh k4 N]
  let k := [k1, k2, sh j1 (2 * N), sh j2 (2 * N), k3, k4, sh j3 N, sh j4 N]
  if full then (i.flatten, j.flatten, k.flatten)
  else ((i ++ [i5, i5.map (· + N - 1)]).flatten, (j ++ [j5, k5.map (· + N - 1)]).flatten,
        (k ++ [k5, j5.map (· + N - 1)]).flatten)

def segTriangles (N : Nat) (full : Bool) : List Face :=
  let r := segIJK N full
  zip3 r.1 r.2.1 r.2.2

section segfull
open MagpyVerif.Kern Num
variable {α : Type} [Num α]
/-- `phi2 - phi1 == 360` (the negation of the test `if phi2 - phi1 != 360` guarding the two end caps); in IEEE
arithmetic `a == 360` iff `a - 360 == 0`, false for NaN on both sides -/
def segFull (phi1 phi2 : α) : Bool := eq0 (phi2 - phi1 - n 360)

/-- index arrays of `make_CylinderSegment(dimension=(r1, r2, h, phi1, phi2), vert)` -/
def segIJKOf [DisplayTrig.FloorNat α] (vert : Nat) (phi1 phi2 : α) : List Nat × List Nat × List Nat :=
  segIJK (DisplayTrig.segN vert phi1 phi2) (segFull phi1 phi2)
end segfull

/-! ## `merge_mesh3d`, `merge_scatter3d` (traces_utility.py) -/

inductive MErr
  | indexError   -- `traces[0]` on an empty argument tuple
  | keyError     -- `b[k]` for a key the first trace has and a later one has not
  deriving DecidableEq, Repr

/-- a plotly `mesh3d` dict as far as `merge_mesh3d` looks at it: the mandatory fields `x, y, z, i, j, k`, the
optional `intensity` / `facecolor` arrays (`none` = key absent or value `None` in the first trace, key absent in a
later one) and every other entry (`rest`, opaque tags) -/
structure MeshTrace (α : Type) where
  x : List α
  y : List α
  z : List α
  i : List Nat
  j : List Nat
  k : List Nat
  intensity : Option (List α) := none
  facecolor : Option (List Int) := none
  rest : List (String × Int) := []
  deriving Repr, BEq, DecidableEq

/-- `np.array(l).cumsum()` -/
def cumsum : List Nat → List Nat
  | [] => []
  | a :: as => a :: (cumsum as).map (· + a)

/-- `L = np.array([0] + [len(b["x"]) for b in traces[:-1]]).cumsum()` -/
def meshOffsets {α : Type} (ts : List (MeshTrace α)) : List Nat :=
  cumsum (0 :: ts.dropLast.map (·.x.length))

/-- `np.hstack([b[k] for b in traces])` for an optional field present in the first trace -/
def hstackOpt {β γ : Type} (ts : List β) (f : β → Option (List γ)) : Except MErr (List γ) :=
  ts.foldr (fun b acc => match f b, acc with
    | some l, .ok r => .ok (l ++ r)
    | none, _ => .error .keyError
    | _, .error e => .error e) (.ok [])

/-- `merge_mesh3d(*traces)`:
```
L = np.array([0] + [len(b["x"]) for b in traces[:-1]]).cumsum()
for k in "ijk":  merged_trace[k] = np.hstack([b[k] + l for b, l in zip(traces, L)])      # (k in traces[0])
for k in "xyz":  merged_trace[k] = np.concatenate([b[k] for b in traces])
for k in ("intensity", "facecolor"):
    if k in traces[0] and traces[0][k] is not None:  merged_trace[k] = np.hstack([b[k] for b in traces])
every other key: from traces[0]
``` -/
def mergeMesh3d {α : Type} (ts : List (MeshTrace α)) : Except MErr (MeshTrace α) :=
  match ts with
  | [] => .error .indexError
  | t0 :: _ =>
    let L := meshOffsets ts
    let idx (f : MeshTrace α → List Nat) : List Nat := (List.zipWith (fun b l => (f b).map (· + l)) ts L).flatten
    let cat (f : MeshTrace α → List α) : List α := (ts.map f).flatten
    let inten : Except MErr (Option (List α)) :=
      match t0.intensity with
      | none => .ok none
      | some _ => (hstackOpt ts (·.intensity)).map some
    let fcol : Except MErr (Option (List Int)) :=
      match t0.facecolor with
      | none => .ok none
      | some _ => (hstackOpt ts (·.facecolor)).map some
    match inten, fcol with
    | .error e, _ => .error e
    | _, .error e => .error e
    | .ok it, .ok fc =>
      .ok { x := cat (·.x), y := cat (·.y), z := cat (·.z), i := idx (·.i), j := idx (·.j), k := idx (·.k),
            intensity := it, facecolor := fc, rest := t0.rest }

/-- a plotly `scatter3d` dict as far as `merge_scatter3d` looks at it; a coordinate entry is a number or `None`
(`none`: the gap marker that interrupts a line) -/
structure ScatterTrace (α : Type) where
  x : List (Option α)
  y : List (Option α)
  z : List (Option α)
  /-- `trace.get("mode")`: `none` for a missing key or the value `None` -/
  mode : Option String
  rest : List (String × Int) := []
  deriving Repr, BEq, DecidableEq

/-- Python's `"line" in mode` -/
def containsLine (s : String) : Bool := (s.splitOn "line").length > 1

/-- `merge_scatter3d(*traces)`:
```
if len(traces) == 1: return traces[0]
mode = traces[0].get("mode"); mode = "" if mode is None else mode
if not mode: traces[0]["mode"] = "markers"          # (the first INPUT dict is modified)
no_gap = "line" not in mode
for k in "xyz":
    stack = [b[k] for b in traces] if no_gap else [pts for b in traces for pts in [[None], b[k]]]
    merged_trace[k] = np.hstack(stack)
every other key (incl. "mode"): from traces[0]
```
In line mode EVERY input line is preceded by a `None`, so the merged arrays start with a gap marker. -/
def mergeScatter3dCore {α : Type} (modeEmpty hasLine : Bool) (ts : List (ScatterTrace α)) : Except MErr (ScatterTrace α) :=
  match ts with
  | [] => .error .indexError
  | [t] => .ok t
  | t0 :: _ =>
    let mode' := if modeEmpty then some "markers" else t0.mode
    let noGap := !hasLine
    let cat (f : ScatterTrace α → List (Option α)) : List (Option α) :=
      if noGap then (ts.map f).flatten else ts.flatMap (fun b => none :: f b)
    .ok { x := cat (·.x), y := cat (·.y), z := cat (·.z), mode := mode', rest := t0.rest }

/-- `mode = traces[0].get("mode"); mode = "" if mode is None else mode`; `not mode`; `"line" in mode` -/
def mergeScatter3d {α : Type} (ts : List (ScatterTrace α)) : Except MErr (ScatterTrace α) :=
  let mode := ((ts.head?.map (·.mode)).getD none).getD ""
  mergeScatter3dCore mode.isEmpty (containsLine mode) ts

/-- the pieces of a line array between the gap markers (`None`): `k` markers give `k + 1` pieces -/
def splitNone {α : Type} : List (Option α) → List (List α)
  | [] => [[]]
  | none :: l => [] :: splitNone l
  | some a :: l =>
    match splitNone l with
    | [] => [[a]]
    | p :: ps => (a :: p) :: ps

/-! ## the path trace: `make_path` followed by `rescale_traces` -/

/-- `make_path(obj)`: `x, y, z = np.array(obj.position).T` — ALL path positions (not only the displayed frames), drawn
iff `np.array(obj.position).ndim > 1 and style.path.show`; `rescale_traces` then applies
`place_and_orient_model3d(tr, length_factor=f)`, i.e. `placeOpt none none 1 f` to every point (early return, nothing
computed, for `f == 1`). -/
def pathTrace {α : Type} [Add α] [Mul α] [OfNat α 0] [OfNat α 1] [BEq α] (positions : List (V3 α)) (f : α) : List (V3 α) :=
  if f == 1 then positions
  else positions.map (placeOpt (G := M3 α) none none (1 : α) f)

/-- is a path trace made at all: `np.array(obj.position).ndim > 1` (a path of length 1 is squeezed to shape (3,)) and
`style.path.show` -/
def pathShown (pathLen : Nat) (stylePathShow : Bool) : Bool := decide (1 < pathLen) && stylePathShow

/-! ## the unit chosen by `units_length="auto"` -/

/-- `int(log10(x))` for a positive finite float: truncation TOWARDS ZERO of the decimal logarithm -/
class TruncLog10 (α : Type) where
  truncLog10 : α → Int

section autounit
open MagpyVerif.Kern Num
variable {α : Type} [Num α] [TruncLog10 α]

/-- `digits = int(log10(abs(number))) // 3 * 3 if number != 0 else 0` (`//` floors) -/
def autoDigits (x : α) : Int := if eq0 x then 0 else TruncLog10.truncLog10 (abs x) / 3 * 3

/-- `prefix = _UNIT_PREFIX.get(digits, "")` then `get_unit_factor(f"{prefix}m", target_unit="m")`, read off the
generated table (`Gen.Units.table`: power, prefix, decimal exponent of the factor; the table has no entry for power 0,
whose unit "m" is the target unit itself: factor 1).  Returns (prefix, power of ten of the unit, decimal exponent of the
factor). -/
def prefixOfDigits (d : Int) : String × Int × Int :=
  match Gen.Units.table.find? (fun r => r.1 == d) with
  | some (p, s, e) => (s, p, e)
  | none => ("", 0, 0)

/-- `units_length == "auto"`: `rmax = np.amax(np.abs(ranges_rc[rc]))`; `units_length = f"{unit_prefix(rmax, as_tuple=True)[2]}m"`;
returns (unit string, power of ten of the unit, decimal exponent of the scale factor) -/
def autoUnit (rmax : α) : String × Int × Int :=
  let r := prefixOfDigits (autoDigits rmax)
  (r.1 ++ "m", r.2.1, r.2.2)
end autounit

/-! ## `get_scene_ranges` for one subplot of 3-d traces, and `rmax` -/

section ranges
open MagpyVerif.Kern Num
variable {α : Type} [Num α]

def fmin (a b : α) : α := if lt b a then b else a
def fmax (a b : α) : α := if lt a b then b else a

/-- `(np.nanmin(v), np.nanmax(v))` of a non-empty NaN-free list -/
def minMax : List α → Option (α × α)
  | [] => none
  | a :: l => some (l.foldl fmin a, l.foldl fmax a)

/-- `get_scene_ranges(*traces, zoom=zo)` for one subplot, given all points that count (for a mesh3d trace the vertices
that belong to a face, for the others all points; NaN-free, at least one):
```
r = [[min x, max x], [min y, max y], [min z, max z]];  m = max(size) / 2;  m = 1 if m == 0 else m
center = r.mean(axis=1);  ranges = [center - m * (1 + zo), center + m * (1 + zo)]
```
and `[[-1, 1]] * 3` without any point.  Returned as (lo, hi) per axis. -/
def sceneRange (pts : List (V3 α)) (zo : α) : List (α × α) :=
  match minMax (pts.map (·.x)), minMax (pts.map (·.y)), minMax (pts.map (·.z)) with
  | some rx, some ry, some rz =>
    let r := [rx, ry, rz]
    let sizes := r.map (fun p => p.2 - p.1)
    let m0 := (sizes.foldl fmax (rx.2 - rx.1)) / n 2
    let m := if eq0 m0 then n 1 else m0
    r.map (fun p => let c := (p.1 + p.2) / n 2; (c - m * (n 1 + zo), c + m * (n 1 + zo)))
  | _, _, _ => [(-n 1, n 1), (-n 1, n 1), (-n 1, n 1)]

/-- `rmax = np.amax(np.abs(ranges))` -/
def rmaxOf (r : List (α × α)) : α :=
  (r.flatMap (fun p => [abs p.1, abs p.2])).foldl fmax (n 0)
end ranges

/-! ## `make_Arrow` = `merge_mesh3d(cone, prism)` -/

/-- index arrays of `make_Arrow(base=N)`: the cone's `N + 1` vertices first, then the prism's `2N + 2` with index
offset `N + 1` -/
def arrowIJK (N : Nat) : Except Err (List Nat × List Nat × List Nat) := do
  let c ← pyramidIJK N
  let p ← prismIJK N
  let o := N + 1
  pure (c.1 ++ p.1.map (· + o), c.2.1 ++ p.2.1.map (· + o), c.2.2 ++ p.2.2.map (· + o))

def arrowTriangles (N : Nat) : Except Err (List Face) :=
  match arrowIJK N with
  | .error e => .error e
  | .ok (i, j, k) => .ok (zip3 i j k)

section arrowverts
open MagpyVerif.Kern Num MagpyVerif.DisplayTrig
variable {α : Type} [Num α]

/-- `make_Pyramid(..., position=(0, 0, zc))` / `make_Prism(..., position=(0, 0, zp))`: `(vertices * scale + position) * length_factor`
with `scale = length_factor = 1` -/
def shiftZ (zc : α) (l : List (V3 α)) : List (V3 α) :=
  l.map (fun v => (⟨(v.x * n 1 + n 0) * n 1, (v.y * n 1 + n 0) * n 1, (v.z * n 1 + zc) * n 1⟩ : V3 α))

/-- vertices of `make_Arrow(base=N, diameter=d, height=h, pivot)` in the local frame:
```
z = pivot table (h/2, -h/2, 0)
cone  = make_Pyramid(base=N, diameter=d, height=d, position=(0, 0, z + h / 2 - d / 2))
prism = make_Prism(base=N, diameter=d / 2, height=h - d, position=(0, 0, z + -d / 2))
``` -/
def arrowVerts (N : Nat) (d h : α) (p : Pivot) : List (V3 α) :=
  let z := zShift p h
  shiftZ (z + h / n 2 - d / n 2) (pyramidVerts N d d .middle) ++ shiftZ (z + (-d) / n 2) (prismVerts N (d / n 2) (h - d))
end arrowverts

/-! ## winding of a triangulation (what a consistently wound surface is; run by the driver on every generator, rows `wind`) -/

/-- all directed edges `i→j, j→k, k→i` of a face list, with multiplicity -/
def dirOf (fs : List Face) : List Mesh.Edge := fs.flatMap Mesh.dirEdges

/-- the directed edges that are NOT used exactly once (a consistently wound surface has none) -/
def windingDefects (fs : List Face) : List Mesh.Edge :=
  let d := dirOf fs
  d.eraseDups.filter (fun e => d.count e != 1)

/-- the directed edges whose reverse is not used (on a closed, consistently wound surface there are none; on an open one
these are the boundary edges) -/
def unmatchedEdges (fs : List Face) : List Mesh.Edge :=
  let d := dirOf fs
  d.eraseDups.filter (fun e => !d.contains (e.2, e.1))

end MagpyVerif.Display
