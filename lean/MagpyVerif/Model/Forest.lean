/-
Model/Forest.lean — the parent/children bookkeeping of Collections (C11, C18).

Objects are numbered 0..n-1.  Per object the *stored* Python attributes are modelled:
`_parent`, and for collections `_children`, `_sources`, `_sensors`, `_collections`
(the typed views are stored lists refreshed by `_update_src_and_sens`, so staleness is
expressible).  Operations follow class_Collection.py / class_BaseGeo.py as of the fixed tree:
`add` checks every argument, then re-parents one by one; `remove` looks each child up in the
current tree.  Lookup of "the collection that holds x" goes through `_parent` (the code searches
the children lists depth-first; both agree whenever parent/children are consistent, which is
the invariant proved in Props/C11 and what the `forest` correspondence stream compares).
-/
namespace MagpyVerif

inductive Kind where
  | src | sens | coll
  deriving DecidableEq, Repr

structure Forest where
  n : Nat
  kind : Nat → Kind
  parent : Nat → Option Nat
  children : Nat → List Nat
  srcs : Nat → List Nat
  sens : Nat → List Nat
  colls : Nat → List Nat

namespace Forest

def upd {α : Type} (f : Nat → α) (i : Nat) (v : α) : Nat → α := fun j => if j = i then v else f j

/-- `_update_src_and_sens` of collection `c` -/
def sync (s : Forest) (c : Nat) : Forest :=
  { s with
    srcs := upd s.srcs c ((s.children c).filter fun o => s.kind o = .src),
    sens := upd s.sens c ((s.children c).filter fun o => s.kind o = .sens),
    colls := upd s.colls c ((s.children c).filter fun o => s.kind o = .coll) }

/-- `[parent o, parent (parent o), …]` (at most `fuel` steps) -/
def ancestors (s : Forest) : Nat → Nat → List Nat
  | 0, _ => []
  | k + 1, o => match s.parent o with
    | none => []
    | some p => p :: ancestors s k p

/-- `holder.remove(x)` where holder is the collection listing `x`; `x._parent = None` -/
def detach (s : Forest) (x : Nat) : Forest :=
  match s.parent x with
  | none => s
  | some p =>
    sync { s with children := upd s.children p ((s.children p).erase x),
                  parent := upd s.parent x none } p

/-- `x._parent = c; c._children += [x]; c._update_src_and_sens()` -/
def attach (s : Forest) (x c : Nat) : Forest :=
  sync { s with children := upd s.children c (s.children c ++ [x]),
                parent := upd s.parent x (some c) } c

/-- the argument checks of `add` (all of them run before anything is modified) -/
def addOk (s : Forest) (c : Nat) (objs : List Nat) (override : Bool) : Bool :=
  s.kind c = .coll && objs.all (fun o => o < s.n) && c < s.n &&
  objs.all (fun o => !(s.kind o = .coll && (o = c || (s.ancestors s.n c).contains o))) &&
  decide objs.Nodup &&
  objs.all (fun o => (s.parent o).isNone || override)

/-- `Collection.add(*objs, override_parent)`; second component: accepted? -/
def add (s : Forest) (c : Nat) (objs : List Nat) (override : Bool) : Forest × Bool :=
  if s.addOk c objs override then
    (objs.foldl (fun s o => (s.detach o).attach o c) s, true)
  else (s, false)

/-- is `x` listed in the tree below `c` (`check_format_input_obj(self, recursive)`) -/
def below (s : Forest) (c x : Nat) (recursive : Bool) : Bool :=
  if recursive then (s.ancestors s.n x).contains c else s.parent x = some c

/-- `Collection.remove(*objs, recursive, errors)`; stops at the first child that is not found
when `errors='raise'`. -/
def remove (s : Forest) (c : Nat) (recursive raise : Bool) : List Nat → Forest × Bool
  | [] => (s, true)
  | x :: rest =>
    if s.below c x recursive then remove (s.detach x) c recursive raise rest
    else if raise then (s, false)
    else remove s c recursive raise rest

/-- `obj.parent = p` -/
def setParent (s : Forest) (o : Nat) : Option Nat → Forest × Bool
  | none => (s.detach o, true)
  | some c => s.add c [o] true

/-- `for child in xs: child._parent = p` -/
def setParents (s : Forest) (xs : List Nat) (p : Option Nat) : Forest :=
  xs.foldl (fun s x => { s with parent := upd s.parent x p }) s

/-- `_replace_children(removed, new_children)` of collection `c` (repo fix 9176cc9), statement by statement:
the children in `removed` lose their parent, `_children` becomes the list of the others, the views are refreshed;
`add(*new_children, override_parent=True)` is tried; when it raises, the OLD list is put back, the removed
children get `c` as parent again, the views are refreshed, and the exception goes on (second component `false`). -/
def replaceChildren (s : Forest) (c : Nat) (removed new : List Nat) : Forest × Bool :=
  let old := s.children c
  let s1 := s.setParents removed none
  let s2 := sync { s1 with children := upd s1.children c (old.filter fun x => !removed.contains x) } c
  let r := s2.add c new true
  if r.2 then r
  else
    let s3 : Forest := { r.1 with children := upd r.1.children c old }
    (sync (s3.setParents removed (some c)) c, false)

/-- a value assigned to `children`: a list / tuple of entries, or a bare value -/
inductive ChildrenArg where
  | list (objs : List Nat)
  | bare (x : Nat)
  deriving Repr

/-- `if not isinstance(children, (list, tuple)): children = [children]` (repo fix 045b334): a bare object is a list
of one; a bare value that is no object (`5`, `None`) reaches `add` as an entry and is refused there -/
def ChildrenArg.toList : ChildrenArg → List Nat
  | .list objs => objs
  | .bare x => [x]

/-- `coll.children = objs` (after the bare-value wrapping): `removed = list(self._children)` -/
def setChildren (s : Forest) (c : Nat) (objs : List Nat) : Forest × Bool :=
  s.replaceChildren c (s.children c) objs

/-- `format_obj_input(x, allow=k)` for k ∈ {sources, sensors}: collections are flattened -/
def flat (s : Forest) : Nat → Nat → List Nat
  | 0, _ => []
  | k + 1, o => if s.kind o = .coll then (s.children o).flatMap (flat s k) else [o]

/-- `_refuse_non_objects(collections)` (repo fix 045b334): every entry of the (possibly nested) list goes through
`check_format_input_obj([obj], typechecks=True)`, which raises for anything that is no Magpylib object; ids that are
no objects (`≥ n`) stand for such entries.  `true` = nothing is refused. -/
def onlyObjects (s : Forest) (objs : List Nat) : Bool := objs.all (fun o => o < s.n)

/-- what the typed setters do with their argument BEFORE anything is modified; `none` = it raises.
sources / sensors: `format_obj_input(objs, allow=k)` — every entry that is neither a source nor a sensor is
iterated (a Collection yields its children, anything else raises), then the unwanted type is filtered out.
collections: `_refuse_non_objects(objs)` first (since 045b334 an entry that is no Magpylib object is REFUSED; before
it was silently dropped), then `format_obj_input(objs, allow="collections")`, which iterates nothing and keeps the
Collections. -/
def formatTyped (s : Forest) (k : Kind) (objs : List Nat) : Option (List Nat) :=
  match k with
  | .coll => if s.onlyObjects objs then some (objs.filter fun o => s.kind o = .coll) else none
  | _ => if objs.all (fun o => o < s.n) then some ((objs.flatMap (s.flat (s.n + 1))).filter fun o => s.kind o = k)
         else none

/-- the stored typed view of kind `k` -/
def typedView (s : Forest) (k : Kind) (c : Nat) : List Nat :=
  match k with
  | .src => s.srcs c
  | .sens => s.sens c
  | .coll => s.colls c

/-- `coll.sources = objs` / `.sensors =` / `.collections =`: the input is formatted first (a refusal changes
nothing), `removed = [child for child in self._children if child in self._sources]` -/
def setTyped (s : Forest) (c : Nat) (k : Kind) (objs : List Nat) : Forest × Bool :=
  match s.formatTyped k objs with
  | none => (s, false)
  | some formatted =>
    s.replaceChildren c ((s.children c).filter fun x => (s.typedView k c).contains x) formatted

/-- `a + b` = `Collection(a, b)`: a fresh collection with id `n` (kept only if `add` accepts) -/
def plus (s : Forest) (a b : Nat) : Forest × Bool :=
  let s1 : Forest := { s with n := s.n + 1, kind := upd s.kind s.n .coll,
                               parent := upd s.parent s.n none, children := upd s.children s.n [],
                               srcs := upd s.srcs s.n [], sens := upd s.sens s.n [],
                               colls := upd s.colls s.n [] }
  let r := s1.add s.n [a, b] false
  if r.2 then r else (s, false)

/-- empty forest with `kinds` -/
def init (kinds : List Kind) : Forest :=
  { n := kinds.length, kind := fun i => kinds.getD i .src, parent := fun _ => none,
    children := fun _ => [], srcs := fun _ => [], sens := fun _ => [], colls := fun _ => [] }

end Forest

/-- tree-editing operations of a history -/
inductive FOp where
  | add (c : Nat) (objs : List Nat) (override : Bool)
  | remove (c : Nat) (objs : List Nat) (recursive raise : Bool)
  | setParent (o : Nat) (p : Option Nat)
  | setChildren (c : Nat) (objs : List Nat)
  | setTyped (c : Nat) (k : Kind) (objs : List Nat)
  | plus (a b : Nat)
  /-- a call rejected by the type checks before anything happens -/
  | rejected
  deriving Repr

def Forest.step (s : Forest) : FOp → Forest × Bool
  | .add c objs ov => s.add c objs ov
  | .remove c objs r e => if s.kind c = .coll then s.remove c r e objs else (s, false)
  | .setParent o p => s.setParent o p
  | .setChildren c objs => if s.kind c = .coll then s.setChildren c objs else (s, false)
  | .setTyped c k objs => if s.kind c = .coll then s.setTyped c k objs else (s, false)
  | .plus a b => s.plus a b
  | .rejected => (s, false)

end MagpyVerif
