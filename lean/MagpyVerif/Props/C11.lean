/-
Props/C11.lean — the collection tree stays a consistent forest under any history.

`Forest.Inv` (Lemmas/Forest.lean) is the property's statement on the model state:
  parent_iff  : o._parent is c  ⇔  o is listed in c._children      (so: at most one parent, and
                the parent lists the object)
  nodup       : no collection lists a child twice                  (so: exactly once)
  views       : the stored _sources/_sensors/_collections are the ordered typed filters of _children
  only_colls  : only collections have children
  inScope     : parent links stay among the existing objects
Acyclicity ("no collection contains itself directly or indirectly") is `Forest.Acyclic`
(Lemmas/ForestAcyclic.lean): parent links strictly decrease a rank.  Its preservation rests on the
soundness of `add`'s self-reference check, which walks the ancestors with fuel `n`: in a consistent,
acyclic forest of `n` objects that walk is complete (distinct ancestors, pigeonhole).
-/
import MagpyVerif.Lemmas.Forest
import MagpyVerif.Lemmas.ForestAcyclic
import MagpyVerif.Lemmas.Copy
namespace MagpyVerif.C11
open MagpyVerif Forest

/-- C11, all clauses: after any finite history of add / remove / parent= / children= / sources= /
sensors= / collections= / `+` — accepted or rejected, any flags, any argument lists — the forest is
consistent AND acyclic. -/
theorem inv_reachable (kinds : List Kind) (ops : List FOp) :
    (ops.foldl (fun s op => (s.step op).1) (Forest.init kinds)).Inv ∧
    (ops.foldl (fun s op => (s.step op).1) (Forest.init kinds)).Acyclic := by
  suffices h : ∀ s : Forest, s.Inv → s.Acyclic →
      (ops.foldl (fun s op => (s.step op).1) s).Inv ∧ (ops.foldl (fun s op => (s.step op).1) s).Acyclic from
    h _ (init_inv kinds) (init_acyclic kinds)
  induction ops with
  | nil => intro s h1 h2; exact ⟨h1, h2⟩
  | cons op ops ih => intro s h1 h2; exact ih _ (step_inv s op h1) (step_acyclic s op h1 h2)

/-- in an acyclic forest no object is its own ancestor: a collection never contains itself,
directly or through any chain of nested collections -/
theorem no_collection_contains_itself (s : Forest) (ha : s.Acyclic) (c p : Nat) (hp : s.parent c = some p) :
    ¬ Reach s p c :=
  acyclic_no_self_containment s ha c p hp

/-- the consistency clauses alone (kept for reference): after any finite history of add / remove /
parent= / children= / sources= / sensors= / collections= / `+` — accepted or rejected, with any
override_parent / recursive / errors flags and any argument lists — the forest is consistent. -/
theorem inv_reachable_partial (kinds : List Kind) (ops : List FOp) :
    (ops.foldl (fun s op => (s.step op).1) (Forest.init kinds)).Inv := by
  suffices h : ∀ s : Forest, s.Inv → (ops.foldl (fun s op => (s.step op).1) s).Inv from
    h _ (init_inv kinds)
  induction ops with
  | nil => intro s h; exact h
  | cons op ops ih => intro s h; exact ih _ (step_inv s op h)

/-- every single operation, successful or raising, preserves consistency -/
theorem inv_step (s : Forest) (op : FOp) (h : s.Inv) : (s.step op).1.Inv := step_inv s op h

/-- a rejected `add` (any argument refused: self-reference, duplicate, already owned without
override) changes nothing — no argument is re-parented before all have been checked -/
theorem add_rejected_changes_nothing (s : Forest) (c : Nat) (objs : List Nat) (ov : Bool)
    (h : (s.add c objs ov).2 = false) : (s.add c objs ov).1 = s :=
  add_rejected_unchanged s c objs ov h

/-- the typed views are exactly the ordered typed partition of `children`: every child appears
in exactly one of them -/
theorem views_are_partitions (s : Forest) (h : s.Inv) (c o : Nat) :
    (o ∈ s.children c ↔ (o ∈ s.srcs c ∨ o ∈ s.sens c ∨ o ∈ s.colls c)) ∧
    (s.srcs c).Sublist (s.children c) ∧ (s.sens c).Sublist (s.children c) ∧
    (s.colls c).Sublist (s.children c) := by
  obtain ⟨h1, h2, h3⟩ := h.views c
  rw [h1, h2, h3]
  refine ⟨?_, List.filter_sublist, List.filter_sublist, List.filter_sublist⟩
  simp only [List.mem_filter, decide_eq_true_eq]
  constructor
  · intro hm
    cases hk : s.kind o <;> simp [hm]
  · rintro (h | h | h) <;> exact h.1

/-- an object has at most one parent and is listed by it exactly once -/
theorem unique_parent_listed_once (s : Forest) (h : s.Inv) (o c : Nat) (hp : s.parent o = some c) :
    (s.children c).count o = 1 ∧ ∀ c', o ∈ s.children c' → c' = c := by
  have hm := (h.parent_iff o c).mp hp
  have h1 : (s.children c).count o ≤ 1 := List.nodup_iff_count.mp (h.nodup c) o
  have h2 : 0 < (s.children c).count o := List.count_pos_iff.mpr hm
  refine ⟨by omega, ?_⟩
  intro c' hm
  have := (h.parent_iff o c').mpr hm
  rw [hp] at this
  exact (Option.some.inj this).symm


/-! ### `copy()` as an operation of the C11 state machine, and the `*_all` views -/

/-- `obj.copy()` — of a leaf, of a collection with any nested subtree, owned or not — keeps the forest consistent
and acyclic (proved in Lemmas/Copy.lean; the C18 file states the same under `copy_preserves_inv`) -/
theorem copy_preserves_inv (s : Forest) (o : Nat) (hi : s.Inv) (ha : s.Acyclic) :
    (s.copy o).Inv ∧ (s.copy o).Acyclic :=
  ⟨copy_inv s hi ha o, copy_acyclic s hi ha o⟩

/-- C11 for histories that contain copies: after any finite history of add / remove / parent= / children= /
sources= / sensors= / collections= / `+` and `copy()` of any object (clones are ordinary objects afterwards) the
forest is consistent and acyclic -/
theorem inv_reachable_with_copy (kinds : List Kind) (ops : List COp) :
    (ops.foldl (fun s op => (s.stepC op).1) (Forest.init kinds)).Inv ∧
    (ops.foldl (fun s op => (s.stepC op).1) (Forest.init kinds)).Acyclic := by
  suffices h : ∀ s : Forest, s.Inv → s.Acyclic →
      (ops.foldl (fun s op => (s.stepC op).1) s).Inv ∧ (ops.foldl (fun s op => (s.stepC op).1) s).Acyclic from
    h _ (init_inv kinds) (init_acyclic kinds)
  induction ops with
  | nil => intro s h1 h2; exact ⟨h1, h2⟩
  | cons op ops ih =>
    intro s h1 h2
    exact ih _ (stepC_inv_acyclic s op h1 h2).1 (stepC_inv_acyclic s op h1 h2).2

/-- the walk of `check_format_input_obj(self, allow)` (model `flatAll`: wanted children are appended, child
collections are descended into right after) yields the pre-order list of the descendants filtered by the wanted
types — for every fuel, in every state in which only collections have children -/
theorem flatAll_eq_filter_subtree (s : Forest) (hoc : ∀ c, s.kind c ≠ .coll → s.children c = [])
    (want : Kind → Bool) : ∀ (k c : Nat),
    s.flatAll want k c = ((s.subtree (k + 1) c).tail).filter (fun o => want (s.kind o)) := by
  intro k
  induction k with
  | zero => intro c; simp [flatAll, subtree]
  | succ k ih =>
    intro c
    have hstep : ∀ o, (if want (s.kind o) then [o] else []) ++ (if s.kind o = .coll then s.flatAll want k o else []) =
        (s.subtree (k + 1) o).filter (fun o => want (s.kind o)) := by
      intro o
      have ht : (s.subtree (k + 1) o) = o :: (s.subtree (k + 1) o).tail := by simp [subtree]
      rw [ht, List.filter_cons]
      by_cases hk : s.kind o = .coll
      · rw [if_pos hk, ih o]
        by_cases hw : want (s.kind o) = true <;> simp [hw]
      · rw [if_neg hk]
        have : (s.subtree (k + 1) o).tail = [] := by simp [subtree, hoc o hk]
        rw [this]
        by_cases hw : want (s.kind o) = true <;> simp [hw]
    show (s.children c).flatMap _ = _
    simp only [subtree, List.tail_cons, List.filter_flatMap]
    exact List.flatMap_congr (fun o _ => hstep o) |>.trans rfl

/-- the state of the examples below -/
def demoC11 : Forest :=
  [COp.base (.add 1 [3] false), COp.base (.add 0 [2, 1] false)].foldl (fun s op => (s.stepC op).1)
    (Forest.init [.coll, .coll, .src, .sens])

/-- the four `*_all` views of a collection in ANY state reachable by add / remove / the setters / `+` / copy():
`children_all` is the pre-order list of all descendants (each exactly once, none of them the collection itself),
`sources_all` / `sensors_all` / `collections_all` are its order-preserving filters by type -/
theorem all_views_are_preorder_filters (kinds : List Kind) (ops : List COp) (c : Nat) :
    let s := ops.foldl (fun s op => (s.stepC op).1) (Forest.init kinds)
    let desc := (s.cnodes c).tail
    s.flatAll (fun _ => true) s.n c = desc ∧
    s.flatAll (fun k => k = .src) s.n c = desc.filter (fun o => s.kind o = .src) ∧
    s.flatAll (fun k => k = .sens) s.n c = desc.filter (fun o => s.kind o = .sens) ∧
    s.flatAll (fun k => k = .coll) s.n c = desc.filter (fun o => s.kind o = .coll) ∧
    (c :: desc).Nodup ∧ (∀ x, x ∈ c :: desc ↔ Reach s x c) := by
  intro s desc
  obtain ⟨hi, ha⟩ := inv_reachable_with_copy kinds ops
  have h := fun w => flatAll_eq_filter_subtree s hi.only_colls w s.n c
  have hc : s.cnodes c = c :: desc := by
    obtain ⟨rest, hr⟩ := cnodes_eq_cons s c
    show s.cnodes c = c :: (s.cnodes c).tail
    rw [hr]; rfl
  refine ⟨?_, ?_, ?_, ?_, ?_, ?_⟩
  · rw [h]; simp [desc, cnodes]
  · rw [h]; simp [desc, cnodes]
  · rw [h]; simp [desc, cnodes]
  · rw [h]; simp [desc, cnodes]
  · rw [← hc]; exact cnodes_nodup s hi ha c
  · intro x; rw [← hc]; exact mem_cnodes_iff s hi ha c x

-- non-vacuity: collection 0 = [source 2, collection 1 = [sensor 3]]: `children_all` of 0 is [2, 1, 3], its sensors_all [3]
example : (demoC11.flatAll (fun _ => true) demoC11.n 0 = [2, 1, 3]) ∧ demoC11.flatAll (fun k => k = .sens) demoC11.n 0 = [3] ∧
    demoC11.flatAll (fun k => k = .coll) demoC11.n 0 = [1] := by decide

-- non-vacuity: a reachable non-trivial state (collection 0 holding a source and collection 1 holding a sensor)
example : ((Forest.init [.coll, .coll, .src, .sens]).step (.add 1 [3] false)).1.children 1 = [3] := by decide
example : (((Forest.init [.coll, .coll, .src, .sens]).step (.add 1 [3] false)).1.step (.add 0 [2, 1] false)).1.colls 0 = [1] := by
  decide
example : ((((Forest.init [.coll, .coll, .src, .sens]).step (.add 1 [3] false)).1.step (.add 0 [2, 1] false)).1.step
    (.add 1 [0] true)).2 = false := by decide


/-- ALL-OR-NOTHING SETTERS (true since repo fix 9176cc9; before it a refused assignment left the collection emptied
and the old children parentless).  In every state reachable by any history of add / remove / parent= / the four
setters / `+` / copy(), a REJECTED assignment `c.children = objs`, `c.sources = objs`, `c.sensors = objs` or
`c.collections = objs` — an entry that is no magpylib object, the collection itself or one of its ancestors, an
entry given twice, … — leaves the WHOLE forest identical: every parent pointer, every children list, every stored
typed view, of every object.  Second clause: the assigned value may be a BARE value (no list / tuple): since repo fix
045b334 it is wrapped into a list of one, so `c.children = 5` / `= None` reach `add` and are refused like any other
foreign entry (before: a TypeError from the argument unpacking).  Third clause, typed setters: since 045b334 an entry
that is no Magpylib object is refused by ALL three of them (`c.collections = [d, 5]` used to drop the 5 silently and
succeed).  The model follows `_replace_children` statement by statement (unlink the old
children, filter `_children`, refresh the views, try `add`, on the exception put the old list back, re-parent,
refresh); that the restore reproduces the state exactly uses the consistency of the state before
(`restore_unlinked`: the removed children's parent WAS the collection, the views WERE the typed filters). -/
theorem setter_rejected_changes_nothing (kinds : List Kind) (ops : List COp) (c : Nat) :
    let s := ops.foldl (fun s op => (s.stepC op).1) (Forest.init kinds)
    (∀ objs, (s.step (.setChildren c objs)).2 = false → (s.step (.setChildren c objs)).1 = s) ∧
    (∀ a : ChildrenArg, (s.step (.setChildren c a.toList)).2 = false → (s.step (.setChildren c a.toList)).1 = s) ∧
    (∀ k objs, (s.step (.setTyped c k objs)).2 = false → (s.step (.setTyped c k objs)).1 = s) := by
  intro s
  have hi : s.Inv := (inv_reachable_with_copy kinds ops).1
  obtain ⟨h1, h2⟩ := setter_rejected_unchanged s hi c
  have hch : ∀ objs, (s.step (.setChildren c objs)).2 = false → (s.step (.setChildren c objs)).1 = s := by
    intro objs hr
    simp only [step] at hr ⊢
    split
    · rename_i hk; rw [if_pos hk] at hr; exact h1 objs hr
    · rfl
  refine ⟨hch, fun a => hch a.toList, ?_⟩
  · intro k objs hr
    simp only [step] at hr ⊢
    split
    · rename_i hk; rw [if_pos hk] at hr; exact h2 k objs hr
    · rfl

/-- the same for any consistent state (not only reachable ones), together with what a refusal IS in the model:
the `add` of the new children onto the unlinked state is refused, or (typed setters) the input formatting raises -/
theorem setter_rejected_changes_nothing_of_inv (s : Forest) (hi : s.Inv) (c : Nat) :
    (∀ objs, (s.setChildren c objs).2 = false → (s.setChildren c objs).1 = s) ∧
    (∀ k objs, (s.setTyped c k objs).2 = false → (s.setTyped c k objs).1 = s) :=
  setter_rejected_unchanged s hi c

-- non-vacuity: collection 0 = [source 2, collection 1 = [sensor 3]].
-- `c0.children = [source 2, 900]` (900 is no object: a junk entry) is refused AFTER the children were unlinked, and
-- nothing has changed; the same for the collection itself, a child given twice, and `c1.collections = [c0]` (its ancestor);
-- an accepted assignment does change the state
example :
    let s := demoC11
    (s.step (.setChildren 0 [2, 900])).2 = false ∧ (s.unlinked 0 (s.children 0)).children 0 = [] ∧
    (s.unlinked 0 (s.children 0)).parent 2 = none ∧
    (s.step (.setChildren 0 [2, 900])).1.children 0 = [2, 1] ∧ (s.step (.setChildren 0 [2, 900])).1.parent 2 = some 0 ∧
    (s.step (.setChildren 0 [2, 900])).1.srcs 0 = [2] ∧ (s.step (.setChildren 0 [2, 900])).1.colls 0 = [1] ∧
    (s.step (.setChildren 0 [0])).2 = false ∧ (s.step (.setChildren 0 [2, 2])).2 = false ∧
    (s.step (.setTyped 1 .coll [0])).2 = false ∧ (s.step (.setTyped 1 .coll [0])).1.children 1 = [3] ∧
    (s.step (.setTyped 0 .sens [3, 900])).2 = false ∧
    -- since 045b334: `c0.collections = [c1, junk]` is refused (was: junk dropped, accepted), nothing changes
    (s.step (.setTyped 0 .coll [1, 900])).2 = false ∧ (s.step (.setTyped 0 .coll [1, 900])).1.children 0 = [2, 1] ∧
    (s.step (.setTyped 0 .coll [1, 900])).1.parent 1 = some 0 ∧ (s.step (.setTyped 0 .coll [1])).2 = true ∧
    -- bare values: `c0.children = 5` is refused, `c0.children = <source 2>` is a list of one
    (s.step (.setChildren 0 (ChildrenArg.bare 900).toList)).2 = false ∧
    (s.step (.setChildren 0 (ChildrenArg.bare 900).toList)).1.children 0 = [2, 1] ∧
    (s.step (.setChildren 0 (ChildrenArg.bare 2).toList)).2 = true ∧
    (s.step (.setChildren 0 (ChildrenArg.bare 2).toList)).1.children 0 = [2] ∧
    (s.step (.setChildren 0 [1, 2])).2 = true ∧ (s.step (.setChildren 0 [1, 2])).1.children 0 = [1, 2] ∧
    (s.step (.setTyped 0 .src [1])).2 = true ∧ (s.step (.setTyped 0 .src [1])).1.children 0 = [1] := by
  decide

-- (audit 2) the theorem APPLIED (the example above evaluates components by `decide`): `demoC11` is by definition a state
-- reached by a history from `init`, the assignment `c0.children = [source 2, junk]` is refused after the unlinking, and the
-- WHOLE forest — a record of functions, compared at every id — is the one before; likewise for `c1.collections = [c0]`
example : (demoC11.step (.setChildren 0 [2, 900])).1 = demoC11 ∧ (demoC11.step (.setTyped 1 .coll [0])).1 = demoC11 :=
  ⟨(setter_rejected_changes_nothing [.coll, .coll, .src, .sens]
      [COp.base (.add 1 [3] false), COp.base (.add 0 [2, 1] false)] 0).1 [2, 900] (by decide),
   (setter_rejected_changes_nothing [.coll, .coll, .src, .sens]
      [COp.base (.add 1 [3] false), COp.base (.add 0 [2, 1] false)] 1).2.2 .coll [0] (by decide)⟩

-- (audit 2) `all_views_are_preorder_filters` applied to the same history: `children_all` of collection 0 is duplicate-free,
-- does not contain 0, and consists exactly of the objects that reach 0 through parent links
example : (0 :: (demoC11.cnodes 0).tail).Nodup ∧ demoC11.flatAll (fun _ => true) demoC11.n 0 = (demoC11.cnodes 0).tail :=
  have h := all_views_are_preorder_filters [.coll, .coll, .src, .sens]
    [COp.base (.add 1 [3] false), COp.base (.add 0 [2, 1] false)] 0
  ⟨h.2.2.2.2.1, h.1⟩

/-- (added by the audit) `views_are_partitions` above only says "in at least one view" and "each view is a sublist";
this is the full clause of the property: the stored `_sources` / `_sensors` / `_collections` ARE the ordered typed
filters of `_children` (same order, same multiplicity), hence pairwise disjoint — every child appears in exactly
one of them, exactly as often as in `children` (once, by `unique_parent_listed_once`). -/
theorem views_are_typed_filters (s : Forest) (h : s.Inv) (c : Nat) :
    (s.srcs c = (s.children c).filter (fun o => s.kind o = .src) ∧
     s.sens c = (s.children c).filter (fun o => s.kind o = .sens) ∧
     s.colls c = (s.children c).filter (fun o => s.kind o = .coll)) ∧
    (∀ o, ¬ (o ∈ s.srcs c ∧ o ∈ s.sens c) ∧ ¬ (o ∈ s.srcs c ∧ o ∈ s.colls c) ∧ ¬ (o ∈ s.sens c ∧ o ∈ s.colls c)) := by
  obtain ⟨h1, h2, h3⟩ := h.views c
  refine ⟨⟨h1, h2, h3⟩, fun o => ?_⟩
  rw [h1, h2, h3]
  simp only [List.mem_filter, decide_eq_true_eq]
  refine ⟨?_, ?_, ?_⟩ <;> rintro ⟨⟨_, ha⟩, ⟨_, hb⟩⟩ <;> rw [ha] at hb <;> cases hb

-- non-vacuity of `no_collection_contains_itself` / `unique_parent_listed_once` / `views_are_typed_filters`: the
-- reachable state "collection 0 = [source 2, collection 1 = [sensor 3]]" is consistent and acyclic (by
-- `inv_reachable`), and collection 1 has parent 0
example :
    let s := ([FOp.add 1 [3] false, FOp.add 0 [2, 1] false].foldl (fun s op => (s.step op).1) (Forest.init [.coll, .coll, .src, .sens]))
    s.Inv ∧ s.Acyclic ∧ s.parent 1 = some 0 ∧ s.srcs 0 = [2] ∧ s.colls 0 = [1] :=
  ⟨(inv_reachable _ _).1, (inv_reachable _ _).2, by decide, by decide, by decide⟩

end MagpyVerif.C11
