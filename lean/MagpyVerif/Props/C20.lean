/-
Props/C20.lean — style settings resolve by precedence and never leak (flat-dictionary level).
/- FULL: also equivalence of the three notations (underscore keyword, nested dict, attribute
   assignment), rejection of invalid names/values, independence of objects and copies, and
   defaults.reset().  Those run through MagicProperties' Python property machinery and are
   checked by the style oracle on the real objects for every leaf of every family. -/
-/
import MagpyVerif.Model.StyleTree
import MagpyVerif.Gen.Defaults
namespace MagpyVerif.C20
open MagpyVerif.Style MagpyVerif.Gen

theorem familyDefaults_apply (base : Flat) (fams : List Flat) (k : String) :
    familyDefaults base fams k = firstSome ((fams.reverse.map (· k)) ++ [base k]) := by
  induction fams generalizing base with
  | nil => simp [familyDefaults, firstSome]; cases base k <;> rfl
  | cons f fs ih =>
    simp only [familyDefaults, List.foldl_cons] at ih ⊢
    rw [ih]
    simp only [List.reverse_cons, List.map_append, List.map_cons, List.map_nil, List.append_assoc, List.cons_append, List.nil_append]
    generalize fs.reverse.map (· k) = pre
    induction pre with
    | nil =>
      simp only [List.nil_append, updateNonNone]
      cases f k <;> simp [firstSome]
    | cons p ps ihp =>
      cases p with
      | none => simpa [firstSome] using ihp
      | some v => simp [firstSome]

/-- a key given in the show() call wins, whatever the object and the defaults say -/
theorem update_last_wins (d : Flat) (u : List (String × Option Nat)) (k : String) (v : Option Nat) :
    update d (u ++ [(k, v)]) k = v := by
  simp [update, List.foldl_append]

theorem update_other (d : Flat) (u : List (String × Option Nat)) (k : String)
    (h : ∀ kv ∈ u, kv.1 ≠ k) : update d u k = d k := by
  induction u generalizing d with
  | nil => rfl
  | cons kv rest ih =>
    simp only [update, List.foldl_cons] at ih ⊢
    rw [ih _ (fun kv' h' => h kv' (by simp [h']))]
    have := h kv (by simp)
    simp [Ne.symm this]

/-- C20: leaf by leaf, the effective style is the value given in the show() call if any, else the
object's own style, else the defaults of the object's families (most specific last-listed family
first), else the base defaults. -/
theorem resolution_precedence (base : Flat) (fams : List Flat) (obj : Flat)
    (kw : List (String × Option Nat)) (k : String) (v : Option Nat)
    (hk : ∀ kv ∈ kw, kv.1 ≠ k) :
    -- key not mentioned in the call: object, then families, then base
    getStyle base fams obj kw k = firstSome (obj k :: (fams.reverse.map (· k)) ++ [base k]) ∧
    -- key given (last) in the call with a value: that value
    (∀ x, v = some x → getStyle base fams obj (kw ++ [(k, v)]) k = some x) := by
  constructor
  · simp only [getStyle, fillNone, update_other obj kw k hk, familyDefaults_apply]
    cases obj k <;> simp [firstSome]
  · intro x hx
    subst hx
    simp only [getStyle, fillNone, update_last_wins]

/-- no default key contains the magic separator, so underscore notation parses back uniquely -/
theorem no_underscore_in_default_keys :
    Defaults.leaves.all (fun r => r.1.all (fun key => !(key.toList.contains '_'))) = true := by
  decide

/-- every style family has a `show`/colour-independent leaf set rooted at display.style.<family> -/
theorem families_present :
    Defaults.families = ["base", "current", "dipole", "magnet", "markers", "sensor", "triangle", "triangularmesh"] := by
  decide

example : getStyle (fun k => if k = "color" then some 1 else none) [fun k => if k = "color" then some 2 else none]
    (fun _ => none) [] "color" = some 2 := by decide

end MagpyVerif.C20
