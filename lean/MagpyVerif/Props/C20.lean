/-
Props/C20.lean — style settings resolve by precedence and never leak (flat-dictionary level).
/- FULL: also equivalence of the three notations (underscore keyword, nested dict, attribute
   assignment), rejection of invalid names/values, independence of objects and copies, and
   defaults.reset().  Those run through MagicProperties' Python property machinery and are
   checked by the style oracle on the real objects for every leaf of every family. -/
-/
import MagpyVerif.Model.StyleTree
import MagpyVerif.Gen.Defaults
import MagpyVerif.Lemmas.StyleResolve
namespace MagpyVerif.C20
open MagpyVerif.Style MagpyVerif.Gen

theorem familyDefaults_apply (base : Flat) (fams : List Flat) (k : String) :
    familyDefaults base fams k = firstSome ((fams.reverse.map (· k)) ++ [base k]) := by
  induction fams generalizing base with
  | nil => simp [familyDefaults, firstSome]; cases base k <;> rfl
  | cons f fs ih =>
    simp only [familyDefaults, List.foldl_cons] at ih ⊢
    rw [ih]
    simp only [List.reverse_cons, List.map_append, List.map_cons, List.map_nil, List.append_assoc, List.cons_append, List.nil_append]
    generalize fs.reverse.map (· k) = pre
    induction pre with
    | nil =>
      simp only [List.nil_append, updateNonNone]
      cases f k <;> simp [firstSome]
    | cons p ps ihp =>
      cases p with
      | none => simpa [firstSome] using ihp
      | some v => simp [firstSome]

/-- a key given in the show() call wins, whatever the object and the defaults say -/
theorem update_last_wins (d : Flat) (u : List (String × Option Nat)) (k : String) (v : Option Nat) :
    update d (u ++ [(k, v)]) k = v := by
  simp [update, List.foldl_append]

theorem update_other (d : Flat) (u : List (String × Option Nat)) (k : String)
    (h : ∀ kv ∈ u, kv.1 ≠ k) : update d u k = d k := by
  induction u generalizing d with
  | nil => rfl
  | cons kv rest ih =>
    simp only [update, List.foldl_cons] at ih ⊢
    rw [ih _ (fun kv' h' => h kv' (by simp [h']))]
    have := h kv (by simp)
    simp [Ne.symm this]

/-- C20: leaf by leaf, the effective style is the value given in the show() call if any, else the
object's own style, else the defaults of the object's families (most specific last-listed family
first), else the base defaults. -/
theorem resolution_precedence (base : Flat) (fams : List Flat) (obj : Flat)
    (kw : List (String × Option Nat)) (k : String) (v : Option Nat)
    (hk : ∀ kv ∈ kw, kv.1 ≠ k) :
    -- key not mentioned in the call: object, then families, then base
    getStyle base fams obj kw k = firstSome (obj k :: (fams.reverse.map (· k)) ++ [base k]) ∧
    -- key given (last) in the call with a value: that value
    (∀ x, v = some x → getStyle base fams obj (kw ++ [(k, v)]) k = some x) := by
  constructor
  · simp only [getStyle, fillNone, update_other obj kw k hk, familyDefaults_apply]
    cases obj k <;> simp [firstSome]
  · intro x hx
    subst hx
    simp only [getStyle, fillNone, update_last_wins]

/-- no default key contains the magic separator, so underscore notation parses back uniquely -/
theorem no_underscore_in_default_keys :
    Defaults.leaves.all (fun r => r.1.all (fun key => !(key.toList.contains '_'))) = true := by
  decide

/-- (added by the audit) `no_underscore_in_default_keys` is an `all` over the regenerated leaves and would hold vacuously
for an empty list: the regenerated DEFAULTS tree has leaves, every leaf has a non-empty key path -/
theorem default_leaves_nonempty :
    Defaults.leaves.length ≥ 100 ∧ Defaults.leaves.all (fun r => !r.1.isEmpty) = true := by
  decide

/-- every style family has a `show`/colour-independent leaf set rooted at display.style.<family> -/
theorem families_present :
    Defaults.families = ["base", "current", "dipole", "magnet", "markers", "sensor", "triangle", "triangularmesh"] := by
  decide

example : getStyle (fun k => if k = "color" then some 1 else none) [fun k => if k = "color" then some 2 else none]
    (fun _ => none) [] "color" = some 2 := by decide

/-! ## the nested-dictionary layer (`magpylib/_src/defaults/defaults_utility.py`)

Model: `Model/StyleNested.lean` (`magic_to_dict`, `linearize_dict`, `update_nested_dict`, `MagicProperties.update`
as the code performs them on ordered dictionaries), tied to the real functions by the `style` correspondence stream. -/

section nested
open MagpyVerif.StyleNested

/-- `magic_to_dict` terminates: the recursion (which runs on dictionaries the first loop has just built, not on
sub-terms of the argument) never exhausts the fuel the model gives it — for every argument, including those on
which it raises. -/
theorem magic_to_dict_terminates (sep : Char) (t : Tree) : magicToDict sep t ≠ .error .fuel := by
  cases t with
  | leaf v => simp [magicToDict]
  | node kw =>
    simp only [magicToDict]
    have := magicFuel_no_fuel_error sep (weightKids sep kw + 1) kw (Nat.lt_succ_self _)
    cases h : magicFuel sep (weightKids sep kw + 1) kw with
    | ok r => simp
    | error e => simp only []; intro he; cases he; exact this h

example : magicToDict '_' (.node [(.str "a_b".toList, .node [(.str "c_d".toList, .leaf (some 1))]), (.str "a".toList, .leaf none),
    (.str "a_b_c_e".toList, .leaf (some 2))]) =
    .ok (.node [(.str "a".toList, .node [(.str "b".toList, .node [(.str "c".toList, .node [(.str "e".toList, .leaf (some 2))])])])]) := by
  rfl

/-- **C20, round trip of the underscore notation.** A flat keyword dictionary whose keys are separator-joined paths
of separator-free segments, no key a prefix-path of another (in particular no duplicates): `magic_to_dict` succeeds,
`linearize_dict` of its result succeeds, and the flat dictionary obtained maps every key to the same value as the
keyword dictionary did (and has no other keys). -/
theorem linearize_magic_roundtrip (c : Char) (E : Entries) (hsf : SF c E) (hpf : PF E) :
    ∃ (t : Tree) (f : FlatD), magicToDict c (.node (kwOf c E)) = .ok t ∧ linearizeDict [c] t = .ok f ∧
      ∀ key : Key, lookup key f = lookup key (flatOf c E) := by
  obtain ⟨R, hR, hgood, hleaf, _⟩ := magicToDict_kwOf c E hsf hpf
  refine ⟨.node R, linLoop [c] [] R, hR, rfl, ?_⟩
  intro key
  have h : ∀ v, lookup key (linLoop [c] [] R) = some v ↔ lookup key (flatOf c E) = some v := by
    intro v
    rw [lookup_linearize c R hgood key v]
    constructor
    · rintro ⟨s, q, hk, hp⟩
      rw [hk]
      exact lookup_flatOf hsf hpf ((hleaf (s :: q) v).mp hp)
    · intro h
      obtain ⟨q, hk, hm⟩ := mem_of_lookup_flatOf h
      cases q with
      | nil => exact absurd rfl (hsf _ hm).1
      | cons s q' => exact ⟨s, q', hk, (hleaf (s :: q') v).mpr hm⟩
  cases h1 : lookup key (linLoop [c] [] R) with
  | some v => exact ((h v).mp h1).symm
  | none =>
    cases h2 : lookup key (flatOf c E) with
    | none => rfl
    | some v => rw [(h v).mpr h2] at h1; cases h1

/-- the result of `magic_to_dict` on such a keyword dictionary is the trie of the keys: string keys without separator,
pairwise different at every level, a non-dict value `v` at path `q` exactly for the keys `sep.join(q) = v`, and
no empty dictionaries (every value of the result lies on the path of some key). -/
theorem magic_to_dict_is_trie (c : Char) (E : Entries) (hsf : SF c E) (hpf : PF E) :
    ∃ R, magicToDict c (.node (kwOf c E)) = .ok (.node R) ∧ goodKids c R = true ∧
      (∀ (q : List Str) (v : Option Val), getPath (.node R) (q.map Key.str) = some (.leaf v) ↔ (q, v) ∈ E) ∧
      (∀ (q : List Str) (x : Tree), q ≠ [] → getPath (.node R) (q.map Key.str) = some x → ∃ p v, (p, v) ∈ E ∧ q <+: p) :=
  magicToDict_kwOf c E hsf hpf

/-- non-vacuity: a keyword dictionary that meets the hypotheses, with shared first segments in non-adjacent keys -/
def exampleKw : Entries :=
  [(["a".toList, "b".toList], some 1), (["d".toList], some 2), (["a".toList, "c".toList, "e".toList], none), (["a".toList, "c".toList, "f".toList], some 3)]

example : SF '_' exampleKw ∧ PF exampleKw := by decide

example : magicToDict '_' (.node (kwOf '_' exampleKw)) =
    .ok (.node [(.str "a".toList, .node [(.str "b".toList, .leaf (some 1)),
        (.str "c".toList, .node [(.str "e".toList, .leaf none), (.str "f".toList, .leaf (some 3))])]), (.str "d".toList, .leaf (some 2))]) := by
  rfl

/-- **C20, the notations are equivalent.** For one assignment of a non-dict value `v` at the path `k.p` (segments
without separator): the underscore-keyword form `{k_p1_…_pn: v}` is turned by `magic_to_dict` into exactly the
nested-dict form `{k: {p1: … {pn: v}}}`, so `update_nested_dict` gives the same result for both under every flag
combination; and with both flags off that result is the attribute assignment `d.k.p1.….pn = v`. -/
theorem notations_equivalent (c : Char) (k : Str) (ps : List Str) (v : Option Val) (hf : ∀ w ∈ k :: ps, c ∉ w) :
    magicToDict c (.node [(.str (joinWith c (k :: ps)), .leaf v)]) = .ok (pathTree ((k :: ps).map Key.str) (.leaf v)) ∧
    (∀ (sko rno : Bool) (d : Tree),
      (match magicToDict c (.node [(.str (joinWith c (k :: ps)), .leaf v)]) with
        | .ok m => updateNested sko rno d m
        | .error e => .error e) =
      updateNested sko rno d (pathTree ((k :: ps).map Key.str) (.leaf v))) ∧
    (∀ d : Tree, updateNested false false d (pathTree ((k :: ps).map Key.str) (.leaf v)) =
      .ok (setPath d ((k :: ps).map Key.str) (.leaf v))) := by
  have h1 := magicToDict_single c v k ps hf
  refine ⟨h1, ?_, ?_⟩
  · intro sko rno d; rw [h1]
  · intro d
    simp only [List.map_cons, pathTree, updateNested]
    rw [updDict_pathTree]

example : magicToDict '_' (.node [(.str "path_line_width".toList, .leaf (some 3))]) =
    .ok (pathTree [.str "path".toList, .str "line".toList, .str "width".toList] (.leaf (some 3))) := by
  rfl

/-- **the restriction of `notations_equivalent` to non-dict values is necessary** (witness, genuine defect of the code):
`magic_to_dict` recurses into every dict *value*, so a dict given as the value of a plain property is rewritten when it
comes through a constructor / `update` keyword, but not when it is assigned as an attribute.  Real code:
`Trace3d(kwargs={"clip_on": False}).kwargs == {"clip": {"on": False}}` (and `show()` then fails in matplotlib), while
`t.kwargs = {"clip_on": False}` keeps the dict. -/
theorem magic_rewrites_dict_valued_leaves :
    okEq (magicToDict '_' (.node [(.str "kwargs".toList, .node [(.str "clip_on".toList, .leaf (some 0))])]))
      (.node [(.str "kwargs".toList, .node [(.str "clip".toList, .node [(.str "on".toList, .leaf (some 0))])])]) = true ∧
    okEq (.ok (setPath (.node [(.str "kwargs".toList, .leaf none)]) [.str "kwargs".toList] (.node [(.str "clip_on".toList, .leaf (some 0))])))
      (.node [(.str "kwargs".toList, .node [(.str "clip_on".toList, .leaf (some 0))])]) = true := by
  decide +kernel

/-- **C20, last assignment wins at tree level (characterisation for every flag combination).**
`r = update_nested_dict(d, u, same_keys_only, replace_None_only)` for a dict `u` with pairwise different keys at every
level: a non-dict value `v` that `u` has at path `p` is in `r` at `p` iff `p` is *writable* in `d` (walking `p` in `d`:
a non-dict value met on the way is overwritten unless it is non-None and `replace_None_only`; a dict of `d` at `p` is
overwritten unless `replace_None_only`; a missing key is created unless `same_keys_only`); otherwise `r` has at `p`
what `d` had there. -/
theorem update_nested_leaf (sko rno : Bool) (d : Tree) (ku : Dict) (hu : wfKids ku = true) (p : List Key) (v : Option Val)
    (h : getPath (.node ku) p = some (.leaf v)) :
    getPath (updDict sko rno d ku) p = if writable sko rno d p then some (.leaf v) else getPath d p := by
  rw [getPath_updDict_leaf sko rno v p d ku hu h]
  cases writable sko rno d p <;> rfl

/-- **last assignment wins** (plain update, both flags off): every non-dict value of `u` is in the result, whatever `d` is. -/
theorem update_nested_last_wins (d : Tree) (ku : Dict) (hu : wfKids ku = true) (p : List Key) (v : Option Val)
    (h : getPath (.node ku) p = some (.leaf v)) :
    getPath (updDict false false d ku) p = some (.leaf v) := by
  rw [update_nested_leaf false false d ku hu p v h, writable_ff]; rfl

/-- `same_keys_only` ignores unknown keys: a value of `u` is written iff walking its path in `d` never leaves `d`
(every key exists as long as `d` has dicts there); a path that leaves `d` is not created. -/
theorem update_nested_same_keys_only (d : Tree) (ku : Dict) (hu : wfKids ku = true) (p : List Key) (v : Option Val)
    (h : getPath (.node ku) p = some (.leaf v)) :
    getPath (updDict true false d ku) p = if covers d p then some (.leaf v) else none := by
  rw [update_nested_leaf true false d ku hu p v h, writable_tf_eq_covers]
  cases hc : covers d p
  · simp [getPath_eq_none_of_not_covers p d hc]
  · rfl

/-- `replace_None_only` only fills None: where `d` has a non-dict value `y` at the path of a value `v` of `u`, the
result has `v` if `y` is None and keeps `y` otherwise (for both settings of `same_keys_only`). -/
theorem update_nested_replace_None_only (sko : Bool) (d : Tree) (ku : Dict) (hu : wfKids ku = true) (p : List Key)
    (v y : Option Val) (h : getPath (.node ku) p = some (.leaf v)) (hd : getPath d p = some (.leaf y)) :
    getPath (updDict sko true d ku) p = some (.leaf (if y.isNone then v else y)) := by
  rw [update_nested_leaf sko true d ku hu p v h, writable_of_getPath_leaf sko true p d y hd]
  cases y with
  | none => simp
  | some x => simp [hd]

/-- **every other leaf is untouched**, for every flag combination: a path that `u` does not reach (walking it in `u`
leaves `u` at a missing key) has in the result exactly what it had in `d` — in particular every non-dict value of `d`
at such a path keeps its value, and no such path is created. -/
theorem update_nested_other_leaves_untouched (sko rno : Bool) (d : Tree) (ku : Dict) (hu : wfKids ku = true) (p : List Key)
    (h : covers (.node ku) p = false) :
    getPath (updDict sko rno d ku) p = getPath d p :=
  getPath_updDict_untouched sko rno p d ku hu h

/-- non-vacuity of the update theorems: all four flag combinations on one example with an unknown key `z`,
a None leaf, a non-None leaf, and a dict-versus-value clash -/
example :
    let d : Tree := .node [(.str "a".toList, .node [(.str "x".toList, .leaf none), (.str "y".toList, .leaf (some 1))]), (.str "b".toList, .leaf (some 2))]
    let ku : Dict := [(.str "a".toList, .node [(.str "y".toList, .leaf (some 7)), (.str "x".toList, .leaf (some 8)), (.str "z".toList, .leaf (some 9))]),
                      (.str "b".toList, .node [(.str "q".toList, .leaf (some 5))])]
    wfKids ku = true ∧
    updDict false false d ku = .node [(.str "a".toList, .node [(.str "x".toList, .leaf (some 8)), (.str "y".toList, .leaf (some 7)), (.str "z".toList, .leaf (some 9))]),
                                      (.str "b".toList, .node [(.str "q".toList, .leaf (some 5))])] ∧
    updDict true false d ku = .node [(.str "a".toList, .node [(.str "x".toList, .leaf (some 8)), (.str "y".toList, .leaf (some 7))]),
                                      (.str "b".toList, .node [(.str "q".toList, .leaf (some 5))])] ∧
    updDict false true d ku = .node [(.str "a".toList, .node [(.str "x".toList, .leaf (some 8)), (.str "y".toList, .leaf (some 1)), (.str "z".toList, .leaf (some 9))]),
                                      (.str "b".toList, .leaf (some 2))] ∧
    updDict true true d ku = .node [(.str "a".toList, .node [(.str "x".toList, .leaf (some 8)), (.str "y".toList, .leaf (some 1))]),
                                      (.str "b".toList, .leaf (some 2))] := by
  refine ⟨rfl, rfl, rfl, rfl, rfl⟩

/-- **aliasing (instead of "does not modify its inputs", which is trivial in a functional model).**
`update_nested_dict` starts from `deepcopy(d)`, so no dictionary object of `d` is part of the result (and none is written);
but `d = u.copy()` is a shallow copy: every dictionary object of the result that is not new is a dictionary nested
inside `u`.  `updDictA` is the model with an address on every dictionary (0 = created by the call); forgetting the
addresses gives the plain model. -/
theorem update_nested_sharing (sko rno : Bool) (d : ATree) (ku : List (Key × ATree)) :
    (updDictA sko rno d ku).erase = updDict sko rno d.erase (eraseKids ku) ∧
    ∀ a ∈ (updDictA sko rno d ku).addrs, a ∈ addrsKids ku :=
  ⟨updDictA_erase sko rno d ku, fun a h => addrs_updDictA sko rno d ku a h⟩

/-- the sharing with `u` really happens: `update_nested_dict({"a": None}, {"a": {"b": {"c": 1}}})["a"]["b"]` is the
caller's `u["a"]["b"]` (address 3), while the dict at `["a"]` is new — the stream compares exactly this with `id()`. -/
example : (updDictA false false (.node 1 [(.str "a".toList, .leaf none)])
    [(.str "a".toList, .node 2 [(.str "b".toList, .node 3 [(.str "c".toList, .leaf (some 1))])])]).preorder = [0, 0, 3] := by
  rfl

/-- **C20, the notations are equivalent through `MagicProperties.update`.** `obj.update({k: {p1: … {pn: v}}})`
(nested-dict argument) and `obj.update(k_p1_…_pn=v)` (underscore keyword) have the same outcome — the same new
`as_dict()` or the same exception class — for every property class (schema), every state of the object and both
settings of `_match_properties` and `_replace_None_only`. -/
theorem mp_update_notations_equivalent (schema cur : Tree) (k : Str) (ps : List Str) (v : Option Val)
    (hf : ∀ w ∈ k :: ps, '_' ∉ w) (matchProps rno : Bool) :
    mpUpdate schema cur (some (pathTree ((k :: ps).map Key.str) (.leaf v))) [] matchProps rno =
    mpUpdate schema cur none [(.str (joinWith '_' (k :: ps)), .leaf v)] matchProps rno := by
  have h1 := magicToDict_pathTree '_' v k ps hf
  have h2 := magicToDict_single '_' v k ps hf
  simp only [List.map_cons, pathTree] at h1
  simp only [mpUpdate, List.map_cons, pathTree, mergeDict, List.foldl_nil, List.foldl_cons, setKey, h1, h2]

example : okEq (mpUpdate (.node [(.str "line".toList, .node [(.str "color".toList, .leaf none), (.str "width".toList, .leaf none)]), (.str "show".toList, .leaf none)])
      (.node [(.str "line".toList, .node [(.str "color".toList, .leaf (some 1)), (.str "width".toList, .leaf none)]), (.str "show".toList, .leaf (some 1))])
      none [(.str "line_width".toList, .leaf (some 5))] true false)
    (.node [(.str "line".toList, .node [(.str "color".toList, .leaf (some 1)), (.str "width".toList, .leaf (some 5))]), (.str "show".toList, .leaf (some 1))]) = true := by
  decide +kernel

/-- an unknown property name is rejected with AttributeError (the example of the `mp` stream cases) -/
example : (match mpUpdate (.node [(.str "show".toList, .leaf none)]) (.node [(.str "show".toList, .leaf (some 1))])
      none [(.str "colour".toList, .leaf (some 5))] true false with
    | .error .attribute => true
    | _ => false) = true := by
  decide +kernel

/-! ### link between the nested layer and the flat precedence theorems -/

/-- a flat dictionary read as the flat model's function (a missing key reads as None) -/
def toFlat (f : FlatD) : Flat := fun s => (lookup (.str s.toList) f).join

/-- the keyword arguments of the flat model for a keyword dictionary given by the paths of its keys -/
def kwList (c : Char) (E : Entries) : List (String × Option Nat) := E.map fun e => (String.ofList (joinWith c e.1), e.2)

theorem update_of_mem : ∀ (u : List (String × Option Nat)) (d : Flat), u.Pairwise (fun a b => a.1 ≠ b.1) →
    ∀ k v, (k, v) ∈ u → update d u k = v := by
  intro u
  induction u with
  | nil => intro d _ k v h; cases h
  | cons kv rest ih =>
    intro d hp k v hm
    have hstep : update d (kv :: rest) = update (fun x => if x = kv.1 then kv.2 else d x) rest := by
      simp [update, List.foldl_cons]
    rw [hstep]
    rcases List.mem_cons.mp hm with e | e
    · subst e
      rw [update_other _ rest k (fun kv' h' => ((List.pairwise_cons.mp hp).1 kv' h').symm)]
      simp
    · exact ih _ (List.pairwise_cons.mp hp).2 k v e

theorem kwList_keys_ne (c : Char) : ∀ (E : Entries), SF c E → PF E → (kwList c E).Pairwise (fun a b => a.1 ≠ b.1) := by
  intro E
  induction E with
  | nil => intro _ _; exact List.Pairwise.nil
  | cons e E' ih =>
    intro hsf hpf
    have hsf' : SF c E' := fun x hx => hsf x (List.mem_cons_of_mem _ hx)
    simp only [kwList, List.map_cons, List.pairwise_cons]
    refine ⟨?_, ih hsf' (List.pairwise_cons.mp hpf).2⟩
    intro b hb
    simp only [List.mem_map] at hb
    obtain ⟨e', he', rfl⟩ := hb
    intro heq
    have h0 := hsf e (by simp)
    have h1 := hsf e' (List.mem_cons_of_mem _ he')
    have := joinWith_inj h0.1 h1.1 h0.2 h1.2 (String.ofList_injective heq)
    exact ((List.pairwise_cons.mp hpf).1 e' he').1 (by rw [this]; exact List.prefix_rfl)

/-- **C20, the nested resolution agrees with the flat precedence theorem.**  `resolveNested` is `get_style` at the
level of nested dictionaries (`update_nested_dict` of the object's style with `magic_to_dict` of the show() keywords,
plain; then with `magic_to_dict` of the flat family/base defaults, same-keys-only and fill-None-only).  For a path `q`
at which the object's style has a non-dict value, and keyword/default dictionaries whose keys are separator-joined
paths (prefix-free) none of which is a proper prefix or a proper extension of `q`: the resolved nested style has at
`q` exactly the value the flat model `getStyle` (theorem `resolution_precedence`) gives for the key `sep.join(q)` on the
linearized inputs — `linearize_dict` of the object's style, the keyword list, and defaults `familyDefaults base fams`. -/
theorem nested_resolution_matches_flat (c : Char) (ko : Dict) (kwE dfE : Entries) (base : Flat) (fams : List Flat)
    (hobj : goodKids c ko = true) (hsfk : SF c kwE) (hpfk : PF kwE) (hsfd : SF c dfE) (hpfd : PF dfE)
    (hdef : ∀ s, toFlat (flatOf c dfE) s = familyDefaults base fams s)
    (q : List Str) (x : Option Val) (hq : getPath (.node ko) (q.map Key.str) = some (.leaf x))
    (hck : ∀ e ∈ kwE, e.1 <+: q ∨ q <+: e.1 → e.1 = q) (hcd : ∀ e ∈ dfE, e.1 <+: q ∨ q <+: e.1 → e.1 = q) :
    ∃ s2, resolveNested c (.node ko) (kwOf c kwE) (kwOf c dfE) = .ok s2 ∧
      getPath s2 (q.map Key.str) =
        some (.leaf (getStyle base fams (toFlat (linLoop [c] [] ko)) (kwList c kwE) (String.ofList (joinWith c q)))) := by
  obtain ⟨RK, hRK, hgK, hlK, hnK⟩ := magicToDict_kwOf c kwE hsfk hpfk
  obtain ⟨RD, hRD, hgD, hlD, hnD⟩ := magicToDict_kwOf c dfE hsfd hpfd
  have hqne : q ≠ [] := by intro e; subst e; simp [getPath_nil] at hq
  have hqf : ∀ w ∈ q, c ∉ w := (good_getPath q (.node ko) _ (by simpa [Tree.good] using hobj) hq).1
  refine ⟨updDict true true (updDict false false (.node ko) RK) RD, ?_, ?_⟩
  · simp only [resolveNested, hRK, updateNested, hRD]
  · have hobjF : toFlat (linLoop [c] [] ko) (String.ofList (joinWith c q)) = x := by
      cases q with
      | nil => exact absurd rfl hqne
      | cons s q' =>
        have : lookup (.str (joinWith c (s :: q'))) (linLoop [c] [] ko) = some x :=
          (lookup_linearize c ko hobj _ x).mpr ⟨s, q', rfl, hq⟩
        simp [toFlat, String.toList_ofList, this]
    have hdefK : familyDefaults base fams (String.ofList (joinWith c q)) =
        (lookup (.str (joinWith c q)) (flatOf c dfE)).join := by
      rw [← hdef]; simp [toFlat, String.toList_ofList]
    -- after the first update
    have h1 : ∃ a, getPath (updDict false false (.node ko) RK) (q.map Key.str) = some (.leaf a) ∧
        update (toFlat (linLoop [c] [] ko)) (kwList c kwE) (String.ofList (joinWith c q)) = a := by
      by_cases hk : ∃ v, (q, v) ∈ kwE
      · obtain ⟨v, hv⟩ := hk
        refine ⟨v, ?_, ?_⟩
        · rw [getPath_updDict_trie_hit false false hgK hlK _ hq hv]; simp
        · apply update_of_mem _ _ (kwList_keys_ne c kwE hsfk hpfk)
          simp only [kwList, List.mem_map]
          exact ⟨(q, v), hv, rfl⟩
      · have hk' : ∀ v, (q, v) ∉ kwE := fun v hv => hk ⟨v, hv⟩
        refine ⟨x, ?_, ?_⟩
        · rw [getPath_updDict_trie_miss false false hgK hlK hnK _ hqne hck hk']; exact hq
        · rw [update_other _ _ _ ?_, hobjF]
          intro kv hkv
          simp only [kwList, List.mem_map] at hkv
          obtain ⟨e, he, rfl⟩ := hkv
          intro heq
          have h0 := hsfk e he
          have := joinWith_inj h0.1 hqne h0.2 hqf (String.ofList_injective heq)
          exact hk' e.2 (by rw [← this]; exact he)
    obtain ⟨a, ha1, ha2⟩ := h1
    simp only [getStyle, fillNone, ha2]
    by_cases hd : ∃ w, (q, w) ∈ dfE
    · obtain ⟨w, hw⟩ := hd
      rw [getPath_updDict_trie_hit true true hgD hlD _ ha1 hw, hdefK, lookup_flatOf hsfd hpfd hw]
      cases a <;> simp
    · have hd' : ∀ w, (q, w) ∉ dfE := fun w hw => hd ⟨w, hw⟩
      rw [getPath_updDict_trie_miss true true hgD hlD hnD _ hqne hcd hd', ha1, hdefK]
      have hnone : lookup (.str (joinWith c q)) (flatOf c dfE) = none := by
        cases h : lookup (.str (joinWith c q)) (flatOf c dfE) with
        | none => rfl
        | some w =>
          exfalso
          obtain ⟨q2, hk2, hm2⟩ := mem_of_lookup_flatOf h
          injection hk2 with hk2
          have h0 := hsfd _ hm2
          have := joinWith_inj hqne h0.1 hqf h0.2 hk2
          exact hd' w (by rw [this]; exact hm2)
      rw [hnone]
      cases a <;> simp


/-- non-vacuity: object style `{path: {line: {width: None, color: 4}}, opacity: None}`, show() keyword
`path_line_width=7`, defaults `path_line_width=1, path_line_color=2, opacity=3, unknown_key=9`:
resolved `{path: {line: {width: 7, color: 4}}, opacity: 3}` (keyword > object > defaults, unknown default ignored) -/
example :
    okEq (resolveNested '_' (.node [(.str "path".toList, .node [(.str "line".toList, .node [(.str "width".toList, .leaf none), (.str "color".toList, .leaf (some 4))])]),
                              (.str "opacity".toList, .leaf none)])
      [(.str "path_line_width".toList, .leaf (some 7))]
      [(.str "path_line_width".toList, .leaf (some 1)), (.str "path_line_color".toList, .leaf (some 2)), (.str "opacity".toList, .leaf (some 3)),
       (.str "unknown_key".toList, .leaf (some 9))])
    (.node [(.str "path".toList, .node [(.str "line".toList, .node [(.str "width".toList, .leaf (some 7)), (.str "color".toList, .leaf (some 4))])]),
            (.str "opacity".toList, .leaf (some 3))]) = true := by
  decide +kernel

end nested

end MagpyVerif.C20
