/-
Props/C09.lean — property theorems for C09 (move/rotate and the pose setters follow the
documented path semantics).  Only property statements live here; helpers are in Lemmas/.
-/
import MagpyVerif.Lemmas.Path
import MagpyVerif.Lemmas.Tree
import MagpyVerif.Lemmas.Angax
import MagpyVerif.Lemmas.OctaCarrier
import MagpyVerif.Lemmas.History
import MagpyVerif.Lemmas.HistoryAddr
namespace MagpyVerif.C09
open MagpyVerif Gen Spec
variable {G V : Type}

/-- C09(a): `move` — every entry of the new position path is the documented one
(all `start ∈ ℤ ∪ {auto}`, all path lengths ≥ 1, scalar and vector input of any length);
the orientation path is only edge-padded. -/
theorem move_refines_spec [Add V] (inp : PathIn V) (start : Option Int) (o : Obj G V)
    (hne : o.pos ≠ []) (hlen : o.ori.length = o.pos.length) (i : Nat) :
    (applyMove inp start o).pos[i]? = applyAt (fun d x => x + d) inp start o.pos i ∧
    (applyMove inp start o).ori[i]? =
      baseAt o.ori (window inp.isScalar o.pos.length inp.lenip start) i :=
  applyMove_at inp start o hne hlen i

/-- C09(b): `rotate` on a childless or top-level object — orientation `R_k * old`, position
`R_k (p − a_k) + a_k` (unchanged when no anchor is given), with rotation and anchor inputs
broadcast against each other, for every `start`, every input length and every anchor form. -/
theorem rotate_refines_spec [Mul G] [SMul G V] [Add V] [Sub V]
    (rot : PathIn G) (anchor : Option (PathIn V)) (start : Option Int) (o : Obj G V)
    (hne : o.pos ≠ []) (hlen : o.ori.length = o.pos.length)
    (hr : rot.WF) (ha : ∀ a, anchor = some a → a.WF) (i : Nat) :
    ((applyRotation rot anchor start none o).pos[i]?,
     (applyRotation rot anchor start none o).ori[i]?) =
      rotateAt rot anchor start o.pos o.ori i :=
  applyRotation_at rot anchor start o hne hlen hr ha i

/-- C09(c): over every finite history of move / rotate / rotate_from_* / position= /
orientation= / reset_path (and rejected calls) applied to any node of any collection tree,
every object's position and orientation paths keep equal length ≥ 1. -/
theorem lengths_equal_ge1 [Mul G] [Inv G] [One G] [SMul G V] [Add V] [Sub V] [Zero V]
    (t : Node G V) (ops : List (Op G V)) (h : t.All Obj.Inv) :
    (ops.foldl Node.step t).All Obj.Inv := by
  induction ops generalizing t with
  | nil => exact h
  | cons op ops ih => exact ih _ (Node.step_inv t op h)

/-- C09(d): the position setter stores the input and edge-pads / end-slices the orientation
path to the same length (entry `i` = old entry `i + (N−M)` when slicing, clamped when padding);
the orientation setter does the same to the position path. -/
theorem setters_pad_or_slice (o : Obj G V) (hq : o.ori ≠ []) (hp : o.pos ≠ [])
    (ps : List V) (qs : List G) (i : Nat) :
    (setPositionObj ps o).pos = ps ∧
    (setPositionObj ps o).ori[i]? =
      (if i < ps.length then
        (if ps.length ≤ o.ori.length then o.ori[i + (o.ori.length - ps.length)]?
         else o.ori[min i (o.ori.length - 1)]?)
       else none) ∧
    (setOrientationObj qs o).ori = qs ∧
    (setOrientationObj qs o).pos[i]? =
      (if i < qs.length then
        (if qs.length ≤ o.pos.length then o.pos[i + (o.pos.length - qs.length)]?
         else o.pos[min i (o.pos.length - 1)]?)
       else none) :=
  ⟨rfl, getElem?_padSlice _ _ hq i, rfl, getElem?_padSlice _ _ hp i⟩

/-- C09(e): a rejected call changes nothing (model level: the state machine keeps the tree;
that the real validators raise *before* any mutation is what the `path` correspondence stream
checks on every rejected operation, including the empty position / orientation path). -/
theorem rejected_changes_nothing [Mul G] [Inv G] [One G] [SMul G V] [Add V] [Sub V] [Zero V]
    (t : Node G V) (a : List Nat) :
    t.step .rejected = t ∧ t.step (.setPos a []) = t ∧ t.step (.setOri a []) = t :=
  ⟨rfl, rfl, rfl⟩

/-- C09(f): `start='auto'` is 0 for scalar input and `len(path)` for vector input, negative
`start` counts from the end — the generated `path_padding_param` realises the documented window
for every integer `start`, every old length and every input length. -/
theorem padding_realises_window (scalar : Bool) (n l : Nat) (start : Option Int)
    (hl : scalar = true → l = 1) :
    let r := pathPaddingParam scalar n l start
    let w := window scalar n l start
    (padOf r.1).1 = w.b ∧ r.2.toNat = w.s0 ∧ 0 ≤ r.2 ∧
    n + (padOf r.1).1 + (padOf r.1).2 = w.newLen ∧ w.s0 + l ≤ w.newLen :=
  pathPaddingParam_spec scalar n l start hl

-- non-vacuity: the hypotheses are met by concrete states, and the window is the documented one
example : (Node.mk (G := Int) (V := Int) ⟨[1, 2], [0, 0]⟩ [Node.mk ⟨[5], [1]⟩ []]).All Obj.Inv := by
  refine .mk ⟨rfl, by decide⟩ ?_
  intro c hc
  simp at hc
  subst hc
  exact .mk ⟨rfl, by decide⟩ (by simp)
example : window false 3 2 none = ⟨0, 3, 5, 5⟩ := by decide
example : window false 3 2 (some (-5)) = ⟨2, 0, 5, 2⟩ := by decide
example : window true 3 1 (some 4) = ⟨0, 4, 5, 5⟩ := by decide
example : window true 3 1 (some (-1)) = ⟨0, 2, 3, 3⟩ := by decide
example : (applyMove (G := Int) (PathIn.vector [10, 20]) (some (-4)) ⟨[1, 2, 3], [0, 0, 0]⟩).pos
    = [11, 21, 2, 3] := by decide

/-! ## `rotate_from_angax`: the angle / axis → rotation-vector conversion (Model/Angax.lean)

The model runs at `Float` in the driver (`path` stream, op `angax`: the model converts angle and axis
itself, `from_rotvec` is Rodrigues' matrix snapped to the octahedral group) and is reasoned about at
`ℝ` here.  `from_rotvec` itself (scipy) stays a parameter `f`. -/

open MagpyVerif.Angax MagpyVerif.Kern

/-- C09(g): which axes `rotate_from_angax` accepts — `'x'`, `'y'`, `'z'` are the unit vectors, any other
string and the zero vector are rejected with the library's input error, every non-zero vector is
taken as it is; an accepted axis has positive length, so the normalisation `axis / |axis|` is a
division by a non-zero number and yields a unit vector.  (Exact arithmetic: in IEEE double a non-zero
axis shorter than ≈1.5e-162 has `norm = 0` after underflow, passes the `(0,0,0)` test and produces
NaN rotation vectors — see the findings.) -/
theorem angax_axis_spec :
    axisVec (.str "x" : AxisIn ℝ) = .ok ⟨1, 0, 0⟩ ∧ axisVec (.str "y" : AxisIn ℝ) = .ok ⟨0, 1, 0⟩ ∧
    axisVec (.str "z" : AxisIn ℝ) = .ok ⟨0, 0, 1⟩ ∧
    (∀ s : String, s ≠ "x" → s ≠ "y" → s ≠ "z" → axisVec (.str s : AxisIn ℝ) = .error .badUserInput) ∧
    axisVec (.vec (⟨0, 0, 0⟩ : V3 ℝ)) = .error .badUserInput ∧
    (∀ v : V3 ℝ, v ≠ ⟨0, 0, 0⟩ → axisVec (.vec v) = .ok v) ∧
    (∀ (axis : AxisIn ℝ) a, axisVec axis = .ok a → 0 < Kern.norm a ∧ Kern.norm (vd a (Kern.norm a)) = 1) := by
  refine ⟨by simp [axisVec, Kern.n], by simp [axisVec, Kern.n], by simp [axisVec, Kern.n], ?_, ?_, ?_, ?_⟩
  · intro s hx hy hz
    simp [axisVec, hx, hy, hz]
  · simp [axisVec, allZero]
  · intro v hv
    have : allZero v ≠ true := fun h => hv ((allZero_iff v).mp h)
    simp [axisVec, this]
  · intro axis a h
    have hne := axisVec_ok_ne_zero h
    exact ⟨norm_pos_of_ne_zero a hne, norm_unit a hne⟩

/-- C09(h): the rotation vectors handed to `Rotation.from_rotvec` are `θ' · axis/|axis|` with
`θ' = θ·π/180` when `degrees` else `θ` — ONE vector for scalar `angle` (scalar rotation input: the
whole path is rotated), one per entry and in order for vector `angle` (vector input: merged /
appended), so the scalar/vector path semantics of `rotate` carry over; a refused axis is the
library's input error whatever the angle. -/
theorem angax_rotvec_spec (angle : PathIn ℝ) (axis : AxisIn ℝ) (degrees : Bool) :
    (∀ e, axisVec axis = .error e → angaxRotvecs angle axis degrees = .error e) ∧
    (∀ a, axisVec axis = .ok a →
      angaxRotvecs angle axis degrees =
        .ok (angle.map fun θ => vs (if degrees then θ * Real.pi / 180 else θ) (vd a (Kern.norm a)))) ∧
    (∀ rv, angaxRotvecs angle axis degrees = .ok rv →
      rv.isScalar = angle.isScalar ∧ rv.lenip = angle.lenip ∧ rv.len0 = angle.len0 ∧
      ∀ (i : Nat) (θ : ℝ), angle.toList[i]? = some θ → ∃ v, rv.toList[i]? = some v ∧
        Kern.norm v = |if degrees then θ * Real.pi / 180 else θ|) := by
  have key : ∀ a, axisVec axis = .ok a → angaxRotvecs angle axis degrees =
      .ok (angle.map fun θ => vs (if degrees then θ * Real.pi / 180 else θ) (vd a (Kern.norm a))) := by
    intro a h
    simp only [angaxRotvecs, h]
    congr 2
    funext θ
    rw [rotvecOf_eq, toRad_eq]
  refine ⟨?_, key, ?_⟩
  · intro e h
    simp [angaxRotvecs, h]
  · intro rv h
    cases ha : axisVec axis with
    | error e => simp [angaxRotvecs, ha] at h
    | ok a =>
      rw [key a ha] at h
      cases h
      have hu := norm_unit a (axisVec_ok_ne_zero ha)
      cases angle with
      | scalar θ =>
        refine ⟨rfl, rfl, rfl, ?_⟩
        intro i θ' hi
        simp only [PathIn.toList, PathIn.map] at hi ⊢
        cases i with
        | zero =>
          simp only [List.getElem?_cons_zero, Option.some.injEq] at hi
          subst hi
          exact ⟨_, rfl, norm_vs_unit _ _ hu⟩
        | succ j => simp at hi
      | vector xs =>
        refine ⟨rfl, by simp [PathIn.lenip, PathIn.map], by simp [PathIn.len0, PathIn.map], ?_⟩
        intro i θ' hi
        simp only [PathIn.toList, PathIn.map, List.getElem?_map] at hi ⊢
        rw [hi]
        exact ⟨_, rfl, norm_vs_unit _ _ hu⟩

/-- C09(i): `rotate_from_angax` IS `rotate(from_rotvec(rotation vectors), anchor, start)` on the same
node, or a rejected call (state unchanged) when the axis is refused — by definition of the model,
for every carrier and every `from_rotvec`. -/
theorem rotate_from_angax_eq_rotate {α : Type} [Num α] [Mul G] [Inv G] [One G] [SMul G V] [Add V] [Sub V] [Zero V]
    (f : V3 α → G) (t : Node G V) (addr : List Nat) (angle : PathIn α) (axis : AxisIn α) (degrees : Bool)
    (anchor : Option (PathIn V)) (start : Option Int) :
    rotateFromAngax f t addr angle axis degrees anchor start =
      match angaxRotvecs angle axis degrees with
      | .error _ => t
      | .ok rv => t.step (.rotate addr (rv.map f) anchor start) := by
  unfold rotateFromAngax angaxOp
  cases angaxRotvecs angle axis degrees <;> rfl

/-- consequently the documented path semantics (C09(b)) holds for `rotate_from_angax` on a childless or
top-level object, with rotations `f (θ'_k · â)` -/
theorem angax_refines_spec [Mul G] [SMul G V] [Add V] [Sub V]
    (f : V3 ℝ → G) (angle : PathIn ℝ) (axis : AxisIn ℝ) (degrees : Bool) (a : V3 ℝ) (hax : axisVec axis = .ok a)
    (anchor : Option (PathIn V)) (start : Option Int) (o : Obj G V)
    (hne : o.pos ≠ []) (hlen : o.ori.length = o.pos.length)
    (hr : angle.WF) (ha : ∀ a, anchor = some a → a.WF) (i : Nat) :
    let rot := angle.map fun θ => f (vs (if degrees then θ * Real.pi / 180 else θ) (vd a (Kern.norm a)))
    angaxRotvecs angle axis degrees = .ok (angle.map fun θ => vs (if degrees then θ * Real.pi / 180 else θ) (vd a (Kern.norm a))) ∧
    ((applyRotation rot anchor start none o).pos[i]?, (applyRotation rot anchor start none o).ori[i]?) =
      rotateAt rot anchor start o.pos o.ori i := by
  refine ⟨(angax_rotvec_spec angle axis degrees).2.1 a hax, ?_⟩
  apply rotate_refines_spec _ anchor start o hne hlen _ ha i
  cases angle with
  | scalar _ => trivial
  | vector xs =>
    simp only [PathIn.map, PathIn.WF] at hr ⊢
    simpa using hr

-- non-vacuity: 90° about 'z' in degrees is the rotation vector (0, 0, π/2); (0,0,0) is refused
example : angaxRotvecs (.scalar (90 : ℝ)) (.str "z") true = .ok (.scalar ⟨0, 0, Real.pi / 2⟩) := by
  rw [(angax_rotvec_spec _ _ _).2.1 _ angax_axis_spec.2.2.1]
  simp only [PathIn.map, if_true, vs, vd, Kern.norm, sqrt_real]
  norm_num
  ring
example : angaxRotvecs (.vector [(1 : ℝ), 2]) (.vec ⟨0, 0, 0⟩) false = .error .badUserInput :=
  (angax_rotvec_spec _ _ _).1 _ angax_axis_spec.2.2.2.2.1


/-! ## the six `rotate_from_*` entry points (Model/RotFrom.lean) and the full operation set (Model/History.lean) -/
section entryPoints
open RotFrom
variable {α : Type} [Kern.Num α]

/-- C09(j): **every entry point is `rotate` with the rotation object scipy builds from its arguments** — one statement
quantifying over the entry point (`rotate_from_angax / rotvec / euler / matrix / mrp / quat`, any arguments): a call the
conversion refuses (magpylib's own axis check for angax; scipy's ValueError for a bad Euler sequence, an angle array whose
shape does not fit the sequence, a zero quaternion, a matrix without positive determinant) leaves the tree as it is;
otherwise the history step IS `rotate(rot, anchor, start)` on the same node, and `rot` is a single rotation (scalar input)
exactly if the argument was ONE parameter set, a stack of `n` (vector input) exactly if it was `n` parameter sets.
AUDIT2: the first conjunct holds BY DEFINITION of the model (`Node.hstep` of `.rotFrom` is `Node.step (rotFromOp …)` and
`rotFromOp` is this `match`; proof `simp only; cases <;> rfl`) — it is glue, as `rotate_from_angax_eq_rotate` says of itself.
"The equivalent rotation" is whatever the parameter `sc` returns; the theorem cannot and does not say that it is the right one.
What ties the statement to the code are the `rotfrom` / `angax` rows of the `path` stream (real `rotate_from_*` against
`hstep driverScipy`).  Content of its own: the shape rule of the second conjunct, `angax_rotvec_spec`, and the
composition order of Euler sequences (`euler_composition_order` below). -/
theorem rotate_from_any_eq_rotate [Mul G] [Inv G] [One G] [SMul G V] [Add V] [Sub V] [Zero V]
    (sc : Scipy α G) (t : Node G V) (addr : List Nat) (e : Entry α) (anchor : Option (PathIn V)) (start : Option Int) :
    t.hstep sc (.rotFrom addr e anchor start) =
      (match toRot sc e with
       | .error _ => t
       | .ok rot => t.step (.rotate addr rot anchor start)) ∧
    (∀ rot, toRot sc e = .ok rot → e.shape = some (rot.isScalar, rot.lenip)) := by
  refine ⟨?_, fun rot h => toRot_shape sc e rot h⟩
  simp only [Node.hstep, rotFromOp]
  cases toRot sc e <;> rfl

/-- the padding window of a rotation whose input class is (scalar?, number of parameter sets) -/
def shapeWindow (shape : Bool × Nat) (anchor : Option (PathIn V)) (N : Nat) (start : Option Int) : Window :=
  window (shape.1 && (match anchor with | some a => a.isScalar | none => true)) N
    (max (if shape.1 then 0 else shape.2) (match anchor with | some a => a.len0 | none => 0)) start

/-- C09(k): **the `start` semantics is the same for all six entry points**: for every entry point and arguments the
conversion accepts, on a childless / top-level object the result is the documented one (`rotateAt`, C09(b)) and its
padding window — entries padded in front, first affected index, new length, end of the affected range — is a function of
the input class `(scalar?, n)`, of the anchor's class and of `start` alone: whichever entry point the rotation came through,
scalar input acts from `start` (auto = 0) to the end, vector input of length n on n entries from `start` (auto = append).
Domain: vector input non-empty (`n ≥ 1`), anchor non-empty. -/
theorem entry_points_share_start_semantics [Mul G] [One G] [SMul G V] [Add V] [Sub V]
    (sc : Scipy α G) (e : Entry α) (rot : PathIn G) (h : toRot sc e = .ok rot)
    (hne : ∀ n, e.shape = some (false, n) → 1 ≤ n)
    (anchor : Option (PathIn V)) (start : Option Int) (o : Obj G V)
    (hpos : o.pos ≠ []) (hlen : o.ori.length = o.pos.length) (ha : ∀ a, anchor = some a → a.WF) (i : Nat) :
    ∃ shape, e.shape = some shape ∧
      rotWindow rot anchor o.pos.length start = shapeWindow shape anchor o.pos.length start ∧
      ((applyRotation rot anchor start none o).pos[i]?, (applyRotation rot anchor start none o).ori[i]?) =
        rotateAt rot anchor start o.pos o.ori i := by
  have hs := toRot_shape sc e rot h
  have hr : rot.WF := PathIn.WF_of_shape rot (fun hsc => hne rot.lenip (by rw [hs, hsc]))
  refine ⟨_, hs, ?_, rotate_refines_spec rot anchor start o hpos hlen hr ha i⟩
  cases rot with
  | scalar x => rfl
  | vector xs => rfl

/-- C09(l) **paths_equal_length_always**: in every state reachable by any finite history over the FULL operation set —
move / rotate / the six rotate_from_* entry points / position= / orientation= / reset_path / rejected calls / add /
remove, each addressed to ANY node of ANY collection tree (objects and nested collections) — every object's position and
orientation paths have equal length ≥ 1 (objects that are added must themselves be in such a state). -/
theorem paths_equal_length_always [Mul G] [Inv G] [One G] [SMul G V] [Add V] [Sub V] [Zero V]
    (sc : Scipy α G) (t : Node G V) (ops : List (HOp α G V)) (h : t.All Obj.Inv)
    (hadd : ∀ a c, HOp.add a c ∈ ops → c.All Obj.Inv) :
    (ops.foldl (Node.hstep sc) t).All Obj.Inv := by
  induction ops generalizing t with
  | nil => exact h
  | cons op ops ih =>
    refine ih _ (Node.hstep_inv sc t op h ?_) (fun a c hc => hadd a c (List.mem_cons_of_mem _ hc))
    intro a c hop
    exact hadd a c (by rw [hop]; exact List.mem_cons_self)

/-- C09(m) **the common path length of a history in closed form**: a collection tree whose members share the path length
`N ≥ 1`; any history over the full operation set with operations addressed to ANY node (an operation addressed to a
descendant keeping the length: `AdmissibleAt`).  Afterwards every object of the tree has position and orientation paths of
length exactly `histLen sc N ops` — the fold of the documented per-operation lengths (`Op.newLen`: the padding window's
`newLen` for move / rotate / rotate_from_*, the input length for the setters, 1 for reset_path, unchanged for rejected calls,
add, remove) — and that length is ≥ 1. -/
theorem history_common_length [Group G] [AddCommGroup V] [DistribMulAction G V]
    (sc : Scipy α G) (t : Node G V) (N : Nat) (hN : 1 ≤ N) (hU : t.UniformLen N) (ops : List (HOp α G V))
    (hadm : AdmissibleAt sc N ops) :
    (∀ d ∈ (ops.foldl (Node.hstep sc) t).objs, d.pos.length = histLen sc N ops ∧ d.ori.length = histLen sc N ops) ∧
    1 ≤ histLen sc N ops ∧ (ops.foldl (Node.hstep sc) t).All Obj.Inv := by
  obtain ⟨_, h2, h3⟩ := absH_history sc ops t N hN hU hadm
  exact ⟨h2, h3, Node.uniform_all_inv h3 h2⟩

-- non-vacuity: scipy's shape rule as modelled — one angle for a one-letter sequence and W angles for W letters are ONE
-- rotation, an (n, W) array is n rotations; a 1-D array of n angles for a one-letter sequence is n rotations (the
-- documented vector input; since repo fix 96c592d magpylib reshapes it to (n, 1) — scipy 1.18 alone refused it); 'xx' is refused
example : (Entry.euler (.num (90 : ℝ)) "z" true).shape = some (true, 1) := by decide
example : (Entry.euler (.arr1 [(90 : ℝ), 0, 0]) "xyz" true).shape = some (true, 1) := by decide
example : (Entry.euler (.arr2 [[(90 : ℝ), 0], [0, 90]]) "XY" true).shape = some (false, 2) := by decide
example : (Entry.euler (.arr1 [(90 : ℝ), 180]) "z" true).shape = some (false, 2) := by decide
example : (Entry.euler (.arr1 [(90 : ℝ)]) "z" true).shape = some (false, 1) := by decide
example : (Entry.euler (.arr1 [(90 : ℝ), 180]) "xx" true).shape = none := by decide
example : (Entry.rotvec (.vector [(⟨0, 0, 90⟩ : V3 ℝ)]) true).shape = some (false, 1) := rfl

/-! #### AUDIT2 additions -/

/-- AUDIT2, C09(j'): **the composition order of a multi-axis Euler sequence, as the model has it** (the only place where the
"equivalent rotation" of `rotate_from_euler` is more than scipy's opaque single-set conversion): extrinsic `'xyz'` with angles
`(a, b, c)` is `R_z(c) · R_y(b) · R_x(a)` (later axis on the left), intrinsic `'XYZ'` is `R_x(a) · R_y(b) · R_z(c)` (later axis
on the right) — written with the bare `Mul` / `One` the model uses, hence the trailing / leading `1`; and which sequences
scipy's check accepts.  (Evaluated, not assumed; that scipy composes in this order is what the `euler:*` rows of the `path`
stream compare.) -/
theorem euler_composition_order [Mul G] [One G] (f : V3 α → G) (a b c : α) :
    eulerOne f false [0, 1, 2] [a, b, c] =
      f (axisRotvec 2 c) * (f (axisRotvec 1 b) * (f (axisRotvec 0 a) * 1)) ∧
    eulerOne f true [0, 1, 2] [a, b, c] =
      ((1 * f (axisRotvec 0 a)) * f (axisRotvec 1 b)) * f (axisRotvec 2 c) ∧
    parseSeq "xyz" = some (false, [0, 1, 2]) ∧ parseSeq "XYZ" = some (true, [0, 1, 2]) ∧
    parseSeq "zx" = some (false, [2, 0]) ∧ parseSeq "xx" = none ∧ parseSeq "xY" = none ∧ parseSeq "" = none ∧
    parseSeq "xyzx" = none ∧ parseSeq "a" = none :=
  ⟨rfl, rfl, by decide, by decide, by decide, by decide, by decide, by decide, by decide, by decide⟩

/-- AUDIT2: **C09(l) on the driver's carrier** — an instance of `paths_equal_length_always` (bare operation classes, so it
applies verbatim to `M3 Int` / `V3 Int` with any number type for the raw arguments; the driver uses `Float`) -/
theorem paths_equal_length_always_on_driver_carrier
    (sc : Scipy α (M3 Int)) (t : Node (M3 Int) (V3 Int)) (ops : List (HOp α (M3 Int) (V3 Int)))
    (h : t.All Obj.Inv) (hadd : ∀ a c, HOp.add a c ∈ ops → c.All Obj.Inv) :
    (ops.foldl (Node.hstep sc) t).All Obj.Inv :=
  paths_equal_length_always sc t ops h hadd
end entryPoints

-- AUDIT2 non-vacuity: `entry_points_share_start_semantics` APPLIED (the `decide` examples above only evaluate `Entry.shape`):
-- a concrete `Scipy` on the reflection group ℤˣ, `rotate_from_euler((90, 0), 'z', degrees=False)` (1-D array about one axis
-- = vector input of 2), a per-step anchor of 3 entries, `start = -5` (reaches in front of the path of length 2): every
-- hypothesis (`toRot = ok`, non-empty vector input, object state, anchor WF) is discharged
section entryPointsExample
open RotFrom
/-- a concrete single-set conversion for the example (ℤˣ: turn by π ≙ −1) -/
noncomputable def scEx : Scipy ℝ ℤˣ :=
  ⟨fun v => if v.z = 0 then 1 else -1, fun _ => some 1, fun _ => 1, fun _ => none⟩

example (i : Nat) :
    ∃ shape, (Entry.euler (.arr1 [(90 : ℝ), 0]) "z" false).shape = some shape ∧ shape = (false, 2) ∧
      rotWindow (PathIn.vector [(-1 : ℤˣ), 1]) (some (.vector [(7 : ℤ), 8, 9])) 2 (some (-5)) =
        shapeWindow shape (some (.vector [(7 : ℤ), 8, 9])) 2 (some (-5)) ∧
      ((applyRotation (PathIn.vector [(-1 : ℤˣ), 1]) (some (.vector [(7 : ℤ), 8, 9])) (some (-5)) none ⟨[1, 2], [1, -1]⟩).pos[i]?,
       (applyRotation (PathIn.vector [(-1 : ℤˣ), 1]) (some (.vector [(7 : ℤ), 8, 9])) (some (-5)) none ⟨[1, 2], [1, -1]⟩).ori[i]?) =
        rotateAt (PathIn.vector [(-1 : ℤˣ), 1]) (some (.vector [(7 : ℤ), 8, 9])) (some (-5)) [1, 2] [1, -1] i := by
  have h : toRot scEx (Entry.euler (.arr1 [(90 : ℝ), 0]) "z" false) = .ok (.vector [(-1 : ℤˣ), 1]) := by
    have hp : parseSeq "z" = some (false, [2]) := by decide
    simp only [toRot, hp, eulerRows, List.length_singleton, if_true, List.map, PathIn.map, eulerOne, List.zip_cons_cons,
      List.zip_nil_right, List.foldl_cons, List.foldl_nil, scEx, axisRotvec, Angax.toRad]
    norm_num
  obtain ⟨shape, hs, hw, hr⟩ := entry_points_share_start_semantics scEx _ _ h
    (by intro n hn; have : (Entry.euler (.arr1 [(90 : ℝ), 0]) "z" false).shape = some (false, 2) := by decide
        rw [this] at hn; cases hn; decide)
    (some (.vector [(7 : ℤ), 8, 9])) (some (-5)) (⟨[1, 2], [1, -1]⟩ : Obj ℤˣ ℤ) (by simp) rfl
    (by intro a ha; cases ha; simp [PathIn.WF]) i
  have : (Entry.euler (.arr1 [(90 : ℝ), 0]) "z" false).shape = some (false, 2) := by decide
  rw [this] at hs
  cases hs
  exact ⟨_, rfl, rfl, hw, hr⟩
end entryPointsExample

/-! ### on the carrier the driver computes with (AUDIT X1)

Every theorem of this file about `move` / `rotate` / the setters / histories is stated with the bare operation
classes (`[Mul G] [SMul G V] [Add V] [Sub V]` …), not over a `Group`: they apply *verbatim* to the carrier the
driver computes with (`M3 Int`, `V3 Int`, instances of Model/Basic.lean), for arbitrary integer matrices — no
group law is used by the path semantics.  Recorded here as explicit instances; in addition, on octahedral
matrices the driver's evaluation is the evaluation at the group `Oct` (Lemmas/OctaCarrier.lean), which is what
C10 needs. -/
section driverCarrier

/-- **C09(b) on the driver's carrier** — an instance of `rotate_refines_spec`; no hypothesis on the matrices -/
theorem rotate_refines_spec_on_driver_carrier (rot : PathIn (M3 Int)) (anchor : Option (PathIn (V3 Int)))
    (start : Option Int) (o : ObjZ) (hne : o.pos ≠ []) (hlen : o.ori.length = o.pos.length)
    (hr : rot.WF) (ha : ∀ a, anchor = some a → a.WF) (i : Nat) :
    ((applyRotation rot anchor start none o).pos[i]?,
     (applyRotation rot anchor start none o).ori[i]?) =
      rotateAt rot anchor start o.pos o.ori i :=
  rotate_refines_spec rot anchor start o hne hlen hr ha i

/-- **C09(c) on the driver's carrier** — an instance of `lengths_equal_ge1` -/
theorem lengths_equal_ge1_on_driver_carrier (t : Node (M3 Int) (V3 Int)) (ops : List (Op (M3 Int) (V3 Int)))
    (h : t.All Obj.Inv) : (ops.foldl Node.step t).All Obj.Inv :=
  lengths_equal_ge1 t ops h

/-- the driver's `rotate` on octahedral data is the inclusion of `rotate` evaluated at the group `Oct`:
rotations compose as group elements (`R_k * old` with the group product) -/
theorem rotate_on_driver_carrier_is_group_rotate (rot : PathIn Oct) (anchor : Option (PathIn (V3 Int)))
    (start : Option Int) (pp : Option (List (V3 Int))) (o : Obj Oct (V3 Int)) :
    applyRotation rot.toM3 anchor start pp o.toM3 = (applyRotation rot anchor start pp o).toM3 :=
  applyRotation_at_Oct_eq_at_M3Int rot anchor start pp o

-- non-vacuity: 90° about z about the anchor (1,0,0), appended (vector input, start=auto) to a path of length 1:
-- evaluated as the driver evaluates it
open Level2.DriverExample in
example : applyRotation (G := M3 Int) (V := V3 Int) (.vector [rotZ90]) (some (.scalar ⟨1, 0, 0⟩)) none none
    ⟨[⟨2, 0, 0⟩], [rotX90]⟩ = ⟨[⟨2, 0, 0⟩, ⟨1, 1, 0⟩], [rotX90, rotZ90 * rotX90]⟩ := by decide
open Level2.DriverExample in
example : (⟨[⟨2, 0, 0⟩], [rotX90]⟩ : ObjZ).pos ≠ [] ∧ (PathIn.vector [rotZ90]).WF := ⟨by simp, by simp [PathIn.WF]⟩
end driverCarrier

end MagpyVerif.C09
