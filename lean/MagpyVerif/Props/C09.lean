/-
Props/C09.lean — property theorems for C09 (move/rotate and the pose setters follow the
documented path semantics).  Only property statements live here; helpers are in Lemmas/.
-/
import MagpyVerif.Lemmas.Path
import MagpyVerif.Lemmas.Tree
namespace MagpyVerif.C09
open MagpyVerif Gen Spec
variable {G V : Type}

/-- C09(a): `move` — every entry of the new position path is the documented one
(all `start ∈ ℤ ∪ {auto}`, all path lengths ≥ 1, scalar and vector input of any length);
the orientation path is only edge-padded. -/
theorem move_refines_spec [Add V] (inp : PathIn V) (start : Option Int) (o : Obj G V)
    (hne : o.pos ≠ []) (hlen : o.ori.length = o.pos.length) (i : Nat) :
    (applyMove inp start o).pos[i]? = applyAt (fun d x => x + d) inp start o.pos i ∧
    (applyMove inp start o).ori[i]? =
      baseAt o.ori (window inp.isScalar o.pos.length inp.lenip start) i :=
  applyMove_at inp start o hne hlen i

/-- C09(b): `rotate` on a childless or top-level object — orientation `R_k * old`, position
`R_k (p − a_k) + a_k` (unchanged when no anchor is given), with rotation and anchor inputs
broadcast against each other, for every `start`, every input length and every anchor form. -/
theorem rotate_refines_spec [Mul G] [SMul G V] [Add V] [Sub V]
    (rot : PathIn G) (anchor : Option (PathIn V)) (start : Option Int) (o : Obj G V)
    (hne : o.pos ≠ []) (hlen : o.ori.length = o.pos.length)
    (hr : rot.WF) (ha : ∀ a, anchor = some a → a.WF) (i : Nat) :
    ((applyRotation rot anchor start none o).pos[i]?,
     (applyRotation rot anchor start none o).ori[i]?) =
      rotateAt rot anchor start o.pos o.ori i :=
  applyRotation_at rot anchor start o hne hlen hr ha i

/-- C09(c): over every finite history of move / rotate / rotate_from_* / position= /
orientation= / reset_path (and rejected calls) applied to any node of any collection tree,
every object's position and orientation paths keep equal length ≥ 1. -/
theorem lengths_equal_ge1 [Mul G] [Inv G] [One G] [SMul G V] [Add V] [Sub V] [Zero V]
    (t : Node G V) (ops : List (Op G V)) (h : t.All Obj.Inv) :
    (ops.foldl Node.step t).All Obj.Inv := by
  induction ops generalizing t with
  | nil => exact h
  | cons op ops ih => exact ih _ (Node.step_inv t op h)

/-- C09(d): the position setter stores the input and edge-pads / end-slices the orientation
path to the same length (entry `i` = old entry `i + (N−M)` when slicing, clamped when padding);
the orientation setter does the same to the position path. -/
theorem setters_pad_or_slice (o : Obj G V) (hq : o.ori ≠ []) (hp : o.pos ≠ [])
    (ps : List V) (qs : List G) (i : Nat) :
    (setPositionObj ps o).pos = ps ∧
    (setPositionObj ps o).ori[i]? =
      (if i < ps.length then
        (if ps.length ≤ o.ori.length then o.ori[i + (o.ori.length - ps.length)]?
         else o.ori[min i (o.ori.length - 1)]?)
       else none) ∧
    (setOrientationObj qs o).ori = qs ∧
    (setOrientationObj qs o).pos[i]? =
      (if i < qs.length then
        (if qs.length ≤ o.pos.length then o.pos[i + (o.pos.length - qs.length)]?
         else o.pos[min i (o.pos.length - 1)]?)
       else none) :=
  ⟨rfl, getElem?_padSlice _ _ hq i, rfl, getElem?_padSlice _ _ hp i⟩

/-- C09(e): a rejected call changes nothing (model level: the state machine keeps the tree;
that the real validators raise *before* any mutation is what the `path` correspondence stream
checks on every rejected operation, including the empty position / orientation path). -/
theorem rejected_changes_nothing [Mul G] [Inv G] [One G] [SMul G V] [Add V] [Sub V] [Zero V]
    (t : Node G V) (a : List Nat) :
    t.step .rejected = t ∧ t.step (.setPos a []) = t ∧ t.step (.setOri a []) = t :=
  ⟨rfl, rfl, rfl⟩

/-- C09(f): `start='auto'` is 0 for scalar input and `len(path)` for vector input, negative
`start` counts from the end — the generated `path_padding_param` realises the documented window
for every integer `start`, every old length and every input length. -/
theorem padding_realises_window (scalar : Bool) (n l : Nat) (start : Option Int)
    (hl : scalar = true → l = 1) :
    let r := pathPaddingParam scalar n l start
    let w := window scalar n l start
    (padOf r.1).1 = w.b ∧ r.2.toNat = w.s0 ∧ 0 ≤ r.2 ∧
    n + (padOf r.1).1 + (padOf r.1).2 = w.newLen ∧ w.s0 + l ≤ w.newLen :=
  pathPaddingParam_spec scalar n l start hl

-- non-vacuity: the hypotheses are met by concrete states, and the window is the documented one
example : (Node.mk (G := Int) (V := Int) ⟨[1, 2], [0, 0]⟩ [Node.mk ⟨[5], [1]⟩ []]).All Obj.Inv := by
  refine .mk ⟨rfl, by decide⟩ ?_
  intro c hc
  simp at hc
  subst hc
  exact .mk ⟨rfl, by decide⟩ (by simp)
example : window false 3 2 none = ⟨0, 3, 5, 5⟩ := by decide
example : window false 3 2 (some (-5)) = ⟨2, 0, 5, 2⟩ := by decide
example : window true 3 1 (some 4) = ⟨0, 4, 5, 5⟩ := by decide
example : window true 3 1 (some (-1)) = ⟨0, 2, 3, 3⟩ := by decide
example : (applyMove (G := Int) (PathIn.vector [10, 20]) (some (-4)) ⟨[1, 2, 3], [0, 0, 0]⟩).pos
    = [11, 21, 2, 3] := by decide

end MagpyVerif.C09
