/-
Props/C09.lean — property theorems for C09 (move/rotate and the pose setters follow the
documented path semantics).  Only property statements live here; helpers are in Lemmas/.
-/
import MagpyVerif.Lemmas.Path
namespace MagpyVerif.C09
open MagpyVerif Gen Spec
variable {G V : Type}

/-- C09(a): `move` — every entry of the new position path is the documented one
(all `start ∈ ℤ ∪ {auto}`, all path lengths ≥ 1, scalar and vector input of any length);
the orientation path is only edge-padded. -/
theorem move_refines_spec [Add V] (inp : PathIn V) (start : Option Int) (o : Obj G V)
    (hne : o.pos ≠ []) (hlen : o.ori.length = o.pos.length) (i : Nat) :
    (applyMove inp start o).pos[i]? = applyAt (fun d x => x + d) inp start o.pos i ∧
    (applyMove inp start o).ori[i]? =
      baseAt o.ori (window inp.isScalar o.pos.length inp.lenip start) i := by
  have hone : o.ori ≠ [] := by
    intro h; rw [h] at hlen; exact hne (List.length_eq_zero_iff.mp hlen.symm)
  obtain ⟨hb, hs, hs0, hN, hfit⟩ :=
    pathPaddingParam_spec inp.isScalar o.pos.length inp.lenip start inp.lenip_of_scalar
  simp only [applyMove, pathPadding, applyAt, baseAt]
  generalize (padOf (pathPaddingParam inp.isScalar (↑o.pos.length) (↑inp.lenip) start).fst).fst = pb at *
  generalize (padOf (pathPaddingParam inp.isScalar (↑o.pos.length) (↑inp.lenip) start).fst).snd = pe at *
  generalize (pathPaddingParam inp.isScalar (↑o.pos.length) (↑inp.lenip) start).snd.toNat = st at *
  subst hb hs
  constructor
  · rw [getElem?_mapSlice, getElem?_edgePad _ _ _ hne]
    simp only [length_edgePad _ _ _ hne]
    have e1 : (window inp.isScalar o.pos.length inp.lenip start).b + o.pos.length + pe
        = (window inp.isScalar o.pos.length inp.lenip start).newLen := by omega
    rw [e1]
    have e2 : (if inp.isScalar = true then (window inp.isScalar o.pos.length inp.lenip start).newLen
        else (window inp.isScalar o.pos.length inp.lenip start).s0 + inp.lenip)
        = (window inp.isScalar o.pos.length inp.lenip start).stop := by
      simp only [window]
    rw [e2]
    rfl
  · rw [getElem?_edgePad _ _ _ hone, hlen]
    have e1 : (window inp.isScalar o.pos.length inp.lenip start).b + o.pos.length + pe
        = (window inp.isScalar o.pos.length inp.lenip start).newLen := by omega
    simp only [e1]
/-- C09(b): `rotate` on a childless or top-level object — orientation `R_k * old`, position
`R_k (p − a_k) + a_k` (unchanged when no anchor is given), with rotation and anchor inputs
broadcast against each other, for every `start`, every input length and every anchor form. -/
theorem rotate_refines_spec [Mul G] [SMul G V] [Add V] [Sub V]
    (rot : PathIn G) (anchor : Option (PathIn V)) (start : Option Int) (o : Obj G V)
    (hne : o.pos ≠ []) (hlen : o.ori.length = o.pos.length)
    (hr : rot.WF) (ha : ∀ a, anchor = some a → a.WF) (i : Nat) :
    ((applyRotation rot anchor start none o).pos[i]?,
     (applyRotation rot anchor start none o).ori[i]?) =
      rotateAt rot anchor start o.pos o.ori i := by
  cases anchor with
  | none =>
    simp only [applyRotation]
    rw [applyRotationAligned_at _ _ _ _ hne hlen]
    simp only [alignedAt, rotateAt, Bool.and_true]
    have hw : window rot.isScalar o.pos.length rot.lenip start
        = window rot.isScalar o.pos.length (max rot.len0 0) start :=
      window_congr _ _ _ _ _ (fun h => by rw [len0_eq_lenip _ h]; simp)
    rw [← hw]
    congr 1
    congr 1
    funext q
    by_cases hin : (window rot.isScalar o.pos.length rot.lenip start).s0 ≤ i ∧
        i < (window rot.isScalar o.pos.length rot.lenip start).stop
    · simp only [hin, and_self, if_true]
      rw [get?_eq_bcast rot _ (fun hsc => by rw [len0_eq_lenip _ hsc]; exact inWin_lt hin hsc)]
      rfl
    · simp only [hin, if_false]
  | some a =>
    obtain ⟨f1, f2, f3⟩ := multiAnchor_facts a rot (ha a rfl) hr
    simp only [applyRotation]
    rw [applyRotationAligned_at _ _ _ _ hne hlen]
    simp only [alignedAt, rotateAt]
    have hw : window (multiAnchor a rot).2.isScalar o.pos.length (multiAnchor a rot).2.lenip start
        = window (rot.isScalar && a.isScalar) o.pos.length (max rot.len0 a.len0) start := by
      rw [f1]
      exact window_congr _ _ _ _ _ f2
    rw [hw]
    congr 1
    · congr 1
      funext p
      by_cases hin : (window (rot.isScalar && a.isScalar) o.pos.length (max rot.len0 a.len0) start).s0 ≤ i ∧
          i < (window (rot.isScalar && a.isScalar) o.pos.length (max rot.len0 a.len0) start).stop
      · simp only [hin, and_self, if_true]
        obtain ⟨g1, g2⟩ := f3 (i - (window (rot.isScalar && a.isScalar) o.pos.length (max rot.len0 a.len0) start).s0)
          (fun hsc => inWin_lt hin hsc)
        rw [g1, g2]
        rfl
      · simp only [hin, if_false]
    · congr 1
      funext q
      by_cases hin : (window (rot.isScalar && a.isScalar) o.pos.length (max rot.len0 a.len0) start).s0 ≤ i ∧
          i < (window (rot.isScalar && a.isScalar) o.pos.length (max rot.len0 a.len0) start).stop
      · simp only [hin, and_self, if_true]
        obtain ⟨g1, g2⟩ := f3 (i - (window (rot.isScalar && a.isScalar) o.pos.length (max rot.len0 a.len0) start).s0)
          (fun hsc => inWin_lt hin hsc)
        rw [g1]
        rfl
      · simp only [hin, if_false]
end MagpyVerif.C09
