/-
Props/C02.lean — B = μ₀H + J everywhere; J = μ₀M; J is the indicator of the body times the
polarization.  Wrapper models: Model/Kernels.lean (the closed-form core is a parameter, so the
statements hold whatever the core returns — at surfaces, edges, corners and for every special
case).  `μ` is an arbitrary non-zero value of mu_0.  Cylinder: the full port of `BHJM_magnet_cylinder`
(Model/Cylinder.lean) is shown to be `wrapCylinder` of its own masks and cores, hence consistent at
every observer, and its inside mask is the closed geometric cylinder (Lemmas/KernCylinder.lean).
-/
import MagpyVerif.Lemmas.KernCylSeg
import MagpyVerif.Lemmas.KernReal
import MagpyVerif.Lemmas.KernelLiterals
import MagpyVerif.Lemmas.KernAlgebra
import MagpyVerif.Lemmas.KernCylinder
import MagpyVerif.Gen.Const
import MagpyVerif.Lemmas.TrimeshInside
namespace MagpyVerif.C02
open MagpyVerif MagpyVerif.Kern

section
variable (μ : ℝ) (hμ : μ ≠ 0)
include hμ

theorem wrapB_consistent (inside general : Bool) (pol core : V3 ℝ) :
    letI := realNum μ
    wrapB .B inside general pol core = vs μ (wrapB .H inside general pol core) + wrapB .J inside general pol core ∧
    wrapB .J inside general pol core = vs μ (wrapB .M inside general pol core) := by
  constructor <;> cases inside <;> cases general <;>
    (apply V3.ext' <;> simp [wrapB, vs, vd, zero3, n] <;> (try field_simp) <;> (try ring))

theorem wrapH_consistent (inside : Bool) (pol core : V3 ℝ) :
    letI := realNum μ
    wrapH .B inside pol core = vs μ (wrapH .H inside pol core) + wrapH .J inside pol core ∧
    wrapH .J inside pol core = vs μ (wrapH .M inside pol core) := by
  constructor <;> cases inside <;>
    (apply V3.ext' <;> simp [wrapH, vs, vd, zero3, n] <;> (try field_simp) <;> (try ring))

theorem wrapCylinder_consistent (inside onEdge : Bool) (pol ax tv : V3 ℝ) :
    letI := realNum μ
    wrapCylinder .B inside onEdge pol ax tv =
      vs μ (wrapCylinder .H inside onEdge pol ax tv) + wrapCylinder .J inside onEdge pol ax tv ∧
    wrapCylinder .J inside onEdge pol ax tv = vs μ (wrapCylinder .M inside onEdge pol ax tv) := by
  constructor <;> cases inside <;> cases onEdge <;>
    (apply V3.ext' <;> simp [wrapCylinder, vs, vd, zero3, n] <;> (try field_simp) <;> (try ring))

theorem wrapSegment_consistent (inside notOnSurf : Bool) (pol core : V3 ℝ) :
    letI := realNum μ
    wrapSegment .B inside notOnSurf pol core =
      vs μ (wrapSegment .H inside notOnSurf pol core) + wrapSegment .J inside notOnSurf pol core ∧
    wrapSegment .J inside notOnSurf pol core = vs μ (wrapSegment .M inside notOnSurf pol core) := by
  constructor <;> cases inside <;> cases notOnSurf <;>
    (apply V3.ext' <;> simp [wrapSegment, vs, vd, zero3, n] <;> (try field_simp) <;> (try ring))

theorem sphere_consistent (d : ℝ) (pol x : V3 ℝ) :
    letI := realNum μ
    bhjmSphere .B d pol x = vs μ (bhjmSphere .H d pol x) + bhjmSphere .J d pol x ∧
    bhjmSphere .J d pol x = vs μ (bhjmSphere .M d pol x) := by
  simp only [bhjmSphere]
  generalize (@Num.lt ℝ (realNum μ) _ _) = out
  constructor <;> cases out <;>
    (apply V3.ext' <;> simp [vs, vd, zero3, n] <;> (try field_simp) <;> (try ring))

theorem dipole_consistent (m x : V3 ℝ) :
    letI := realNum μ
    bhjmDipole .B m x = vs μ (bhjmDipole .H m x) + bhjmDipole .J m x ∧
    bhjmDipole .J m x = vs μ (bhjmDipole .M m x) := by
  constructor <;> (apply V3.ext' <;> simp [bhjmDipole, vs, zero3, n])

/-- J is the body's polarization inside and zero outside: Sphere, with the body `|x| ≤ |d|/2` -/
theorem sphere_j_is_indicator (d : ℝ) (pol x : V3 ℝ) :
    letI := realNum μ
    bhjmSphere .J d pol x = if Kern.norm x ≤ |d| / 2 then pol else zero3 := by
  letI := realNum μ
  simp only [bhjmSphere, lt_real, abs_real, n, ofNat_real, Nat.cast_ofNat]
  by_cases h : |d| / 2 < Kern.norm x
  · have h' : ¬ Kern.norm x ≤ |d| / 2 := not_le.mpr h
    simp only [h, h', decide_true, if_true, if_false]
  · have h' : Kern.norm x ≤ |d| / 2 := not_lt.mp h
    simp only [h, h', decide_false, if_true]
    rfl

/-- C02 (Triangle): `BHJM_triangle` reports J = M = 0 (a charged sheet has no volume) and
H = B/μ₀, so B = μ₀H + J and J = μ₀M at every observer -/
theorem triangle_consistent (v0 v1 v2 pol x : V3 ℝ) :
    letI := realNum μ
    bhjmTriangle .B v0 v1 v2 pol x = vs μ (bhjmTriangle .H v0 v1 v2 pol x) + bhjmTriangle .J v0 v1 v2 pol x ∧
    bhjmTriangle .J v0 v1 v2 pol x = vs μ (bhjmTriangle .M v0 v1 v2 pol x) := by
  simp only [bhjmTriangle]
  generalize @triangleB ℝ (realNum μ) v0 v1 v2 pol x = t
  constructor <;> (apply V3.ext' <;> simp [vs, vd, zero3, n] <;> field_simp)

/-- C02 (Tetrahedron): B = μ₀H + J and J = μ₀M for **every** observer, inside or outside, of
either handedness of the vertex order.  The J/M branch runs the inside test on the vertices as
given, the B branch on the chirality-fixed vertices: the two tests agree
(`tetraInside_chirality`), which is what makes the `+ pol` of the B branch equal to J. -/
theorem tetra_consistent (v0 v1 v2 v3 pol x : V3 ℝ) :
    letI := realNum μ
    bhjmTetra .B v0 v1 v2 v3 pol x = vs μ (bhjmTetra .H v0 v1 v2 v3 pol x) + bhjmTetra .J v0 v1 v2 v3 pol x ∧
    bhjmTetra .J v0 v1 v2 v3 pol x = vs μ (bhjmTetra .M v0 v1 v2 v3 pol x) := by
  simp only [tetra_wrapH' μ]
  exact wrapH_consistent μ hμ _ _ _

/-- C02 (Circle): J = M = 0, and B is μ₀ times H — as `Option`s (B is computed iff H is), hence
B = μ₀H + J whenever the result is `some` (both cel iterations returned) -/
theorem circle_consistent (fuel : Nat) (d cur : ℝ) (x : V3 ℝ) :
    letI := realNum μ
    bhjmCircle fuel .J d cur x = some zero3 ∧ bhjmCircle fuel .M d cur x = some zero3 ∧
    bhjmCircle fuel .B d cur x = (bhjmCircle fuel .H d cur x).map (vs μ) ∧
    ∀ b h, bhjmCircle fuel .B d cur x = some b → bhjmCircle fuel .H d cur x = some h →
      b = vs μ h + zero3 ∧ (zero3 : V3 ℝ) = vs μ zero3 := by
  refine ⟨rfl, rfl, rfl, ?_⟩
  intro b h hb hh
  rw [bhjmCircle_B_eq, hh] at hb
  simp only [Option.map_some, Option.some.injEq] at hb
  subst hb
  exact ⟨(add_zero3 μ _).symm, (vs_zero3 μ μ).symm⟩
/-- C02 (Cylinder): the ported `BHJM_magnet_cylinder` (Model/Cylinder.lean: cylinder coordinates,
division by r0, all masks, transversal and axial contributions, rotation back, inside terms, on-edge
rule) **is** the abstract dispatch `wrapCylinder` applied to the code's own inside / on-edge masks and
to the two Cartesian core contributions `cylCoreAx` (axial kernel · pol_z) and `cylCoreTv`
(diametral kernel · pol_xy): J and M always, B and H whenever the elliptic integrals of the cores
return (`none` = a `cel0` call failed), and B is computed iff H is. -/
theorem cylinder_is_wrapCylinder (fuel : Nat) (dim : ℝ × ℝ) (pol x : V3 ℝ) :
    letI := realNum μ
    let r0 := dim.1 / 2
    let z0 := dim.2 / 2 / r0
    let r := Real.sqrt (x.x * x.x + x.y * x.y) / r0
    let z := x.z / r0
    let phi := Complex.arg ⟨x.x, x.y⟩
    let m := cylMasks z0 r z
    (∀ ax tv, bhjmCylinder fuel .J dim pol x = some (wrapCylinder .J m.inside m.onEdge pol ax tv) ∧
      bhjmCylinder fuel .M dim pol x = some (wrapCylinder .M m.inside m.onEdge pol ax tv)) ∧
    (∀ f, f = Field.B ∨ f = Field.H → bhjmCylinder fuel f dim pol x =
      (cylCoreTv μ fuel z0 r z phi pol).bind fun tv => (cylCoreAx μ fuel z0 r z phi pol).map fun ax =>
        wrapCylinder f m.inside m.onEdge pol ax tv) := by
  refine ⟨fun ax tv => ?_, fun f hf => ?_⟩
  · exact bhjmCylinderRow_JM μ fuel _ _ _ (Complex.arg ⟨x.x, x.y⟩) pol ax tv
  · exact bhjmCylinderRow_eq_wrap μ fuel f hf _ _ _ _ pol

/-- C02 (Cylinder): B = μ₀H + J and J = μ₀M for **every** observer of `BHJM_magnet_cylinder` — inside,
outside, on the hull, on the bases, on the edge (B = 0, H = −J/μ₀ there), on the axis, for axial,
transversal, mixed and zero polarization: J and M are always returned; B is returned iff H is
(the same `cel0` calls), and then the identity holds. -/
theorem cylinder_consistent (fuel : Nat) (dim : ℝ × ℝ) (pol x : V3 ℝ) :
    letI := realNum μ
    ∃ j m, bhjmCylinder fuel .J dim pol x = some j ∧ bhjmCylinder fuel .M dim pol x = some m ∧ j = vs μ m ∧
      (bhjmCylinder fuel .B dim pol x).isSome = (bhjmCylinder fuel .H dim pol x).isSome ∧
      ∀ b h, bhjmCylinder fuel .B dim pol x = some b → bhjmCylinder fuel .H dim pol x = some h →
        b = vs μ h + j := by
  let _ := realNum μ
  obtain ⟨hJM, hBH⟩ := cylinder_is_wrapCylinder μ hμ fuel dim pol x
  obtain ⟨hJ, hM⟩ := hJM ⟨0, 0, 0⟩ ⟨0, 0, 0⟩
  have hB := hBH .B (Or.inl rfl)
  have hH := hBH .H (Or.inr rfl)
  refine ⟨_, _, hJ, hM, (wrapCylinder_consistent μ hμ _ _ pol _ _).2, ?_, ?_⟩
  · rw [hB, hH]
    rcases cylCoreTv μ fuel _ _ _ _ pol with _ | tv
    · rfl
    · rcases cylCoreAx μ fuel _ _ _ _ pol with _ | ax <;> rfl
  · intro b h
    rw [hB, hH]
    rcases cylCoreTv μ fuel _ _ _ _ pol with _ | tv
    · intro eb; simp at eb
    · rcases cylCoreAx μ fuel _ _ _ _ pol with _ | ax
      · intro eb; simp at eb
      · intro eb eh
        simp only [Option.bind_some, Option.map_some, Option.some.injEq] at eb eh
        subst eb eh
        exact (wrapCylinder_consistent μ hμ _ _ pol ax tv).1

/-- C02 (Cylinder): J is the polarization on the closed geometric cylinder `|z| ≤ h/2 ∧ √(x²+y²) ≤ d/2`
and zero outside — the code's mask (comparisons of the quotients by r0) is the geometric body, for
every positive diameter -/
theorem cylinder_j_is_indicator (fuel : Nat) (d h : ℝ) (hd : 0 < d) (pol x : V3 ℝ) :
    letI := realNum μ
    bhjmCylinder fuel .J (d, h) pol x =
      some (if |x.z| ≤ h / 2 ∧ Real.sqrt (x.x * x.x + x.y * x.y) ≤ d / 2 then pol else zero3) := by
  let _ := realNum μ
  have hr0 : (0 : ℝ) < d / 2 := by positivity
  have key := cylMasks_inside_iff μ (d / 2) (h / 2) (Real.sqrt (x.x * x.x + x.y * x.y)) x.z hr0
  unfold bhjmCylinder bhjmCylinderRow
  simp only [Option.some.injEq]
  split_ifs with h1 h2 h2
  · rfl
  · exact absurd (key.mp h1) h2
  · exact absurd (key.mpr h2) h1
  · rfl
end

-- non-vacuity (μ = 1): a left-handed tetrahedron with an observer inside — the chirality swap
-- happens and J = pol ≠ 0 there, so the agreement of the two inside tests is exercised
example : letI := realNum 1
    tetraChirality (⟨0, 0, 0⟩ : V3 ℝ) ⟨1, 0, 0⟩ ⟨0, 0, 1⟩ ⟨0, 1, 0⟩ = (⟨0, 0, 0⟩, ⟨1, 0, 0⟩, ⟨0, 1, 0⟩, ⟨0, 0, 1⟩) ∧
    bhjmTetra .J (⟨0, 0, 0⟩ : V3 ℝ) ⟨1, 0, 0⟩ ⟨0, 0, 1⟩ ⟨0, 1, 0⟩ ⟨0, 0, 1⟩ ⟨1 / 4, 1 / 4, 1 / 4⟩ = ⟨0, 0, 1⟩ := by
  constructor
  · simp [tetraChirality, det3, n]
  · simp [bhjmTetra, tetraInside, det3, n]
    norm_num
-- on-axis Circle: the result is `some`, H ≠ 0
example : letI := realNum 1
    bhjmCircle 200 .H 2 1 (⟨0, 0, 0⟩ : V3 ℝ) = some ⟨0, 0, 1 / 2⟩ := by
  simp [bhjmCircle, n]

-- Cylinder (μ = 1): an observer exactly on the edge of the cylinder of diameter 2 and height 2 — the on-edge rule
-- fires (no elliptic integral is evaluated: fuel 0 suffices): B = 0, H = −J/μ₀, J = pol ≠ 0
example : letI := realNum 1
    bhjmCylinder 0 .B (2, 2) ⟨0, 0, 1⟩ (⟨1, 0, 1⟩ : V3 ℝ) = some ⟨0, 0, 0⟩ ∧
    bhjmCylinder 0 .H (2, 2) ⟨0, 0, 1⟩ (⟨1, 0, 1⟩ : V3 ℝ) = some ⟨0, 0, -1⟩ ∧
    bhjmCylinder 0 .J (2, 2) ⟨0, 0, 1⟩ (⟨1, 0, 1⟩ : V3 ℝ) = some ⟨0, 0, 1⟩ := by
  refine ⟨?_, ?_, ?_⟩ <;>
    simp [bhjmCylinder, bhjmCylinderRow, cylMasks, isclose, n, vd]

/-- FULL (`mu0_single`): every place where a value for mu_0 enters the package is the exported
constant.  False on the current tree: the two magnetization/polarization setters spell out
4π·1e-7 (known finding, pinned by an existing test).  Proved: everywhere else it is the
exported scipy constant, and the spelled-out literals are exactly those two sites — a new
literal anywhere breaks this `decide`. -/
theorem mu0_single_partial :
    (Gen.Const.mu0Sites.filter (fun s => s.2.2.1 != "scipy")).map (fun s => s.1) =
      ["magpylib/_src/obj_classes/class_BaseExcitations.py", "magpylib/_src/obj_classes/class_BaseExcitations.py"] := by
  decide

/-- the field modules all take mu_0 from scipy (= `magpylib.mu_0`) -/
theorem mu0_fields_use_exported :
    (Gen.Const.mu0Sites.filter (fun s => s.2.2.2)).all (fun s => s.2.2.1 == "scipy") = true := by
  decide

/-! ### TriangularMesh with the ray-casting inside test -/

/-- C02 (TriangularMesh, one row of `BHJM_magnet_trimesh`, any inside test): B = μ·H + J and J = μ·M, because the B, J
and M branches add the polarization under one and the same verdict `inside (mesh) (observer)` and H never does. -/
theorem trimesh_row_consistent (μ : ℝ) (hμ : μ ≠ 0) {M : Type} (meshId : MeshRow ℝ → M) (inside : M → V3 ℝ → Bool)
    (r : MeshRow ℝ) :
    letI := realNum μ
    bhjmTrimeshRow .B meshId inside r = vs μ (bhjmTrimeshRow .H meshId inside r) + bhjmTrimeshRow .J meshId inside r ∧
    bhjmTrimeshRow .J meshId inside r = vs μ (bhjmTrimeshRow .M meshId inside r) := by
  constructor <;> cases h : inside (meshId r) r.obs <;>
    (apply V3.ext' <;> simp [bhjmTrimeshRow, h, vs, vd, zero3, n] <;> (try field_simp) <;> (try ring))

/-- C02 (TriangularMesh as computed): the whole batch function with the ported `mask_inside_trimesh` satisfies
B = μ₀H + J and J = μ₀M row by row (`C06.trimesh_batch_rowwise_ray_test` reduces the batch to rows). -/
theorem trimesh_ray_test_consistent (r : MeshRow ℝ) :
    bhjmTrimeshRow .B (fun r => r.faces) maskInsideTrimesh r =
      vs mu0R (bhjmTrimeshRow .H (fun r => r.faces) maskInsideTrimesh r) +
        bhjmTrimeshRow .J (fun r => r.faces) maskInsideTrimesh r ∧
    bhjmTrimeshRow .J (fun r => r.faces) maskInsideTrimesh r =
      vs mu0R (bhjmTrimeshRow .M (fun r => r.faces) maskInsideTrimesh r) :=
  trimesh_row_consistent mu0R mu0R_pos.ne' _ _ r

/-- FULL (not true of the code): J of a TriangularMesh is the polarization at every point inside the body.
**Witness that the ray test is not the geometric inside predicate**: the point
x = (0.120012345, 0.059923456, 0.574932109) lies strictly inside the unit tetrahedron (all four barycentric coordinates
positive — the Tetrahedron class's own `point_inside` says inside), yet `mask_inside_trimesh` answers "outside", so J = 0
there: x sits on the plane through the start point of the test ray and the edge (0,0,0)–(0,0,1); the ray passes through
that edge, BOTH faces sharing it count a crossing (pass-through-boundary), and the parity comes out even.  Reproduced on
the real code (`TriangularMesh.getJ` = 0, `Tetrahedron.getJ` = polarization at this x).  The affected observers form a
slab of relative thickness ~1e-13 around each such plane. -/
theorem trimesh_ray_test_misses_interior_point :
    tetraInside (⟨0, 0, 0⟩ : V3 ℝ) ⟨1, 0, 0⟩ ⟨0, 1, 0⟩ ⟨0, 0, 1⟩
      ⟨120012345 / 1000000000, 59923456 / 1000000000, 574932109 / 1000000000⟩ = true ∧
    maskInsideTrimesh unitTetra ⟨120012345 / 1000000000, 59923456 / 1000000000, 574932109 / 1000000000⟩ = false ∧
    bhjmTrimeshRow .J (fun r => r.faces) maskInsideTrimesh
      { faces := unitTetra, obs := ⟨120012345 / 1000000000, 59923456 / 1000000000, 574932109 / 1000000000⟩,
        pol := ⟨0, 0, 1⟩ } = zero3 := by
  refine ⟨?_, unitTetra_edge_ray_outside, ?_⟩
  · simp [tetraInside, det3, n]
    norm_num
  · simp only [bhjmTrimeshRow, unitTetra_edge_ray_outside, Bool.false_eq_true, if_false]

-- non-vacuity of the consistency statement with both verdicts: (1/4,1/4,1/4) is found inside (J = polarization) …
example : bhjmTrimeshRow .J (fun r => r.faces) maskInsideTrimesh
    { faces := unitTetra, obs := ⟨1 / 4, 1 / 4, 1 / 4⟩, pol := (⟨0, 0, 1⟩ : V3 ℝ) } = zero3 + ⟨0, 0, 1⟩ := by
  simp only [bhjmTrimeshRow, unitTetra_quarter_inside, if_true]
-- … (3/5,3/5,3/5) outside (J = 0)
example : bhjmTrimeshRow .J (fun r => r.faces) maskInsideTrimesh
    { faces := unitTetra, obs := ⟨3 / 5, 3 / 5, 3 / 5⟩, pol := (⟨0, 0, 1⟩ : V3 ℝ) } = zero3 := by
  simp only [bhjmTrimeshRow, unitTetra_outside_in_box.2, Bool.false_eq_true, if_false]

end MagpyVerif.C02

/-! ### CylinderSegment: the ported `BHJM_cylinder_segment` (translated case functions, Model/CylSeg.lean;
hand-written boundary sum and wrapper, Model/CylSegWrap.lean; tied to the code by the `kern` stream kinds
`cylsegcase`, `cylsegblock`, `cylsegH`, `cylseg` and by the translator's sync check) -/
namespace MagpyVerif.C02
open MagpyVerif MagpyVerif.Kern MagpyVerif.Kern.CylSeg

/-- C02 (CylinderSegment): for the whole ported wrapper — units of the outer radius, angle normalisation,
inside / surface masks, spherical magnetization, the 26-case core, rotation back — with arbitrary special
functions `S` (ellipkinc, ellipeinc, el3_angle are opaque) and any value μ ≠ 0 of mu_0:
J and M are always returned and J = μ₀M; B is returned iff H is (`none` = NaN row: a boundary of the observer
has one of the four case ids the dispatch table does not handle), and then B = μ₀H + J.  Every observer:
inside, outside, on the surface (there B = H = J = M = 0). -/
theorem cylseg_consistent (μ : ℝ) (hμ : μ ≠ 0) (S : SegSpecial) (x : V3 ℝ) (r1 r2 h p1 p2 : ℝ) (pol : V3 ℝ) :
    letI := realNumX μ S
    ∃ j m, bhjmCylSeg .J x r1 r2 h p1 p2 pol = some j ∧ bhjmCylSeg .M x r1 r2 h p1 p2 pol = some m ∧ j = vs μ m ∧
      (bhjmCylSeg .B x r1 r2 h p1 p2 pol).isSome = (bhjmCylSeg .H x r1 r2 h p1 p2 pol).isSome ∧
      ∀ b hh, bhjmCylSeg .B x r1 r2 h p1 p2 pol = some b → bhjmCylSeg .H x r1 r2 h p1 p2 pol = some hh →
        b = vs μ hh + j :=
  bhjmCylSeg_consistent μ hμ S x r1 r2 h p1 p2 pol

-- non-vacuity: the hypothesis on μ holds for the model's mu_0, and the statement has no other hypothesis
example : mu0R ≠ 0 := mu0R_pos.ne'

end MagpyVerif.C02
