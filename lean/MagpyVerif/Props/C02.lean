/-
Props/C02.lean — B = μ₀H + J everywhere; J = μ₀M; J is the indicator of the body times the
polarization.  Wrapper models: Model/Kernels.lean (the closed-form core is a parameter, so the
statements hold whatever the core returns — at surfaces, edges, corners and for every special
case).  `μ` is an arbitrary non-zero value of mu_0.  Cylinder: the full port of `BHJM_magnet_cylinder`
(Model/Cylinder.lean) is shown to be `wrapCylinder` of its own masks and cores, hence consistent at
every observer, and its inside mask is the closed geometric cylinder (Lemmas/KernCylinder.lean).
-/
import MagpyVerif.Lemmas.KernCylSeg
import MagpyVerif.Lemmas.KernReal
import MagpyVerif.Lemmas.KernelLiterals
import MagpyVerif.Lemmas.KernAlgebra
import MagpyVerif.Lemmas.KernCylinder
import MagpyVerif.Lemmas.CylSegInside
import MagpyVerif.Gen.Const
import MagpyVerif.Lemmas.TrimeshInside
import MagpyVerif.Props.C15
import MagpyVerif.Model.Polyline
import MagpyVerif.Model.Excitation
import MagpyVerif.Model.InOut
import MagpyVerif.Lemmas.Level2Compose
import MagpyVerif.Lemmas.OctaCarrier
import Mathlib.Analysis.Real.Pi.Bounds
namespace MagpyVerif.C02
open MagpyVerif MagpyVerif.Kern

section
variable (μ : ℝ) (hμ : μ ≠ 0)
include hμ

theorem wrapB_consistent (inside general : Bool) (pol core : V3 ℝ) :
    letI := realNum μ
    wrapB .B inside general pol core = vs μ (wrapB .H inside general pol core) + wrapB .J inside general pol core ∧
    wrapB .J inside general pol core = vs μ (wrapB .M inside general pol core) := by
  constructor <;> cases inside <;> cases general <;>
    (apply V3.ext' <;> simp [wrapB, vs, vd, zero3, n] <;> (try field_simp) <;> (try ring))

theorem wrapH_consistent (inside : Bool) (pol core : V3 ℝ) :
    letI := realNum μ
    wrapH .B inside pol core = vs μ (wrapH .H inside pol core) + wrapH .J inside pol core ∧
    wrapH .J inside pol core = vs μ (wrapH .M inside pol core) := by
  constructor <;> cases inside <;>
    (apply V3.ext' <;> simp [wrapH, vs, vd, zero3, n] <;> (try field_simp) <;> (try ring))

theorem wrapCylinder_consistent (inside onEdge : Bool) (pol ax tv : V3 ℝ) :
    letI := realNum μ
    wrapCylinder .B inside onEdge pol ax tv =
      vs μ (wrapCylinder .H inside onEdge pol ax tv) + wrapCylinder .J inside onEdge pol ax tv ∧
    wrapCylinder .J inside onEdge pol ax tv = vs μ (wrapCylinder .M inside onEdge pol ax tv) := by
  constructor <;> cases inside <;> cases onEdge <;>
    (apply V3.ext' <;> simp [wrapCylinder, vs, vd, zero3, n] <;> (try field_simp) <;> (try ring))

theorem wrapSegment_consistent (inside notOnSurf : Bool) (pol core : V3 ℝ) :
    letI := realNum μ
    wrapSegment .B inside notOnSurf pol core =
      vs μ (wrapSegment .H inside notOnSurf pol core) + wrapSegment .J inside notOnSurf pol core ∧
    wrapSegment .J inside notOnSurf pol core = vs μ (wrapSegment .M inside notOnSurf pol core) := by
  constructor <;> cases inside <;> cases notOnSurf <;>
    (apply V3.ext' <;> simp [wrapSegment, vs, vd, zero3, n] <;> (try field_simp) <;> (try ring))

theorem sphere_consistent (d : ℝ) (pol x : V3 ℝ) :
    letI := realNum μ
    bhjmSphere .B d pol x = vs μ (bhjmSphere .H d pol x) + bhjmSphere .J d pol x ∧
    bhjmSphere .J d pol x = vs μ (bhjmSphere .M d pol x) := by
  simp only [bhjmSphere]
  generalize (@Num.lt ℝ (realNum μ) _ _) = out
  constructor <;> cases out <;>
    (apply V3.ext' <;> simp [vs, vd, zero3, n] <;> (try field_simp) <;> (try ring))

theorem dipole_consistent (m x : V3 ℝ) :
    letI := realNum μ
    bhjmDipole .B m x = vs μ (bhjmDipole .H m x) + bhjmDipole .J m x ∧
    bhjmDipole .J m x = vs μ (bhjmDipole .M m x) := by
  constructor <;> (apply V3.ext' <;> simp [bhjmDipole, vs, zero3, n])

/-- J is the body's polarization inside and zero outside: Sphere, with the body `|x| ≤ |d|/2` -/
theorem sphere_j_is_indicator (d : ℝ) (pol x : V3 ℝ) :
    letI := realNum μ
    bhjmSphere .J d pol x = if Kern.norm x ≤ |d| / 2 then pol else zero3 := by
  letI := realNum μ
  simp only [bhjmSphere, lt_real, abs_real, n, ofNat_real, Nat.cast_ofNat]
  by_cases h : |d| / 2 < Kern.norm x
  · have h' : ¬ Kern.norm x ≤ |d| / 2 := not_le.mpr h
    simp only [h, h', decide_true, if_true, if_false]
  · have h' : Kern.norm x ≤ |d| / 2 := not_lt.mp h
    simp only [h, h', decide_false, if_true]
    rfl

/-- C02 (Triangle): `BHJM_triangle` reports J = M = 0 (a charged sheet has no volume) and
H = B/μ₀, so B = μ₀H + J and J = μ₀M at every observer -/
theorem triangle_consistent (v0 v1 v2 pol x : V3 ℝ) :
    letI := realNum μ
    bhjmTriangle .B v0 v1 v2 pol x = vs μ (bhjmTriangle .H v0 v1 v2 pol x) + bhjmTriangle .J v0 v1 v2 pol x ∧
    bhjmTriangle .J v0 v1 v2 pol x = vs μ (bhjmTriangle .M v0 v1 v2 pol x) := by
  simp only [bhjmTriangle]
  generalize @triangleB ℝ (realNum μ) v0 v1 v2 pol x = t
  constructor <;> (apply V3.ext' <;> simp [vs, vd, zero3, n] <;> field_simp)

/-- C02 (Tetrahedron): B = μ₀H + J and J = μ₀M for **every** observer, inside or outside, of
either handedness of the vertex order.  The J/M branch runs the inside test on the vertices as
given, the B branch on the chirality-fixed vertices: the two tests agree
(`tetraInside_chirality`), which is what makes the `+ pol` of the B branch equal to J. -/
theorem tetra_consistent (v0 v1 v2 v3 pol x : V3 ℝ) :
    letI := realNum μ
    bhjmTetra .B v0 v1 v2 v3 pol x = vs μ (bhjmTetra .H v0 v1 v2 v3 pol x) + bhjmTetra .J v0 v1 v2 v3 pol x ∧
    bhjmTetra .J v0 v1 v2 v3 pol x = vs μ (bhjmTetra .M v0 v1 v2 v3 pol x) := by
  simp only [tetra_wrapH' μ]
  exact wrapH_consistent μ hμ _ _ _

/-- C02 (Circle): J = M = 0, and B is μ₀ times H — as `Option`s (B is computed iff H is), hence
B = μ₀H + J whenever the result is `some` (both cel iterations returned) -/
theorem circle_consistent (fuel : Nat) (d cur : ℝ) (x : V3 ℝ) :
    letI := realNum μ
    bhjmCircle fuel .J d cur x = some zero3 ∧ bhjmCircle fuel .M d cur x = some zero3 ∧
    bhjmCircle fuel .B d cur x = (bhjmCircle fuel .H d cur x).map (vs μ) ∧
    ∀ b h, bhjmCircle fuel .B d cur x = some b → bhjmCircle fuel .H d cur x = some h →
      b = vs μ h + zero3 ∧ (zero3 : V3 ℝ) = vs μ zero3 := by
  refine ⟨rfl, rfl, rfl, ?_⟩
  intro b h hb hh
  rw [bhjmCircle_B_eq, hh] at hb
  simp only [Option.map_some, Option.some.injEq] at hb
  subst hb
  exact ⟨(add_zero3 μ _).symm, (vs_zero3 μ μ).symm⟩
/-- C02 (Cylinder): the ported `BHJM_magnet_cylinder` (Model/Cylinder.lean: cylinder coordinates,
division by r0, all masks, transversal and axial contributions, rotation back, inside terms, on-edge
rule) **is** the abstract dispatch `wrapCylinder` applied to the code's own inside / on-edge masks and
to the two Cartesian core contributions `cylCoreAx` (axial kernel · pol_z) and `cylCoreTv`
(diametral kernel · pol_xy): J and M always, B and H whenever the elliptic integrals of the cores
return (`none` = a `cel0` call failed), and B is computed iff H is. -/
theorem cylinder_is_wrapCylinder (fuel : Nat) (dim : ℝ × ℝ) (pol x : V3 ℝ) :
    letI := realNum μ
    let r0 := dim.1 / 2
    let z0 := dim.2 / 2 / r0
    let r := Real.sqrt (x.x * x.x + x.y * x.y) / r0
    let z := x.z / r0
    let phi := Complex.arg ⟨x.x, x.y⟩
    let m := cylMasks z0 r z
    (∀ ax tv, bhjmCylinder fuel .J dim pol x = some (wrapCylinder .J m.inside m.onEdge pol ax tv) ∧
      bhjmCylinder fuel .M dim pol x = some (wrapCylinder .M m.inside m.onEdge pol ax tv)) ∧
    (∀ f, f = Field.B ∨ f = Field.H → bhjmCylinder fuel f dim pol x =
      (cylCoreTv μ fuel z0 r z phi pol).bind fun tv => (cylCoreAx μ fuel z0 r z phi pol).map fun ax =>
        wrapCylinder f m.inside m.onEdge pol ax tv) := by
  refine ⟨fun ax tv => ?_, fun f hf => ?_⟩
  · exact bhjmCylinderRow_JM μ fuel _ _ _ (Complex.arg ⟨x.x, x.y⟩) pol ax tv
  · exact bhjmCylinderRow_eq_wrap μ fuel f hf _ _ _ _ pol

/-- C02 (Cylinder): B = μ₀H + J and J = μ₀M for **every** observer of `BHJM_magnet_cylinder` — inside,
outside, on the hull, on the bases, on the edge (B = 0, H = −J/μ₀ there), on the axis, for axial,
transversal, mixed and zero polarization: J and M are always returned; B is returned iff H is
(the same `cel0` calls), and then the identity holds. -/
theorem cylinder_consistent (fuel : Nat) (dim : ℝ × ℝ) (pol x : V3 ℝ) :
    letI := realNum μ
    ∃ j m, bhjmCylinder fuel .J dim pol x = some j ∧ bhjmCylinder fuel .M dim pol x = some m ∧ j = vs μ m ∧
      (bhjmCylinder fuel .B dim pol x).isSome = (bhjmCylinder fuel .H dim pol x).isSome ∧
      ∀ b h, bhjmCylinder fuel .B dim pol x = some b → bhjmCylinder fuel .H dim pol x = some h →
        b = vs μ h + j := by
  let _ := realNum μ
  obtain ⟨hJM, hBH⟩ := cylinder_is_wrapCylinder μ hμ fuel dim pol x
  obtain ⟨hJ, hM⟩ := hJM ⟨0, 0, 0⟩ ⟨0, 0, 0⟩
  have hB := hBH .B (Or.inl rfl)
  have hH := hBH .H (Or.inr rfl)
  refine ⟨_, _, hJ, hM, (wrapCylinder_consistent μ hμ _ _ pol _ _).2, ?_, ?_⟩
  · rw [hB, hH]
    rcases cylCoreTv μ fuel _ _ _ _ pol with _ | tv
    · rfl
    · rcases cylCoreAx μ fuel _ _ _ _ pol with _ | ax <;> rfl
  · intro b h
    rw [hB, hH]
    rcases cylCoreTv μ fuel _ _ _ _ pol with _ | tv
    · intro eb; simp at eb
    · rcases cylCoreAx μ fuel _ _ _ _ pol with _ | ax
      · intro eb; simp at eb
      · intro eb eh
        simp only [Option.bind_some, Option.map_some, Option.some.injEq] at eb eh
        subst eb eh
        exact (wrapCylinder_consistent μ hμ _ _ pol ax tv).1

/-- C02 (Cylinder): J is the polarization on the closed geometric cylinder `|z| ≤ h/2 ∧ √(x²+y²) ≤ d/2`
and zero outside — the code's mask (comparisons of the quotients by r0) is the geometric body, for
every positive diameter -/
theorem cylinder_j_is_indicator (fuel : Nat) (d h : ℝ) (hd : 0 < d) (pol x : V3 ℝ) :
    letI := realNum μ
    bhjmCylinder fuel .J (d, h) pol x =
      some (if |x.z| ≤ h / 2 ∧ Real.sqrt (x.x * x.x + x.y * x.y) ≤ d / 2 then pol else zero3) := by
  let _ := realNum μ
  have hr0 : (0 : ℝ) < d / 2 := by positivity
  have key := cylMasks_inside_iff μ (d / 2) (h / 2) (Real.sqrt (x.x * x.x + x.y * x.y)) x.z hr0
  unfold bhjmCylinder bhjmCylinderRow
  simp only [Option.some.injEq]
  split_ifs with h1 h2 h2
  · rfl
  · exact absurd (key.mp h1) h2
  · exact absurd (key.mpr h2) h1
  · rfl
end

-- non-vacuity (μ = 1): a left-handed tetrahedron with an observer inside — the chirality swap
-- happens and J = pol ≠ 0 there, so the agreement of the two inside tests is exercised
example : letI := realNum 1
    tetraChirality (⟨0, 0, 0⟩ : V3 ℝ) ⟨1, 0, 0⟩ ⟨0, 0, 1⟩ ⟨0, 1, 0⟩ = (⟨0, 0, 0⟩, ⟨1, 0, 0⟩, ⟨0, 1, 0⟩, ⟨0, 0, 1⟩) ∧
    bhjmTetra .J (⟨0, 0, 0⟩ : V3 ℝ) ⟨1, 0, 0⟩ ⟨0, 0, 1⟩ ⟨0, 1, 0⟩ ⟨0, 0, 1⟩ ⟨1 / 4, 1 / 4, 1 / 4⟩ = ⟨0, 0, 1⟩ := by
  constructor
  · simp [tetraChirality, det3, n]
  · simp [bhjmTetra, tetraInside, det3, n]
    norm_num
-- on-axis Circle: the result is `some`, H ≠ 0
example : letI := realNum 1
    bhjmCircle 200 .H 2 1 (⟨0, 0, 0⟩ : V3 ℝ) = some ⟨0, 0, 1 / 2⟩ := by
  simp [bhjmCircle, n]

-- Cylinder (μ = 1): an observer exactly on the edge of the cylinder of diameter 2 and height 2 — the on-edge rule
-- fires (no elliptic integral is evaluated: fuel 0 suffices): B = 0, H = −J/μ₀, J = pol ≠ 0
example : letI := realNum 1
    bhjmCylinder 0 .B (2, 2) ⟨0, 0, 1⟩ (⟨1, 0, 1⟩ : V3 ℝ) = some ⟨0, 0, 0⟩ ∧
    bhjmCylinder 0 .H (2, 2) ⟨0, 0, 1⟩ (⟨1, 0, 1⟩ : V3 ℝ) = some ⟨0, 0, -1⟩ ∧
    bhjmCylinder 0 .J (2, 2) ⟨0, 0, 1⟩ (⟨1, 0, 1⟩ : V3 ℝ) = some ⟨0, 0, 1⟩ := by
  refine ⟨?_, ?_, ?_⟩ <;>
    simp [bhjmCylinder, bhjmCylinderRow, cylMasks, isclose, n, vd]

/-- FULL (`mu0_single`): every place where a value for mu_0 enters the package is the exported
constant.  False on the current tree: the two magnetization/polarization setters spell out
4π·1e-7 (known finding, pinned by an existing test).  Proved: everywhere else it is the
exported scipy constant, and the spelled-out literals are exactly those two sites — a new
literal anywhere breaks this `decide`. -/
theorem mu0_single_partial :
    (Gen.Const.mu0Sites.filter (fun s => s.2.2.1 != "scipy")).map (fun s => s.1) =
      ["magpylib/_src/obj_classes/class_BaseExcitations.py", "magpylib/_src/obj_classes/class_BaseExcitations.py"] := by
  decide

/-- the field modules all take mu_0 from scipy (= `magpylib.mu_0`) -/
theorem mu0_fields_use_exported :
    (Gen.Const.mu0Sites.filter (fun s => s.2.2.2)).all (fun s => s.2.2.1 == "scipy") = true := by
  decide

/-! ### TriangularMesh with the ray-casting inside test -/

/-- C02 (TriangularMesh, one row of `BHJM_magnet_trimesh`, any inside test): B = μ·H + J and J = μ·M, because the B, J
and M branches add the polarization under one and the same verdict `inside (mesh) (observer)` and H never does. -/
theorem trimesh_row_consistent (μ : ℝ) (hμ : μ ≠ 0) {M : Type} (meshId : MeshRow ℝ → M) (inside : M → V3 ℝ → Bool)
    (r : MeshRow ℝ) :
    letI := realNum μ
    bhjmTrimeshRow .B meshId inside r = vs μ (bhjmTrimeshRow .H meshId inside r) + bhjmTrimeshRow .J meshId inside r ∧
    bhjmTrimeshRow .J meshId inside r = vs μ (bhjmTrimeshRow .M meshId inside r) := by
  constructor <;> cases h : inside (meshId r) r.obs <;>
    (apply V3.ext' <;> simp [bhjmTrimeshRow, h, vs, vd, zero3, n] <;> (try field_simp) <;> (try ring))

/-- C02 (TriangularMesh as computed): the whole batch function with the ported `mask_inside_trimesh` satisfies
B = μ₀H + J and J = μ₀M row by row (`C06.trimesh_batch_rowwise_ray_test` reduces the batch to rows). -/
theorem trimesh_ray_test_consistent (r : MeshRow ℝ) :
    bhjmTrimeshRow .B (fun r => r.faces) maskInsideTrimesh r =
      vs mu0R (bhjmTrimeshRow .H (fun r => r.faces) maskInsideTrimesh r) +
        bhjmTrimeshRow .J (fun r => r.faces) maskInsideTrimesh r ∧
    bhjmTrimeshRow .J (fun r => r.faces) maskInsideTrimesh r =
      vs mu0R (bhjmTrimeshRow .M (fun r => r.faces) maskInsideTrimesh r) :=
  trimesh_row_consistent mu0R mu0R_pos.ne' _ _ r

/-- FULL (not true of the code): J of a TriangularMesh is the polarization at every point inside the body.
**Witness that the ray test is not the geometric inside predicate**: the point
x = (0.120012345, 0.059923456, 0.574932109) lies strictly inside the unit tetrahedron (all four barycentric coordinates
positive — the Tetrahedron class's own `point_inside` says inside), yet `mask_inside_trimesh` answers "outside", so J = 0
there: x sits on the plane through the start point of the test ray and the edge (0,0,0)–(0,0,1); the ray passes through
that edge, BOTH faces sharing it count a crossing (pass-through-boundary), and the parity comes out even.  Reproduced on
the real code (`TriangularMesh.getJ` = 0, `Tetrahedron.getJ` = polarization at this x).  The affected observers form a
slab of relative thickness ~1e-13 around each such plane. -/
theorem trimesh_ray_test_misses_interior_point :
    tetraInside (⟨0, 0, 0⟩ : V3 ℝ) ⟨1, 0, 0⟩ ⟨0, 1, 0⟩ ⟨0, 0, 1⟩
      ⟨120012345 / 1000000000, 59923456 / 1000000000, 574932109 / 1000000000⟩ = true ∧
    maskInsideTrimesh unitTetra ⟨120012345 / 1000000000, 59923456 / 1000000000, 574932109 / 1000000000⟩ = false ∧
    bhjmTrimeshRow .J (fun r => r.faces) maskInsideTrimesh
      { faces := unitTetra, obs := ⟨120012345 / 1000000000, 59923456 / 1000000000, 574932109 / 1000000000⟩,
        pol := ⟨0, 0, 1⟩ } = zero3 := by
  refine ⟨?_, unitTetra_edge_ray_outside, ?_⟩
  · simp [tetraInside, det3, n]
    norm_num
  · simp only [bhjmTrimeshRow, unitTetra_edge_ray_outside, Bool.false_eq_true, if_false]

-- non-vacuity of the consistency statement with both verdicts: (1/4,1/4,1/4) is found inside (J = polarization) …
example : bhjmTrimeshRow .J (fun r => r.faces) maskInsideTrimesh
    { faces := unitTetra, obs := ⟨1 / 4, 1 / 4, 1 / 4⟩, pol := (⟨0, 0, 1⟩ : V3 ℝ) } = zero3 + ⟨0, 0, 1⟩ := by
  simp only [bhjmTrimeshRow, unitTetra_quarter_inside, if_true]
-- … (3/5,3/5,3/5) outside (J = 0)
example : bhjmTrimeshRow .J (fun r => r.faces) maskInsideTrimesh
    { faces := unitTetra, obs := ⟨3 / 5, 3 / 5, 3 / 5⟩, pol := (⟨0, 0, 1⟩ : V3 ℝ) } = zero3 := by
  simp only [bhjmTrimeshRow, unitTetra_outside_in_box.2, Bool.false_eq_true, if_false]

end MagpyVerif.C02

/-! ### CylinderSegment: the ported `BHJM_cylinder_segment` (translated case functions, Model/CylSeg.lean;
hand-written boundary sum and wrapper, Model/CylSegWrap.lean; tied to the code by the `kern` stream kinds
`cylsegcase`, `cylsegblock`, `cylsegH`, `cylseg` and by the translator's sync check) -/
namespace MagpyVerif.C02
open MagpyVerif MagpyVerif.Kern MagpyVerif.Kern.CylSeg

/-- C02 (CylinderSegment): for the whole ported wrapper — units of the outer radius, angle normalisation,
inside / surface masks, spherical magnetization, the 26-case core, rotation back — with arbitrary special
functions `S` (ellipkinc, ellipeinc, el3_angle are opaque) and any value μ ≠ 0 of mu_0:
J and M are always returned and J = μ₀M; B is returned iff H is (`none` = NaN row: a boundary of the observer
has one of the four case ids the dispatch table does not handle), and then B = μ₀H + J.  Every observer:
inside, outside, on the surface (there B = H = J = M = 0). -/
theorem cylseg_consistent (μ : ℝ) (hμ : μ ≠ 0) (S : SegSpecial) (x : V3 ℝ) (r1 r2 h p1 p2 : ℝ) (pol : V3 ℝ) :
    letI := realNumX μ S
    ∃ j m, bhjmCylSeg .J x r1 r2 h p1 p2 pol = some j ∧ bhjmCylSeg .M x r1 r2 h p1 p2 pol = some m ∧ j = vs μ m ∧
      (bhjmCylSeg .B x r1 r2 h p1 p2 pol).isSome = (bhjmCylSeg .H x r1 r2 h p1 p2 pol).isSome ∧
      ∀ b hh, bhjmCylSeg .B x r1 r2 h p1 p2 pol = some b → bhjmCylSeg .H x r1 r2 h p1 p2 pol = some hh →
        b = vs μ hh + j :=
  bhjmCylSeg_consistent μ hμ S x r1 r2 h p1 p2 pol

-- non-vacuity: the hypothesis on μ holds for the model's mu_0, and the statement has no other hypothesis
example : mu0R ≠ 0 := mu0R_pos.ne'

end MagpyVerif.C02

/-! ### added by the audit: the abstract dispatch theorems instantiated at the functions the driver runs (Cuboid, Polyline row,
`BHJM_cylinder_segment_internal`), unconditional versions for the Option-valued kernels (using the termination theorems of
Props/C15), and J as the indicator of a GEOMETRIC set for Cuboid (open box inflated by the relative 1e-15) and
Tetrahedron (convex hull, non-degenerate vertices only) -/

namespace MagpyVerif.C02
open MagpyVerif MagpyVerif.Kern

/-- C02 (Cuboid as run by the driver) -/
theorem cuboid_consistent (μ : ℝ) (hμ : μ ≠ 0) (dim pol x : V3 ℝ) :
    letI := realNum μ
    bhjmCuboid .B dim pol x = vs μ (bhjmCuboid .H dim pol x) + bhjmCuboid .J dim pol x ∧
    bhjmCuboid .J dim pol x = vs μ (bhjmCuboid .M dim pol x) :=
  wrapB_consistent μ hμ _ _ pol _

/-- C02 (Cuboid): J is the polarization on the open box inflated by the relative tolerance 1e-15 -/
theorem cuboid_j_is_indicator (μ : ℝ) (dim pol x : V3 ℝ) (hx : 0 < dim.x) (hy : 0 < dim.y) (hz : 0 < dim.z) :
    letI := realNum μ
    bhjmCuboid .J dim pol x =
      if |x.x| < (1 + 1 / 1000000000000000) * (dim.x / 2) ∧ |x.y| < (1 + 1 / 1000000000000000) * (dim.y / 2) ∧
         |x.z| < (1 + 1 / 1000000000000000) * (dim.z / 2) then pol else zero3 := by
  letI := realNum μ
  have e : ∀ (u d : ℝ), 0 < d → ((|u| - |d| / 2 < 1 / 1000000000000000 * (|d| / 2)) ↔
      |u| < (1 + 1 / 1000000000000000) * (d / 2)) := by
    intro u d hd
    rw [abs_of_pos hd]
    constructor <;> intro h <;> linarith
  simp only [bhjmCuboid, wrapB, cuboidMasks, lt_real, abs_real, n, ofNat_real, Nat.cast_ofNat, Nat.cast_one,
    Bool.and_eq_true, decide_eq_true_eq, e _ _ hx, e _ _ hy, e _ _ hz, and_assoc]

/-- C02 (Polyline, one segment row of `BHJM_current_polyline`) -/
theorem polyline_segment_consistent (μ : ℝ) (cur : ℝ) (p1 p2 po : V3 ℝ) :
    letI := realNum μ
    bhjmSegment .B cur p1 p2 po = vs μ (bhjmSegment .H cur p1 p2 po) + bhjmSegment .J cur p1 p2 po ∧
    bhjmSegment .J cur p1 p2 po = vs μ (bhjmSegment .M cur p1 p2 po) ∧
    bhjmSegment .J cur p1 p2 po = zero3 := by
  letI := realNum μ
  refine ⟨?_, ?_, rfl⟩
  · simp only [bhjmSegment]
    split_ifs <;> (apply V3.ext' <;> simp [vs, zero3, n])
  · apply V3.ext' <;> simp [bhjmSegment, vs, zero3, n]

/-- C02 (Circle), unconditional: with enough fuel B and H ARE returned and B = μ₀H + J -/
theorem circle_consistent_total (d cur : ℝ) (x : V3 ℝ) (fuel : ℕ) (hfuel : circleFuelX d x ≤ fuel) :
    ∃ b h, bhjmCircle fuel .B d cur x = some b ∧ bhjmCircle fuel .H d cur x = some h ∧
      bhjmCircle fuel .J d cur x = some zero3 ∧ b = vs mu0R h + zero3 := by
  obtain ⟨h, hh⟩ := Option.isSome_iff_exists.mp (C15.bhjmCircle_terminates .H d cur x fuel hfuel)
  obtain ⟨b, hb⟩ := Option.isSome_iff_exists.mp (C15.bhjmCircle_terminates .B d cur x fuel hfuel)
  exact ⟨b, h, hb, hh, rfl, ((circle_consistent mu0R mu0R_pos.ne' fuel d cur x).2.2.2 b h hb hh).1⟩

/-- C02 (Cylinder), unconditional for valid dimensions -/
theorem cylinder_consistent_total (d h : ℝ) (hd : 0 < d) (hh : 0 ≤ h) (pol x : V3 ℝ) (fuel : ℕ)
    (hfuel : cylFuelX d h x ≤ fuel) :
    ∃ b hf j m, bhjmCylinder fuel .B (d, h) pol x = some b ∧ bhjmCylinder fuel .H (d, h) pol x = some hf ∧
      bhjmCylinder fuel .J (d, h) pol x = some j ∧ bhjmCylinder fuel .M (d, h) pol x = some m ∧
      b = vs mu0R hf + j ∧ j = vs mu0R m := by
  obtain ⟨j, m, hj, hm, hjm, _, hall⟩ := cylinder_consistent mu0R mu0R_pos.ne' fuel (d, h) pol x
  obtain ⟨hf, hhf⟩ := Option.isSome_iff_exists.mp (C15.cylinder_terminates .H d h pol x hd hh fuel hfuel)
  obtain ⟨b, hb⟩ := Option.isSome_iff_exists.mp (C15.cylinder_terminates .B d h pol x hd hh fuel hfuel)
  exact ⟨b, hf, j, m, hb, hhf, hj, hm, hall b hf hb hhf, hjm⟩

end MagpyVerif.C02

namespace MagpyVerif.C02
open MagpyVerif MagpyVerif.Kern

/-- C02 (Tetrahedron): for a non-degenerate tetrahedron the code's `point_inside` (barycentric test) IS the closed
geometric body — the convex hull of the four vertices -/
theorem tetraInside_iff_hull (v0 v1 v2 v3 x : V3 ℝ) (hdt : det3 (v1 - v0) (v2 - v0) (v3 - v0) ≠ 0) :
    tetraInside v0 v1 v2 v3 x = true ↔
      ∃ t1 t2 t3 : ℝ, 0 ≤ t1 ∧ 0 ≤ t2 ∧ 0 ≤ t3 ∧ t1 + t2 + t3 ≤ 1 ∧
        x = v0 + vs t1 (v1 - v0) + vs t2 (v2 - v0) + vs t3 (v3 - v0) := by
  have hdt' : (v1.x - v0.x) * ((v2.y - v0.y) * (v3.z - v0.z) - (v2.z - v0.z) * (v3.y - v0.y)) -
      (v2.x - v0.x) * ((v1.y - v0.y) * (v3.z - v0.z) - (v1.z - v0.z) * (v3.y - v0.y)) +
      (v3.x - v0.x) * ((v1.y - v0.y) * (v2.z - v0.z) - (v1.z - v0.z) * (v2.y - v0.y)) ≠ 0 := by
    simpa [det3] using hdt
  simp only [tetraInside, le_real, n, ofNat_real, Nat.cast_zero, Nat.cast_one, Bool.and_eq_true, decide_eq_true_eq]
  constructor
  · rintro ⟨⟨⟨⟨⟨⟨⟨_, h1⟩, h2⟩, h3⟩, _⟩, _⟩, _⟩, hs⟩
    refine ⟨_, _, _, h1, h2, h3, hs, ?_⟩
    have kx : det3 (x - v0) (v2 - v0) (v3 - v0) * (v1.x - v0.x) + det3 (v1 - v0) (x - v0) (v3 - v0) * (v2.x - v0.x) +
        det3 (v1 - v0) (v2 - v0) (x - v0) * (v3.x - v0.x) = (x.x - v0.x) * det3 (v1 - v0) (v2 - v0) (v3 - v0) := by
      simp only [det3, V3.sub_x, V3.sub_y, V3.sub_z]; ring
    have ky : det3 (x - v0) (v2 - v0) (v3 - v0) * (v1.y - v0.y) + det3 (v1 - v0) (x - v0) (v3 - v0) * (v2.y - v0.y) +
        det3 (v1 - v0) (v2 - v0) (x - v0) * (v3.y - v0.y) = (x.y - v0.y) * det3 (v1 - v0) (v2 - v0) (v3 - v0) := by
      simp only [det3, V3.sub_x, V3.sub_y, V3.sub_z]; ring
    have kz : det3 (x - v0) (v2 - v0) (v3 - v0) * (v1.z - v0.z) + det3 (v1 - v0) (x - v0) (v3 - v0) * (v2.z - v0.z) +
        det3 (v1 - v0) (v2 - v0) (x - v0) * (v3.z - v0.z) = (x.z - v0.z) * det3 (v1 - v0) (v2 - v0) (v3 - v0) := by
      simp only [det3, V3.sub_x, V3.sub_y, V3.sub_z]; ring
    apply V3.ext' <;> simp only [vs, V3.add_x, V3.add_y, V3.add_z, V3.sub_x, V3.sub_y, V3.sub_z] <;>
      field_simp <;> linarith
  · rintro ⟨t1, t2, t3, h1, h2, h3, hs, rfl⟩
    have e1 : det3 (v0 + vs t1 (v1 - v0) + vs t2 (v2 - v0) + vs t3 (v3 - v0) - v0) (v2 - v0) (v3 - v0) /
        det3 (v1 - v0) (v2 - v0) (v3 - v0) = t1 := by
      rw [div_eq_iff hdt]; simp only [det3, vs, V3.add_x, V3.add_y, V3.add_z, V3.sub_x, V3.sub_y, V3.sub_z]; ring
    have e2 : det3 (v1 - v0) (v0 + vs t1 (v1 - v0) + vs t2 (v2 - v0) + vs t3 (v3 - v0) - v0) (v3 - v0) /
        det3 (v1 - v0) (v2 - v0) (v3 - v0) = t2 := by
      rw [div_eq_iff hdt]; simp only [det3, vs, V3.add_x, V3.add_y, V3.add_z, V3.sub_x, V3.sub_y, V3.sub_z]; ring
    have e3 : det3 (v1 - v0) (v2 - v0) (v0 + vs t1 (v1 - v0) + vs t2 (v2 - v0) + vs t3 (v3 - v0) - v0) /
        det3 (v1 - v0) (v2 - v0) (v3 - v0) = t3 := by
      rw [div_eq_iff hdt]; simp only [det3, vs, V3.add_x, V3.add_y, V3.add_z, V3.sub_x, V3.sub_y, V3.sub_z]; ring
    rw [e1, e2, e3]
    have hreg : (!Num.eq0 (det3 (v1 - v0) (v2 - v0) (v3 - v0))) = true := by simp [eq0_real, hdt]
    refine ⟨⟨⟨⟨⟨⟨⟨hreg, h1⟩, h2⟩, h3⟩, ?_⟩, ?_⟩, ?_⟩, hs⟩ <;> linarith

open Classical in
/-- C02 (Tetrahedron): J is the polarization on the closed geometric tetrahedron (convex hull of the vertices) and zero outside -/
theorem tetra_j_is_indicator (v0 v1 v2 v3 pol x : V3 ℝ) (hdt : det3 (v1 - v0) (v2 - v0) (v3 - v0) ≠ 0) :
    bhjmTetra .J v0 v1 v2 v3 pol x =
      if ∃ t1 t2 t3 : ℝ, 0 ≤ t1 ∧ 0 ≤ t2 ∧ 0 ≤ t3 ∧ t1 + t2 + t3 ≤ 1 ∧
        x = v0 + vs t1 (v1 - v0) + vs t2 (v2 - v0) + vs t3 (v3 - v0) then pol else zero3 := by
  simp only [bhjmTetra, tetraInside_iff_hull v0 v1 v2 v3 x hdt]

-- non-vacuity: the unit tetrahedron is non-degenerate
example : det3 ((⟨1, 0, 0⟩ : V3 ℝ) - ⟨0, 0, 0⟩) (⟨0, 1, 0⟩ - ⟨0, 0, 0⟩) (⟨0, 0, 1⟩ - ⟨0, 0, 0⟩) ≠ 0 := by
  simp [det3]

-- a degenerate (flat) tetrahedron has no interior: since the repo fix 657dea6 `point_inside` tests `det != 0` first (before that
-- fix the real-number model answered "inside" everywhere through x/0 = 0 while numpy raised LinAlgError); `hdt` above is
-- therefore only needed to name the hull by barycentric coordinates
example : tetraInside (⟨0, 0, 0⟩ : V3 ℝ) ⟨1, 0, 0⟩ ⟨2, 0, 0⟩ ⟨3, 0, 0⟩ ⟨7, 8, 9⟩ = false := by
  simp [tetraInside, det3, n]
end MagpyVerif.C02

namespace MagpyVerif.C02
open MagpyVerif MagpyVerif.Kern MagpyVerif.Kern.CylSeg

theorem sub_consistent (μ : ℝ) (b1 h1 j1 b2 h2 j2 : V3 ℝ) : letI := realNum μ
    b1 = vs μ h1 + j1 → b2 = vs μ h2 + j2 → b1 - b2 = vs μ (h1 - h2) + (j1 - j2) := by
  intro e1 e2; subst e1 e2
  apply V3.ext' <;> simp [vs] <;> ring

theorem sub_consistent' (μ : ℝ) (j1 m1 j2 m2 : V3 ℝ) : letI := realNum μ
    j1 = vs μ m1 → j2 = vs μ m2 → j1 - j2 = vs μ (m1 - m2) := by
  intro e1 e2; subst e1 e2
  apply V3.ext' <;> simp [vs] <;> ring

/-- C02 (CylinderSegment, the function the class calls: `BHJM_cylinder_segment_internal`, incl. the 360° branch
= Cylinder(2 r2) − Cylinder(2 r1)): whenever the four outputs are returned they are consistent -/
theorem cylseg_internal_consistent (μ : ℝ) (hμ : μ ≠ 0) (S : SegSpecial) (fuel : Nat) (x : V3 ℝ)
    (r1 r2 h p1 p2 : ℝ) (pol : V3 ℝ) :
    letI := realNumX μ S
    ∀ b hh j m, bhjmCylSegInternal fuel .B x r1 r2 h p1 p2 pol = some b →
      bhjmCylSegInternal fuel .H x r1 r2 h p1 p2 pol = some hh →
      bhjmCylSegInternal fuel .J x r1 r2 h p1 p2 pol = some j →
      bhjmCylSegInternal fuel .M x r1 r2 h p1 p2 pol = some m → b = vs μ hh + j ∧ j = vs μ m := by
  let _ := realNumX μ S
  intro b hh j m
  unfold bhjmCylSegInternal
  split_ifs with hlt hr1
  · intro hb hH hj hm
    obtain ⟨j', m', ej, em, ejm, _, hall⟩ := cylseg_consistent μ hμ S x r1 r2 h p1 p2 pol
    rw [ej] at hj; rw [em] at hm
    simp only [Option.some.injEq] at hj hm
    subst hj hm
    exact ⟨hall b hh hb hH, ejm⟩
  · obtain ⟨jo, mo, ejo, emo, ejmo, _, hallo⟩ := cylinder_consistent μ hμ fuel (Num.ofNat 2 * r2, h) pol x
    obtain ⟨ji, mi, eji, emi, ejmi, _, halli⟩ := cylinder_consistent μ hμ fuel (Num.ofNat 2 * r1, h) pol x
    intro hb hH hj hm
    simp only [n] at hb hH hj hm
    erw [ejo, eji] at hj
    erw [emo, emi] at hm
    rcases hbo : @bhjmCylinder ℝ (realNum μ) fuel .B (Num.ofNat 2 * r2, h) pol x with _ | bo
    · erw [hbo] at hb; simp at hb
    rcases hho : @bhjmCylinder ℝ (realNum μ) fuel .H (Num.ofNat 2 * r2, h) pol x with _ | ho
    · erw [hho] at hH; simp at hH
    rcases hbi : @bhjmCylinder ℝ (realNum μ) fuel .B (Num.ofNat 2 * r1, h) pol x with _ | bi
    · erw [hbo, hbi] at hb; simp at hb
    rcases hhi : @bhjmCylinder ℝ (realNum μ) fuel .H (Num.ofNat 2 * r1, h) pol x with _ | hi
    · erw [hho, hhi] at hH; simp at hH
    erw [hbo, hbi] at hb
    erw [hho, hhi] at hH
    simp only [Option.map_some, Option.some.injEq] at hb hH hj hm
    subst hb hH hj hm
    exact ⟨sub_consistent μ _ _ _ _ _ _ (hallo _ _ hbo hho) (halli _ _ hbi hhi), sub_consistent' μ _ _ _ _ ejmo ejmi⟩
  · obtain ⟨jo, mo, ejo, emo, ejmo, _, hallo⟩ := cylinder_consistent μ hμ fuel (Num.ofNat 2 * r2, h) pol x
    intro hb hH hj hm
    simp only [n] at hb hH hj hm
    erw [ejo] at hj
    erw [emo] at hm
    rcases hbo : @bhjmCylinder ℝ (realNum μ) fuel .B (Num.ofNat 2 * r2, h) pol x with _ | bo
    · erw [hbo] at hb; simp at hb
    rcases hho : @bhjmCylinder ℝ (realNum μ) fuel .H (Num.ofNat 2 * r2, h) pol x with _ | ho
    · erw [hho] at hH; simp at hH
    erw [hbo] at hb
    erw [hho] at hH
    simp only [Option.some.injEq] at hb hH hj hm
    subst hb hH hj hm
    exact ⟨hallo _ _ hbo hho, ejmo⟩
end MagpyVerif.C02

/-! ## added by c02sync: excitation attributes over assignment histories, the keyword `in_out`, J / M in the observer frame -/

namespace MagpyVerif.C02
open MagpyVerif MagpyVerif.Kern MagpyVerif.Exc

/-! ### excitation_sync: the polarization / magnetization attributes over assignment histories -/

/-- the regenerated statement skeletons of the two setters, the getters and the constructor are the ones
Model/Excitation.lean implements (a source edit that changes a statement breaks this theorem) -/
theorem excitation_skeleton_is_modelled :
    Gen.ExcSync.magSetter =
      ["_magnetization := check_format_input_vector(arg, allow_None=True, dims=(1,), shape_m1=3)",
       "if _magnetization is None: _polarization := None; return",
       "_polarization := _magnetization mul CONST",
       "if norm(_magnetization) < THRESHOLD: warn"] ∧
    Gen.ExcSync.polSetter =
      ["_polarization := check_format_input_vector(arg, allow_None=True, dims=(1,), shape_m1=3)",
       "if _polarization is None: _magnetization := None; return",
       "_magnetization := _polarization div CONST"] ∧
    Gen.ExcSync.getters = ["polarization: return self._polarization", "magnetization: return self._magnetization"] ∧
    Gen.ExcSync.init =
      ["super().__init__", "_polarization := None", "_magnetization := None",
       "if magnetization is not None: self.magnetization = magnetization; if polarization is not None: raise ValueError",
       "if polarization is not None: self.polarization = polarization"] ∧
    Gen.ExcSync.warnCategory = "MagpylibDeprecationWarning" ∧ Gen.ExcSync.warnThreshold = 2000 :=
  ⟨rfl, rfl, rfl, rfl, rfl, rfl⟩

/-- one constant expression in both setters; the magnetization setter multiplies by it, the polarization setter divides -/
theorem setters_use_one_constant :
    Gen.ExcSync.magToPolConst = Gen.ExcSync.polToMagConst ∧ Gen.ExcSync.magToPolOp = .mul ∧
      Gen.ExcSync.polToMagOp = .div ∧ Gen.ExcSync.magToPolBits = Gen.ExcSync.polToMagBits := by decide

/-- μ_set: the value of the setters' constant expression in exact real arithmetic, when the carrier's exported mu_0 is `μ`
(the expression on this tree does not mention the exported constant, so the value does not depend on `μ`) -/
noncomputable def muSet (μ : ℝ) : ℝ := @cMagToPol ℝ (realNum μ)

theorem muSet_eq (μ : ℝ) : muSet μ = 4 * Real.pi * (1 / 10000000) := by
  simp [muSet, cMagToPol, Gen.ExcSync.magToPolConst, CExpr.eval, n]

theorem muSet_pos (μ : ℝ) : 0 < muSet μ := by rw [muSet_eq]; positivity

theorem cPolToMag_eq (μ : ℝ) : @cPolToMag ℝ (realNum μ) = muSet μ := rfl

/-- the pair of attributes describes ONE excitation with the constant `k`: both `None`, or both set with J = k·M -/
def InSync (k : ℝ) (st : St ℝ) : Prop :=
  match st.pol, st.mag with
  | none, none => True
  | some J, some M => J = @vs ℝ (realNum k) k M
  | _, _ => False

section
variable (μ : ℝ)

theorem setMag_sync (st : St ℝ) (a : Arg ℝ) (h : InSync (muSet μ) st) :
    InSync (muSet μ) (@setMag ℝ (realNum μ) st a).1 := by
  cases a with
  | none => simp [setMag, InSync]
  | bad => simpa [setMag] using h
  | vec v =>
    simp only [setMag, InSync, Gen.ExcSync.magToPolOp, BinOp.apply]
    apply V3.ext' <;> simp [vs, muSet] <;> ring

theorem setPol_sync (st : St ℝ) (a : Arg ℝ) (h : InSync (muSet μ) st) :
    InSync (muSet μ) (@setPol ℝ (realNum μ) st a).1 := by
  cases a with
  | none => simp [setPol, InSync]
  | bad => simpa [setPol] using h
  | vec v =>
    have hc := (muSet_pos μ).ne'
    simp only [setPol, InSync, Gen.ExcSync.polToMagOp, BinOp.apply, cPolToMag_eq]
    apply V3.ext' <;> simp [vs] <;> field_simp

/-- one assignment keeps the pair in sync -/
theorem step_preserves_sync (st : St ℝ) (op : Exc.Op ℝ) (h : InSync (muSet μ) st) :
    InSync (muSet μ) (@step ℝ (realNum μ) st op).1 := by
  cases op with
  | setPol a => exact setPol_sync μ st a h
  | setMag a => exact setMag_sync μ st a h

/-- every state a constructor call leaves behind is in sync -/
theorem construct_in_sync (strict : Bool) (mag pol : Arg ℝ) (st : St ℝ) (o : Outcome)
    (h : @construct ℝ (realNum μ) strict mag pol = .ok (st, o)) : InSync (muSet μ) st := by
  have h0 : InSync (muSet μ) ({ pol := none, mag := none } : St ℝ) := by simp [InSync]
  unfold construct at h
  simp only at h
  split at h
  · split at h
    · cases h; exact h0
    · have := setPol_sync μ _ pol h0
      generalize @setPol ℝ (realNum μ) { pol := none, mag := none } pol = r at h this
      rcases r with ⟨s, _ | _ | e⟩ <;> simp at h <;> (obtain ⟨rfl, rfl⟩ := h; exact this)
  · have := setMag_sync μ _ mag h0
    generalize @setMag ℝ (realNum μ) { pol := none, mag := none } mag = r at h this
    rcases r with ⟨s, _ | _ | e⟩ <;> simp at h
    all_goals
      split at h
      · cases h
      · split at h
        · cases h
        · simp only [Except.ok.injEq, Prod.mk.injEq] at h
          obtain ⟨rfl, rfl⟩ := h; exact this

/-- **excitation_sync**: for every constructor call that yields an object and every assignment history on it (valid
vectors, `None`, refused values, in any order and number), after EVERY operation the two attributes are both `None` or
both set with `polarization = μ_set · magnetization`, μ_set the constant the setters are written with -/
theorem excitation_sync (strict : Bool) (mag pol : Arg ℝ) (st : St ℝ) (o : Outcome)
    (hc : @construct ℝ (realNum μ) strict mag pol = .ok (st, o)) (ops : List (Exc.Op ℝ)) :
    InSync (muSet μ) st ∧ (∀ r ∈ @run ℝ (realNum μ) st ops, InSync (muSet μ) r.1) ∧
      InSync (muSet μ) (@final ℝ (realNum μ) st ops) := by
  have h0 := construct_in_sync μ strict mag pol st o hc
  refine ⟨h0, ?_, ?_⟩
  · clear hc
    induction ops generalizing st with
    | nil => intro r hr; simp [run] at hr
    | cons op ops ih =>
      intro r hr
      simp only [run, List.mem_cons] at hr
      rcases hr with rfl | hr
      · exact step_preserves_sync μ st op h0
      · exact ih _ (step_preserves_sync μ st op h0) r hr
  · clear hc
    unfold final
    induction ops generalizing st with
    | nil => exact h0
    | cons op ops ih => exact ih _ (step_preserves_sync μ st op h0)

/-- a rejected assignment (the validator refuses the value) raises the library's input error and leaves BOTH attributes
as they were; and these are the only assignments that end in an error of the model -/
theorem rejected_assignment_keeps_state (st : St ℝ) (op : Exc.Op ℝ) (e : Err)
    (h : (@step ℝ (realNum μ) st op).2 = .err e) :
    (@step ℝ (realNum μ) st op).1 = st ∧ e = .badUserInput := by
  rcases op with a | a <;> rcases a with _ | v | _ <;> simp [step, setPol, setMag] at h ⊢
  · exact h.symm
  · split at h <;> simp at h
  · exact h.symm

/-- a refused value is rejected whatever the state -/
theorem bad_value_is_rejected (st : St ℝ) :
    @step ℝ (realNum μ) st (.setPol .bad) = (st, .err .badUserInput) ∧
    @step ℝ (realNum μ) st (.setMag .bad) = (st, .err .badUserInput) := ⟨rfl, rfl⟩

/-- the constructor with BOTH excitations given never yields an object: the validator's error for a refused
magnetization, otherwise `ValueError` (or, with escalated warnings, the low-magnetization warning raised first) -/
theorem constructor_both_given_is_error (strict : Bool) (mag pol : Arg ℝ) (hm : mag.isNone = false) (hp : pol.isNone = false) :
    ∃ e, @construct ℝ (realNum μ) strict mag pol = .error e := by
  unfold construct
  simp only [hm, hp, Bool.false_eq_true, if_false, Bool.not_false, if_true]
  generalize @setMag ℝ (realNum μ) { pol := none, mag := none } mag = r
  rcases r with ⟨s, _ | _ | e⟩ <;> simp only [Outcome.raises, Bool.false_eq_true, if_false]
  · exact ⟨_, rfl⟩
  · cases strict <;> exact ⟨_, rfl⟩
  · exact ⟨_, rfl⟩
/-- … and with a valid magnetization of ordinary size it is the plain `ValueError` -/
theorem constructor_both_given_value_error (strict : Bool) (v : V3 ℝ) (pol : Arg ℝ) (hp : pol.isNone = false)
    (hv : @lowNorm ℝ (realNum μ) v = false) :
    @construct ℝ (realNum μ) strict (.vec v) pol = .error .valueError := by
  cases pol <;> simp_all [construct, setMag, Arg.isNone, Outcome.raises]

/-- FULL (`excitation_sync` with the exported constant, what the property asks: "J = mu_0·M with the single exported
constant"): ∀ histories, polarization = mu_0 · magnetization.  False on this tree (known finding mu0-literal).
Proved: it holds **iff** the setters' constant equals the exported one -/
theorem excitation_sync_exported_mu0_partial :
    (∀ (strict : Bool) (mag pol : Arg ℝ) (st : St ℝ) (o : Outcome) (ops : List (Exc.Op ℝ)),
      @construct ℝ (realNum μ) strict mag pol = .ok (st, o) →
        InSync μ st ∧ ∀ r ∈ @run ℝ (realNum μ) st ops, InSync μ r.1) ↔ muSet μ = μ := by
  constructor
  · intro h
    have h1 := (h false .none (.vec ⟨1, 0, 0⟩) _ _ [] rfl).1
    simp only [InSync, Gen.ExcSync.polToMagOp, BinOp.apply, cPolToMag_eq] at h1
    have hx := congrArg V3.x h1
    simp [vs] at hx
    have hc := (muSet_pos μ).ne'
    field_simp at hx
    linarith
  · intro h strict mag pol st o ops hc
    have := excitation_sync μ strict mag pol st o hc ops
    rw [h] at this
    exact ⟨this.1, this.2.1⟩
end

/-- the exported `magpylib.mu_0` as an exact real number (the double scipy provides: 1.25663706127e-6 rounded) -/
noncomputable def exportedMu0 : ℝ := (Gen.ExcSync.exportedNum : ℝ) / (Gen.ExcSync.exportedDen : ℝ)

/-- **witness of the known finding `mu0-literal:BaseMagnet-setters`**: on this tree the setters' constant 4π·10⁻⁷ is NOT
the exported mu_0 (π > 3.14159265358979 while exported/4·10⁷ = 3.14159265317…), so by
`excitation_sync_exported_mu0_partial` sync with the exported constant fails for some history -/
theorem setter_constant_is_not_exported : muSet exportedMu0 ≠ exportedMu0 := by
  rw [muSet_eq]
  unfold exportedMu0 Gen.ExcSync.exportedNum Gen.ExcSync.exportedDen
  have hpi := Real.pi_gt_d20
  intro h
  have : Real.pi = 5934300739273257 / 4722366482869645213696 * 10000000 / 4 := by
    push_cast at h; linarith
  rw [this] at hpi
  norm_num at hpi

/-- … and the history that shows it: `Cuboid(polarization=(1,0,0))` is not in sync with the exported constant -/
theorem exported_mu0_sync_fails :
    ∃ (st : St ℝ) (o : Outcome), @construct ℝ (realNum exportedMu0) false .none (.vec ⟨1, 0, 0⟩) = .ok (st, o) ∧
      ¬ InSync exportedMu0 st := by
  refine ⟨_, _, rfl, ?_⟩
  intro h
  have := (excitation_sync_exported_mu0_partial exportedMu0).mp
  apply setter_constant_is_not_exported
  -- the one-step history of the iff's proof
  simp only [InSync, Gen.ExcSync.polToMagOp, BinOp.apply, cPolToMag_eq] at h
  have hx := congrArg V3.x h
  simp [vs] at hx
  have hc := (muSet_pos exportedMu0).ne'
  field_simp at hx
  linarith

/-- the same in IEEE double, as Python computes the two values: the bit patterns differ; the exported pattern is the one
Gen.Const records for `magpylib.mu_0` and the field functions use -/
theorem setter_constant_bits_differ :
    Gen.ExcSync.magToPolBits ≠ Gen.ExcSync.exportedBits ∧ Gen.ExcSync.exportedBits = Gen.Const.mu0Bits := by decide

/-- with warnings escalated to errors the magnetization setter raises AFTER both attributes were written: such an
assignment ends in an exception and yet changes the state (to a state in sync) — only the validator's rejections keep it -/
theorem warned_assignment_writes_state :
    let st0 : St ℝ := { pol := none, mag := none }
    let r := @step ℝ (realNum 1) st0 (.setMag (.vec ⟨1, 0, 0⟩))
    r.2 = .warned ∧ r.2.raises true = true ∧ r.1.mag = some ⟨1, 0, 0⟩ ∧ r.1.pol ≠ none ∧ InSync (muSet 1) r.1 := by
  have hl : @lowNorm ℝ (realNum 1) ⟨1, 0, 0⟩ = true := by
    simp [lowNorm, Kern.norm, Gen.ExcSync.warnThreshold, n]
  refine ⟨?_, ?_, ?_, ?_, ?_⟩
  · simp [step, setMag, hl]
  · simp [step, setMag, hl, Outcome.raises]
  · simp [step, setMag]
  · simp [step, setMag]
  · exact step_preserves_sync 1 _ _ (by simp [InSync])

-- non-vacuity of `excitation_sync`: a constructor call that yields an object, followed by a history with a valid
-- magnetization, a refused value and `None`
example : ∃ st o, @construct ℝ (realNum 1) false .none (.vec ⟨0, 0, 1⟩) = .ok (st, o) ∧ st.pol = some ⟨0, 0, 1⟩ ∧
    (@run ℝ (realNum 1) st [.setMag (.vec ⟨3000, 0, 0⟩), .setPol .bad, .setMag .none]).map (·.2) =
      [.ok, .err .badUserInput, .ok] := by
  refine ⟨_, _, rfl, rfl, ?_⟩
  have hl : @lowNorm ℝ (realNum 1) ⟨3000, 0, 0⟩ = false := by
    simp [lowNorm, Kern.norm, Gen.ExcSync.warnThreshold, n]
    norm_num
  simp [run, step, setMag, setPol, hl]
end MagpyVerif.C02

namespace MagpyVerif.C02
open MagpyVerif MagpyVerif.Kern MagpyVerif.Kern.CylSeg

/-! ### the keyword `in_out` (Model/InOut.lean) -/

/-- the regenerated facts the model of `in_out` rests on: exactly the core functions of Tetrahedron and TriangularMesh have
the parameter; getBH_level1 drops the keyword for every other function; `point_inside` and `BHJM_magnet_trimesh` branch on
the value as modelled.  A source edit that changes a signature or a branch breaks this theorem. -/
theorem inout_table_is_modelled :
    (Gen.InOut.table.filter fun r => r.2.2).map (fun r => r.1) = ["Tetrahedron", "TriangularMesh"] ∧
    Gen.InOut.level1Filter = ["if not has_parameter(field_func, 'in_out'): kwargs.pop('in_out', None)"] ∧
    Gen.InOut.level1Call = ["BH = field_func(field=field, observers=pos_rel_rot, **kwargs)"] ∧
    Gen.InOut.pointInsideBranches =
      ["if in_out == 'inside': return np.array([True] * len(points))",
       "if in_out == 'outside': return np.array([False] * len(points))"] ∧
    Gen.InOut.tetraUses =
      ["field 'J': point_inside(observers, vertices, in_out)", "field 'M': point_inside(observers, vertices, in_out)",
       "field 'B': point_inside(observers, vertices, in_out)"] ∧
    Gen.InOut.trimeshBranches = ["if in_out == 'auto': prev_ind = 0 [else]", "if in_out == 'inside': BHJM += polarization"] :=
  ⟨by decide, rfl, rfl, rfl, rfl, rfl⟩

theorem hasInOut_values :
    hasInOut "Cuboid" = false ∧ hasInOut "Cylinder" = false ∧ hasInOut "CylinderSegment" = false ∧
    hasInOut "Sphere" = false ∧ hasInOut "Tetrahedron" = true ∧ hasInOut "TriangularMesh" = true := by decide

section
variable (μ : ℝ)

theorem pointInsideIO_chirality (io : InOut) (v0 v1 v2 v3 x : V3 ℝ) : letI := realNum μ
    pointInsideIO io (tetraChirality v0 v1 v2 v3).1 (tetraChirality v0 v1 v2 v3).2.1
      (tetraChirality v0 v1 v2 v3).2.2.1 (tetraChirality v0 v1 v2 v3).2.2.2 x = pointInsideIO io v0 v1 v2 v3 x := by
  cases io <;> simp only [pointInsideIO, tetraInside_chirality]

/-- the Tetrahedron wrapper with `in_out` is the abstract dispatch `wrapH` with the verdict of `point_inside(…, in_out)` -/
theorem tetraIO_wrapH (io : InOut) (f : Field) (v0 v1 v2 v3 pol x : V3 ℝ) : letI := realNum μ
    bhjmTetraIO io f v0 v1 v2 v3 pol x =
      wrapH f (pointInsideIO io v0 v1 v2 v3 x) pol (tetraSheets μ v0 v1 v2 v3 pol x) := by
  cases f
  case J => rfl
  case M => rfl
  case H => simp only [bhjmTetraIO, bhjmTetra, bhjmTriangle, wrapH, tetraSheets, vd_add4]
  case B =>
    simp only [bhjmTetraIO, bhjmTriangle, wrapH, tetraSheets, pointInsideIO_chirality]
    split_ifs
    · rfl
    · rw [add_zero3]

/-- **Tetrahedron, all modes**: B = μ₀H + J and J = μ₀M whatever `in_out` is (also a misspelt value), at every observer -/
theorem tetra_inout_consistent (hμ : μ ≠ 0) (io : InOut) (v0 v1 v2 v3 pol x : V3 ℝ) : letI := realNum μ
    bhjmTetraIO io .B v0 v1 v2 v3 pol x = vs μ (bhjmTetraIO io .H v0 v1 v2 v3 pol x) + bhjmTetraIO io .J v0 v1 v2 v3 pol x ∧
    bhjmTetraIO io .J v0 v1 v2 v3 pol x = vs μ (bhjmTetraIO io .M v0 v1 v2 v3 pol x) := by
  simp only [tetraIO_wrapH μ]
  exact wrapH_consistent μ hμ _ _ _

/-- 'auto' (and any value other than 'inside' / 'outside') is the wrapper without the keyword: the existing theorems apply -/
theorem tetra_inout_auto (f : Field) (v0 v1 v2 v3 pol x : V3 ℝ) : letI := realNum μ
    bhjmTetraIO .auto f v0 v1 v2 v3 pol x = bhjmTetra f v0 v1 v2 v3 pol x ∧
    bhjmTetraIO .other f v0 v1 v2 v3 pol x = bhjmTetra f v0 v1 v2 v3 pol x := by
  constructor <;> cases f <;> rfl

/-- 'inside': J is the polarization at EVERY observer, M = J/μ₀, and B = μ₀H + polarization -/
theorem tetra_inout_inside (hμ : μ ≠ 0) (v0 v1 v2 v3 pol x : V3 ℝ) : letI := realNum μ
    bhjmTetraIO .inside .J v0 v1 v2 v3 pol x = pol ∧ bhjmTetraIO .inside .M v0 v1 v2 v3 pol x = vd pol μ ∧
    bhjmTetraIO .inside .B v0 v1 v2 v3 pol x = vs μ (bhjmTetraIO .inside .H v0 v1 v2 v3 pol x) + pol := by
  refine ⟨rfl, rfl, ?_⟩
  have := (tetra_inout_consistent μ hμ .inside v0 v1 v2 v3 pol x).1
  rw [this]; rfl

/-- 'outside': J = M = 0 at EVERY observer and B = μ₀H -/
theorem tetra_inout_outside (hμ : μ ≠ 0) (v0 v1 v2 v3 pol x : V3 ℝ) : letI := realNum μ
    bhjmTetraIO .outside .J v0 v1 v2 v3 pol x = zero3 ∧ bhjmTetraIO .outside .M v0 v1 v2 v3 pol x = zero3 ∧
    bhjmTetraIO .outside .B v0 v1 v2 v3 pol x = vs μ (bhjmTetraIO .outside .H v0 v1 v2 v3 pol x) := by
  refine ⟨rfl, ?_, ?_⟩
  · apply V3.ext' <;> simp [bhjmTetraIO, pointInsideIO, vd, zero3, n]
  · have := (tetra_inout_consistent μ hμ .outside v0 v1 v2 v3 pol x).1
    rw [this]
    exact add_zero3 μ _

/-- a TRUTHFUL override changes nothing: if 'inside' is given for an observer the barycentric test finds inside, or
'outside' for one it finds outside, all four fields are those of 'auto' (the property's quantifier) -/
theorem tetra_inout_truthful (io : InOut) (f : Field) (v0 v1 v2 v3 pol x : V3 ℝ) : letI := realNum μ
    (io = .inside → tetraInside v0 v1 v2 v3 x = true) → (io = .outside → tetraInside v0 v1 v2 v3 x = false) →
    bhjmTetraIO io f v0 v1 v2 v3 pol x = bhjmTetra f v0 v1 v2 v3 pol x := by
  intro hi ho
  rw [tetraIO_wrapH μ, tetra_wrapH' μ]
  cases io
  · rfl
  · simp only [pointInsideIO, hi rfl]
  · simp only [pointInsideIO, ho rfl]
  · rfl
end

/-! TriangularMesh -/

/-- the verdict `BHJM_magnet_trimesh` uses for a row under `in_out` -/
def insideIO {M : Type} (io : InOut) (inside : M → V3 ℝ → Bool) : M → V3 ℝ → Bool :=
  fun m x => match io with
    | .auto => inside m x
    | .inside => true
    | _ => false

section
variable (μ : ℝ)

/-- the batch function with `in_out` is, row by row, the one-row function with the verdict `insideIO` — every row gets
its own sheets, observer, polarization (batches of any composition) -/
theorem trimesh_inout_rowwise {M : Type} [DecidableEq M] (io : InOut) (f : Field) (meshId : MeshRow ℝ → M)
    (inside : M → V3 ℝ → Bool) (rows : List (MeshRow ℝ)) : letI := realNum μ
    bhjmTrimeshIO io f meshId inside rows = rows.map (bhjmTrimeshRow f meshId (insideIO io inside)) := by
  let _ := realNum μ
  cases io
  case auto => exact bhjmTrimesh_rowwise f meshId inside rows
  all_goals
    cases f <;>
      simp only [bhjmTrimeshIO, meshSheets_rowwise, zip_map_self, List.map_map] <;>
      (apply List.map_congr_left; intro r _; simp [bhjmTrimeshRow, insideIO, Function.comp])

/-- **TriangularMesh, all modes**: every row of the batch satisfies B = μ₀H + J and J = μ₀M, whatever `in_out` is -/
theorem trimesh_inout_consistent (hμ : μ ≠ 0) {M : Type} (io : InOut) (meshId : MeshRow ℝ → M)
    (inside : M → V3 ℝ → Bool) (r : MeshRow ℝ) : letI := realNum μ
    bhjmTrimeshRow .B meshId (insideIO io inside) r =
      vs μ (bhjmTrimeshRow .H meshId (insideIO io inside) r) + bhjmTrimeshRow .J meshId (insideIO io inside) r ∧
    bhjmTrimeshRow .J meshId (insideIO io inside) r = vs μ (bhjmTrimeshRow .M meshId (insideIO io inside) r) :=
  trimesh_row_consistent μ hμ meshId _ r

/-- 'inside': J = polarization for EVERY row; 'outside' (and any other value that is not 'auto'): J = M = 0 -/
theorem trimesh_inout_inside_outside {M : Type} (meshId : MeshRow ℝ → M) (inside : M → V3 ℝ → Bool) (r : MeshRow ℝ) :
    let _ := realNum μ
    bhjmTrimeshRow .J meshId (insideIO .inside inside) r = r.pol ∧
    bhjmTrimeshRow .M meshId (insideIO .inside inside) r = vd r.pol μ ∧
    bhjmTrimeshRow .J meshId (insideIO .outside inside) r = zero3 ∧
    bhjmTrimeshRow .M meshId (insideIO .outside inside) r = zero3 ∧
    bhjmTrimeshRow .J meshId (insideIO .other inside) r = zero3 := by
  refine ⟨?_, ?_, rfl, ?_, rfl⟩
  · apply V3.ext' <;> simp [bhjmTrimeshRow, insideIO, zero3, n]
  · apply V3.ext' <;> simp [bhjmTrimeshRow, insideIO, zero3, n, vd]
  · apply V3.ext' <;> simp [bhjmTrimeshRow, insideIO, zero3, n, vd]

/-- a truthful override changes nothing (TriangularMesh row) -/
theorem trimesh_inout_truthful {M : Type} (io : InOut) (f : Field) (meshId : MeshRow ℝ → M) (inside : M → V3 ℝ → Bool)
    (r : MeshRow ℝ) (hio : io ≠ .other) : letI := realNum μ
    (io = .inside → inside (meshId r) r.obs = true) → (io = .outside → inside (meshId r) r.obs = false) →
    bhjmTrimeshRow f meshId (insideIO io inside) r = bhjmTrimeshRow f meshId inside r := by
  intro hi ho
  cases io
  · rfl
  · cases f <;> simp only [bhjmTrimeshRow, insideIO, hi rfl]
  · cases f <;> simp only [bhjmTrimeshRow, insideIO, ho rfl] <;> rfl
  · exact absurd rfl hio
end

/-! Cuboid, Sphere, Cylinder, CylinderSegment: getBH_level1 removes the keyword -/

section
variable (μ : ℝ)

/-- for the four classes whose core functions have no parameter `in_out`, level1 calls the function exactly as without the
keyword, whatever its value — so every theorem about `bhjmCuboid`, `bhjmSphere`, `bhjmCylinder`, `bhjmCylSegInternal`
('auto') is a theorem about all modes -/
theorem inout_ignored (io : InOut) (f : Field) : letI := realNum μ
    (∀ dim pol x : V3 ℝ, cuboidL1 io f dim pol x = some (bhjmCuboid f dim pol x)) ∧
    (∀ (d : ℝ) (pol x : V3 ℝ), sphereL1 io f d pol x = some (bhjmSphere f d pol x)) ∧
    (∀ (fuel : ℕ) (dim : ℝ × ℝ) (pol x : V3 ℝ), cylinderL1 io fuel f dim pol x = some (bhjmCylinder fuel f dim pol x)) := by
  refine ⟨fun _ _ _ => ?_, fun _ _ _ => ?_, fun _ _ _ _ => ?_⟩ <;>
    simp [cuboidL1, sphereL1, cylinderL1, hasInOut_values]

theorem inout_ignored_cylseg (S : SegSpecial) (io : InOut) (fuel : ℕ) (f : Field) (x : V3 ℝ) (r1 r2 h p1 p2 : ℝ) (pol : V3 ℝ) :
    @cylSegL1 ℝ (realNumX μ S) io fuel f x r1 r2 h p1 p2 pol =
      some (@bhjmCylSegInternal ℝ (realNumX μ S) fuel f x r1 r2 h p1 p2 pol) := by
  simp [cylSegL1, hasInOut_values]

/-- and the two classes that do have it are called with it -/
theorem inout_passed (io : InOut) (f : Field) : letI := realNum μ
    (∀ v0 v1 v2 v3 pol x : V3 ℝ, tetraL1 io f v0 v1 v2 v3 pol x = some (bhjmTetraIO io f v0 v1 v2 v3 pol x)) ∧
    (∀ {M : Type} [DecidableEq M] (meshId : MeshRow ℝ → M) (inside : M → V3 ℝ → Bool) (rows : List (MeshRow ℝ)),
      trimeshL1 io f meshId inside rows = some (bhjmTrimeshIO io f meshId inside rows)) := by
  refine ⟨fun _ _ _ _ _ _ => ?_, fun _ _ _ => ?_⟩ <;> simp [tetraL1, trimeshL1, hasInOut_values]

/-- **B = μ₀·H + J and J = μ₀·M for all modes of `in_out` (also a misspelt value) and all six modelled magnet wrappers as
getBH_level1 calls them**, generic μ ≠ 0: Cuboid, Sphere at every observer; Tetrahedron at every observer; TriangularMesh
for every row of every batch; Cylinder and CylinderSegment whenever the four values are returned (`none` = a `cel0` call
failed / NaN row, see `cylinder_consistent_total`, `cylseg_consistent`).
(audit2: the STATEMENT below has four conjuncts — Cuboid, Sphere, Tetrahedron, Cylinder; CylinderSegment is
`inout_consistent_cylseg`, TriangularMesh is `inout_consistent_trimesh`, added by audit2 at the end of this file.) -/
theorem inout_consistent (hμ : μ ≠ 0) (io : InOut) : letI := realNum μ
    (∀ dim pol x : V3 ℝ, ∃ b h j m, cuboidL1 io .B dim pol x = some b ∧ cuboidL1 io .H dim pol x = some h ∧
      cuboidL1 io .J dim pol x = some j ∧ cuboidL1 io .M dim pol x = some m ∧ b = vs μ h + j ∧ j = vs μ m) ∧
    (∀ (d : ℝ) (pol x : V3 ℝ), ∃ b h j m, sphereL1 io .B d pol x = some b ∧ sphereL1 io .H d pol x = some h ∧
      sphereL1 io .J d pol x = some j ∧ sphereL1 io .M d pol x = some m ∧ b = vs μ h + j ∧ j = vs μ m) ∧
    (∀ v0 v1 v2 v3 pol x : V3 ℝ, ∃ b h j m, tetraL1 io .B v0 v1 v2 v3 pol x = some b ∧ tetraL1 io .H v0 v1 v2 v3 pol x = some h ∧
      tetraL1 io .J v0 v1 v2 v3 pol x = some j ∧ tetraL1 io .M v0 v1 v2 v3 pol x = some m ∧ b = vs μ h + j ∧ j = vs μ m) ∧
    (∀ (fuel : ℕ) (dim : ℝ × ℝ) (pol x : V3 ℝ) (b h j m : V3 ℝ), cylinderL1 io fuel .B dim pol x = some (some b) →
      cylinderL1 io fuel .H dim pol x = some (some h) → cylinderL1 io fuel .J dim pol x = some (some j) →
      cylinderL1 io fuel .M dim pol x = some (some m) → b = vs μ h + j ∧ j = vs μ m) := by
  let _ := realNum μ
  refine ⟨fun dim pol x => ?_, fun d pol x => ?_, fun v0 v1 v2 v3 pol x => ?_, fun fuel dim pol x b h j m hb hh hj hm => ?_⟩
  · exact ⟨_, _, _, _, (inout_ignored μ io .B).1 _ _ _, (inout_ignored μ io .H).1 _ _ _, (inout_ignored μ io .J).1 _ _ _,
      (inout_ignored μ io .M).1 _ _ _, (cuboid_consistent μ hμ dim pol x).1, (cuboid_consistent μ hμ dim pol x).2⟩
  · exact ⟨_, _, _, _, (inout_ignored μ io .B).2.1 _ _ _, (inout_ignored μ io .H).2.1 _ _ _, (inout_ignored μ io .J).2.1 _ _ _,
      (inout_ignored μ io .M).2.1 _ _ _, (sphere_consistent μ hμ d pol x).1, (sphere_consistent μ hμ d pol x).2⟩
  · exact ⟨_, _, _, _, (inout_passed μ io .B).1 _ _ _ _ _ _, (inout_passed μ io .H).1 _ _ _ _ _ _, (inout_passed μ io .J).1 _ _ _ _ _ _,
      (inout_passed μ io .M).1 _ _ _ _ _ _, (tetra_inout_consistent μ hμ io v0 v1 v2 v3 pol x).1,
      (tetra_inout_consistent μ hμ io v0 v1 v2 v3 pol x).2⟩
  · rw [(inout_ignored μ io _).2.2] at hb hh hj hm
    simp only [Option.some.injEq] at hb hh hj hm
    obtain ⟨j', m', ej, em, ejm, _, hall⟩ := cylinder_consistent μ hμ fuel dim pol x
    rw [ej] at hj; rw [em] at hm
    simp only [Option.some.injEq] at hj hm
    subst hj hm
    exact ⟨hall b h hb hh, ejm⟩

/-- CylinderSegment (the class's function `BHJM_cylinder_segment_internal`), all modes -/
theorem inout_consistent_cylseg (hμ : μ ≠ 0) (S : SegSpecial) (io : InOut) (fuel : ℕ) (x : V3 ℝ) (r1 r2 h p1 p2 : ℝ)
    (pol b hh j m : V3 ℝ) :
    @cylSegL1 ℝ (realNumX μ S) io fuel .B x r1 r2 h p1 p2 pol = some (some b) →
    @cylSegL1 ℝ (realNumX μ S) io fuel .H x r1 r2 h p1 p2 pol = some (some hh) →
    @cylSegL1 ℝ (realNumX μ S) io fuel .J x r1 r2 h p1 p2 pol = some (some j) →
    @cylSegL1 ℝ (realNumX μ S) io fuel .M x r1 r2 h p1 p2 pol = some (some m) →
    b = @vs ℝ (realNum μ) μ hh + j ∧ j = @vs ℝ (realNum μ) μ m := by
  intro hb hH hj hm
  rw [inout_ignored_cylseg] at hb hH hj hm
  simp only [Option.some.injEq] at hb hH hj hm
  exact cylseg_internal_consistent μ hμ S fuel x r1 r2 h p1 p2 pol b hh j m hb hH hj hm

/- FULL (what one might expect of the keyword): with `in_out='inside'` J = polarization at every observer for EVERY magnet
class.  Not what the code does for Cuboid / Cylinder / CylinderSegment / Sphere: the keyword never reaches their functions.
Witness: an observer outside a Cuboid, 'inside' requested, J = 0.  (The property only quantifies over truthful overrides,
for which nothing changes — `inout_ignored`, `tetra_inout_truthful`, `trimesh_inout_truthful`.) -/
theorem cuboid_inside_override_is_ignored : letI := realNum 1
    cuboidL1 .inside .J (⟨2, 2, 2⟩ : V3 ℝ) ⟨0, 0, 1⟩ ⟨5, 0, 0⟩ = some zero3 := by
  let _ := realNum 1
  rw [(inout_ignored 1 .inside .J).1]
  simp [bhjmCuboid, wrapB, cuboidMasks, n]
  norm_num
end

-- non-vacuity: an observer OUTSIDE the unit tetrahedron, 'inside' requested: J is the polarization there (and 'auto' gives 0)
example : letI := realNum 1
    bhjmTetraIO .inside .J (⟨0, 0, 0⟩ : V3 ℝ) ⟨1, 0, 0⟩ ⟨0, 1, 0⟩ ⟨0, 0, 1⟩ ⟨0, 0, 1⟩ ⟨1, 1, 1⟩ = ⟨0, 0, 1⟩ ∧
    bhjmTetraIO .auto .J (⟨0, 0, 0⟩ : V3 ℝ) ⟨1, 0, 0⟩ ⟨0, 1, 0⟩ ⟨0, 0, 1⟩ ⟨0, 0, 1⟩ ⟨1, 1, 1⟩ = zero3 := by
  refine ⟨rfl, ?_⟩
  simp [bhjmTetraIO, pointInsideIO, tetraInside, det3, n]

end MagpyVerif.C02

namespace MagpyVerif.C02
open MagpyVerif MagpyVerif.Level2

/-! ### J and M in the observer frame (composition with C03 / C04), over the pipeline model `Level2.tensor` -/
section jframe
variable {G V : Type} [Group G] [AddCommGroup V] [DistribMulAction G V]

/-- getBH_level1 for a homogeneous magnet and field J (or M): with the magnet at position `p` and orientation `R` (path
index `m`), the value at the global position `x` is the polarization ROTATED BY THE MAGNET'S ORIENTATION if `x`, taken into
the magnet's frame, lies in the body — and zero otherwise.  `body` / `pol` are the local-frame facts the kernel theorems
provide (`sphere_j_is_indicator`, `cylinder_j_is_indicator`, `cuboid_j_is_indicator`, `tetra_j_is_indicator`; M: `pol/μ₀`). -/
theorem j_level1 (s : Src G V) (body : V → Bool) (pol : V) (hF : s.F = indicatorField body pol) (m : Nat) (x : V)
    (R : G) (p : V) (hR : clampGet s.ori m = some R) (hp : clampGet s.pos m = some p) :
    level1 s m x = if body (R⁻¹ • (x - p)) then R • pol else 0 := by
  simp only [level1, hR, hp, hF, indicatorField]
  split_ifs <;> simp

/-- what the sensor loop does to a value of a right-handed sensor whose orientation at path index `m` is `S` -/
theorem sensT_right [BEq G] (flipX : V → V) (k : Sens G V) (m : Nat) (S : G) (hS : clampGet k.ori m = some S)
    (hright : k.left = false) (v : V) : sensT flipX k m v = S⁻¹ • v := by
  simp [sensT, hS, hright]

/-- **J in the observer frame, one value**: what the library returns for (magnet `s`, path index `m`, right-handed sensor
`k` with orientation `S` there, pixel at global position `x`) is `(S⁻¹·R)·pol` inside the body and 0 outside -/
theorem j_in_observer_frame [BEq G] (flipX : V → V) (s : Src G V) (body : V → Bool) (pol : V)
    (hF : s.F = indicatorField body pol) (k : Sens G V) (m : Nat) (x : V) (R S : G) (p : V)
    (hR : clampGet s.ori m = some R) (hp : clampGet s.pos m = some p) (hS : clampGet k.ori m = some S)
    (hright : k.left = false) :
    specValue flipX (.leaf s) k m x = if body (R⁻¹ • (x - p)) then (S⁻¹ * R) • pol else 0 := by
  simp only [specValue, Entry.leaves, List.map_cons, List.map_nil, List.sum_cons, List.sum_nil, add_zero]
  rw [sensT_right flipX k m S hS hright, j_level1 s body pol hF m x R p hR hp]
  split_ifs
  · rw [mul_smul]
  · rw [smul_zero]

/-- **J in the observer frame, end to end**: the tensor `Level2.tensor` (what `getBH_level2` computes before pixel_agg /
sumup / squeeze, and what the `level2` / `level2-jm` streams compare with the real getJ / getM) of ONE magnet and any
number of right-handed sensors with any orientation / position paths and pixels is, entry by entry,
`(S_k(m)⁻¹ · R(m)) · pol` if the pixel's global position lies in the body as placed at path index `m`, else 0. -/
theorem j_in_observer_frame_end_to_end [BEq G] [LawfulBEq G] (flipX : V → V) (s : Src G V) (body : V → Bool) (pol : V)
    (hF : s.F = indicatorField body pol) (hso : s.ori ≠ []) (hsp : s.pos ≠ [])
    (sensors : List (Sens G V)) (hs : ∀ k ∈ sensors, k.WF) (hright : ∀ k ∈ sensors, k.left = false) :
    tensor flipX [.leaf s] sensors =
      [(List.range (pathLen [s] sensors)).map fun m => sensors.map fun k => (pixPos k m).map fun x =>
        match clampGet s.ori m, clampGet s.pos m, clampGet k.ori m with
        | some R, some p, some S => if body (R⁻¹ • (x - p)) then (S⁻¹ * R) • pol else 0
        | _, _, _ => 0] := by
  rw [tensor_eq_spec flipX _ sensors (by intro e he; rw [List.mem_singleton.mp he]; simp [Entry.leaves]) hs]
  simp only [specTensor, List.map_cons, List.map_nil, List.flatMap_cons, List.flatMap_nil, Entry.leaves, List.append_nil]
  congr 1
  apply List.map_congr_left
  intro m _
  apply List.map_congr_left
  intro k hk
  apply List.map_congr_left
  intro x _
  obtain ⟨R, hR⟩ := clampGet_isSome s.ori hso m
  obtain ⟨p, hp⟩ := clampGet_isSome s.pos hsp m
  obtain ⟨S, hS⟩ := clampGet_isSome k.ori (hs k hk).1 m
  rw [j_in_observer_frame flipX s body pol hF k m x R S p hR hp hS (hright k hk), hR, hp, hS]
end jframe

/-- **on the carrier the driver computes with** (`M3 Int`, `V3 Int`; `⁻¹` = transpose — not a group): a scene whose
orientation matrices are octahedral is the image `toM3` of a scene over the group `Oct`, and the driver's `M3 Int`
evaluation of the pipeline — the one the `level2-jm` stream compares with the real getJ / getM of rotated Cuboids read by
rotated sensors — returns the tensor of the statement above, computed in `Oct` -/
theorem j_in_observer_frame_on_driver_carrier (flipX : V3 Int → V3 Int) (s : Src Oct (V3 Int)) (body : V3 Int → Bool)
    (pol : V3 Int) (hF : s.F = indicatorField body pol) (hso : s.ori ≠ []) (hsp : s.pos ≠ [])
    (sensors : List (Sens Oct (V3 Int))) (hs : ∀ k ∈ sensors, k.WF) (hright : ∀ k ∈ sensors, k.left = false) :
    tensor flipX [Entry.toM3 (.leaf s)] (sensors.map Sens.toM3) =
      [(List.range (pathLen [s] sensors)).map fun m => sensors.map fun k => (pixPos k m).map fun x =>
        match clampGet s.ori m, clampGet s.pos m, clampGet k.ori m with
        | some R, some p, some S => if body (R⁻¹ • (x - p)) then (S⁻¹ * R) • pol else 0
        | _, _, _ => 0] := by
  have h := tensor_at_Oct_eq_at_M3Int flipX [.leaf s] sensors
  simp only [List.map_cons, List.map_nil] at h
  rw [h]
  refine (j_in_observer_frame_end_to_end flipX s body pol hF hso hsp sensors hs hright).trans ?_
  congr 2
  funext m
  congr 1
  funext k
  congr 1
  funext x
  rcases clampGet s.ori m with _ | R <;> rcases clampGet s.pos m with _ | p <;> rcases clampGet k.ori m with _ | S <;> rfl

-- non-vacuity: a box magnet of edge lengths 3, 1, 1 rotated by 90° about z, polarization along its local x; the point
-- (0, 1, 0) lies in the ROTATED body (its long axis now points along y) and a sensor rotated by 90° about z reads the
-- polarization along its own x axis: S⁻¹·R = 1
open Level2.DriverExample in
example : level1 (G := M3 Int) (V := V3 Int)
    ⟨[⟨0, 0, 0⟩], [rotZ90], indicatorField (boxBody ⟨3, 1, 1⟩) ⟨1, 0, 0⟩⟩ 0 ⟨0, 1, 0⟩ = ⟨0, 1, 0⟩ ∧
    level1 (G := M3 Int) (V := V3 Int)
    ⟨[⟨0, 0, 0⟩], [rotZ90], indicatorField (boxBody ⟨3, 1, 1⟩) ⟨1, 0, 0⟩⟩ 0 ⟨1, 0, 0⟩ = 0 := by decide

end MagpyVerif.C02

/-! ## added by c05wrap: the masks the wrappers compute = geometry

Sphere (`sphere_j_is_indicator`), Cylinder (`cylinder_j_is_indicator`: stated for `bhjmCylinder`, the wrapper), Cuboid
(`cuboid_j_is_indicator`: `bhjmCuboid`, open box inflated by the relative 1e-15) and Tetrahedron (`tetra_j_is_indicator`:
`bhjmTetra`, convex hull) are wrapper-level statements already.  New: CylinderSegment. -/
namespace MagpyVerif.C02
open MagpyVerif MagpyVerif.Kern MagpyVerif.Kern.CylSeg

/-- the masks of `BHJM_cylinder_segment` on the normalised row (lengths in units of the outer radius, angle range shifted
into [−2π, 2π], azimuth in (−π, π]): off the tolerance band of the six surface tests — `close` (rtol = atol = 1e-12, `tolC`)
for `r = r1`, `r = r2`, `z = z1`, `z = z2` and the modulo test `onPhi` for the two bounding half-planes — no surface mask fires and
`mask_inside` is the open geometric segment; the observer azimuth is compared as `phi` and as `phi − sign(phi)·2π`, which covers
every full-turn copy -/
theorem cylseg_masks_are_geometric_off_band (μ : ℝ) (S : SegSpecial) (r phi z r1 r2 phi1 phi2 z1 z2 : ℝ)
    (hr : 0 ≤ r) (hr1 : 0 ≤ r1) (hlo : -Real.pi < phi) (hhi : phi ≤ Real.pi)
    (h1 : -(2 * Real.pi) ≤ phi1) (h12 : phi1 ≤ phi2) (h2 : phi2 ≤ 2 * Real.pi)
    (br1 : tolC + tolC * |r1| < |r - r1|) (br2 : tolC + tolC * |r2| < |r - r2|)
    (bz1 : tolC + tolC * |z1| < |z - z1|) (bz2 : tolC + tolC * |z2| < |z - z2|)
    (bp1 : ¬ onPhi phi phi1) (bp2 : ¬ onPhi phi phi2) :
    (@segMasks ℝ (realNumX μ S) r phi z r1 r2 phi1 phi2 z1 z2).notOnSurf = true ∧
    ((@segMasks ℝ (realNumX μ S) r phi z r1 r2 phi1 phi2 z1 z2).inside = true ↔
      (r1 < r ∧ r < r2) ∧ (z1 < z ∧ z < z2) ∧ ∃ k : ℤ, phi1 < phi + 2 * Real.pi * k ∧ phi + 2 * Real.pi * k < phi2) :=
  segMasks_off_band μ S r phi z r1 r2 phi1 phi2 z1 z2 hr hr1 hlo hhi h1 h12 h2 br1 br2 bz1 bz2 bp1 bp2

open Classical in
/-- **C02 (CylinderSegment): J of `BHJM_cylinder_segment` is the polarization on the open geometric segment
`r1 < ρ < r2 ∧ |z| < h/2 ∧ φ ∈ (φ1, φ2) mod 2π` and zero outside, for every observer off the tolerance band** — raw inputs, any
length unit, angles in degrees with `p1 ≤ p2 ≤ p1 + 360` in ANY range (the code's shift by full turns is part of the statement).
The band, with the code's relative tolerances explicit (`tolC = 1e-12`; lengths are measured in units of the outer radius, as
the code does): `|ρ − r_i| / r2 > tolC·(1 + r_i / r2)`, `|z ± h/2| / r2 > tolC·(1 + h / (2 r2))`, azimuth farther than
`tolC·(1 + 2π)` from every full-turn copy of the bounding half-planes.  Inside the band the surface masks may fire (then
J = 0 although the point may be interior by up to 1e-12 relative) — by design of the code, covered by `cylseg_consistent`. -/
theorem cylseg_j_is_indicator (μ : ℝ) (S : SegSpecial) (x : V3 ℝ) (r1 r2 h p1 p2 : ℝ) (pol : V3 ℝ)
    (hr1 : 0 ≤ r1) (hr2 : 0 < r2) (hh : 0 ≤ h) (h12 : p1 ≤ p2) (h360 : p2 ≤ p1 + 360)
    (br1 : tolC + tolC * (r1 / r2) < |Real.sqrt (x.x * x.x + x.y * x.y) / r2 - r1 / r2|)
    (br2 : tolC + tolC * 1 < |Real.sqrt (x.x * x.x + x.y * x.y) / r2 - 1|)
    (bz1 : tolC + tolC * (h / r2 / 2) < |x.z / r2 + h / r2 / 2|)
    (bz2 : tolC + tolC * (h / r2 / 2) < |x.z / r2 - h / r2 / 2|)
    (bp1 : ∀ k : ℤ, tolC * (1 + 2 * Real.pi) < |Complex.arg ⟨x.x, x.y⟩ - p1 / 180 * Real.pi - 2 * Real.pi * k|)
    (bp2 : ∀ k : ℤ, tolC * (1 + 2 * Real.pi) < |Complex.arg ⟨x.x, x.y⟩ - p2 / 180 * Real.pi - 2 * Real.pi * k|) :
    @bhjmCylSeg ℝ (realNumX μ S) .J x r1 r2 h p1 p2 pol =
      some (if (r1 < Real.sqrt (x.x * x.x + x.y * x.y) ∧ Real.sqrt (x.x * x.x + x.y * x.y) < r2) ∧ |x.z| < h / 2 ∧
          ∃ k : ℤ, p1 / 180 * Real.pi < Complex.arg ⟨x.x, x.y⟩ + 2 * Real.pi * k ∧
            Complex.arg ⟨x.x, x.y⟩ + 2 * Real.pi * k < p2 / 180 * Real.pi
        then pol else @zero3 ℝ (realNum μ)) :=
  bhjmCylSeg_J_indicator μ S x r1 r2 h p1 p2 pol hr1 hr2 hh h12 h360 br1 br2 bz1 bz2 bp1 bp2

/-- the azimuth hypothesis in the code's own terms: it implies that the code's modulo test fails against every full-turn copy
of the half-plane (the copy the normalisation selects included) -/
theorem cylseg_azimuth_band (phi P : ℝ) (hfar : ∀ k : ℤ, tolC * (1 + 2 * Real.pi) < |phi - P - 2 * Real.pi * k|) (t : ℤ) :
    ¬ onPhi phi (P - 2 * Real.pi * t) :=
  not_onPhi_of_far phi P hfar t

-- non-vacuity: CylinderSegment(dimension=(1, 2, 2, 630, 810)) — the range is given two turns up (= −90°..90°) — observer
-- (3/2, 0, 0) in the middle of the wall: every hypothesis holds and J = polarization
example (μ : ℝ) (S : SegSpecial) (pol : V3 ℝ) :
    @bhjmCylSeg ℝ (realNumX μ S) .J ⟨3 / 2, 0, 0⟩ 1 2 2 630 810 pol = some pol := by
  have hpi3 := Real.pi_gt_three
  have hpi4 := Real.pi_le_four
  have hs : Real.sqrt ((3 / 2 : ℝ) * (3 / 2) + 0 * 0) = 3 / 2 := by
    rw [mul_zero, add_zero, Real.sqrt_mul_self (by norm_num)]
  have ha : Complex.arg ⟨(3 / 2 : ℝ), 0⟩ = 0 := by
    have : (⟨(3 / 2 : ℝ), 0⟩ : ℂ) = ((3 / 2 : ℝ) : ℂ) := rfl
    rw [this, Complex.arg_ofReal_of_nonneg (by norm_num)]
  have htol : tolC * (1 + 2 * Real.pi) < 1 := by unfold tolC; nlinarith
  -- an odd multiple of π/2 is at least π/2 away from 0
  have far : ∀ (c : ℝ) (m : ℤ), c = Real.pi / 2 * (2 * m + 1) → tolC * (1 + 2 * Real.pi) < |c| := by
    intro c m hc
    rcases le_or_gt 0 m with hm | hm
    · have : (0 : ℝ) ≤ m := by exact_mod_cast hm
      rw [hc, abs_of_nonneg (by positivity)]
      nlinarith
    · have : (m : ℝ) ≤ -1 := by exact_mod_cast (by omega : m ≤ -1)
      rw [hc, abs_of_nonpos (by nlinarith)]
      nlinarith
  have h := cylseg_j_is_indicator μ S ⟨3 / 2, 0, 0⟩ 1 2 2 630 810 pol (by norm_num) (by norm_num) (by norm_num)
    (by norm_num) (by norm_num)
    (by simp only [hs]; unfold tolC; norm_num) (by simp only [hs]; unfold tolC; norm_num)
    (by unfold tolC; norm_num) (by unfold tolC; norm_num)
    (by intro k; simp only [ha]; exact far _ (-2 * k - 4) (by push_cast; ring))
    (by intro k; simp only [ha]; exact far _ (-2 * k - 5) (by push_cast; ring))
  rw [h, if_pos]
  refine ⟨by simp only [hs]; norm_num, by norm_num, 2, ?_, ?_⟩ <;> (simp only [ha]; push_cast; nlinarith)

/-! ## added by audit2 (second audit of the statements): what the c02sync theorems left open

* `final` (third conjunct of `excitation_sync`) is a fold the driver never runs: tied to `run`, which it prints;
* an example that APPLIES `excitation_sync` (the one above only evaluates `construct` / `run`);
* `hasInOut` is totalised (`getD false`: a class MISSING from the regenerated table counts as "has no `in_out`", which is what
  `inout_ignored` needs): the six rows are pinned, with the names of the core functions the models stand for;
* "truthful" in `tetra_inout_truthful` / `trimesh_inout_truthful` means "agrees with the code's OWN test" (`tetraInside`, resp.
  a free parameter `inside`): versions against the geometric body, and J / M under an override truthful w.r.t. ANY set;
* TriangularMesh was missing from `inout_consistent` (its docstring names six wrappers, its statement has four);
* the `level2-jm` driver entries use `Level2.boxBody` (integer closed box), tied to the Cuboid wrapper only by a comment:
  proved equal to `bhjmCuboid .J` on integer data;
* `j_in_observer_frame_on_driver_carrier` had no example that instantiates its hypotheses. -/

namespace MagpyVerif.C02
open MagpyVerif MagpyVerif.Kern MagpyVerif.Exc

/-- `final` (a fold; not run by the driver) is the state of the last element of `run` (the list the driver prints and the `exc`
stream compares), or the start state for the empty history — in every carrier, so also at `Float` -/
theorem final_eq_run_getLast {α : Type} [Num α] (st : St α) (ops : List (Exc.Op α)) :
    final st ops = ((run st ops).getLast?.map (·.1)).getD st := by
  induction ops generalizing st with
  | nil => rfl
  | cons op ops ih =>
    have h1 : final st (op :: ops) = final (step st op).1 ops := rfl
    rw [h1, ih]
    cases ops with
    | nil => rfl
    | cons op2 ops2 => simp [run, List.getLast?_cons]

-- `excitation_sync` APPLIED: Cuboid(polarization=(0,0,1)), then a valid magnetization, a refused value, `None`, a polarization
example : ∀ r ∈ @run ℝ (realNum 1) ⟨some ⟨0, 0, 1⟩, some (BinOp.apply .div ⟨0, 0, 1⟩ (@cPolToMag ℝ (realNum 1)))⟩
      [.setMag (.vec ⟨3000, 0, 0⟩), .setPol .bad, .setMag .none, .setPol (.vec ⟨1, 2, 3⟩)], InSync (muSet 1) r.1 :=
  (excitation_sync 1 false .none (.vec ⟨0, 0, 1⟩) _ _ rfl _).2.1

/-- the six rows of the regenerated signature table the model of `in_out` reads: each class IS in the table (so `hasInOut … =
false` is a fact about a signature, not the `getD false` of a missing row) and its core function is the one the model's
`cuboidL1` / `sphereL1` / `cylinderL1` / `cylSegL1` / `tetraL1` / `trimeshL1` stand for -/
theorem inout_table_rows :
    Gen.InOut.table.find? (fun r => r.1 == "Cuboid") = some ("Cuboid", "BHJM_magnet_cuboid", false) ∧
    Gen.InOut.table.find? (fun r => r.1 == "Sphere") = some ("Sphere", "BHJM_magnet_sphere", false) ∧
    Gen.InOut.table.find? (fun r => r.1 == "Cylinder") = some ("Cylinder", "BHJM_magnet_cylinder", false) ∧
    Gen.InOut.table.find? (fun r => r.1 == "CylinderSegment") =
      some ("CylinderSegment", "BHJM_cylinder_segment_internal", false) ∧
    Gen.InOut.table.find? (fun r => r.1 == "Tetrahedron") = some ("Tetrahedron", "BHJM_magnet_tetrahedron", true) ∧
    Gen.InOut.table.find? (fun r => r.1 == "TriangularMesh") = some ("TriangularMesh", "BHJM_magnet_trimesh", true) := by
  decide

end MagpyVerif.C02

namespace MagpyVerif.C02
open MagpyVerif MagpyVerif.Kern MagpyVerif.Kern.CylSeg

section
variable (μ : ℝ)

/-- `tetra_inout_truthful` against the GEOMETRIC body: for a non-degenerate tetrahedron, 'inside' given for a point of the
convex hull of the vertices, or 'outside' for a point not in it, changes none of the four fields -/
theorem tetra_inout_truthful_hull (io : InOut) (f : Field) (v0 v1 v2 v3 pol x : V3 ℝ)
    (hdt : det3 (v1 - v0) (v2 - v0) (v3 - v0) ≠ 0) : letI := realNum μ
    (io = .inside → ∃ t1 t2 t3 : ℝ, 0 ≤ t1 ∧ 0 ≤ t2 ∧ 0 ≤ t3 ∧ t1 + t2 + t3 ≤ 1 ∧
        x = v0 + vs t1 (v1 - v0) + vs t2 (v2 - v0) + vs t3 (v3 - v0)) →
    (io = .outside → ¬ ∃ t1 t2 t3 : ℝ, 0 ≤ t1 ∧ 0 ≤ t2 ∧ 0 ≤ t3 ∧ t1 + t2 + t3 ≤ 1 ∧
        x = v0 + vs t1 (v1 - v0) + vs t2 (v2 - v0) + vs t3 (v3 - v0)) →
    bhjmTetraIO io f v0 v1 v2 v3 pol x = bhjmTetra f v0 v1 v2 v3 pol x := by
  intro hi ho
  have key := tetraInside_iff_hull v0 v1 v2 v3 x hdt
  apply tetra_inout_truthful μ io f v0 v1 v2 v3 pol x
  · intro h; exact key.mpr (hi h)
  · intro h
    have h2 : ¬ (tetraInside v0 v1 v2 v3 x = true) := fun h3 => ho h (key.mp h3)
    exact Bool.eq_false_iff.mpr h2

open Classical in
/-- the property's clause "J = polarization inside, 0 outside" under a truthful override, for ANY set `body` (whatever the
vertices, also degenerate ones, and whatever the code's own test would say): with 'inside' given at a point of `body` or
'outside' at a point not in it, J is the indicator of `body` times the polarization and M = J/μ₀.  (By definition of
`point_inside`'s two early returns — the content is that the override is what decides.) -/
theorem tetra_inout_override_j (io : InOut) (hio : io = .inside ∨ io = .outside) (body : V3 ℝ → Prop)
    (v0 v1 v2 v3 pol x : V3 ℝ) (hi : io = .inside → body x) (ho : io = .outside → ¬ body x) : letI := realNum μ
    bhjmTetraIO io .J v0 v1 v2 v3 pol x = (if body x then pol else zero3) ∧
    bhjmTetraIO io .M v0 v1 v2 v3 pol x = vd (if body x then pol else zero3) μ := by
  rcases hio with rfl | rfl
  · simp only [bhjmTetraIO, pointInsideIO, if_pos (hi rfl)]; exact ⟨rfl, rfl⟩
  · simp only [bhjmTetraIO, pointInsideIO, if_neg (ho rfl)]; exact ⟨by simp, by simp⟩

open Classical in
/-- the same for a TriangularMesh row — here it matters: the code's own test (ray casting) is NOT the geometric inside
predicate (`trimesh_ray_test_misses_interior_point`), a truthful override w.r.t. the real body repairs J / M -/
theorem trimesh_inout_override_j {M : Type} (io : InOut) (hio : io = .inside ∨ io = .outside) (body : V3 ℝ → Prop)
    (meshId : MeshRow ℝ → M) (inside : M → V3 ℝ → Bool) (r : MeshRow ℝ)
    (hi : io = .inside → body r.obs) (ho : io = .outside → ¬ body r.obs) : letI := realNum μ
    bhjmTrimeshRow .J meshId (insideIO io inside) r = (if body r.obs then r.pol else zero3) ∧
    bhjmTrimeshRow .M meshId (insideIO io inside) r = vd (if body r.obs then r.pol else zero3) μ := by
  have h := trimesh_inout_inside_outside μ meshId inside r
  simp only at h
  rcases hio with rfl | rfl
  · simp only [if_pos (hi rfl)]; exact ⟨h.1, h.2.1⟩
  · simp only [if_neg (ho rfl)]
    refine ⟨h.2.2.1, ?_⟩
    rw [h.2.2.2.1]
    apply V3.ext' <;> simp [vd, zero3, n]

/-- **TriangularMesh as getBH_level1 calls it, all modes** (the conjunct missing from `inout_consistent`): for every field the
call returns, row by row, the one-row function with the verdict `insideIO`, and every row satisfies B = μ₀H + J, J = μ₀M -/
theorem inout_consistent_trimesh (hμ : μ ≠ 0) {M : Type} [DecidableEq M] (io : InOut) (meshId : MeshRow ℝ → M)
    (inside : M → V3 ℝ → Bool) (rows : List (MeshRow ℝ)) : letI := realNum μ
    (∀ f : Field, trimeshL1 io f meshId inside rows = some (rows.map (bhjmTrimeshRow f meshId (insideIO io inside)))) ∧
    ∀ r ∈ rows, bhjmTrimeshRow .B meshId (insideIO io inside) r =
        vs μ (bhjmTrimeshRow .H meshId (insideIO io inside) r) + bhjmTrimeshRow .J meshId (insideIO io inside) r ∧
      bhjmTrimeshRow .J meshId (insideIO io inside) r = vs μ (bhjmTrimeshRow .M meshId (insideIO io inside) r) := by
  refine ⟨fun f => ?_, fun r _ => trimesh_inout_consistent μ hμ io meshId inside r⟩
  rw [(inout_passed μ io f).2, trimesh_inout_rowwise μ]
end

-- `tetra_inout_truthful` APPLIED: (1/4, 1/4, 1/4) lies in the unit tetrahedron, 'inside' given: B is the B of 'auto'
example : letI := realNum 1
    bhjmTetraIO .inside .B (⟨0, 0, 0⟩ : V3 ℝ) ⟨1, 0, 0⟩ ⟨0, 1, 0⟩ ⟨0, 0, 1⟩ ⟨0, 0, 1⟩ ⟨1/4, 1/4, 1/4⟩ =
    bhjmTetra .B (⟨0, 0, 0⟩ : V3 ℝ) ⟨1, 0, 0⟩ ⟨0, 1, 0⟩ ⟨0, 0, 1⟩ ⟨0, 0, 1⟩ ⟨1/4, 1/4, 1/4⟩ := by
  apply tetra_inout_truthful 1 .inside .B
  · intro _
    simp [tetraInside, det3, n]
    norm_num
  · intro h; cases h

end MagpyVerif.C02

namespace MagpyVerif.C02
open MagpyVerif MagpyVerif.Kern MagpyVerif.Level2

/-- one coordinate: on integers the closed-box test of `Level2.boxBody` is the Cuboid wrapper's open test inflated by 1e-15 -/
theorem boxCoord_iff (d a : Int) (hd : 0 < d) (hd' : d ≤ 1000000000000000) :
    (|(a : ℝ)| < (1 + 1 / 1000000000000000) * ((d : ℝ) / 2)) ↔ (-d ≤ 2 * a ∧ 2 * a ≤ d) := by
  have hdR : (0 : ℝ) < d := by exact_mod_cast hd
  have hdR' : (d : ℝ) ≤ 1000000000000000 := by exact_mod_cast hd'
  constructor
  · intro h
    rw [abs_lt] at h
    constructor
    · by_contra hc
      have : 2 * a + 1 ≤ -d := by omega
      have hR : (2 * (a : ℝ) + 1 ≤ -(d : ℝ)) := by exact_mod_cast this
      nlinarith [h.1]
    · by_contra hc
      have : d + 1 ≤ 2 * a := by omega
      have hR : ((d : ℝ) + 1 ≤ 2 * (a : ℝ)) := by exact_mod_cast this
      nlinarith [h.2]
  · rintro ⟨h1, h2⟩
    have h1R : (-(d : ℝ) ≤ 2 * (a : ℝ)) := by exact_mod_cast h1
    have h2R : (2 * (a : ℝ) ≤ (d : ℝ)) := by exact_mod_cast h2
    rw [abs_lt]
    constructor <;> nlinarith

/-- **the local-frame field function of the `level2-jm` driver entries IS the Cuboid wrapper model on integer data**: for
integer edge lengths in (0, 10¹⁵] and integer observers, `bhjmCuboid .J` (the kernel model the `kern` stream ties to
`BHJM_magnet_cuboid`) is `indicatorField (boxBody dim) pol` — the hypothesis `hF` of `j_in_observer_frame…` for the scenes the
stream sends (before this only a comment in Model/Level2.lean) -/
theorem boxBody_is_cuboid_mask (μ : ℝ) (dim x : V3 Int) (pol : V3 ℝ)
    (hx : 0 < dim.x) (hy : 0 < dim.y) (hz : 0 < dim.z)
    (hx' : dim.x ≤ 1000000000000000) (hy' : dim.y ≤ 1000000000000000) (hz' : dim.z ≤ 1000000000000000) :
    letI := realNum μ
    bhjmCuboid .J (⟨dim.x, dim.y, dim.z⟩ : V3 ℝ) pol ⟨x.x, x.y, x.z⟩ = if boxBody dim x then pol else zero3 := by
  have hxR : (0 : ℝ) < dim.x := by exact_mod_cast hx
  have hyR : (0 : ℝ) < dim.y := by exact_mod_cast hy
  have hzR : (0 : ℝ) < dim.z := by exact_mod_cast hz
  rw [cuboid_j_is_indicator μ _ pol _ hxR hyR hzR]
  simp only [boxCoord_iff _ _ hx hx', boxCoord_iff _ _ hy hy', boxCoord_iff _ _ hz hz', boxBody, decide_eq_true_eq,
    and_assoc]

-- `j_in_observer_frame_on_driver_carrier` APPLIED (all hypotheses instantiated): the 3×1×1 box rotated by 90° about z, a
-- right-handed two-pixel sensor rotated by 90° about z at the origin; pixel (1,0,0) sits at (0,1,0) — inside the rotated
-- body, reads the polarization along its own x axis —, pixel (0,1,0) sits at (-1,0,0) — outside, reads 0
open Level2.DriverExample in
example (flipX : V3 Int → V3 Int) :
    tensor flipX
      [Entry.toM3 (.leaf (⟨[⟨0, 0, 0⟩], [⟨rotZ90, isOct_rotZ90⟩], indicatorField (boxBody ⟨3, 1, 1⟩) ⟨1, 0, 0⟩⟩ :
        Src Oct (V3 Int)))]
      ([(⟨[⟨0, 0, 0⟩], [⟨rotZ90, isOct_rotZ90⟩], [⟨1, 0, 0⟩, ⟨0, 1, 0⟩], [2], false⟩ : Sens Oct (V3 Int))].map Sens.toM3) =
      [[[[⟨1, 0, 0⟩, 0]]]] := by
  rw [j_in_observer_frame_on_driver_carrier flipX _ (boxBody ⟨3, 1, 1⟩) ⟨1, 0, 0⟩ rfl (by simp) (by simp) _
    (by simp [Sens.WF, pixNum]; rfl) (by simp)]
  decide

end MagpyVerif.C02

namespace MagpyVerif.C02
open MagpyVerif MagpyVerif.Kern

/-- the property's clause "J is identically zero for currents, dipoles and triangle sheets" made explicit for Dipole and
Triangle (`dipole_consistent` / `triangle_consistent` only state the two relations; Circle: `circle_consistent`, Polyline row:
`polyline_segment_consistent`).  Holds by definition of the two ported wrappers (their J / M branches return zeros); the content
is the port, tied by the `kern` stream kinds `dipole` / `triangle` with all four fields requested. -/
theorem dipole_triangle_j_zero (μ : ℝ) (m x v0 v1 v2 pol : V3 ℝ) : letI := realNum μ
    bhjmDipole .J m x = zero3 ∧ bhjmDipole .M m x = zero3 ∧
    bhjmTriangle .J v0 v1 v2 pol x = zero3 ∧ bhjmTriangle .M v0 v1 v2 pol x = zero3 := ⟨rfl, rfl, rfl, rfl⟩

end MagpyVerif.C02
