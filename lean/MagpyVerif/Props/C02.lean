/-
Props/C02.lean — B = μ₀H + J everywhere; J = μ₀M; J is the indicator of the body times the
polarization.  Wrapper models: Model/Kernels.lean (the closed-form core is a parameter, so the
statements hold whatever the core returns — at surfaces, edges, corners and for every special
case).  `μ` is an arbitrary non-zero value of mu_0.
-/
import MagpyVerif.Lemmas.KernReal
import MagpyVerif.Lemmas.KernAlgebra
import MagpyVerif.Gen.Const
namespace MagpyVerif.C02
open MagpyVerif MagpyVerif.Kern

section
variable (μ : ℝ) (hμ : μ ≠ 0)
include hμ

theorem wrapB_consistent (inside general : Bool) (pol core : V3 ℝ) :
    letI := realNum μ
    wrapB .B inside general pol core = vs μ (wrapB .H inside general pol core) + wrapB .J inside general pol core ∧
    wrapB .J inside general pol core = vs μ (wrapB .M inside general pol core) := by
  constructor <;> cases inside <;> cases general <;>
    (apply V3.ext' <;> simp [wrapB, vs, vd, zero3, n] <;> (try field_simp) <;> (try ring))

theorem wrapH_consistent (inside : Bool) (pol core : V3 ℝ) :
    letI := realNum μ
    wrapH .B inside pol core = vs μ (wrapH .H inside pol core) + wrapH .J inside pol core ∧
    wrapH .J inside pol core = vs μ (wrapH .M inside pol core) := by
  constructor <;> cases inside <;>
    (apply V3.ext' <;> simp [wrapH, vs, vd, zero3, n] <;> (try field_simp) <;> (try ring))

theorem wrapCylinder_consistent (inside onEdge : Bool) (pol ax tv : V3 ℝ) :
    letI := realNum μ
    wrapCylinder .B inside onEdge pol ax tv =
      vs μ (wrapCylinder .H inside onEdge pol ax tv) + wrapCylinder .J inside onEdge pol ax tv ∧
    wrapCylinder .J inside onEdge pol ax tv = vs μ (wrapCylinder .M inside onEdge pol ax tv) := by
  constructor <;> cases inside <;> cases onEdge <;>
    (apply V3.ext' <;> simp [wrapCylinder, vs, vd, zero3, n] <;> (try field_simp) <;> (try ring))

theorem wrapSegment_consistent (inside notOnSurf : Bool) (pol core : V3 ℝ) :
    letI := realNum μ
    wrapSegment .B inside notOnSurf pol core =
      vs μ (wrapSegment .H inside notOnSurf pol core) + wrapSegment .J inside notOnSurf pol core ∧
    wrapSegment .J inside notOnSurf pol core = vs μ (wrapSegment .M inside notOnSurf pol core) := by
  constructor <;> cases inside <;> cases notOnSurf <;>
    (apply V3.ext' <;> simp [wrapSegment, vs, vd, zero3, n] <;> (try field_simp) <;> (try ring))

theorem sphere_consistent (d : ℝ) (pol x : V3 ℝ) :
    letI := realNum μ
    bhjmSphere .B d pol x = vs μ (bhjmSphere .H d pol x) + bhjmSphere .J d pol x ∧
    bhjmSphere .J d pol x = vs μ (bhjmSphere .M d pol x) := by
  simp only [bhjmSphere]
  generalize (@Num.lt ℝ (realNum μ) _ _) = out
  constructor <;> cases out <;>
    (apply V3.ext' <;> simp [vs, vd, zero3, n] <;> (try field_simp) <;> (try ring))

theorem dipole_consistent (m x : V3 ℝ) :
    letI := realNum μ
    bhjmDipole .B m x = vs μ (bhjmDipole .H m x) + bhjmDipole .J m x ∧
    bhjmDipole .J m x = vs μ (bhjmDipole .M m x) := by
  constructor <;> (apply V3.ext' <;> simp [bhjmDipole, vs, zero3, n])

/-- J is the body's polarization inside and zero outside: Sphere, with the body `|x| ≤ |d|/2` -/
theorem sphere_j_is_indicator (d : ℝ) (pol x : V3 ℝ) :
    letI := realNum μ
    bhjmSphere .J d pol x = if Kern.norm x ≤ |d| / 2 then pol else zero3 := by
  letI := realNum μ
  simp only [bhjmSphere, lt_real, abs_real, n, ofNat_real, Nat.cast_ofNat]
  by_cases h : |d| / 2 < Kern.norm x
  · have h' : ¬ Kern.norm x ≤ |d| / 2 := not_le.mpr h
    simp only [h, h', decide_true, if_true, if_false]
  · have h' : Kern.norm x ≤ |d| / 2 := not_lt.mp h
    simp only [h, h', decide_false, if_true]
    rfl

/-- C02 (Triangle): `BHJM_triangle` reports J = M = 0 (a charged sheet has no volume) and
H = B/μ₀, so B = μ₀H + J and J = μ₀M at every observer -/
theorem triangle_consistent (v0 v1 v2 pol x : V3 ℝ) :
    letI := realNum μ
    bhjmTriangle .B v0 v1 v2 pol x = vs μ (bhjmTriangle .H v0 v1 v2 pol x) + bhjmTriangle .J v0 v1 v2 pol x ∧
    bhjmTriangle .J v0 v1 v2 pol x = vs μ (bhjmTriangle .M v0 v1 v2 pol x) := by
  simp only [bhjmTriangle]
  generalize @triangleB ℝ (realNum μ) v0 v1 v2 pol x = t
  constructor <;> (apply V3.ext' <;> simp [vs, vd, zero3, n] <;> field_simp)

/-- C02 (Tetrahedron): B = μ₀H + J and J = μ₀M for **every** observer, inside or outside, of
either handedness of the vertex order.  The J/M branch runs the inside test on the vertices as
given, the B branch on the chirality-fixed vertices: the two tests agree
(`tetraInside_chirality`), which is what makes the `+ pol` of the B branch equal to J. -/
theorem tetra_consistent (v0 v1 v2 v3 pol x : V3 ℝ) :
    letI := realNum μ
    bhjmTetra .B v0 v1 v2 v3 pol x = vs μ (bhjmTetra .H v0 v1 v2 v3 pol x) + bhjmTetra .J v0 v1 v2 v3 pol x ∧
    bhjmTetra .J v0 v1 v2 v3 pol x = vs μ (bhjmTetra .M v0 v1 v2 v3 pol x) := by
  simp only [tetra_wrapH' μ]
  exact wrapH_consistent μ hμ _ _ _

/-- C02 (Circle): J = M = 0, and B is μ₀ times H — as `Option`s (B is computed iff H is), hence
B = μ₀H + J whenever the result is `some` (both cel iterations returned) -/
theorem circle_consistent (fuel : Nat) (d cur : ℝ) (x : V3 ℝ) :
    letI := realNum μ
    bhjmCircle fuel .J d cur x = some zero3 ∧ bhjmCircle fuel .M d cur x = some zero3 ∧
    bhjmCircle fuel .B d cur x = (bhjmCircle fuel .H d cur x).map (vs μ) ∧
    ∀ b h, bhjmCircle fuel .B d cur x = some b → bhjmCircle fuel .H d cur x = some h →
      b = vs μ h + zero3 ∧ (zero3 : V3 ℝ) = vs μ zero3 := by
  refine ⟨rfl, rfl, rfl, ?_⟩
  intro b h hb hh
  rw [bhjmCircle_B_eq, hh] at hb
  simp only [Option.map_some, Option.some.injEq] at hb
  subst hb
  exact ⟨(add_zero3 μ _).symm, (vs_zero3 μ μ).symm⟩
end

-- non-vacuity (μ = 1): a left-handed tetrahedron with an observer inside — the chirality swap
-- happens and J = pol ≠ 0 there, so the agreement of the two inside tests is exercised
example : letI := realNum 1
    tetraChirality (⟨0, 0, 0⟩ : V3 ℝ) ⟨1, 0, 0⟩ ⟨0, 0, 1⟩ ⟨0, 1, 0⟩ = (⟨0, 0, 0⟩, ⟨1, 0, 0⟩, ⟨0, 1, 0⟩, ⟨0, 0, 1⟩) ∧
    bhjmTetra .J (⟨0, 0, 0⟩ : V3 ℝ) ⟨1, 0, 0⟩ ⟨0, 0, 1⟩ ⟨0, 1, 0⟩ ⟨0, 0, 1⟩ ⟨1 / 4, 1 / 4, 1 / 4⟩ = ⟨0, 0, 1⟩ := by
  constructor
  · simp [tetraChirality, det3, n]
  · simp [bhjmTetra, tetraInside, det3, n]
    norm_num
-- on-axis Circle: the result is `some`, H ≠ 0
example : letI := realNum 1
    bhjmCircle 200 .H 2 1 (⟨0, 0, 0⟩ : V3 ℝ) = some ⟨0, 0, 1 / 2⟩ := by
  simp [bhjmCircle, n]

/-- FULL (`mu0_single`): every place where a value for mu_0 enters the package is the exported
constant.  False on the current tree: the two magnetization/polarization setters spell out
4π·1e-7 (known finding, pinned by an existing test).  Proved: everywhere else it is the
exported scipy constant, and the spelled-out literals are exactly those two sites — a new
literal anywhere breaks this `decide`. -/
theorem mu0_single_partial :
    (Gen.Const.mu0Sites.filter (fun s => s.2.2.1 != "scipy")).map (fun s => s.1) =
      ["magpylib/_src/obj_classes/class_BaseExcitations.py", "magpylib/_src/obj_classes/class_BaseExcitations.py"] := by
  decide

/-- the field modules all take mu_0 from scipy (= `magpylib.mu_0`) -/
theorem mu0_fields_use_exported :
    (Gen.Const.mu0Sites.filter (fun s => s.2.2.2)).all (fun s => s.2.2.1 == "scipy") = true := by
  decide

end MagpyVerif.C02
