/-
Props/C02.lean — B = μ₀H + J everywhere; J = μ₀M; J is the indicator of the body times the
polarization.  Wrapper models: Model/Kernels.lean (the closed-form core is a parameter, so the
statements hold whatever the core returns — at surfaces, edges, corners and for every special
case).  `μ` is an arbitrary non-zero value of mu_0.  Cylinder: the full port of `BHJM_magnet_cylinder`
(Model/Cylinder.lean) is shown to be `wrapCylinder` of its own masks and cores, hence consistent at
every observer, and its inside mask is the closed geometric cylinder (Lemmas/KernCylinder.lean).
-/
import MagpyVerif.Lemmas.KernCylSeg
import MagpyVerif.Lemmas.KernReal
import MagpyVerif.Lemmas.KernelLiterals
import MagpyVerif.Lemmas.KernAlgebra
import MagpyVerif.Lemmas.KernCylinder
import MagpyVerif.Gen.Const
import MagpyVerif.Lemmas.TrimeshInside
import MagpyVerif.Props.C15
import MagpyVerif.Model.Polyline
namespace MagpyVerif.C02
open MagpyVerif MagpyVerif.Kern

section
variable (μ : ℝ) (hμ : μ ≠ 0)
include hμ

theorem wrapB_consistent (inside general : Bool) (pol core : V3 ℝ) :
    letI := realNum μ
    wrapB .B inside general pol core = vs μ (wrapB .H inside general pol core) + wrapB .J inside general pol core ∧
    wrapB .J inside general pol core = vs μ (wrapB .M inside general pol core) := by
  constructor <;> cases inside <;> cases general <;>
    (apply V3.ext' <;> simp [wrapB, vs, vd, zero3, n] <;> (try field_simp) <;> (try ring))

theorem wrapH_consistent (inside : Bool) (pol core : V3 ℝ) :
    letI := realNum μ
    wrapH .B inside pol core = vs μ (wrapH .H inside pol core) + wrapH .J inside pol core ∧
    wrapH .J inside pol core = vs μ (wrapH .M inside pol core) := by
  constructor <;> cases inside <;>
    (apply V3.ext' <;> simp [wrapH, vs, vd, zero3, n] <;> (try field_simp) <;> (try ring))

theorem wrapCylinder_consistent (inside onEdge : Bool) (pol ax tv : V3 ℝ) :
    letI := realNum μ
    wrapCylinder .B inside onEdge pol ax tv =
      vs μ (wrapCylinder .H inside onEdge pol ax tv) + wrapCylinder .J inside onEdge pol ax tv ∧
    wrapCylinder .J inside onEdge pol ax tv = vs μ (wrapCylinder .M inside onEdge pol ax tv) := by
  constructor <;> cases inside <;> cases onEdge <;>
    (apply V3.ext' <;> simp [wrapCylinder, vs, vd, zero3, n] <;> (try field_simp) <;> (try ring))

theorem wrapSegment_consistent (inside notOnSurf : Bool) (pol core : V3 ℝ) :
    letI := realNum μ
    wrapSegment .B inside notOnSurf pol core =
      vs μ (wrapSegment .H inside notOnSurf pol core) + wrapSegment .J inside notOnSurf pol core ∧
    wrapSegment .J inside notOnSurf pol core = vs μ (wrapSegment .M inside notOnSurf pol core) := by
  constructor <;> cases inside <;> cases notOnSurf <;>
    (apply V3.ext' <;> simp [wrapSegment, vs, vd, zero3, n] <;> (try field_simp) <;> (try ring))

theorem sphere_consistent (d : ℝ) (pol x : V3 ℝ) :
    letI := realNum μ
    bhjmSphere .B d pol x = vs μ (bhjmSphere .H d pol x) + bhjmSphere .J d pol x ∧
    bhjmSphere .J d pol x = vs μ (bhjmSphere .M d pol x) := by
  simp only [bhjmSphere]
  generalize (@Num.lt ℝ (realNum μ) _ _) = out
  constructor <;> cases out <;>
    (apply V3.ext' <;> simp [vs, vd, zero3, n] <;> (try field_simp) <;> (try ring))

theorem dipole_consistent (m x : V3 ℝ) :
    letI := realNum μ
    bhjmDipole .B m x = vs μ (bhjmDipole .H m x) + bhjmDipole .J m x ∧
    bhjmDipole .J m x = vs μ (bhjmDipole .M m x) := by
  constructor <;> (apply V3.ext' <;> simp [bhjmDipole, vs, zero3, n])

/-- J is the body's polarization inside and zero outside: Sphere, with the body `|x| ≤ |d|/2` -/
theorem sphere_j_is_indicator (d : ℝ) (pol x : V3 ℝ) :
    letI := realNum μ
    bhjmSphere .J d pol x = if Kern.norm x ≤ |d| / 2 then pol else zero3 := by
  letI := realNum μ
  simp only [bhjmSphere, lt_real, abs_real, n, ofNat_real, Nat.cast_ofNat]
  by_cases h : |d| / 2 < Kern.norm x
  · have h' : ¬ Kern.norm x ≤ |d| / 2 := not_le.mpr h
    simp only [h, h', decide_true, if_true, if_false]
  · have h' : Kern.norm x ≤ |d| / 2 := not_lt.mp h
    simp only [h, h', decide_false, if_true]
    rfl

/-- C02 (Triangle): `BHJM_triangle` reports J = M = 0 (a charged sheet has no volume) and
H = B/μ₀, so B = μ₀H + J and J = μ₀M at every observer -/
theorem triangle_consistent (v0 v1 v2 pol x : V3 ℝ) :
    letI := realNum μ
    bhjmTriangle .B v0 v1 v2 pol x = vs μ (bhjmTriangle .H v0 v1 v2 pol x) + bhjmTriangle .J v0 v1 v2 pol x ∧
    bhjmTriangle .J v0 v1 v2 pol x = vs μ (bhjmTriangle .M v0 v1 v2 pol x) := by
  simp only [bhjmTriangle]
  generalize @triangleB ℝ (realNum μ) v0 v1 v2 pol x = t
  constructor <;> (apply V3.ext' <;> simp [vs, vd, zero3, n] <;> field_simp)

/-- C02 (Tetrahedron): B = μ₀H + J and J = μ₀M for **every** observer, inside or outside, of
either handedness of the vertex order.  The J/M branch runs the inside test on the vertices as
given, the B branch on the chirality-fixed vertices: the two tests agree
(`tetraInside_chirality`), which is what makes the `+ pol` of the B branch equal to J. -/
theorem tetra_consistent (v0 v1 v2 v3 pol x : V3 ℝ) :
    letI := realNum μ
    bhjmTetra .B v0 v1 v2 v3 pol x = vs μ (bhjmTetra .H v0 v1 v2 v3 pol x) + bhjmTetra .J v0 v1 v2 v3 pol x ∧
    bhjmTetra .J v0 v1 v2 v3 pol x = vs μ (bhjmTetra .M v0 v1 v2 v3 pol x) := by
  simp only [tetra_wrapH' μ]
  exact wrapH_consistent μ hμ _ _ _

/-- C02 (Circle): J = M = 0, and B is μ₀ times H — as `Option`s (B is computed iff H is), hence
B = μ₀H + J whenever the result is `some` (both cel iterations returned) -/
theorem circle_consistent (fuel : Nat) (d cur : ℝ) (x : V3 ℝ) :
    letI := realNum μ
    bhjmCircle fuel .J d cur x = some zero3 ∧ bhjmCircle fuel .M d cur x = some zero3 ∧
    bhjmCircle fuel .B d cur x = (bhjmCircle fuel .H d cur x).map (vs μ) ∧
    ∀ b h, bhjmCircle fuel .B d cur x = some b → bhjmCircle fuel .H d cur x = some h →
      b = vs μ h + zero3 ∧ (zero3 : V3 ℝ) = vs μ zero3 := by
  refine ⟨rfl, rfl, rfl, ?_⟩
  intro b h hb hh
  rw [bhjmCircle_B_eq, hh] at hb
  simp only [Option.map_some, Option.some.injEq] at hb
  subst hb
  exact ⟨(add_zero3 μ _).symm, (vs_zero3 μ μ).symm⟩
/-- C02 (Cylinder): the ported `BHJM_magnet_cylinder` (Model/Cylinder.lean: cylinder coordinates,
division by r0, all masks, transversal and axial contributions, rotation back, inside terms, on-edge
rule) **is** the abstract dispatch `wrapCylinder` applied to the code's own inside / on-edge masks and
to the two Cartesian core contributions `cylCoreAx` (axial kernel · pol_z) and `cylCoreTv`
(diametral kernel · pol_xy): J and M always, B and H whenever the elliptic integrals of the cores
return (`none` = a `cel0` call failed), and B is computed iff H is. -/
theorem cylinder_is_wrapCylinder (fuel : Nat) (dim : ℝ × ℝ) (pol x : V3 ℝ) :
    letI := realNum μ
    let r0 := dim.1 / 2
    let z0 := dim.2 / 2 / r0
    let r := Real.sqrt (x.x * x.x + x.y * x.y) / r0
    let z := x.z / r0
    let phi := Complex.arg ⟨x.x, x.y⟩
    let m := cylMasks z0 r z
    (∀ ax tv, bhjmCylinder fuel .J dim pol x = some (wrapCylinder .J m.inside m.onEdge pol ax tv) ∧
      bhjmCylinder fuel .M dim pol x = some (wrapCylinder .M m.inside m.onEdge pol ax tv)) ∧
    (∀ f, f = Field.B ∨ f = Field.H → bhjmCylinder fuel f dim pol x =
      (cylCoreTv μ fuel z0 r z phi pol).bind fun tv => (cylCoreAx μ fuel z0 r z phi pol).map fun ax =>
        wrapCylinder f m.inside m.onEdge pol ax tv) := by
  refine ⟨fun ax tv => ?_, fun f hf => ?_⟩
  · exact bhjmCylinderRow_JM μ fuel _ _ _ (Complex.arg ⟨x.x, x.y⟩) pol ax tv
  · exact bhjmCylinderRow_eq_wrap μ fuel f hf _ _ _ _ pol

/-- C02 (Cylinder): B = μ₀H + J and J = μ₀M for **every** observer of `BHJM_magnet_cylinder` — inside,
outside, on the hull, on the bases, on the edge (B = 0, H = −J/μ₀ there), on the axis, for axial,
transversal, mixed and zero polarization: J and M are always returned; B is returned iff H is
(the same `cel0` calls), and then the identity holds. -/
theorem cylinder_consistent (fuel : Nat) (dim : ℝ × ℝ) (pol x : V3 ℝ) :
    letI := realNum μ
    ∃ j m, bhjmCylinder fuel .J dim pol x = some j ∧ bhjmCylinder fuel .M dim pol x = some m ∧ j = vs μ m ∧
      (bhjmCylinder fuel .B dim pol x).isSome = (bhjmCylinder fuel .H dim pol x).isSome ∧
      ∀ b h, bhjmCylinder fuel .B dim pol x = some b → bhjmCylinder fuel .H dim pol x = some h →
        b = vs μ h + j := by
  let _ := realNum μ
  obtain ⟨hJM, hBH⟩ := cylinder_is_wrapCylinder μ hμ fuel dim pol x
  obtain ⟨hJ, hM⟩ := hJM ⟨0, 0, 0⟩ ⟨0, 0, 0⟩
  have hB := hBH .B (Or.inl rfl)
  have hH := hBH .H (Or.inr rfl)
  refine ⟨_, _, hJ, hM, (wrapCylinder_consistent μ hμ _ _ pol _ _).2, ?_, ?_⟩
  · rw [hB, hH]
    rcases cylCoreTv μ fuel _ _ _ _ pol with _ | tv
    · rfl
    · rcases cylCoreAx μ fuel _ _ _ _ pol with _ | ax <;> rfl
  · intro b h
    rw [hB, hH]
    rcases cylCoreTv μ fuel _ _ _ _ pol with _ | tv
    · intro eb; simp at eb
    · rcases cylCoreAx μ fuel _ _ _ _ pol with _ | ax
      · intro eb; simp at eb
      · intro eb eh
        simp only [Option.bind_some, Option.map_some, Option.some.injEq] at eb eh
        subst eb eh
        exact (wrapCylinder_consistent μ hμ _ _ pol ax tv).1

/-- C02 (Cylinder): J is the polarization on the closed geometric cylinder `|z| ≤ h/2 ∧ √(x²+y²) ≤ d/2`
and zero outside — the code's mask (comparisons of the quotients by r0) is the geometric body, for
every positive diameter -/
theorem cylinder_j_is_indicator (fuel : Nat) (d h : ℝ) (hd : 0 < d) (pol x : V3 ℝ) :
    letI := realNum μ
    bhjmCylinder fuel .J (d, h) pol x =
      some (if |x.z| ≤ h / 2 ∧ Real.sqrt (x.x * x.x + x.y * x.y) ≤ d / 2 then pol else zero3) := by
  let _ := realNum μ
  have hr0 : (0 : ℝ) < d / 2 := by positivity
  have key := cylMasks_inside_iff μ (d / 2) (h / 2) (Real.sqrt (x.x * x.x + x.y * x.y)) x.z hr0
  unfold bhjmCylinder bhjmCylinderRow
  simp only [Option.some.injEq]
  split_ifs with h1 h2 h2
  · rfl
  · exact absurd (key.mp h1) h2
  · exact absurd (key.mpr h2) h1
  · rfl
end

-- non-vacuity (μ = 1): a left-handed tetrahedron with an observer inside — the chirality swap
-- happens and J = pol ≠ 0 there, so the agreement of the two inside tests is exercised
example : letI := realNum 1
    tetraChirality (⟨0, 0, 0⟩ : V3 ℝ) ⟨1, 0, 0⟩ ⟨0, 0, 1⟩ ⟨0, 1, 0⟩ = (⟨0, 0, 0⟩, ⟨1, 0, 0⟩, ⟨0, 1, 0⟩, ⟨0, 0, 1⟩) ∧
    bhjmTetra .J (⟨0, 0, 0⟩ : V3 ℝ) ⟨1, 0, 0⟩ ⟨0, 0, 1⟩ ⟨0, 1, 0⟩ ⟨0, 0, 1⟩ ⟨1 / 4, 1 / 4, 1 / 4⟩ = ⟨0, 0, 1⟩ := by
  constructor
  · simp [tetraChirality, det3, n]
  · simp [bhjmTetra, tetraInside, det3, n]
    norm_num
-- on-axis Circle: the result is `some`, H ≠ 0
example : letI := realNum 1
    bhjmCircle 200 .H 2 1 (⟨0, 0, 0⟩ : V3 ℝ) = some ⟨0, 0, 1 / 2⟩ := by
  simp [bhjmCircle, n]

-- Cylinder (μ = 1): an observer exactly on the edge of the cylinder of diameter 2 and height 2 — the on-edge rule
-- fires (no elliptic integral is evaluated: fuel 0 suffices): B = 0, H = −J/μ₀, J = pol ≠ 0
example : letI := realNum 1
    bhjmCylinder 0 .B (2, 2) ⟨0, 0, 1⟩ (⟨1, 0, 1⟩ : V3 ℝ) = some ⟨0, 0, 0⟩ ∧
    bhjmCylinder 0 .H (2, 2) ⟨0, 0, 1⟩ (⟨1, 0, 1⟩ : V3 ℝ) = some ⟨0, 0, -1⟩ ∧
    bhjmCylinder 0 .J (2, 2) ⟨0, 0, 1⟩ (⟨1, 0, 1⟩ : V3 ℝ) = some ⟨0, 0, 1⟩ := by
  refine ⟨?_, ?_, ?_⟩ <;>
    simp [bhjmCylinder, bhjmCylinderRow, cylMasks, isclose, n, vd]

/-- FULL (`mu0_single`): every place where a value for mu_0 enters the package is the exported
constant.  False on the current tree: the two magnetization/polarization setters spell out
4π·1e-7 (known finding, pinned by an existing test).  Proved: everywhere else it is the
exported scipy constant, and the spelled-out literals are exactly those two sites — a new
literal anywhere breaks this `decide`. -/
theorem mu0_single_partial :
    (Gen.Const.mu0Sites.filter (fun s => s.2.2.1 != "scipy")).map (fun s => s.1) =
      ["magpylib/_src/obj_classes/class_BaseExcitations.py", "magpylib/_src/obj_classes/class_BaseExcitations.py"] := by
  decide

/-- the field modules all take mu_0 from scipy (= `magpylib.mu_0`) -/
theorem mu0_fields_use_exported :
    (Gen.Const.mu0Sites.filter (fun s => s.2.2.2)).all (fun s => s.2.2.1 == "scipy") = true := by
  decide

/-! ### TriangularMesh with the ray-casting inside test -/

/-- C02 (TriangularMesh, one row of `BHJM_magnet_trimesh`, any inside test): B = μ·H + J and J = μ·M, because the B, J
and M branches add the polarization under one and the same verdict `inside (mesh) (observer)` and H never does. -/
theorem trimesh_row_consistent (μ : ℝ) (hμ : μ ≠ 0) {M : Type} (meshId : MeshRow ℝ → M) (inside : M → V3 ℝ → Bool)
    (r : MeshRow ℝ) :
    letI := realNum μ
    bhjmTrimeshRow .B meshId inside r = vs μ (bhjmTrimeshRow .H meshId inside r) + bhjmTrimeshRow .J meshId inside r ∧
    bhjmTrimeshRow .J meshId inside r = vs μ (bhjmTrimeshRow .M meshId inside r) := by
  constructor <;> cases h : inside (meshId r) r.obs <;>
    (apply V3.ext' <;> simp [bhjmTrimeshRow, h, vs, vd, zero3, n] <;> (try field_simp) <;> (try ring))

/-- C02 (TriangularMesh as computed): the whole batch function with the ported `mask_inside_trimesh` satisfies
B = μ₀H + J and J = μ₀M row by row (`C06.trimesh_batch_rowwise_ray_test` reduces the batch to rows). -/
theorem trimesh_ray_test_consistent (r : MeshRow ℝ) :
    bhjmTrimeshRow .B (fun r => r.faces) maskInsideTrimesh r =
      vs mu0R (bhjmTrimeshRow .H (fun r => r.faces) maskInsideTrimesh r) +
        bhjmTrimeshRow .J (fun r => r.faces) maskInsideTrimesh r ∧
    bhjmTrimeshRow .J (fun r => r.faces) maskInsideTrimesh r =
      vs mu0R (bhjmTrimeshRow .M (fun r => r.faces) maskInsideTrimesh r) :=
  trimesh_row_consistent mu0R mu0R_pos.ne' _ _ r

/-- FULL (not true of the code): J of a TriangularMesh is the polarization at every point inside the body.
**Witness that the ray test is not the geometric inside predicate**: the point
x = (0.120012345, 0.059923456, 0.574932109) lies strictly inside the unit tetrahedron (all four barycentric coordinates
positive — the Tetrahedron class's own `point_inside` says inside), yet `mask_inside_trimesh` answers "outside", so J = 0
there: x sits on the plane through the start point of the test ray and the edge (0,0,0)–(0,0,1); the ray passes through
that edge, BOTH faces sharing it count a crossing (pass-through-boundary), and the parity comes out even.  Reproduced on
the real code (`TriangularMesh.getJ` = 0, `Tetrahedron.getJ` = polarization at this x).  The affected observers form a
slab of relative thickness ~1e-13 around each such plane. -/
theorem trimesh_ray_test_misses_interior_point :
    tetraInside (⟨0, 0, 0⟩ : V3 ℝ) ⟨1, 0, 0⟩ ⟨0, 1, 0⟩ ⟨0, 0, 1⟩
      ⟨120012345 / 1000000000, 59923456 / 1000000000, 574932109 / 1000000000⟩ = true ∧
    maskInsideTrimesh unitTetra ⟨120012345 / 1000000000, 59923456 / 1000000000, 574932109 / 1000000000⟩ = false ∧
    bhjmTrimeshRow .J (fun r => r.faces) maskInsideTrimesh
      { faces := unitTetra, obs := ⟨120012345 / 1000000000, 59923456 / 1000000000, 574932109 / 1000000000⟩,
        pol := ⟨0, 0, 1⟩ } = zero3 := by
  refine ⟨?_, unitTetra_edge_ray_outside, ?_⟩
  · simp [tetraInside, det3, n]
    norm_num
  · simp only [bhjmTrimeshRow, unitTetra_edge_ray_outside, Bool.false_eq_true, if_false]

-- non-vacuity of the consistency statement with both verdicts: (1/4,1/4,1/4) is found inside (J = polarization) …
example : bhjmTrimeshRow .J (fun r => r.faces) maskInsideTrimesh
    { faces := unitTetra, obs := ⟨1 / 4, 1 / 4, 1 / 4⟩, pol := (⟨0, 0, 1⟩ : V3 ℝ) } = zero3 + ⟨0, 0, 1⟩ := by
  simp only [bhjmTrimeshRow, unitTetra_quarter_inside, if_true]
-- … (3/5,3/5,3/5) outside (J = 0)
example : bhjmTrimeshRow .J (fun r => r.faces) maskInsideTrimesh
    { faces := unitTetra, obs := ⟨3 / 5, 3 / 5, 3 / 5⟩, pol := (⟨0, 0, 1⟩ : V3 ℝ) } = zero3 := by
  simp only [bhjmTrimeshRow, unitTetra_outside_in_box.2, Bool.false_eq_true, if_false]

end MagpyVerif.C02

/-! ### CylinderSegment: the ported `BHJM_cylinder_segment` (translated case functions, Model/CylSeg.lean;
hand-written boundary sum and wrapper, Model/CylSegWrap.lean; tied to the code by the `kern` stream kinds
`cylsegcase`, `cylsegblock`, `cylsegH`, `cylseg` and by the translator's sync check) -/
namespace MagpyVerif.C02
open MagpyVerif MagpyVerif.Kern MagpyVerif.Kern.CylSeg

/-- C02 (CylinderSegment): for the whole ported wrapper — units of the outer radius, angle normalisation,
inside / surface masks, spherical magnetization, the 26-case core, rotation back — with arbitrary special
functions `S` (ellipkinc, ellipeinc, el3_angle are opaque) and any value μ ≠ 0 of mu_0:
J and M are always returned and J = μ₀M; B is returned iff H is (`none` = NaN row: a boundary of the observer
has one of the four case ids the dispatch table does not handle), and then B = μ₀H + J.  Every observer:
inside, outside, on the surface (there B = H = J = M = 0). -/
theorem cylseg_consistent (μ : ℝ) (hμ : μ ≠ 0) (S : SegSpecial) (x : V3 ℝ) (r1 r2 h p1 p2 : ℝ) (pol : V3 ℝ) :
    letI := realNumX μ S
    ∃ j m, bhjmCylSeg .J x r1 r2 h p1 p2 pol = some j ∧ bhjmCylSeg .M x r1 r2 h p1 p2 pol = some m ∧ j = vs μ m ∧
      (bhjmCylSeg .B x r1 r2 h p1 p2 pol).isSome = (bhjmCylSeg .H x r1 r2 h p1 p2 pol).isSome ∧
      ∀ b hh, bhjmCylSeg .B x r1 r2 h p1 p2 pol = some b → bhjmCylSeg .H x r1 r2 h p1 p2 pol = some hh →
        b = vs μ hh + j :=
  bhjmCylSeg_consistent μ hμ S x r1 r2 h p1 p2 pol

-- non-vacuity: the hypothesis on μ holds for the model's mu_0, and the statement has no other hypothesis
example : mu0R ≠ 0 := mu0R_pos.ne'

end MagpyVerif.C02

/-! ### added by the audit: the abstract dispatch theorems instantiated at the functions the driver runs (Cuboid, Polyline row,
`BHJM_cylinder_segment_internal`), unconditional versions for the Option-valued kernels (using the termination theorems of
Props/C15), and J as the indicator of a GEOMETRIC set for Cuboid (open box inflated by the relative 1e-15) and
Tetrahedron (convex hull, non-degenerate vertices only) -/

namespace MagpyVerif.C02
open MagpyVerif MagpyVerif.Kern

/-- C02 (Cuboid as run by the driver) -/
theorem cuboid_consistent (μ : ℝ) (hμ : μ ≠ 0) (dim pol x : V3 ℝ) :
    letI := realNum μ
    bhjmCuboid .B dim pol x = vs μ (bhjmCuboid .H dim pol x) + bhjmCuboid .J dim pol x ∧
    bhjmCuboid .J dim pol x = vs μ (bhjmCuboid .M dim pol x) :=
  wrapB_consistent μ hμ _ _ pol _

/-- C02 (Cuboid): J is the polarization on the open box inflated by the relative tolerance 1e-15 -/
theorem cuboid_j_is_indicator (μ : ℝ) (dim pol x : V3 ℝ) (hx : 0 < dim.x) (hy : 0 < dim.y) (hz : 0 < dim.z) :
    letI := realNum μ
    bhjmCuboid .J dim pol x =
      if |x.x| < (1 + 1 / 1000000000000000) * (dim.x / 2) ∧ |x.y| < (1 + 1 / 1000000000000000) * (dim.y / 2) ∧
         |x.z| < (1 + 1 / 1000000000000000) * (dim.z / 2) then pol else zero3 := by
  letI := realNum μ
  have e : ∀ (u d : ℝ), 0 < d → ((|u| - |d| / 2 < 1 / 1000000000000000 * (|d| / 2)) ↔
      |u| < (1 + 1 / 1000000000000000) * (d / 2)) := by
    intro u d hd
    rw [abs_of_pos hd]
    constructor <;> intro h <;> linarith
  simp only [bhjmCuboid, wrapB, cuboidMasks, lt_real, abs_real, n, ofNat_real, Nat.cast_ofNat, Nat.cast_one,
    Bool.and_eq_true, decide_eq_true_eq, e _ _ hx, e _ _ hy, e _ _ hz, and_assoc]

/-- C02 (Polyline, one segment row of `BHJM_current_polyline`) -/
theorem polyline_segment_consistent (μ : ℝ) (cur : ℝ) (p1 p2 po : V3 ℝ) :
    letI := realNum μ
    bhjmSegment .B cur p1 p2 po = vs μ (bhjmSegment .H cur p1 p2 po) + bhjmSegment .J cur p1 p2 po ∧
    bhjmSegment .J cur p1 p2 po = vs μ (bhjmSegment .M cur p1 p2 po) ∧
    bhjmSegment .J cur p1 p2 po = zero3 := by
  letI := realNum μ
  refine ⟨?_, ?_, rfl⟩
  · simp only [bhjmSegment]
    split_ifs <;> (apply V3.ext' <;> simp [vs, zero3, n])
  · apply V3.ext' <;> simp [bhjmSegment, vs, zero3, n]

/-- C02 (Circle), unconditional: with enough fuel B and H ARE returned and B = μ₀H + J -/
theorem circle_consistent_total (d cur : ℝ) (x : V3 ℝ) (fuel : ℕ) (hfuel : circleFuelX d x ≤ fuel) :
    ∃ b h, bhjmCircle fuel .B d cur x = some b ∧ bhjmCircle fuel .H d cur x = some h ∧
      bhjmCircle fuel .J d cur x = some zero3 ∧ b = vs mu0R h + zero3 := by
  obtain ⟨h, hh⟩ := Option.isSome_iff_exists.mp (C15.bhjmCircle_terminates .H d cur x fuel hfuel)
  obtain ⟨b, hb⟩ := Option.isSome_iff_exists.mp (C15.bhjmCircle_terminates .B d cur x fuel hfuel)
  exact ⟨b, h, hb, hh, rfl, ((circle_consistent mu0R mu0R_pos.ne' fuel d cur x).2.2.2 b h hb hh).1⟩

/-- C02 (Cylinder), unconditional for valid dimensions -/
theorem cylinder_consistent_total (d h : ℝ) (hd : 0 < d) (hh : 0 ≤ h) (pol x : V3 ℝ) (fuel : ℕ)
    (hfuel : cylFuelX d h x ≤ fuel) :
    ∃ b hf j m, bhjmCylinder fuel .B (d, h) pol x = some b ∧ bhjmCylinder fuel .H (d, h) pol x = some hf ∧
      bhjmCylinder fuel .J (d, h) pol x = some j ∧ bhjmCylinder fuel .M (d, h) pol x = some m ∧
      b = vs mu0R hf + j ∧ j = vs mu0R m := by
  obtain ⟨j, m, hj, hm, hjm, _, hall⟩ := cylinder_consistent mu0R mu0R_pos.ne' fuel (d, h) pol x
  obtain ⟨hf, hhf⟩ := Option.isSome_iff_exists.mp (C15.cylinder_terminates .H d h pol x hd hh fuel hfuel)
  obtain ⟨b, hb⟩ := Option.isSome_iff_exists.mp (C15.cylinder_terminates .B d h pol x hd hh fuel hfuel)
  exact ⟨b, hf, j, m, hb, hhf, hj, hm, hall b hf hb hhf, hjm⟩

end MagpyVerif.C02

namespace MagpyVerif.C02
open MagpyVerif MagpyVerif.Kern

/-- C02 (Tetrahedron): for a non-degenerate tetrahedron the code's `point_inside` (barycentric test) IS the closed
geometric body — the convex hull of the four vertices -/
theorem tetraInside_iff_hull (v0 v1 v2 v3 x : V3 ℝ) (hdt : det3 (v1 - v0) (v2 - v0) (v3 - v0) ≠ 0) :
    tetraInside v0 v1 v2 v3 x = true ↔
      ∃ t1 t2 t3 : ℝ, 0 ≤ t1 ∧ 0 ≤ t2 ∧ 0 ≤ t3 ∧ t1 + t2 + t3 ≤ 1 ∧
        x = v0 + vs t1 (v1 - v0) + vs t2 (v2 - v0) + vs t3 (v3 - v0) := by
  have hdt' : (v1.x - v0.x) * ((v2.y - v0.y) * (v3.z - v0.z) - (v2.z - v0.z) * (v3.y - v0.y)) -
      (v2.x - v0.x) * ((v1.y - v0.y) * (v3.z - v0.z) - (v1.z - v0.z) * (v3.y - v0.y)) +
      (v3.x - v0.x) * ((v1.y - v0.y) * (v2.z - v0.z) - (v1.z - v0.z) * (v2.y - v0.y)) ≠ 0 := by
    simpa [det3] using hdt
  simp only [tetraInside, le_real, n, ofNat_real, Nat.cast_zero, Nat.cast_one, Bool.and_eq_true, decide_eq_true_eq]
  constructor
  · rintro ⟨⟨⟨⟨⟨⟨⟨_, h1⟩, h2⟩, h3⟩, _⟩, _⟩, _⟩, hs⟩
    refine ⟨_, _, _, h1, h2, h3, hs, ?_⟩
    have kx : det3 (x - v0) (v2 - v0) (v3 - v0) * (v1.x - v0.x) + det3 (v1 - v0) (x - v0) (v3 - v0) * (v2.x - v0.x) +
        det3 (v1 - v0) (v2 - v0) (x - v0) * (v3.x - v0.x) = (x.x - v0.x) * det3 (v1 - v0) (v2 - v0) (v3 - v0) := by
      simp only [det3, V3.sub_x, V3.sub_y, V3.sub_z]; ring
    have ky : det3 (x - v0) (v2 - v0) (v3 - v0) * (v1.y - v0.y) + det3 (v1 - v0) (x - v0) (v3 - v0) * (v2.y - v0.y) +
        det3 (v1 - v0) (v2 - v0) (x - v0) * (v3.y - v0.y) = (x.y - v0.y) * det3 (v1 - v0) (v2 - v0) (v3 - v0) := by
      simp only [det3, V3.sub_x, V3.sub_y, V3.sub_z]; ring
    have kz : det3 (x - v0) (v2 - v0) (v3 - v0) * (v1.z - v0.z) + det3 (v1 - v0) (x - v0) (v3 - v0) * (v2.z - v0.z) +
        det3 (v1 - v0) (v2 - v0) (x - v0) * (v3.z - v0.z) = (x.z - v0.z) * det3 (v1 - v0) (v2 - v0) (v3 - v0) := by
      simp only [det3, V3.sub_x, V3.sub_y, V3.sub_z]; ring
    apply V3.ext' <;> simp only [vs, V3.add_x, V3.add_y, V3.add_z, V3.sub_x, V3.sub_y, V3.sub_z] <;>
      field_simp <;> linarith
  · rintro ⟨t1, t2, t3, h1, h2, h3, hs, rfl⟩
    have e1 : det3 (v0 + vs t1 (v1 - v0) + vs t2 (v2 - v0) + vs t3 (v3 - v0) - v0) (v2 - v0) (v3 - v0) /
        det3 (v1 - v0) (v2 - v0) (v3 - v0) = t1 := by
      rw [div_eq_iff hdt]; simp only [det3, vs, V3.add_x, V3.add_y, V3.add_z, V3.sub_x, V3.sub_y, V3.sub_z]; ring
    have e2 : det3 (v1 - v0) (v0 + vs t1 (v1 - v0) + vs t2 (v2 - v0) + vs t3 (v3 - v0) - v0) (v3 - v0) /
        det3 (v1 - v0) (v2 - v0) (v3 - v0) = t2 := by
      rw [div_eq_iff hdt]; simp only [det3, vs, V3.add_x, V3.add_y, V3.add_z, V3.sub_x, V3.sub_y, V3.sub_z]; ring
    have e3 : det3 (v1 - v0) (v2 - v0) (v0 + vs t1 (v1 - v0) + vs t2 (v2 - v0) + vs t3 (v3 - v0) - v0) /
        det3 (v1 - v0) (v2 - v0) (v3 - v0) = t3 := by
      rw [div_eq_iff hdt]; simp only [det3, vs, V3.add_x, V3.add_y, V3.add_z, V3.sub_x, V3.sub_y, V3.sub_z]; ring
    rw [e1, e2, e3]
    have hreg : (!Num.eq0 (det3 (v1 - v0) (v2 - v0) (v3 - v0))) = true := by simp [eq0_real, hdt]
    refine ⟨⟨⟨⟨⟨⟨⟨hreg, h1⟩, h2⟩, h3⟩, ?_⟩, ?_⟩, ?_⟩, hs⟩ <;> linarith

open Classical in
/-- C02 (Tetrahedron): J is the polarization on the closed geometric tetrahedron (convex hull of the vertices) and zero outside -/
theorem tetra_j_is_indicator (v0 v1 v2 v3 pol x : V3 ℝ) (hdt : det3 (v1 - v0) (v2 - v0) (v3 - v0) ≠ 0) :
    bhjmTetra .J v0 v1 v2 v3 pol x =
      if ∃ t1 t2 t3 : ℝ, 0 ≤ t1 ∧ 0 ≤ t2 ∧ 0 ≤ t3 ∧ t1 + t2 + t3 ≤ 1 ∧
        x = v0 + vs t1 (v1 - v0) + vs t2 (v2 - v0) + vs t3 (v3 - v0) then pol else zero3 := by
  simp only [bhjmTetra, tetraInside_iff_hull v0 v1 v2 v3 x hdt]

-- non-vacuity: the unit tetrahedron is non-degenerate
example : det3 ((⟨1, 0, 0⟩ : V3 ℝ) - ⟨0, 0, 0⟩) (⟨0, 1, 0⟩ - ⟨0, 0, 0⟩) (⟨0, 0, 1⟩ - ⟨0, 0, 0⟩) ≠ 0 := by
  simp [det3]

-- a degenerate (flat) tetrahedron has no interior: since the repo fix 657dea6 `point_inside` tests `det != 0` first (before that
-- fix the real-number model answered "inside" everywhere through x/0 = 0 while numpy raised LinAlgError); `hdt` above is
-- therefore only needed to name the hull by barycentric coordinates
example : tetraInside (⟨0, 0, 0⟩ : V3 ℝ) ⟨1, 0, 0⟩ ⟨2, 0, 0⟩ ⟨3, 0, 0⟩ ⟨7, 8, 9⟩ = false := by
  simp [tetraInside, det3, n]
end MagpyVerif.C02

namespace MagpyVerif.C02
open MagpyVerif MagpyVerif.Kern MagpyVerif.Kern.CylSeg

theorem sub_consistent (μ : ℝ) (b1 h1 j1 b2 h2 j2 : V3 ℝ) : letI := realNum μ
    b1 = vs μ h1 + j1 → b2 = vs μ h2 + j2 → b1 - b2 = vs μ (h1 - h2) + (j1 - j2) := by
  intro e1 e2; subst e1 e2
  apply V3.ext' <;> simp [vs] <;> ring

theorem sub_consistent' (μ : ℝ) (j1 m1 j2 m2 : V3 ℝ) : letI := realNum μ
    j1 = vs μ m1 → j2 = vs μ m2 → j1 - j2 = vs μ (m1 - m2) := by
  intro e1 e2; subst e1 e2
  apply V3.ext' <;> simp [vs] <;> ring

/-- C02 (CylinderSegment, the function the class calls: `BHJM_cylinder_segment_internal`, incl. the 360° branch
= Cylinder(2 r2) − Cylinder(2 r1)): whenever the four outputs are returned they are consistent -/
theorem cylseg_internal_consistent (μ : ℝ) (hμ : μ ≠ 0) (S : SegSpecial) (fuel : Nat) (x : V3 ℝ)
    (r1 r2 h p1 p2 : ℝ) (pol : V3 ℝ) :
    letI := realNumX μ S
    ∀ b hh j m, bhjmCylSegInternal fuel .B x r1 r2 h p1 p2 pol = some b →
      bhjmCylSegInternal fuel .H x r1 r2 h p1 p2 pol = some hh →
      bhjmCylSegInternal fuel .J x r1 r2 h p1 p2 pol = some j →
      bhjmCylSegInternal fuel .M x r1 r2 h p1 p2 pol = some m → b = vs μ hh + j ∧ j = vs μ m := by
  let _ := realNumX μ S
  intro b hh j m
  unfold bhjmCylSegInternal
  split_ifs with hlt hr1
  · intro hb hH hj hm
    obtain ⟨j', m', ej, em, ejm, _, hall⟩ := cylseg_consistent μ hμ S x r1 r2 h p1 p2 pol
    rw [ej] at hj; rw [em] at hm
    simp only [Option.some.injEq] at hj hm
    subst hj hm
    exact ⟨hall b hh hb hH, ejm⟩
  · obtain ⟨jo, mo, ejo, emo, ejmo, _, hallo⟩ := cylinder_consistent μ hμ fuel (Num.ofNat 2 * r2, h) pol x
    obtain ⟨ji, mi, eji, emi, ejmi, _, halli⟩ := cylinder_consistent μ hμ fuel (Num.ofNat 2 * r1, h) pol x
    intro hb hH hj hm
    simp only [n] at hb hH hj hm
    erw [ejo, eji] at hj
    erw [emo, emi] at hm
    rcases hbo : @bhjmCylinder ℝ (realNum μ) fuel .B (Num.ofNat 2 * r2, h) pol x with _ | bo
    · erw [hbo] at hb; simp at hb
    rcases hho : @bhjmCylinder ℝ (realNum μ) fuel .H (Num.ofNat 2 * r2, h) pol x with _ | ho
    · erw [hho] at hH; simp at hH
    rcases hbi : @bhjmCylinder ℝ (realNum μ) fuel .B (Num.ofNat 2 * r1, h) pol x with _ | bi
    · erw [hbo, hbi] at hb; simp at hb
    rcases hhi : @bhjmCylinder ℝ (realNum μ) fuel .H (Num.ofNat 2 * r1, h) pol x with _ | hi
    · erw [hho, hhi] at hH; simp at hH
    erw [hbo, hbi] at hb
    erw [hho, hhi] at hH
    simp only [Option.map_some, Option.some.injEq] at hb hH hj hm
    subst hb hH hj hm
    exact ⟨sub_consistent μ _ _ _ _ _ _ (hallo _ _ hbo hho) (halli _ _ hbi hhi), sub_consistent' μ _ _ _ _ ejmo ejmi⟩
  · obtain ⟨jo, mo, ejo, emo, ejmo, _, hallo⟩ := cylinder_consistent μ hμ fuel (Num.ofNat 2 * r2, h) pol x
    intro hb hH hj hm
    simp only [n] at hb hH hj hm
    erw [ejo] at hj
    erw [emo] at hm
    rcases hbo : @bhjmCylinder ℝ (realNum μ) fuel .B (Num.ofNat 2 * r2, h) pol x with _ | bo
    · erw [hbo] at hb; simp at hb
    rcases hho : @bhjmCylinder ℝ (realNum μ) fuel .H (Num.ofNat 2 * r2, h) pol x with _ | ho
    · erw [hho] at hH; simp at hH
    erw [hbo] at hb
    erw [hho] at hH
    simp only [Option.some.injEq] at hb hH hj hm
    subst hb hH hj hm
    exact ⟨hallo _ _ hbo hho, ejmo⟩
end MagpyVerif.C02
