/-
Props/C20f.lean — C20 "styles of different objects and of COPIES are independent": copies as operations of the style
state machine (Model/StyleCopy.lean: `obj.copy()`, `obj.copy(style_…=…)`, `style.copy()`; executed by the driver family
`scopy`, tied to `BaseGeo.copy` / `MagicProperties.copy` by the stream `scopy`), and the frame theorem over histories.

  * `copy_starts_equal`            right after `b = a.copy()`: `b` is a NEW object (every existing object is untouched, its
                                   index stable), has the class of `a`, reads what `a` reads at EVERY plain property at any
                                   depth except `label`, and `label` reads the setter's image of the assigned value
  * `copy_succeeds`                … and when it succeeds (the hypotheses of the former are satisfiable, in general)
  * `copies_independent`           the frame theorem over histories: two histories that agree on the operations on object
                                   `j` (they differ by erasing / inserting / replacing operations on OTHER objects — a copy
                                   of `j`, the original of `j`, the defaults — and copies of anything), run from worlds
                                   that agree on `j`, leave the same object `j`: every read agrees
  * `object_depends_on_own_operations`   … in the erasure form: object `j` after ANY history is object `j` after the
                                   sub-history of the operations on `j` alone
  * `original_and_copy_independent`  both directions for an original and its copy, and: the original after the copy and any
                                   history is what it is in the world where the copy was never made
  * `copy_preserves_wellformed`    `WFW` and `Inv0` (Props/C20c) are invariants of `stepC`, hence hold in every world
                                   reachable by a history with copies (`wfw_stepC`, `inv0_stepC`)
  * `appended_object_invisible`, `appended_object_invisible_history`, `later_copy_equals_earlier_copy`
                                   `step` on a world with an object appended; a copy commutes with a history on the others
-/
import MagpyVerif.Lemmas.StyleCopy
import MagpyVerif.Props.C20c
import MagpyVerif.Props.C20d

namespace MagpyVerif.C20f
open MagpyVerif.StyleNested MagpyVerif.StyleState MagpyVerif.StyleCopy MagpyVerif.Gen.StyleSchema MagpyVerif.C20c

/-- computed over the 37 regenerated classes: `label` is a plain property wherever it is a property -/
theorem label_plain : labelPlain classes = true := by
  decide +kernel

/-- the read function of this file on the regenerated classes is the one of `C20d.reads_refine` -/
theorem readW_eq_readAt (w : World) (j : Nat) (q : List Key) : readW classes w j q = C20d.readAt w j q := rfl

/-- … and the one `Op.read` performs -/
theorem readW_eq_step_read (T : Tables) (Cs : List ClassInfo) (D : Tree) (w : World) (j : Nat) (q : List Key) :
    (step T Cs D w (.read j q)).2 = match readW Cs w j q with | .ok t => .val t | .error e => .err e := by
  simp only [step, readW]
  cases w[j]? with
  | none => rfl
  | some o =>
    simp only []
    cases Cs[o.cls]? with
    | none => rfl
    | some c => simp only []; cases readPath c.schema.props o.tree q <;> rfl

/-! ### 1. a copy starts equal -/

/-- **C20: a copy starts with the style of its original.**  If `b = obj_i.copy()` succeeds (assigning `lab` to the label):
`i` is an object (not `magpylib.defaults`) of a class `c` with the plain property `label` whose setter accepts `lab`; the
world has exactly one more object, every existing object (the original included) is exactly as before; the new object has
the class of `i`; at EVERY plain property `q` of the class at any depth other than `label` it reads what the original
reads; `label` reads the setter's image of `lab`. -/
theorem copy_starts_equal (T : Tables) (Cs : List ClassInfo) (D : Tree) (hL : labelPlain Cs = true) (w : World) (i : Nat)
    (lab : Option Val) (hok : isOkOut (stepC T Cs D w (.copy i lab)).2 = true) :
    ∃ o c vid v', i ≠ 0 ∧ w[i]? = some o ∧ Cs[o.cls]? = some c ∧
      lookup labelKey c.schema.props = some (.leaf vid) ∧ runV T vid (.leaf lab) = .ok v' ∧
      (stepC T Cs D w (.copy i lab)).1.length = w.length + 1 ∧
      (∀ j, j < w.length → (stepC T Cs D w (.copy i lab)).1[j]? = w[j]?) ∧
      (∃ o', (stepC T Cs D w (.copy i lab)).1[w.length]? = some o' ∧ o'.cls = o.cls) ∧
      (∀ q vq, leafVid c.schema.props q = some vq → q ≠ [labelKey] →
        readW Cs (stepC T Cs D w (.copy i lab)).1 w.length q = readW Cs w i q) ∧
      readW Cs (stepC T Cs D w (.copy i lab)).1 w.length [labelKey] = .ok (.leaf v') := by
  simp only [stepC] at hok ⊢
  cases hc : copyObj T Cs w i lab with
  | error e => rw [hc] at hok; cases hok
  | ok o' =>
    simp only []
    obtain ⟨o, c, vid, v', hi, hw, hcc, hl, hv, ho'⟩ := copyObj_ok_elim T Cs hL w i lab o' hc
    have hnew : (w ++ [o'])[w.length]? = some o' := by simp
    have hrd := readPath_copyTree c.schema.props o.tree vid v' hl
    refine ⟨o, c, vid, v', hi, hw, hcc, hl, hv, by simp, fun j hj => List.getElem?_append_left hj,
      ⟨o', hnew, by rw [ho']⟩, ?_, ?_⟩
    · intro q vq hq hne
      unfold readW
      rw [hnew, hw]
      simp only [ho', hcc]
      exact hrd.1 q vq hq hne
    · unfold readW
      rw [hnew]
      simp only [ho', hcc]
      exact hrd.2

/-- `obj_i.copy()` succeeds whenever `i` is an object whose class has the plain property `label` and the setter accepts
the value (so the hypothesis of `copy_starts_equal` is satisfiable in general, not only in the example below) -/
theorem copy_succeeds (T : Tables) (Cs : List ClassInfo) (D : Tree) (w : World) (i : Nat) (lab : Option Val) (o : Obj) (c : ClassInfo)
    (vid : Nat) (v' : Option Val) (hi : i ≠ 0) (hw : w[i]? = some o) (hc : Cs[o.cls]? = some c)
    (hl : lookup labelKey c.schema.props = some (.leaf vid)) (hv : runV T vid (.leaf lab) = .ok v') :
    stepC T Cs D w (.copy i lab) = (w ++ [{ cls := o.cls, tree := setKey labelKey (.leaf v') o.tree }], .ok) := by
  simp only [stepC, copyObj, hi, if_false, hw, hc, setAttr_leaf T _ _ _ _ _ vid hl, hv]

/-- non-vacuity on the regenerated classes: a Cuboid-class style with `opacity = 0.5` is copied (label 'txt'); the copy
reads opacity 0.5 and label 'txt', the original still has label None -/
example :
    let op : Key := .str "opacity".toList
    let w0 := exec tables classes defaults (init [1]) [.setattr 1 [] op (.leaf (some 21))]
    let r := stepC tables classes defaults w0 (.copy 1 (some 46))
    isOkOut r.2 = true ∧ r.1.length = 3 ∧
    (match readW classes r.1 2 [op] with | .ok (.leaf (some 21)) => true | _ => false) = true ∧
    (match readW classes r.1 2 [labelKey] with | .ok (.leaf (some 46)) => true | _ => false) = true ∧
    (match readW classes r.1 1 [labelKey] with | .ok (.leaf none) => true | _ => false) = true ∧
    (leafVid cMagnetStyle.props [.str "path".toList, .str "line".toList, .str "width".toList]).isSome = true := by
  decide +kernel

/-! ### 2. the frame theorem over histories -/

/-- **C20: the styles of different objects and of copies are independent, for every history.**  Let `a` and `b` be two
histories (base operations, copies) that agree on the operations on object `j` (`Sim j a b`: one is obtained from the
other by erasing, inserting or replacing operations that do not write to `j` — updates / assignments / `style = …` on any
OTHER object, e.g. on a copy of `j` or on the original `j` was copied from, resets of the defaults when `j ≠ 0`, and
copies of any object, `j` included), run from two worlds that agree on object `j` (and may differ in everything else,
also in their number of objects).  Then object `j` is the same afterwards, and so is every read on it. -/
theorem copies_independent (T : Tables) (Cs : List ClassInfo) (D : Tree) (j : Nat) (a b : List OpC) (hs : Sim j a b)
    (w w' : World) (hj : j < w.length) (hj' : j < w'.length) (h : w[j]? = w'[j]?) :
    (execC T Cs D w a)[j]? = (execC T Cs D w' b)[j]? ∧
    ∀ q, readW Cs (execC T Cs D w a) j q = readW Cs (execC T Cs D w' b) j q := by
  have h1 := execC_sim T Cs D j hs w w' hj hj' h
  exact ⟨h1, fun q => readW_congr Cs h1 q⟩

/-- … in the erasure form: after ANY history, object `j` is what the sub-history of the operations on `j` alone makes
of it — every operation on another object, and every copy, can be erased. -/
theorem object_depends_on_own_operations (T : Tables) (Cs : List ClassInfo) (D : Tree) (w : World) (j : Nat) (hj : j < w.length)
    (ops : List OpC) :
    (execC T Cs D w ops)[j]? = (execC T Cs D w (ops.filter (fun o => o.touches == some j)))[j]? ∧
    ∀ q, readW Cs (execC T Cs D w ops) j q = readW Cs (execC T Cs D w (ops.filter (fun o => o.touches == some j))) j q :=
  copies_independent T Cs D j _ _ (Sim.filter j ops) w w hj hj rfl

theorem copyObj_ok_lt (T : Tables) (Cs : List ClassInfo) (w : World) (i : Nat) (lab : Option Val) (o' : Obj)
    (h : copyObj T Cs w i lab = .ok o') : i < w.length := by
  unfold copyObj at h
  split at h
  · cases h
  · rcases Nat.lt_or_ge i w.length with hlt | hge
    · exact hlt
    · rw [List.getElem?_eq_none hge] at h; cases h

/-- **original and copy, both directions.**  Let `b = obj_i.copy()` succeed (`b` is object `n = w.length`) and let ANY
history `ops` follow (operations on `b`, on the original, on anything else, further copies).  Then
(1) what is read on the ORIGINAL does not depend on the operations on the copy (nor on any other): it is what the
    operations on `i` alone give; (2) vice versa for the COPY; (3) the original is even what it would be in the world in
    which the copy was never made. -/
theorem original_and_copy_independent (T : Tables) (Cs : List ClassInfo) (D : Tree) (w : World) (i : Nat) (lab : Option Val)
    (hok : isOkOut (stepC T Cs D w (.copy i lab)).2 = true) (ops : List OpC) :
    (∀ q, readW Cs (execC T Cs D (stepC T Cs D w (.copy i lab)).1 ops) i q =
      readW Cs (execC T Cs D (stepC T Cs D w (.copy i lab)).1 (ops.filter (fun o => o.touches == some i))) i q) ∧
    (∀ q, readW Cs (execC T Cs D (stepC T Cs D w (.copy i lab)).1 ops) w.length q =
      readW Cs (execC T Cs D (stepC T Cs D w (.copy i lab)).1 (ops.filter (fun o => o.touches == some w.length))) w.length q) ∧
    (∀ q, readW Cs (execC T Cs D (stepC T Cs D w (.copy i lab)).1 ops) i q =
      readW Cs (execC T Cs D w (ops.filter (fun o => o.touches == some i))) i q) := by
  simp only [stepC] at hok ⊢
  cases hc : copyObj T Cs w i lab with
  | error e => rw [hc] at hok; cases hok
  | ok o' =>
    simp only []
    have hi : i < w.length := copyObj_ok_lt T Cs w i lab o' hc
    have hi' : i < (w ++ [o']).length := by simp; omega
    have hn : w.length < (w ++ [o']).length := by simp
    refine ⟨(object_depends_on_own_operations T Cs D (w ++ [o']) i hi' ops).2,
      (object_depends_on_own_operations T Cs D (w ++ [o']) w.length hn ops).2, ?_⟩
    exact (copies_independent T Cs D i _ _ (Sim.filter i ops) (w ++ [o']) w hi' hi (List.getElem?_append_left hi)).2

/-- non-vacuity: a Cuboid-class style is copied; then the copy gets opacity 1 and a line width, the original opacity 0.2,
`magpylib.defaults` is reset and the copy is copied again: the original reads 0.2, the copy 1; for the original all
but one operation are erased -/
example :
    let op : Key := .str "opacity".toList
    let w1 := (stepC tables classes defaults (init [1]) (.copy 1 (some 46))).1
    let ops : List OpC := [.base (.setattr 2 [] op (.leaf (some 8))), .base (.setattr 1 [] op (.leaf (some 19))),
      .base (.update 2 [] none [(.str "path_line_width".toList, .leaf (some 15))] true false), .base .reset, .copy 2 none]
    (match readW classes (execC tables classes defaults w1 ops) 1 [op] with | .ok (.leaf (some 19)) => true | _ => false) = true ∧
    (match readW classes (execC tables classes defaults w1 ops) 2 [op] with | .ok (.leaf (some 8)) => true | _ => false) = true ∧
    (match readW classes (execC tables classes defaults w1 ops) 3 [op] with | .ok (.leaf (some 8)) => true | _ => false) = true ∧
    (execC tables classes defaults w1 ops).length = 4 ∧
    (ops.filter (fun o => o.touches == some 1)).length = 1 ∧ (ops.filter (fun o => o.touches == some 2)).length = 2 := by
  decide +kernel

/-- non-vacuity of the relation: replacing an assignment on the copy (object 2) by an update on it and dropping a reset,
seen from the original (object 1) -/
example : Sim 1
    [.base (.setattr 2 [] (.str "opacity".toList) (.leaf (some 8))), .base (.setattr 1 [] (.str "opacity".toList) (.leaf (some 19))), .base .reset]
    [.base (.update 2 [] none [] true false), .base (.setattr 1 [] (.str "opacity".toList) (.leaf (some 19)))] :=
  .dropL _ (by decide) (.dropR _ (by decide) (.keep _ (.dropL _ (by decide) .nil)))

/-! ### 3. the invariants of Props/C20c hold in worlds with copies -/

theorem inv0_append (w : World) (o : Obj) (h : Inv0 w) : Inv0 (w ++ [o]) := by
  obtain ⟨x, hx⟩ := h
  have h0 : 0 < w.length := by
    rcases Nat.lt_or_ge 0 w.length with hlt | hge
    · exact hlt
    · rw [List.getElem?_eq_none hge] at hx; cases hx
  exact ⟨x, by rw [List.getElem?_append_left h0, hx]⟩

theorem wfw_append (w : World) (o : Obj) (h : WFW w)
    (ho : ∃ c, classes[o.cls]? = some c ∧ wfKids (fixB tables) c.schema.props o.tree = true) : WFW (w ++ [o]) := by
  intro j o' hj
  rcases Nat.lt_or_ge j w.length with hlt | hge
  · rw [List.getElem?_append_left hlt] at hj
    exact h j o' hj
  · rw [List.getElem?_append_right hge] at hj
    cases hd : j - w.length with
    | zero =>
      rw [hd] at hj
      simp only [List.getElem?_cons_zero, Option.some.injEq] at hj
      rw [← hj]
      exact ho
    | succ k =>
      rw [hd] at hj
      simp at hj

/-- the style object a copy creates is well formed for its class -/
theorem copyObj_wf (w : World) (h : WFW w) (i : Nat) (lab : Option Val) (o' : Obj)
    (hc : copyObj tables classes w i lab = .ok o') :
    ∃ c, classes[o'.cls]? = some c ∧ wfKids (fixB tables) c.schema.props o'.tree = true := by
  unfold copyObj at hc
  split at hc
  · cases hc
  · cases hw : w[i]? with
    | none => rw [hw] at hc; cases hc
    | some o =>
      rw [hw] at hc
      simp only [] at hc
      obtain ⟨c, hcc, hwf⟩ := h i o hw
      rw [hcc] at hc
      simp only [] at hc
      cases hs : setAttr tables c.schema.props c.schema.others o.tree labelKey (.leaf lab) with
      | error e => rw [hs] at hc; cases hc
      | ok t =>
        rw [hs] at hc
        simp only [] at hc
        injection hc with hc
        subst hc
        exact ⟨c, hcc, setAttr_wf tables validators_idempotent _ (class_ok (List.mem_of_getElem? hcc)) _ _ _ _ t hwf hs⟩

theorem inv0_stepC (w : World) (op : OpC) (h : Inv0 w) : Inv0 (stepC tables classes defaults w op).1 := by
  cases op with
  | base o => exact inv0_step w o h
  | copy i lab =>
    simp only [stepC]
    cases copyObj tables classes w i lab with
    | error e => exact h
    | ok o => exact inv0_append w o h
  | copyKw i lab arg kwargs =>
    simp only [stepC]
    cases copyObj tables classes w i lab with
    | error e => exact h
    | ok o =>
      simp only []
      split
      · exact inv0_step (w ++ [o]) _ (inv0_append w o h)
      · exact h
  | styleCopy i =>
    simp only [stepC]
    cases w[i]? with
    | none => exact h
    | some o => exact inv0_append w o h

theorem wfw_stepC (w : World) (op : OpC) (h : WFW w) : WFW (stepC tables classes defaults w op).1 := by
  cases op with
  | base o => exact wfw_step w o h
  | copy i lab =>
    simp only [stepC]
    cases hc : copyObj tables classes w i lab with
    | error e => exact h
    | ok o => exact wfw_append w o h (copyObj_wf w h i lab o hc)
  | copyKw i lab arg kwargs =>
    simp only [stepC]
    cases hc : copyObj tables classes w i lab with
    | error e => exact h
    | ok o =>
      simp only []
      split
      · exact wfw_step (w ++ [o]) _ (wfw_append w o h (copyObj_wf w h i lab o hc))
      · exact h
  | styleCopy i =>
    simp only [stepC]
    cases hw : w[i]? with
    | none => exact h
    | some o => exact wfw_append w o h (h i o hw)

/-- **C20: the invariants of the state machine survive copies.**  In every world reachable from the state at import time
by ANY history of base operations and copies (`obj.copy()`, `obj.copy(style_…)`, `style.copy()`), every object — the
defaults, the originals, every copy and copy of a copy — is well formed for its class (`WFW`: schema-shaped tree, every
stored leaf a fixpoint of its validator) and the defaults object has its shape (`Inv0`): the per-world theorems of
Props/C20c and C20d (stability, rejected names, `reset`) apply to worlds with copies. -/
theorem copy_preserves_wellformed (cls : List Nat) (hcls : ∀ ci ∈ cls, ci < classes.length) (ops : List OpC) :
    WFW (execC tables classes defaults (init cls) ops) ∧ Inv0 (execC tables classes defaults (init cls) ops) := by
  have key : ∀ (ops : List OpC) (w : World), WFW w → Inv0 w →
      WFW (execC tables classes defaults w ops) ∧ Inv0 (execC tables classes defaults w ops) := by
    intro ops
    induction ops with
    | nil => intro w h1 h2; exact ⟨h1, h2⟩
    | cons op t ih => intro w h1 h2; rw [execC_cons]; exact ih _ (wfw_stepC w op h1) (inv0_stepC w op h2)
  exact key ops _ (wfw_init cls hcls) (inv0_init cls)

/-- consequence (with `C20d.stable_of_wf`'s ingredients): every object of a world with copies is STABLE — `X.update()`
re-assigning every property changes nothing — in particular a fresh copy -/
theorem copies_stable (cls : List Nat) (hcls : ∀ ci ∈ cls, ci < classes.length) (ops : List OpC) (i : Nat) (o : Obj)
    (ho : (execC tables classes defaults (init cls) ops)[i]? = some o) :
    ∃ c, classes[o.cls]? = some c ∧ Stable tables c.schema.props c.schema.others o.tree := by
  obtain ⟨c, hc, hw⟩ := (copy_preserves_wellformed cls hcls ops).1 i o ho
  obtain ⟨g1, g2, g3⟩ := C20d.class_facts (List.mem_of_getElem? hc)
  exact ⟨c, hc, stable_of_wf tables _ g1 g2 g3 _ _ hw⟩

/-- non-vacuity: the hypothesis on the class list holds for a Cuboid-class and a Sensor-class style, and such a history
does create objects -/
example : (∀ ci ∈ [1, 2], ci < classes.length) ∧
    (execC tables classes defaults (init [1, 2]) [.copy 1 (some 46), .copyKw 2 none none [(.str "opacity".toList, .leaf (some 21))],
      .copyKw 2 none none [(.str "bogus".toList, .leaf (some 21))], .styleCopy 0]).length = 6 := by
  decide +kernel

/-! ### 4. an appended object is invisible; a copy commutes with a history on the other objects -/

/-- **a copy made later disturbs nothing**: on a world with an object appended, every operation on the existing objects has
the same outcome and the same effect, and leaves the appended object alone -/
theorem appended_object_invisible (T : Tables) (Cs : List ClassInfo) (D : Tree) (w : World) (o : Obj) (op : Op)
    (h : opIn w.length op) : step T Cs D (w ++ [o]) op = ((step T Cs D w op).1 ++ [o], (step T Cs D w op).2) :=
  step_append T Cs D w o op h

/-- … for histories, with all outcomes -/
theorem appended_object_invisible_history (T : Tables) (Cs : List ClassInfo) (D : Tree) (o : Obj) (ops : List Op) (w : World)
    (h : ∀ op ∈ ops, opIn w.length op) :
    run T Cs D (w ++ [o]) ops = ((run T Cs D w ops).1 ++ [o], (run T Cs D w ops).2) :=
  run_append T Cs D o ops w h

/-- **a copy commutes with every history on the other objects**: copying `i` first and then running a history that does
not write to `i` (nor mentions the copy) gives the same world as running the history and copying `i` afterwards -/
theorem later_copy_equals_earlier_copy (T : Tables) (Cs : List ClassInfo) (D : Tree) (w : World) (i : Nat) (lab : Option Val)
    (ops : List Op) (hin : ∀ op ∈ ops, opIn w.length op) (hni : ∀ op ∈ ops, op.target ≠ i) :
    execC T Cs D w (.copy i lab :: ops.map .base) = execC T Cs D w (ops.map .base ++ [.copy i lab]) := by
  have hfr : (exec T Cs D w ops)[i]? = w[i]? := exec_frame T Cs D ops w i hni
  rw [execC_cons, execC_append, execC_base T Cs D ops w, execC_cons, execC_nil]
  simp only [stepC]
  rw [copyObj_congr T Cs (exec T Cs D w ops) w i lab hfr]
  cases copyObj T Cs w i lab with
  | error e => simp only []; exact execC_base T Cs D ops w
  | ok o =>
    simp only []
    rw [execC_base, exec_append_obj T Cs D o ops w hin]

/-- non-vacuity: the hypotheses hold for a history on the defaults and on a second object, and the two worlds have the copy -/
example :
    let ops : List Op := [.update 0 [dk] none [(.str "autosizefactor".toList, .leaf (some 4))] true false,
      .setattr 2 [] (.str "opacity".toList) (.leaf (some 21)), .setStyleObj 2 1, .reset]
    (init [1, 1]).length = 3 ∧
    (execC tables classes defaults (init [1, 1]) (.copy 1 (some 46) :: ops.map .base)).length = 4 := by
  decide +kernel

end MagpyVerif.C20f
