/-
Props/C17b.lean — C17, second part: the inputs that are not attribute values of the value grammar, and the form of the methods.
  * a rejected assignment changes nothing, for EVERY property setter (regenerated statement trees, Gen/Setters.lean): each is
    validate-then-assign or (the four collection setters since repo fix 9176cc9) assign-under-restore, the restoring handler being analysed
    statement by statement (witnesses: a handler that forgets one restore is flagged);
  * constructor path = setter path (regenerated table of every `__init__`);
  * `pixel_agg` over the regenerated table of numpy names (Gen/NpNames.lean), `field_func`, the TriangularMesh mode arguments, `in_out`,
    `sumup` / `squeeze`, the `style` argument: accepted ⇔ documented where that is true of the code, `_partial` statements with witnesses where it
    is not (Model/CallArgs.lean, specs in Spec/ValidSpec.lean);
  * `check_dimensions` / `check_excitations`: a missing dimension / excitation is MagpylibMissingInput before any field function runs.
-/
import MagpyVerif.Props.C17
import MagpyVerif.Model.CallArgs
namespace MagpyVerif.C17
open MagpyVerif.Valid MagpyVerif.Gen

/-! ## a rejected assignment changes nothing: every property setter is validate-then-assign or assign-under-restore
(regenerated statement trees, Gen/Setters.lean) -/

/-- the four setters of `BaseCollection` that replace a group of children -/
def collectionSetters : List (String × String) :=
  [("BaseCollection", "children"), ("BaseCollection", "sources"), ("BaseCollection", "sensors"), ("BaseCollection", "collections")]

/-- the setters this section covers: every `@x.setter` of magpylib/_src/obj_classes/class_*.py as the source states them now -/
theorem setter_names :
    Setters.setters.map SetterForm.name =
      [("BaseSource", "field_func"), ("BaseMagnet", "magnetization"), ("BaseMagnet", "polarization"), ("BaseCurrent", "current"),
       ("BaseGeo", "parent"), ("BaseGeo", "position"), ("BaseGeo", "orientation"), ("BaseGeo", "style"),
       ("BaseCollection", "children"), ("BaseCollection", "sources"), ("BaseCollection", "sensors"), ("BaseCollection", "collections"),
       ("Sensor", "pixel"), ("Sensor", "handedness"), ("Circle", "diameter"), ("Polyline", "vertices"), ("Cuboid", "dimension"),
       ("Cylinder", "dimension"), ("CylinderSegment", "dimension"), ("Sphere", "diameter"), ("Tetrahedron", "vertices"),
       ("Dipole", "moment"), ("Triangle", "vertices")] := by
  decide

/-- C17 (every setter, regenerated, full strength since repo fix 9176cc9): for EVERY property setter of the object classes every call in its
body (private helpers of the same class inlined) is known to the analysis, and on every path through the body (loops taken 0, 1 and 2 times),
at every point where the assigned value can be rejected, either no object state has been changed yet, or the point lies in a
`try … except Exception: …; raise` whose handler undoes every change made so far — a rebound attribute is assigned the reference that was saved
before it was rebound, an attribute set on every element of an iterable is set again in a loop over the same iterable, a recomputed view is
recomputed after the attribute writes — and re-raises.  A new or changed setter is covered by the quantifier.
(audit2: NOT in one respect — `SetterForm.pathsS` drops a handler it does not recognise as a restore (narrower `except`, a branch in it, `raise X`)
without looking at its writes, and does not ask whether a recognised handler writes anything ELSE: `form_ignores_unrestoring_handlers` below;
`setters_reject_without_change_strict` closes both for the regenerated table.) -/
theorem setters_reject_without_change : ∀ s ∈ Setters.setters, SetterForm.form s = true := by
  decide

/-- … more precisely: each setter is validate-then-assign, except the four collection setters, which are assign-under-restore -/
theorem setters_validate_then_assign_or_restore :
    (∀ s ∈ Setters.setters, SetterForm.name s ∉ collectionSetters → SetterForm.vtaForm s = true) ∧
    (Setters.setters.filter fun s => !SetterForm.vtaForm s).map SetterForm.name = collectionSetters := by
  decide

/-- the handler of `BaseCollection._replace_children`, as the analysis reads it from the source: `self._children = old_children`, the loop
`for child in removed: child._parent = self`, `self._update_src_and_sens()` -/
def replaceChildrenHandler : List SetterForm.HW :=
  [.restore "self._children" "old_children", .assignElem "child._parent [child in removed]", .call "self._update_src_and_sens"]

/-- (this became true with repo fix 9176cc9; before it the four setters unlinked the old children and cleared the lists with no handler around
`self.add`, and `c.children = [a, 1]` left the collection empty — the former theorems `collection_setters_change_state_before_rejecting` and
`children_setter_offending_path`.)  For each of the four collection setters, on every path: the validation of the typed setters
(`format_obj_input`, and since repo fix 045b334 `_refuse_non_objects` before it in `collections`) is a point of rejection with nothing written; the only other point of rejection is `self.add` inside the `try`; the writes
made before it — `child._parent` of every removed child, `self._children`, the typed views — are each undone by the handler; and `self._children`
is restored from a reference taken before it was rebound. -/
theorem collection_setters_restore_every_write :
    ∀ s ∈ Setters.setters, SetterForm.name s ∈ collectionSetters →
      ∀ p ∈ SetterForm.pathsL s.body,
        SetterForm.rwc p.1 = true ∧
        p.1.filter (·.isRaise) =
          (if s.attr = "children" then []
           else if s.attr = "collections" then [SetterForm.Ev.mayRaise "_refuse_non_objects", .mayRaise "format_obj_input"]
           else [SetterForm.Ev.mayRaise "format_obj_input"]) ++
          [.mayRaiseR "self.add" replaceChildrenHandler] ∧
        (p.1.takeWhile fun e => e != .mayRaiseR "self.add" replaceChildrenHandler).filter (·.isWrite) ∈
          [[.mutate "self._children", .mutate "self._update_src_and_sens"],
           [.mutateElem "child._parent [child in removed]", .mutate "self._children", .mutate "self._update_src_and_sens"],
           [.mutateElem "child._parent [child in removed]", .mutateElem "child._parent [child in removed]", .mutate "self._children",
            .mutate "self._update_src_and_sens"]] ∧
        ([SetterForm.Ev.mutateElem "child._parent [child in removed]", .mutate "self._children", .mutate "self._update_src_and_sens"].all
          (SetterForm.covered [("old_children", "self._children")] replaceChildrenHandler)) = true := by
  decide

/-- the body of the `children` setter with `_replace_children` inlined, as a literal (checked against the regenerated tree below) -/
def childrenBody (handler : List Setters.Stmt) (excType : String) (saveFirst : Bool) : List Setters.Stmt :=
  [.ite ["isinstance"] [.assign "children" false []] [],      -- `if not isinstance(children, (list, tuple)): children = [children]` (045b334)
   .inline "self._replace_children" ["list"]
    ((if saveFirst then [Setters.Stmt.save "old_children" "self._children"] else []) ++
     [.loop [] [.assignElem "child._parent [child in removed]" []], .assign "self._children" true ["any"]] ++
     (if saveFirst then [] else [Setters.Stmt.save "old_children" "self._children"]) ++
     [.expr ["self._update_src_and_sens"], .tryExcept [.expr ["self.add"]] excType handler])]

def childrenHandler : List Setters.Stmt :=
  [.restore "self._children" "old_children", .loop [] [.assignElem "child._parent [child in removed]" []],
   .expr ["self._update_src_and_sens"], .raise ""]

theorem children_body_is_regenerated :
    (Setters.setters.filter fun s => SetterForm.name s == ("BaseCollection", "children")).map (fun s => SetterForm.pathsL s.body) =
      [SetterForm.pathsL (childrenBody childrenHandler "Exception" true)] := by
  decide

/-- witnesses that the analysis looks at the handler's statements: the source's handler passes; a handler that forgets ONE of its three
restores is flagged, whichever it is; so is a handler that restores `_children` from a reference taken after the attribute was rebound, one
that recomputes the typed views before `_children` is put back, one that does not re-raise, one that only catches ValueError, and one that
calls something that can itself reject -/
theorem dropped_restore_is_flagged :
    let f := fun (h : List Setters.Stmt) (exc : String) (saveFirst : Bool) =>
      SetterForm.form ⟨"class_Collection.py", "BaseCollection", "children", "children", childrenBody h exc saveFirst⟩
    f childrenHandler "Exception" true = true ∧
    f [.loop [] [.assignElem "child._parent [child in removed]" []], .expr ["self._update_src_and_sens"], .raise ""] "Exception" true = false ∧
    f [.restore "self._children" "old_children", .expr ["self._update_src_and_sens"], .raise ""] "Exception" true = false ∧
    f [.restore "self._children" "old_children", .loop [] [.assignElem "child._parent [child in removed]" []], .raise ""] "Exception" true = false ∧
    f childrenHandler "Exception" false = false ∧
    f [.expr ["self._update_src_and_sens"], .restore "self._children" "old_children",
       .loop [] [.assignElem "child._parent [child in removed]" []], .raise ""] "Exception" true = false ∧
    f [.restore "self._children" "old_children", .loop [] [.assignElem "child._parent [child in removed]" []],
       .expr ["self._update_src_and_sens"]] "Exception" true = false ∧
    f childrenHandler "ValueError" true = false ∧
    f [.restore "self._children" "old_children", .loop [] [.assignElem "child._parent [child in removed]" []],
       .expr ["self._update_src_and_sens"], .expr ["format_obj_input"], .raise ""] "Exception" true = false ∧
    f [.assign "self._children" true [], .loop [] [.assignElem "child._parent [child in removed]" []],
       .expr ["self._update_src_and_sens"], .raise ""] "Exception" true = false := by
  decide

/-- what the two forms mean for a run, along any path the analysis accepts: (1) when the method is left at a point of rejection that no
handler surrounds, no change of object state has happened before it; (2) when it is left at a point of rejection under a restoring handler,
every change of object state that happened before it is one the handler undoes (with the references saved at that moment).
(audit2: a statement about the EVENT LIST and the syntactic predicate `covered`, not about an execution: there is no state semantics of the
statement tree in the framework.  And conclusion (2) reads `∃ saved, covered saved hd e`: for a rebound attribute that is "the handler contains
SOME `.restore t l`" — choose `saved := [(l, t)]`; that the reference was taken BEFORE the attribute was rebound is checked by `rwcAux`
(witness 5 of `dropped_restore_is_flagged`) but is not part of this conclusion.) -/
theorem rwc_no_unrestored_change_before_rejection (evs : List SetterForm.Ev) (h : SetterForm.rwc evs = true) (i : Nat) :
    (∀ w, evs[i]? = some (.mayRaise w) → ∀ j, j < i → ∀ e, evs[j]? = some e → e.isWrite = false) ∧
    (∀ w hd, evs[i]? = some (.mayRaiseR w hd) →
      ∀ j, j < i → ∀ e, evs[j]? = some e → e.isWrite = true → ∃ saved, SetterForm.covered saved hd e = true) := by
  have key : ∀ (evs : List SetterForm.Ev) (dirty : List SetterForm.Ev) (saved : List (String × String)) (i : Nat),
      SetterForm.rwcAux dirty saved evs = true →
      (∀ w, evs[i]? = some (.mayRaise w) → dirty = [] ∧ ∀ j, j < i → ∀ e, evs[j]? = some e → e.isWrite = false) ∧
      (∀ w hd, evs[i]? = some (.mayRaiseR w hd) →
        (∀ e ∈ dirty, ∃ sv, SetterForm.covered sv hd e = true) ∧
        ∀ j, j < i → ∀ e, evs[j]? = some e → e.isWrite = true → ∃ sv, SetterForm.covered sv hd e = true) := by
    intro evs
    induction evs with
    | nil => intro dirty saved i _; simp
    | cons e0 r ih =>
      intro dirty saved i hr
      cases i with
      | zero =>
        refine ⟨?_, ?_⟩
        · intro w hw
          simp only [List.getElem?_cons_zero, Option.some.injEq] at hw
          subst hw
          simp only [SetterForm.rwcAux, Bool.and_eq_true, List.isEmpty_iff] at hr
          exact ⟨hr.1, fun j hj => absurd hj (Nat.not_lt_zero j)⟩
        · intro w hd hw
          simp only [List.getElem?_cons_zero, Option.some.injEq] at hw
          subst hw
          simp only [SetterForm.rwcAux, Bool.and_eq_true, List.all_eq_true] at hr
          exact ⟨fun e he => ⟨saved, hr.1 e he⟩, fun j hj => absurd hj (Nat.not_lt_zero j)⟩
      | succ i' =>
        -- the state after the head event, and the induction hypothesis for it
        have step : ∃ dirty' saved', SetterForm.rwcAux dirty' saved' r = true ∧ (∀ e ∈ dirty, e ∈ dirty') ∧
            (e0.isWrite = true → e0 ∈ dirty') ∧ (e0.isWrite = false → dirty' = dirty) := by
          cases e0 with
          | mayRaise w =>
            simp only [SetterForm.rwcAux, Bool.and_eq_true] at hr
            exact ⟨dirty, saved, hr.2, fun e he => he, by simp [SetterForm.Ev.isWrite], fun _ => rfl⟩
          | mayRaiseR w hd =>
            simp only [SetterForm.rwcAux, Bool.and_eq_true] at hr
            exact ⟨dirty, saved, hr.2, fun e he => he, by simp [SetterForm.Ev.isWrite], fun _ => rfl⟩
          | save l src =>
            simp only [SetterForm.rwcAux] at hr
            exact ⟨dirty, _, hr, fun e he => he, by simp [SetterForm.Ev.isWrite], fun _ => rfl⟩
          | mutate t =>
            simp only [SetterForm.rwcAux] at hr
            exact ⟨_, saved, hr, fun e he => List.mem_cons_of_mem _ he, fun _ => List.mem_cons_self, by simp [SetterForm.Ev.isWrite]⟩
          | mutateElem t =>
            simp only [SetterForm.rwcAux] at hr
            exact ⟨_, saved, hr, fun e he => List.mem_cons_of_mem _ he, fun _ => List.mem_cons_self, by simp [SetterForm.Ev.isWrite]⟩
        obtain ⟨dirty', saved', hr', hsub, hin, hsame⟩ := step
        obtain ⟨ih1, ih2⟩ := ih dirty' saved' i' hr'
        refine ⟨?_, ?_⟩
        · intro w hw
          simp only [List.getElem?_cons_succ] at hw
          obtain ⟨hd', hbefore⟩ := ih1 w hw
          have hnw : e0.isWrite = false := by
            cases hw0 : e0.isWrite with
            | false => rfl
            | true => have := hin hw0; rw [hd'] at this; cases this
          refine ⟨by rw [← hsame hnw]; exact hd', ?_⟩
          intro j hj e he
          cases j with
          | zero => simp only [List.getElem?_cons_zero, Option.some.injEq] at he; subst he; exact hnw
          | succ j' => simp only [List.getElem?_cons_succ] at he; exact hbefore j' (by omega) e he
        · intro w hd hw
          simp only [List.getElem?_cons_succ] at hw
          obtain ⟨hdirty, hbefore⟩ := ih2 w hd hw
          refine ⟨fun e he => hdirty e (hsub e he), ?_⟩
          intro j hj e he hwr
          cases j with
          | zero =>
            simp only [List.getElem?_cons_zero, Option.some.injEq] at he; subst he
            exact hdirty _ (hin hwr)
          | succ j' => simp only [List.getElem?_cons_succ] at he; exact hbefore j' (by omega) e he hwr
  obtain ⟨k1, k2⟩ := key evs [] [] i h
  exact ⟨fun w hw => (k1 w hw).2, fun w hd hw => (k2 w hd hw).2⟩

/-- every setter whose validation is modelled by `setAttrWith` / `checkVector` / `checkScalar` … (the rows of `Attr.table`) is one of the
regenerated setters, so `*_reject_keeps_state` speaks about methods that have the form it assumes -/
theorem modelled_setters_are_regenerated :
    ∀ r ∈ Attr.table, (r.cls, r.attr) ∈ Setters.setters.map SetterForm.name := by
  decide

example : SetterForm.form ⟨"f", "C", "x", "v", [.assign "self._x" true [], .expr ["check_format_input_scalar"]]⟩ = false := by decide
example : SetterForm.form ⟨"f", "C", "x", "v", [.assign "self._x" true ["some_new_function"]]⟩ = false := by decide
example : SetterForm.form ⟨"f", "C", "x", "v", [.assign "v2" false ["check_format_input_scalar"], .restore "self._x" "v2"]⟩ = true := by decide
-- an in-place change of the list (instead of rebinding the attribute) is a call the analysis does not know: flagged
example : SetterForm.form ⟨"f", "C", "x", "v", [.save "old" "self._children", .expr ["self._children.clear"],
    .tryExcept [.expr ["self.add"]] "Exception" [.restore "self._children" "old", .raise ""]]⟩ = false := by decide
-- a write made by the setter BEFORE it calls the helper is not known to the helper's handler: flagged
example : SetterForm.form ⟨"f", "C", "x", "v", [.assign "self._extra" true [],
    .inline "self._replace_children" [] (childrenBody childrenHandler "Exception" true)]⟩ = false := by decide

/-! ### the two statement shapes of repo fix 045b334 -/

/-- the module-level helpers the setters call, as regenerated, can only reject: their bodies write no object state and call only known quiet or
rejecting functions or themselves — so a call of one is a plain point of rejection (`setters_reject_without_change` then requires that
nothing has been written when it is reached) -/
theorem helpers_only_reject :
    Setters.helpers.map (fun h => (h.1, SetterForm.helperRaisesOnly h, SetterForm.writesL h.2, SetterForm.calleesL h.2)) =
      [("_refuse_non_objects", true, false, ["isinstance", "isinstance", "_refuse_non_objects", "check_format_input_obj"])] := by
  decide

/-- witnesses: a helper that writes state, or that calls something the analysis does not know, is not taken for a point of rejection (the setter
calling it is then flagged: its call is unclassified); and a helper called AFTER a write is flagged like any other point of rejection -/
theorem writing_helper_is_flagged :
    SetterForm.helperRaisesOnly ("_h", [.loop [] [.ite ["isinstance"] [.expr ["_h"]] [.assignElem "obj._parent [obj in inp]" []]]]) = false ∧
    SetterForm.helperRaisesOnly ("_h", [.expr ["some_new_function"]]) = false ∧
    SetterForm.helperRaisesOnly ("_h", [.expr ["self._update_src_and_sens"]]) = false ∧
    SetterForm.form ⟨"f", "C", "x", "v", [.expr ["_unknown_helper"], .restore "self._x" "v"]⟩ = false ∧
    SetterForm.form ⟨"f", "C", "x", "v", [.assign "self._x" true [], .expr ["_refuse_non_objects"]]⟩ = false ∧
    SetterForm.form ⟨"f", "C", "x", "v", [.expr ["_refuse_non_objects"], .restore "self._x" "v"]⟩ = true := by
  decide

/-- rebinding the PARAMETER (`if not isinstance(v, (list, tuple)): v = [v]`) is not a change of object state -/
example : SetterForm.form ⟨"f", "C", "x", "v", [.ite ["isinstance"] [.assign "v" false []] [],
    .assign "w" false ["check_format_input_scalar"], .restore "self._x" "w"]⟩ = true := by decide

/-! ### the values of `Collection.children` and `Collection.collections` (model: `childrenSetter`, `collectionsSetter`) -/

theorem allObjs_eq_objList (xs : List CollVal) : allObjs xs = objList xs := by
  induction xs with
  | nil => rfl
  | cons x r ih =>
    unfold allObjs objList
    rw [ih]
    unfold objList
    cases x <;> simp [asObj] <;> split <;> simp_all

theorem collAddCore_ok_iff (args : List CollVal) (os : List (Nat × ObjKind)) :
    collAddCore args = .ok os ↔ (objList args).bind keepGood = some os := by
  unfold collAddCore
  rw [allObjs_eq_objList]
  cases objList args with
  | none => simp
  | some os' =>
    simp only [Option.bind_some, keepGood, goodObjs]
    by_cases h1 : (os'.any fun o => o.2 == ObjKind.selfOrAncestor) = true
    · simp [h1]
    · by_cases h2 : hasDup (os'.map (·.1)) = true
      · simp [h1, h2]
      · simp [h1, h2]

theorem collAddCore_error_is_bad (args : List CollVal) (e : Err) (h : collAddCore args = .error e) : e = .badUserInput := by
  unfold collAddCore at h
  split at h
  · cases h; rfl
  · split at h
    · cases h; rfl
    · split at h
      · cases h; rfl
      · cases h

/-- C17 (`Collection.children`, after repo fix 045b334): accepted ⇔ documented — a single Magpylib object, or a list / tuple of them (possibly
wrapped in one more list), none the collection itself or a collection containing it, none twice — and the accepted value is the new list of
children; every rejection is the library's input error -/
theorem children_accepts_iff_documented (v : CollVal) (os : List (Nat × ObjKind)) :
    (childrenSetter v = .ok os ↔ docChildren v = some os) ∧
    (∀ e, childrenSetter v = .error e → e = .badUserInput) := by
  refine ⟨?_, fun e h => collAddCore_error_is_bad _ e h⟩
  cases v with
  | obj i k =>
    simp only [childrenSetter, collAdd, unwrapArgs, docChildren]
    rw [collAddCore_ok_iff]
    simp [objList, asObj]
  | junk =>
    simp only [childrenSetter, collAdd, unwrapArgs, docChildren]
    rw [collAddCore_ok_iff]
    simp [objList, asObj]
  | seq xs =>
    rcases xs with _ | ⟨x, _ | ⟨y, r⟩⟩
    · simp only [childrenSetter, collAdd, unwrapArgs, docChildren]; exact collAddCore_ok_iff _ _
    · cases x <;> simp only [childrenSetter, collAdd, unwrapArgs, docChildren] <;> exact collAddCore_ok_iff _ _
    · simp only [childrenSetter, collAdd, unwrapArgs, docChildren]; exact collAddCore_ok_iff _ _

/-- C17 (`c.children = <something that is no list>`, the observation repaired by 045b334: before it `c.children = 5` raised a TypeError from
`self.add(*5)`): a value that is not a list or tuple is accepted exactly when it is a Magpylib object other than the collection itself or one
containing it — it becomes the only child — and is refused with the library's input error otherwise -/
theorem children_rejects_non_sequences_with_library_error (v : CollVal) (hv : ∀ xs, v ≠ .seq xs) :
    (∀ os, childrenSetter v = .ok os ↔ ∃ i k, v = .obj i k ∧ k ≠ .selfOrAncestor ∧ os = [(i, k)]) ∧
    (∀ e, childrenSetter v = .error e → e = .badUserInput) ∧
    (v = .junk → childrenSetter v = .error .badUserInput) := by
  refine ⟨?_, (children_accepts_iff_documented v []).2, fun h => by subst h; decide⟩
  intro os
  rw [(children_accepts_iff_documented v os).1]
  cases v with
  | seq xs => exact absurd rfl (hv xs)
  | junk => simp [docChildren]
  | obj i k =>
    have hg : goodObjs [(i, k)] = !(k == ObjKind.selfOrAncestor) := by simp [goodObjs, hasDup]
    simp only [docChildren, keepGood, hg]
    cases k <;> simp
    all_goals
      constructor
      · rintro rfl; exact ⟨i, _, ⟨rfl, rfl⟩, by simp, rfl⟩
      · rintro ⟨i', k', ⟨rfl, rfl⟩, _, rfl⟩; rfl

theorem no_junk_of_collections (l : List CollVal) (h : l.all isCollectionObj = true) :
    l.any isJunk = false ∧ l.filterMap asCollection = l.filterMap asObj := by
  induction l with
  | nil => exact ⟨rfl, rfl⟩
  | cons x r ih =>
    simp only [List.all_cons, Bool.and_eq_true] at h
    obtain ⟨ih1, ih2⟩ := ih h.2
    cases x with
    | seq xs => simp [isCollectionObj] at h
    | junk => simp [isCollectionObj] at h
    | obj i k =>
      have hk : (k == ObjKind.collection || k == ObjKind.selfOrAncestor) = true := h.1
      simp only [List.any_cons, isJunk, ih1, Bool.or_self, List.filterMap_cons, asCollection, hk, ↓reduceIte, asObj, ih2, and_self]

theorem unwrap_objs (os : List (Nat × ObjKind)) :
    unwrapArgs (os.map fun o => CollVal.obj o.1 o.2) = os.map (fun o => CollVal.obj o.1 o.2) ∧
    objList (os.map fun o => CollVal.obj o.1 o.2) = some os := by
  refine ⟨?_, ?_⟩
  · rcases os with _ | ⟨a, _ | ⟨b, r⟩⟩ <;> rfl
  · rw [← allObjs_eq_objList]
    induction os with
    | nil => rfl
    | cons a r ih => simp [allObjs, asObj, ih]

/-- C17 (`Collection.collections`, after repo fix 045b334): (1) an entry — at any depth of nesting — that is no Magpylib object makes the
assignment fail with the library's input error (before the fix such entries were dropped without a word and every sub-collection was removed);
(2) every rejection is the library's input error; (3) otherwise the assignment is accepted exactly when the Collection objects among the
(flattened) entries can be children together, and they become the sub-collections; (4) a documented value — nested lists of Collection objects
only — is accepted with exactly these -/
theorem collections_setter_refuses_non_objects (v : CollVal) :
    ((leavesC v).any isJunk = true → collectionsSetter v = .error .badUserInput) ∧
    (∀ e, collectionsSetter v = .error e → e = .badUserInput) ∧
    (∀ os, collectionsSetter v = .ok os ↔
      (leavesC v).any isJunk = false ∧ os = (leavesC v).filterMap asCollection ∧ goodObjs os = true) ∧
    (∀ os, docCollections v = some os → collectionsSetter v = .ok os) := by
  have ok_iff : ∀ os, collectionsSetter v = .ok os ↔
      (leavesC v).any isJunk = false ∧ os = (leavesC v).filterMap asCollection ∧ goodObjs os = true := by
    intro os
    unfold collectionsSetter
    by_cases hj : (leavesC v).any isJunk = true
    · simp [hj]
    · have hj' : (leavesC v).any isJunk = false := by simpa using hj
      simp only [hj', Bool.false_eq_true, ↓reduceIte, collAdd, true_and]
      rw [(unwrap_objs _).1, collAddCore_ok_iff, (unwrap_objs _).2]
      simp only [Option.bind_some, keepGood]
      constructor
      · intro h; split at h
        · rename_i hg; cases h; exact ⟨rfl, hg⟩
        · cases h
      · rintro ⟨rfl, hg⟩; simp [hg]
  refine ⟨?_, ?_, ok_iff, ?_⟩
  · intro hj; unfold collectionsSetter; simp [hj]
  · intro e h
    unfold collectionsSetter at h
    split at h
    · cases h; rfl
    · exact collAddCore_error_is_bad _ e h
  · intro os hd
    unfold docCollections at hd
    split at hd
    · rename_i hall
      obtain ⟨hnj, heq⟩ := no_junk_of_collections _ hall
      unfold keepGood at hd
      split at hd
      · rename_i hg; cases hd
        exact (ok_iff _).mpr ⟨hnj, heq.symm, hg⟩
      · cases hd
    · cases hd

/- FULL: `collections` accepted ⇔ documented.  Still false of the code in one respect: sources and sensors among the entries are Magpylib objects,
   so `_refuse_non_objects` lets them pass, and `format_obj_input(…, allow="collections")` then drops them without a word. -/
/-- witness: `c.collections = [a_source, a_sensor]` is accepted and means "no sub-collections" -/
theorem collections_setter_drops_other_objects :
    docCollections (.seq [.obj 0 .source, .obj 1 .sensor]) = none ∧
    collectionsSetter (.seq [.obj 0 .source, .obj 1 .sensor]) = .ok [] ∧
    collectionsSetter (.seq [.obj 2 .collection, .obj 0 .source]) = .ok [(2, .collection)] := by
  decide

example : childrenSetter .junk = .error .badUserInput := by decide
example : childrenSetter (.obj 0 .source) = .ok [(0, .source)] := by decide
example : childrenSetter (.seq [.seq [.obj 0 .source, .obj 1 .sensor]]) = .ok [(0, .source), (1, .sensor)] := by decide
example : childrenSetter (.seq [.seq [.obj 0 .source], .seq [.obj 1 .sensor]]) = .error .badUserInput := by decide
example : childrenSetter (.seq [.obj 0 .source, .obj 0 .source]) = .error .badUserInput := by decide
example : childrenSetter (.seq [.obj 0 .source, .obj 7 .selfOrAncestor]) = .error .badUserInput := by decide
example : collectionsSetter (.seq [.obj 2 .collection, .seq [.seq [.junk]]]) = .error .badUserInput := by decide
example : collectionsSetter (.seq [.seq [.obj 2 .collection], .obj 5 .collection]) = .ok [(2, .collection), (5, .collection)] := by decide
example : docCollections (.seq [.seq [.obj 2 .collection], .obj 5 .collection]) = some [(2, .collection), (5, .collection)] := by decide

/-! ## constructor path = setter path (regenerated table of every `__init__`, Gen/Setters.lean) -/

/-- C17 (constructors, regenerated): every named parameter of every `__init__` is handed on under its own name — assigned through the property
setter of the same name (`self.x = x`), or passed to the base class's `__init__` as the parameter of the same name (bound the way Python binds
the call: this is what failed for `Dipole(style=…)` before repo commit 5d0ef1e, where `style` arrived as `field_func`) -/
theorem ctor_args_keep_their_names :
    ∀ r ∈ Setters.ctors, (r.2.2.1 = "setter" ∨ r.2.2.1 = "forward") → r.2.2.2.1 = r.2.1 := by
  decide

/-- … and followed through the base classes every parameter ends in: the setter of the same name; for `position` / `orientation` the call
`_init_position_orientation(position, orientation)`; for `style` the call `_process_style_kwargs(style=…)`; for the TriangularMesh arguments
`_input_check(vertices, faces)` and the four check methods (`mode=`); for `override_parent` the call of `add`.  Nothing is unused, nothing is
stored as a plain attribute.  (audit2: `resolveCtor` follows the FIRST row of a (class, parameter) pair, so a parameter that is assigned through
its setter and ALSO stored as a plain attribute would pass here; and an empty table passes: both excluded by
`ctor_table_is_total_and_single_valued` below.) -/
theorem ctor_args_reach_their_setters :
    ∀ r ∈ Setters.ctors,
      let res := resolveCtor Setters.ctors 5 r.1 r.2.1
      res = ("setter", r.2.1, "") ∨
      (r.2.1 = "position" ∧ res = ("call", "0", "self._init_position_orientation")) ∨
      (r.2.1 = "orientation" ∧ res = ("call", "1", "self._init_position_orientation")) ∨
      (r.2.1 = "style" ∧ res = ("call", "style", "self._process_style_kwargs")) ∨
      (r.2.1 = "override_parent" ∧ res = ("call", "override_parent", "self.add")) ∨
      (r.1 = "TriangularMesh" ∧ (res = ("call", "0", "self._input_check") ∨ res = ("call", "1", "self._input_check") ∨
        res = ("call", "mode", "self." ++ r.2.1))) := by
  decide

/-- the constructor's path for `position` / `orientation` calls the same validators with the same arguments as the two setters -/
theorem ctor_position_orientation_use_setter_validators :
    Setters.initPosition = positionCfg ∧ Setters.initPosition ∈ Attr.table ∧
    Setters.initOrientation.2 = true ∧ Setters.setterOrientation.2 = true := by
  decide

/-! ## `pixel_agg` (check_format_pixel_agg over the regenerated table of numpy names) -/

theorem npLookup_some (tbl : NpTable) (n : String) (r : String × String × String × Bool × Bool) (h : npLookup tbl n = some r) :
    r ∈ tbl ∧ r.1 = n := by
  unfold npLookup at h
  exact ⟨List.mem_of_find?_eq_some h, by simpa using List.find?_some h⟩

/-- `check_format_pixel_agg` for ANY table of numpy names: accepted exactly for `None` and for the names whose function returns a number on the
test array; the name is what is handed on -/
theorem pixel_agg_ok_iff (tbl : NpTable) (v : PyVal) (s : Stored) :
    checkPixelAgg tbl v = .ok s ↔
      (v = .none ∧ s = .none) ∨
      ∃ n r, v = .str n ∧ npLookup tbl n = some r ∧ r.2.1 = "number" ∧ s = .text n := by
  cases v with
  | none => simp [checkPixelAgg, eq_comm]
  | str n =>
    simp only [checkPixelAgg, reduceCtorEq, false_and, false_or, PyVal.str.injEq]
    cases hl : npLookup tbl n with
    | none =>
      simp only [reduceCtorEq, false_iff, not_exists, not_and]
      rintro n' r rfl hl'
      rw [hl] at hl'; cases hl'
    | some r =>
      obtain ⟨a, kind, exc, b, c⟩ := r
      simp only
      by_cases hk : kind = "number"
      · subst hk
        simp only [beq_self_eq_true, ↓reduceIte, Except.ok.injEq]
        constructor
        · rintro rfl; exact ⟨n, _, rfl, hl, rfl, rfl⟩
        · rintro ⟨n', r, rfl, _, _, rfl⟩; rfl
      · have hne : (kind == "number") = false := by simpa using hk
        simp only [hne, Bool.false_eq_true, ↓reduceIte]
        constructor
        · intro h; split at h <;> (try split at h) <;> (try split at h) <;> (try split at h) <;> cases h
        · rintro ⟨n', r, rfl, hl', hk', _⟩
          rw [hl] at hl'; cases hl'; exact absurd hk' hk
  | _ => simp [checkPixelAgg]

/-- C17 (`pixel_agg`, never the library's error): every rejection is a foreign exception — AttributeError (pinned by
tests/test_getBH_level2.py), TypeError for a value that is not a string or names something that cannot be called, or whatever the numpy function
raises on the test array.  The full-strength statement "rejection = the library's input error" is false of the code. -/
theorem pixel_agg_rejection_is_foreign (tbl : NpTable) (v : PyVal) (e : Err) (h : checkPixelAgg tbl v = .error e) :
    ∃ exc, e = .foreign exc := by
  cases v <;> simp only [checkPixelAgg] at h
  case str n =>
    repeat' split at h
    all_goals first
      | (cases h; done)
      | (cases h; exact ⟨_, rfl⟩)
  all_goals first
    | (cases h; done)
    | (cases h; exact ⟨_, rfl⟩)

/- FULL: accepted ⇔ documented (None or the name of a numpy reduction).  False of the code: `isinstance(func(x), numbers.Number)` also passes
   functions that return a number without reducing an axis (`pixel_agg_accepted_non_reductions`); they fail later, inside the field computation,
   with a foreign TypeError (`pixel_agg_ndim_fails_later`). -/
/-- C17 (`pixel_agg`, any table): accepted ⇔ documented, or a name whose function returns a number on the test array without being a reduction
over the pixel axes -/
theorem pixel_agg_accepts_iff_documented_partial (tbl : NpTable) (v : PyVal) :
    (∃ s, checkPixelAgg tbl v = .ok s) ↔
      docPixelAgg tbl v = true ∨
      ∃ n r, v = .str n ∧ npLookup tbl n = some r ∧ r.2.1 = "number" ∧ (r.2.2.2.1 && r.2.2.2.2) = false := by
  constructor
  · rintro ⟨s, hs⟩
    rcases (pixel_agg_ok_iff tbl v s).mp hs with ⟨rfl, _⟩ | ⟨n, r, rfl, hl, hk, _⟩
    · left; rfl
    · obtain ⟨a, kind, exc, b, c⟩ := r
      simp only at hk; subst hk
      cases hb : (b && c) with
      | true => left; simp only [Bool.and_eq_true] at hb; simp [docPixelAgg, hl, hb.1, hb.2]
      | false => right; exact ⟨n, _, rfl, hl, rfl, hb⟩
  · rintro (hd | ⟨n, r, rfl, hl, hk, _⟩)
    · cases v <;> simp [docPixelAgg] at hd
      case none => exact ⟨.none, rfl⟩
      case str n =>
        cases hl : npLookup tbl n with
        | none => simp [hl] at hd
        | some r =>
          obtain ⟨a, kind, exc, b, c⟩ := r
          simp only [hl, Bool.and_eq_true, beq_iff_eq] at hd
          exact ⟨.text n, (pixel_agg_ok_iff tbl _ _).mpr (Or.inr ⟨n, _, rfl, hl, hd.1.1, rfl⟩)⟩
    · exact ⟨.text n, (pixel_agg_ok_iff tbl _ _).mpr (Or.inr ⟨n, r, rfl, hl, hk, rfl⟩)⟩

/-- the accepted names of the installed numpy that are not reductions (regenerated: a numpy upgrade that changes the list breaks this) -/
theorem pixel_agg_accepted_non_reductions :
    (NpNames.table.filter fun r => r.2.1 == "number" && !(r.2.2.2.1 && r.2.2.2.2)).map (·.1) =
      ["argmax", "argmin", "iscomplexobj", "isfortran", "isrealobj", "isscalar", "iterable", "nanargmax", "nanargmin", "ndim", "size"] := by
  decide

/-- the documented reductions of the installed numpy -/
theorem pixel_agg_documented_names :
    (NpNames.table.filter fun r => r.2.1 == "number" && r.2.2.2.1 && r.2.2.2.2).map (·.1) =
      ["amax", "amin", "average", "count_nonzero", "max", "mean", "median", "min", "nanmax", "nanmean", "nanmedian", "nanmin", "nanprod",
       "nanstd", "nansum", "nanvar", "prod", "ptp", "std", "sum", "var"] := by
  decide

/-- a documented aggregator never fails at its later use in `getBH_level2`, whichever of the two calls is made.
(audit2: by definition — `docPixelAgg` IS "returns a number ∧ reduces over an axis tuple ∧ reduces over one axis", and `pixelAggUse` returns the
second / third column; what carries content is the probed table `Gen.NpNames.table`, the pinned lists above and the `pixelagguse` stream rows.) -/
theorem pixel_agg_documented_never_fails_later (tbl : NpTable) (n : String) (same : Bool) (h : docPixelAgg tbl (.str n) = true) :
    pixelAggUse tbl n same = true := by
  unfold docPixelAgg at h
  unfold pixelAggUse
  cases hl : npLookup tbl n with
  | none => simp [hl] at h
  | some r =>
    obtain ⟨a, kind, exc, b, c⟩ := r
    simp only [hl, Bool.and_eq_true] at h
    cases same <;> simp [h.1.2, h.2]

/-- witness ("no accepted input later fails inside a field computation" is false for `pixel_agg`): 'ndim' passes the check and then fails
inside `getBH_level2` (`np.ndim(B, axis=…)`: TypeError) -/
theorem pixel_agg_ndim_fails_later :
    checkPixelAgg NpNames.table (.str "ndim") = .ok (.text "ndim") ∧ pixelAggUse NpNames.table "ndim" true = false ∧
    pixelAggUse NpNames.table "ndim" false = false := by
  decide

example : checkPixelAgg NpNames.table (.str "mean") = .ok (.text "mean") := by decide
set_option maxRecDepth 8000 in
example : checkPixelAgg NpNames.table (.str "bogus") = .error (.foreign "AttributeError") := by decide
example : checkPixelAgg NpNames.table (.str "any") = .error (.foreign "AttributeError") := by decide
example : checkPixelAgg NpNames.table (.str "pi") = .error (.foreign "TypeError") := by decide
example : checkPixelAgg NpNames.table (.num 1) = .error (.foreign "TypeError") := by rfl
example : docPixelAgg NpNames.table (.str "mean") = true := by decide

/-! ## `field_func` (validate_field_func, the setter of BaseSource) -/

theorem ffOutCheck_ok_iff (o : FFOut) : ffOutCheck o = .ok () ↔ ffOutDoc o = true := by
  cases o <;> simp [ffOutCheck, ffOutDoc]

/-- C17 (`field_func`): accepted ⇔ documented — `None`, or a callable whose first two positional parameters are called `field` and `observers` and
whose results for 'B' and 'H' on the two test observers are `None` or an ndarray of shape (2,3) -/
theorem field_func_accepts_iff_documented (v : FFVal) : validateFieldFunc v = .ok () ↔ docFieldFunc v = true := by
  cases v with
  | none => simp [validateFieldFunc, docFieldFunc]
  | notCallable => simp [validateFieldFunc, docFieldFunc]
  | unreadable => simp [validateFieldFunc, docFieldFunc]
  | func args b h =>
    simp only [validateFieldFunc, docFieldFunc, bne_iff_ne, ne_eq, ite_not, Bool.and_eq_true, beq_iff_eq]
    by_cases ha : List.take 2 args = ["field", "observers"]
    · simp only [ha, ↓reduceIte, true_and]
      cases hb : ffOutCheck b with
      | error e =>
        have : ¬ ffOutDoc b = true := fun hd => by rw [(ffOutCheck_ok_iff b).mpr hd] at hb; cases hb
        simp [this]
      | ok u => simp [(ffOutCheck_ok_iff b).mp hb, ffOutCheck_ok_iff]
    · simp [ha]

/- FULL: every rejection is the library's input error.  False in two cases that are not about the format of the value: a callable whose signature
   `inspect.getfullargspec` cannot read (`dict`, `int`, `np.sum`: TypeError — `field_func_unreadable_is_foreign`), and an exception raised by the user's
   function itself during the two test calls, which propagates. -/
/-- C17 (`field_func`, rejection): a value that is refused although the user's function ran without raising and has a readable signature is refused
with the library's input error -/
theorem field_func_rejection_is_bad_partial (v : FFVal) (e : Err) (h : validateFieldFunc v = .error e)
    (hop : v ≠ .unreadable) (hr : ∀ args b hh, v = .func args b hh → (∀ x, b ≠ .raises x) ∧ (∀ x, hh ≠ .raises x)) : e = .badUserInput := by
  have out_bad : ∀ (o : FFOut) (e : Err), ffOutCheck o = .error e → (∀ x, o ≠ .raises x) → e = .badUserInput := by
    intro o e h hr
    cases o with
    | none => simp [ffOutCheck] at h
    | array sh =>
      simp only [ffOutCheck] at h
      split at h
      · cases h
      · cases h; rfl
    | notArray => simp only [ffOutCheck] at h; cases h; rfl
    | raises x => exact absurd rfl (hr x)
  cases v with
  | none => simp [validateFieldFunc] at h
  | notCallable => simp only [validateFieldFunc] at h; cases h; rfl
  | unreadable => exact absurd rfl hop
  | func args b hh =>
    obtain ⟨hb, hh'⟩ := hr args b hh rfl
    simp only [validateFieldFunc] at h
    split at h
    · cases h; rfl
    · cases hc : ffOutCheck b with
      | error e' => simp only [hc] at h; cases h; exact out_bad b _ hc hb
      | ok u => simp only [hc] at h; exact out_bad hh _ h hh'

theorem field_func_unreadable_is_foreign : validateFieldFunc .unreadable = .error (.foreign "TypeError") := rfl

/-- C17 (`field_func` setter): on an editable class a refused function leaves the attribute as it was and an accepted one is stored as given; on
every other class the assignment raises AttributeError and changes nothing -/
theorem field_func_setter_validates_then_assigns (ed : Bool) (old v : FFVal) :
    ((setFieldFunc ed old v).2 ≠ none → (setFieldFunc ed old v).1 = old) ∧
    ((setFieldFunc ed old v).2 = none → ed = true ∧ docFieldFunc v = true ∧ (setFieldFunc ed old v).1 = v) := by
  unfold setFieldFunc
  cases ed
  · simp
  · cases hv : validateFieldFunc v with
    | error e => simp
    | ok u => simp [(field_func_accepts_iff_documented v).mp hv]

example : validateFieldFunc (.func ["field", "observers"] (.array [2, 3]) .none) = .ok () := by decide
example : validateFieldFunc (.func ["observers", "field"] (.array [2, 3]) .none) = .error .badUserInput := by decide
example : validateFieldFunc (.func ["field", "observers"] (.array [2, 2]) .none) = .error .badUserInput := by decide
example : validateFieldFunc (.func ["field", "observers"] (.raises "KeyError") .none) = .error (.foreign "KeyError") := by decide

/-! ## the mode arguments of TriangularMesh (`check_open`, `check_disconnected`, `check_selfintersecting`, `reorient_faces`) -/

/-- the values `_validate_mode_arg` compares with, and the methods that call it, as the source states them now -/
theorem mode_values_are_modelled :
    Setters.modeValues = ["True", "False", "'warn'", "'raise'", "'ignore'", "'skip'"] ∧
    Setters.modeUsers = ["check_disconnected", "check_open", "check_selfintersecting", "reorient_faces"] := by
  decide

/-- C17 (mode arguments): a documented value is accepted and acts as documented (`True` = 'warn', `False` = 'skip') -/
theorem mode_documented_meaning (v : PyVal) (m : Mode) (h : docMode v = some m) :
    ∃ s, validateMode v = .ok s ∧ modeEffect s = m := by
  cases v <;> simp [docMode] at h
  case bool b => cases b <;> simp at h <;> subst h <;> exact ⟨_, rfl, by decide⟩
  case str s =>
    split at h
    · rename_i hs; simp at h; subst h; subst hs; exact ⟨_, rfl, by decide⟩
    · split at h
      · rename_i hs; simp at h; subst h; subst hs; exact ⟨_, rfl, by decide⟩
      · split at h
        · rename_i hs; simp at h; subst h; subst hs; exact ⟨_, rfl, by decide⟩
        · split at h
          · rename_i hs; simp at h; subst h; subst hs; exact ⟨_, rfl, by decide⟩
          · cases h

/-- C17 (mode arguments, rejection): the refusal is a ValueError — the docstring's promise, not the library's input error -/
theorem mode_rejection_is_value_error (v : PyVal) (e : Err) (h : validateMode v = .error e) : e = .foreign "ValueError" := by
  cases v <;> simp [validateMode] at h <;> (try split at h) <;> (try split at h) <;>
    first
      | (injection h with h; exact h.symm)
      | exact h.symm
      | cases h

/- FULL: accepted ⇔ documented.  False of the code: `arg not in (True, False, …)` compares with `==`, so the numbers 1 and 0 pass as well, and —
   not being the objects `True` / `False` — they are NOT translated: `check_open=1` runs the check silently ('ignore'), `check_open=0` also RUNS the
   check although `False` skips it. -/
theorem mode_accepts_undocumented :
    docMode (.num 1) = none ∧ validateMode (.num 1) = .ok (.scalar (.fin 1)) ∧ modeEffect (.scalar (.fin 1)) = .ignore ∧
    docMode (.num 0) = none ∧ validateMode (.num 0) = .ok (.scalar (.fin 0)) ∧ modeEffect (.scalar (.fin 0)) = .ignore ∧
    (∃ s, validateMode (.bool false) = .ok s ∧ modeEffect s = .skip) := by
  refine ⟨rfl, rfl, rfl, rfl, rfl, rfl, _, rfl, by decide⟩

/-- C17 (mode arguments): accepted ⇔ documented or a number (int, float, numpy.bool_, one-element array) equal to 1 or 0 -/
theorem mode_accepts_iff_documented_partial (v : PyVal) :
    (∃ s, validateMode v = .ok s) ↔
      (docMode v).isSome = true ∨ (∃ n, (v = .num n ∨ v = .flt n) ∧ (n = 1 ∨ n = 0)) ∨ (∃ b, v = .npbool b) ∨
      (∃ sh d, v = .arr sh d ∧ prod sh = 1 ∧ (d.getD 0 0 = 1 ∨ d.getD 0 0 = 0)) := by
  cases v <;> simp [validateMode, docMode]
  case bool b => cases b <;> simp
  case str s =>
    by_cases h1 : s = "warn" <;> by_cases h2 : s = "raise" <;> by_cases h3 : s = "ignore" <;> by_cases h4 : s = "skip" <;> simp [h1, h2, h3, h4]
  case num n => by_cases h1 : n = 1 <;> by_cases h0 : n = 0 <;> simp [h1, h0]
  case flt n => by_cases h1 : n = 1 <;> by_cases h0 : n = 0 <;> simp [h1, h0]
  case arr sh d =>
    by_cases hp : prod sh = 1 <;> by_cases h1 : d[0]?.getD 0 = 1 <;> by_cases h0 : d[0]?.getD 0 = 0 <;> simp [hp, h1, h0]
    all_goals first
      | exact ⟨sh, d, ⟨rfl, rfl⟩, hp, Or.inl h1⟩
      | exact ⟨sh, d, ⟨rfl, rfl⟩, hp, Or.inr h0⟩

example : validateMode (.str "raise") = .ok (.text "raise") := by decide
example : validateMode (.str "Warn") = .error (.foreign "ValueError") := by decide
example : validateMode .none = .error (.foreign "ValueError") := by rfl

/-! ## `in_out` of getB / getH / getJ / getM: validated nowhere -/

/-- no call in `getBH_level2`, `getBH_dict_level2` or `getBH_level1` receives `in_out` as an argument of a check (regenerated: the day a validator is
added this breaks and the model below has to follow).
(audit2: the generator looks at POSITIONAL arguments only (`n.args`); the source passes `in_out` by keyword everywhere (`in_out=in_out`), so a
validator called as `check(in_out=in_out)` would NOT show here.  What ties the statement "nothing validates in_out" to the code is the `inout`
rows of the callargs stream, not this equality.) -/
theorem inout_is_validated_nowhere : Setters.inOutChecks = [] := by decide

/-- C17 (`in_out`): a documented value is accepted and has its documented meaning for both classes that look at it -/
theorem inout_documented_meaning (tetra : Bool) (v : PyVal) (e : IOEff) (h : docInOut v = some e) : inOutCall tetra v = .ok e := by
  cases v <;> simp [docInOut] at h
  case str s =>
    by_cases h1 : s = "auto"
    · subst h1; simp at h; subst h; cases tetra <;> decide
    · by_cases h2 : s = "inside"
      · subst h2; simp at h; subst h; cases tetra <;> decide
      · by_cases h3 : s = "outside"
        · subst h3; simp at h; subst h; cases tetra <;> decide
        · simp [h1, h2, h3] at h

/-- C17 (`in_out`, never the library's error): the only way an `in_out` value is refused is numpy's ValueError for an array with other than one
element in `if in_out != "auto"` -/
theorem inout_rejection_is_foreign (tetra : Bool) (v : PyVal) (e : Err) (h : inOutCall tetra v = .error e) : e = .foreign "ValueError" := by
  unfold inOutCall inOutLevel2 tetraInOut trimeshInOut at h
  cases h1 : eqStrTruth "auto" v <;> cases h2 : eqStrTruth "inside" v <;> cases h3 : eqStrTruth "outside" v <;> cases tetra <;>
    simp [h1, h2, h3] at h <;> (try split at h) <;> (try split at h) <;>
    first
      | rfl
      | exact h.symm
      | (cases h; done)
      | (cases h; rfl)
      | simp_all

/- FULL: accepted ⇔ documented ('auto' | 'inside' | 'outside'), rejection = the library's input error.  False of the code: nothing validates
   `in_out`; every value that is not an array is accepted (`inout_accepts_undocumented`) and a misspelt value is read as 'auto' by the Tetrahedron
   but as 'outside' by the TriangularMesh of the same points (`inout_misspelt_classes_disagree`). -/
/-- C17 (`in_out`, silent coercion): an undocumented value that is accepted acts as 'auto' on a Tetrahedron and as 'outside' on a TriangularMesh -/
theorem inout_misspelt_classes_disagree (v : PyVal) (hd : docInOut v = none) (e1 e2 : IOEff)
    (h1 : inOutCall true v = .ok e1) (h2 : inOutCall false v = .ok e2) : e1 = .auto ∧ e2 = .outside := by
  have key : ∀ lit, lit = "auto" ∨ lit = "inside" ∨ lit = "outside" → eqStrTruth lit v ≠ some true := by
    intro lit hl ht
    cases v <;> simp [eqStrTruth] at ht
    case str s => subst ht; rcases hl with rfl | rfl | rfl <;> simp [docInOut] at hd
  unfold inOutCall inOutLevel2 tetraInOut trimeshInOut at h1 h2
  cases ha : eqStrTruth "auto" v with
  | none => simp [ha] at h1
  | some a =>
    cases hi : eqStrTruth "inside" v with
    | none => simp [ha, hi] at h1
    | some i =>
      cases ho : eqStrTruth "outside" v with
      | none => cases i <;> simp [ha, hi, ho] at h1; exact absurd hi (key _ (Or.inr (Or.inl rfl)))
      | some o =>
        have := key "auto" (Or.inl rfl); have := key "inside" (Or.inr (Or.inl rfl)); have := key "outside" (Or.inr (Or.inr rfl))
        cases a <;> cases i <;> cases o <;> simp_all

theorem inout_accepts_undocumented :
    docInOut (.str "bogus") = none ∧ inOutCall true (.str "bogus") = .ok .auto ∧ inOutCall false (.str "bogus") = .ok .outside ∧
    inOutCall true .none = .ok .auto ∧ inOutCall false (.num 1) = .ok .outside := by
  decide

example : inOutCall false (.arr [2] [1, 2]) = .error (.foreign "ValueError") := by decide
example : inOutCall true (.str "inside") = .ok .inside := by decide

/-! ## `sumup`, `squeeze`: used by truth value -/

theorem flags_are_truth_tests : Setters.truthTests = ["if squeeze", "if sumup"] := by decide

/-- C17 (`sumup` / `squeeze`): a documented value (a bool) has its documented meaning -/
theorem flag_documented_meaning (v : PyVal) (b : Bool) (h : docFlag v = some b) : pyTruth v = .ok b := by
  cases v <;> simp [docFlag] at h
  subst h; rfl

/- FULL: accepted ⇔ documented.  False of the code: every value is taken by its truth value. -/
theorem flag_accepts_undocumented :
    docFlag (.str "no") = none ∧ pyTruth (.str "no") = .ok true ∧ pyTruth .none = .ok false ∧ pyTruth (.seq [.num 0]) = .ok true := by
  decide

/-- the only refusal is numpy's ValueError for an array with other than one element -/
theorem flag_rejection_is_foreign (v : PyVal) (e : Err) (h : pyTruth v = .error e) : e = .foreign "ValueError" := by
  cases v <;> simp only [pyTruth] at h <;> try (cases h; done)
  case arr sh d => split at h <;> cases h; rfl

/-! ## the `style` argument -/

/-- C17 (`style` setter): accepted ⇔ documented — `None`, a dictionary of valid style entries, or an object of the class's own style class -/
theorem style_setter_accepts_iff_documented (a : StyleArg) : styleSetter a = .ok () ↔ docStyle a = true := by
  cases a with
  | none => simp [styleSetter, docStyle]
  | dict d => cases d <;> simp [styleSetter, docStyle]
  | styleObj own => cases own <;> simp [styleSetter, docStyle]
  | other => simp [styleSetter, docStyle]

/-- the style system never raises the library's input error: ValueError for a value of the wrong type, and whatever the style classes raise for
a bad entry (AttributeError for an unknown property, ValueError / AssertionError for a bad value) -/
theorem style_rejection_is_foreign (a : StyleArg) (e : Err) (h : styleSetter a = .error e) : ∃ exc, e = .foreign exc := by
  cases a with
  | none => simp [styleSetter] at h
  | dict d => cases d <;> simp [styleSetter] at h; exact ⟨_, h.symm⟩
  | styleObj own => cases own <;> simp [styleSetter] at h; exact ⟨_, h.symm⟩
  | other => simp [styleSetter] at h; exact ⟨_, h.symm⟩

/-- for `None` and for dictionaries the constructor path (no extra keywords) ends where the setter path ends: construction succeeds, and the first
access of `.style` gives what the setter gives -/
theorem style_ctor_dict_agrees_with_setter (a : StyleArg) (h : a = .none ∨ ∃ d, a = .dict d) :
    ∃ p, styleCtor a false true none = .ok p ∧ styleRealise p = styleSetter a := by
  rcases h with rfl | ⟨d, rfl⟩
  · exact ⟨_, rfl, rfl⟩
  · cases d <;> exact ⟨_, rfl, rfl⟩

/- FULL: constructor path = setter path for `style`.  False of the code: the constructor stores the argument unexamined and the validation happens
   at the first access of `.style` (in `show`, in `copy`, in `repr` with a label …): -/
/-- witnesses: `Sensor(style=5)` is constructed without complaint and fails with AttributeError at the first access of `.style`; a style object
of the class's own style class is accepted by the setter but makes the constructed object fail with TypeError at the first access -/
theorem style_ctor_defers_validation :
    styleCtor .other false true none = .ok (.raw .other) ∧ styleRealise (.raw .other) = .error (.foreign "AttributeError") ∧
    styleSetter .other = .error (.foreign "ValueError") ∧
    styleSetter (.styleObj true) = .ok () ∧ styleCtor (.styleObj true) false true none = .ok (.raw (.styleObj true)) ∧
    styleRealise (.raw (.styleObj true)) = .error (.foreign "TypeError") := by
  decide

example : styleCtor .none true true (some "AttributeError") = .ok (.dict (some "AttributeError")) := by decide
example : styleCtor .none true false none = .error (.foreign "TypeError") := by decide

/-! ## no accepted object fails later for a missing input: `check_dimensions` / `check_excitations` -/

/-- `getBH_level2` runs both checks right after the sources are flattened — before the observers are looked at, before any path is tiled
(`obj._position = …`) and before any field function is called (regenerated order of first occurrences) -/
theorem level2_checks_precede_fields :
    Setters.level2Order = ["getBH_dict_level2", "format_src_inputs", "check_dimensions", "check_excitations", "check_format_pixel_agg",
      "check_format_input_observers", "assign obj._position", "assign obj._orientation", "getBH_level1", "pixel_agg_func",
      "check_getBH_output_type"] := by
  decide

/-- the attributes the two checks look at, per registered source class (by reflection on the classes) -/
theorem class_attrs_are_modelled :
    Setters.dimNames = ["dimension", "diameter", "vertices"] ∧ Setters.excNames = ["polarization", "current", "moment"] ∧
    Setters.classAttrs.map (fun r => (r.1, r.2.1, r.2.2.1)) =
      [("Circle", ["diameter"], ["current"]), ("Cuboid", ["dimension"], ["polarization"]), ("CustomSource", [], []),
       ("Cylinder", ["dimension"], ["polarization"]), ("CylinderSegment", ["dimension"], ["polarization"]), ("Dipole", [], ["moment"]),
       ("Line", ["vertices"], ["current"]), ("Loop", ["diameter"], ["current"]), ("Polyline", ["vertices"], ["current"]),
       ("Sphere", ["diameter"], ["polarization"]), ("Tetrahedron", ["vertices"], ["polarization"]), ("Triangle", ["vertices"], ["polarization"]),
       ("TriangularMesh", ["vertices"], ["polarization"])] := by
  decide

/-- `check_dimensions` / `check_excitations` pass exactly when no source's first present attribute is `None`; the only error is MagpylibMissingInput -/
theorem check_attrs_ok_iff (names : List String) (srcs : List SrcObj) :
    (checkAttrs names srcs = .ok () ↔ ∀ o ∈ srcs, ∀ n, firstPresent names o ≠ some (n, true)) ∧
    (∀ e, checkAttrs names srcs = .error e → e = .missingInput) := by
  induction srcs with
  | nil => simp [checkAttrs]
  | cons o r ih =>
    unfold checkAttrs
    cases hf : firstPresent names o with
    | none => simpa [hf] using ih
    | some a =>
      obtain ⟨n, b⟩ := a
      cases b
      · simpa [hf] using ih
      · simp [hf]

/-- C17 (missing inputs): when some source lacks its dimension-like or its excitation-like attribute (`None`), `getBH_level2` raises
MagpylibMissingInput whatever the rest of the computation would do — `run`, which stands for the observers' formatting, the path tiling and every
field function, is never evaluated -/
theorem missing_attribute_rejected_before_fields {β : Type} (srcs : List SrcObj) (run : Unit → β)
    (h : ∃ o ∈ srcs, ∃ n, firstPresent Setters.dimNames o = some (n, true) ∨ firstPresent Setters.excNames o = some (n, true)) :
    level2Checks Setters.dimNames Setters.excNames srcs run = .error .missingInput := by
  obtain ⟨o, ho, n, hn⟩ := h
  unfold level2Checks
  cases hd : checkAttrs Setters.dimNames srcs with
  | error e => rw [(check_attrs_ok_iff _ srcs).2 e hd]
  | ok u =>
    cases he : checkAttrs Setters.excNames srcs with
    | error e => simp only; rw [(check_attrs_ok_iff _ srcs).2 e he]
    | ok u' =>
      exfalso
      rcases hn with hn | hn
      · exact (check_attrs_ok_iff _ srcs).1.mp hd o ho n hn
      · exact (check_attrs_ok_iff _ srcs).1.mp he o ho n hn

/-- C17 (complete objects pass): sources whose attributes are all set and that have a field function get through both checks, and the computation
runs -/
theorem complete_objects_pass {β : Type} (srcs : List SrcObj) (run : Unit → β)
    (h : ∀ o ∈ srcs, (∀ a ∈ o.attrs, a.2 = false) ∧ o.hasFieldFunc = true) :
    level2Checks Setters.dimNames Setters.excNames srcs run = .ok (run ()) := by
  have none_missing : ∀ names, ∀ o ∈ srcs, ∀ n, firstPresent names o ≠ some (n, true) := by
    intro names o ho n hf
    unfold firstPresent at hf
    obtain ⟨m, _, hm⟩ := List.exists_of_findSome?_eq_some hf
    have := (h o ho).1 _ (List.mem_of_find?_eq_some hm)
    simp at this
  unfold level2Checks
  rw [(check_attrs_ok_iff _ srcs).1.mpr (none_missing _), (check_attrs_ok_iff _ srcs).1.mpr (none_missing _)]
  have : srcs.all (·.hasFieldFunc) = true := by
    simp only [List.all_eq_true]; exact fun o ho => (h o ho).2
  simp [this]

/-- an attribute a setter accepted is `None` only when `None` was assigned: an object whose attributes were all given values has them all set -/
theorem accepted_none_iff_none_given (cfg : Attr.Row) (an fn : Bool) (v : PyVal) :
    (checkVector cfg v = .ok .none → v = .none) ∧ (checkScalar an fn v = .ok .none → v = .none) ∧
    (checkVertices v = .ok .none → v = .none) ∧ (checkCylSeg v = .ok .none → v = .none) := by
  have hvec : ∀ cfg : Attr.Row, ∀ v, checkVector cfg v = .ok .none → v = .none := by
    intro cfg v h
    unfold checkVector at h
    split at h
    · rfl
    · split at h
      · cases h
      · split at h
        · cases h
        · split at h
          · cases h
          · split at h
            · split at h
              · cases h
              · split at h <;> cases h
            · split at h <;> cases h
  refine ⟨hvec cfg v, ?_, ?_, ?_⟩
  · intro h
    unfold checkScalar at h
    split at h
    · rfl
    · split at h
      · cases h
      · split at h
        · cases h
        · split at h <;> cases h
  · intro h
    unfold checkVertices checkVerticesCore at h
    cases hc : checkVector verticesCfg (if isSeq v = true then noneRowsToNan v else v) with
    | error e => simp [hc] at h
    | ok s =>
      cases s with
      | array a => simp only [hc] at h; split at h <;> (try split at h) <;> cases h
      | none =>
        have := hvec _ _ hc
        cases v <;> simp [isSeq, noneRowsToNan] at this ⊢
        case seq rows => split at this <;> cases this
      | scalar x => simp [hc] at h
      | text t => simp [hc] at h
      | quats n => simp [hc] at h
  · intro h
    rcases cylseg_stored v _ h with ⟨hv, _⟩ | h'
    · exact hv
    · cases h'

example : level2Checks Setters.dimNames Setters.excNames [⟨[("dimension", true), ("polarization", false)], true⟩] (fun _ => 1) = .error .missingInput := by decide
example : level2Checks Setters.dimNames Setters.excNames [⟨[("dimension", false), ("polarization", false)], true⟩] (fun _ => 1) = .ok 1 := by decide
example : (mkSrc "CustomSource" false false).map (level2Checks Setters.dimNames Setters.excNames [·] (fun _ => 1)) = some (.error .missingInput) := by decide

/-- the statement skeletons of the functions modelled in Model/CallArgs.lean, as the source states them now -/
theorem callarg_skeletons_are_modelled :
    Setters.skeleton =
      [
        ("check_format_pixel_agg", ["if pixel_agg is None", "  return None", "try", "  pixel_agg_func = getattr(np, pixel_agg)", "except AttributeError", "  raise AttributeError", "x = np.array([[[(1, 2, 3)] * 2] * 3] * 4)", "if not isinstance(pixel_agg_func(x), numbers.Number)", "  raise AttributeError", "return pixel_agg_func"]),
        ("validate_field_func", ["if val is None", "  return None", "if not callable(val)", "  raise MagpylibBadUserInput", "fn_args = inspect.getfullargspec(val).args", "if fn_args[:2] != ['field', 'observers']", "  raise MagpylibBadUserInput", "for field in ['B', 'H']", "  out = val(...)", "  if out is not None", "    if not isinstance(out, np.ndarray)", "      raise MagpylibBadUserInput", "    if out.shape != (2, 3)", "      raise MagpylibBadUserInput", "return None"]),
        ("check_dimensions", ["for src in sources", "  for arg in ('dimension', 'diameter', 'vertices')", "    if hasattr(src, arg)", "      if getattr(src, arg) is None", "        raise MagpylibMissingInput"]),
        ("check_excitations", ["for src in sources", "  for arg in ('polarization', 'current', 'moment')", "    if hasattr(src, arg)", "      if getattr(src, arg) is None", "        raise MagpylibMissingInput"]),
        ("TriangularMesh._validate_mode_arg", ["accepted_arg_vals = (True, False, 'warn', 'raise', 'ignore', 'skip')", "if arg not in accepted_arg_vals", "  raise ValueError", "arg = 'warn' if arg is True else 'skip' if arg is False else arg", "return arg"]),
        ("BaseGeo._process_style_kwargs", ["if kwargs", "  style = {} if style is None else dict(style)", "  style_kwargs = {}", "  for (k, v) in kwargs.items()", "    if k.startswith('style_')", "      style_kwargs[k[6:]] = v", "    else", "      raise TypeError", "  style.update(...)", "return style"]),
        ("BaseGeo._validate_style", ["val = {} if val is None else val", "style = self.style", "if isinstance(val, dict)", "  style.update(...)", "else", "  if not isinstance(val, self._style_class)", "    raise ValueError", "return style"]),
        ("point_inside (in_out tests)", ["if in_out == 'inside'", "if in_out == 'outside'"]),
        ("BHJM_magnet_trimesh (in_out tests)", ["if in_out == 'auto'", "if in_out == 'inside'"])] := by
  rfl

/-! ## audit2: what `SetterForm.form` does not look at, and the constructor table as a function -/

/-- every write event on any path of the setter -/
def setterWrites (s : Setters.Setter) : List SetterForm.Ev :=
  (SetterForm.pathsL s.body).flatMap fun p => p.1.filter (·.isWrite)

/-- a handler write that puts back something the setter itself writes: a local into an attribute the setter rebinds, the per-element attribute
the setter sets in a loop over the same iterable, a recomputation the setter also calls; an attribute assigned any other expression
(`HW.assign`) never counts -/
def hwUndoes (ws : List SetterForm.Ev) : SetterForm.HW → Bool
  | .restore t _ => ws.contains (.mutate t)
  | .assignElem t => ws.contains (.mutateElem t)
  | .call c => ws.contains (.mutate c)
  | .assign _ => false

mutual
/-- every `try` anywhere in the body has a handler the path analysis recognises as a restore (`goodHandler`: otherwise `pathsS` analyses the
`try` body alone and never looks at what the handler writes), and every write of that handler is an undo of a write of the setter -/
def handlersOnlyRestoreS (ws : List SetterForm.Ev) : Setters.Stmt → Bool
  | .ite _ thn els => handlersOnlyRestoreL ws thn && handlersOnlyRestoreL ws els
  | .loop _ body => handlersOnlyRestoreL ws body
  | .tryExcept body exc h =>
    SetterForm.goodHandler exc h && (SetterForm.hwsL h).all (hwUndoes ws) && handlersOnlyRestoreL ws body
  | .inline _ _ body => handlersOnlyRestoreL ws body
  | _ => true
def handlersOnlyRestoreL (ws : List SetterForm.Ev) : List Setters.Stmt → Bool
  | [] => true
  | s :: r => handlersOnlyRestoreS ws s && handlersOnlyRestoreL ws r
end

def formStrict (s : Setters.Setter) : Bool := SetterForm.form s && handlersOnlyRestoreL (setterWrites s) s.body

/-- C17 (every setter, regenerated; audit2 strengthening of `setters_reject_without_change`): in addition, every exception handler in every
setter is one the analysis reads (catches `Exception`, straight-line, ends in a bare `raise`) and writes nothing but undos of the setter's own
writes -/
theorem setters_reject_without_change_strict : ∀ s ∈ Setters.setters, formStrict s = true := by
  decide

/-- witnesses of the gap: four setters that DO change state on a rejected value — the handler writes `self._x` (resp. a new attribute `self._y`)
and then raises — pass `SetterForm.form`: a handler with a narrower `except`, with a branch, or ending in `raise X` is dropped unread; a handler
that is read may write more than it restores.  `formStrict` flags all four and accepts the source's `children` setter. -/
theorem form_ignores_unrestoring_handlers :
    let mk := fun (b : List Setters.Stmt) => (⟨"f", "C", "x", "v", b⟩ : Setters.Setter)
    let narrow := mk [.tryExcept [.assign "w" false ["check_format_input_scalar"]] "ValueError" [.assign "self._x" true [], .raise ""],
                      .restore "self._x" "w"]
    let branch := mk [.tryExcept [.assign "w" false ["check_format_input_scalar"]] "Exception"
                        [.ite [] [.assign "self._x" true []] [], .raise ""], .restore "self._x" "w"]
    let other := mk [.tryExcept [.assign "w" false ["check_format_input_scalar"]] "Exception"
                        [.assign "self._x" true [], .raise "MagpylibBadUserInput"], .restore "self._x" "w"]
    let extra := mk [.tryExcept [.assign "w" false ["check_format_input_scalar"]] "Exception" [.assign "self._y" true [], .raise ""],
                      .restore "self._x" "w"]
    [narrow, branch, other, extra].map SetterForm.form = [true, true, true, true] ∧
    [narrow, branch, other, extra].map formStrict = [false, false, false, false] ∧
    formStrict ⟨"class_Collection.py", "BaseCollection", "children", "children", childrenBody childrenHandler "Exception" true⟩ = true := by
  decide

/-- the constructor table is not empty (the classes with named `__init__` parameters are these 18; `Loop` / `Line` take `*args, **kwargs` only),
every row is consumed by a setter, a base-class constructor or a call — no row is "plain" or "unused" —, and no (class, parameter) pair has two
rows, so `resolveCtor` (first row) follows the only row -/
theorem ctor_table_is_total_and_single_valued :
    (Setters.ctors.map (·.1)).eraseDups =
      ["BaseSource", "BaseMagnet", "BaseCurrent", "BaseGeo", "BaseCollection", "Collection", "Sensor", "Circle", "Polyline", "Cuboid",
       "Cylinder", "CylinderSegment", "Sphere", "Tetrahedron", "TriangularMesh", "CustomSource", "Dipole", "Triangle"] ∧
    (∀ c ∈ Setters.initOf, c.2.1 = true → c.1 ∈ Setters.ctors.map (·.1) ∨ c.1 = "Loop" ∨ c.1 = "Line") ∧
    (∀ r ∈ Setters.ctors, r.2.2.1 = "setter" ∨ r.2.2.1 = "forward" ∨ r.2.2.1 = "call") ∧
    (Setters.ctors.map fun r => (r.1, r.2.1)).Nodup := by
  decide

end MagpyVerif.C17
