/-
Props/C08.lean — field computation never changes objects, even when it fails.
State model: Model/Level2State.lean; the position of the restore relative to the failing phase
comes from /repo's source through Gen/Exits.lean.
Not representable here (observed by the snapshot oracle): caller-owned numpy arrays, the 1-ulp
re-normalisation of quaternions by as_quat/from_quat (why `restoreBySlicing` matters in floats).
-/
import MagpyVerif.Model.Level2State
import MagpyVerif.Lemmas.Basic
namespace MagpyVerif.C08
open MagpyVerif MagpyVerif.Level2State
variable {G V : Type}

theorem take_tilePath {α : Type} (M : Nat) (xs : List α) : (tilePath M xs).take xs.length = xs := by
  unfold tilePath
  cases xs.getLast? <;> simp

theorem restore_tile (bySlicing : Bool) (M : Nat) (o : Obj G V) (h : o.pos.length = o.ori.length) :
    restore bySlicing o (tile M o) = o := by
  unfold restore tile
  cases bySlicing
  · rfl
  · by_cases hM : o.pos.length = M
    · simp only [hM, if_true]
      have h1 : o.ori.take o.pos.length = o.ori := by rw [h]; exact List.take_length
      have h2 : o.pos.take o.pos.length = o.pos := List.take_length
      rw [← hM, h1, h2]
    · simp only [hM, if_false, if_true]
      rw [take_tilePath, h, take_tilePath]

theorem zipWith_restore_tile (bySlicing : Bool) (M : Nat) (objs : List (Obj G V))
    (h : ∀ o ∈ objs, o.pos.length = o.ori.length) :
    List.zipWith (restore bySlicing) objs (objs.map (tile M)) = objs := by
  induction objs with
  | nil => rfl
  | cons o os ih =>
    simp only [List.map_cons, List.zipWith_cons_cons]
    rw [restore_tile bySlicing M o (h o (by simp)), ih (fun o' ho' => h o' (by simp [ho']))]

/-- C08 (object paths): for every set of involved objects and every behaviour of the computation
between tiling and restore — returning or failing at any point, i.e. every fault schedule —
getBH_level2 as it is in /repo now leaves every object's position and orientation path exactly
as it was.  `Gen.Exits.resetInFinally` is read from the source on every run: if the restore is
no longer in a `finally` that encloses the failing phase, this proof no longer checks.
(Audit note: with `restoreBySlicing = false` the model's `restore` returns the saved object by definition, so the content
of this theorem is exactly the three flags `translate/gen.py:gen_Exits` extracts from the AST — restore inside a
`finally` that follows the tiling directly, no raising statement in between, restore from saved arrays — plus the
reading of them in `Level2State.run`; the hypothesis `h` is only needed for the slicing variant.  `Level2State` is not
executed by the driver; nothing here speaks about attributes other than the two paths.) -/
theorem level2_preserves_state {ε β : Type} (compute : List (Obj G V) → Except ε β)
    (objs : List (Obj G V)) (h : ∀ o ∈ objs, o.pos.length = o.ori.length) :
    (runNow compute objs).1 = objs := by
  have hfin : (Gen.Exits.resetInFinally && Gen.Exits.unprotectedSitesAfterTiling == 0) = true := by decide
  unfold runNow run
  simp only [hfin, if_true]
  split <;> exact zipWith_restore_tile _ _ objs h

/-- no statement that can raise sits between the tiling and an unprotected restore -/
theorem no_unprotected_exit : Gen.Exits.unprotectedSitesAfterTiling = 0 ∧ Gen.Exits.resetInFinally = true := by
  decide

/-- the paths are put back from the saved arrays, not re-derived from the tiled (re-normalised)
rotation: in floats only this makes the restore bit-exact -/
theorem restore_is_exact : Gen.Exits.restoreBySlicing = false := by decide

/-- calling twice sees the same object state, hence (for a deterministic computation) returns
the same result -/
theorem second_call_same_state {ε β : Type} (c1 c2 : List (Obj G V) → Except ε β)
    (objs : List (Obj G V)) (h : ∀ o ∈ objs, o.pos.length = o.ori.length) :
    (runNow c2 (runNow c1 objs).1).2 = (runNow c2 objs).2 := by
  rw [level2_preserves_state c1 objs h]

/-- the hypothesis is necessary in the model: without the `finally`, a failing computation
leaves a shorter path tiled (this was the behaviour before the fix). -/
theorem without_finally_state_leaks :
    (run (G := Nat) (V := Nat) (ε := Unit) (β := Unit) false true (fun _ => .error ())
      [⟨[1], [1]⟩, ⟨[1, 2, 3], [1, 2, 3]⟩]).1 ≠ [⟨[1], [1]⟩, ⟨[1, 2, 3], [1, 2, 3]⟩] := by
  decide

/-! ### the content of `level2_preserves_state` made visible: each of the three regenerated facts is necessary

`Level2State.runFlags norm resetInFinally unprotected bySlicing` is getBH_level2 as a function of the three facts read
off the AST (`runNowN norm` = the regenerated values), with scipy's re-normalisation `norm` of a tiled orientation path
as a parameter (`norm = id`: `run` / `runNow`). -/

theorem runN_id {ε β : Type} (inFinally bySlicing : Bool) (compute : List (Obj G V) → Except ε β)
    (objs : List (Obj G V)) : runN id inFinally bySlicing compute objs = run inFinally bySlicing compute objs := by
  have : (tileN (id : G → G) : Nat → Obj G V → Obj G V) = tile := by
    funext M o; simp [tileN, tile]
  simp only [runN, run, this]

/-- `runNow` is `runNowN` without re-normalisation -/
theorem runNow_eq {ε β : Type} (compute : List (Obj G V) → Except ε β) (objs : List (Obj G V)) :
    runNowN id compute objs = runNow compute objs := by
  simp only [runNowN, runFlags, runNow, runN_id]

/-- **sufficiency, strengthened**: with the three facts as they are regenerated — restore in the `finally`, no raising
statement before the `try`, restore from the saved arrays — every fault schedule leaves every object exactly as it
was, for EVERY re-normalisation of the tiled orientations and without any assumption on the objects (the hypothesis
`pos.length = ori.length` of `level2_preserves_state` is only needed by the slicing variant) -/
theorem level2_preserves_state_any_norm {ε β : Type} (norm : G → G) (compute : List (Obj G V) → Except ε β)
    (objs : List (Obj G V)) : (runNowN norm compute objs).1 = objs := by
  have hfin : (Gen.Exits.resetInFinally && Gen.Exits.unprotectedSitesAfterTiling == 0) = true := by decide
  have hsl : Gen.Exits.restoreBySlicing = false := by decide
  have hz : ∀ (l t : List (Obj G V)), l.length = t.length → List.zipWith (restore false) l t = l := by
    intro l
    induction l with
    | nil => intro t _; cases t <;> rfl
    | cons a l ih =>
      intro t ht
      cases t with
      | nil => simp at ht
      | cons b t =>
        have := ih t (by simpa using ht)
        simp only [List.zipWith_cons_cons, this]
        simp [restore]
  unfold runNowN runFlags runN
  simp only [hfin, hsl, if_true]
  split <;> exact hz _ _ (by simp)

/-- **fact 1 is necessary** (`resetInFinally`): with the other two as they are (no raising statement before the `try`,
restore from the saved arrays, exact arithmetic), a restore that is not in a `finally` leaks the tiled path on a failing
computation -/
theorem without_finally_flag_state_leaks :
    (runFlags (G := Nat) (V := Nat) (ε := Unit) (β := Unit) id false 0 false (fun _ => .error ())
      [⟨[1], [1]⟩, ⟨[1, 2, 3], [1, 2, 3]⟩]).1 ≠ [⟨[1], [1]⟩, ⟨[1, 2, 3], [1, 2, 3]⟩] := by
  decide

/-- **fact 2 is necessary** (`unprotectedSitesAfterTiling = 0`): with the restore in a `finally` and from the saved
arrays, ONE statement that can raise between the tiling and the `try` leaks the tiled path when it raises -/
theorem with_unprotected_site_state_leaks :
    (runFlags (G := Nat) (V := Nat) (ε := Unit) (β := Unit) id true 1 false (fun _ => .error ())
      [⟨[1], [1]⟩, ⟨[1, 2, 3], [1, 2, 3]⟩]).1 ≠ [⟨[1], [1]⟩, ⟨[1, 2, 3], [1, 2, 3]⟩] := by
  decide

/-- **fact 3 is necessary** (`restoreBySlicing = false`): with the restore in a protected `finally`, slicing the tiled
path back leaks the re-normalised orientations — on every schedule, also when nothing fails — as soon as the
normalisation changes an entry (here `norm = (· + 1)` on ℕ stands for a 1-ulp change) … -/
theorem with_slicing_renormalisation_leaks :
    (runFlags (G := Nat) (V := Nat) (ε := Unit) (β := Unit) (· + 1) true 0 true (fun _ => .ok ())
      [⟨[1], [1]⟩, ⟨[1, 2, 3], [1, 2, 3]⟩]).1 ≠ [⟨[1], [1]⟩, ⟨[1, 2, 3], [1, 2, 3]⟩] ∧
    (runFlags (G := Nat) (V := Nat) (ε := Unit) (β := Unit) (· + 1) true 0 true (fun _ => .error ())
      [⟨[1], [1]⟩, ⟨[1, 2, 3], [1, 2, 3]⟩]).1 ≠ [⟨[1], [1]⟩, ⟨[1, 2, 3], [1, 2, 3]⟩] := by
  decide

/-- … and, even in exact arithmetic (`norm = id`), slicing restores an object only if its two paths have equal lengths:
the hypothesis `h` of `level2_preserves_state` cannot be dropped for the slicing variant (it is not needed at all for
the variant in /repo, `level2_preserves_state_any_norm`) -/
theorem with_slicing_unequal_paths_leak :
    (runFlags (G := Nat) (V := Nat) (ε := Unit) (β := Unit) id true 0 true (fun _ => .ok ())
      [⟨[1, 2], [1]⟩, ⟨[1, 2, 3], [1, 2, 3]⟩]).1 ≠ [⟨[1, 2], [1]⟩, ⟨[1, 2, 3], [1, 2, 3]⟩] := by
  decide

/-- the three witnesses are minimal: switching the single flag back gives the unchanged state on the same inputs -/
example :
    (runFlags (G := Nat) (V := Nat) (ε := Unit) (β := Unit) (· + 1) true 0 false (fun _ => .error ())
      [⟨[1], [1]⟩, ⟨[1, 2, 3], [1, 2, 3]⟩]).1 = [⟨[1], [1]⟩, ⟨[1, 2, 3], [1, 2, 3]⟩] := by
  decide

end MagpyVerif.C08
