/-
Props/C08.lean — field computation never changes objects, even when it fails.
State model: Model/Level2State.lean; the position of the restore relative to the failing phase
comes from /repo's source through Gen/Exits.lean.
Second half (section WriteSet): that nothing else on the call path writes into an object, a caller-owned array or a library
default is decided over the table of mutation sites that translate/writeset.py extracts (Gen/WriteSet.lean) and given a
meaning on the abstract heap of Model/WriteSet.lean; the points-to classification behind the table is trusted (listed there).
Not representable here (observed by the snapshot oracle): the 1-ulp re-normalisation of quaternions by as_quat/from_quat
(why `restoreBySlicing` matters in floats).
-/
import MagpyVerif.Model.Level2State
import MagpyVerif.Gen.WriteSet
import MagpyVerif.Lemmas.Basic
namespace MagpyVerif.C08
open MagpyVerif MagpyVerif.Level2State
variable {G V : Type}

theorem take_tilePath {α : Type} (M : Nat) (xs : List α) : (tilePath M xs).take xs.length = xs := by
  unfold tilePath
  cases xs.getLast? <;> simp

theorem restore_tile (bySlicing : Bool) (M : Nat) (o : Obj G V) (h : o.pos.length = o.ori.length) :
    restore bySlicing o (tile M o) = o := by
  unfold restore tile
  cases bySlicing
  · rfl
  · by_cases hM : o.pos.length = M
    · simp only [hM, if_true]
      have h1 : o.ori.take o.pos.length = o.ori := by rw [h]; exact List.take_length
      have h2 : o.pos.take o.pos.length = o.pos := List.take_length
      rw [← hM, h1, h2]
    · simp only [hM, if_false, if_true]
      rw [take_tilePath, h, take_tilePath]

theorem zipWith_restore_tile (bySlicing : Bool) (M : Nat) (objs : List (Obj G V))
    (h : ∀ o ∈ objs, o.pos.length = o.ori.length) :
    List.zipWith (restore bySlicing) objs (objs.map (tile M)) = objs := by
  induction objs with
  | nil => rfl
  | cons o os ih =>
    simp only [List.map_cons, List.zipWith_cons_cons]
    rw [restore_tile bySlicing M o (h o (by simp)), ih (fun o' ho' => h o' (by simp [ho']))]

/-- C08 (object paths): for every set of involved objects and every behaviour of the computation
between tiling and restore — returning or failing at any point, i.e. every fault schedule —
getBH_level2 as it is in /repo now leaves every object's position and orientation path exactly
as it was.  `Gen.Exits.resetInFinally` is read from the source on every run: if the restore is
no longer in a `finally` that encloses the failing phase, this proof no longer checks.
(Audit note: with `restoreBySlicing = false` the model's `restore` returns the saved object by definition, so the content
of this theorem is exactly the three flags `translate/gen.py:gen_Exits` extracts from the AST — restore inside a
`finally` that follows the tiling directly, no raising statement in between, restore from saved arrays — plus the
reading of them in `Level2State.run`; the hypothesis `h` is only needed for the slicing variant.  `Level2State` is not
executed by the driver; nothing here speaks about attributes other than the two paths.) -/
theorem level2_preserves_state {ε β : Type} (compute : List (Obj G V) → Except ε β)
    (objs : List (Obj G V)) (h : ∀ o ∈ objs, o.pos.length = o.ori.length) :
    (runNow compute objs).1 = objs := by
  have hfin : (Gen.Exits.resetInFinally && Gen.Exits.unprotectedSitesAfterTiling == 0) = true := by decide
  unfold runNow run
  simp only [hfin, if_true]
  split <;> exact zipWith_restore_tile _ _ objs h

/-- no statement that can raise sits between the tiling and an unprotected restore -/
theorem no_unprotected_exit : Gen.Exits.unprotectedSitesAfterTiling = 0 ∧ Gen.Exits.resetInFinally = true := by
  decide

/-- the paths are put back from the saved arrays, not re-derived from the tiled (re-normalised)
rotation: in floats only this makes the restore bit-exact.
(Audit 2: the flag is extracted NEGATIVELY — `gen_Exits.uses_slice_restore` looks for `obj._position = obj._position[…]`;
`false` means "the restore is not a slice of the attribute itself".  That the value put back is the array saved BEFORE the
tiling is not extracted anywhere: a variant of getBH_level2 that takes `reset_obj_orig` after the tiling loop (inside the
same `if`-block) regenerates exactly the same three flags, the same site table and the same `tiledIter`/`restoredIter`, so
every theorem of this file still checks, and leaves every shorter path tiled after every call — reproduced on a scratch
copy, see AUDIT2 C08.  The model's `restore false orig tiled = orig` is where this WAS assumed; the fact is extracted now as
`Gen.Exits.savedBeforeTiling`: see `restore_puts_back_arrays_saved_before_tiling`, `level2_preserves_state_four_facts` and the
witness `with_save_after_tiling_state_leaks` below.) -/
theorem restore_is_exact : Gen.Exits.restoreBySlicing = false := by decide

/-- calling twice sees the same object state, hence (for a deterministic computation) returns
the same result -/
theorem second_call_same_state {ε β : Type} (c1 c2 : List (Obj G V) → Except ε β)
    (objs : List (Obj G V)) (h : ∀ o ∈ objs, o.pos.length = o.ori.length) :
    (runNow c2 (runNow c1 objs).1).2 = (runNow c2 objs).2 := by
  rw [level2_preserves_state c1 objs h]

/-- the hypothesis is necessary in the model: without the `finally`, a failing computation
leaves a shorter path tiled (this was the behaviour before the fix). -/
theorem without_finally_state_leaks :
    (run (G := Nat) (V := Nat) (ε := Unit) (β := Unit) false true (fun _ => .error ())
      [⟨[1], [1]⟩, ⟨[1, 2, 3], [1, 2, 3]⟩]).1 ≠ [⟨[1], [1]⟩, ⟨[1, 2, 3], [1, 2, 3]⟩] := by
  decide

/-! ### the content of `level2_preserves_state` made visible: each of the three regenerated facts is necessary

`Level2State.runFlags norm resetInFinally unprotected bySlicing` is getBH_level2 as a function of the three facts read
off the AST (`runNowN norm` = the regenerated values), with scipy's re-normalisation `norm` of a tiled orientation path
as a parameter (`norm = id`: `run` / `runNow`). -/

theorem runN_id {ε β : Type} (inFinally bySlicing : Bool) (compute : List (Obj G V) → Except ε β)
    (objs : List (Obj G V)) : runN id inFinally bySlicing compute objs = run inFinally bySlicing compute objs := by
  have : (tileN (id : G → G) : Nat → Obj G V → Obj G V) = tile := by
    funext M o; simp [tileN, tile]
  simp only [runN, run, this]

/-- `runNow` is `runNowN` without re-normalisation -/
theorem runNow_eq {ε β : Type} (compute : List (Obj G V) → Except ε β) (objs : List (Obj G V)) :
    runNowN id compute objs = runNow compute objs := by
  simp only [runNowN, runFlags, runNow, runN_id]

/-- **sufficiency, strengthened**: with the three facts as they are regenerated — restore in the `finally`, no raising
statement before the `try`, restore from the saved arrays — every fault schedule leaves every object exactly as it
was, for EVERY re-normalisation of the tiled orientations and without any assumption on the objects (the hypothesis
`pos.length = ori.length` of `level2_preserves_state` is only needed by the slicing variant) -/
theorem level2_preserves_state_any_norm {ε β : Type} (norm : G → G) (compute : List (Obj G V) → Except ε β)
    (objs : List (Obj G V)) : (runNowN norm compute objs).1 = objs := by
  have hfin : (Gen.Exits.resetInFinally && Gen.Exits.unprotectedSitesAfterTiling == 0) = true := by decide
  have hsl : Gen.Exits.restoreBySlicing = false := by decide
  have hz : ∀ (l t : List (Obj G V)), l.length = t.length → List.zipWith (restore false) l t = l := by
    intro l
    induction l with
    | nil => intro t _; cases t <;> rfl
    | cons a l ih =>
      intro t ht
      cases t with
      | nil => simp at ht
      | cons b t =>
        have := ih t (by simpa using ht)
        simp only [List.zipWith_cons_cons, this]
        simp [restore]
  unfold runNowN runFlags runN
  simp only [hfin, hsl, if_true]
  split <;> exact hz _ _ (by simp)

/-- **fact 1 is necessary** (`resetInFinally`): with the other two as they are (no raising statement before the `try`,
restore from the saved arrays, exact arithmetic), a restore that is not in a `finally` leaks the tiled path on a failing
computation -/
theorem without_finally_flag_state_leaks :
    (runFlags (G := Nat) (V := Nat) (ε := Unit) (β := Unit) id false 0 false (fun _ => .error ())
      [⟨[1], [1]⟩, ⟨[1, 2, 3], [1, 2, 3]⟩]).1 ≠ [⟨[1], [1]⟩, ⟨[1, 2, 3], [1, 2, 3]⟩] := by
  decide

/-- **fact 2 is necessary** (`unprotectedSitesAfterTiling = 0`): with the restore in a `finally` and from the saved
arrays, ONE statement that can raise between the tiling and the `try` leaks the tiled path when it raises -/
theorem with_unprotected_site_state_leaks :
    (runFlags (G := Nat) (V := Nat) (ε := Unit) (β := Unit) id true 1 false (fun _ => .error ())
      [⟨[1], [1]⟩, ⟨[1, 2, 3], [1, 2, 3]⟩]).1 ≠ [⟨[1], [1]⟩, ⟨[1, 2, 3], [1, 2, 3]⟩] := by
  decide

/-- **fact 3 is necessary** (`restoreBySlicing = false`): with the restore in a protected `finally`, slicing the tiled
path back leaks the re-normalised orientations — on every schedule, also when nothing fails — as soon as the
normalisation changes an entry (here `norm = (· + 1)` on ℕ stands for a 1-ulp change) … -/
theorem with_slicing_renormalisation_leaks :
    (runFlags (G := Nat) (V := Nat) (ε := Unit) (β := Unit) (· + 1) true 0 true (fun _ => .ok ())
      [⟨[1], [1]⟩, ⟨[1, 2, 3], [1, 2, 3]⟩]).1 ≠ [⟨[1], [1]⟩, ⟨[1, 2, 3], [1, 2, 3]⟩] ∧
    (runFlags (G := Nat) (V := Nat) (ε := Unit) (β := Unit) (· + 1) true 0 true (fun _ => .error ())
      [⟨[1], [1]⟩, ⟨[1, 2, 3], [1, 2, 3]⟩]).1 ≠ [⟨[1], [1]⟩, ⟨[1, 2, 3], [1, 2, 3]⟩] := by
  decide

/-- … and, even in exact arithmetic (`norm = id`), slicing restores an object only if its two paths have equal lengths:
the hypothesis `h` of `level2_preserves_state` cannot be dropped for the slicing variant (it is not needed at all for
the variant in /repo, `level2_preserves_state_any_norm`) -/
theorem with_slicing_unequal_paths_leak :
    (runFlags (G := Nat) (V := Nat) (ε := Unit) (β := Unit) id true 0 true (fun _ => .ok ())
      [⟨[1, 2], [1]⟩, ⟨[1, 2, 3], [1, 2, 3]⟩]).1 ≠ [⟨[1, 2], [1]⟩, ⟨[1, 2, 3], [1, 2, 3]⟩] := by
  decide

/-- the three witnesses are minimal: switching the single flag back gives the unchanged state on the same inputs -/
example :
    (runFlags (G := Nat) (V := Nat) (ε := Unit) (β := Unit) (· + 1) true 0 false (fun _ => .error ())
      [⟨[1], [1]⟩, ⟨[1, 2, 3], [1, 2, 3]⟩]).1 = [⟨[1], [1]⟩, ⟨[1, 2, 3], [1, 2, 3]⟩] := by
  decide

/-! ## (second audit) the fourth fact: the restore puts back the arrays saved BEFORE the tiling

`restore false orig _ = orig` is where the three-flag model ASSUMES what the `finally` writes.  A save taken after the tiling
loop (`reset_obj_orig = […]` moved behind the `for obj, m0 in zip(reset_obj, reset_obj_m0)` loop) leaves the three flags of
Gen/Exits, the whole write-set table and the four tiling scalars unchanged — every theorem above and below still checked —
while `getB([a, b], …)` on the real objects leaves `a._position.shape == (3, 3)` instead of `(1, 3)` (reproduced on a scratch
copy of /repo).  `gen_Exits` now extracts the fact (`Gen.Exits.savedBeforeTiling`: one restore loop
`for v, (p, o) in zip(A, B): v._position = p; v._orientation = o`, `B` stored once, by a top-level statement before the
first tiling statement, as `[(x._position, x._orientation) for x in A]`, read once), the model takes it as a fourth
argument (`Level2State.runFlags4`), and it is shown necessary like the other three. -/

/-- the regenerated fourth fact holds of the source as it is -/
theorem restore_puts_back_arrays_saved_before_tiling : Gen.Exits.savedBeforeTiling = true := by decide

/-- with the fourth fact the four-flag model is the three-flag model … -/
theorem runFlags4_saved_eq {ε β : Type} (norm : G → G) (fin : Bool) (u : Nat) (sl : Bool)
    (compute : List (Obj G V) → Except ε β) (objs : List (Obj G V)) :
    runFlags4 norm fin u sl true compute objs = runFlags norm fin u sl compute objs := by
  have : (restoreS (G := G) (V := V) sl true) = restore sl := by
    funext o t; cases sl <;> simp [restoreS, restore]
  simp only [runFlags4, runFlags, runS, runN, this]

/-- … so **sufficiency with all four facts regenerated**: every fault schedule, every re-normalisation, every object list -/
theorem level2_preserves_state_four_facts {ε β : Type} (norm : G → G) (compute : List (Obj G V) → Except ε β)
    (objs : List (Obj G V)) : (runNowS norm compute objs).1 = objs := by
  have h4 : Gen.Exits.savedBeforeTiling = true := by decide
  unfold runNowS
  rw [h4, runFlags4_saved_eq]
  exact level2_preserves_state_any_norm norm compute objs

/-- **fact 4 is necessary** (`savedBeforeTiling`): with the other three as they are (restore in the `finally`, nothing
raising before the `try`, no slicing) and in exact arithmetic, a save taken after the tiling leaves the tiled path in the
object — on a call that SUCCEEDS -/
theorem with_save_after_tiling_state_leaks :
    (runFlags4 (G := Nat) (V := Nat) (ε := Unit) (β := Unit) id true 0 false false (fun _ => .ok ())
      [⟨[1], [1]⟩, ⟨[1, 2, 3], [1, 2, 3]⟩]).1 ≠ [⟨[1], [1]⟩, ⟨[1, 2, 3], [1, 2, 3]⟩] := by
  decide

/-- the witness is minimal (same input, fourth flag switched back), and what is left in the object is the tiled path -/
example :
    (runFlags4 (G := Nat) (V := Nat) (ε := Unit) (β := Unit) id true 0 false true (fun _ => .ok ())
      [⟨[1], [1]⟩, ⟨[1, 2, 3], [1, 2, 3]⟩]).1 = [⟨[1], [1]⟩, ⟨[1, 2, 3], [1, 2, 3]⟩] ∧
    (runFlags4 (G := Nat) (V := Nat) (ε := Unit) (β := Unit) id true 0 false false (fun _ => .ok ())
      [⟨[1], [1]⟩, ⟨[1, 2, 3], [1, 2, 3]⟩]).1 = [⟨[1, 1, 1], [1, 1, 1]⟩, ⟨[1, 2, 3], [1, 2, 3]⟩] := by
  decide

/-! ## write-set / alias analysis of the call path (Gen/WriteSet.lean, regenerated by translate/writeset.py)

What the three flags of Gen/Exits leave open — that NOTHING ELSE on the call path writes into an object, into an array of the
caller or into a library default — is decided here over the regenerated table of mutation sites, and given a meaning on an
abstract heap.  The link between the table and the heap (a site classified `fresh` writes only into memory allocated
during the call) is the translator's points-to classification: trusted, conservative, described in Model/WriteSet.lean;
in the theorems below it is the explicit hypothesis `DescribedBy`. -/

section WriteSet
open MagpyVerif.WriteSet

/-- **C08 (write set)**: every mutation site of every function on the field-computation call path — the getB/getH/getJ/getM
wrappers of all interfaces, `_validate_getBH_inputs`, getBH_level2 / getBH_level1 / getBH_dict_level2, get_src_dict,
tile_group_property, the helpers of utility.py and input_checks.py they call, the property getters and dunders of the object
classes they trigger, and the core field functions with everything those call — has a root allocated during the call, with
exactly two explicitly allowed families of writes to pre-existing objects: the temporary padding of `_position` /
`_orientation` in getBH_level2 (tiling statement and `finally` block, the subject of `level2_preserves_state`) and the lazy
materialisation of the private style slots in the `style` getter.  Every argument handed to the field function is fresh
(`consume` sites); no external callee outside the reviewed list receives a pre-existing value; the translator met no
construct it could not interpret.  Conjoined with the three Exits flags, which are what makes the first family harmless. -/
theorem call_path_writes_only_fresh :
    WriteSet.Pure Gen.WriteSet.sites Gen.WriteSet.extCalls Gen.WriteSet.notes = true ∧
    Gen.Exits.resetInFinally = true ∧ Gen.Exits.unprotectedSitesAfterTiling = 0 ∧ Gen.Exits.restoreBySlicing = false := by
  decide +kernel

/-- the sites whose root pre-exists the call are exactly these (function, kind, attribute, region), in source order: a new
write into an object — under an allowed name or not — changes this list -/
theorem preexisting_roots_are_exactly :
    (Gen.WriteSet.sites.filter fun s => s.root != .fresh).map (fun s => (s.fn, s.kind, s.attr, s.region)) =
      [("class_BaseGeo.BaseGeo.style", .attrAssign, "_style", .lazyStyle),
       ("class_BaseGeo.BaseGeo.style", .attrAssign, "_style_kwargs", .lazyStyle),
       ("class_BaseGeo.BaseGeo.style", .methodCall, "update", .lazyStyle),
       ("field_wrap_BH.getBH_level2", .attrAssign, "_position", .tiling),
       ("field_wrap_BH.getBH_level2", .attrAssign, "_orientation", .tiling),
       ("field_wrap_BH.getBH_level2", .consumeDeep, "", .other),
       ("field_wrap_BH.getBH_level2", .attrAssign, "_position", .restore),
       ("field_wrap_BH.getBH_level2", .attrAssign, "_orientation", .restore)] := by
  decide +kernel

/-- the `finally` block restores every object the tiling statement pads: both loops run over the same list, which is bound
once and never mutated, and the `try` follows the tiling statement directly (closes the gap "that the finally-block restores
EVERY tiled object" of `level2_preserves_state`).
(Audit 2: `tiledIter` / `restoredIter` are the FIRST argument of the `zip(...)` the two loops run over.  The second argument
of the restore loop — `reset_obj_orig`, the saved arrays — is not looked at: that it is bound once, BEFORE the tiling
statement, from the same list and as long as it (zip truncates silently) is not part of this statement; see the note at
`restore_is_exact` and `heap_restore_is_assumed_not_traced` below.) -/
theorem restore_covers_every_tiled_object :
    Gen.WriteSet.tiledIter = Gen.WriteSet.restoredIter ∧ Gen.WriteSet.tiledIter ≠ "" ∧
    Gen.WriteSet.iterAssignedOnce = true ∧ Gen.WriteSet.tilingDirectlyBeforeTry = true := by
  decide

/-- the only core field functions that write into an array they are given are check_chirality (the in-place vertex swap of
left-handed tetrahedra) and its caller; both calls are `consume` sites of the table with a fresh root -/
theorem only_chirality_writes_its_arguments :
    Gen.WriteSet.argWriters = ["field_BH_tetrahedron.BHJM_magnet_tetrahedron", "field_BH_tetrahedron.check_chirality"] ∧
    (Gen.WriteSet.sites.filter fun s => s.kind == .consume).all (fun s => s.root == .fresh) = true := by
  decide +kernel

/-- the entry points and the functions the task names are part of the analysed set -/
theorem entry_points_analysed :
    ["field_wrap_BH.getB", "field_wrap_BH.getH", "field_wrap_BH.getJ", "field_wrap_BH.getM",
     "class_BaseExcitations.BaseSource.getB", "class_Sensor.Sensor.getB", "class_Collection.BaseCollection.getB",
     "class_Collection.BaseCollection._validate_getBH_inputs", "field_wrap_BH.getBH_level2", "field_wrap_BH.getBH_level1",
     "field_wrap_BH.getBH_dict_level2", "field_wrap_BH.get_src_dict", "field_wrap_BH.tile_group_property",
     "utility.format_obj_input", "utility.format_src_inputs", "utility.filter_objects", "utility.check_static_sensor_orient",
     "input_checks.check_format_input_observers", "input_checks.check_dimensions", "input_checks.check_excitations",
     "input_checks.check_format_pixel_agg", "input_checks.check_getBH_output_type", "class_BaseGeo.BaseGeo.style",
     "class_Sensor.Sensor.pixel", "class_BaseExcitations.BaseSource.field_func", "class_Collection.BaseCollection.__iter__",
     "field_BH_tetrahedron.check_chirality", "field_BH_polyline.current_vertices_field",
     "field_BH_triangularmesh.BHJM_magnet_trimesh"].all (Gen.WriteSet.functions.contains ·) = true := by
  decide +kernel

/-- the translator's trusted tables are the reviewed ones: what `translate/writeset.py` treats as returning new memory
(`freshDeep`: no references to pre-existing objects inside; `freshShallow`: a new container sharing the elements), as possibly
returning its argument or a view (`alias`; everything not listed anywhere is treated like this), as writing in place
(`outFuncs`, `mutatingMethods`), which call hands its arguments to code that writes into them (`consumers`) and which of its
keyword names are exempt.  Moving a name from one list to another (say np.asarray into `freshDeep`) breaks this theorem. -/
theorem translator_tables_are_the_reviewed_ones :
    Gen.WriteSet.freshDeep =
      ["R.from_euler", "R.from_matrix", "R.from_quat", "R.from_rotvec", "R.identity", "Rotation.from_quat", "abs", "all", "any",
       "bool", "callable", "chr", "divmod", "ellipe", "ellipeinc", "ellipk", "ellipkinc", "float",
       "format", "hasattr", "hash", "id", "inspect.signature", "int", "isinstance", "issubclass", "len",
       "log10", "norm", "np.abs", "np.all", "np.allclose", "np.any", "np.arange", "np.arccos", "np.arccosh",
       "np.arcsin", "np.arcsinh", "np.arctan", "np.arctan2", "np.arctanh", "np.argmax", "np.argmin", "np.argsort", "np.array",
       "np.array_equal", "np.ceil", "np.cos", "np.cosh", "np.count_nonzero", "np.cross", "np.cumsum", "np.deg2rad", "np.dot",
       "np.einsum", "np.empty", "np.empty_like", "np.errstate", "np.exp", "np.eye", "np.fabs", "np.floor", "np.full",
       "np.full_like", "np.hypot", "np.in1d", "np.invert", "np.isclose", "np.isin", "np.isnan", "np.isscalar", "np.linalg.det",
       "np.linalg.inv", "np.linalg.norm", "np.linspace", "np.log", "np.logical_and", "np.logical_not", "np.logical_or", "np.matmul", "np.max",
       "np.maximum", "np.mean", "np.min", "np.minimum", "np.mod", "np.ndim", "np.nonzero", "np.ones", "np.ones_like",
       "np.power", "np.prod", "np.ptp", "np.rad2deg", "np.shape", "np.sign", "np.sin", "np.sinh", "np.sort",
       "np.sqrt", "np.sum", "np.tan", "np.tanh", "np.unique", "np.where", "np.zeros", "np.zeros_like", "ord",
       "pow", "print", "range", "repr", "round", "signature", "slice", "str", "sum",
       "type", "warnings.warn"] ∧
    Gen.WriteSet.freshShallow =
      ["dict", "enumerate", "filter", "frozenset", "list", "map", "np.concatenate", "np.copy", "np.delete",
       "np.hstack", "np.pad", "np.repeat", "np.stack", "np.tile", "np.vstack", "product", "reversed", "set",
       "sorted", "tuple", "zip"] ∧
    Gen.WriteSet.alias =
      ["getattr", "iter", "max", "min", "next", "np.asanyarray", "np.asarray", "np.atleast_1d", "np.atleast_2d",
       "np.broadcast_to", "np.expand_dims", "np.moveaxis", "np.ravel", "np.reshape", "np.split", "np.squeeze", "np.swapaxes", "np.transpose",
       "vars"] ∧
    Gen.WriteSet.outFuncs =
      ["delattr", "np.add.at", "np.copyto", "np.fill_diagonal", "np.place", "np.put", "np.put_along_axis", "np.putmask", "np.random.shuffle",
       "random.shuffle", "setattr"] ∧
    Gen.WriteSet.mutatingMethods =
      ["__delitem__", "__iadd__", "__setattr__", "__setitem__", "add", "append", "byteswap", "clear", "difference_update",
       "discard", "extend", "fill", "insert", "intersection_update", "itemset", "partition", "pop", "popitem",
       "put", "remove", "resize", "reverse", "setdefault", "setfield", "setflags", "sort", "symmetric_difference_update",
       "update"] ∧
    Gen.WriteSet.freshDeepMethods =
      ["all", "any", "apply", "as_euler", "as_matrix", "as_quat", "as_rotvec", "astype", "count",
       "cumsum", "dot", "endswith", "flatten", "format", "group", "index", "inv", "isdigit",
       "join", "lower", "lstrip", "magnitude", "mean", "prod", "replace", "rstrip", "split",
       "startswith", "std", "strip", "sum", "tolist", "upper"] ∧
    Gen.WriteSet.freshShallowMethods =
      ["copy", "items", "keys", "values"] ∧
    Gen.WriteSet.aliasMethods =
      ["as_dict", "get", "ravel", "reshape", "squeeze", "swapaxes", "transpose", "view"] ∧
    Gen.WriteSet.exceptionSuffixes =
      ["Error", "Exception", "Warning", "MagpylibBadUserInput", "MagpylibMissingInput", "MagpylibInternalError", "MagpylibDeprecationWarning"] ∧
    Gen.WriteSet.consumers =
      ["field_wrap_BH.getBH_level1"] ∧
    Gen.WriteSet.consumeExempt =
      ["field_func", "field", "in_out"] ∧
    Gen.WriteSet.argNumericParams =
      ["observers", "field", "in_out"] := by
  decide +kernel

/-! ### meaning on an abstract heap -/

variable {W : Type}

theorem exec_cons (h : Heap W) (e : Ev W) (tr : List (Ev W)) : h.exec (e :: tr) = (h.step e).exec tr := rfl

theorem next_le_step (h : Heap W) (e : Ev W) : h.next ≤ (h.step e).next := by
  cases e <;> simp [Heap.step]

/-- a trace whose writes go to fresh, temporary or lazy addresses does not touch any other old cell -/
theorem exec_keeps_old_cell (h0 : Heap W) (temp lazy : Nat → Bool) (tr : List (Ev W)) :
    ∀ (h : Heap W), h0.next ≤ h.next → WritesFresh h0 temp lazy tr →
      ∀ a, a < h0.next → temp a = false → lazy a = false → (h.exec tr).cell a = h.cell a := by
  induction tr with
  | nil => intro h _ _ a _ _ _; rfl
  | cons e tr ih =>
    intro h hn hw a ha ht hl
    rw [exec_cons, ih (h.step e) (Nat.le_trans hn (next_le_step h e))
      (fun e' he' => hw e' (List.mem_cons_of_mem _ he')) a ha ht hl]
    have he := hw e (List.mem_cons_self ..)
    cases e with
    | alloc v =>
      have : a ≠ h.next := by omega
      simp [Heap.step, this]
    | write i b v =>
      have hab : a ≠ b := by
        rcases he with hb | hb | hb
        · omega
        · intro hab; rw [hab] at ht; simp [ht] at hb
        · intro hab; rw [hab] at hl; simp [hl] at hb
      simp [Heap.step, hab]

/-- **semantic theorem**: if every write of an execution goes to an address allocated during the call, to one of the
allow-listed cells that the `finally` restores, or to a lazy cell, then at exit every pre-existing cell other than the lazy
ones holds what it held at entry (`a < h0.next`: allocated before the call) -/
theorem writes_fresh_preserves_old_heap (h0 : Heap W) (temp lazy : Nat → Bool) (tr : List (Ev W))
    (hw : WritesFresh h0 temp lazy tr) (a : Nat) (ha : a < h0.next) (hl : lazy a = false) :
    (h0.restore temp (h0.exec tr)).cell a = h0.cell a := by
  show (if temp a = true then h0.cell a else (h0.exec tr).cell a) = h0.cell a
  by_cases ht : temp a = true
  · rw [if_pos ht]
  · rw [if_neg ht]
    exact exec_keeps_old_cell h0 temp lazy tr h0 (Nat.le_refl _) hw a ha (by simpa using ht) hl

/-- … and the same at EVERY exceptional exit: an exception ends the trace after any number `n` of steps, then the `finally`
runs -/
theorem writes_fresh_preserves_old_heap_at_any_exit (h0 : Heap W) (temp lazy : Nat → Bool) (tr : List (Ev W))
    (hw : WritesFresh h0 temp lazy tr) (n : Nat) (a : Nat) (ha : a < h0.next) (hl : lazy a = false) :
    (h0.restore temp (h0.exec (tr.take n))).cell a = h0.cell a :=
  writes_fresh_preserves_old_heap h0 temp lazy (tr.take n) (fun e he => hw e (List.mem_of_mem_take he)) a ha hl

/-- a table that is `Pure` turns the trusted hypothesis (the trace is one the table describes) into `WritesFresh` -/
theorem pure_described_writesFresh (sites : List Site) (ext : List ExtCall) (notes : List String)
    (hp : WriteSet.Pure sites ext notes = true) (h0 : Heap W) (temp lazy : Nat → Bool) (tr : List (Ev W))
    (hd : DescribedBy sites h0 temp lazy tr) : WritesFresh h0 temp lazy tr := by
  intro e he
  have hde := hd e he
  cases e with
  | alloc v => trivial
  | write i a v =>
    obtain ⟨s, hs, hw, hc⟩ := hde
    have hmem : s ∈ sites := List.mem_of_getElem? hs
    have hok : s.ok = true := by
      have hall : sites.all Site.ok = true := by
        unfold WriteSet.Pure at hp
        simp only [Bool.and_eq_true] at hp
        exact hp.1.1
      exact List.all_eq_true.mp hall s hmem
    show h0.next ≤ a ∨ temp a = true ∨ lazy a = true
    unfold Site.cls at hc
    simp only [hw, Bool.not_true, Bool.false_eq_true, if_false] at hc
    by_cases h1 : (s.root == Root.fresh) = true
    · simp only [h1, if_true] at hc; exact Or.inl hc
    · simp only [h1] at hc
      by_cases h2 : s.tilingAllowed = true
      · simp only [h2, if_true] at hc; exact Or.inr (Or.inl hc)
      · simp only [h2] at hc
        by_cases h3 : s.lazyStyleAllowed = true
        · simp only [h3, if_true] at hc; exact Or.inr (Or.inr hc)
        · exfalso
          unfold Site.ok at hok
          cases hr : s.root with
          | fresh => simp [hr] at h1
          | param =>
            simp only [hr, h2, h3, Bool.or_false] at hok
            have : s.kind = Kind.consumeDeep := by simpa using hok
            rw [this] at hw; simp [Kind.isWrite] at hw
          | global => simp [hr] at hok

/-- **C08 on the heap, for the call path as it is in /repo now**: every execution that the regenerated table describes
leaves every pre-existing cell — other than the lazily materialised style slots — exactly as it was, at the normal exit and
at every exceptional exit -/
theorem call_path_preserves_old_heap (h0 : Heap W) (temp lazy : Nat → Bool) (tr : List (Ev W))
    (hd : DescribedBy Gen.WriteSet.sites h0 temp lazy tr) (n : Nat) (a : Nat) (ha : a < h0.next) (hl : lazy a = false) :
    (h0.restore temp (h0.exec tr)).cell a = h0.cell a ∧
    (h0.restore temp (h0.exec (tr.take n))).cell a = h0.cell a :=
  have hw := pure_described_writesFresh _ _ _ call_path_writes_only_fresh.1 h0 temp lazy tr hd
  ⟨writes_fresh_preserves_old_heap h0 temp lazy tr hw a ha hl,
   writes_fresh_preserves_old_heap_at_any_exit h0 temp lazy tr hw n a ha hl⟩

/-! non-vacuity and necessity, on a heap with three old cells (0: an object's path, 1: a caller array, 2: a style slot) -/

def demoHeap : Heap Nat := { cell := fun a => if a < 3 then some (10 + a) else none, next := 3 }
def demoTemp : Nat → Bool := fun a => a == 0
def demoLazy : Nat → Bool := fun a => a == 2
/-- allocate, write the new cell, pad the path (temporary), materialise the style slot, allocate again -/
def demoTrace : List (Ev Nat) := [.alloc 7, .write 0 3 8, .write 1 0 99, .write 2 2 55, .alloc 1, .write 0 4 2]

/-- the hypotheses are satisfiable by a trace that does all four kinds of things … -/
example : WritesFresh demoHeap demoTemp demoLazy demoTrace := by
  intro e he
  simp only [demoTrace, List.mem_cons, List.mem_nil_iff, or_false] at he
  rcases he with rfl | rfl | rfl | rfl | rfl | rfl <;> simp [demoHeap, demoTemp, demoLazy]

/-- … the conclusion holds on it at every cut (checked by evaluation), the path cell WAS different before the `finally`, … -/
example : ∀ n ∈ [0, 1, 2, 3, 4, 5, 6], ∀ a ∈ [0, 1],
    ((demoHeap.restore demoTemp (demoHeap.exec (demoTrace.take n))).cell a) = demoHeap.cell a := by decide
example : (demoHeap.exec demoTrace).cell 0 = some 99 ∧ demoHeap.cell 0 = some 10 := by decide

/-- … and the hypothesis is necessary: ONE write into an old cell that is not restored (the caller's array, cell 1) is
visible after the call — what `np.asarray` + an in-place operation, a cache attribute, `list +=` on an object's own list
amount to -/
theorem write_to_old_cell_is_visible :
    (demoHeap.restore demoTemp (demoHeap.exec [.alloc 7, .write 0 1 0])).cell 1 ≠ demoHeap.cell 1 := by decide

/-- without the `finally` (no restore) the temporary write is visible at an exceptional exit: the heap-level counterpart of
`without_finally_flag_state_leaks` -/
theorem temp_write_needs_restore : (demoHeap.exec (demoTrace.take 3)).cell 0 ≠ demoHeap.cell 0 := by decide

/-- the table's `Pure` predicate rejects each seeded kind of impurity: the same table with one more site -/
theorem pure_rejects_param_write :
    WriteSet.Pure (Gen.WriteSet.sites ++ [⟨"field_wrap_BH.getBH_level2", 280, .attrAssign, "obj._cache", "_cache", .param, .other, false⟩])
      Gen.WriteSet.extCalls Gen.WriteSet.notes = false ∧
    WriteSet.Pure (Gen.WriteSet.sites ++ [⟨"class_Collection.BaseCollection._validate_getBH_inputs", 526, .augAssign, "todo", "", .param, .other, false⟩])
      Gen.WriteSet.extCalls Gen.WriteSet.notes = false ∧
    WriteSet.Pure (Gen.WriteSet.sites ++ [⟨"field_wrap_BH.getBH_dict_level2", 555, .consume, "getBH_level1(…)", "", .param, .other, false⟩])
      Gen.WriteSet.extCalls Gen.WriteSet.notes = false ∧
    WriteSet.Pure (Gen.WriteSet.sites ++ [⟨"field_wrap_BH.getBH_level2", 213, .methodCall, "src._position.resize(…)", "resize", .param, .other, false⟩])
      Gen.WriteSet.extCalls Gen.WriteSet.notes = false ∧
    -- an allowed NAME outside the allowed REGION is rejected as well
    WriteSet.Pure (Gen.WriteSet.sites ++ [⟨"field_wrap_BH.getBH_level2", 416, .attrAssign, "obj._position", "_position", .param, .other, false⟩])
      Gen.WriteSet.extCalls Gen.WriteSet.notes = false ∧
    WriteSet.Pure Gen.WriteSet.sites (Gen.WriteSet.extCalls ++ [⟨"field_wrap_BH.getBH_level2", 300, "some_new_helper", false⟩]) Gen.WriteSet.notes = false := by
  decide +kernel

/-! ### added by audit 2: coverage of the regenerated table, non-vacuity of `DescribedBy`, and what `Heap.restore` assumes -/

/-- `Pure` is `List.all` over the regenerated table and holds for an empty one.  This pins that the table is populated and
closed: every mutation site and every external call lies in a function of the analysed set (23 s: 417 × 264 string
comparisons in the kernel) … -/
theorem every_site_lies_in_an_analysed_function :
    Gen.WriteSet.sites.all (fun s => Gen.WriteSet.functions.contains s.fn) = true := by
  decide +kernel

/-- … the functions of the wrapper layer that build lists / dicts / result arrays and the core field functions that fill a
result array each HAVE write sites in the table (a translator that stopped descending into one of them would produce fewer
rows, and `Pure` would get easier, not harder), the argument writers are core field functions, and the `consume` sites are
exactly the two calls of getBH_level1 and the call of check_chirality.  (BHJM_dipole and BHJM_triangle have no write site:
they assemble their result without subscript assignment.) -/
theorem table_is_populated :
    Gen.WriteSet.extCalls.all (fun c => Gen.WriteSet.functions.contains c.fn) = true ∧
    Gen.WriteSet.argWriters.all (Gen.WriteSet.fieldFunctions.contains ·) = true ∧
    ["field_wrap_BH.getBH_level2", "field_wrap_BH.getBH_level1", "field_wrap_BH.getBH_dict_level2", "field_wrap_BH.get_src_dict",
     "utility.format_obj_input", "utility.format_src_inputs", "utility.check_static_sensor_orient", "utility.filter_objects",
     "input_checks.check_format_input_observers", "class_BaseGeo.BaseGeo.style",
     "field_BH_circle.BHJM_circle", "field_BH_cuboid.BHJM_magnet_cuboid", "field_BH_cylinder.BHJM_magnet_cylinder",
     "field_BH_cylinder_segment.BHJM_cylinder_segment", "field_BH_polyline.BHJM_current_polyline",
     "field_BH_sphere.BHJM_magnet_sphere", "field_BH_tetrahedron.BHJM_magnet_tetrahedron", "field_BH_tetrahedron.check_chirality",
     "field_BH_triangularmesh.BHJM_magnet_trimesh"].all
      (fun f => Gen.WriteSet.sites.any (fun s => s.fn == f && s.kind.isWrite)) = true ∧
    (Gen.WriteSet.sites.filter fun s => s.kind == .consume).map (·.fn) =
      ["field_BH_tetrahedron.BHJM_magnet_tetrahedron", "field_wrap_BH.getBH_dict_level2", "field_wrap_BH.getBH_level2"] := by
  decide +kernel

/-- `entry_points_analysed` lists only `getB` of the three class interfaces; here all sixteen interface methods, the other
implicit dunders and the `orientation` getter -/
theorem all_interface_roots_analysed :
    ["field_wrap_BH.getB", "field_wrap_BH.getH", "field_wrap_BH.getJ", "field_wrap_BH.getM",
     "class_BaseExcitations.BaseSource.getB", "class_BaseExcitations.BaseSource.getH", "class_BaseExcitations.BaseSource.getJ",
     "class_BaseExcitations.BaseSource.getM", "class_Sensor.Sensor.getB", "class_Sensor.Sensor.getH", "class_Sensor.Sensor.getJ",
     "class_Sensor.Sensor.getM", "class_Collection.BaseCollection.getB", "class_Collection.BaseCollection.getH",
     "class_Collection.BaseCollection.getJ", "class_Collection.BaseCollection.getM",
     "class_Collection.BaseCollection.__len__", "class_Collection.BaseCollection.__getitem__",
     "class_BaseDisplayRepr.BaseDisplayRepr.__repr__", "class_BaseGeo.BaseGeo.orientation"].all (Gen.WriteSet.functions.contains ·) = true := by
  decide +kernel

/-- the first write site of the regenerated table of each class (indices computed, not copied: robust against a changed row
order) -/
def iFresh : Nat := Gen.WriteSet.sites.findIdx (fun s => s.kind.isWrite && s.cls == .fresh)
def iTemp : Nat := Gen.WriteSet.sites.findIdx (fun s => s.kind.isWrite && s.cls == .temp)
def iLazy : Nat := Gen.WriteSet.sites.findIdx (fun s => s.kind.isWrite && s.cls == .lazy)

theorem table_has_a_site_of_each_class :
    (Gen.WriteSet.sites[iFresh]?).map (fun s => (s.kind.isWrite, s.cls)) = some (true, .fresh) ∧
    (Gen.WriteSet.sites[iTemp]?).map (fun s => (s.kind.isWrite, s.cls)) = some (true, .temp) ∧
    (Gen.WriteSet.sites[iLazy]?).map (fun s => (s.kind.isWrite, s.cls)) = some (true, .lazy) := by
  decide +kernel

theorem site_of_class {i : Nat} {c : Cls}
    (h : (Gen.WriteSet.sites[i]?).map (fun s => (s.kind.isWrite, s.cls)) = some (true, c)) :
    ∃ s, Gen.WriteSet.sites[i]? = some s ∧ s.kind.isWrite = true ∧ s.cls = c := by
  cases hs : Gen.WriteSet.sites[i]? with
  | none => rw [hs] at h; simp at h
  | some s =>
    rw [hs] at h
    simp only [Option.map_some, Option.some.injEq, Prod.mk.injEq] at h
    exact ⟨s, rfl, h.1, h.2⟩

/-- a trace issued by sites OF THE REGENERATED TABLE: allocate, write the new cell (a fresh site), pad the path (the tiling
site), materialise the style slot (a lazy site), allocate, put the path back (a temp site writing the ORIGINAL value 10) -/
def demoTableTrace : List (Ev Nat) :=
  [.alloc 7, .write iFresh 3 8, .write iTemp 0 99, .write iLazy 2 55, .alloc 1, .write iTemp 0 10]

/-- non-vacuity of the hypothesis `DescribedBy Gen.WriteSet.sites …` of `call_path_preserves_old_heap` (the examples above
instantiate `WritesFresh` only) -/
theorem demoTableTrace_described : DescribedBy Gen.WriteSet.sites demoHeap demoTemp demoLazy demoTableTrace := by
  obtain ⟨hf, ht, hl⟩ := table_has_a_site_of_each_class
  intro e he
  simp only [demoTableTrace, List.mem_cons, List.mem_nil_iff, or_false] at he
  rcases he with rfl | rfl | rfl | rfl | rfl | rfl
  · trivial
  · obtain ⟨s, h1, h2, h3⟩ := site_of_class hf
    exact ⟨s, h1, h2, by rw [h3]; decide⟩
  · obtain ⟨s, h1, h2, h3⟩ := site_of_class ht
    exact ⟨s, h1, h2, by rw [h3]; decide⟩
  · obtain ⟨s, h1, h2, h3⟩ := site_of_class hl
    exact ⟨s, h1, h2, by rw [h3]; decide⟩
  · trivial
  · obtain ⟨s, h1, h2, h3⟩ := site_of_class ht
    exact ⟨s, h1, h2, by rw [h3]; decide⟩

/-- … and `call_path_preserves_old_heap` APPLIED to it, at every cut -/
example : ∀ n a, a < 3 → a ≠ 2 →
    (demoHeap.restore demoTemp (demoHeap.exec demoTableTrace)).cell a = demoHeap.cell a ∧
    (demoHeap.restore demoTemp (demoHeap.exec (demoTableTrace.take n))).cell a = demoHeap.cell a := by
  intro n a ha h2
  exact call_path_preserves_old_heap demoHeap demoTemp demoLazy demoTableTrace demoTableTrace_described n a ha
    (by simp [demoLazy]; omega)

/-- **what `Heap.restore` assumes, made a hypothesis.**  `call_path_preserves_old_heap` applies the model operator
`h0.restore temp` after the trace: the `finally` is taken to put the ENTRY values back, whatever the `restore`-region sites
of the trace wrote.  Here the operator is gone and the assumption is explicit (`hr`: at the exit every temporary cell holds
its entry value — what the restore sites really write is the trace's business).  `hr` is not extracted from the source: the
table only knows that lines 412/413 assign `_position` / `_orientation` inside the `finally`, not WHAT they assign. -/
theorem call_path_preserves_old_heap_traced (h0 : Heap W) (temp lazy : Nat → Bool) (tr : List (Ev W))
    (hd : DescribedBy Gen.WriteSet.sites h0 temp lazy tr)
    (hr : ∀ a, a < h0.next → temp a = true → (h0.exec tr).cell a = h0.cell a)
    (a : Nat) (ha : a < h0.next) (hl : lazy a = false) :
    (h0.exec tr).cell a = h0.cell a := by
  have hw := pure_described_writesFresh _ _ _ call_path_writes_only_fresh.1 h0 temp lazy tr hd
  by_cases ht : temp a = true
  · exact hr a ha ht
  · exact exec_keeps_old_cell h0 temp lazy tr h0 (Nat.le_refl _) hw a ha (by simpa using ht) hl

/-- non-vacuity: `demoTableTrace` restores the path itself (its last event writes the entry value 10 to cell 0) -/
example : ∀ a, a < 3 → a ≠ 2 → (demoHeap.exec demoTableTrace).cell a = demoHeap.cell a := by
  intro a ha h2
  refine call_path_preserves_old_heap_traced demoHeap demoTemp demoLazy demoTableTrace demoTableTrace_described ?_ a ha
    (by simp [demoLazy]; omega)
  intro b _ hbt
  have : b = 0 := by simpa [demoTemp] using hbt
  subst this
  decide

/-- "the save is taken AFTER the tiling": the tiling site writes 99, the restore site writes 99 again -/
def demoSavedAfterTiling : List (Ev Nat) := [.alloc 7, .write iTemp 0 99, .write iTemp 0 99]

/-- **witness of the gap** (`hr` cannot be dropped): this trace IS described by the regenerated table — both writes come from
allow-listed `temp` sites — and leaves the object's path cell changed; the model operator `Heap.restore` hides that.  The
corresponding source variant (`reset_obj_orig` computed after the tiling loop) regenerates identical Gen/Exits flags and an
identical Gen/WriteSet table, so no theorem of this file notices it; the snapshot oracle does. -/
theorem heap_restore_is_assumed_not_traced :
    DescribedBy Gen.WriteSet.sites demoHeap demoTemp demoLazy demoSavedAfterTiling ∧
    (demoHeap.exec demoSavedAfterTiling).cell 0 ≠ demoHeap.cell 0 ∧
    (demoHeap.restore demoTemp (demoHeap.exec demoSavedAfterTiling)).cell 0 = demoHeap.cell 0 := by
  refine ⟨?_, by decide, by decide⟩
  obtain ⟨s, h1, h2, h3⟩ := site_of_class table_has_a_site_of_each_class.2.1
  intro e he
  simp only [demoSavedAfterTiling, List.mem_cons, List.mem_nil_iff, or_false] at he
  rcases he with rfl | rfl | rfl
  · trivial
  · exact ⟨s, h1, h2, by rw [h3]; decide⟩
  · exact ⟨s, h1, h2, by rw [h3]; decide⟩

end WriteSet

end MagpyVerif.C08
