/-
Props/C08.lean — field computation never changes objects, even when it fails.
State model: Model/Level2State.lean; the position of the restore relative to the failing phase
comes from /repo's source through Gen/Exits.lean.
Not representable here (observed by the snapshot oracle): caller-owned numpy arrays, the 1-ulp
re-normalisation of quaternions by as_quat/from_quat (why `restoreBySlicing` matters in floats).
-/
import MagpyVerif.Model.Level2State
import MagpyVerif.Lemmas.Basic
namespace MagpyVerif.C08
open MagpyVerif MagpyVerif.Level2State
variable {G V : Type}

theorem take_tilePath {α : Type} (M : Nat) (xs : List α) : (tilePath M xs).take xs.length = xs := by
  unfold tilePath
  cases xs.getLast? <;> simp

theorem restore_tile (bySlicing : Bool) (M : Nat) (o : Obj G V) (h : o.pos.length = o.ori.length) :
    restore bySlicing o (tile M o) = o := by
  unfold restore tile
  cases bySlicing
  · rfl
  · by_cases hM : o.pos.length = M
    · simp only [hM, if_true]
      have h1 : o.ori.take o.pos.length = o.ori := by rw [h]; exact List.take_length
      have h2 : o.pos.take o.pos.length = o.pos := List.take_length
      rw [← hM, h1, h2]
    · simp only [hM, if_false, if_true]
      rw [take_tilePath, h, take_tilePath]

theorem zipWith_restore_tile (bySlicing : Bool) (M : Nat) (objs : List (Obj G V))
    (h : ∀ o ∈ objs, o.pos.length = o.ori.length) :
    List.zipWith (restore bySlicing) objs (objs.map (tile M)) = objs := by
  induction objs with
  | nil => rfl
  | cons o os ih =>
    simp only [List.map_cons, List.zipWith_cons_cons]
    rw [restore_tile bySlicing M o (h o (by simp)), ih (fun o' ho' => h o' (by simp [ho']))]

/-- C08 (object paths): for every set of involved objects and every behaviour of the computation
between tiling and restore — returning or failing at any point, i.e. every fault schedule —
getBH_level2 as it is in /repo now leaves every object's position and orientation path exactly
as it was.  `Gen.Exits.resetInFinally` is read from the source on every run: if the restore is
no longer in a `finally` that encloses the failing phase, this proof no longer checks.
(Audit note: with `restoreBySlicing = false` the model's `restore` returns the saved object by definition, so the content
of this theorem is exactly the three flags `translate/gen.py:gen_Exits` extracts from the AST — restore inside a
`finally` that follows the tiling directly, no raising statement in between, restore from saved arrays — plus the
reading of them in `Level2State.run`; the hypothesis `h` is only needed for the slicing variant.  `Level2State` is not
executed by the driver; nothing here speaks about attributes other than the two paths.) -/
theorem level2_preserves_state {ε β : Type} (compute : List (Obj G V) → Except ε β)
    (objs : List (Obj G V)) (h : ∀ o ∈ objs, o.pos.length = o.ori.length) :
    (runNow compute objs).1 = objs := by
  have hfin : (Gen.Exits.resetInFinally && Gen.Exits.unprotectedSitesAfterTiling == 0) = true := by decide
  unfold runNow run
  simp only [hfin, if_true]
  split <;> exact zipWith_restore_tile _ _ objs h

/-- no statement that can raise sits between the tiling and an unprotected restore -/
theorem no_unprotected_exit : Gen.Exits.unprotectedSitesAfterTiling = 0 ∧ Gen.Exits.resetInFinally = true := by
  decide

/-- the paths are put back from the saved arrays, not re-derived from the tiled (re-normalised)
rotation: in floats only this makes the restore bit-exact -/
theorem restore_is_exact : Gen.Exits.restoreBySlicing = false := by decide

/-- calling twice sees the same object state, hence (for a deterministic computation) returns
the same result -/
theorem second_call_same_state {ε β : Type} (c1 c2 : List (Obj G V) → Except ε β)
    (objs : List (Obj G V)) (h : ∀ o ∈ objs, o.pos.length = o.ori.length) :
    (runNow c2 (runNow c1 objs).1).2 = (runNow c2 objs).2 := by
  rw [level2_preserves_state c1 objs h]

/-- the hypothesis is necessary in the model: without the `finally`, a failing computation
leaves a shorter path tiled (this was the behaviour before the fix). -/
theorem without_finally_state_leaks :
    (run (G := Nat) (V := Nat) (ε := Unit) (β := Unit) false true (fun _ => .error ())
      [⟨[1], [1]⟩, ⟨[1, 2, 3], [1, 2, 3]⟩]).1 ≠ [⟨[1], [1]⟩, ⟨[1, 2, 3], [1, 2, 3]⟩] := by
  decide

end MagpyVerif.C08
