/-
Props/C14.lean — returned fields obey the integral laws of magnetostatics.
Proved: the LOCAL (differential) forms of both laws for the Dipole kernel and for the Sphere:
div B = 0 and curl H = 0 at every point off the dipole position, resp. off the sphere surface
(all partial derivatives as `HasDerivAt` of one-variable sections of the model functions);
the interface conditions of the Sphere solution (normal B and tangential H continuous
across |x| = R), which together with B_in − μ₀H_in = J (C02) are what make the flux and
circulation laws hold for surfaces/loops that cut the boundary.
Straight current segment (`current_polyline_Hfield`, one row): div H = 0 at every observer off the
carrier line, for every placement of the segment (`segment_div_free`; canonical placement on the
z-axis with the explicit azimuthal closed form: `segmentH_canonical_eq`, `segment_div_free_canonical`).
Curl-freeness is NOT claimed for a segment: the field of an open finite segment is not curl-free.
Cuboid (`magnet_cuboid_Bfield` port `cuboidB`, and the `BHJM_magnet_cuboid` row `bhjmCuboid`): all nine
partial derivatives exist at every observer off the six face planes (inside and outside, every octant),
with an explicit Jacobian (`cuboid_partials`), and div B = 0, curl H = 0 (also div H = 0, curl B = 0)
there (`cuboid_div_free`, `cuboid_H_curl_free`, `cuboid_div_curl_free`, `cuboid_curl_free_outside`,
`cuboid_wrapper_div_curl_free`; Lemmas/CuboidDiv.lean).
/- FULL: zero flux of B through every closed surface and circulation of H = linked current for
   every loop, all classes.  Needs C01 for every class plus Gauss/Stokes for general surfaces;
   not shown by theorem.  The flux/circulation quadrature oracle checks boxes and loops of sizes
   1e-2…1e2 of the source, in free space, inside magnets and cutting their boundary. -/
-/
import MagpyVerif.Lemmas.KernReal
import MagpyVerif.Lemmas.DipoleCalc
import MagpyVerif.Props.C13
import MagpyVerif.Lemmas.SegmentDiv
import MagpyVerif.Lemmas.CuboidDiv
import MagpyVerif.Props.C01
namespace MagpyVerif.C14
open MagpyVerif MagpyVerif.Kern

/-- C14 (interface conditions across the sphere surface |x| = R): the normal component of B and
the tangential component of H are continuous — the jump conditions that make the flux law and
the circulation law hold for surfaces and loops cutting through the boundary. -/
theorem sphere_interface (R : ℝ) (hR : 0 < R) (pol x : V3 ℝ) (hx : Kern.norm x = R) :
    V3.dot (sphereOutB R pol x) x = V3.dot (vs (2 / 3) pol) x ∧
    V3.cross (vd (sphereOutB R pol x) mu0R) x = V3.cross (vd (vs (2 / 3) pol - pol) mu0R) x := by
  have hsq := norm_sq x
  have hmu : mu0R ≠ 0 := mu0R_pos.ne'
  have hR' : R ≠ 0 := hR.ne'
  simp only [sphereOutB, hx] at *
  have hxx : x.x * x.x = R * R - x.y * x.y - x.z * x.z := by linarith
  constructor
  · simp only [V3.dot, vs, vd, V3.sub_x, V3.sub_y, V3.sub_z]
    field_simp
    linear_combination (-3 * (pol.x * x.x + pol.y * x.y + pol.z * x.z)) * hsq
  · apply V3.ext' <;> simp only [V3.cross, V3.dot, vs, vd, V3.sub_x, V3.sub_y, V3.sub_z] <;> field_simp <;> ring

/-! (added by the audit) `sphere_interface` is about `sphereOutB`, a formula written separately in Lemmas/KernReal.lean, and a
hand-written inside value; nothing above ties either to the model `bhjmSphere` the driver runs.  The tie, and the interface
conditions stated on the model: -/
theorem sphereOutB_is_model (d : ℝ) (pol x : V3 ℝ) (hout : |d| / 2 < Kern.norm x) :
    bhjmSphere .B d pol x = sphereOutB (|d| / 2) pol x ∧
    bhjmSphere .H d pol x = vd (sphereOutB (|d| / 2) pol x) mu0R := by
  constructor <;>
  simp only [bhjmSphere, sphereOutB, lt_real, abs_real, n, ofNat_real, Nat.cast_ofNat, hout, decide_true, if_true, mu0_real]

theorem sphere_surface_is_inside_formula (d : ℝ) (pol x : V3 ℝ) (hin : ¬ |d| / 2 < Kern.norm x) :
    bhjmSphere .B d pol x = vs (2 / 3) pol ∧
    bhjmSphere .H d pol x = vd (vs (2 / 3) pol - pol) mu0R := by
  constructor <;>
  simp only [bhjmSphere, lt_real, abs_real, n, ofNat_real, Nat.cast_ofNat, hin, decide_false, if_false,
    Bool.false_eq_true, mu0_real]

/-- interface conditions on the model: the outside branch continued to |x| = |d|/2 has the same normal B and
tangential H as what `bhjmSphere` returns there (its inside branch) -/
theorem sphere_interface_model (d : ℝ) (hd : d ≠ 0) (pol x : V3 ℝ) (hx : Kern.norm x = |d| / 2) :
    V3.dot (sphereOutB (|d| / 2) pol x) x = V3.dot (bhjmSphere .B d pol x) x ∧
    V3.cross (vd (sphereOutB (|d| / 2) pol x) mu0R) x = V3.cross (bhjmSphere .H d pol x) x := by
  have hR : 0 < |d| / 2 := by positivity
  have hin : ¬ |d| / 2 < Kern.norm x := by rw [hx]; exact lt_irrefl _
  obtain ⟨hB, hH⟩ := sphere_surface_is_inside_formula d pol x hin
  rw [hB, hH]
  exact sphere_interface (|d| / 2) hR pol x hx

example : (2 : ℝ) ≠ 0 ∧ Kern.norm (⟨0, 0, 1⟩ : V3 ℝ) = |(2 : ℝ)| / 2 := by
  refine ⟨two_ne_zero, ?_⟩
  simp [Kern.norm]

/-- inside the ball B − μ₀H = J: the term that closes the flux law inside the magnet -/
theorem sphere_inside_B_minus_mu0H (d : ℝ) (pol x : V3 ℝ) (hin : ¬ |d| / 2 < Kern.norm x) :
    bhjmSphere .B d pol x - vs mu0R (bhjmSphere .H d pol x) = pol := by
  have hmu : mu0R ≠ 0 := mu0R_pos.ne'
  simp only [bhjmSphere, lt_real, abs_real, n, ofNat_real, Nat.cast_ofNat, hin, decide_false, if_false,
    Bool.false_eq_true, mu0_real]
  apply V3.ext' <;> simp [vs, vd] <;> field_simp <;> ring
-- non-vacuity (audit): strictly inside, and exactly on the surface
example : ¬ |(2 : ℝ)| / 2 < Kern.norm (⟨0, 0, 1 / 2⟩ : V3 ℝ) := by rw [norm_axis_z (1 / 2) (by norm_num)]; norm_num
example : ¬ |(2 : ℝ)| / 2 < Kern.norm (⟨0, 0, 1⟩ : V3 ℝ) := by rw [norm_axis_z 1 (by norm_num)]; norm_num

/-! ### local forms of the two laws: Dipole -/

/-- C14 (Dipole, local form of the flux law).  At every point (x,y,z) other than the dipole
position the three partial derivatives ∂Hx/∂x, ∂Hy/∂y, ∂Hz/∂z of `dipole_Hfield` exist and add
up to zero: div H = 0, hence div B = μ₀ div H = 0 (`dipole_B_div_free`).  By Gauss's theorem this
is what makes the flux of B through any closed surface not containing the dipole vanish. -/
theorem dipole_div_free (m : V3 ℝ) (x y z : ℝ) (hx : (⟨x, y, z⟩ : V3 ℝ) ≠ ⟨0, 0, 0⟩) :
    ∃ dxx dyy dzz : ℝ,
      HasDerivAt (fun t => (dipoleH m ⟨t, y, z⟩).x) dxx x ∧
      HasDerivAt (fun t => (dipoleH m ⟨x, t, z⟩).y) dyy y ∧
      HasDerivAt (fun t => (dipoleH m ⟨x, y, t⟩).z) dzz z ∧
      dxx + dyy + dzz = 0 :=
  (dipoleH_hasPartials m ⟨x, y, z⟩ (norm_ne_zero_of_ne hx)).divFreeAt
    (dipoleJac_div m _ (norm_ne_zero_of_ne hx))

/-- the same statement with Mathlib's `deriv`: the divergence of `dipole_Hfield`, written as the sum
of the derivatives of its three coordinate sections, is 0 off the dipole position -/
theorem dipole_div_free_deriv (m : V3 ℝ) (x y z : ℝ) (hx : (⟨x, y, z⟩ : V3 ℝ) ≠ ⟨0, 0, 0⟩) :
    deriv (fun t => (dipoleH m ⟨t, y, z⟩).x) x + deriv (fun t => (dipoleH m ⟨x, t, z⟩).y) y
      + deriv (fun t => (dipoleH m ⟨x, y, t⟩).z) z = 0 := by
  obtain ⟨a, b, c, ha, hb, hc, h⟩ := dipole_div_free m x y z hx
  rw [ha.deriv, hb.deriv, hc.deriv]
  exact h

/-- non-vacuity: the point (0,0,1) is off the dipole, the field of the moment (0,0,1) is not zero
there, and the single partial ∂Hz/∂z is not zero (so the vanishing of the sum is not trivial) -/
example : ∃ dxx dyy dzz : ℝ,
    HasDerivAt (fun t => (dipoleH ⟨0, 0, 1⟩ (⟨t, 0, 1⟩ : V3 ℝ)).x) dxx 0 ∧
    HasDerivAt (fun t => (dipoleH ⟨0, 0, 1⟩ (⟨0, t, 1⟩ : V3 ℝ)).y) dyy 0 ∧
    HasDerivAt (fun t => (dipoleH ⟨0, 0, 1⟩ (⟨0, 0, t⟩ : V3 ℝ)).z) dzz 1 ∧
    dxx + dyy + dzz = 0 := dipole_div_free ⟨0, 0, 1⟩ 0 0 1 (by simp)
example : (dipoleH ⟨0, 0, 1⟩ (⟨0, 0, 1⟩ : V3 ℝ)).z = 1 / (2 * Real.pi) := by
  have h := norm_axis_z 1 zero_le_one
  simp only [dipoleH, vs, vd, n, ofNat_real, pi_real, V3.dot, V3.sub_z, Nat.cast_ofNat, h]
  field_simp; ring
example : (dipoleJac ⟨0, 0, 1⟩ (⟨0, 0, 1⟩ : V3 ℝ)).r3.z = -6 / (4 * Real.pi) := by
  have h := norm_axis_z 1 zero_le_one
  simp only [dipoleJac, dipoleJ, V3.dot, h]
  ring

/-- C14 (Dipole, local form of Ampère's law without currents).  At every point other than the
dipole position the six mixed partial derivatives of `dipole_Hfield` exist and the three
components of curl H vanish: ∂Hz/∂y − ∂Hy/∂z = 0, ∂Hx/∂z − ∂Hz/∂x = 0, ∂Hy/∂x − ∂Hx/∂y = 0.
By Stokes's theorem this is what makes the circulation of H around any loop that bounds a
surface avoiding the dipole vanish. -/
theorem dipole_curl_free (m : V3 ℝ) (x y z : ℝ) (hx : (⟨x, y, z⟩ : V3 ℝ) ≠ ⟨0, 0, 0⟩) :
    ∃ dzy dyz dxz dzx dyx dxy : ℝ,
      HasDerivAt (fun t => (dipoleH m ⟨x, t, z⟩).z) dzy y ∧
      HasDerivAt (fun t => (dipoleH m ⟨x, y, t⟩).y) dyz z ∧
      HasDerivAt (fun t => (dipoleH m ⟨x, y, t⟩).x) dxz z ∧
      HasDerivAt (fun t => (dipoleH m ⟨t, y, z⟩).z) dzx x ∧
      HasDerivAt (fun t => (dipoleH m ⟨t, y, z⟩).y) dyx x ∧
      HasDerivAt (fun t => (dipoleH m ⟨x, t, z⟩).x) dxy y ∧
      dzy - dyz = 0 ∧ dxz - dzx = 0 ∧ dyx - dxy = 0 :=
  (dipoleH_hasPartials m ⟨x, y, z⟩ (norm_ne_zero_of_ne hx)).curlFreeAt (dipoleJac_curl m _)

/-- non-vacuity: at (1,0,1) the mixed partial ∂Hx/∂z of the moment (0,0,1) is not zero -/
example : CurlFreeAt (dipoleH ⟨0, 0, 1⟩) ⟨1, 0, 1⟩ := dipole_curl_free ⟨0, 0, 1⟩ 1 0 1 (by simp)
example : (dipoleJac ⟨0, 0, 1⟩ (⟨1, 0, 1⟩ : V3 ℝ)).r1.z ≠ 0 := by
  have h2 : Kern.norm (⟨1, 0, 1⟩ : V3 ℝ) * Kern.norm (⟨1, 0, 1⟩ : V3 ℝ) = 2 := by
    rw [norm_sq]; norm_num
  have hr : 0 < Kern.norm (⟨1, 0, 1⟩ : V3 ℝ) := norm_pos_of_ne (by simp)
  simp only [dipoleJac, dipoleJ, V3.dot]
  generalize Kern.norm (⟨1, 0, 1⟩ : V3 ℝ) = r at *
  have hπ : Real.pi ≠ 0 := Real.pi_ne_zero
  have hr0 : r ≠ 0 := hr.ne'
  have h7 : r ^ 7 = r ^ 5 * 2 := by rw [← h2]; ring
  rw [h7]
  field_simp
  norm_num
  exact hr0

/-- the same two laws for what `BHJM_dipole` returns: div B = 0 for `field="B"` (B = μ₀H) and
curl H = 0 for `field="H"`, at every point off the dipole position -/
theorem dipole_wrapper_div_curl_free (m p : V3 ℝ) (hp : p ≠ ⟨0, 0, 0⟩) :
    DivFreeAt (bhjmDipole .B m) p ∧ CurlFreeAt (bhjmDipole .H m) p := by
  have h0 := norm_ne_zero_of_ne hp
  have h := dipoleH_hasPartials m p h0
  refine ⟨(h.const_smul mu0R).divFreeAt ?_, h.curlFreeAt (dipoleJac_curl m p)⟩
  rw [jacDiv_scale, dipoleJac_div m p h0, mul_zero]

example : DivFreeAt (bhjmDipole .B ⟨0, 0, 1⟩) ⟨1, 2, 2⟩ ∧ CurlFreeAt (bhjmDipole .H ⟨0, 0, 1⟩) ⟨1, 2, 2⟩ :=
  dipole_wrapper_div_curl_free _ _ (by simp)

/-! ### local forms of the two laws: Sphere -/

/-- outside the ball the B-field of `BHJM_magnet_sphere` is μ₀ times the dipole H-field of the
moment J·V/μ₀ (companion of `C13.sphere_outside_eq_dipole`, which is the statement for H) -/
theorem sphere_outside_B_eq_mu0_dipole (d : ℝ) (pol x : V3 ℝ) (hout : |d| / 2 < Kern.norm x) :
    bhjmSphere .B d pol x =
      vs mu0R (dipoleH (vs (4 / 3 * Real.pi * (|d| / 2) ^ 3 / mu0R) pol) x) := by
  rw [← C13.sphere_outside_eq_dipole d pol x hout]
  have hmu : mu0R ≠ 0 := mu0R_pos.ne'
  simp only [bhjmSphere, lt_real, abs_real, n, ofNat_real, Nat.cast_ofNat, hout, decide_true, if_true, mu0_real]
  apply V3.ext' <;> simp [vs, vd] <;> field_simp

/-- C14 (Sphere, outside, |x| > |d|/2): div B = 0 and curl H = 0 (and also div H = 0, curl B = 0,
there being neither polarization nor current outside).  The inside/outside test of the code is
constant on the open set |x| > |d|/2, so near the point the field is the dipole field. -/
theorem sphere_outside_div_curl_free (d : ℝ) (pol p : V3 ℝ) (hout : |d| / 2 < Kern.norm p) :
    DivFreeAt (bhjmSphere .B d pol) p ∧ CurlFreeAt (bhjmSphere .H d pol) p ∧
    DivFreeAt (bhjmSphere .H d pol) p ∧ CurlFreeAt (bhjmSphere .B d pol) p := by
  have h0 : Kern.norm p ≠ 0 := (lt_of_le_of_lt (by positivity) hout).ne'
  have h := dipoleH_hasPartials (vs (4 / 3 * Real.pi * (|d| / 2) ^ 3 / mu0R) pol) p h0
  have hH : HasPartials (bhjmSphere .H d pol) p _ :=
    h.congr_on_norm_gt hout (fun q hq => C13.sphere_outside_eq_dipole d pol q hq)
  have hB : HasPartials (bhjmSphere .B d pol) p _ :=
    (h.const_smul mu0R).congr_on_norm_gt hout (fun q hq => sphere_outside_B_eq_mu0_dipole d pol q hq)
  refine ⟨hB.divFreeAt ?_, hH.curlFreeAt (dipoleJac_curl _ p), hH.divFreeAt (dipoleJac_div _ p h0),
    hB.curlFreeAt ?_⟩
  · rw [jacDiv_scale, dipoleJac_div _ p h0, mul_zero]
  · rw [jacCurl_scale, dipoleJac_curl]; simp [vs]

/-- non-vacuity: diameter 2, polarization (0,0,1), observer (0,0,2) is outside (2 > 1) -/
example : DivFreeAt (bhjmSphere .B 2 ⟨0, 0, 1⟩) ⟨0, 0, 2⟩ ∧ CurlFreeAt (bhjmSphere .H 2 ⟨0, 0, 1⟩) ⟨0, 0, 2⟩ := by
  have h := sphere_outside_div_curl_free 2 ⟨0, 0, 1⟩ ⟨0, 0, 2⟩
    (by rw [norm_axis_z 2 (by norm_num)]; norm_num)
  exact ⟨h.1, h.2.1⟩

/-- strictly inside the ball every field `BHJM_magnet_sphere` returns is constant -/
theorem sphere_inside_const (f : Field) (d : ℝ) (pol q q' : V3 ℝ)
    (hq : Kern.norm q < |d| / 2) (hq' : Kern.norm q' < |d| / 2) :
    bhjmSphere f d pol q = bhjmSphere f d pol q' := by
  have h1 : ¬ |d| / 2 < Kern.norm q := not_lt.mpr hq.le
  have h2 : ¬ |d| / 2 < Kern.norm q' := not_lt.mpr hq'.le
  cases f <;>
    simp only [bhjmSphere, lt_real, abs_real, n, ofNat_real, Nat.cast_ofNat, h1, h2, decide_false,
      Bool.false_eq_true, if_false]

/-- C14 (Sphere, strictly inside, |x| < |d|/2): every partial derivative of every returned field
is 0 (the inside/outside test is constant on the open ball, and the inside fields are constant) -/
theorem sphere_inside_partials_zero (f : Field) (d : ℝ) (pol p : V3 ℝ) (hin : Kern.norm p < |d| / 2) :
    HasPartials (bhjmSphere f d pol) p jacZero :=
  (HasPartials.const (bhjmSphere f d pol p) p).congr_on_norm_lt hin
    (fun q hq => sphere_inside_const f d pol q p hq hin)

/-- C14 (Sphere, strictly inside): div B = 0 (flux law inside the magnet) and curl H = 0
(no free currents), and likewise div H = 0, curl B = 0 for the homogeneous inside field -/
theorem sphere_inside_div_curl_free (d : ℝ) (pol p : V3 ℝ) (hin : Kern.norm p < |d| / 2) :
    DivFreeAt (bhjmSphere .B d pol) p ∧ CurlFreeAt (bhjmSphere .H d pol) p ∧
    DivFreeAt (bhjmSphere .H d pol) p ∧ CurlFreeAt (bhjmSphere .B d pol) p :=
  ⟨(sphere_inside_partials_zero .B d pol p hin).divFreeAt jacDiv_zero,
   (sphere_inside_partials_zero .H d pol p hin).curlFreeAt jacCurl_zero,
   (sphere_inside_partials_zero .H d pol p hin).divFreeAt jacDiv_zero,
   (sphere_inside_partials_zero .B d pol p hin).curlFreeAt jacCurl_zero⟩

/-- non-vacuity: diameter 2, observer (0,0,1/2) is strictly inside; the field there is ⅔J ≠ 0 -/
example : DivFreeAt (bhjmSphere .B 2 ⟨0, 0, 1⟩) ⟨0, 0, 1 / 2⟩ ∧ CurlFreeAt (bhjmSphere .H 2 ⟨0, 0, 1⟩) ⟨0, 0, 1 / 2⟩ := by
  have h := sphere_inside_div_curl_free 2 ⟨0, 0, 1⟩ ⟨0, 0, 1 / 2⟩
    (by rw [norm_axis_z (1 / 2) (by norm_num)]; norm_num)
  exact ⟨h.1, h.2.1⟩
example : (bhjmSphere .B 2 ⟨0, 0, 1⟩ (⟨0, 0, 1 / 2⟩ : V3 ℝ)).z = 2 / 3 := by
  have h : ¬ |(2 : ℝ)| / 2 < Kern.norm (⟨0, 0, 1 / 2⟩ : V3 ℝ) := by
    rw [norm_axis_z (1 / 2) (by norm_num)]; norm_num
  simp only [bhjmSphere, lt_real, abs_real, n, ofNat_real, Nat.cast_ofNat, h, decide_false,
    Bool.false_eq_true, if_false, vs]
  norm_num

/-! ### local form of the flux law: straight current segment (canonical placement) -/

/-- the model's `segmentH` (`current_polyline_Hfield` for one segment, all three branches of its
foot-point case split) for a segment on the z-axis from `a` to `b ≠ a` and an observer off the axis:
purely azimuthal, `H = I/(4π) · G(ρ², z) · (−y, x, 0)` with
`G(u, z) = ((b − z)/√((b − z)² + u) − (a − z)/√((a − z)² + u)) / u`
(the textbook `I/(4πρ)·(sin θ₂ − sin θ₁)·ê_φ`) -/
theorem segmentH_canonical_eq (cur a b x y z : ℝ) (hab : a ≠ b) (hρ : 0 < x * x + y * y) :
    segmentH cur ⟨0, 0, a⟩ ⟨0, 0, b⟩ ⟨x, y, z⟩ =
      ⟨-y * (cur / (4 * Real.pi) * SegBS.segCanonG a b z (x * x + y * y)),
        x * (cur / (4 * Real.pi) * SegBS.segCanonG a b z (x * x + y * y)), 0⟩ :=
  SegBS.segmentH_canonical_eq cur a b x y z hab hρ

/-- C14 (straight segment, local form of the flux law), canonical placement: for the segment on the
z-axis from `a` to `b ≠ a` and every observer off the axis the three partial derivatives ∂Hx/∂x,
∂Hy/∂y, ∂Hz/∂z of the model's `segmentH` exist and add up to zero (div H = 0, hence div B = 0).
The field is azimuthal with a magnitude independent of the azimuth:
∂Hx/∂x + ∂Hy/∂y = −y·c·G₁·2x + x·c·G₁·2y = 0, Hz ≡ 0.
Nothing is claimed about curl H: the field of an open finite segment is NOT curl-free (the
current is not closed); only closed polylines are.
The same for arbitrary placement: `segment_div_free` below. -/
theorem segment_div_free_canonical (cur a b : ℝ) (hab : a ≠ b) (x y z : ℝ) (hρ : 0 < x * x + y * y) :
    ∃ dxx dyy dzz : ℝ,
      HasDerivAt (fun t => (segmentH cur (⟨0, 0, a⟩ : V3 ℝ) ⟨0, 0, b⟩ ⟨t, y, z⟩).x) dxx x ∧
      HasDerivAt (fun t => (segmentH cur (⟨0, 0, a⟩ : V3 ℝ) ⟨0, 0, b⟩ ⟨x, t, z⟩).y) dyy y ∧
      HasDerivAt (fun t => (segmentH cur (⟨0, 0, a⟩ : V3 ℝ) ⟨0, 0, b⟩ ⟨x, y, t⟩).z) dzz z ∧
      dxx + dyy + dzz = 0 :=
  SegBS.segment_canonical_divFree cur a b hab ⟨x, y, z⟩ hρ

/-- the same with Mathlib's `deriv` -/
theorem segment_div_free_canonical_deriv (cur a b : ℝ) (hab : a ≠ b) (x y z : ℝ) (hρ : 0 < x * x + y * y) :
    deriv (fun t => (segmentH cur (⟨0, 0, a⟩ : V3 ℝ) ⟨0, 0, b⟩ ⟨t, y, z⟩).x) x +
      deriv (fun t => (segmentH cur (⟨0, 0, a⟩ : V3 ℝ) ⟨0, 0, b⟩ ⟨x, t, z⟩).y) y +
      deriv (fun t => (segmentH cur (⟨0, 0, a⟩ : V3 ℝ) ⟨0, 0, b⟩ ⟨x, y, t⟩).z) z = 0 := by
  obtain ⟨d1, d2, d3, h1, h2, h3, h⟩ := segment_div_free_canonical cur a b hab x y z hρ
  rw [h1.deriv, h2.deriv, h3.deriv]
  exact h

/-- non-vacuity: unit current on the z-axis from −1 to 1, observer (1, 0, 0): the field there is
`(0, √2/(4π), 0) ≠ 0`, and the point is covered by the theorem -/
example : DivFreeAt (segmentH 1 (⟨0, 0, -1⟩ : V3 ℝ) ⟨0, 0, 1⟩) ⟨1, 0, 0⟩ :=
  segment_div_free_canonical 1 (-1) 1 (by norm_num) 1 0 0 (by norm_num)
example : (segmentH 1 (⟨0, 0, -1⟩ : V3 ℝ) ⟨0, 0, 1⟩ ⟨1, 0, 0⟩).y = √2 / (4 * Real.pi) := by
  rw [segmentH_canonical_eq 1 (-1) 1 1 0 0 (by norm_num) (by norm_num)]
  simp only [SegBS.segCanonG]
  have h2 : √2 ≠ 0 := (Real.sqrt_pos.mpr (by norm_num)).ne'
  have e1 : ((1 : ℝ) - 0) ^ 2 + (1 * 1 + 0 * 0) = 2 := by norm_num
  have e2 : ((-1 : ℝ) - 0) ^ 2 + (1 * 1 + 0 * 0) = 2 := by norm_num
  rw [e1, e2]
  have hs : √2 * √2 = 2 := Real.mul_self_sqrt (by norm_num)
  field_simp
  nlinarith [hs]

/-- the one-segment kernel depends on segment and observer only through their differences:
translating both by `d` does not change the field (observer off the carrier line) — with
`segment_div_free_canonical` this covers every segment parallel to the z-axis -/
theorem segment_translate (cur : ℝ) (p1 p2 po d : V3 ℝ)
    (hoff : 0 < SegBS.nsq (V3.cross (p2 - p1) (po - p1))) :
    segmentH cur (p1 + d) (p2 + d) (po + d) = segmentH cur p1 p2 po :=
  SegBS.segmentH_translate cur p1 p2 po d hoff

example : segmentH 1 ((⟨0, 0, -1⟩ : V3 ℝ) + ⟨5, 6, 7⟩) (⟨0, 0, 1⟩ + ⟨5, 6, 7⟩) (⟨1, 0, 0⟩ + ⟨5, 6, 7⟩) =
    segmentH 1 ⟨0, 0, -1⟩ ⟨0, 0, 1⟩ ⟨1, 0, 0⟩ :=
  segment_translate 1 _ _ _ _ (by simp [SegBS.nsq, V3.cross])

/-- C14 (straight segment, local form of the flux law), **arbitrary placement**: for every segment
`p1 → p2` and every observer off its carrier line (`|(p2 − p1) × (p − p1)|² > 0`, which also forces
`p1 ≠ p2`; these are exactly the rows that pass both masks of the Polyline wrapper, Props/C15
`polyline_masks_cover_singular`) the three partial derivatives ∂Hx/∂x, ∂Hy/∂y, ∂Hz/∂z of the model's
`segmentH` (`current_polyline_Hfield`, all three branches of its foot-point case split) exist and add up
to zero.  Proof: `H = I/(4π)·Φ(u, v)·(d × w)` with `d = p2 − p1`, `w = p − p1`, `u = w·d`, `v = |w|²`
(`SegBS.K_closed`); along each coordinate line the matching component of `d × w` is constant and
`∂Φ = Φ_u d_i + 2 Φ_v w_i`, hence div H = `I/(4π)·(Φ_u d + 2 Φ_v w)·(d × w) = 0`.
No statement about curl H: the field of an open finite segment is not curl-free. -/
theorem segment_div_free (cur : ℝ) (p1 p2 : V3 ℝ) (x y z : ℝ)
    (hoff : 0 < SegBS.nsq (V3.cross (p2 - p1) (⟨x, y, z⟩ - p1))) :
    ∃ dxx dyy dzz : ℝ,
      HasDerivAt (fun t => (segmentH cur p1 p2 ⟨t, y, z⟩).x) dxx x ∧
      HasDerivAt (fun t => (segmentH cur p1 p2 ⟨x, t, z⟩).y) dyy y ∧
      HasDerivAt (fun t => (segmentH cur p1 p2 ⟨x, y, t⟩).z) dzz z ∧
      dxx + dyy + dzz = 0 :=
  SegBS.segment_divFree cur p1 p2 ⟨x, y, z⟩ hoff

/-- div B = 0 for `q ↦ μ₀ · segmentH … q`, the UNMASKED kernel times μ₀.  (Audit: this is a statement about that lambda, not about
`bhjmSegment .B`: the wrapper agrees with it pointwise on rows that pass the masks (C15.polyline_masks_cover_singular), but
it is not differentiable across the relative-1e-15 on-line mask shell, so no div statement about the wrapper follows there.) -/
theorem segment_B_div_free (cur : ℝ) (p1 p2 p : V3 ℝ)
    (hoff : 0 < SegBS.nsq (V3.cross (p2 - p1) (p - p1))) :
    DivFreeAt (fun q => vs mu0R (segmentH cur p1 p2 q)) p := by
  obtain ⟨a, b, c, ha, hb, hc, h⟩ := SegBS.segment_divFree cur p1 p2 p hoff
  refine ⟨mu0R * a, mu0R * b, mu0R * c, ha.const_mul mu0R, hb.const_mul mu0R, hc.const_mul mu0R, ?_⟩
  rw [← mul_add, ← mul_add, h, mul_zero]

-- non-vacuity: a skew segment and an observer off its line
example : DivFreeAt (segmentH 2 (⟨1, 2, 3⟩ : V3 ℝ) ⟨-1, 0, 5⟩) ⟨4, 4, 4⟩ :=
  segment_div_free 2 _ _ 4 4 4 (by simp [SegBS.nsq, V3.cross]; norm_num)
example : DivFreeAt (fun q => vs mu0R (segmentH 2 (⟨1, 2, 3⟩ : V3 ℝ) ⟨-1, 0, 5⟩ q)) ⟨4, 4, 4⟩ :=
  segment_B_div_free 2 _ _ _ (by simp [SegBS.nsq, V3.cross]; norm_num)

/-! ### local forms of the two laws: Cuboid

`cuboidB` is the port of `magnet_cuboid_Bfield` (reflection into the bottom-Q4 octant, eight corner
distances, arctan2 sums, log differences, `qsigns`).  By C01 (`cuboid_is_coulomb_integral`) it equals,
on the open set off the six face planes, the six-face surface-charge field plus `J` inside; every face
field is a mixed second difference over the face's corners of `arctan(uv/(wr))`, `log(r − v)`,
`log(r − u)` (Lemmas/CuboidCoulomb.lean).  Lemmas/CuboidDiv.lean differentiates these corner
functions: corner by corner the divergence is `u/(u²+w²) + v/(v²+w²)` and the curl components are
`−w/(v²+w²)`, `w/(u²+w²)`, `0`, all annihilated by the second difference.  The arctan2 branch
corrections (±π) and the interior term are locally constant off the face planes. -/

open MagpyVerif.CuboidDiv in
/-- C14 (Cuboid, local form of the flux law).  For positive side lengths, every polarization and
every observer off the six (infinitely extended) face planes — strictly inside the magnet or anywhere
outside, in any octant — the three partial derivatives ∂Bx/∂x, ∂By/∂y, ∂Bz/∂z of the model of
`magnet_cuboid_Bfield` exist and add up to zero: div B = 0. -/
theorem cuboid_div_free (dim pol : V3 ℝ) (x y z : ℝ) (hdx : 0 < dim.x) (hdy : 0 < dim.y) (hdz : 0 < dim.z)
    (hx : |x| ≠ dim.x / 2) (hy : |y| ≠ dim.y / 2) (hz : |z| ≠ dim.z / 2) :
    ∃ dxx dyy dzz : ℝ,
      HasDerivAt (fun t => (cuboidB dim pol ⟨t, y, z⟩).x) dxx x ∧
      HasDerivAt (fun t => (cuboidB dim pol ⟨x, t, z⟩).y) dyy y ∧
      HasDerivAt (fun t => (cuboidB dim pol ⟨x, y, t⟩).z) dzz z ∧
      dxx + dyy + dzz = 0 :=
  (cuboidB_dcfree dim pol ⟨x, y, z⟩ hdx hdy hdz (offP_of_abs hdx hdy hdz hx hy hz)).divFreeAt

/-- the same with Mathlib's `deriv` -/
theorem cuboid_div_free_deriv (dim pol : V3 ℝ) (x y z : ℝ) (hdx : 0 < dim.x) (hdy : 0 < dim.y) (hdz : 0 < dim.z)
    (hx : |x| ≠ dim.x / 2) (hy : |y| ≠ dim.y / 2) (hz : |z| ≠ dim.z / 2) :
    deriv (fun t => (cuboidB dim pol ⟨t, y, z⟩).x) x + deriv (fun t => (cuboidB dim pol ⟨x, t, z⟩).y) y
      + deriv (fun t => (cuboidB dim pol ⟨x, y, t⟩).z) z = 0 := by
  obtain ⟨a, b, c, ha, hb, hc, h⟩ := cuboid_div_free dim pol x y z hdx hdy hdz hx hy hz
  rw [ha.deriv, hb.deriv, hc.deriv]
  exact h

-- non-vacuity: a 1×2×3 cuboid with a skew polarization; an observer that needs all three reflections
-- of the code (x<0, y>0, z>0), one in the bottom-Q4 octant itself, one on a coordinate plane, one inside
example : DivFreeAt (cuboidB (⟨1, 2, 3⟩ : V3 ℝ) ⟨1, -2, 3⟩) ⟨-3, 1 / 2, 5⟩ := by
  apply cuboid_div_free <;> norm_num [abs_of_pos, abs_of_neg]
example : DivFreeAt (cuboidB (⟨1, 2, 3⟩ : V3 ℝ) ⟨1, -2, 3⟩) ⟨3, -1 / 2, -5⟩ := by
  apply cuboid_div_free <;> norm_num [abs_of_pos, abs_of_neg]
example : DivFreeAt (cuboidB (⟨1, 2, 3⟩ : V3 ℝ) ⟨1, -2, 3⟩) ⟨0, 0, 4⟩ := by
  apply cuboid_div_free <;> norm_num [abs_of_pos, abs_of_neg]
example : DivFreeAt (cuboidB (⟨1, 2, 3⟩ : V3 ℝ) ⟨1, -2, 3⟩) ⟨1 / 4, 1 / 3, -1 / 4⟩ := by
  apply cuboid_div_free <;> norm_num [abs_of_pos, abs_of_neg]

open MagpyVerif.CuboidDiv in
/-- C14 (Cuboid): the full Jacobian.  Off the six face planes the model of `magnet_cuboid_Bfield` has all
nine partial derivatives, given by `coulombJac`: the sum over the six faces, weighted with the surface
charge `±J·n`, of the mixed second differences over the face corners of the derivatives of
`arctan(uv/(wr))`, `log(r − v)`, `log(r − u)` (`rectJac`; `Lu … Nw` of Lemmas/CuboidDiv.lean).  Its
trace and its antisymmetric part vanish. -/
theorem cuboid_partials (dim pol p : V3 ℝ) (hdx : 0 < dim.x) (hdy : 0 < dim.y) (hdz : 0 < dim.z)
    (hx : |p.x| ≠ dim.x / 2) (hy : |p.y| ≠ dim.y / 2) (hz : |p.z| ≠ dim.z / 2) :
    HasPartials (cuboidB dim pol) p (coulombJac dim pol p) ∧ jacDiv (coulombJac dim pol p) = 0 ∧
      jacCurl (coulombJac dim pol p) = ⟨0, 0, 0⟩ :=
  ⟨cuboidB_hasPartials dim pol p hdx hdy hdz (offP_of_abs hdx hdy hdz hx hy hz), coulombJac_div dim pol p,
    coulombJac_curl dim pol p⟩

open MagpyVerif.CuboidDiv MagpyVerif.RectCharge in
/-- non-vacuity: the vanishing of the divergence is not trivial — for the 2×2×2 cube polarized along z
the single partial ∂Bz/∂z on the axis at (0,0,3) is `(8/(17√18) − 8/(5√6))/(4π) < 0` -/
example : HasDerivAt (fun t => (cuboidB (⟨2, 2, 2⟩ : V3 ℝ) ⟨0, 0, 1⟩ ⟨0, 0, t⟩).z)
    (coulombJac (⟨2, 2, 2⟩ : V3 ℝ) ⟨0, 0, 1⟩ ⟨0, 0, 3⟩).r3.z 3 ∧
    (coulombJac (⟨2, 2, 2⟩ : V3 ℝ) ⟨0, 0, 1⟩ ⟨0, 0, 3⟩).r3.z < 0 := by
  refine ⟨(cuboid_partials (⟨2, 2, 2⟩ : V3 ℝ) ⟨0, 0, 1⟩ ⟨0, 0, 3⟩ (by norm_num) (by norm_num) (by norm_num)
    (by norm_num) (by norm_num) (by norm_num [abs_of_pos])).1.zz, ?_⟩
  have e1 : ∀ u v w : ℝ, rr (-u) v w = rr u v w := by intro u v w; unfold rr; rw [neg_sq]
  have e2 : ∀ u v w : ℝ, rr u (-v) w = rr u v w := by intro u v w; unfold rr; rw [neg_sq]
  have ha := rr_pos (show (2 : ℝ) ≠ 0 by norm_num) 1 1
  have hb := rr_pos (show (4 : ℝ) ≠ 0 by norm_num) 1 1
  have ha2 := rr_sq 1 1 2
  have hb2 := rr_sq 1 1 4
  simp only [coulombJac, jacScale, jacAdd, jacCyc, jacSwp, rectJac, vs, V3.add_z, d2, Nw, Nu, Nv, Lw, Mw]
  norm_num
  simp only [e1, e2]
  generalize rr 1 1 2 = a at *
  generalize rr 1 1 4 = b at *
  have hab : a < b := by nlinarith
  have hinv : b⁻¹ < a⁻¹ := (inv_lt_inv₀ hb ha).mpr hab
  have hbi : 0 < b⁻¹ := inv_pos.mpr hb
  apply mul_neg_of_pos_of_neg (by positivity)
  have : (-1 : ℝ) / (5 * a) = -(1 / 5) * a⁻¹ := by field_simp
  have : (-1 : ℝ) / (17 * b) = -(1 / 17) * b⁻¹ := by field_simp
  simp only [*]
  nlinarith

open MagpyVerif.CuboidDiv MagpyVerif.CuboidCoulomb in
/-- C14 (Cuboid, local form of Ampère's law without currents).  H = (B − J·1_inside)/μ₀, with B the
model of `magnet_cuboid_Bfield` and the geometric interior as the inside mask, has at every observer
off the six face planes (inside and outside) all six mixed partial derivatives, and
∂Hz/∂y − ∂Hy/∂z = 0, ∂Hx/∂z − ∂Hz/∂x = 0, ∂Hy/∂x − ∂Hx/∂y = 0. -/
theorem cuboid_H_curl_free (dim pol p : V3 ℝ) (hdx : 0 < dim.x) (hdy : 0 < dim.y) (hdz : 0 < dim.z)
    (hx : |p.x| ≠ dim.x / 2) (hy : |p.y| ≠ dim.y / 2) (hz : |p.z| ≠ dim.z / 2) :
    CurlFreeAt (fun q => vd (cuboidB dim pol q -
      (if |q.x| < dim.x / 2 ∧ |q.y| < dim.y / 2 ∧ |q.z| < dim.z / 2 then pol else ⟨0, 0, 0⟩)) mu0R) p :=
  (cuboidHfield_dcfree dim pol p hdx hdy hdz (offP_of_abs hdx hdy hdz hx hy hz)).curlFreeAt

open MagpyVerif.CuboidDiv MagpyVerif.CuboidCoulomb in
/-- C14 (Cuboid): off the six face planes all four local laws hold — div B = 0, curl H = 0 and also
div H = 0, curl B = 0 (there are neither magnetic charges nor currents off the surface; the
polarization is constant inside). -/
theorem cuboid_div_curl_free (dim pol p : V3 ℝ) (hdx : 0 < dim.x) (hdy : 0 < dim.y) (hdz : 0 < dim.z)
    (hx : |p.x| ≠ dim.x / 2) (hy : |p.y| ≠ dim.y / 2) (hz : |p.z| ≠ dim.z / 2) :
    DivFreeAt (cuboidB dim pol) p ∧ CurlFreeAt (cuboidHfield dim pol) p ∧
    DivFreeAt (cuboidHfield dim pol) p ∧ CurlFreeAt (cuboidB dim pol) p :=
  have hoff := offP_of_abs hdx hdy hdz hx hy hz
  ⟨(cuboidB_dcfree dim pol p hdx hdy hdz hoff).divFreeAt, (cuboidHfield_dcfree dim pol p hdx hdy hdz hoff).curlFreeAt,
   (cuboidHfield_dcfree dim pol p hdx hdy hdz hoff).divFreeAt, (cuboidB_dcfree dim pol p hdx hdy hdz hoff).curlFreeAt⟩

open MagpyVerif.CuboidDiv in
/-- outside the magnet, where H = B/μ₀: curl (B/μ₀) = 0 -/
theorem cuboid_curl_free_outside (dim pol p : V3 ℝ) (hdx : 0 < dim.x) (hdy : 0 < dim.y) (hdz : 0 < dim.z)
    (hx : |p.x| ≠ dim.x / 2) (hy : |p.y| ≠ dim.y / 2) (hz : |p.z| ≠ dim.z / 2) :
    CurlFreeAt (fun q => vd (cuboidB dim pol q) mu0R) p :=
  ((cuboidB_dcfree dim pol p hdx hdy hdz (offP_of_abs hdx hdy hdz hx hy hz)).vd mu0R).curlFreeAt

-- non-vacuity: outside in a reflected octant, and strictly inside
example : CurlFreeAt (fun q => vd (cuboidB (⟨1, 2, 3⟩ : V3 ℝ) ⟨1, -2, 3⟩ q -
    (if |q.x| < (1 : ℝ) / 2 ∧ |q.y| < (2 : ℝ) / 2 ∧ |q.z| < (3 : ℝ) / 2 then ⟨1, -2, 3⟩ else ⟨0, 0, 0⟩)) mu0R)
    ⟨-3, 1 / 2, 5⟩ := by
  apply cuboid_H_curl_free (⟨1, 2, 3⟩ : V3 ℝ) <;> norm_num [abs_of_pos, abs_of_neg]
example : CurlFreeAt (fun q => vd (cuboidB (⟨1, 2, 3⟩ : V3 ℝ) ⟨1, -2, 3⟩ q -
    (if |q.x| < (1 : ℝ) / 2 ∧ |q.y| < (2 : ℝ) / 2 ∧ |q.z| < (3 : ℝ) / 2 then ⟨1, -2, 3⟩ else ⟨0, 0, 0⟩)) mu0R)
    ⟨1 / 4, 1 / 3, -1 / 4⟩ := by
  apply cuboid_H_curl_free (⟨1, 2, 3⟩ : V3 ℝ) <;> norm_num [abs_of_pos, abs_of_neg]

open MagpyVerif.CuboidDiv MagpyVerif.CuboidCoulomb in
/-- C14 (Cuboid wrapper, the `BHJM_magnet_cuboid` row).  For positive side lengths, **every**
polarization (zero included) and every observer strictly outside the three thin shells
`| |p_i| − dim_i/2 | ≤ 1e-15·dim_i/2` in which the wrapper switches to its surface / edge special
cases: what the wrapper returns for `field="B"` is divergence-free and what it returns for
`field="H"` is curl-free there (masks, general branch, closed form and the subtraction of `J` under the
tolerance-based inside mask included); also div H = 0 and curl B = 0.  The shell hypotheses are strict
because at `|p_i| − dim_i/2 = +1e-15·dim_i/2` exactly the inside mask of the code flips and H jumps. -/
theorem cuboid_wrapper_div_curl_free (dim pol p : V3 ℝ) (hdx : 0 < dim.x) (hdy : 0 < dim.y) (hdz : 0 < dim.z)
    (hx : rtol * (dim.x / 2) < |(|p.x| - dim.x / 2)|) (hy : rtol * (dim.y / 2) < |(|p.y| - dim.y / 2)|)
    (hz : rtol * (dim.z / 2) < |(|p.z| - dim.z / 2)|) :
    DivFreeAt (bhjmCuboid .B dim pol) p ∧ CurlFreeAt (bhjmCuboid .H dim pol) p ∧
    DivFreeAt (bhjmCuboid .H dim pol) p ∧ CurlFreeAt (bhjmCuboid .B dim pol) p := by
  have hs : ShellOut dim p := ⟨hx, hy, hz⟩
  have hoff := hs.offP hdx hdy hdz
  have hG := coulombG_dcfree dim pol p hoff
  have hB : DCFree (bhjmCuboid .B dim pol) p := by
    refine (hG.add_const (if insideP dim p then pol else ⟨0, 0, 0⟩)).congr_goodS hoff hs ?_
    intro q hq
    obtain ⟨hsq, hoq, hin⟩ := hq
    rw [(C01.cuboid_wrapper_is_coulomb_integral dim pol q hdx hdy hdz hsq.1.le hsq.2.1.le hsq.2.2.le).2,
      coulombB_eq_G dim pol q hoq]
    by_cases hi : insideP dim p
    · have hq' : |q.x| < dim.x / 2 ∧ |q.y| < dim.y / 2 ∧ |q.z| < dim.z / 2 := hin.mpr hi
      rw [if_pos hi, if_pos hq']
    · have hq' : ¬ (|q.x| < dim.x / 2 ∧ |q.y| < dim.y / 2 ∧ |q.z| < dim.z / 2) := fun h => hi (hin.mp h)
      rw [if_neg hi, if_neg hq']
  have hH : DCFree (bhjmCuboid .H dim pol) p := by
    refine (hG.vd mu0R).congr_goodS hoff hs ?_
    intro q hq
    obtain ⟨hsq, hoq, -⟩ := hq
    rw [(C01.cuboid_wrapper_is_coulomb_integral dim pol q hdx hdy hdz hsq.1.le hsq.2.1.le hsq.2.2.le).1,
      coulombB_eq_G dim pol q hoq]
  exact ⟨hB.divFreeAt, hH.curlFreeAt, hH.divFreeAt, hB.curlFreeAt⟩

-- non-vacuity: the shell hypotheses hold far outside, in another octant, and strictly inside
open MagpyVerif.CuboidCoulomb in
example : DivFreeAt (bhjmCuboid .B (⟨1, 2, 3⟩ : V3 ℝ) ⟨1, -2, 3⟩) ⟨-3, 1 / 2, 5⟩ ∧
    CurlFreeAt (bhjmCuboid .H (⟨1, 2, 3⟩ : V3 ℝ) ⟨1, -2, 3⟩) ⟨-3, 1 / 2, 5⟩ := by
  have h := cuboid_wrapper_div_curl_free (⟨1, 2, 3⟩ : V3 ℝ) ⟨1, -2, 3⟩ ⟨-3, 1 / 2, 5⟩
    (by norm_num) (by norm_num) (by norm_num)
    (by unfold rtol; norm_num [abs_of_pos, abs_of_neg]) (by unfold rtol; norm_num [abs_of_pos, abs_of_neg])
    (by unfold rtol; norm_num [abs_of_pos, abs_of_neg])
  exact ⟨h.1, h.2.1⟩
open MagpyVerif.CuboidCoulomb in
example : DivFreeAt (bhjmCuboid .B (⟨1, 2, 3⟩ : V3 ℝ) ⟨1, -2, 3⟩) ⟨1 / 4, 1 / 3, -1 / 4⟩ ∧
    CurlFreeAt (bhjmCuboid .H (⟨1, 2, 3⟩ : V3 ℝ) ⟨1, -2, 3⟩) ⟨1 / 4, 1 / 3, -1 / 4⟩ := by
  have h := cuboid_wrapper_div_curl_free (⟨1, 2, 3⟩ : V3 ℝ) ⟨1, -2, 3⟩ ⟨1 / 4, 1 / 3, -1 / 4⟩
    (by norm_num) (by norm_num) (by norm_num)
    (by unfold rtol; norm_num [abs_of_pos, abs_of_neg]) (by unfold rtol; norm_num [abs_of_pos, abs_of_neg])
    (by unfold rtol; norm_num [abs_of_pos, abs_of_neg])
  exact ⟨h.1, h.2.1⟩

end MagpyVerif.C14
