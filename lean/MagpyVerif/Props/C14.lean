/-
Props/C14.lean — returned fields obey the integral laws of magnetostatics.
Proved: the interface conditions of the Sphere solution (normal B and tangential H continuous
across |x| = R), which together with B_in − μ₀H_in = J (C02) are what make the flux and
circulation laws hold for surfaces/loops that cut the boundary.
/- FULL: zero flux of B through every closed surface and circulation of H = linked current for
   every loop, all classes.  Needs C01 for every class plus Gauss/Stokes for general surfaces;
   not shown by theorem.  The flux/circulation quadrature oracle checks boxes and loops of sizes
   1e-2…1e2 of the source, in free space, inside magnets and cutting their boundary. -/
-/
import MagpyVerif.Lemmas.KernReal
namespace MagpyVerif.C14
open MagpyVerif MagpyVerif.Kern

/-- C14 (interface conditions across the sphere surface |x| = R): the normal component of B and
the tangential component of H are continuous — the jump conditions that make the flux law and
the circulation law hold for surfaces and loops cutting through the boundary. -/
theorem sphere_interface (R : ℝ) (hR : 0 < R) (pol x : V3 ℝ) (hx : Kern.norm x = R) :
    V3.dot (sphereOutB R pol x) x = V3.dot (vs (2 / 3) pol) x ∧
    V3.cross (vd (sphereOutB R pol x) mu0R) x = V3.cross (vd (vs (2 / 3) pol - pol) mu0R) x := by
  have hsq := norm_sq x
  have hmu : mu0R ≠ 0 := mu0R_pos.ne'
  have hR' : R ≠ 0 := hR.ne'
  simp only [sphereOutB, hx] at *
  have hxx : x.x * x.x = R * R - x.y * x.y - x.z * x.z := by linarith
  constructor
  · simp only [V3.dot, vs, vd, V3.sub_x, V3.sub_y, V3.sub_z]
    field_simp
    linear_combination (-3 * (pol.x * x.x + pol.y * x.y + pol.z * x.z)) * hsq
  · apply V3.ext' <;> simp only [V3.cross, V3.dot, vs, vd, V3.sub_x, V3.sub_y, V3.sub_z] <;> field_simp <;> ring

/-- inside the ball B − μ₀H = J: the term that closes the flux law inside the magnet -/
theorem sphere_inside_B_minus_mu0H (d : ℝ) (pol x : V3 ℝ) (hin : ¬ |d| / 2 < Kern.norm x) :
    bhjmSphere .B d pol x - vs mu0R (bhjmSphere .H d pol x) = pol := by
  have hmu : mu0R ≠ 0 := mu0R_pos.ne'
  simp only [bhjmSphere, lt_real, abs_real, n, ofNat_real, Nat.cast_ofNat, hin, decide_false, if_false,
    Bool.false_eq_true, mu0_real]
  apply V3.ext' <;> simp [vs, vd] <;> field_simp <;> ring

end MagpyVerif.C14
