/-
Props/C14.lean — returned fields obey the integral laws of magnetostatics.
Proved: the LOCAL (differential) forms of both laws for the Dipole kernel and for the Sphere:
div B = 0 and curl H = 0 at every point off the dipole position, resp. off the sphere surface
(all partial derivatives as `HasDerivAt` of one-variable sections of the model functions);
the interface conditions of the Sphere solution (normal B and tangential H continuous
across |x| = R), which together with B_in − μ₀H_in = J (C02) are what make the flux and
circulation laws hold for surfaces/loops that cut the boundary.
/- FULL: zero flux of B through every closed surface and circulation of H = linked current for
   every loop, all classes.  Needs C01 for every class plus Gauss/Stokes for general surfaces;
   not shown by theorem.  The flux/circulation quadrature oracle checks boxes and loops of sizes
   1e-2…1e2 of the source, in free space, inside magnets and cutting their boundary. -/
-/
import MagpyVerif.Lemmas.KernReal
import MagpyVerif.Lemmas.DipoleCalc
import MagpyVerif.Props.C13
namespace MagpyVerif.C14
open MagpyVerif MagpyVerif.Kern

/-- C14 (interface conditions across the sphere surface |x| = R): the normal component of B and
the tangential component of H are continuous — the jump conditions that make the flux law and
the circulation law hold for surfaces and loops cutting through the boundary. -/
theorem sphere_interface (R : ℝ) (hR : 0 < R) (pol x : V3 ℝ) (hx : Kern.norm x = R) :
    V3.dot (sphereOutB R pol x) x = V3.dot (vs (2 / 3) pol) x ∧
    V3.cross (vd (sphereOutB R pol x) mu0R) x = V3.cross (vd (vs (2 / 3) pol - pol) mu0R) x := by
  have hsq := norm_sq x
  have hmu : mu0R ≠ 0 := mu0R_pos.ne'
  have hR' : R ≠ 0 := hR.ne'
  simp only [sphereOutB, hx] at *
  have hxx : x.x * x.x = R * R - x.y * x.y - x.z * x.z := by linarith
  constructor
  · simp only [V3.dot, vs, vd, V3.sub_x, V3.sub_y, V3.sub_z]
    field_simp
    linear_combination (-3 * (pol.x * x.x + pol.y * x.y + pol.z * x.z)) * hsq
  · apply V3.ext' <;> simp only [V3.cross, V3.dot, vs, vd, V3.sub_x, V3.sub_y, V3.sub_z] <;> field_simp <;> ring

/-- inside the ball B − μ₀H = J: the term that closes the flux law inside the magnet -/
theorem sphere_inside_B_minus_mu0H (d : ℝ) (pol x : V3 ℝ) (hin : ¬ |d| / 2 < Kern.norm x) :
    bhjmSphere .B d pol x - vs mu0R (bhjmSphere .H d pol x) = pol := by
  have hmu : mu0R ≠ 0 := mu0R_pos.ne'
  simp only [bhjmSphere, lt_real, abs_real, n, ofNat_real, Nat.cast_ofNat, hin, decide_false, if_false,
    Bool.false_eq_true, mu0_real]
  apply V3.ext' <;> simp [vs, vd] <;> field_simp <;> ring

/-! ### local forms of the two laws: Dipole -/

/-- C14 (Dipole, local form of the flux law).  At every point (x,y,z) other than the dipole
position the three partial derivatives ∂Hx/∂x, ∂Hy/∂y, ∂Hz/∂z of `dipole_Hfield` exist and add
up to zero: div H = 0, hence div B = μ₀ div H = 0 (`dipole_B_div_free`).  By Gauss's theorem this
is what makes the flux of B through any closed surface not containing the dipole vanish. -/
theorem dipole_div_free (m : V3 ℝ) (x y z : ℝ) (hx : (⟨x, y, z⟩ : V3 ℝ) ≠ ⟨0, 0, 0⟩) :
    ∃ dxx dyy dzz : ℝ,
      HasDerivAt (fun t => (dipoleH m ⟨t, y, z⟩).x) dxx x ∧
      HasDerivAt (fun t => (dipoleH m ⟨x, t, z⟩).y) dyy y ∧
      HasDerivAt (fun t => (dipoleH m ⟨x, y, t⟩).z) dzz z ∧
      dxx + dyy + dzz = 0 :=
  (dipoleH_hasPartials m ⟨x, y, z⟩ (norm_ne_zero_of_ne hx)).divFreeAt
    (dipoleJac_div m _ (norm_ne_zero_of_ne hx))

/-- the same statement with Mathlib's `deriv`: the divergence of `dipole_Hfield`, written as the sum
of the derivatives of its three coordinate sections, is 0 off the dipole position -/
theorem dipole_div_free_deriv (m : V3 ℝ) (x y z : ℝ) (hx : (⟨x, y, z⟩ : V3 ℝ) ≠ ⟨0, 0, 0⟩) :
    deriv (fun t => (dipoleH m ⟨t, y, z⟩).x) x + deriv (fun t => (dipoleH m ⟨x, t, z⟩).y) y
      + deriv (fun t => (dipoleH m ⟨x, y, t⟩).z) z = 0 := by
  obtain ⟨a, b, c, ha, hb, hc, h⟩ := dipole_div_free m x y z hx
  rw [ha.deriv, hb.deriv, hc.deriv]
  exact h

/-- non-vacuity: the point (0,0,1) is off the dipole, the field of the moment (0,0,1) is not zero
there, and the single partial ∂Hz/∂z is not zero (so the vanishing of the sum is not trivial) -/
example : ∃ dxx dyy dzz : ℝ,
    HasDerivAt (fun t => (dipoleH ⟨0, 0, 1⟩ (⟨t, 0, 1⟩ : V3 ℝ)).x) dxx 0 ∧
    HasDerivAt (fun t => (dipoleH ⟨0, 0, 1⟩ (⟨0, t, 1⟩ : V3 ℝ)).y) dyy 0 ∧
    HasDerivAt (fun t => (dipoleH ⟨0, 0, 1⟩ (⟨0, 0, t⟩ : V3 ℝ)).z) dzz 1 ∧
    dxx + dyy + dzz = 0 := dipole_div_free ⟨0, 0, 1⟩ 0 0 1 (by simp)
example : (dipoleH ⟨0, 0, 1⟩ (⟨0, 0, 1⟩ : V3 ℝ)).z = 1 / (2 * Real.pi) := by
  have h := norm_axis_z 1 zero_le_one
  simp only [dipoleH, vs, vd, n, ofNat_real, pi_real, V3.dot, V3.sub_z, Nat.cast_ofNat, h]
  field_simp; ring
example : (dipoleJac ⟨0, 0, 1⟩ (⟨0, 0, 1⟩ : V3 ℝ)).r3.z = -6 / (4 * Real.pi) := by
  have h := norm_axis_z 1 zero_le_one
  simp only [dipoleJac, dipoleJ, V3.dot, h]
  ring

/-- C14 (Dipole, local form of Ampère's law without currents).  At every point other than the
dipole position the six mixed partial derivatives of `dipole_Hfield` exist and the three
components of curl H vanish: ∂Hz/∂y − ∂Hy/∂z = 0, ∂Hx/∂z − ∂Hz/∂x = 0, ∂Hy/∂x − ∂Hx/∂y = 0.
By Stokes's theorem this is what makes the circulation of H around any loop that bounds a
surface avoiding the dipole vanish. -/
theorem dipole_curl_free (m : V3 ℝ) (x y z : ℝ) (hx : (⟨x, y, z⟩ : V3 ℝ) ≠ ⟨0, 0, 0⟩) :
    ∃ dzy dyz dxz dzx dyx dxy : ℝ,
      HasDerivAt (fun t => (dipoleH m ⟨x, t, z⟩).z) dzy y ∧
      HasDerivAt (fun t => (dipoleH m ⟨x, y, t⟩).y) dyz z ∧
      HasDerivAt (fun t => (dipoleH m ⟨x, y, t⟩).x) dxz z ∧
      HasDerivAt (fun t => (dipoleH m ⟨t, y, z⟩).z) dzx x ∧
      HasDerivAt (fun t => (dipoleH m ⟨t, y, z⟩).y) dyx x ∧
      HasDerivAt (fun t => (dipoleH m ⟨x, t, z⟩).x) dxy y ∧
      dzy - dyz = 0 ∧ dxz - dzx = 0 ∧ dyx - dxy = 0 :=
  (dipoleH_hasPartials m ⟨x, y, z⟩ (norm_ne_zero_of_ne hx)).curlFreeAt (dipoleJac_curl m _)

/-- non-vacuity: at (1,0,1) the mixed partial ∂Hx/∂z of the moment (0,0,1) is not zero -/
example : CurlFreeAt (dipoleH ⟨0, 0, 1⟩) ⟨1, 0, 1⟩ := dipole_curl_free ⟨0, 0, 1⟩ 1 0 1 (by simp)
example : (dipoleJac ⟨0, 0, 1⟩ (⟨1, 0, 1⟩ : V3 ℝ)).r1.z ≠ 0 := by
  have h2 : Kern.norm (⟨1, 0, 1⟩ : V3 ℝ) * Kern.norm (⟨1, 0, 1⟩ : V3 ℝ) = 2 := by
    rw [norm_sq]; norm_num
  have hr : 0 < Kern.norm (⟨1, 0, 1⟩ : V3 ℝ) := norm_pos_of_ne (by simp)
  simp only [dipoleJac, dipoleJ, V3.dot]
  generalize Kern.norm (⟨1, 0, 1⟩ : V3 ℝ) = r at *
  have hπ : Real.pi ≠ 0 := Real.pi_ne_zero
  have hr0 : r ≠ 0 := hr.ne'
  have h7 : r ^ 7 = r ^ 5 * 2 := by rw [← h2]; ring
  rw [h7]
  field_simp
  norm_num
  exact hr0

/-- the same two laws for what `BHJM_dipole` returns: div B = 0 for `field="B"` (B = μ₀H) and
curl H = 0 for `field="H"`, at every point off the dipole position -/
theorem dipole_wrapper_div_curl_free (m p : V3 ℝ) (hp : p ≠ ⟨0, 0, 0⟩) :
    DivFreeAt (bhjmDipole .B m) p ∧ CurlFreeAt (bhjmDipole .H m) p := by
  have h0 := norm_ne_zero_of_ne hp
  have h := dipoleH_hasPartials m p h0
  refine ⟨(h.const_smul mu0R).divFreeAt ?_, h.curlFreeAt (dipoleJac_curl m p)⟩
  rw [jacDiv_scale, dipoleJac_div m p h0, mul_zero]

example : DivFreeAt (bhjmDipole .B ⟨0, 0, 1⟩) ⟨1, 2, 2⟩ ∧ CurlFreeAt (bhjmDipole .H ⟨0, 0, 1⟩) ⟨1, 2, 2⟩ :=
  dipole_wrapper_div_curl_free _ _ (by simp)

/-! ### local forms of the two laws: Sphere -/

/-- outside the ball the B-field of `BHJM_magnet_sphere` is μ₀ times the dipole H-field of the
moment J·V/μ₀ (companion of `C13.sphere_outside_eq_dipole`, which is the statement for H) -/
theorem sphere_outside_B_eq_mu0_dipole (d : ℝ) (pol x : V3 ℝ) (hout : |d| / 2 < Kern.norm x) :
    bhjmSphere .B d pol x =
      vs mu0R (dipoleH (vs (4 / 3 * Real.pi * (|d| / 2) ^ 3 / mu0R) pol) x) := by
  rw [← C13.sphere_outside_eq_dipole d pol x hout]
  have hmu : mu0R ≠ 0 := mu0R_pos.ne'
  simp only [bhjmSphere, lt_real, abs_real, n, ofNat_real, Nat.cast_ofNat, hout, decide_true, if_true, mu0_real]
  apply V3.ext' <;> simp [vs, vd] <;> field_simp

/-- C14 (Sphere, outside, |x| > |d|/2): div B = 0 and curl H = 0 (and also div H = 0, curl B = 0,
there being neither polarization nor current outside).  The inside/outside test of the code is
constant on the open set |x| > |d|/2, so near the point the field is the dipole field. -/
theorem sphere_outside_div_curl_free (d : ℝ) (pol p : V3 ℝ) (hout : |d| / 2 < Kern.norm p) :
    DivFreeAt (bhjmSphere .B d pol) p ∧ CurlFreeAt (bhjmSphere .H d pol) p ∧
    DivFreeAt (bhjmSphere .H d pol) p ∧ CurlFreeAt (bhjmSphere .B d pol) p := by
  have h0 : Kern.norm p ≠ 0 := (lt_of_le_of_lt (by positivity) hout).ne'
  have h := dipoleH_hasPartials (vs (4 / 3 * Real.pi * (|d| / 2) ^ 3 / mu0R) pol) p h0
  have hH : HasPartials (bhjmSphere .H d pol) p _ :=
    h.congr_on_norm_gt hout (fun q hq => C13.sphere_outside_eq_dipole d pol q hq)
  have hB : HasPartials (bhjmSphere .B d pol) p _ :=
    (h.const_smul mu0R).congr_on_norm_gt hout (fun q hq => sphere_outside_B_eq_mu0_dipole d pol q hq)
  refine ⟨hB.divFreeAt ?_, hH.curlFreeAt (dipoleJac_curl _ p), hH.divFreeAt (dipoleJac_div _ p h0),
    hB.curlFreeAt ?_⟩
  · rw [jacDiv_scale, dipoleJac_div _ p h0, mul_zero]
  · rw [jacCurl_scale, dipoleJac_curl]; simp [vs]

/-- non-vacuity: diameter 2, polarization (0,0,1), observer (0,0,2) is outside (2 > 1) -/
example : DivFreeAt (bhjmSphere .B 2 ⟨0, 0, 1⟩) ⟨0, 0, 2⟩ ∧ CurlFreeAt (bhjmSphere .H 2 ⟨0, 0, 1⟩) ⟨0, 0, 2⟩ := by
  have h := sphere_outside_div_curl_free 2 ⟨0, 0, 1⟩ ⟨0, 0, 2⟩
    (by rw [norm_axis_z 2 (by norm_num)]; norm_num)
  exact ⟨h.1, h.2.1⟩

/-- strictly inside the ball every field `BHJM_magnet_sphere` returns is constant -/
theorem sphere_inside_const (f : Field) (d : ℝ) (pol q q' : V3 ℝ)
    (hq : Kern.norm q < |d| / 2) (hq' : Kern.norm q' < |d| / 2) :
    bhjmSphere f d pol q = bhjmSphere f d pol q' := by
  have h1 : ¬ |d| / 2 < Kern.norm q := not_lt.mpr hq.le
  have h2 : ¬ |d| / 2 < Kern.norm q' := not_lt.mpr hq'.le
  cases f <;>
    simp only [bhjmSphere, lt_real, abs_real, n, ofNat_real, Nat.cast_ofNat, h1, h2, decide_false,
      Bool.false_eq_true, if_false]

/-- C14 (Sphere, strictly inside, |x| < |d|/2): every partial derivative of every returned field
is 0 (the inside/outside test is constant on the open ball, and the inside fields are constant) -/
theorem sphere_inside_partials_zero (f : Field) (d : ℝ) (pol p : V3 ℝ) (hin : Kern.norm p < |d| / 2) :
    HasPartials (bhjmSphere f d pol) p jacZero :=
  (HasPartials.const (bhjmSphere f d pol p) p).congr_on_norm_lt hin
    (fun q hq => sphere_inside_const f d pol q p hq hin)

/-- C14 (Sphere, strictly inside): div B = 0 (flux law inside the magnet) and curl H = 0
(no free currents), and likewise div H = 0, curl B = 0 for the homogeneous inside field -/
theorem sphere_inside_div_curl_free (d : ℝ) (pol p : V3 ℝ) (hin : Kern.norm p < |d| / 2) :
    DivFreeAt (bhjmSphere .B d pol) p ∧ CurlFreeAt (bhjmSphere .H d pol) p ∧
    DivFreeAt (bhjmSphere .H d pol) p ∧ CurlFreeAt (bhjmSphere .B d pol) p :=
  ⟨(sphere_inside_partials_zero .B d pol p hin).divFreeAt jacDiv_zero,
   (sphere_inside_partials_zero .H d pol p hin).curlFreeAt jacCurl_zero,
   (sphere_inside_partials_zero .H d pol p hin).divFreeAt jacDiv_zero,
   (sphere_inside_partials_zero .B d pol p hin).curlFreeAt jacCurl_zero⟩

/-- non-vacuity: diameter 2, observer (0,0,1/2) is strictly inside; the field there is ⅔J ≠ 0 -/
example : DivFreeAt (bhjmSphere .B 2 ⟨0, 0, 1⟩) ⟨0, 0, 1 / 2⟩ ∧ CurlFreeAt (bhjmSphere .H 2 ⟨0, 0, 1⟩) ⟨0, 0, 1 / 2⟩ := by
  have h := sphere_inside_div_curl_free 2 ⟨0, 0, 1⟩ ⟨0, 0, 1 / 2⟩
    (by rw [norm_axis_z (1 / 2) (by norm_num)]; norm_num)
  exact ⟨h.1, h.2.1⟩
example : (bhjmSphere .B 2 ⟨0, 0, 1⟩ (⟨0, 0, 1 / 2⟩ : V3 ℝ)).z = 2 / 3 := by
  have h : ¬ |(2 : ℝ)| / 2 < Kern.norm (⟨0, 0, 1 / 2⟩ : V3 ℝ) := by
    rw [norm_axis_z (1 / 2) (by norm_num)]; norm_num
  simp only [bhjmSphere, lt_real, abs_real, n, ofNat_real, Nat.cast_ofNat, h, decide_false,
    Bool.false_eq_true, if_false, vs]
  norm_num

end MagpyVerif.C14
